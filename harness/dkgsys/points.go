package dkgsys

import (
	"strings"
	"sync"

	crypto "github.com/onflow/crypto"

	"verif/harness/ref/refbls"
)

// CancelNonG2 returns the encodings of A+T and B-T for a fixed T of E2 outside G2 (reference
// arithmetic): both points are on the curve and outside G2, their sum is A+B.
func CancelNonG2(a, b []byte) ([]byte, []byte) {
	A, err1 := refbls.DecodeG2Flow(a)
	B, err2 := refbls.DecodeG2Flow(b)
	if err1 != nil || err2 != nil {
		panic("dkgsys: CancelNonG2 on undecodable points")
	}
	T := refbls.CofactorPointG2()
	return refbls.EncodeG2Flow(A.Add(T)), refbls.EncodeG2Flow(B.Add(T.Neg()))
}

// Adversarial G2 encodings. The library is used only as a *generator* of hostile inputs here
// (its error text tells an off-curve x from an on-curve point outside G2); no verdict of a
// check depends on it.

var (
	ptOnce     sync.Once
	offCurve   []byte
	nonSubgrp  []byte
	otherVecMu sync.Mutex
	otherVecs  = map[int][]byte{}
)

func findPoints() {
	base := make([]byte, 96)
	base[0] = 0x80
	for i := 1; i < 96; i++ {
		base[i] = byte(i * 11)
	}
	for c := 0; c < 4096 && (offCurve == nil || nonSubgrp == nil); c++ {
		b := append([]byte{}, base...)
		b[95] = byte(c)
		b[94] = byte(c >> 8)
		_, err := crypto.DecodePublicKey(crypto.BLSBLS12381, b)
		if err == nil {
			continue
		}
		if strings.Contains(err.Error(), "not a point on curve") {
			if offCurve == nil {
				offCurve = b
			}
		} else if strings.Contains(err.Error(), "valid group") {
			if nonSubgrp == nil {
				nonSubgrp = b
			}
		}
	}
	if offCurve == nil || nonSubgrp == nil {
		panic("dkgsys: could not construct hostile G2 encodings")
	}
}

// OffCurveG2 returns 96 bytes with a clean header whose x is not on E2.
func OffCurveG2() []byte { ptOnce.Do(findPoints); return append([]byte{}, offCurve...) }

// NonSubgroupG2 returns the encoding of an E2 point outside G2.
func NonSubgroupG2() []byte { ptOnce.Do(findPoints); return append([]byte{}, nonSubgrp...) }

// OtherVector returns the t+1 points of the verification vector of an unrelated polynomial.
func OtherVector(t int) []byte {
	otherVecMu.Lock()
	defer otherVecMu.Unlock()
	if v, ok := otherVecs[t]; ok {
		return append([]byte{}, v...)
	}
	nd, err := NewNode(FVSSQ, t+2, t, 0, 0)
	if err != nil {
		panic(err)
	}
	seed := make([]byte, 32)
	for i := range seed {
		seed[i] = byte(200 + i)
	}
	if err := nd.Inst.Start(seed); err != nil {
		panic(err)
	}
	for _, m := range nd.Rec.Drain() {
		if m.Bcast() && m.Data[0] == tagVec {
			otherVecs[t] = append([]byte{}, m.Data[1:]...)
		}
	}
	return append([]byte{}, otherVecs[t]...)
}
