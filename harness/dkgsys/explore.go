package dkgsys

import "fmt"

// Report of one exhaustive exploration (one configuration, one adversary script).
type Report struct {
	Cfg         *Config
	Script      Script
	States      int
	Transitions int
	MaxDepth    int
	Capped      bool
	Terminals   []*Terminal
	InitEvents  []Event
	// Reactive: OR of State.Reactive over all explored states (which honest reactive broadcasts
	// occurred anywhere): tells the caller which Config.Net variants differ from this one
	Reactive int
}

type Terminal struct {
	State *State
	Path  []Trans
}

type link struct {
	parent int32
	t      Trans
}

// Monitor is called on every explored edge (prev may be nil for the initial state).
type Monitor func(prev *State, t Trans, next *State, evs []Event, path func() []Trans)

// Explore runs a BFS over all delivery orders of the closed system (cfg, script).
// Delivery order is unbounded here; see ExploreBounded for the deviation-bounded variant.
func Explore(cfg *Config, script Script, maxStates int, mon Monitor) (*Report, error) {
	return ExploreBounded(cfg, script, maxStates, -1, mon)
}

// ExploreBounded is Explore with a bound on delivery-order deviations (reorderBound < 0: none).
// The default schedule always takes the FIRST enabled transition in the canonical order of
// Enabled() (receiver-major, then sender, private before broadcast); taking any other enabled
// transition costs one deviation - the exact analogue of a preemption. All paths with at most
// reorderBound deviations are explored (cost-layered search: a state is expanded with the
// smallest number of deviations it can be reached with, so nothing within the bound is lost to
// state matching).
func ExploreBounded(cfg *Config, script Script, maxStates int, reorderBound int, mon Monitor) (*Report, error) {
	if reorderBound < 0 {
		return exploreAll(cfg, script, maxStates, mon)
	}
	rep := &Report{Cfg: cfg, Script: script}
	init, evs, err := Init(cfg, script)
	if err != nil {
		return nil, err
	}
	rep.InitEvents = evs
	if mon != nil {
		mon(nil, Trans{}, init, evs, func() []Trans { return nil })
	}
	type vis struct {
		id   int32
		cost int
	}
	visited := map[[32]byte]*vis{}
	var links []link
	pathOf := func(id int32) []Trans {
		var p []Trans
		for id > 0 {
			p = append(p, links[id].t)
			id = links[id].parent
		}
		for i, j := 0, len(p)-1; i < j; i, j = i+1, j-1 {
			p[i], p[j] = p[j], p[i]
		}
		return p
	}
	type item struct {
		s     *State
		v     *vis
		cost  int
		depth int
	}
	v0 := &vis{0, 0}
	visited[init.Hash()] = v0
	links = append(links, link{-1, Trans{}})
	layers := make([][]item, reorderBound+1)
	layers[0] = []item{{init, v0, 0, 0}}
	rep.States = 1
	for c := 0; c <= reorderBound; c++ {
		for len(layers[c]) > 0 {
			it := layers[c][0]
			layers[c] = layers[c][1:]
			if it.v.cost < it.cost {
				continue // reached more cheaply meanwhile and expanded there
			}
			if it.depth > rep.MaxDepth {
				rep.MaxDepth = it.depth
			}
			en := it.s.Enabled()
			if len(en) == 0 {
				rep.Terminals = append(rep.Terminals, &Terminal{it.s, pathOf(it.v.id)})
				continue
			}
			for k, t := range en {
				nc := c
				if k > 0 {
					nc++
				}
				if nc > reorderBound {
					break
				}
				nx, evs := it.s.Apply(t)
				rep.Reactive |= nx.Reactive
				rep.Transitions++
				if mon != nil {
					id := it.v.id
					tt := t
					mon(it.s, t, nx, evs, func() []Trans { return append(pathOf(id), tt) })
				}
				h := nx.Hash()
				if v, ok := visited[h]; ok {
					if v.cost <= nc {
						continue
					}
					// reached with fewer deviations than before: re-link and expand again at this cost
					v.cost = nc
					links[v.id] = link{it.v.id, t}
					layers[nc] = append(layers[nc], item{nx, v, nc, it.depth + 1})
					continue
				}
				if maxStates > 0 && rep.States >= maxStates {
					rep.Capped = true
					continue
				}
				nv := &vis{int32(len(links)), nc}
				links = append(links, link{it.v.id, t})
				visited[h] = nv
				rep.States++
				layers[nc] = append(layers[nc], item{nx, nv, nc, it.depth + 1})
			}
		}
	}
	return rep, nil
}

func exploreAll(cfg *Config, script Script, maxStates int, mon Monitor) (*Report, error) {
	rep := &Report{Cfg: cfg, Script: script}
	init, evs, err := Init(cfg, script)
	if err != nil {
		return nil, err
	}
	rep.InitEvents = evs
	if mon != nil {
		mon(nil, Trans{}, init, evs, func() []Trans { return nil })
	}
	visited := map[[32]byte]int32{}
	var links []link
	pathOf := func(id int32) []Trans {
		var p []Trans
		for id > 0 {
			p = append(p, links[id].t)
			id = links[id].parent
		}
		for i, j := 0, len(p)-1; i < j; i, j = i+1, j-1 {
			p[i], p[j] = p[j], p[i]
		}
		return p
	}
	type item struct {
		s     *State
		id    int32
		depth int
	}
	visited[init.Hash()] = 0
	links = append(links, link{-1, Trans{}})
	frontier := []item{{init, 0, 0}}
	rep.States = 1
	for len(frontier) > 0 {
		it := frontier[0]
		frontier = frontier[1:]
		if it.depth > rep.MaxDepth {
			rep.MaxDepth = it.depth
		}
		en := it.s.Enabled()
		if len(en) == 0 {
			rep.Terminals = append(rep.Terminals, &Terminal{it.s, pathOf(it.id)})
			continue
		}
		for _, t := range en {
			nx, evs := it.s.Apply(t)
			rep.Reactive |= nx.Reactive
			rep.Transitions++
			if mon != nil {
				id := it.id
				tt := t
				mon(it.s, t, nx, evs, func() []Trans { return append(pathOf(id), tt) })
			}
			h := nx.Hash()
			if _, ok := visited[h]; ok {
				continue
			}
			if maxStates > 0 && rep.States >= maxStates {
				rep.Capped = true
				continue
			}
			nid := int32(len(links))
			links = append(links, link{it.id, t})
			visited[h] = nid
			rep.States++
			frontier = append(frontier, item{nx, nid, it.depth + 1})
		}
	}
	return rep, nil
}

// Replay re-executes a path from scratch on fresh instances (the conformance check of the
// clone-based exploration: the state reached must be identical).
func Replay(cfg *Config, script Script, path []Trans) (*State, [][]Event, error) {
	s, evs, err := initState(cfg, script, true)
	if err != nil {
		return nil, nil, err
	}
	all := [][]Event{evs}
	for i, t := range path {
		ok := false
		for _, e := range s.Enabled() {
			if e == t {
				ok = true
			}
		}
		if !ok {
			return nil, nil, fmt.Errorf("replay diverged at step %d: %v not enabled", i, t)
		}
		var ev []Event
		s, ev = s.Apply(t)
		all = append(all, ev)
	}
	return s, all, nil
}
