package dkgsys

import (
	"bytes"
	"crypto/sha256"
	"encoding/binary"
	"fmt"
	"sort"
	"strings"
	"sync"
	"sync/atomic"

	crypto "github.com/onflow/crypto"
)

// Config of one closed system.
type Config struct {
	Proto  Protocol
	N, T   int
	Dealer int   // FVSSQ only
	Byz    []int // scripted Byzantine participants (each has a real shadow instance)
	Seed   int64
	// Net: in which round the REACTIVE broadcasts of honest participants land (a complaint sent on
	// receipt of a bad share, a dealer's answer sent on receipt of a complaint). Such a message is
	// sent somewhere inside round k, so round-synchronous delivery allows it to land in round k or
	// in round k+1 (the protocol has the answers round, closed by End, for exactly this reason).
	// bit 0: honest answers of rounds 1 and 2 land one round later; bit 1: honest complaints of
	// round 1 land in round 2. The same choice at every receiver (reliable broadcast).
	Net int
}

func (c *Config) IsByz(i int) bool {
	for _, z := range c.Byz {
		if z == i {
			return true
		}
	}
	return false
}
func (c *Config) Honest() []int {
	var h []int
	for i := 0; i < c.N; i++ {
		if !c.IsByz(i) {
			h = append(h, i)
		}
	}
	return h
}
func (c *Config) IsDealer(i int) bool { return c.Proto == JF || i == c.Dealer }
func (c *Config) String() string {
	if c.Net != 0 {
		return fmt.Sprintf("%s(n=%d,t=%d,dealer=%d,byz=%v,net=%s)", c.Proto, c.N, c.T, c.Dealer, c.Byz, [...]string{"", "answers-next-round", "complaints-next-round", "answers+complaints-next-round"}[c.Net&3])
	}
	return fmt.Sprintf("%s(n=%d,t=%d,dealer=%d,byz=%v)", c.Proto, c.N, c.T, c.Dealer, c.Byz)
}

// Deviation of a Byzantine participant Z from its shadow's honest behaviour.
//
//	Slot "vec"            : Z's verification-vector broadcast
//	Slot "share:<r>"      : Z's private share to r
//	Slot "ans:<c>"        : Z's (reactive) answer to the complaint of c
//	Slot "cmp:<d>"        : Z's own (reactive/timeout) complaint against dealer d
//	Slot "inj:<k>:<kind>" : an extra message injected at the start of phase k
type Deviation struct {
	Z    int
	Slot string
	Var  string
}

func (d Deviation) String() string { return fmt.Sprintf("Z%d/%s/%s", d.Z, d.Slot, d.Var) }

type Script []Deviation

func (s Script) String() string {
	if len(s) == 0 {
		return "honest"
	}
	var p []string
	for _, d := range s {
		p = append(p, d.String())
	}
	return strings.Join(p, "+")
}

// Trans is one transition of the system.
type Trans struct {
	Barrier            bool
	Recv, Sender, Chan int // Chan 0 = private, 1 = broadcast
}

func (t Trans) String() string {
	if t.Barrier {
		return "barrier"
	}
	ch := "priv"
	if t.Chan == 1 {
		ch = "bcast"
	}
	return fmt.Sprintf("deliver(%d<-%d,%s)", t.Recv, t.Sender, ch)
}

// Result of End() at one honest participant.
type Result struct {
	Class    string // "ok", "failure", "other:<msg>", "panic:<msg>"
	SK       []byte
	GroupPK  []byte
	PKShares [][]byte
	priv     crypto.PrivateKey
	group    crypto.PublicKey
	shares   []crypto.PublicKey
}

func (r *Result) Priv() crypto.PrivateKey     { return r.priv }
func (r *Result) Group() crypto.PublicKey     { return r.group }
func (r *Result) Shares() []crypto.PublicKey  { return r.shares }

// Event is something a monitor wants to look at, produced while applying a transition.
type Event struct {
	Kind     string // "disq", "flag", "panic", "err"
	Reporter int
	Target   int
	Log      string
}

// State of the closed system.
type State struct {
	Cfg     *Config
	Script  Script
	Nodes   []*Node // honest real instances (nil at Byzantine indices)
	Shadows []*Node // shadow real instances (nil at honest indices)
	Phase   int     // 1,2,3 while running; 4 after End
	Q       [][]Msg // index (recv*N+sender)*2+chan
	Held    []Msg   // "late" messages released at the start of the next phase
	HeldLast []Msg  // "late...last" messages: released at the start of the next phase AFTER that phase's injections (the sender chooses the order of its own broadcasts)
	HeldHonest []Msg // reactive honest broadcasts that land in the next round (Cfg.Net)
	// Reactive records (for the caller) which kinds of honest reactive broadcasts occurred so far:
	// bit 0 an answer in round 1 or 2, bit 1 a complaint in round 1. Not part of the canonical state.
	Reactive int
	Results []*Result
	zshare  map[[2]int][]byte // share payload Z dealt to r (for premature answers)
	Undelivered int
	// Obs is the set of protocol-relevant facts about what was SENT so far (complaints,
	// answers, vectors with the phase they were sent in). It is part of the canonical state so
	// that terminal-state oracles that read it are functions of the state.
	Obs []string
	// NoClone: mutate the real instances in place (used by Replay: no cloning involved at all).
	NoClone bool
}

func (s *State) own(nd *Node) *Node {
	if s.NoClone {
		nd.Invalidate()
		return nd
	}
	return nd.Clone()
}

func (s *State) observe(f string) {
	for _, o := range s.Obs {
		if o == f {
			return
		}
	}
	n := append(append([]string(nil), s.Obs...), f)
	sort.Strings(n)
	s.Obs = n
}

func (s *State) qi(recv, sender, ch int) int { return (recv*s.Cfg.N+sender)*2 + ch }

func (s *State) shallow() *State {
	n := *s
	n.Nodes = append([]*Node(nil), s.Nodes...)
	n.Shadows = append([]*Node(nil), s.Shadows...)
	n.Q = append([][]Msg(nil), s.Q...)
	n.Held = append([]Msg(nil), s.Held...)
	n.HeldLast = append([]Msg(nil), s.HeldLast...)
	n.HeldHonest = append([]Msg(nil), s.HeldHonest...)
	return &n
}

// Hash is the canonical state of the whole system.
func (s *State) Hash() [32]byte {
	h := sha256.New()
	var b [8]byte
	w := func(x int) { binary.LittleEndian.PutUint64(b[:], uint64(int64(x))); h.Write(b[:]) }
	w(s.Phase)
	for i := 0; i < s.Cfg.N; i++ {
		if s.Nodes[i] != nil {
			x := s.Nodes[i].Hash()
			h.Write(x[:])
		}
		if s.Shadows[i] != nil {
			x := s.Shadows[i].Hash()
			h.Write(x[:])
		}
	}
	for i, q := range s.Q {
		if len(q) == 0 {
			continue
		}
		w(i)
		w(len(q))
		for _, m := range q {
			w(len(m.Data))
			h.Write(m.Data)
		}
	}
	w(-9)
	for _, o := range s.Obs {
		h.Write([]byte(o))
		h.Write([]byte{0})
	}
	w(-7)
	held := make([]string, 0, len(s.Held))
	for _, m := range s.Held {
		held = append(held, fmt.Sprintf("%d>%d:%x", m.From, m.To, m.Data))
	}
	for _, m := range s.HeldLast {
		held = append(held, fmt.Sprintf("last:%d>%d:%x", m.From, m.To, m.Data))
	}
	// held keeps per-sender order; senders are scripted, so the list order is deterministic
	for _, x := range held {
		h.Write([]byte(x))
		h.Write([]byte{0})
	}
	w(-5)
	for _, m := range s.HeldHonest {
		w(m.From)
		w(len(m.Data))
		h.Write(m.Data)
	}
	var o [32]byte
	copy(o[:], h.Sum(nil))
	return o
}

// routeReactive routes what honest participant i emitted while handling a delivery.
func (s *State) routeReactive(i int, out []Msg, evs *[]Event) {
	if s.Cfg.IsByz(i) {
		s.routeOut(i, out, evs)
		return
	}
	for _, m := range out {
		if m.Bcast() && len(m.Data) > 0 {
			switch {
			case m.Data[0] == tagAnswer && s.Phase <= 2:
				s.Reactive |= 1
				if s.Cfg.Net&1 != 0 {
					s.HeldHonest = append(s.HeldHonest, m)
					continue
				}
			case m.Data[0] == tagCmp && s.Phase == 1:
				s.Reactive |= 2
				if s.Cfg.Net&2 != 0 {
					s.HeldHonest = append(s.HeldHonest, m)
					continue
				}
			}
		}
		s.send(m, evs)
	}
}

// Init builds the initial state: all participants constructed and started (phase 1).
func Init(cfg *Config, script Script) (*State, []Event, error) {
	return initState(cfg, script, false)
}

func initState(cfg *Config, script Script, noClone bool) (*State, []Event, error) {
	s := &State{Cfg: cfg, Script: script, Phase: 1, zshare: map[[2]int][]byte{}, NoClone: noClone}
	s.Nodes = make([]*Node, cfg.N)
	s.Shadows = make([]*Node, cfg.N)
	s.Q = make([][]Msg, cfg.N*cfg.N*2)
	for i := 0; i < cfg.N; i++ {
		nd, err := NewNode(cfg.Proto, cfg.N, cfg.T, i, cfg.Dealer)
		if err != nil {
			return nil, nil, err
		}
		if cfg.IsByz(i) {
			s.Shadows[i] = nd
		} else {
			s.Nodes[i] = nd
		}
	}
	var evs []Event
	for i := 0; i < cfg.N; i++ {
		nd := s.node(i)
		var err error
		if p := Safe(func() { err = nd.Inst.Start(SeedFor(cfg.Seed, i)) }); p != "" {
			evs = append(evs, Event{"panic", i, -1, "Start: " + p})
		}
		if err != nil {
			return nil, nil, fmt.Errorf("start %d: %w", i, err)
		}
	}
	// route what Start emitted, in index order (drain everything first: a node must never process
	// a message while it still holds undrained output, see local())
	outs := make([][]Msg, cfg.N)
	for i := 0; i < cfg.N; i++ {
		outs[i] = s.node(i).Rec.Drain()
	}
	// a Byzantine participant chooses the order of its own broadcasts: injections of "phase 0" go
	// out BEFORE its regular first-round messages (e.g. an answer that precedes the vector on the
	// FIFO broadcast channel), those of phase 1 after them. The shares it deals are recorded first.
	for i := 0; i < cfg.N; i++ {
		if !cfg.IsByz(i) {
			continue
		}
		for _, m := range outs[i] {
			if !m.Bcast() && len(m.Data) > 0 && m.Data[0] == tagShare {
				s.zshare[[2]int{i, m.To}] = append([]byte{}, m.Data[1:]...)
			}
		}
	}
	s.inject(0, &evs)
	for i := 0; i < cfg.N; i++ {
		s.routeOut(i, outs[i], &evs)
	}
	s.inject(1, &evs)
	return s, evs, nil
}

func (s *State) node(i int) *Node {
	if s.Nodes[i] != nil {
		return s.Nodes[i]
	}
	return s.Shadows[i]
}

// routeOut takes what participant i just emitted, applies Z's script if i is Byzantine, and enqueues.
func (s *State) routeOut(i int, out []Msg, evs *[]Event) {
	if len(out) == 0 {
		return
	}
	if s.Cfg.IsByz(i) {
		for _, m := range out {
			now, later := s.deviate(i, m)
			for _, x := range now {
				s.send(x, evs)
			}
			s.Held = append(s.Held, later...)
		}
		return
	}
	for _, m := range out {
		s.send(m, evs)
	}
}

// send enqueues m for honest receivers and delivers it eagerly to Byzantine shadows.
func (s *State) send(m Msg, evs *[]Event) {
	ch := 0
	if m.Bcast() {
		ch = 1
		if len(m.Data) > 0 {
			switch m.Data[0] {
			case tagVec:
				s.observe(fmt.Sprintf("vec:%d:p%d:%x", m.From, s.Phase, m.Data))
			case tagCmp:
				s.observe(fmt.Sprintf("cmp:%d:p%d:%x", m.From, s.Phase, m.Data[1:]))
			case tagAnswer:
				// answers carry their position in the sender's answer sequence: the broadcast channel
				// is FIFO per sender, so every honest receiver sees them in this order
				k := 0
				pre := fmt.Sprintf("ans:%d:", m.From)
				for _, o := range s.Obs {
					if strings.HasPrefix(o, pre) {
						k++
					}
				}
				s.observe(fmt.Sprintf("ans:%d:p%d:%x:#%03d", m.From, s.Phase, m.Data[1:], k))
			}
		}
	}
	for r := 0; r < s.Cfg.N; r++ {
		if r == m.From || (!m.Bcast() && m.To != r) {
			continue
		}
		if s.Cfg.IsByz(r) {
			// the adversary sees everything at once: its shadow processes the message now
			sh, out, _ := s.localDeliver(s.Shadows[r], m, ch)
			s.Shadows[r] = sh
			s.routeOut(r, out, evs)
			continue
		}
		i := s.qi(r, m.From, ch)
		s.Q[i] = append(append([]Msg(nil), s.Q[i]...), m)
		s.Undelivered++
	}
}

// local steps of one real instance. Instances share nothing, so the effect of a handler call
// is a function of (canonical state of that instance, call); in cloning mode it is memoized
// across the whole run (published nodes are immutable). NoClone mode (Replay) never uses the
// cache and mutates the instance in place, which cross-checks the memoization as well.
type localRes struct {
	node *Node
	out  []Msg
	evs  []Event
	res  *Result
}

var (
	localCache  sync.Map
	localCached atomic.Int64
	LocalHits   atomic.Int64
	LocalMisses atomic.Int64
)

const localCacheMax = 400000

func localKey(nd *Node, kind byte, m *Msg, ch int) [32]byte {
	h := sha256.New()
	x := nd.Hash()
	h.Write(x[:])
	h.Write([]byte{kind, byte(ch)})
	if m != nil {
		var b [8]byte
		binary.LittleEndian.PutUint64(b[:], uint64(int64(m.From)))
		h.Write(b[:])
		h.Write(m.Data)
	}
	var o [32]byte
	copy(o[:], h.Sum(nil))
	return o
}

func (s *State) local(nd *Node, kind byte, m *Msg, ch int, f func(nd *Node, evs *[]Event) *Result) *localRes {
	if len(nd.Rec.Out) != 0 {
		panic("dkgsys: local step on a node with undrained output (would corrupt the memoisation)")
	}
	if s.NoClone {
		nd.Invalidate()
		r := &localRes{node: nd}
		r.res = f(nd, &r.evs)
		r.out = nd.Rec.Drain()
		return r
	}
	k := localKey(nd, kind, m, ch)
	if v, ok := localCache.Load(k); ok {
		LocalHits.Add(1)
		return v.(*localRes)
	}
	LocalMisses.Add(1)
	c := nd.Clone()
	r := &localRes{node: c}
	r.res = f(c, &r.evs)
	r.out = c.Rec.Drain()
	c.Hash()
	if localCached.Load() < localCacheMax {
		if _, loaded := localCache.LoadOrStore(k, r); !loaded {
			localCached.Add(1)
		}
	}
	return r
}

func (s *State) localDeliver(nd *Node, m Msg, ch int) (*Node, []Msg, []Event) {
	r := s.local(nd, 'D', &m, ch, func(nd *Node, evs *[]Event) *Result {
		d0, f0 := len(nd.Rec.Disq), len(nd.Rec.Flag)
		var err error
		p := Safe(func() {
			if ch == 1 {
				err = nd.Inst.HandleBroadcastMsg(m.From, m.Data)
			} else {
				err = nd.Inst.HandlePrivateMsg(m.From, m.Data)
			}
		})
		if p != "" {
			*evs = append(*evs, Event{"panic", nd.Rec.Me, m.From, p})
		}
		if err != nil {
			*evs = append(*evs, Event{"err", nd.Rec.Me, m.From, err.Error()})
		}
		callbacks(nd, d0, f0, evs)
		return nil
	})
	return r.node, r.out, r.evs
}

func (s *State) localTimeout(nd *Node) (*Node, []Msg, []Event) {
	r := s.local(nd, 'T', nil, 0, func(nd *Node, evs *[]Event) *Result {
		d0, f0 := len(nd.Rec.Disq), len(nd.Rec.Flag)
		var err error
		if p := Safe(func() { err = nd.Inst.NextTimeout() }); p != "" {
			*evs = append(*evs, Event{"panic", nd.Rec.Me, -1, "NextTimeout: " + p})
		}
		if err != nil {
			*evs = append(*evs, Event{"err", nd.Rec.Me, -1, "NextTimeout: " + err.Error()})
		}
		callbacks(nd, d0, f0, evs)
		return nil
	})
	return r.node, r.out, r.evs
}

func (s *State) localEnd(nd *Node) (*Node, *Result, []Event) {
	r := s.local(nd, 'E', nil, 0, func(nd *Node, evs *[]Event) *Result {
		d0, f0 := len(nd.Rec.Disq), len(nd.Rec.Flag)
		res := &Result{}
		var sk crypto.PrivateKey
		var gpk crypto.PublicKey
		var pks []crypto.PublicKey
		var err error
		if p := Safe(func() { sk, gpk, pks, err = nd.Inst.End() }); p != "" {
			res.Class = "panic:" + p
			*evs = append(*evs, Event{"panic", nd.Rec.Me, -1, "End: " + p})
		} else if err == nil {
			res.Class = "ok"
			res.priv, res.group, res.shares = sk, gpk, pks
			res.SK = sk.Encode()
			res.GroupPK = gpk.Encode()
			for _, k := range pks {
				res.PKShares = append(res.PKShares, k.Encode())
			}
		} else if crypto.IsDKGFailureError(err) {
			res.Class = "failure"
		} else {
			res.Class = "other:" + err.Error()
		}
		callbacks(nd, d0, f0, evs)
		return res
	})
	return r.node, r.res, r.evs
}

func callbacks(nd *Node, d0, f0 int, evs *[]Event) {
	for k := d0; k < len(nd.Rec.Disq); k++ {
		*evs = append(*evs, Event{"disq", nd.Rec.Me, nd.Rec.Disq[k], lastLog(nd.Rec)})
	}
	for k := f0; k < len(nd.Rec.Flag); k++ {
		*evs = append(*evs, Event{"flag", nd.Rec.Me, nd.Rec.Flag[k], lastLog(nd.Rec)})
	}
}

func lastLog(r *Rec) string {
	if len(r.Logs) == 0 {
		return ""
	}
	return r.Logs[len(r.Logs)-1]
}

// Enabled lists the transitions enabled in s (deterministic order).
func (s *State) Enabled() []Trans {
	if s.Phase >= 4 {
		return nil
	}
	var ts []Trans
	for i, q := range s.Q {
		if len(q) > 0 {
			ch := i % 2
			rs := i / 2
			ts = append(ts, Trans{Recv: rs / s.Cfg.N, Sender: rs % s.Cfg.N, Chan: ch})
		}
	}
	if len(ts) == 0 {
		ts = append(ts, Trans{Barrier: true})
	}
	return ts
}

// Apply returns the successor of s under t (s itself is not modified) and the monitor events.
func (s *State) Apply(t Trans) (*State, []Event) {
	n := s.shallow()
	var evs []Event
	if !t.Barrier {
		i := n.qi(t.Recv, t.Sender, t.Chan)
		m := n.Q[i][0]
		n.Q[i] = n.Q[i][1:]
		n.Undelivered--
		nd, out, e := n.localDeliver(n.Nodes[t.Recv], m, t.Chan)
		n.Nodes[t.Recv] = nd
		evs = append(evs, e...)
		n.routeReactive(t.Recv, out, &evs)
		return n, evs
	}
	// barrier: every participant's timeout / End
	if n.Phase < 3 {
		outs := make([][]Msg, n.Cfg.N)
		for i := 0; i < n.Cfg.N; i++ {
			nd, out, e := n.localTimeout(n.node(i))
			if n.Nodes[i] != nil {
				n.Nodes[i] = nd
				evs = append(evs, e...)
			} else {
				n.Shadows[i] = nd
			}
			outs[i] = out
		}
		n.Phase++
		// reactive honest broadcasts of the round that just ended land now, ahead of what their
		// senders emit at the timeout (per-sender FIFO)
		hh := n.HeldHonest
		n.HeldHonest = nil
		for _, m := range hh {
			n.send(m, &evs)
		}
		// what was held back during the phase that just ended is due now; what Z holds back while reacting
		// to the messages of THIS barrier (a complaint sent at the timeout reaches Z's shadow at once, its
		// answer is emitted inside this transition) stays held until the next barrier
		held, last := n.Held, n.HeldLast
		n.Held, n.HeldLast = nil, nil
		for i := 0; i < n.Cfg.N; i++ {
			n.routeOut(i, outs[i], &evs)
		}
		for _, m := range held {
			n.send(m, &evs)
		}
		n.inject(n.Phase, &evs)
		for _, m := range last {
			n.send(m, &evs)
		}
		return n, evs
	}
	// End
	n.Phase = 4
	n.Results = make([]*Result, n.Cfg.N)
	for i := 0; i < n.Cfg.N; i++ {
		if n.Nodes[i] == nil {
			continue
		}
		nd, res, e := n.localEnd(n.Nodes[i])
		n.Nodes[i] = nd
		n.Results[i] = res
		evs = append(evs, e...)
	}
	return n, evs
}

// ---------------------------------------------------------------------------------------
// Byzantine behaviour

func (s *State) devFor(z int, slot string) (Deviation, bool) {
	for _, d := range s.Script {
		if d.Z == z && d.Slot == slot {
			return d, true
		}
	}
	return Deviation{}, false
}

const (
	tagShare  = 0
	tagVec    = 1
	tagCmp    = 2
	tagAnswer = 3
)

// deviate maps one message of Z's shadow to what Z really sends now / holds for the next phase.
func (s *State) deviate(z int, m Msg) (now, later []Msg) {
	slot := ""
	switch {
	case m.Bcast() && len(m.Data) > 0 && m.Data[0] == tagVec:
		slot = "vec"
	case !m.Bcast() && len(m.Data) > 0 && m.Data[0] == tagShare:
		slot = fmt.Sprintf("share:%d", m.To)
		if _, ok := s.zshare[[2]int{z, m.To}]; !ok {
			nm := map[[2]int][]byte{}
			for k, v := range s.zshare {
				nm[k] = v
			}
			nm[[2]int{z, m.To}] = append([]byte{}, m.Data[1:]...)
			s.zshare = nm
		}
	case m.Bcast() && len(m.Data) > 1 && m.Data[0] == tagCmp:
		slot = fmt.Sprintf("cmp:%d", m.Data[1])
	case m.Bcast() && len(m.Data) > 1 && m.Data[0] == tagAnswer:
		slot = fmt.Sprintf("ans:%d", m.Data[1])
	}
	d, ok := s.devFor(z, slot)
	if !ok {
		return []Msg{m}, nil
	}
	mk := func(data []byte) Msg { return Msg{m.From, m.To, data} }
	body := append([]byte{}, m.Data...)
	switch d.Var {
	case "omit":
		return nil, nil
	case "late":
		return nil, []Msg{m}
	case "dup":
		return []Msg{m, m}, nil
	case "empty": // nothing at all, not even the tag
		return []Msg{mk([]byte{})}, nil
	case "tagonly":
		return []Msg{mk(body[:1])}, nil
	case "short":
		return []Msg{mk(body[:len(body)-1])}, nil
	case "long":
		return []Msg{mk(append(body, 0))}, nil
	case "wrongtag":
		body[0] = 7
		return []Msg{mk(body)}, nil
	}
	switch slot[:3] {
	case "vec":
		return []Msg{mk(MutateVector(body, d.Var, s.Cfg))}, nil
	case "sha":
		// two private messages in a row: "A>B" (both now) or "A>>B" (B one phase later), each of
		// {honest, wrong, empty, wrongtag, zero, short}: a first message that is not a usable share
		// followed by a well-formed one (and the other way round)
		if i := strings.Index(d.Var, ">"); i > 0 {
			one := func(kind string) Msg {
				b := append([]byte{}, m.Data...)
				switch kind {
				case "honest":
					return m
				case "empty":
					return mk([]byte{})
				case "wrongtag":
					b[0] = 7
					return mk(b)
				case "short":
					return mk(b[:len(b)-1])
				case "wrong", "zero":
					return mk(MutateScalar(b, 1, kind))
				}
				panic("dkgsys: unknown share kind " + kind)
			}
			first, rest := d.Var[:i], d.Var[i+1:]
			if strings.HasPrefix(rest, ">") {
				return []Msg{one(first)}, []Msg{one(rest[1:])}
			}
			return []Msg{one(first), one(rest)}, nil
		}
		switch d.Var {
		case "latewrong": // a well-formed wrong share, one phase late
			return nil, []Msg{mk(MutateScalar(body, 1, "wrong"))}
		case "thenlatewrong": // the honest share now, a well-formed wrong one in the next phase
			return []Msg{m}, []Msg{mk(MutateScalar(body, 1, "wrong"))}
		case "dupwrong": // the honest share followed by a wrong one
			return []Msg{m, mk(MutateScalar(body, 1, "wrong"))}, nil
		}
		return []Msg{mk(MutateScalar(body, 1, d.Var))}, nil
	case "ans":
		switch d.Var {
		case "badcomplainer":
			body[1] = byte(s.Cfg.N + 3)
			return []Msg{mk(body)}, nil
		case "othercomplainer": // answer re-addressed to another participant
			body[1] = byte((int(body[1]) + 1) % s.Cfg.N)
			return []Msg{mk(body)}, nil
		case "latewrong":
			return nil, []Msg{mk(MutateScalar(body, 2, "wrong"))}
		case "latewronglast": // the same, but behind whatever Z injects at the start of the next phase
			s.HeldLast = append(s.HeldLast, mk(MutateScalar(body, 2, "wrong")))
			return nil, nil
		case "dupwrong":
			return []Msg{m, mk(MutateScalar(body, 2, "wrong"))}, nil
		case "wrongthenright":
			return []Msg{mk(MutateScalar(append([]byte{}, body...), 2, "wrong")), m}, nil
		}
		return []Msg{mk(MutateScalar(body, 2, d.Var))}, nil
	case "cmp":
		switch d.Var {
		case "wrongsize":
			return []Msg{mk(append(body, 0))}, nil
		case "bigcomplainee":
			body[1] = byte(s.Cfg.N + 3)
			return []Msg{mk(body)}, nil
		}
	}
	panic("dkgsys: unknown deviation " + d.String())
}

var frOrder = mustHex("73eda753299d7d483339d80809a1d80553bda402fffe5bfeffffffff00000001")

func mustHex(s string) []byte {
	b := make([]byte, len(s)/2)
	fmt.Sscanf(s, "%x", &b)
	return b
}

// MutateScalar alters the 32-byte scalar that starts at offset off.
func MutateScalar(body []byte, off int, v string) []byte {
	sc := body[off : off+32]
	switch v {
	case "zero":
		for i := range sc {
			sc[i] = 0
		}
	case "ger": // the group order itself: not a reduced scalar
		copy(sc, frOrder)
	case "allff":
		for i := range sc {
			sc[i] = 0xff
		}
	case "wrong": // well-formed but wrong value
		sc[31] ^= 1
		if bytes.Equal(sc, make([]byte, 32)) {
			sc[31] = 2
		}
	default:
		panic("dkgsys: unknown scalar variant " + v)
	}
	return body
}

// MutateVector alters the verification vector (tag byte followed by (t+1) G2 points of 96 bytes).
func MutateVector(body []byte, v string, cfg *Config) []byte {
	switch v {
	case "badflags": // clear the compression bit of the first point
		body[1] &^= 0x80
	case "infbit": // set the infinity bit on a non-zero point
		body[1] |= 0x40
	case "nonreduced": // x coordinate >= p
		for i := 1; i < 49; i++ {
			body[i] = 0xff
		}
		body[1] = 0x9f
	case "offcurve":
		copy(body[1:97], OffCurveG2())
	case "nong2":
		copy(body[1:97], NonSubgroupG2())
	case "nong2last": // the LAST coefficient is outside G2
		copy(body[len(body)-96:], NonSubgroupG2())
	case "otherpoly": // a well-formed vector of a different polynomial
		copy(body[1:], OtherVector(cfg.T))
	case "infa0": // first coefficient is the identity
		for i := 1; i < 97; i++ {
			body[i] = 0
		}
		body[1] = 0xc0
	case "nong2cancel": // first coefficient + T, last coefficient - T with T outside G2: every single
		// coefficient is outside G2 but their sum (= the public share of index 0) is not affected
		a, b := CancelNonG2(body[1:97], body[len(body)-96:])
		copy(body[1:97], a)
		copy(body[len(body)-96:], b)
	case "swapcoef":
		if cfg.T >= 1 {
			a := append([]byte{}, body[1:97]...)
			copy(body[1:97], body[97:193])
			copy(body[97:193], a)
		}
	default:
		panic("dkgsys: unknown vector variant " + v)
	}
	return body
}

// inject emits the extra messages scripted for the start of phase k.
func (s *State) inject(k int, evs *[]Event) {
	for _, d := range s.Script {
		var ph int
		var kind string
		var arg int
		if n, _ := fmt.Sscanf(d.Slot, "inj:%d:%s", &ph, &kind); n < 2 || ph != k {
			continue
		}
		if i := strings.LastIndex(kind, ":"); i >= 0 {
			fmt.Sscanf(kind[i+1:], "%d", &arg)
			kind = kind[:i]
		}
		z := d.Z
		b := func(data ...byte) Msg { return Msg{z, -1, data} }
		switch kind {
		case "preans": // unsolicited / premature answer to `arg`
			sh, ok := s.zshare[[2]int{z, arg}]
			if !ok {
				continue
			}
			data := append([]byte{tagAnswer, byte(arg)}, sh...)
			if d.Var == "wrong" {
				data[33] ^= 1
			}
			s.send(Msg{z, -1, data}, evs)
		case "cmp": // complaint against dealer `arg`
			switch d.Var {
			case "ok":
				s.send(b(tagCmp, byte(arg)), evs)
			case "dup":
				s.send(b(tagCmp, byte(arg)), evs)
				s.send(b(tagCmp, byte(arg)), evs)
			case "wrongsize":
				s.send(b(tagCmp, byte(arg), 0), evs)
			case "nobody":
				s.send(b(tagCmp), evs)
			case "bigcomplainee":
				s.send(b(tagCmp, byte(s.Cfg.N+3)), evs)
			}
		case "emptyb":
			s.send(Msg{z, -1, []byte{}}, evs)
		case "unktag":
			s.send(b(9, 1, 2, 3), evs)
		case "privjunk": // junk on the private channel to `arg`
			s.send(Msg{z, arg, []byte{tagVec, 1, 2, 3}}, evs)
		case "privempty":
			s.send(Msg{z, arg, []byte{}}, evs)
		case "sharebcast": // a share message on the broadcast channel
			data := append([]byte{tagShare}, make([]byte, 32)...)
			data[32] = 5
			s.send(Msg{z, -1, data}, evs)
		case "ansfor": // an answer-typed broadcast from a non-dealer / for a dealer `arg`
			data := append([]byte{tagAnswer, byte(arg)}, make([]byte, 32)...)
			data[33] = 9
			s.send(Msg{z, -1, data}, evs)
		default:
			panic("dkgsys: unknown injection " + d.String())
		}
	}
}

// Grammar returns all single deviations available to the Byzantine participants of cfg.
func Grammar(cfg *Config) []Deviation {
	var g []Deviation
	honest := cfg.Honest()
	for _, z := range cfg.Byz {
		if cfg.IsDealer(z) {
			for _, v := range []string{"omit", "late", "dup", "empty", "tagonly", "short", "long", "badflags", "infbit", "nonreduced", "offcurve", "nong2", "nong2last", "nong2cancel", "otherpoly", "infa0", "swapcoef"} {
				g = append(g, Deviation{z, "vec", v})
			}
			for _, r := range honest {
				for _, v := range []string{"omit", "late", "dup", "empty", "tagonly", "wrongtag", "short", "long", "zero", "ger", "allff", "wrong", "latewrong", "thenlatewrong", "dupwrong",
					"empty>wrong", "wrongtag>wrong", "zero>wrong", "wrong>honest", "empty>honest", "empty>>wrong", "wrong>>honest"} {
					g = append(g, Deviation{z, fmt.Sprintf("share:%d", r), v})
				}
				for _, v := range []string{"omit", "late", "dup", "short", "long", "zero", "ger", "wrong", "badcomplainer", "othercomplainer", "latewrong", "latewronglast", "dupwrong", "wrongthenright"} {
					g = append(g, Deviation{z, fmt.Sprintf("ans:%d", r), v})
				}
				for k := 0; k <= 3; k++ {
					for _, v := range []string{"good", "wrong"} {
						g = append(g, Deviation{z, fmt.Sprintf("inj:%d:preans:%d", k, r), v})
					}
				}
			}
		}
		// as a receiver / bystander
		for d := 0; d < cfg.N; d++ {
			if !cfg.IsDealer(d) || d == z {
				continue
			}
			if cfg.IsByz(d) {
				continue
			}
			for k := 1; k <= 3; k++ {
				for _, v := range []string{"ok", "dup", "wrongsize", "bigcomplainee", "nobody"} {
					if k != 2 && (v == "wrongsize" || v == "bigcomplainee" || v == "nobody") {
						continue
					}
					g = append(g, Deviation{z, fmt.Sprintf("inj:%d:cmp:%d", k, d), v})
				}
			}
			for k := 1; k <= 2; k++ {
				g = append(g, Deviation{z, fmt.Sprintf("inj:%d:ansfor:%d", k, d), "x"})
			}
		}
		g = append(g, Deviation{z, "inj:0:unktag", "x"})
		for k := 1; k <= 3; k++ {
			g = append(g, Deviation{z, fmt.Sprintf("inj:%d:emptyb", k), "x"})
			g = append(g, Deviation{z, fmt.Sprintf("inj:%d:unktag", k), "x"})
		}
		g = append(g, Deviation{z, "inj:1:sharebcast", "x"})
		for _, r := range honest {
			g = append(g, Deviation{z, fmt.Sprintf("inj:1:privjunk:%d", r), "x"})
			g = append(g, Deviation{z, fmt.Sprintf("inj:2:privjunk:%d", r), "x"})
			g = append(g, Deviation{z, fmt.Sprintf("inj:1:privempty:%d", r), "x"})
		}
	}
	return g
}

// Scripts enumerates all scripts with at most d deviations on pairwise distinct slots.
func Scripts(g []Deviation, d int) []Script {
	out := []Script{{}}
	var rec func(start int, cur Script)
	rec = func(start int, cur Script) {
		if len(cur) == d {
			return
		}
		for i := start; i < len(g); i++ {
			clash := false
			for _, c := range cur {
				if c.Z == g[i].Z && c.Slot == g[i].Slot {
					clash = true
				}
			}
			if clash {
				continue
			}
			n := append(append(Script{}, cur...), g[i])
			out = append(out, n)
			rec(i+1, n)
		}
	}
	rec(0, nil)
	return out
}

// Outcome is a canonical, comparable description of a terminal state.
func (s *State) Outcome() string {
	var p []string
	for i, r := range s.Results {
		if r == nil {
			continue
		}
		k := sha256.Sum256(bytes.Join(append([][]byte{r.GroupPK}, r.PKShares...), nil))
		p = append(p, fmt.Sprintf("%d:%s:disq%v:flag%v:%x", i, r.Class, s.Nodes[i].Rec.DisqSet(), s.Nodes[i].Rec.FlagSet(), k[:4]))
	}
	sort.Strings(p)
	return strings.Join(p, " | ")
}
