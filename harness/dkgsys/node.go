// Package dkgsys closes the DKG state machines of onflow/crypto into an explorable system:
// real instances + recording processors + a network with per-(sender,channel,receiver) FIFO
// queues + scripted Byzantine participants whose honest behaviour is provided by a real
// shadow instance. Successor states are produced by cloning the receiving real instance and
// calling its real handler.
package dkgsys

import (
	"fmt"
	"reflect"
	"sort"
	"unsafe"

	crypto "github.com/onflow/crypto"

	"verif/harness/space"
)

// Msg is one message on the wire.
type Msg struct {
	From, To int // To == -1: broadcast
	Data     []byte
}

func (m Msg) Bcast() bool { return m.To < 0 }

// Rec is the recording DKGProcessor handed to every real instance.
type Rec struct {
	Me   int
	Out  []Msg // emitted since the last drain (transient)
	Disq []int // targets of Disqualify callbacks, in call order
	Flag []int // targets of FlagMisbehavior callbacks, in call order
	Logs []string
}

func (r *Rec) PrivateSend(dest int, data []byte) {
	r.Out = append(r.Out, Msg{r.Me, dest, append([]byte{}, data...)})
}
func (r *Rec) Broadcast(data []byte) {
	r.Out = append(r.Out, Msg{r.Me, -1, append([]byte{}, data...)})
}
func (r *Rec) Disqualify(i int, log string) {
	r.Disq = append(r.Disq, i)
	r.Logs = append(r.Logs, fmt.Sprintf("%d disqualifies %d: %s", r.Me, i, log))
}
func (r *Rec) FlagMisbehavior(i int, log string) {
	r.Flag = append(r.Flag, i)
	r.Logs = append(r.Logs, fmt.Sprintf("%d flags %d: %s", r.Me, i, log))
}
func (r *Rec) Drain() []Msg { o := r.Out; r.Out = nil; return o }

func set(xs []int) []int {
	m := map[int]bool{}
	for _, x := range xs {
		m[x] = true
	}
	var o []int
	for x := range m {
		o = append(o, x)
	}
	sort.Ints(o)
	return o
}
func (r *Rec) DisqSet() []int { return set(r.Disq) }
func (r *Rec) FlagSet() []int { return set(r.Flag) }

// Node is a real DKG instance with its recorder. Nodes are treated as immutable once
// published in a state: a transition clones the node first.
type Node struct {
	Inst crypto.DKGState
	Rec  *Rec
	hash *[32]byte
}

var recType = reflect.TypeOf(&Rec{})

func skipRec(t reflect.Type) bool { return t == recType }

// Clone returns an independent deep copy (the copy's instance points to the copy's recorder).
func (n *Node) Clone() *Node {
	nr := &Rec{Me: n.Rec.Me,
		Out:  append([]Msg(nil), n.Rec.Out...),
		Disq: append([]int(nil), n.Rec.Disq...),
		Flag: append([]int(nil), n.Rec.Flag...),
		Logs: append([]string(nil), n.Rec.Logs...)}
	c := space.NewCloner()
	c.Remap[unsafe.Pointer(n.Rec)] = unsafe.Pointer(nr)
	inst := c.Clone(n.Inst).(crypto.DKGState)
	return &Node{Inst: inst, Rec: nr}
}

// Hash is the canonical state of the node: every field of the real instance plus the sets of
// callback targets (log strings and call order excluded: the instance cannot read them).
func (n *Node) Hash() [32]byte {
	if n.hash != nil {
		return *n.hash
	}
	d := space.NewDumper(skipRec)
	d.Dump(n.Inst)
	d.Dump(n.Rec.DisqSet())
	d.Dump(n.Rec.FlagSet())
	h := d.Sum()
	n.hash = &h
	return h
}

// InstHash hashes the instance only (no recorder history).
func (n *Node) InstHash() [32]byte {
	d := space.NewDumper(skipRec)
	d.Dump(n.Inst)
	return d.Sum()
}
func (n *Node) Invalidate() { n.hash = nil }

// Protocol selects the DKG flavour.
type Protocol int

const (
	FVSS Protocol = iota
	FVSSQ
	JF
)

func (p Protocol) String() string { return [...]string{"FeldmanVSS", "FeldmanVSSQual", "JointFeldman"}[p] }

// NewNode builds a fresh real instance.
func NewNode(p Protocol, n, t, me, dealer int) (*Node, error) {
	rec := &Rec{Me: me}
	var inst crypto.DKGState
	var err error
	switch p {
	case FVSS:
		inst, err = crypto.NewFeldmanVSS(n, t, me, rec, dealer)
	case FVSSQ:
		inst, err = crypto.NewFeldmanVSSQual(n, t, me, rec, dealer)
	case JF:
		inst, err = crypto.NewJointFeldman(n, t, me, rec)
	}
	if err != nil {
		return nil, err
	}
	return &Node{Inst: inst, Rec: rec}, nil
}

// SeedFor derives the 32-byte DKG seed of participant i from the run seed.
func SeedFor(runSeed int64, i int) []byte {
	s := make([]byte, 32)
	for k := range s {
		s[k] = byte(int64(k*7+i*31+1) + runSeed*13 + int64(k)*runSeed)
	}
	s[0] = byte(i + 1)
	return s
}

// Safe runs f and converts a panic into an error string (a panic is a finding, never a crash of the explorer).
func Safe(f func()) (panicked string) {
	defer func() {
		if r := recover(); r != nil {
			panicked = fmt.Sprint(r)
		}
	}()
	f()
	return ""
}
