// C06: threshold shares reconstruct the unique group signature for any >= t+1 signers.
//
// Exhaustive bounded enumeration of (n, t, seed, message) x signer subsets x orders x API
// path (stateless, stateful TrustedAdd, stateful VerifyAndAdd), of the Lagrange limb-boundary
// index families, of one invalid share at every position, of the documented error shapes and
// of all short call histories of the stateful object. Every verdict comes from refbls:
// the private shares returned by BLSThresholdKeyGen are read back (Encode), interpolated with
// big integers to a0, and the expected threshold signature is EncodeG1(a0 * H(m)) where H(m)
// is the library's signature under the private key 1. The library's Verify is never the oracle.
package main

import (
	"runtime/debug"
	"sync/atomic"
	"bytes"
	"encoding/json"
	"fmt"
	"math/big"
	"os"
	"sort"
	"strings"
	"sync"
	"time"

	crypto "github.com/onflow/crypto"

	"verif/harness/ev"
	"verif/harness/ref/refbls"
)

var run *ev.Run

// ---------------------------------------------------------------- small helpers

func splitmix(x *uint64) uint64 {
	*x += 0x9e3779b97f4a7c15
	z := *x
	z = (z ^ (z >> 30)) * 0xbf58476d1ce4e5b9
	z = (z ^ (z >> 27)) * 0x94d049bb133111eb
	return z ^ (z >> 31)
}

// material derives deterministic bytes from (VERIF_SEED, labels); it only instantiates key
// material / message bytes, never which cases are explored.
func material(n int, labels ...int) []byte {
	st := uint64(run.Seed)*0x100000001b3 + 0xcbf29ce484222325
	for _, l := range labels {
		st = st*0x100000001b3 ^ uint64(l+1)
		splitmix(&st)
	}
	out := make([]byte, n)
	for i := range out {
		out[i] = byte(splitmix(&st) >> 24)
	}
	return out
}

func mod(a *big.Int) *big.Int { return new(big.Int).Mod(a, refbls.R) }

// interpAt evaluates at x0 the unique polynomial of degree < len(xs) through (xs[i], ys[i]) mod R.
func interpAt(xs []int, ys []*big.Int, x0 int) *big.Int {
	acc := new(big.Int)
	for i, xi := range xs {
		num, den := big.NewInt(1), big.NewInt(1)
		for j, xj := range xs {
			if j == i {
				continue
			}
			num.Mul(num, big.NewInt(int64(x0-xj)))
			num.Mod(num, refbls.R)
			den.Mul(den, big.NewInt(int64(xi-xj)))
			den.Mod(den, refbls.R)
		}
		den.ModInverse(den, refbls.R)
		num.Mul(num, den)
		num.Mul(num, ys[i])
		acc.Add(acc, num)
		acc.Mod(acc, refbls.R)
	}
	return acc
}

func combos(pool []int, k int) [][]int {
	var out [][]int
	var rec func(start int, cur []int)
	rec = func(start int, cur []int) {
		if len(cur) == k {
			out = append(out, append([]int{}, cur...))
			return
		}
		for i := start; i <= len(pool)-(k-len(cur)); i++ {
			rec(i+1, append(cur, pool[i]))
		}
	}
	rec(0, nil)
	return out
}

func perms(s []int) [][]int {
	if len(s) <= 1 {
		return [][]int{append([]int{}, s...)}
	}
	var out [][]int
	for i := range s {
		rest := append(append([]int{}, s[:i]...), s[i+1:]...)
		for _, p := range perms(rest) {
			out = append(out, append([]int{s[i]}, p...))
		}
	}
	return out
}

func reversed(s []int) []int {
	o := make([]int, len(s))
	for i, v := range s {
		o[len(s)-1-i] = v
	}
	return o
}
func rotated(s []int, k int) []int {
	o := make([]int, 0, len(s))
	o = append(o, s[k:]...)
	return append(o, s[:k]...)
}

// ordersOf: every order for size <= 3; sorted, reversed and each rotation for larger sets.
func ordersOf(sorted []int) [][]int {
	if len(sorted) <= 3 {
		return perms(sorted)
	}
	out := [][]int{append([]int{}, sorted...), reversed(sorted)}
	for k := 1; k < len(sorted); k++ {
		out = append(out, rotated(sorted, k))
	}
	return out
}

func hexList(l [][]byte) []string {
	o := make([]string, len(l))
	for i, b := range l {
		o[i] = ev.Hex(b)
	}
	return o
}

// ---------------------------------------------------------------- alphabets

type message struct {
	m   []byte
	tag string
}

var messages []message

var (
	skOne      crypto.PrivateKey
	torsion3   refbls.G1
	wrongPoint []byte // a valid G1 point unrelated to any share
)

const (
	kindOther = iota // valid share of another signer
	kindWrongG1
	kindNonG1
	kindMalformed
	kindOffCurve    // clean header, x < p, x^3+4 is not a square
	kindNonReduced  // clean header, x >= p
	kindInfinityBad // infinity flag with a non-zero coordinate byte
	nKinds
)

var kindName = []string{"share-of-other-signer", "other-valid-G1-point", "non-G1-s+T3", "malformed-header", "malformed-off-curve-x", "malformed-x>=p", "malformed-infinity-flag-on-nonzero"}

// hashToG1 is H(m) under tag: the library's signature of m under the private key 1.
func hashToG1(msg message) refbls.G1 {
	s, err := skOne.Sign(msg.m, crypto.NewExpandMsgXOFKMAC128(msg.tag))
	if err != nil {
		run.Fatal("sign under key 1: %v", err)
	}
	h, err := refbls.DecodeG1(s)
	if err != nil || h.Inf || !h.InSubgroup() {
		run.Fatal("signature under key 1 is not a canonical non-trivial G1 element: %x (%v)", s, err)
	}
	return h
}

// ---------------------------------------------------------------- key generation + oracle

type keygen struct {
	n, t, si int
	seed     []byte
	sks      []crypto.PrivateKey
	pks      []crypto.PublicKey
	gpk      crypto.PublicKey
	sk       []*big.Int
	a0       *big.Int
	bad      bool
}

type replay struct {
	Part     string   `json:"part"`
	N        int      `json:"n"`
	T        int      `json:"t"`
	Seed     string   `json:"keygen_seed"`
	Msg      string   `json:"message,omitempty"`
	Tag      string   `json:"tag,omitempty"`
	Path     string   `json:"path,omitempty"`
	Signers  []int    `json:"signers,omitempty"`
	Shares   []string `json:"shares,omitempty"`
	Expected string   `json:"expected_signature,omitempty"`
	Got      string   `json:"got,omitempty"`
	Note     string   `json:"note,omitempty"`
	Ops      []string `json:"ops,omitempty"`
}

func (k *keygen) rep(part, note string) replay {
	return replay{Part: part, N: k.n, T: k.t, Seed: ev.Hex(k.seed), Note: note}
}

// newKeygen runs BLSThresholdKeyGen and the whole key-generation oracle. checkPk limits the
// (expensive) reference G2 multiplications to the listed indices (nil = all).
func newKeygen(n, t, si int, checkPk []int) *keygen {
	k := &keygen{n: n, t: t, si: si, seed: material(48, 1, n, t, si)}
	var err error
	k.sks, k.pks, k.gpk, err = crypto.BLSThresholdKeyGen(n, t, k.seed)
	if err != nil || len(k.sks) != n || len(k.pks) != n || k.gpk == nil {
		run.Violation("keygen:unexpected-error", fmt.Sprintf("BLSThresholdKeyGen(%d,%d) failed: %v", n, t, err), k.rep("keygen", ""))
		k.bad = true
		return k
	}
	k.sk = make([]*big.Int, n)
	for i, s := range k.sks {
		b := s.Encode()
		k.sk[i] = refbls.ScalarFromBytes(b)
		if len(b) != 32 || k.sk[i].Cmp(refbls.R) >= 0 {
			run.Violation("keygen:private-share-not-canonical", fmt.Sprintf("share %d encodes to %x", i, b), k.rep("keygen", ""))
			k.bad = true
			return k
		}
	}
	run.Add("evaluations", 1)
	// (1) degree <= t: the polynomial through the first t+1 shares passes through every other share
	xs := make([]int, t+1)
	for i := range xs {
		xs[i] = i + 1
	}
	var dmu sync.Mutex
	par(n-t-1, func(q int) {
		j := t + 1 + q
		if interpAt(xs, k.sk[:t+1], j+1).Cmp(k.sk[j]) != 0 {
			run.Violation("keygen:share-not-on-degree-t-polynomial",
				fmt.Sprintf("n=%d t=%d: private share %d is not the image of the degree<=t polynomial through shares 0..t", n, t, j), k.rep("keygen", ""))
			dmu.Lock()
			k.bad = true
			dmu.Unlock()
		}
		run.Add("evaluations", 1)
	})
	// (2) one a0 from every (t+1)-subset of the first t+3 shares
	first := t + 3
	if first > n {
		first = n
	}
	pool := make([]int, first)
	for i := range pool {
		pool[i] = i
	}
	subs := combos(pool, t+1)
	if t > 20 && len(subs) > 6 {
		// large thresholds: (1) already ties every share to one polynomial; a few subsets fix a0
		subs = append(subs[:3:3], subs[len(subs)-3:]...)
	}
	for _, sub := range subs {
		idx := make([]int, len(sub))
		for i, s := range sub {
			idx[i] = s + 1
		}
		l := refbls.LagrangeAtZero(idx)
		a := new(big.Int)
		for i, s := range sub {
			a.Add(a, new(big.Int).Mul(l[i], k.sk[s]))
		}
		a = mod(a)
		if k.a0 == nil {
			k.a0 = a
		} else if k.a0.Cmp(a) != 0 {
			run.Violation("keygen:shares-interpolate-to-different-secrets",
				fmt.Sprintf("n=%d t=%d: subset %v interpolates to another a0", n, t, sub), k.rep("keygen", ""))
			k.bad = true
		}
		run.Add("evaluations", 1)
	}
	// (3) pk_i = sk_i * g2, group key = a0 * g2
	if checkPk == nil {
		checkPk = make([]int, n)
		for i := range checkPk {
			checkPk[i] = i
		}
	}
	var mu sync.Mutex
	par(len(checkPk)+1, func(j int) {
		if j == len(checkPk) {
			want := refbls.EncodeG2Flow(refbls.G2Gen().Mul(k.a0))
			if !bytes.Equal(want, k.gpk.Encode()) {
				r := k.rep("keygen", "")
				r.Expected, r.Got = ev.Hex(want), ev.Hex(k.gpk.Encode())
				run.Violation("keygen:group-key-is-not-a0*g2", fmt.Sprintf("n=%d t=%d", n, t), r)
				mu.Lock()
				k.bad = true
				mu.Unlock()
			}
			run.Add("evaluations", 1)
			return
		}
		i := checkPk[j]
		want := refbls.EncodeG2Flow(refbls.G2Gen().Mul(k.sk[i]))
		if !bytes.Equal(want, k.pks[i].Encode()) || !k.sks[i].PublicKey().Equals(k.pks[i]) {
			r := k.rep("keygen", fmt.Sprintf("index %d", i))
			r.Expected, r.Got = ev.Hex(want), ev.Hex(k.pks[i].Encode())
			run.Violation("keygen:public-share-is-not-sk_i*g2", fmt.Sprintf("n=%d t=%d index %d", n, t, i), r)
			mu.Lock()
			k.bad = true
			mu.Unlock()
		}
		run.Add("evaluations", 1)
	})
	run.Distinct(fmt.Sprintf("keygen/%d/%d/%d", n, t, si))
	return k
}

// context = (key generation, message): expected signature and every share variant.
type context struct {
	k        *keygen
	mi       int
	msg      message
	H        refbls.G1
	expected []byte
	shares   [][]byte         // valid share per signer (nil where not needed)
	bad      [nKinds][][]byte // invalid variants per signer
	sharePt  map[int]refbls.G1
}

func (c *context) rep(part, path string, signers []int, shares [][]byte, got []byte, note string) replay {
	return replay{Part: part, N: c.k.n, T: c.k.t, Seed: ev.Hex(c.k.seed), Msg: ev.Hex(c.msg.m), Tag: c.msg.tag, Path: path,
		Signers: signers, Shares: hexList(shares), Expected: ev.Hex(c.expected), Got: ev.Hex(got), Note: note}
}

// newContext computes, for the listed signers, the library-made share, checks it against the
// reference sk_i*H(m) and derives the invalid variants.
func newContext(k *keygen, mi int, signers []int, variants bool) *context {
	c := &context{k: k, mi: mi, msg: messages[mi], sharePt: map[int]refbls.G1{}}
	c.H = hashToG1(c.msg)
	c.expected = refbls.EncodeG1(c.H.Mul(k.a0))
	c.shares = make([][]byte, k.n)
	for kd := 0; kd < nKinds; kd++ {
		c.bad[kd] = make([][]byte, k.n)
	}
	var mu sync.Mutex
	par(len(signers), func(j int) {
		i := signers[j]
		s, err := k.sks[i].Sign(c.msg.m, crypto.NewExpandMsgXOFKMAC128(c.msg.tag))
		if err != nil {
			run.Fatal("Sign failed: %v", err)
		}
		pt := c.H.Mul(k.sk[i])
		want := refbls.EncodeG1(pt)
		if !bytes.Equal(s, want) {
			r := c.rep("share", "Sign", []int{i}, [][]byte{s}, s, "signature share differs from sk_i*H(m)")
			r.Expected = ev.Hex(want)
			run.Violation("share:sign-output-is-not-sk_i*H(m)", fmt.Sprintf("n=%d t=%d signer %d", k.n, k.t, i), r)
		}
		run.Add("evaluations", 1)
		mu.Lock()
		c.shares[i] = want // the reference encoding is what is fed to the reconstruction
		c.sharePt[i] = pt
		mu.Unlock()
	})
	if variants {
		for _, i := range signers {
			o := (i + 1) % k.n
			if c.shares[o] == nil {
				c.shares[o] = refbls.EncodeG1(c.H.Mul(k.sk[o]))
			}
			c.bad[kindOther][i] = c.shares[o]
			c.bad[kindWrongG1][i] = wrongPoint
			c.bad[kindNonG1][i] = refbls.EncodeG1(c.sharePt[i].Add(torsion3))
			m := append([]byte{}, c.shares[i]...)
			m[0] &^= refbls.FlagCompressed
			c.bad[kindMalformed][i] = m
			// x not on the curve: walk from the share's x until x^3+4 is a non-residue
			x := new(big.Int).Set(c.sharePt[i].X)
			for {
				x.Add(x, big.NewInt(1))
				if x.Cmp(refbls.P) >= 0 {
					x.SetInt64(1)
				}
				if _, ok := refbls.G1FromX(x, false); !ok {
					break
				}
			}
			oc := x.FillBytes(make([]byte, 48))
			oc[0] |= 0x80
			c.bad[kindOffCurve][i] = oc
			nr := bytes.Repeat([]byte{0xff}, 48)
			nr[0] = 0x9f
			c.bad[kindNonReduced][i] = nr
			ib := append([]byte{}, c.shares[i]...)
			ib[0] = 0xc0 | (ib[0] & 0x1f)
			if bytes.Equal(ib[1:], make([]byte, 47)) && ib[0] == 0xc0 {
				ib[47] = 1
			}
			c.bad[kindInfinityBad][i] = ib
		}
	}
	return c
}

// ---------------------------------------------------------------- API paths

// par is ev.Par with a panic barrier: a Go panic of the library (an index out of range in a
// validation table, a nil dereference) is a violation of "any valid share list gives the group
// signature / any invalid one the documented error", not a harness failure.
func par(n int, f func(i int)) {
	ev.Par(n, func(i int) {
		defer func() {
			if r := recover(); r != nil {
				st := string(debug.Stack())
				where := "?"
				for _, l := range strings.Split(st, "\n") {
					if strings.Contains(l, "github.com/onflow/crypto.") && !strings.Contains(l, "zzverif") {
						where = strings.TrimSpace(l)
						if k := strings.Index(where, "("); k > 0 {
							where = where[:k]
						}
						break
					}
				}
				run.Violation("panic:"+where, fmt.Sprintf("the library panicked: %v (case %d of a parallel part; first library frame %s)", r, i, where), map[string]any{"panic": fmt.Sprint(r), "stack": st})
			}
		}()
		f(i)
	})
}

func stateless(n, t int, shares [][]byte, signers []int) ([]byte, error) {
	if len(shares) == 0 {
		run.Fatal("harness bug: empty share list must not reach the stateless API (C09's business)")
	}
	sigs := make([]crypto.Signature, len(shares))
	for i, s := range shares {
		if len(s) != 48 {
			run.Fatal("harness bug: share of length %d must not reach the stateless API (C09's business)", len(s))
		}
		sigs[i] = crypto.Signature(s)
	}
	return crypto.BLSReconstructThresholdSignature(n, t, sigs, append([]int{}, signers...))
}

func (c *context) inspector() crypto.ThresholdSignatureInspector {
	ins, err := crypto.NewBLSThresholdSignatureInspector(c.k.gpk, c.k.pks, c.k.t, c.msg.m, c.msg.tag)
	if err != nil {
		run.Fatal("NewBLSThresholdSignatureInspector: %v", err)
	}
	return ins
}

type acc struct {
	evals    int64
	outcomes map[string]int64
}

var (
	outMu    sync.Mutex
	outcomes = map[string]int64{}
)

func newAcc() *acc          { return &acc{outcomes: map[string]int64{}} }
func (a *acc) out(s string) { a.outcomes[s]++ }
func (a *acc) flush() {
	run.Add("evaluations", a.evals)
	outMu.Lock()
	for k, v := range a.outcomes {
		outcomes[k] += v
	}
	outMu.Unlock()
}

func errClass(err error) string {
	switch {
	case err == nil:
		return "nil"
	case crypto.IsNotEnoughSharesError(err):
		return "notEnoughShares"
	case crypto.IsDuplicatedSignerError(err):
		return "duplicatedSigner"
	case crypto.IsInvalidSignatureError(err):
		return "invalidSignature"
	case crypto.IsInvalidInputsError(err):
		return "invalidInputs"
	}
	return "other"
}

// validCase runs one (context, order) through the three paths with valid shares only.
func validCase(c *context, part string, order []int, a *acc, paths int) {
	n, t := c.k.n, c.k.t
	list := make([][]byte, len(order))
	for p, i := range order {
		list[p] = c.shares[i]
	}
	keyBase := fmt.Sprintf("%s/%d/%d/%d/%d/%v", part, n, t, c.k.si, c.mi, order)
	// stateless
	got, err := stateless(n, t, list, order)
	a.evals++
	if err != nil {
		run.Violation(part+":stateless:valid-shares:error", fmt.Sprintf("n=%d t=%d order %v: %v", n, t, order, err), c.rep(part, "stateless", order, list, nil, err.Error()))
	} else if !bytes.Equal(got, c.expected) {
		run.Violation(part+":stateless:valid-shares:wrong-bytes", fmt.Sprintf("n=%d t=%d order %v: reconstruction differs from a0*H(m)", n, t, order), c.rep(part, "stateless", order, list, got, ""))
	}
	a.out("valid/stateless/" + errClass(err))
	run.Distinct(keyBase + "/stateless")
	if paths < 2 {
		return
	}
	// stateful, TrustedAdd
	ins := c.inspector()
	for p, i := range order {
		if p == t { // exactly t shares so far
			if s, err := ins.ThresholdSignature(); s != nil || !crypto.IsNotEnoughSharesError(err) {
				run.Violation(part+":stateful:t-shares:no-not-enough-shares-error", fmt.Sprintf("n=%d t=%d after %d TrustedAdd: sig=%x err=%v", n, t, p, s, err), c.rep(part, "TrustedAdd", order[:p], list[:p], s, fmt.Sprint(err)))
			}
		}
		if _, err := ins.TrustedAdd(i, list[p]); err != nil {
			run.Violation(part+":stateful:TrustedAdd:valid-share:error", fmt.Sprintf("n=%d t=%d order %v pos %d: %v", n, t, order, p, err), c.rep(part, "TrustedAdd", order, list, nil, err.Error()))
		}
	}
	for rep := 0; rep < 2; rep++ { // second call = cached value
		got, err = ins.ThresholdSignature()
		a.evals++
		if err != nil {
			run.Violation(part+":stateful:TrustedAdd:valid-shares:error", fmt.Sprintf("n=%d t=%d order %v call %d: %v", n, t, order, rep, err), c.rep(part, "TrustedAdd", order, list, nil, err.Error()))
		} else if !bytes.Equal(got, c.expected) {
			run.Violation(part+":stateful:TrustedAdd:valid-shares:wrong-bytes", fmt.Sprintf("n=%d t=%d order %v call %d", n, t, order, rep), c.rep(part, "TrustedAdd", order, list, got, ""))
		}
	}
	a.out("valid/TrustedAdd/" + errClass(err))
	run.Distinct(keyBase + "/trusted")
	if paths < 3 {
		return
	}
	// stateful, VerifyAndAdd, on a participant object (its own share through SignShare)
	me := order[0]
	part2, err := crypto.NewBLSThresholdSignatureParticipant(c.k.gpk, c.k.pks, t, me, c.k.sks[me], c.msg.m, c.msg.tag)
	if err != nil {
		run.Violation(part+":participant:constructor-error", fmt.Sprintf("n=%d t=%d index %d: %v", n, t, me, err), c.rep(part, "VerifyAndAdd", order, list, nil, err.Error()))
		return
	}
	own, err := part2.SignShare()
	if err != nil || !bytes.Equal(own, list[0]) {
		run.Violation(part+":participant:SignShare-is-not-sk_i*H(m)", fmt.Sprintf("n=%d t=%d index %d err=%v", n, t, me, err), c.rep(part, "SignShare", order[:1], list[:1], own, ""))
	}
	for p, i := range order {
		ok, _, err := part2.VerifyAndAdd(i, list[p])
		a.evals++
		if err != nil || !ok {
			run.Violation(part+":stateful:VerifyAndAdd:valid-share-rejected", fmt.Sprintf("n=%d t=%d order %v pos %d: ok=%v err=%v", n, t, order, p, ok, err), c.rep(part, "VerifyAndAdd", order, list, nil, fmt.Sprint(err)))
		}
	}
	got, err = part2.ThresholdSignature()
	a.evals++
	if err != nil {
		run.Violation(part+":stateful:VerifyAndAdd:valid-shares:error", fmt.Sprintf("n=%d t=%d order %v: %v", n, t, order, err), c.rep(part, "VerifyAndAdd", order, list, nil, err.Error()))
	} else if !bytes.Equal(got, c.expected) {
		run.Violation(part+":stateful:VerifyAndAdd:valid-shares:wrong-bytes", fmt.Sprintf("n=%d t=%d order %v", n, t, order), c.rep(part, "VerifyAndAdd", order, list, got, ""))
	}
	a.out("valid/VerifyAndAdd/" + errClass(err))
	run.Distinct(keyBase + "/verify")
}

// invalidCase: one invalid share of kind kd at position pos of order, three paths.
func invalidCase(c *context, order []int, pos, kd int, a *acc) {
	n, t := c.k.n, c.k.t
	list := make([][]byte, len(order))
	for p, i := range order {
		list[p] = c.shares[i]
	}
	list[pos] = c.bad[kd][order[pos]]
	used := pos <= t // among the first t+1, i.e. used by the stateless API / retained by the stateful object
	// the only way an invalid share can leave the result unchanged: its defect is killed by the
	// Lagrange coefficient (torsion point of order 3 times a multiple of 3)
	cancels := false
	if used && kd == kindNonG1 {
		idx := make([]int, t+1)
		for p := range idx {
			idx[p] = order[p] + 1
		}
		cancels = torsion3.Mul(refbls.LagrangeAtZero(idx)[pos]).Inf
	}
	where := "used"
	if !used {
		where = "beyond-t+1"
	}
	kn := kindName[kd]
	note := fmt.Sprintf("invalid share kind %s at position %d", kn, pos)
	desc := fmt.Sprintf("n=%d t=%d order %v pos %d kind %s", n, t, order, pos, kn)
	run.Distinct(fmt.Sprintf("c/%d/%d/%d/%d/%v/%d/%d", n, t, c.k.si, c.mi, order, pos, kd))

	// stateless
	got, err := stateless(n, t, list, order)
	a.evals++
	res := errClass(err)
	if err == nil {
		if bytes.Equal(got, c.expected) {
			res = "expected-bytes"
		} else {
			res = "other-bytes"
		}
	}
	a.out(fmt.Sprintf("invalid/stateless/%s/%s/%s", kn, where, res))
	if used {
		switch {
		case err != nil && !crypto.IsInvalidSignatureError(err):
			run.Violation("c:stateless:"+kn+":unexpected-error-class", desc+": "+err.Error(), c.rep("c", "stateless", order, list, nil, note))
		case kd >= kindMalformed && err == nil:
			run.Violation("c:stateless:malformed-share:accepted", desc, c.rep("c", "stateless", order, list, got, note))
		case err == nil && !cancels && bytes.Equal(got, c.expected):
			run.Violation("c:stateless:"+kn+":returned-the-valid-signature", desc, c.rep("c", "stateless", order, list, got, note))
		}
	}

	// stateful TrustedAdd
	ins := c.inspector()
	for p, i := range order {
		if _, err := ins.TrustedAdd(i, list[p]); err != nil {
			run.Violation("c:stateful:TrustedAdd:error", desc+": "+err.Error(), c.rep("c", "TrustedAdd", order, list, nil, note))
		}
	}
	got, err = ins.ThresholdSignature()
	a.evals++
	res = errClass(err)
	if err == nil {
		if bytes.Equal(got, c.expected) {
			res = "expected-bytes"
		} else {
			res = "other-bytes"
		}
	}
	a.out(fmt.Sprintf("invalid/TrustedAdd/%s/%s/%s", kn, where, res))
	switch {
	case err == nil && !bytes.Equal(got, c.expected):
		run.Violation("c:stateful:TrustedAdd:"+kn+":returned-invalid-signature", desc+": ThresholdSignature returned a signature that is not a0*H(m)", c.rep("c", "TrustedAdd", order, list, got, note))
	case err == nil && used && !cancels:
		run.Violation("c:stateful:TrustedAdd:"+kn+":no-error", desc+": invalid retained share but ThresholdSignature returned no error", c.rep("c", "TrustedAdd", order, list, got, note))
	}

	// stateful VerifyAndAdd: the invalid share is never retained
	ins = c.inspector()
	for p, i := range order {
		if _, _, err := ins.VerifyAndAdd(i, list[p]); err != nil {
			run.Violation("c:stateful:VerifyAndAdd:error", desc+": "+err.Error(), c.rep("c", "VerifyAndAdd", order, list, nil, note))
		}
		a.evals++
	}
	got, err = ins.ThresholdSignature()
	a.evals++
	res = errClass(err)
	if err == nil {
		if bytes.Equal(got, c.expected) {
			res = "expected-bytes"
		} else {
			res = "other-bytes"
		}
	}
	a.out(fmt.Sprintf("invalid/VerifyAndAdd/%s/%s/%s", kn, where, res))
	enoughValid := len(order)-1 >= t+1
	switch {
	case err == nil && !bytes.Equal(got, c.expected):
		run.Violation("c:stateful:VerifyAndAdd:"+kn+":returned-invalid-signature", desc, c.rep("c", "VerifyAndAdd", order, list, got, note))
	case enoughValid && err != nil:
		run.Violation("c:stateful:VerifyAndAdd:"+kn+":t+1-valid-shares-but-error", desc+": "+err.Error(), c.rep("c", "VerifyAndAdd", order, list, nil, note))
	case !enoughValid && !crypto.IsNotEnoughSharesError(err):
		run.Violation("c:stateful:VerifyAndAdd:"+kn+":fewer-than-t+1-valid-shares-no-not-enough-error", fmt.Sprintf("%s: sig=%x err=%v", desc, got, err), c.rep("c", "VerifyAndAdd", order, list, got, note))
	}
}

// ---------------------------------------------------------------- (d) error shapes

func expectErr(key, desc string, err error, pred func(error) bool, rp replay) {
	run.Add("evaluations", 1)
	run.Distinct("d/" + key + "/" + desc)
	if err == nil || !pred(err) {
		rp.Note = fmt.Sprintf("%s: got error %v (class %s)", desc, err, errClass(err))
		run.Violation("d:"+key, rp.Note, rp)
	}
}

func errorShapes(c *context) {
	n, t := c.k.n, c.k.t
	all := make([]int, n)
	for i := range all {
		all[i] = i
	}
	sh := func(order []int) [][]byte {
		l := make([][]byte, len(order))
		for p, i := range order {
			l[p] = c.shares[i]
		}
		return l
	}
	// exactly t shares (every rotation start)
	for s := 0; s < n; s++ {
		o := rotated(all, s)[:t]
		got, err := stateless(n, t, sh(o), o)
		if got != nil {
			run.Violation("d:stateless:t-shares:returned-signature", fmt.Sprintf("n=%d t=%d signers %v", n, t, o), c.rep("d", "stateless", o, sh(o), got, ""))
		}
		expectErr("stateless:t-shares:not-IsNotEnoughSharesError", fmt.Sprintf("n=%d t=%d signers %v", n, t, o), err, crypto.IsNotEnoughSharesError, c.rep("d", "stateless", o, sh(o), nil, ""))
	}
	// duplicate index at each pair of positions, list lengths t+1 and n
	for _, L := range []int{t + 1, n} {
		base := all[:L]
		for p := 0; p < L; p++ {
			for q := 0; q < L; q++ {
				if p == q {
					continue
				}
				o := append([]int{}, base...)
				o[q] = o[p]
				l := sh(base) // share bytes stay distinct; only the index is duplicated
				_, err := stateless(n, t, l, o)
				expectErr("stateless:duplicate-index:not-IsDuplicatedSignerError", fmt.Sprintf("n=%d t=%d signers %v", n, t, o), err, crypto.IsDuplicatedSignerError, c.rep("d", "stateless", o, l, nil, ""))
			}
		}
		// index -1 / n at each position
		for p := 0; p < L; p++ {
			for _, v := range []int{-1, n, n + 1, 255, 256, 256 + base[p]} {
				o := append([]int{}, base...)
				o[p] = v
				_, err := stateless(n, t, sh(base), o)
				expectErr("stateless:index-out-of-range:not-IsInvalidInputsError", fmt.Sprintf("n=%d t=%d signers %v", n, t, o), err, crypto.IsInvalidInputsError, c.rep("d", "stateless", o, sh(base), nil, ""))
			}
		}
	}
	// size / threshold out of range
	o := all[:t+1]
	for _, size := range []int{-1, 0, 1, 255, 256, 1 << 20} {
		_, err := stateless(size, t, sh(o), o)
		expectErr("stateless:size-out-of-range:not-IsInvalidInputsError", fmt.Sprintf("size=%d t=%d", size, t), err, crypto.IsInvalidInputsError, c.rep("d", "stateless", o, sh(o), nil, ""))
		_, _, _, err = crypto.BLSThresholdKeyGen(size, t, c.k.seed)
		expectErr("keygen:size-out-of-range:not-IsInvalidInputsError", fmt.Sprintf("size=%d t=%d", size, t), err, crypto.IsInvalidInputsError, c.k.rep("d", ""))
	}
	for _, th := range []int{-1, 0, n, n + 1, 255} {
		_, err := stateless(n, th, sh(all), all)
		expectErr("stateless:threshold-out-of-range:not-IsInvalidInputsError", fmt.Sprintf("n=%d threshold=%d", n, th), err, crypto.IsInvalidInputsError, c.rep("d", "stateless", all, sh(all), nil, ""))
		_, _, _, err = crypto.BLSThresholdKeyGen(n, th, c.k.seed)
		expectErr("keygen:threshold-out-of-range:not-IsInvalidInputsError", fmt.Sprintf("n=%d threshold=%d", n, th), err, crypto.IsInvalidInputsError, c.k.rep("d", ""))
		_, err = crypto.NewBLSThresholdSignatureInspector(c.k.gpk, c.k.pks, th, c.msg.m, c.msg.tag)
		expectErr("inspector:threshold-out-of-range:not-IsInvalidInputsError", fmt.Sprintf("n=%d threshold=%d", n, th), err, crypto.IsInvalidInputsError, c.k.rep("d", ""))
		_, err = crypto.NewBLSThresholdSignatureParticipant(c.k.gpk, c.k.pks, th, 0, c.k.sks[0], c.msg.m, c.msg.tag)
		expectErr("participant:threshold-out-of-range:not-IsInvalidInputsError", fmt.Sprintf("n=%d threshold=%d", n, th), err, crypto.IsInvalidInputsError, c.k.rep("d", ""))
	}
	_, err := crypto.NewBLSThresholdSignatureInspector(c.k.gpk, c.k.pks[:1], 1, c.msg.m, c.msg.tag)
	expectErr("inspector:size-out-of-range:not-IsInvalidInputsError", "size=1", err, crypto.IsInvalidInputsError, c.k.rep("d", ""))
	for _, me := range []int{-1, n} {
		_, err = crypto.NewBLSThresholdSignatureParticipant(c.k.gpk, c.k.pks, t, me, c.k.sks[0], c.msg.m, c.msg.tag)
		expectErr("participant:index-out-of-range:not-IsInvalidInputsError", fmt.Sprintf("n=%d myIndex=%d", n, me), err, crypto.IsInvalidInputsError, c.k.rep("d", ""))
	}
	if n > 1 {
		_, err = crypto.NewBLSThresholdSignatureParticipant(c.k.gpk, c.k.pks, t, 0, c.k.sks[1], c.msg.m, c.msg.tag)
		expectErr("participant:key-mismatch:not-IsInvalidInputsError", fmt.Sprintf("n=%d private key of index 1 at index 0", n), err, crypto.IsInvalidInputsError, c.k.rep("d", ""))
	}
	// list-length mismatch (both directions), lists non-empty, every share 48 bytes
	for _, d := range [][2]int{{t + 1, t + 2}, {t + 2, t + 1}, {t + 1, t}, {n, 1}, {1, n}} {
		ls, lg := d[0], d[1]
		if ls > n || lg > n || ls < 1 || lg < 1 {
			continue
		}
		_, err := stateless(n, t, sh(all[:ls]), all[:lg])
		expectErr("stateless:list-length-mismatch:not-IsInvalidInputsError", fmt.Sprintf("n=%d t=%d %d shares %d signers", n, t, ls, lg), err, crypto.IsInvalidInputsError, c.rep("d", "stateless", all[:lg], sh(all[:ls]), nil, ""))
	}
	// stateful object: index range, duplicates, not enough shares
	for _, v := range []int{-1, n, n + 1, 255, 256} {
		ins := c.inspector()
		_, err := ins.TrustedAdd(v, c.shares[0])
		expectErr("stateful:TrustedAdd:index-out-of-range:not-IsInvalidInputsError", fmt.Sprintf("n=%d index=%d", n, v), err, crypto.IsInvalidInputsError, c.k.rep("d", ""))
		_, _, err = ins.VerifyAndAdd(v, c.shares[0])
		expectErr("stateful:VerifyAndAdd:index-out-of-range:not-IsInvalidInputsError", fmt.Sprintf("n=%d index=%d", n, v), err, crypto.IsInvalidInputsError, c.k.rep("d", ""))
		_, err = ins.HasShare(v)
		expectErr("stateful:HasShare:index-out-of-range:not-IsInvalidInputsError", fmt.Sprintf("n=%d index=%d", n, v), err, crypto.IsInvalidInputsError, c.k.rep("d", ""))
		_, err = ins.VerifyShare(v, c.shares[0])
		expectErr("stateful:VerifyShare:index-out-of-range:not-IsInvalidInputsError", fmt.Sprintf("n=%d index=%d", n, v), err, crypto.IsInvalidInputsError, c.k.rep("d", ""))
	}
	for i := 0; i < n; i++ {
		for first := 0; first < 2; first++ {
			for second := 0; second < 2; second++ {
				ins := c.inspector()
				if first == 0 {
					_, err = ins.TrustedAdd(i, c.shares[i])
				} else {
					_, _, err = ins.VerifyAndAdd(i, c.shares[i])
				}
				if err != nil {
					run.Violation("d:stateful:first-add-error", err.Error(), c.k.rep("d", ""))
				}
				if second == 0 {
					_, err = ins.TrustedAdd(i, c.shares[i])
				} else {
					_, _, err = ins.VerifyAndAdd(i, c.shares[i])
				}
				expectErr("stateful:duplicate-signer:not-IsDuplicatedSignerError", fmt.Sprintf("n=%d t=%d index=%d add kinds %d,%d", n, t, i, first, second), err, crypto.IsDuplicatedSignerError, c.k.rep("d", ""))
			}
		}
	}
	for cnt := 0; cnt <= t; cnt++ {
		ins := c.inspector()
		for i := 0; i < cnt; i++ {
			_, _ = ins.TrustedAdd(i, c.shares[i])
		}
		s, err := ins.ThresholdSignature()
		if s != nil {
			run.Violation("d:stateful:fewer-than-t+1-shares:returned-signature", fmt.Sprintf("n=%d t=%d shares=%d", n, t, cnt), c.k.rep("d", ""))
		}
		expectErr("stateful:fewer-than-t+1-shares:not-IsNotEnoughSharesError", fmt.Sprintf("n=%d t=%d shares=%d", n, t, cnt), err, crypto.IsNotEnoughSharesError, c.k.rep("d", ""))
		if ins.EnoughShares() {
			run.Violation("d:stateful:EnoughShares-true-with-fewer-than-t+1", fmt.Sprintf("n=%d t=%d shares=%d", n, t, cnt), c.k.rep("d", ""))
		}
	}
}

// ---------------------------------------------------------------- (e) histories vs reference model

const (
	opTrusted = iota
	opVerify
	opHas
	opEnough
	opSig
)

type op struct {
	kind, i, sk int // sk: 0 valid, 1 other valid G1 point, 2 malformed header
}

func (o op) String() string {
	sn := []string{"valid", "wrongG1", "malformed"}
	switch o.kind {
	case opTrusted:
		return fmt.Sprintf("TrustedAdd(%d,%s)", o.i, sn[o.sk])
	case opVerify:
		return fmt.Sprintf("VerifyAndAdd(%d,%s)", o.i, sn[o.sk])
	case opHas:
		return fmt.Sprintf("HasShare(%d)", o.i)
	case opEnough:
		return "EnoughShares()"
	}
	return "ThresholdSignature()"
}

// model is the sequential reference of the documented semantics of the stateful object:
// a share map with one share per signer, at most t+1 retained, and a cached signature.
type model struct {
	t      int
	shares map[int]int // signer -> share kind
	cached bool
}

func (m *model) enough() bool { return len(m.shares) == m.t+1 }
func (m *model) key() string {
	ks := make([]string, 0, len(m.shares))
	for i, k := range m.shares {
		ks = append(ks, fmt.Sprintf("%d:%d", i, k))
	}
	sort.Strings(ks)
	return fmt.Sprintf("%v/%v", ks, m.cached)
}

// step returns the expected observation of op as a string.
func (m *model) step(o op) string {
	switch o.kind {
	case opTrusted:
		if _, ok := m.shares[o.i]; ok {
			return "false,duplicatedSigner"
		}
		if m.enough() {
			return "true,nil"
		}
		m.shares[o.i] = o.sk
		return fmt.Sprintf("%v,nil", m.enough())
	case opVerify:
		if _, ok := m.shares[o.i]; ok {
			return "false,false,duplicatedSigner"
		}
		valid := o.sk == 0
		if valid && !m.enough() {
			m.shares[o.i] = o.sk
		}
		return fmt.Sprintf("%v,%v,nil", valid, m.enough())
	case opHas:
		_, ok := m.shares[o.i]
		return fmt.Sprintf("%v,nil", ok)
	case opEnough:
		return fmt.Sprint(m.enough())
	}
	if m.cached {
		return "expected,nil"
	}
	if !m.enough() {
		return "none,notEnoughShares"
	}
	mal, wrong := false, false
	for _, k := range m.shares {
		mal = mal || k == 2
		wrong = wrong || k == 1
	}
	if mal {
		return "none,invalidSignature"
	}
	if wrong {
		return "none,invalidInputs"
	}
	m.cached = true
	return "expected,nil"
}

func histories(c *context, depth int, invalidKinds int) {
	n, t := c.k.n, c.k.t
	var alpha []op
	for i := 0; i < n; i++ {
		for sk := 0; sk <= invalidKinds; sk++ {
			alpha = append(alpha, op{opTrusted, i, sk}, op{opVerify, i, sk})
		}
		alpha = append(alpha, op{opHas, i, 0})
	}
	alpha = append(alpha, op{opEnough, 0, 0}, op{opSig, 0, 0})
	total := 1
	for d := 0; d < depth; d++ {
		total *= len(alpha)
	}
	shareOf := func(o op) []byte {
		switch o.sk {
		case 1:
			return wrongPoint
		case 2:
			return c.bad[kindMalformed][o.i]
		}
		return c.shares[o.i]
	}
	var mu sync.Mutex
	states := map[string]bool{}
	trans := map[string]bool{}
	obsSeen := map[string]int64{}
	par(total, func(id int) {
		seq := make([]op, depth)
		x := id
		for d := 0; d < depth; d++ {
			seq[d] = alpha[x%len(alpha)]
			x /= len(alpha)
		}
		m := &model{t: t, shares: map[int]int{}}
		ins := c.inspector()
		lst := map[string]bool{m.key(): true}
		ltr := map[string]bool{}
		lob := map[string]int64{}
		for d, o := range seq {
			before := m.key()
			want := m.step(o)
			var got string
			switch o.kind {
			case opTrusted:
				e, err := ins.TrustedAdd(o.i, shareOf(o))
				got = fmt.Sprintf("%v,%s", e, errClass(err))
			case opVerify:
				v, e, err := ins.VerifyAndAdd(o.i, shareOf(o))
				got = fmt.Sprintf("%v,%v,%s", v, e, errClass(err))
			case opHas:
				h, err := ins.HasShare(o.i)
				got = fmt.Sprintf("%v,%s", h, errClass(err))
			case opEnough:
				got = fmt.Sprint(ins.EnoughShares())
			case opSig:
				s, err := ins.ThresholdSignature()
				switch {
				case s == nil:
					got = "none," + errClass(err)
				case bytes.Equal(s, c.expected):
					got = "expected," + errClass(err)
				default:
					got = "OTHER-SIGNATURE," + errClass(err)
				}
			}
			lst[m.key()] = true
			ltr[before+"|"+o.String()] = true
			lob[o.String()[:strings.IndexByte(o.String(), '(')]+"->"+got]++
			if got != want {
				ops := make([]string, d+1)
				for j := range ops {
					ops[j] = seq[j].String()
				}
				r := c.rep("e", "history", nil, nil, nil, fmt.Sprintf("step %d %s: library %s, reference model %s", d, o, got, want))
				r.Ops = ops
				okind := o.String()[:strings.IndexByte(o.String(), '(')]
				run.Violation(fmt.Sprintf("e:history:%s:model-says:%s:library-says:%s", okind, want, got), r.Note+" after "+strings.Join(ops[:d], " "), r)
				break
			}
		}
		run.Add("evaluations", int64(depth))
		run.Add("traces_validated_against_impl", 1)
		run.Distinct(fmt.Sprintf("e/%d", id))
		mu.Lock()
		for k := range lst {
			states[k] = true
		}
		for k := range ltr {
			trans[k] = true
		}
		for k, v := range lob {
			obsSeen[k] += v
		}
		mu.Unlock()
	})
	run.Add("states", int64(len(states)))
	run.Add("transitions", int64(len(trans)))
	run.Set("history_alphabet_size", len(alpha))
	run.Set("history_depth", depth)
	run.Set("history_sequences", total)
	run.Set("history_observation_histogram", obsSeen)
	ops := make([]string, depth)
	for d := range ops {
		ops[d] = alpha[(total/3/pow(len(alpha), d))%len(alpha)].String()
	}
	run.Sample(map[string]any{"part": "e", "ops": ops})
}

func pow(a, b int) int {
	r := 1
	for ; b > 0; b-- {
		r *= a
	}
	return r
}

// ---------------------------------------------------------------- replay

func doReplay() {
	b, err := os.ReadFile(run.Replay)
	if err != nil {
		run.Fatal("%v", err)
	}
	if bytes.Contains(b, []byte("stateful-concurrent:")) {
		// a program of the concurrent-submission part: re-explored by the scheduler-variant binary
		ev.SchedReplay("C06_SCHED_BIN", run.Replay)
	}
	var f struct {
		Key    string `json:"key"`
		Replay replay `json:"replay"`
	}
	if err := json.Unmarshal(b, &f); err != nil {
		run.Fatal("%v", err)
	}
	r := f.Replay
	fmt.Printf("replay of %s: part=%s n=%d t=%d path=%s signers=%v note=%s\n", f.Key, r.Part, r.N, r.T, r.Path, r.Signers, r.Note)
	if len(r.Shares) == 0 || len(r.Shares) != len(r.Signers) && r.Path != "stateless" {
		fmt.Println("nothing to re-run for this kind of case (inputs are all in the file)")
		run.Add("evaluations", 1)
		run.Finish()
	}
	shares := make([][]byte, len(r.Shares))
	for i, s := range r.Shares {
		shares[i] = ev.UnHex(s)
	}
	seed := ev.UnHex(r.Seed)
	_, pks, gpk, err := crypto.BLSThresholdKeyGen(r.N, r.T, seed)
	if err != nil {
		run.Fatal("keygen: %v", err)
	}
	var got []byte
	switch r.Path {
	case "stateless":
		got, err = stateless(r.N, r.T, shares, r.Signers)
	case "TrustedAdd", "VerifyAndAdd":
		ins, e := crypto.NewBLSThresholdSignatureInspector(gpk, pks, r.T, ev.UnHex(r.Msg), r.Tag)
		if e != nil {
			run.Fatal("%v", e)
		}
		for p, i := range r.Signers {
			if r.Path == "TrustedAdd" {
				en, e := ins.TrustedAdd(i, shares[p])
				fmt.Printf("  TrustedAdd(%d) = %v, %v\n", i, en, e)
			} else {
				v, en, e := ins.VerifyAndAdd(i, shares[p])
				fmt.Printf("  VerifyAndAdd(%d) = %v, %v, %v\n", i, v, en, e)
			}
		}
		got, err = ins.ThresholdSignature()
	default:
		fmt.Println("path not re-runnable")
	}
	fmt.Printf("  result   = %x, err = %v\n  expected = %s (reference a0*H(m) recorded in the file)\n", got, err, r.Expected)
	run.Add("evaluations", 1)
	if err == nil && got != nil && ev.Hex(got) != r.Expected {
		run.Violation(f.Key, "replayed: result differs from the recorded reference signature", r)
	}
	run.Finish()
}

// ---------------------------------------------------------------- main

func main() {
	run = ev.Start("C06", "exploration")
	if err := refbls.SelfTest(); err != nil {
		run.Fatal("refbls self-test: %v", err)
	}
	if run.Replay != "" {
		doReplay()
		return
	}
	run.Budget(4*time.Minute, 15*time.Minute)
	var err error
	skOne, err = crypto.DecodePrivateKey(crypto.BLSBLS12381, refbls.ScalarBytes(big.NewInt(1)))
	if err != nil {
		run.Fatal("DecodePrivateKey(1): %v", err)
	}
	if torsion3, err = refbls.TorsionG1(3); err != nil {
		run.Fatal("%v", err)
	}
	wrongPoint = refbls.EncodeG1(refbls.G1Gen().Mul(new(big.Int).SetBytes(material(24, 7))))
	messages = []message{
		{material(33, 2, 0), "C06-tag-A"},
		{material(168, 2, 1), ""},
	}
	maxN := 6
	if run.Thorough() {
		maxN = 7
	}
	run.Set("rule", "(a) every (n,t), 2<=n<=maxN, 1<=t<n x 2 keygen seeds x 2 (message,tag) x every signer subset of size >= t+1 x orders (all permutations for size<=3; sorted, reversed, each rotation otherwise) x paths {BLSReconstructThresholdSignature, inspector+TrustedAdd, participant+VerifyAndAdd}; "+
		"(b) n in {20,254}, t+1 in sizes_b, every (t+1)-subset of the index pool (12-element pool {0,1,6,7,8,9,14,15,16,17,n-2,n-1} for t+1<=10; a 12-element pool has no 16-subsets, so for t+1>=16 the pool is extended to 20 indices: all of 0..19 for n=20, {0,1,6,7,8,9,14,15,16,17,22,23,24,25,126,127,128,129,252,253} for n=254) in orders {sorted, reversed, rotated by 3}, stateless always, inspector+TrustedAdd on the sorted order; (b') n=254, t+1 in sizes_b_high, every (t+1)-subset of the high-index pools {242..253} and {0,1,244..253} (limb-overflow boundary: products of 8 indices near 254), same orders; "+
		"(c) every case of (a) with n<=5 (thorough: n<=6) x every position x invalid share kinds {share of signer i+1, unrelated G1 point, share+T (T of order 3, outside G1), compression bit cleared, x not on the curve, x >= p, infinity flag on a non-zero string} x the three paths; "+
		"(d) per (n,t): exactly t shares, duplicate index at every ordered pair of positions, index -1/n/... at every position, size/threshold out of range, list-length mismatch, on the stateless API, the constructors, key generation and the stateful methods; "+
		"(e) n=3,t=1: every call sequence of length t+3=4 over {TrustedAdd(i,kind), VerifyAndAdd(i,kind), HasShare(i), EnoughShares, ThresholdSignature} compared step by step with a sequential reference model. "+
		"Expected bytes: big-integer Lagrange interpolation of the private shares read back from BLSThresholdKeyGen (every (t+1)-subset of the first t+3 shares gives one a0, all shares on one polynomial of degree <= t, pk_i = sk_i*g2, group key = a0*g2) and EncodeG1(a0*H(m)), H(m) = library signature under key 1. "+
		"A case is distinct/non-trivial by (part, n, t, seed index, message index, signer order, path[, position, kind]) resp. by call sequence; shares of length != 48 and empty lists are never passed (C09).")
	run.Set("max_n", maxN)
	maxC := 5
	if run.Thorough() {
		maxC = 6
	}
	run.Set("max_n_invalid_share_part_c", maxC)
	run.Sample(map[string]any{"wrong_G1_point": ev.Hex(wrongPoint), "torsion_point_order3": ev.Hex(refbls.EncodeG1(torsion3))})

	// ---- (a) + (c) + (d)
	type acase struct {
		c     *context
		order []int
	}
	var ctxs []*context
	for n := 2; n <= maxN; n++ {
		for t := 1; t < n; t++ {
			for si := 0; si < 2; si++ {
				k := newKeygen(n, t, si, nil)
				if k.bad {
					continue
				}
				all := make([]int, n)
				for i := range all {
					all[i] = i
				}
				for mi := range messages {
					ctxs = append(ctxs, newContext(k, mi, all, true))
				}
			}
		}
	}
	fmt.Printf("C06 setup: %d key generations checked, %d contexts, %.1fs\n", len(ctxs)/2, len(ctxs), elapsed())
	var cases []acase
	for _, c := range ctxs {
		n, t := c.k.n, c.k.t
		for mask := 1; mask < 1<<n; mask++ {
			var sub []int
			for i := 0; i < n; i++ {
				if mask>>i&1 == 1 {
					sub = append(sub, i)
				}
			}
			if len(sub) < t+1 {
				continue
			}
			for _, o := range ordersOf(sub) {
				cases = append(cases, acase{c, o})
			}
		}
	}
	run.Set("cases_a", len(cases))
	var nC int64
	var cMu sync.Mutex
	par(len(cases), func(i int) {
		if run.Expired() {
			return
		}
		cs := cases[i]
		a := newAcc()
		validCase(cs.c, "a", cs.order, a, 3)
		if cs.c.k.n <= maxC {
			cnt := int64(0)
			for pos := range cs.order {
				for kd := 0; kd < nKinds; kd++ {
					invalidCase(cs.c, cs.order, pos, kd, a)
					cnt++
				}
			}
			cMu.Lock()
			nC += cnt
			cMu.Unlock()
		}
		a.flush()
	})
	run.Set("cases_c", nC)
	// (c') the FULL structured candidate family (the one C01/C05 offer to Verify) as the share of one
	// signer, for the first context with n = 3, t = 1 and one with t = 2: a string that is not a
	// canonical encoding of a curve point is refused by every path; a canonical one that is not the
	// signer's share never yields the group signature (unless the Lagrange coefficient kills the
	// difference, computed by the reference) and is refused by VerifyShare / VerifyAndAdd.
	{
		var fam []acase
		seenNT := map[[2]int]bool{}
		for _, cs := range cases {
			k := [2]int{cs.c.k.n, cs.c.k.t}
			if (k == [2]int{3, 1} || k == [2]int{4, 2}) && !seenNT[k] && len(cs.order) == cs.c.k.t+1 {
				seenNT[k] = true
				fam = append(fam, cs)
			}
		}
		var nF int64
		for _, cs := range fam {
			c, order := cs.c, cs.order
			n, t := c.k.n, c.k.t
			idx := make([]int, t+1)
			for p := range idx {
				idx[p] = order[p] + 1
			}
			lam := refbls.LagrangeAtZero(idx)
			for pos := 0; pos <= t; pos += t { // first and last used position
				signer := order[pos]
				cands := refbls.G1Candidates(c.sharePt[signer], c.H)
				par(len(cands), func(i int) {
					cd := cands[i]
					if len(cd.Bytes) != 48 {
						return // other lengths are refused before parsing (C09 / part d)
					}
					list := make([][]byte, len(order))
					for p, s := range order {
						list[p] = c.shares[s]
					}
					list[pos] = cd.Bytes
					v := refbls.JudgeG1(cd.Bytes)
					same := bytes.Equal(cd.Bytes, c.shares[signer])
					desc := fmt.Sprintf("n=%d t=%d order %v pos %d candidate %s", n, t, order, pos, cd.Name)
					note := "candidate " + cd.Name
					got, err := stateless(n, t, list, order)
					atomic.AddInt64(&nF, 1)
					switch {
					case !v.Decodes:
						if err == nil || !crypto.IsInvalidSignatureError(err) {
							run.Violation("c:family:stateless:non-canonical-share-accepted:"+famClass(cd.Name), desc+fmt.Sprintf(": (%x, %v), want the invalid-signature error", got, err), c.rep("c'", "stateless", order, list, got, note))
						}
					case same:
						if err != nil || !bytes.Equal(got, c.expected) {
							run.Violation("c:family:stateless:valid-share-rejected", desc, c.rep("c'", "stateless", order, list, got, note))
						}
					default:
						cancels := v.Point.Add(c.sharePt[signer].Neg()).Mul(lam[pos]).Inf
						if err == nil && bytes.Equal(got, c.expected) != cancels {
							run.Violation("c:family:stateless:wrong-share-gives-group-signature:"+famClass(cd.Name), desc, c.rep("c'", "stateless", order, list, got, note))
						}
					}
					ins := c.inspector()
					ok, verr := ins.VerifyShare(signer, cd.Bytes)
					if verr != nil || ok != same {
						run.Violation("c:family:VerifyShare:"+famClass(cd.Name), desc+fmt.Sprintf(": VerifyShare = (%v,%v), want (%v,nil)", ok, verr, same), c.rep("c'", "VerifyShare", order, list, nil, note))
					}
					for p, s := range order {
						_, _ = ins.TrustedAdd(s, list[p])
					}
					ts, terr := ins.ThresholdSignature()
					if terr == nil && !bytes.Equal(ts, c.expected) {
						run.Violation("c:family:stateful:returned-invalid-signature:"+famClass(cd.Name), desc+": ThresholdSignature returned a signature that is not a0*H(m)", c.rep("c'", "TrustedAdd", order, list, ts, note))
					}
					run.Distinct(fmt.Sprintf("cf/%d/%d/%d/%s", n, t, pos, cd.Name))
				})
			}
		}
		run.Set("cases_c_family", nF)
		run.Add("evaluations", 3*nF)
	}
	if len(cases) > 0 {
		cs := cases[len(cases)/2]
		l := make([][]byte, len(cs.order))
		for p, i := range cs.order {
			l[p] = cs.c.shares[i]
		}
		run.Sample(cs.c.rep("a", "stateless", cs.order, l, cs.c.expected, "valid shares"))
	}
	fmt.Printf("C06 (a)+(c) done at %.1fs: %d orders, %d invalid-share cases\n", elapsed(), len(cases), nC)

	// (d) once per (n,t): seed 0, message 0
	var dctx []*context
	for _, c := range ctxs {
		if c.k.si == 0 && c.mi == 0 {
			dctx = append(dctx, c)
		}
	}
	par(len(dctx), func(i int) { errorShapes(dctx[i]) })
	fmt.Printf("C06 (d) done at %.1fs\n", elapsed())

	// ---- (e)
	for _, c := range ctxs {
		if c.k.n == 3 && c.k.t == 1 && c.k.si == 0 && c.mi == 0 {
			ik := 1
			if run.Thorough() {
				ik = 2
			}
			histories(c, c.k.t+3, ik)
		}
	}
	fmt.Printf("C06 (e) done at %.1fs\n", elapsed())

	// ---- (b) limb-boundary family
	sizes := []int{8, 9, 10}
	if run.Thorough() {
		sizes = []int{8, 9, 10, 16, 17, 18}
	}
	run.Set("sizes_b", sizes)
	var bcases []acase
	for _, n := range []int{20, 254} {
		pool := []int{0, 1, 6, 7, 8, 9, 14, 15, 16, 17, n - 2, n - 1}
		ext := make([]int, 20)
		for i := range ext {
			ext[i] = i
		}
		if n == 254 {
			ext = []int{0, 1, 6, 7, 8, 9, 14, 15, 16, 17, 22, 23, 24, 25, 126, 127, 128, 129, 252, 253}
		}
		for _, sz := range sizes {
			p := pool
			if sz > len(pool) {
				p = ext
			}
			k := newKeygen(n, sz-1, 0, p)
			if k.bad {
				continue
			}
			c := newContext(k, 0, p, false)
			for _, sub := range combos(p, sz) {
				bcases = append(bcases, acase{c, sub}, acase{c, reversed(sub)}, acase{c, rotated(sub, 3)})
			}
		}
	}
	// (b') high-index family: the products of up to 8 (one limb batch) signer indices close to 254
	// are where a 64-bit limb is closest to overflowing (254*253*...*247 < 2^64 < 9 such factors)
	hsizes := []int{9, 10}
	if run.Thorough() {
		hsizes = []int{8, 9, 10, 11, 12}
	}
	run.Set("sizes_b_high", hsizes)
	for _, hp := range [][]int{{242, 243, 244, 245, 246, 247, 248, 249, 250, 251, 252, 253}, {0, 1, 244, 245, 246, 247, 248, 249, 250, 251, 252, 253}} {
		for _, sz := range hsizes {
			k := newKeygen(254, sz-1, 0, hp)
			if k.bad {
				continue
			}
			c := newContext(k, 0, hp, false)
			for _, sub := range combos(hp, sz) {
				bcases = append(bcases, acase{c, sub}, acase{c, reversed(sub)}, acase{c, rotated(sub, 3)})
			}
		}
	}
	run.Set("cases_b", len(bcases))
	par(len(bcases), func(i int) {
		if run.Expired() {
			return
		}
		cs := bcases[i]
		a := newAcc()
		paths := 1
		if i%3 == 0 {
			paths = 2
		}
		validCase(cs.c, fmt.Sprintf("b:n%d:size%d", cs.c.k.n, cs.c.k.t+1), cs.order, a, paths)
		a.flush()
	})
	if len(bcases) > 0 {
		cs := bcases[len(bcases)-2]
		run.Sample(map[string]any{"part": "b", "n": cs.c.k.n, "t": cs.c.k.t, "signers": cs.order, "expected_signature": ev.Hex(cs.c.expected)})
	}
	fmt.Printf("C06 (b) done at %.1fs: %d index lists\n", elapsed(), len(bcases))

	longShareLists()
	run.Set("outcome_histogram", outcomes)
	// (f) the stateful object under CONCURRENT submission of distinct valid shares (cmd/c06s, scheduler variant)
	run.SchedPart("C06_SCHED_BIN", "stateful_concurrent_submission",
		"n=3,t=1 and n=4,t=2: the pool is filled sequentially up to t+1-k shares, then 2-3 threads each add one further distinct VALID share (TrustedAdd / VerifyAndAdd in all mixes), optionally next to a thread calling ThresholdSignature() or EnoughShares(); all schedules with <= 2 (thorough 3) preemptions for two threads and <= 1 (thorough 2) for three, over the RWMutex operations (modelled blocking) and the statement-level scheduling points of bls_thresholdsign.go; afterwards EnoughShares() is true, ThresholdSignature() succeeds and every signature returned during or after equals the stateless reconstruction",
		"n=3,t=1 pre[0] [VerifyAndAdd(1,valid)] || [VerifyAndAdd(2,valid)]")
	run.Set("distinct_outcomes", len(outcomes))
	run.Assume(
		"refbls (math/big curve arithmetic, ZCash G1 encoding, Flow-order G2 encoding, Lagrange at 0) self-tested at start-up",
		"H(m) is taken from the library's signature under the private key 1 (BLST map_to_G1 is the definition of the hash-to-curve image)",
		"inside the stateful object the order in which retained shares reach the C layer is Go's map iteration order; the oracle does not depend on it and it is not claimed that every internal order was driven",
		"n is enumerated exhaustively up to max_n; n=20 and n=254 only on the listed index pools; other 7<n<=254 are not explored",
	)
	run.Finish()
}

var t0 = time.Now()

func elapsed() float64 { return time.Since(t0).Seconds() }


// famClass strips indices from a candidate name ("bitflip/17" -> "bitflip").
func famClass(name string) string {
	if i := strings.IndexByte(name, '/'); i >= 0 {
		return name[:i]
	}
	return name
}


// longShareLists (part g): t+1 around 64 / 128 / 254 shares. The C layer sums t+1 scalar multiples with
// a multi-scalar routine whose algorithm (and scratch memory) changes with the number of points (BLST
// switches to Pippenger buckets above 64 points); every other part stays below 13 shares.
// Sequential: first / last / reversed / rotated / every-other index sets through the three paths.
// AUXILIARY (sampling, not the deciding step): the same reconstructions from 8 free-running goroutines at
// once - calls into C are single atomic steps for the cooperative scheduler of part (f), so state shared
// between concurrent C calls (a static scratch buffer) is invisible to it; results are compared with the
// sequential ones, which makes a report a definite wrong answer, never a timing artefact.
func longShareLists() {
	cfgs := [][2]int{{70, 62}, {70, 63}, {70, 64}, {70, 65}, {254, 127}, {254, 128}}
	if run.Thorough() {
		cfgs = append(cfgs, [2]int{254, 253}, [2]int{254, 191}, [2]int{130, 129}, [2]int{100, 64})
	}
	run.Set("long_share_lists", cfgs)
	type pc struct {
		c      *context
		orders [][]int
	}
	var pcs []pc
	a := newAcc()
	for _, nt := range cfgs {
		n, t := nt[0], nt[1]
		k := newKeygen(n, t, 0, []int{0, n - 1})
		if k.bad {
			continue
		}
		all := make([]int, n)
		for i := range all {
			all[i] = i
		}
		fmt.Printf("C06 (g) keygen n=%d t=%d at %.1fs\n", n, t, elapsed())
		c := newContext(k, 0, all, false)
		fmt.Printf("C06 (g) context n=%d t=%d at %.1fs\n", n, t, elapsed())
		first, last := all[:t+1], all[n-t-1:]
		orders := [][]int{append([]int{}, first...), append([]int{}, last...), reversed(first), rotated(last, 7)}
		if 2*(t+1) <= n {
			var eo []int
			for i := 0; i < t+1; i++ {
				eo = append(eo, 2*i)
			}
			orders = append(orders, eo)
		}
		// more than t+1 shares: all n
		orders = append(orders, append([]int{}, all...))
		pcs = append(pcs, pc{c, orders})
	}
	type job struct {
		c *context
		o []int
	}
	var jobs []job
	for _, x := range pcs {
		for _, o := range x.orders {
			jobs = append(jobs, job{x.c, o})
		}
	}
	var amu sync.Mutex
	par(len(jobs), func(i int) {
		la := newAcc()
		validCase(jobs[i].c, "g", jobs[i].o, la, 3)
		amu.Lock()
		a.evals += la.evals
		for k, v := range la.outcomes {
			a.outcomes[k] += v
		}
		amu.Unlock()
	})
	a.flush()
	fmt.Printf("C06 (g) sequential done at %.1fs\n", elapsed())
	// auxiliary free-running pass
	const G, K = 8, 4
	var calls, wrong int64
	for _, x := range pcs {
		c := x.c
		n, t := c.k.n, c.k.t
		var wg sync.WaitGroup
		var mu sync.Mutex
		for g := 0; g < G; g++ {
			wg.Add(1)
			go func(g int) {
				defer wg.Done()
				all := make([]int, n)
				for i := range all {
					all[i] = i
				}
				order := rotated(all, g*5)[:t+1]
				list := make([][]byte, len(order))
				for p, i := range order {
					list[p] = c.shares[i]
				}
				for it := 0; it < K; it++ {
					got, err := stateless(n, t, list, order)
					ins := c.inspector()
					for p, i := range order {
						_, _ = ins.TrustedAdd(i, list[p])
					}
					got2, err2 := ins.ThresholdSignature()
					mu.Lock()
					calls += 2
					if err != nil || !bytes.Equal(got, c.expected) {
						wrong++
						run.Violation("aux-parallel:stateless:valid-shares:wrong-result", fmt.Sprintf("n=%d t=%d: BLSReconstructThresholdSignature running in %d goroutines at once returned (%x,%v); alone it returns the group signature", n, t, G, got, err),
							c.rep("g-aux", "stateless, 8 goroutines", order, nil, got, "auxiliary free-running pass"))
					}
					if err2 != nil || !bytes.Equal(got2, c.expected) {
						wrong++
						run.Violation("aux-parallel:stateful:valid-shares:wrong-result", fmt.Sprintf("n=%d t=%d: ThresholdSignature() of separate objects running in %d goroutines at once returned (%x,%v); alone it returns the group signature", n, t, G, got2, err2),
							c.rep("g-aux", "TrustedAdd, 8 goroutines", order, nil, got2, "auxiliary free-running pass"))
					}
					mu.Unlock()
				}
			}(g)
		}
		wg.Wait()
	}
	fmt.Printf("C06 (g) auxiliary pass done at %.1fs\n", elapsed())
	run.Add("evaluations", calls)
	run.Set("aux_parallel_reconstruction", map[string]any{"goroutines": G, "iterations": K, "calls": calls, "wrong": wrong,
		"note": "auxiliary assumption discharge (sampling): concurrent calls into the C layer, which the scheduler part treats as atomic steps; not the deciding step"})
}
