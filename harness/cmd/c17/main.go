// C17: SPoCK verification holds exactly for proofs of one message under the claimed keys.
//
// Full product of ordered key pairs x data x tags x proof-string kinds for either side, each
// case also with the two (key, proof) pairs swapped. The verdict is computed without pairings:
// every key handed out has a known discrete log, every proof string is built by refbls, and
// e(p1,pk2) = e(p2,pk1) <=> sk2*p1 = sk1*p2 in G1.
package main

import (
	"strings"
	"runtime"
	"bytes"
	"fmt"
	"math/big"
	"sync"
	"time"

	crypto "github.com/onflow/crypto"
	"github.com/onflow/crypto/hash"

	"verif/harness/ev"
	"verif/harness/ref/refbls"
)

var run *ev.Run

func splitmix(x *uint64) uint64 {
	*x += 0x9e3779b97f4a7c15
	z := *x
	z = (z ^ (z >> 30)) * 0xbf58476d1ce4e5b9
	z = (z ^ (z >> 27)) * 0x94d049bb133111eb
	return z ^ (z >> 31)
}

// material: deterministic bytes from (VERIF_SEED, labels); instantiates keys / data only.
func material(n int, labels ...int) []byte {
	st := uint64(run.Seed)*0x100000001b3 + 0xcbf29ce484222325
	for _, l := range labels {
		st = st*0x100000001b3 ^ uint64(l+1)
		splitmix(&st)
	}
	out := make([]byte, n)
	for i := range out {
		out[i] = byte(splitmix(&st) >> 24)
	}
	return out
}

// ---------------------------------------------------------------- alphabets

type key struct {
	name string
	sk   *big.Int // discrete log of the public key (0 for the identity key)
	si   int      // index into scalars
	priv crypto.PrivateKey
	pk   crypto.PublicKey
}

type proof struct {
	id        int
	b         []byte
	pt        refbls.G1
	canonical bool // 48 bytes and accepted by the strict reference decoder
	inG1      bool
}

var (
	keys    []*key
	scalars []*big.Int
	data    [][]byte
	tags    []string
	hpt     [][]refbls.G1 // H(data, tag)

	proofs   []*proof
	proofIdx = map[string]int{}
	mulTab   [][]refbls.G1 // mulTab[proof][scalar] for proofs in G1
	torsion  []refbls.G1
	factors  []*big.Int
)

func hasher(tag string) hash.Hasher { return crypto.NewExpandMsgXOFKMAC128(tag) }

func scalarIndex(s *big.Int) int {
	for i, v := range scalars {
		if v.Cmp(s) == 0 {
			return i
		}
	}
	scalars = append(scalars, s)
	return len(scalars) - 1
}

func addKey(name string, sk *big.Int, priv crypto.PrivateKey, pk crypto.PublicKey) {
	// the public key must be the known multiple of g2 (this ties the scalar to the object)
	want := refbls.EncodeG2Flow(refbls.G2Gen().Mul(sk))
	if !bytes.Equal(want, pk.Encode()) {
		run.Fatal("key %s: public key encoding %x is not sk*g2 = %x", name, pk.Encode(), want)
	}
	keys = append(keys, &key{name: name, sk: sk, si: scalarIndex(sk), priv: priv, pk: pk})
}

func intern(b []byte) *proof {
	if i, ok := proofIdx[string(b)]; ok {
		return proofs[i]
	}
	p := &proof{id: len(proofs), b: b}
	if len(b) == 48 {
		if pt, err := refbls.DecodeG1(b); err == nil {
			p.canonical, p.pt = true, pt
		}
	}
	proofIdx[string(b)] = p.id
	proofs = append(proofs, p)
	return p
}

// proof kinds, relative to a context (data d, tag g) and a key
var kindNames = []string{"honest", "other-data", "other-tag", "scaled-by-c", "s+T3-outside-G1", "identity", "bad-header", "len0", "len47", "len49"}

func nKinds() int { return len(kindNames) }

func honestPt(k *key, d, g int) refbls.G1 { return hpt[d][g].Mul(k.sk) }

// buildKinds returns the proof strings of every kind for (key, d, g). otherD / otherG select the
// "other" data and tag.
func buildKinds(k *key, d, g int) []*proof {
	od, og := (d+1)%len(data), (g+1)%len(tags)
	h := honestPt(k, d, g)
	hb := refbls.EncodeG1(h)
	out := []*proof{
		intern(hb),
		intern(refbls.EncodeG1(honestPt(k, od, g))),
		intern(refbls.EncodeG1(honestPt(k, d, og))),
		intern(refbls.EncodeG1(h.Mul(factors[0]))),
		intern(refbls.EncodeG1(h.Add(torsion[0]))),
		intern(refbls.EncodeG1(refbls.G1Inf())),
	}
	bad := append([]byte{}, hb...)
	bad[0] &^= refbls.FlagCompressed
	out = append(out, intern(bad), intern([]byte{}), intern(append([]byte{}, hb[:47]...)), intern(append(append([]byte{}, hb...), 0)))
	// thorough extras (names appended in main)
	for i := 1; i < len(factors); i++ {
		out = append(out, intern(refbls.EncodeG1(h.Mul(factors[i]))))
	}
	for i := 1; i < len(torsion); i++ {
		out = append(out, intern(refbls.EncodeG1(h.Add(torsion[i]))))
	}
	// the NEGATED torsion offsets: on the two sides of one call, s1+T and s2-T are both outside G1
	// while their sum is inside (errors that cancel across the two proofs)
	for i := 0; i < len(torsion); i++ {
		out = append(out, intern(refbls.EncodeG1(h.Add(torsion[i].Neg()))))
	}
	if len(out) != nKinds() {
		run.Fatal("harness bug: %d kinds built, %d named", len(out), nKinds())
	}
	return out
}

// oracle: both proofs canonical and in G1, no identity key, sk2*p1 == sk1*p2.
func oracle(k1 *key, p1 *proof, k2 *key, p2 *proof) bool {
	if !p1.canonical || !p2.canonical || !p1.inG1 || !p2.inG1 {
		return false
	}
	if k1.sk.Sign() == 0 || k2.sk.Sign() == 0 {
		return false
	}
	return mulTab[p1.id][k2.si].Equal(mulTab[p2.id][k1.si])
}

type replay struct {
	Call   string `json:"call"`
	Pk1    string `json:"pk1"`
	Sk1    string `json:"sk1_discrete_log"`
	Proof1 string `json:"proof1"`
	Pk2    string `json:"pk2,omitempty"`
	Sk2    string `json:"sk2_discrete_log,omitempty"`
	Proof2 string `json:"proof2,omitempty"`
	Data   string `json:"data,omitempty"`
	Tag    string `json:"tag,omitempty"`
	Exp    string `json:"expected"`
	Got    string `json:"got"`
	Note   string `json:"note"`
}

func main() {
	run = ev.Start("C17", "exploration")
	if err := refbls.SelfTest(); err != nil {
		run.Fatal("refbls self-test: %v", err)
	}
	run.Budget(4*time.Minute, 15*time.Minute)
	t0 := time.Now()
	rm1 := new(big.Int).Sub(refbls.R, big.NewInt(1))

	mkPriv := func(s *big.Int) crypto.PrivateKey {
		sk, err := crypto.DecodePrivateKey(crypto.BLSBLS12381, refbls.ScalarBytes(s))
		if err != nil {
			run.Fatal("DecodePrivateKey(%x): %v", s, err)
		}
		return sk
	}
	gen := func(label int) (crypto.PrivateKey, *big.Int) {
		sk, err := crypto.GeneratePrivateKey(crypto.BLSBLS12381, material(48, 1, label))
		if err != nil {
			run.Fatal("GeneratePrivateKey: %v", err)
		}
		return sk, refbls.ScalarFromBytes(sk.Encode())
	}
	aPriv, a := gen(0)
	bPriv, b := gen(1)
	a2pk, err := crypto.DecodePublicKey(crypto.BLSBLS12381, aPriv.PublicKey().Encode())
	if err != nil {
		run.Fatal("DecodePublicKey: %v", err)
	}
	negA := new(big.Int).Sub(refbls.R, a)
	addKey("a", a, aPriv, aPriv.PublicKey())
	addKey("b", b, bPriv, bPriv.PublicKey())
	addKey("a-second-object", a, aPriv, a2pk)
	addKey("r-a", negA, mkPriv(negA), mkPriv(negA).PublicKey())
	// the key a held as a non-normalised projective point (what RemoveBLSPublicKeys and the DKG /
	// threshold key generation hand out): verdicts must not depend on the representation
	if ab, err := crypto.AggregateBLSPublicKeys([]crypto.PublicKey{aPriv.PublicKey(), bPriv.PublicKey()}); err == nil {
		if aj, err := crypto.RemoveBLSPublicKeys(ab, []crypto.PublicKey{bPriv.PublicKey()}); err == nil {
			addKey("a-projective-from-RemoveBLSPublicKeys", a, aPriv, aj)
		}
	}
	addKey("identity", new(big.Int), nil, crypto.IdentityBLSPublicKey())
	if zsk, err := crypto.AggregateBLSPrivateKeys([]crypto.PrivateKey{aPriv, mkPriv(negA)}); err == nil {
		addKey("identity-as-public-key-of-aggregated-private-keys", new(big.Int), nil, zsk.PublicKey())
	}
	factors = []*big.Int{new(big.Int).SetBytes(material(31, 3, 0))}
	t3, err := refbls.TorsionG1(3)
	if err != nil {
		run.Fatal("%v", err)
	}
	torsion = []refbls.G1{t3}
	data = [][]byte{material(32, 2, 0), material(45, 2, 1)}
	tags = []string{"C17-tag-t", "C17-tag-u"}
	{
		factors = append(factors, big.NewInt(2), rm1)
		t11, err := refbls.TorsionG1(11)
		if err != nil {
			run.Fatal("%v", err)
		}
		torsion = append(torsion, t11, refbls.CofactorPointG1())
		kindNames = append(kindNames, "scaled-by-2", "scaled-by-r-1", "s+T11-outside-G1", "s+cofactor-point-outside-G1", "s-T3-outside-G1", "s-T11-outside-G1", "s-cofactor-point-outside-G1")
	}
	if run.Thorough() {
		cPriv, c := gen(2)
		addKey("c", c, cPriv, cPriv.PublicKey())
		addKey("1", big.NewInt(1), mkPriv(big.NewInt(1)), mkPriv(big.NewInt(1)).PublicKey())
		addKey("r-1", rm1, mkPriv(rm1), mkPriv(rm1).PublicKey())
		agg, err := crypto.AggregateBLSPublicKeys([]crypto.PublicKey{aPriv.PublicKey(), bPriv.PublicKey()})
		if err != nil {
			run.Fatal("AggregateBLSPublicKeys: %v", err)
		}
		addKey("a+b-aggregated", new(big.Int).Mod(new(big.Int).Add(a, b), refbls.R), nil, agg)
		idAgg, err := crypto.AggregateBLSPublicKeys([]crypto.PublicKey{aPriv.PublicKey(), keys[3].pk})
		if err != nil {
			run.Fatal("AggregateBLSPublicKeys: %v", err)
		}
		addKey("identity-as-aggregate-of-a-and-r-a", new(big.Int), nil, idAgg)
		data = append(data, []byte{})
		tags = append(tags, "")
	}

	// H(data, tag) = signature under the private key 1
	one := mkPriv(big.NewInt(1))
	hpt = make([][]refbls.G1, len(data))
	for d := range data {
		hpt[d] = make([]refbls.G1, len(tags))
		for g := range tags {
			s, err := one.Sign(data[d], hasher(tags[g]))
			if err != nil {
				run.Fatal("Sign under key 1: %v", err)
			}
			h, err := refbls.DecodeG1(s)
			if err != nil || h.Inf || !h.InSubgroup() {
				run.Fatal("signature under key 1 is not a canonical non-trivial G1 element")
			}
			hpt[d][g] = h
		}
	}

	// proof strings of every kind per (key, data, tag)
	kinds := make([][][][]*proof, len(keys))
	for ki, k := range keys {
		kinds[ki] = make([][][]*proof, len(data))
		for d := range data {
			kinds[ki][d] = make([][]*proof, len(tags))
			for g := range tags {
				kinds[ki][d][g] = buildKinds(k, d, g)
			}
		}
	}
	// reference facts per distinct proof string: subgroup membership and scalar multiples
	mulTab = make([][]refbls.G1, len(proofs))
	ev.Par(len(proofs), func(i int) {
		p := proofs[i]
		if !p.canonical {
			return
		}
		p.inG1 = p.pt.InSubgroup()
		if !p.inG1 {
			return
		}
		mulTab[i] = make([]refbls.G1, len(scalars))
		for s, v := range scalars {
			mulTab[i][s] = p.pt.Mul(v)
		}
	})
	var kn []string
	for _, k := range keys {
		kn = append(kn, k.name)
	}
	run.Set("alphabet_keys", kn)
	run.Set("alphabet_proof_kinds", kindNames)
	run.Set("alphabet_data_lengths", func() []int {
		var l []int
		for _, d := range data {
			l = append(l, len(d))
		}
		return l
	}())
	run.Set("alphabet_tags", tags)
	run.Set("distinct_proof_strings", len(proofs))
	run.Set("rule", "SPOCKVerify on the full product: ordered key pairs (keys x keys) x data x tags x proof kind of side 1 x proof kind of side 2 (kinds are relative to the shared (data,tag) and the side's key: honest sk*H, sk*H(other data), sk*H under the other tag, c*sk*H for a common factor c, sk*H+T and sk*H-T with T outside G1 (so that the two sides can carry offsets that cancel), the identity encoding, compression bit cleared, lengths 0/47/49), each case evaluated as (pk1,p1,pk2,p2) and swapped (pk2,p2,pk1,p1). Expected verdict computed by refbls: both strings canonical, both points in G1, no identity key, sk2*p1 == sk1*p2. "+
		"Call histories of length 2 on one OS thread: all ordered pairs over an alphabet of SPOCKVerify calls (keys a,b x proof kinds honest / other data / common factor / +T3 / identity / bad header / length 47), the second call returns its reference verdict whatever the first was. Plus: SPOCKProve == Sign == EncodeG1(sk*H) and SPOCKVerifyAgainstData == Verify == reference on keys x data x tags x candidate kinds x attributed key; ECDSA keys (P-256, secp256k1) at every key position => IsNotBLSKeyError. A case is distinct by (call, key1, key2, data, tag, kind1, kind2, swapped); cases whose proofs fail the length guard on both sides are not counted as distinct non-trivial.")
	fmt.Printf("C17 setup done at %.1fs: %d keys, %d distinct proof strings, %d scalars\n", time.Since(t0).Seconds(), len(keys), len(proofs), len(scalars))

	// ---- SPOCKVerify product
	type cs struct{ k1, k2, d, g int }
	var cases []cs
	for k1 := range keys {
		for k2 := range keys {
			for d := range data {
				for g := range tags {
					cases = append(cases, cs{k1, k2, d, g})
				}
			}
		}
	}
	var mu sync.Mutex
	hist := map[string]int64{}
	ev.Par(len(cases), func(i int) {
		if run.Expired() {
			return
		}
		c := cases[i]
		k1, k2 := keys[c.k1], keys[c.k2]
		l1, l2 := kinds[c.k1][c.d][c.g], kinds[c.k2][c.d][c.g]
		lh := map[string]int64{}
		var evals int64
		for a1, p1 := range l1 {
			for a2, p2 := range l2 {
				exp := oracle(k1, p1, k2, p2)
				for sw := 0; sw < 2; sw++ {
					var got bool
					var err error
					if sw == 0 {
						got, err = crypto.SPOCKVerify(k1.pk, p1.b, k2.pk, p2.b)
					} else {
						got, err = crypto.SPOCKVerify(k2.pk, p2.b, k1.pk, p1.b)
					}
					evals++
					if err != nil || got != exp {
						key := fmt.Sprintf("SPOCKVerify:%s+%s:keys=%s,%s:swapped=%d:expected-%v-got-%v", kindNames[a1], kindNames[a2], k1.name, k2.name, sw, exp, got)
						if err != nil {
							key = fmt.Sprintf("SPOCKVerify:%s+%s:unexpected-error", kindNames[a1], kindNames[a2])
						}
						run.Violation(key, fmt.Sprintf("data %d tag %q: library (%v,%v), reference %v", c.d, tags[c.g], got, err, exp),
							replay{Call: "SPOCKVerify(pk1,proof1,pk2,proof2)" + map[int]string{0: "", 1: " evaluated swapped"}[sw], Pk1: ev.Hex(k1.pk.Encode()), Sk1: ev.Hex(refbls.ScalarBytes(k1.sk)), Proof1: ev.Hex(p1.b),
								Pk2: ev.Hex(k2.pk.Encode()), Sk2: ev.Hex(refbls.ScalarBytes(k2.sk)), Proof2: ev.Hex(p2.b), Data: ev.Hex(data[c.d]), Tag: tags[c.g],
								Exp: fmt.Sprint(exp), Got: fmt.Sprintf("%v,%v", got, err), Note: "proof kinds " + kindNames[a1] + " / " + kindNames[a2]})
					}
				}
				lh[fmt.Sprintf("%s+%s=>%v", kindNames[a1], kindNames[a2], exp)]++
				if len(p1.b) == 48 || len(p2.b) == 48 {
					run.Distinct(fmt.Sprintf("v/%d/%d/%d/%d/%d/%d", c.k1, c.k2, c.d, c.g, a1, a2))
					run.Distinct(fmt.Sprintf("v/%d/%d/%d/%d/%d/%d/s", c.k1, c.k2, c.d, c.g, a1, a2))
				}
			}
		}
		run.Add("evaluations", evals)
		mu.Lock()
		for k, v := range lh {
			hist[k] += v
		}
		mu.Unlock()
	})
	nTrue, nFalse := int64(0), int64(0)
	for k, v := range hist {
		if k[len(k)-4:] == "true" {
			nTrue += v
		} else {
			nFalse += v
		}
	}
	run.Set("spockverify_cases", len(cases)*nKinds()*nKinds()*2)
	run.Set("expected_true_cases", nTrue)
	run.Set("expected_false_cases", nFalse)
	run.Set("verdict_histogram_by_kinds", hist)
	{
		k1, k2 := keys[0], keys[1]
		p1, p2 := kinds[0][0][0][3], kinds[1][0][0][3]
		run.Sample(replay{Call: "SPOCKVerify", Pk1: ev.Hex(k1.pk.Encode()), Sk1: ev.Hex(refbls.ScalarBytes(k1.sk)), Proof1: ev.Hex(p1.b), Pk2: ev.Hex(k2.pk.Encode()), Sk2: ev.Hex(refbls.ScalarBytes(k2.sk)), Proof2: ev.Hex(p2.b),
			Data: ev.Hex(data[0]), Tag: tags[0], Exp: fmt.Sprint(oracle(k1, p1, k2, p2)), Got: "same", Note: "both proofs scaled by the common factor c"})
		p2 = kinds[1][0][0][4]
		run.Sample(replay{Call: "SPOCKVerify", Pk1: ev.Hex(k1.pk.Encode()), Sk1: ev.Hex(refbls.ScalarBytes(k1.sk)), Proof1: ev.Hex(kinds[0][0][0][0].b), Pk2: ev.Hex(k2.pk.Encode()), Sk2: ev.Hex(refbls.ScalarBytes(k2.sk)), Proof2: ev.Hex(p2.b),
			Data: ev.Hex(data[0]), Tag: tags[0], Exp: "false", Got: "same", Note: "second proof = honest + torsion point of order 3 (satisfies the pairing equation, outside G1)"})
	}
	fmt.Printf("C17 SPOCKVerify product done at %.1fs: %d evaluations, expected true %d / false %d\n", time.Since(t0).Seconds(), run.Get("evaluations"), nTrue, nFalse)

	// ---- call histories of length 2 on one OS thread: SPOCKVerify is a pure function, so a verdict
	// must not depend on the call made just before it (per-thread caches of decoded proofs, scratch
	// state in the C layer). Alphabet: keys {a, b} x (data 0, tag 0) x proof kinds {honest, other data,
	// common factor, +T3 outside G1, identity encoding, compression bit cleared, length 47} on either
	// side (49 x 4 key pairs, reduced to the cases with at least one honest/common-factor side);
	// ALL ordered pairs (i, j): call i, then call j; j must give its reference verdict.
	{
		type hc struct {
			k1, k2 *key
			p1, p2 *proof
			n      string
			exp    bool
		}
		var hcs []hc
		pick := []int{0, 1, 3, 4, 5, 6, 8}
		for _, a := range []int{0, 1} {
			for _, b := range []int{0, 1} {
				for _, x := range pick {
					for _, y := range pick {
						if x != 0 && y != 0 && !(x == 3 && y == 3) {
							continue
						}
						p1, p2 := kinds[a][0][0][x], kinds[b][0][0][y]
						hcs = append(hcs, hc{keys[a], keys[b], p1, p2, fmt.Sprintf("SPOCKVerify(%s:%s, %s:%s)", keys[a].name, kindNames[x], keys[b].name, kindNames[y]), oracle(keys[a], p1, keys[b], p2)})
					}
				}
			}
		}
		run.Set("pairwise_history_alphabet", len(hcs))
		ev.Par(len(hcs), func(i int) {
			runtime.LockOSThread()
			defer runtime.UnlockOSThread()
			a := hcs[i]
			for _, b := range hcs {
				_, _ = crypto.SPOCKVerify(a.k1.pk, a.p1.b, a.k2.pk, a.p2.b)
				got, err := crypto.SPOCKVerify(b.k1.pk, b.p1.b, b.k2.pk, b.p2.b)
				run.Add("evaluations", 2)
				if err != nil || got != b.exp {
					run.Violation("SPOCKVerify:history:verdict-depends-on-previous-call", fmt.Sprintf("%s right after %s returns (%v,%v), reference %v", b.n, a.n, got, err, b.exp),
						replay{Call: "SPOCKVerify after another SPOCKVerify", Pk1: ev.Hex(b.k1.pk.Encode()), Sk1: ev.Hex(refbls.ScalarBytes(b.k1.sk)), Proof1: ev.Hex(b.p1.b), Pk2: ev.Hex(b.k2.pk.Encode()), Sk2: ev.Hex(refbls.ScalarBytes(b.k2.sk)), Proof2: ev.Hex(b.p2.b),
							Data: ev.Hex(data[0]), Tag: tags[0], Exp: fmt.Sprint(b.exp), Got: fmt.Sprintf("%v,%v", got, err), Note: "previous call: " + a.n})
				}
			}
			run.Distinct("hist/" + a.n)
		})
		fmt.Printf("C17 pairwise histories done at %.1fs\n", time.Since(t0).Seconds())
	}

	// ---- the FULL structured candidate family (the one C01/C05 offer to Verify; 957 strings around
	// the honest proof of key a) as the proof of one side, the other side honest: true for exactly
	// one string, on either side.
	{
		ka, kb := keys[0], keys[1]
		pa := honestPt(ka, 0, 0)
		ea := refbls.EncodeG1(pa)
		eb := refbls.EncodeG1(honestPt(kb, 0, 0))
		cands := refbls.G1Candidates(pa, hpt[0][0])
		ev.Par(len(cands), func(i int) {
			c := cands[i]
			want := bytes.Equal(c.Bytes, ea)
			g1, e1 := crypto.SPOCKVerify(ka.pk, c.Bytes, kb.pk, eb)
			g2, e2 := crypto.SPOCKVerify(kb.pk, eb, ka.pk, c.Bytes)
			run.Add("evaluations", 2)
			if e1 != nil || e2 != nil || g1 != want || g2 != want {
				cl := c.Name
				if k := strings.IndexByte(cl, '/'); k >= 0 {
					cl = cl[:k]
				}
				run.Violation("SPOCKVerify:family:"+cl, fmt.Sprintf("candidate %s as the proof of key a, honest proof of b on the other side: (%v,%v) / swapped (%v,%v), reference %v", c.Name, g1, e1, g2, e2, want),
					replay{Call: "SPOCKVerify with a candidate-family proof", Pk1: ev.Hex(ka.pk.Encode()), Sk1: ev.Hex(refbls.ScalarBytes(ka.sk)), Proof1: ev.Hex(c.Bytes), Pk2: ev.Hex(kb.pk.Encode()), Sk2: ev.Hex(refbls.ScalarBytes(kb.sk)), Proof2: ev.Hex(eb),
						Data: ev.Hex(data[0]), Tag: tags[0], Exp: fmt.Sprint(want), Got: fmt.Sprint(g1, g2), Note: "candidate " + c.Name})
			}
			run.Distinct("fam/" + c.Name)
		})
		fmt.Printf("C17 candidate family done at %.1fs\n", time.Since(t0).Seconds())
	}

	// ---- SPOCKProve == Sign, SPOCKVerifyAgainstData == Verify
	type pv struct{ k, d, g int }
	var pvs []pv
	for k := range keys {
		for d := range data {
			for g := range tags {
				pvs = append(pvs, pv{k, d, g})
			}
		}
	}
	ev.Par(len(pvs), func(i int) {
		c := pvs[i]
		k := keys[c.k]
		var evals int64
		if k.priv != nil && c.k != 2 {
			p, err1 := crypto.SPOCKProve(k.priv, data[c.d], hasher(tags[c.g]))
			s, err2 := k.priv.Sign(data[c.d], hasher(tags[c.g]))
			want := kinds[c.k][c.d][c.g][0].b
			evals += 2
			run.Distinct(fmt.Sprintf("p/%d/%d/%d", c.k, c.d, c.g))
			if err1 != nil || err2 != nil || !bytes.Equal(p, s) || !bytes.Equal(p, want) {
				run.Violation("SPOCKProve:differs-from-Sign-or-sk*H", fmt.Sprintf("key %s data %d tag %q: prove=%x (%v) sign=%x (%v) reference=%x", k.name, c.d, tags[c.g], p, err1, s, err2, want),
					replay{Call: "SPOCKProve / Sign", Pk1: ev.Hex(k.pk.Encode()), Sk1: ev.Hex(refbls.ScalarBytes(k.sk)), Proof1: ev.Hex(p), Data: ev.Hex(data[c.d]), Tag: tags[c.g], Exp: ev.Hex(want), Got: ev.Hex(p)})
			}
			// nil hasher: same error class from both
			_, e1 := crypto.SPOCKProve(k.priv, data[c.d], nil)
			_, e2 := k.priv.Sign(data[c.d], nil)
			evals += 2
			if !crypto.IsNilHasherError(e1) || !crypto.IsNilHasherError(e2) {
				run.Violation("SPOCKProve:nil-hasher:not-IsNilHasherError", fmt.Sprintf("prove: %v, sign: %v", e1, e2), replay{Call: "SPOCKProve(nil hasher)", Pk1: ev.Hex(k.pk.Encode()), Sk1: ev.Hex(refbls.ScalarBytes(k.sk)), Exp: "nil-hasher error", Got: fmt.Sprint(e1)})
			}
		}
		// candidates: every kind built for every key, verified under this key for this (data, tag)
		for ok := range keys {
			for a1, p := range kinds[ok][c.d][c.g] {
				exp := p.canonical && p.inG1 && k.sk.Sign() != 0 && p.pt.Equal(kinds[c.k][c.d][c.g][0].pt)
				g1, e1 := crypto.SPOCKVerifyAgainstData(k.pk, p.b, data[c.d], hasher(tags[c.g]))
				g2, e2 := k.pk.Verify(p.b, data[c.d], hasher(tags[c.g]))
				evals += 2
				if len(p.b) == 48 {
					run.Distinct(fmt.Sprintf("vd/%d/%d/%d/%d/%d", c.k, c.d, c.g, ok, a1))
				}
				if e1 != nil || e2 != nil || g1 != exp || g2 != exp {
					run.Violation(fmt.Sprintf("SPOCKVerifyAgainstData:%s:made-for-%s:under-%s:expected-%v:spock-%v:verify-%v", kindNames[a1], keys[ok].name, k.name, exp, g1, g2),
						fmt.Sprintf("data %d tag %q: SPOCKVerifyAgainstData=(%v,%v) Verify=(%v,%v) reference %v", c.d, tags[c.g], g1, e1, g2, e2, exp),
						replay{Call: "SPOCKVerifyAgainstData / Verify", Pk1: ev.Hex(k.pk.Encode()), Sk1: ev.Hex(refbls.ScalarBytes(k.sk)), Proof1: ev.Hex(p.b), Data: ev.Hex(data[c.d]), Tag: tags[c.g], Exp: fmt.Sprint(exp), Got: fmt.Sprintf("%v/%v", g1, g2)})
				}
			}
		}
		run.Add("evaluations", evals)
	})
	fmt.Printf("C17 prove/verify-against-data done at %.1fs\n", time.Since(t0).Seconds())

	// ---- non-BLS keys
	honest := kinds[0][0][0][0].b
	for ci, alg := range []crypto.SigningAlgorithm{crypto.ECDSAP256, crypto.ECDSASecp256k1} {
		esk, err := crypto.GeneratePrivateKey(alg, material(48, 4, ci))
		if err != nil {
			run.Fatal("ECDSA key generation: %v", err)
		}
		epk := esk.PublicKey()
		chk := func(name string, err error, got any) {
			run.Add("evaluations", 1)
			run.Distinct(fmt.Sprintf("nb/%d/%s", ci, name))
			if !crypto.IsNotBLSKeyError(err) {
				run.Violation("non-BLS-key:"+name+":not-IsNotBLSKeyError", fmt.Sprintf("%s key: result %v, error %v", alg, got, err),
					replay{Call: name, Pk1: ev.Hex(epk.Encode()), Proof1: ev.Hex(honest), Exp: "IsNotBLSKeyError", Got: fmt.Sprint(err)})
			}
		}
		p, err := crypto.SPOCKProve(esk, data[0], hasher(tags[0]))
		chk("SPOCKProve", err, p)
		v, err := crypto.SPOCKVerifyAgainstData(epk, honest, data[0], hasher(tags[0]))
		chk("SPOCKVerifyAgainstData", err, v)
		if v {
			run.Violation("non-BLS-key:SPOCKVerifyAgainstData:true", "true with an ECDSA key", replay{Call: "SPOCKVerifyAgainstData", Pk1: ev.Hex(epk.Encode()), Exp: "false", Got: "true"})
		}
		for _, k := range keys {
			for _, pr := range [][]byte{honest, {}, honest[:47]} {
				v, err = crypto.SPOCKVerify(epk, pr, k.pk, pr)
				chk(fmt.Sprintf("SPOCKVerify(ecdsa,bls:%s,len%d)", k.name, len(pr)), err, v)
				v2, err := crypto.SPOCKVerify(k.pk, pr, epk, pr)
				chk(fmt.Sprintf("SPOCKVerify(bls:%s,ecdsa,len%d)", k.name, len(pr)), err, v2)
				if v || v2 {
					run.Violation("non-BLS-key:SPOCKVerify:true", "true with an ECDSA key", replay{Call: "SPOCKVerify", Pk1: ev.Hex(epk.Encode()), Exp: "false", Got: "true"})
				}
			}
		}
		v, err = crypto.SPOCKVerify(epk, honest, epk, honest)
		chk("SPOCKVerify(ecdsa,ecdsa)", err, v)
	}

	run.Assume(
		"refbls (math/big curve arithmetic, strict ZCash G1 decoder, subgroup test [r]P=O) self-tested at start-up",
		"every public key object is tied to its discrete log by comparing its encoding with refbls sk*g2 (Flow byte order)",
		"H(data,tag) is the library's signature under the private key 1 (BLST map_to_G1 defines the hash-to-curve image)",
		"bilinearity and non-degeneracy of the pairing on G1 x G2 (e(p1,pk2)=e(p2,pk1) <=> sk2*p1=sk1*p2 for p1,p2 in G1)",
	)
	run.Finish()
}
