// C04: key and signature aggregation are mutually consistent group homomorphisms.
//
// All sequences of length 1..4 (thorough 5) over the private-key alphabet {a, b, r-a, 1, r-1}
// x all set partitions of the positions as nestings (aggregate the blocks, then the results) for
// private keys, public keys and signatures, RemoveBLSPublicKeys for every subset B of the
// positions, identity encodings on cancelling sequences, error shapes. Oracle: scalar sum mod r
// in math/big, expected key = [sum]g2, expected signature = [sum]H(m) (refbls); group elements
// are compared through the codec calibrated to the byte order the library really uses
// (EncodeG2Flow), so the C05 finding about the F_p^2 order does not leak into this check.
package main

import (
	"strings"
	"sync/atomic"
	"bytes"
	"encoding/binary"
	"fmt"
	"math/big"
	"sync"
	"time"

	crypto "github.com/onflow/crypto"
	"github.com/onflow/crypto/hash"

	"verif/harness/ev"
	"verif/harness/ref/refbls"
)

var (
	run  *ev.Run
	hmu  sync.Mutex
	hist = map[string]int64{}
)

func outcome(k string) {
	hmu.Lock()
	hist[k]++
	hmu.Unlock()
}

func guard(f func()) (panicked string) {
	defer func() {
		if r := recover(); r != nil {
			panicked = fmt.Sprint(r)
		}
	}()
	f()
	return ""
}

func seedBytes(label string, n int) []byte {
	out := make([]byte, 0, n)
	var ctr uint64
	for len(out) < n {
		var blk [16]byte
		binary.BigEndian.PutUint64(blk[:8], uint64(run.Seed))
		binary.BigEndian.PutUint64(blk[8:], ctr)
		k, _ := hash.NewKMAC_128([]byte("verif-c04-material"), []byte(label), 32)
		out = append(out, k.ComputeHash(blk[:])...)
		ctr++
	}
	return out[:n]
}

func seedScalar(label string) *big.Int {
	v := new(big.Int).SetBytes(seedBytes(label, 48))
	v.Mod(v, new(big.Int).Sub(refbls.R, big.NewInt(4)))
	return v.Add(v, big.NewInt(2))
}

func mustSK(k *big.Int) crypto.PrivateKey {
	sk, err := crypto.DecodePrivateKey(crypto.BLSBLS12381, refbls.ScalarBytes(k))
	if err != nil {
		run.Fatal("DecodePrivateKey(%v): %v", k, err)
	}
	return sk
}

type ctxT struct { // one (message, tag) combination
	name string
	msg  []byte
	tag  string
	H    refbls.G1
}

type symT struct {
	name string
	k    *big.Int
	sk   crypto.PrivateKey
	pk   crypto.PublicKey
	pkj  crypto.PublicKey   // the same key held as a non-normalised projective point (result of RemoveBLSPublicKeys)
	sigs []crypto.Signature // per context
}

var (
	syms []symT
	ctxs []ctxT
)

// partitions returns all set partitions of {0..n-1} as lists of blocks (restricted growth strings).
func partitions(n int) [][][]int {
	var out [][][]int
	rgs := make([]int, n)
	var rec func(i, max int)
	rec = func(i, max int) {
		if i == n {
			blocks := make([][]int, max)
			for pos, b := range rgs {
				blocks[b] = append(blocks[b], pos)
			}
			out = append(out, blocks)
			return
		}
		for b := 0; b <= max; b++ {
			rgs[i] = b
			nm := max
			if b == max {
				nm = max + 1
			}
			rec(i+1, nm)
		}
	}
	rec(0, 0)
	return out
}

// The scalar sums over the alphabet take few distinct values (i*a + j*b + k for small i, j, k), so
// the reference multiples are memoised per scalar.
var (
	pkCache  sync.Map // scalar hex -> []byte  EncodeG2Flow([s]g2)
	sigCache sync.Map // ctx index + scalar hex -> []byte  EncodeG1([s]H)
)

func refPK(s *big.Int) []byte {
	k := s.Text(16)
	if v, ok := pkCache.Load(k); ok {
		return v.([]byte)
	}
	v := refbls.EncodeG2Flow(refbls.G2Gen().Mul(s))
	pkCache.Store(k, v)
	run.Add("reference_G2_multiplications", 1)
	return v
}

func refSig(ci int, s *big.Int) []byte {
	k := fmt.Sprintf("%d/%s", ci, s.Text(16))
	if v, ok := sigCache.Load(k); ok {
		return v.([]byte)
	}
	v := refbls.EncodeG1(ctxs[ci].H.Mul(s))
	sigCache.Store(k, v)
	return v
}

type seqCase struct {
	seq []int
	// pol: internal representation of the public-key objects handed to the library:
	// 0 affine (PublicKey() of the private key), 1 all projective (Z != 1), 2 / 3 mixed by symbol
	pol int
}

var polNames = []string{"affine", "projective", "mixed-even", "mixed-odd"}

func (c seqCase) String() string {
	s := ""
	if c.pol != 0 {
		s = "[public keys " + polNames[c.pol] + "] "
	}
	for i, x := range c.seq {
		if i > 0 {
			s += ","
		}
		s += syms[x].name
	}
	return s
}

func shape(seq []int, sum *big.Int) string {
	dup := false
	seen := map[int]bool{}
	for _, x := range seq {
		if seen[x] {
			dup = true
		}
		seen[x] = true
	}
	return fmt.Sprintf("len=%d:dup=%v:sum-zero=%v", len(seq), dup, sum.Sign() == 0)
}

func replay(c seqCase, extra map[string]any) map[string]any {
	var ks []string
	for _, x := range c.seq {
		ks = append(ks, ev.Hex(refbls.ScalarBytes(syms[x].k)))
	}
	rp := map[string]any{"sequence": c.String(), "private_keys": ks}
	for k, v := range extra {
		rp[k] = v
	}
	return rp
}

func main() {
	run = ev.Start("C04", "exploration")
	run.Budget(4*time.Minute, 20*time.Minute)
	if err := refbls.SelfTest(); err != nil {
		run.Fatal("refbls self-test: %v", err)
	}
	r := refbls.R
	a, b := seedScalar("a"), seedScalar("b")
	one := big.NewInt(1)
	skOne := mustSK(one)
	for _, c := range []struct {
		n   string
		msg []byte
		tag string
	}{{"m0/t0", seedBytes("msg0", 32), "verif-c04-tag0"}, {"m1/t0", seedBytes("msg1", 200), "verif-c04-tag0"},
		{"m0/t1", seedBytes("msg0", 32), "verif-c04-tag1"}, {"m1/t1", seedBytes("msg1", 200), "verif-c04-tag1"}} {
		hs, err := skOne.Sign(c.msg, crypto.NewExpandMsgXOFKMAC128(c.tag))
		if err != nil {
			run.Fatal("%v", err)
		}
		H, err := refbls.DecodeG1(hs)
		if err != nil || !H.InSubgroup() {
			run.Fatal("H(m) does not decode into G1: %v", err)
		}
		ctxs = append(ctxs, ctxT{c.n, c.msg, c.tag, H})
	}
	for _, s := range []struct {
		n string
		k *big.Int
	}{{"a", a}, {"b", b}, {"r-a", new(big.Int).Sub(r, a)}, {"1", one}, {"r-1", new(big.Int).Sub(r, one)}} {
		sk := mustSK(s.k)
		sy := symT{name: s.n, k: s.k, sk: sk, pk: sk.PublicKey()}
		if !bytes.Equal(sy.pk.Encode(), refbls.EncodeG2Flow(refbls.G2Gen().Mul(s.k))) {
			run.Violation("base:public-key-of-decoded-scalar", "PublicKey() of a decoded private key is not [k]g2", map[string]any{"sk": ev.Hex(refbls.ScalarBytes(s.k)), "pk": ev.Hex(sy.pk.Encode())})
		}
		for _, c := range ctxs {
			sig, err := sk.Sign(c.msg, crypto.NewExpandMsgXOFKMAC128(c.tag))
			if err != nil {
				run.Fatal("%v", err)
			}
			if !bytes.Equal(sig, refbls.EncodeG1(c.H.Mul(s.k))) {
				run.Violation("base:signature-of-decoded-scalar", "Sign is not [k]H(m)", map[string]any{"sk": ev.Hex(refbls.ScalarBytes(s.k)), "sig": ev.Hex(sig)})
			}
			sy.sigs = append(sy.sigs, sig)
		}
		syms = append(syms, sy)
	}
	{
		// the projective twins: Remove(Agg([pk, aux]), [aux]) is the same point with Z != 1
		aux := mustSK(seedScalar("aux")).PublicKey()
		for i := range syms {
			ag, err := crypto.AggregateBLSPublicKeys([]crypto.PublicKey{syms[i].pk, aux})
			if err != nil {
				run.Fatal("%v", err)
			}
			pj, err := crypto.RemoveBLSPublicKeys(ag, []crypto.PublicKey{aux})
			if err != nil {
				run.Fatal("%v", err)
			}
			if !pj.Equals(syms[i].pk) || !bytes.Equal(pj.Encode(), syms[i].pk.Encode()) {
				run.Violation("base:remove-does-not-return-the-key", "RemoveBLSPublicKeys(Agg([pk,aux]),[aux]) is not pk", map[string]any{"pk": ev.Hex(syms[i].pk.Encode()), "got": ev.Hex(pj.Encode())})
			}
			syms[i].pkj = pj
		}
	}
	maxLen := 4
	if run.Thorough() {
		maxLen = 5
	}
	run.Set("rule", "All sequences of length 1..maxLen over the private-key alphabet {a, b, r-a, 1, r-1} (contains every permutation, duplicates, inverse pairs and sums equal to the identity). Every sequence is run under 4 policies for the internal representation of the public-key objects (affine from PublicKey(); projective with Z != 1 from RemoveBLSPublicKeys; two mixes). Per sequence: every set partition of the positions as a nesting (Agg of each block, then Agg of the results; singleton blocks go through a one-element Agg) plus left and right folds, for private keys, public keys and signatures under 4 (message, tag) contexts; the signature of the aggregated private key; RemoveBLSPublicKeys(Agg(all), B) for every subset B of the positions (incl. empty and everything), given as individual keys and as one pre-aggregated key; identity encodings / IsBLSSignatureIdentity / Equals(IdentityBLSPublicKey) on cancelling sequences; Verify of the aggregate under the aggregate key. Cache patterns: every sequence of length 2..3 (thorough 4) with fresh private-key objects under every pattern of which inputs already had PublicKey() called. Long lists: lengths 2^k-1, 2^k, 2^k+1 for k=3..9 (thorough 10) and 100, 200, 300 for all five operations incl. nested halves and a malformed signature at the first/middle/last position. Error shapes: the full structured candidate family of C01/C05 (957 strings) as one entry of a 3-list (non-canonical: invalid-signature error; canonical in or outside G1: summed); empty lists, malformed signature of 8 kinds at each position, off-group signature at each position (accepted by design), ECDSA key at each position. Oracle: sum of scalars mod r, [sum]g2 and [sum]H(m) in math/big, compared as bytes through the c0||c1 codec. A case is distinct/non-trivial per (sequence, nesting, object kind) and per (sequence, removed subset).")
	run.Set("max_sequence_length", maxLen)
	run.Set("alphabet", []string{"a", "b", "r-a", "1", "r-1"})

	var cases []seqCase
	var gen func(cur []int)
	gen = func(cur []int) {
		if len(cur) > 0 {
			for pol := range polNames {
				if pol >= 2 && len(cur) < 2 {
					continue
				}
				cases = append(cases, seqCase{append([]int{}, cur...), pol})
			}
		}
		if len(cur) == maxLen {
			return
		}
		for i := range syms {
			gen(append(cur, i))
		}
	}
	gen(nil)
	parts := map[int][][][]int{}
	for n := 1; n <= maxLen; n++ {
		parts[n] = partitions(n)
	}
	run.Set("sequences", len(cases))
	run.Set("partitions_per_length", map[string]int{"1": len(parts[1]), "2": len(parts[2]), "3": len(parts[3]), "4": len(parts[4]), "5": len(parts[5])})
	idPK := crypto.IdentityBLSPublicKey()
	idEnc := refbls.EncodeG2Flow(refbls.G2Inf())
	var completed int64

	ev.Par(len(cases), func(ci int) {
		if run.Expired() {
			return
		}
		c := cases[ci]
		L := len(c.seq)
		pkv := func(x int) crypto.PublicKey {
			if c.pol == 1 || (c.pol == 2 && x%2 == 0) || (c.pol == 3 && x%2 == 1) {
				return syms[x].pkj
			}
			return syms[x].pk
		}
		sum := new(big.Int)
		for _, x := range c.seq {
			sum.Add(sum, syms[x].k)
		}
		sum.Mod(sum, r)
		sh := shape(c.seq, sum)
		wantSK := refbls.ScalarBytes(sum)
		wantPK := refPK(sum)
		wantSig := make([][]byte, len(ctxs))
		for i, cx := range ctxs {
			_ = cx
			wantSig[i] = refSig(i, sum)
		}
		fail := func(key, what string, extra map[string]any) {
			run.Violation(key+":"+sh, what+" (sequence "+c.String()+")", replay(c, extra))
		}
		aggSK := func(l []crypto.PrivateKey) crypto.PrivateKey {
			out, err := crypto.AggregateBLSPrivateKeys(l)
			if err != nil {
				fail("agg:private:error", fmt.Sprintf("AggregateBLSPrivateKeys failed: %v", err), nil)
				return nil
			}
			return out
		}
		aggPK := func(l []crypto.PublicKey) crypto.PublicKey {
			out, err := crypto.AggregateBLSPublicKeys(l)
			if err != nil {
				fail("agg:public:error", fmt.Sprintf("AggregateBLSPublicKeys failed: %v", err), nil)
				return nil
			}
			return out
		}
		aggSig := func(l []crypto.Signature) crypto.Signature {
			out, err := crypto.AggregateBLSSignatures(l)
			if err != nil {
				fail("agg:signature:error", fmt.Sprintf("AggregateBLSSignatures failed: %v", err), nil)
				return nil
			}
			return out
		}
		// nestings: partitions + folds
		type nesting struct {
			name   string
			blocks [][]int
			fold   int // 0 = partition, 1 = left fold, 2 = right fold
		}
		var nests []nesting
		for pi, p := range parts[L] {
			nests = append(nests, nesting{fmt.Sprintf("partition#%d%v", pi, p), p, 0})
		}
		if L >= 3 {
			nests = append(nests, nesting{"fold-left", nil, 1}, nesting{"fold-right", nil, 2})
		}
		var flatPK crypto.PublicKey
		var flatSigs []crypto.Signature
		for _, n := range nests {
			// generic nested evaluation for the three object kinds
			var rsk crypto.PrivateKey
			var rpk crypto.PublicKey
			rsig := make([]crypto.Signature, len(ctxs))
			switch n.fold {
			case 0:
				if len(n.blocks) == 1 {
					var lsk []crypto.PrivateKey
					var lpk []crypto.PublicKey
					for _, x := range c.seq {
						lsk, lpk = append(lsk, syms[x].sk), append(lpk, pkv(x))
					}
					rsk, rpk = aggSK(lsk), aggPK(lpk)
					for i := range ctxs {
						var ls []crypto.Signature
						for _, x := range c.seq {
							ls = append(ls, syms[x].sigs[i])
						}
						rsig[i] = aggSig(ls)
					}
					flatPK, flatSigs = rpk, rsig
				} else {
					var isk []crypto.PrivateKey
					var ipk []crypto.PublicKey
					isig := make([][]crypto.Signature, len(ctxs))
					for _, blk := range n.blocks {
						var lsk []crypto.PrivateKey
						var lpk []crypto.PublicKey
						for _, pos := range blk {
							lsk, lpk = append(lsk, syms[c.seq[pos]].sk), append(lpk, pkv(c.seq[pos]))
						}
						s1, p1 := aggSK(lsk), aggPK(lpk)
						if s1 == nil || p1 == nil {
							return
						}
						isk, ipk = append(isk, s1), append(ipk, p1)
						for i := range ctxs {
							var ls []crypto.Signature
							for _, pos := range blk {
								ls = append(ls, syms[c.seq[pos]].sigs[i])
							}
							g := aggSig(ls)
							if g == nil {
								return
							}
							isig[i] = append(isig[i], g)
						}
					}
					rsk, rpk = aggSK(isk), aggPK(ipk)
					for i := range ctxs {
						rsig[i] = aggSig(isig[i])
					}
				}
			default:
				order := make([]int, L)
				for i := range order {
					order[i] = i
					if n.fold == 2 {
						order[i] = L - 1 - i
					}
				}
				rsk, rpk = syms[c.seq[order[0]]].sk, pkv(c.seq[order[0]])
				for i := range ctxs {
					rsig[i] = syms[c.seq[order[0]]].sigs[i]
				}
				for _, pos := range order[1:] {
					x := syms[c.seq[pos]]
					if n.fold == 1 {
						rsk, rpk = aggSK([]crypto.PrivateKey{rsk, x.sk}), aggPK([]crypto.PublicKey{rpk, pkv(c.seq[pos])})
					} else {
						rsk, rpk = aggSK([]crypto.PrivateKey{x.sk, rsk}), aggPK([]crypto.PublicKey{pkv(c.seq[pos]), rpk})
					}
					if rsk == nil || rpk == nil {
						return
					}
					for i := range ctxs {
						if n.fold == 1 {
							rsig[i] = aggSig([]crypto.Signature{rsig[i], x.sigs[i]})
						} else {
							rsig[i] = aggSig([]crypto.Signature{x.sigs[i], rsig[i]})
						}
						if rsig[i] == nil {
							return
						}
					}
				}
			}
			if rsk == nil || rpk == nil {
				return
			}
			nk := "flat"
			if n.fold != 0 || len(n.blocks) > 1 {
				nk = "nested"
			}
			run.Add("evaluations", int64(2+len(ctxs)))
			// private key
			if got := rsk.Encode(); !bytes.Equal(got, wantSK) {
				fail("agg:private:sum-mismatch:"+nk, "aggregated private key is not the sum of the scalars mod r", map[string]any{"nesting": n.name, "got": ev.Hex(got), "expected": ev.Hex(wantSK)})
			}
			// public key from the aggregated private key and aggregated public key
			if got := rsk.PublicKey().Encode(); !bytes.Equal(got, wantPK) {
				fail("agg:private:public-key-mismatch:"+nk, "public key of the aggregated private key is not [sum]g2", map[string]any{"nesting": n.name, "got": ev.Hex(got), "expected": ev.Hex(wantPK)})
			}
			if got := rpk.Encode(); !bytes.Equal(got, wantPK) {
				fail("agg:public:sum-mismatch:"+nk, "aggregated public key is not [sum]g2", map[string]any{"nesting": n.name, "got": ev.Hex(got), "expected": ev.Hex(wantPK)})
			}
			if !rpk.Equals(rsk.PublicKey()) || !rsk.PublicKey().Equals(rpk) {
				fail("agg:public:not-equal-to-key-of-aggregated-private:"+nk, "Equals(aggregated public key, public key of aggregated private key) is false", map[string]any{"nesting": n.name})
			}
			if sum.Sign() == 0 {
				if !bytes.Equal(rpk.Encode(), idEnc) || !rpk.Equals(idPK) || !idPK.Equals(rpk) {
					fail("identity:public-key:"+nk, "keys summing to the identity do not give the identity public key (encoding / Equals)", map[string]any{"nesting": n.name, "got": ev.Hex(rpk.Encode())})
				}
			} else if rpk.Equals(idPK) {
				fail("identity:public-key-false-positive:"+nk, "non-identity aggregate Equals the identity key", map[string]any{"nesting": n.name})
			}
			for i, cx := range ctxs {
				if rsig[i] == nil {
					continue
				}
				if !bytes.Equal(rsig[i], wantSig[i]) {
					fail("agg:signature:sum-mismatch:"+nk, "aggregated signature is not [sum]H(m)", map[string]any{"nesting": n.name, "context": cx.name, "msg": ev.Hex(cx.msg), "tag": cx.tag, "got": ev.Hex(rsig[i]), "expected": ev.Hex(wantSig[i])})
				}
				if crypto.IsBLSSignatureIdentity(rsig[i]) != (sum.Sign() == 0) {
					fail("identity:signature:"+nk, fmt.Sprintf("IsBLSSignatureIdentity = %v on an aggregate whose scalar sum is zero=%v", crypto.IsBLSSignatureIdentity(rsig[i]), sum.Sign() == 0), map[string]any{"nesting": n.name, "got": ev.Hex(rsig[i])})
				}
			}
			// signature produced by the aggregated private key
			cx := ctxs[ci%len(ctxs)]
			sg, err := rsk.Sign(cx.msg, crypto.NewExpandMsgXOFKMAC128(cx.tag))
			if err != nil || !bytes.Equal(sg, wantSig[ci%len(ctxs)]) {
				fail("agg:private:signature-mismatch:"+nk, fmt.Sprintf("signature by the aggregated private key differs from the aggregated signature / [sum]H(m) (err=%v)", err), map[string]any{"nesting": n.name, "got": ev.Hex(sg), "expected": ev.Hex(wantSig[ci%len(ctxs)])})
			}
			outcome(fmt.Sprintf("nesting/%s/sum-zero=%v", nk, sum.Sign() == 0))
			run.Distinct(fmt.Sprintf("%s|%s", c.String(), n.name))
		}
		// aggregate verifies under the aggregate key iff the sum is non-zero
		if flatPK != nil && flatSigs != nil && flatSigs[0] != nil {
			ok, err := flatPK.Verify(flatSigs[0], ctxs[0].msg, crypto.NewExpandMsgXOFKMAC128(ctxs[0].tag))
			run.Add("evaluations", 1)
			if err != nil || ok != (sum.Sign() != 0) {
				fail("agg:verify-under-aggregate-key", fmt.Sprintf("Verify(aggregated signature) under the aggregated key = (%v,%v), expected %v", ok, err, sum.Sign() != 0), nil)
			}
		}
		// RemoveBLSPublicKeys for every subset B
		if flatPK != nil {
			for mask := 0; mask < 1<<L; mask++ {
				var B, A []crypto.PublicKey
				sa := new(big.Int)
				for pos := 0; pos < L; pos++ {
					if mask>>pos&1 == 1 {
						B = append(B, pkv(c.seq[pos]))
					} else {
						A = append(A, pkv(c.seq[pos]))
						sa.Add(sa, syms[c.seq[pos]].k)
					}
				}
				sa.Mod(sa, r)
				want := refPK(sa)
				variants := [][]crypto.PublicKey{B}
				if len(B) >= 2 {
					if ab := aggPK(B); ab != nil {
						variants = append(variants, []crypto.PublicKey{ab}) // B removed as one pre-aggregated key
					}
				}
				for vi, bl := range variants {
					var got crypto.PublicKey
					var err error
					run.Add("evaluations", 1)
					if p := guard(func() { got, err = crypto.RemoveBLSPublicKeys(flatPK, bl) }); p != "" || err != nil {
						fail("remove:error-or-panic", fmt.Sprintf("RemoveBLSPublicKeys failed: %v %s", err, p), map[string]any{"removed_mask": mask, "variant": vi})
						continue
					}
					if !bytes.Equal(got.Encode(), want) {
						fail(fmt.Sprintf("remove:mismatch:removed=%d-of-%d", len(B), L), "RemoveBLSPublicKeys(Agg(A+B), B) is not Agg(A)", map[string]any{"removed_mask": mask, "variant": vi, "got": ev.Hex(got.Encode()), "expected": ev.Hex(want)})
					}
					if len(A) > 0 {
						if aa := aggPK(A); aa != nil && (!aa.Equals(got) || !got.Equals(aa)) {
							fail("remove:not-equal-to-aggregate-of-rest", "Equals(Remove(Agg(A+B),B), Agg(A)) is false", map[string]any{"removed_mask": mask, "variant": vi})
						}
					} else if !got.Equals(idPK) || !bytes.Equal(got.Encode(), idEnc) {
						fail("remove:everything-not-identity", "removing every key does not give the identity key", map[string]any{"removed_mask": mask, "variant": vi, "got": ev.Hex(got.Encode())})
					}
					// the result (a projective point) is itself a key: adding B back must give Agg(A+B) again
					if back := aggPK(append([]crypto.PublicKey{got}, B...)); back != nil && (!bytes.Equal(back.Encode(), wantPK) || !back.Equals(flatPK)) {
						fail("remove:re-aggregation-mismatch", "Agg([Remove(Agg(A+B),B)] + B) is not Agg(A+B)", map[string]any{"removed_mask": mask, "variant": vi, "got": ev.Hex(back.Encode()), "expected": ev.Hex(wantPK)})
					}
					// the result must still behave as a key whose identity flag is right
					ok, err := got.Verify(refSig(0, sa), ctxs[0].msg, crypto.NewExpandMsgXOFKMAC128(ctxs[0].tag))
					if err != nil || ok != (sa.Sign() != 0) {
						fail("remove:result-key-verify", fmt.Sprintf("Verify under the key returned by RemoveBLSPublicKeys = (%v,%v), expected %v", ok, err, sa.Sign() != 0), map[string]any{"removed_mask": mask, "variant": vi})
					}
					outcome(fmt.Sprintf("remove/rest-zero=%v", sa.Sign() == 0))
				}
				run.Distinct(fmt.Sprintf("%s|remove|%d", c.String(), mask))
			}
		}
		hmu.Lock()
		completed++
		hmu.Unlock()
	})
	run.Set("sequences_completed", completed)
	mid := cases[len(cases)/2]
	run.Sample(replay(mid, map[string]any{"kind": "sequence x all partitions/folds x all removal subsets", "partitions": len(parts[len(mid.seq)])}))
	run.Sample(replay(cases[7], map[string]any{"kind": "cancelling pair", "expected_public_key": ev.Hex(idEnc)}))

	// lazily cached public keys: AggregateBLSPrivateKeys may look at (or pre-fill from) the cached
	// public keys of its inputs. Every sequence up to length 3 (thorough 4) with FRESH private-key
	// objects under EVERY pattern of which inputs already had PublicKey() called: the aggregated
	// key's public key, signature and the aggregated public keys must agree with the reference.
	cachePatterns(r, run.Thorough())

	// long lists: every length 2^k-1, 2^k, 2^k+1 up to 1025 (quick 513) - internal batching, chunking
	// or tree splitting in the C layer has its boundaries at such lengths. The list cycles through the
	// alphabet with a length-dependent rotation; private keys, public keys (affine and projective
	// mixed), signatures; one malformed signature at the first, a middle and the last position.
	longLists(r, run.Thorough())

	// error shapes
	errShapes(a)

	run.Set("outcome_histogram", hist)
	run.Set("distinct_outcomes", len(hist))
	run.Assume(
		"H(m) is the library's signature under the private key 1, decoded by refbls; refbls self-tested on published vectors",
		"public keys are compared through the c0||c1 codec calibrated against the library (C05 finding F1 is out of scope here)",
		"order independence is covered because every permutation of every multiset of size <= max length is itself an enumerated sequence and the oracle is symmetric",
	)
	fmt.Printf("C04: sequences %d (completed %d), distinct outcomes %d\n", len(cases), completed, len(hist))
	run.Finish()
}

func errShapes(a *big.Int) {
	// empty lists
	if _, err := crypto.AggregateBLSPrivateKeys(nil); !crypto.IsBLSAggregateEmptyListError(err) {
		run.Violation("errors:empty-list:private", fmt.Sprintf("AggregateBLSPrivateKeys(nil) = %v", err), nil)
	}
	if _, err := crypto.AggregateBLSPublicKeys([]crypto.PublicKey{}); !crypto.IsBLSAggregateEmptyListError(err) {
		run.Violation("errors:empty-list:public", fmt.Sprintf("AggregateBLSPublicKeys(empty) = %v", err), nil)
	}
	if _, err := crypto.AggregateBLSSignatures(nil); !crypto.IsBLSAggregateEmptyListError(err) {
		run.Violation("errors:empty-list:signature", fmt.Sprintf("AggregateBLSSignatures(nil) = %v", err), nil)
	}
	if got, err := crypto.RemoveBLSPublicKeys(syms[0].pk, nil); err != nil || !got.Equals(syms[0].pk) {
		run.Violation("errors:remove-empty-list", fmt.Sprintf("RemoveBLSPublicKeys(pk, nil) = %v", err), nil)
	}
	run.Add("evaluations", 4)
	// malformed / off-group signatures at each position of lists of length 1..4
	valid := syms[0].sigs[0]
	s, _ := refbls.DecodeG1(valid)
	var nonres []byte
	for x := int64(1); ; x++ {
		if _, ok := refbls.G1FromX(big.NewInt(x), false); !ok {
			nonres = big.NewInt(x).FillBytes(make([]byte, 48))
			nonres[0] |= 0x80
			break
		}
	}
	xp := new(big.Int).Set(refbls.P).FillBytes(make([]byte, 48))
	xp[0] |= 0x80
	noComp := append([]byte{}, valid...)
	noComp[0] &^= 0x80
	infBad := make([]byte, 48)
	infBad[0], infBad[20] = 0xc0, 1
	malformed := map[string][]byte{"len-47": valid[:47], "len-49": append(append([]byte{}, valid...), 0), "len-0": {}, "bad-header": crypto.BLSInvalidSignature(),
		"not-on-curve": nonres, "x=p": xp, "no-compression-bit": noComp, "infinity-nonzero-byte": infBad}
	t3, _ := refbls.TorsionG1(3)
	offgroup := map[string][]byte{"s+T3": refbls.EncodeG1(s.Add(t3)), "cofactor-point": refbls.EncodeG1(refbls.CofactorPointG1())}
	for L := 1; L <= 4; L++ {
		for pos := 0; pos < L; pos++ {
			mk := func(b []byte) []crypto.Signature {
				l := make([]crypto.Signature, L)
				for i := range l {
					l[i] = syms[i%len(syms)].sigs[0]
				}
				l[pos] = b
				return l
			}
			for n, b := range malformed {
				var err error
				var out crypto.Signature
				p := guard(func() { out, err = crypto.AggregateBLSSignatures(mk(b)) })
				run.Add("evaluations", 1)
				if p != "" || out != nil || !crypto.IsInvalidSignatureError(err) {
					run.Violation("errors:malformed-signature:"+n, fmt.Sprintf("AggregateBLSSignatures with a malformed signature (%s) at position %d of %d: (%x, %v) %s, want invalid-signature error", n, pos, L, out, err, p),
						map[string]any{"position": pos, "length": L, "malformed": ev.Hex(b)})
				}
				run.Distinct(fmt.Sprintf("err/sig/%s/%d/%d", n, L, pos))
				outcome("errors/malformed-signature")
			}
			for n, b := range offgroup {
				var err error
				p := guard(func() { _, err = crypto.AggregateBLSSignatures(mk(b)) })
				run.Add("evaluations", 1)
				if p != "" || err != nil {
					run.Violation("errors:off-group-signature-rejected:"+n, fmt.Sprintf("AggregateBLSSignatures rejects an E1 point outside G1 although no membership check is documented: %v %s", err, p),
						map[string]any{"position": pos, "length": L, "signature": ev.Hex(b)})
				}
				run.Distinct(fmt.Sprintf("err/offgroup/%s/%d/%d", n, L, pos))
				outcome("errors/off-group-accepted")
			}
			// ECDSA keys at each position
			for _, algo := range []crypto.SigningAlgorithm{crypto.ECDSAP256, crypto.ECDSASecp256k1} {
				esk, err := crypto.GeneratePrivateKey(algo, seedBytes("ecdsa", 32))
				if err != nil {
					run.Fatal("%v", err)
				}
				lsk := make([]crypto.PrivateKey, L)
				lpk := make([]crypto.PublicKey, L)
				for i := range lsk {
					lsk[i], lpk[i] = syms[i%len(syms)].sk, syms[i%len(syms)].pk
				}
				lsk[pos], lpk[pos] = esk, esk.PublicKey()
				var e1, e2, e3 error
				p := guard(func() {
					_, e1 = crypto.AggregateBLSPrivateKeys(lsk)
					_, e2 = crypto.AggregateBLSPublicKeys(lpk)
					_, e3 = crypto.RemoveBLSPublicKeys(syms[0].pk, lpk)
				})
				run.Add("evaluations", 3)
				if p != "" || !crypto.IsNotBLSKeyError(e1) || !crypto.IsNotBLSKeyError(e2) || !crypto.IsNotBLSKeyError(e3) {
					run.Violation("errors:non-BLS-key", fmt.Sprintf("%s key at position %d of %d: private %v, public %v, remove %v %s; want not-BLS-key errors", algo, pos, L, e1, e2, e3, p),
						map[string]any{"position": pos, "length": L, "algo": algo.String()})
				}
				run.Distinct(fmt.Sprintf("err/ecdsa/%s/%d/%d", algo, L, pos))
				outcome("errors/non-BLS-key")
			}
		}
	}
	// EVERY vector of entry lengths (and two non-length malformations) over lists of 1..4 entries: the
	// entries are cut one after the other from the byte stream sig_0 || sig_1 || ..., so wrong lengths that
	// compensate each other (47+49, 96+0, ...) re-cut into the valid signatures. Any entry that is not
	// 48 well-formed bytes makes the call fail with the invalid-signature error, whatever the others are.
	{
		lens := []int{48, 0, 1, 47, 49, 95, 96, 97}
		kinds := len(lens) + 2 // + bad-header, not-on-curve
		var stream []byte
		for i := 0; i < 12; i++ {
			stream = append(stream, syms[i%len(syms)].sigs[0]...)
		}
		nVec := 0
		for L := 1; L <= 4; L++ {
			tot := 1
			for i := 0; i < L; i++ {
				tot *= kinds
			}
			for v := 1; v < tot; v++ {
				l := make([]crypto.Signature, L)
				desc := make([]string, L)
				off, x, bad := 0, v, false
				for i := 0; i < L; i++ {
					k := x % kinds
					x /= kinds
					switch {
					case k < len(lens):
						l[i] = append([]byte{}, stream[off:off+lens[k]]...)
						off += lens[k]
						desc[i] = fmt.Sprintf("len-%d", lens[k])
						bad = bad || lens[k] != 48
					case k == len(lens):
						l[i], desc[i], bad = crypto.BLSInvalidSignature(), "bad-header", true
					default:
						l[i], desc[i], bad = nonres, "not-on-curve", true
					}
				}
				if !bad {
					continue
				}
				var err error
				var out crypto.Signature
				p := guard(func() { out, err = crypto.AggregateBLSSignatures(l) })
				run.Add("evaluations", 1)
				nVec++
				if p != "" || out != nil || !crypto.IsInvalidSignatureError(err) {
					hx := make([]string, L)
					for i := range l {
						hx[i] = ev.Hex(l[i])
					}
					run.Violation("errors:malformed-signature:length-vector", fmt.Sprintf("AggregateBLSSignatures on entries %v (cut one after the other from a stream of valid signatures): (%x, %v) %s, want the invalid-signature error", desc, out, err, p),
						map[string]any{"entries": desc, "signatures": hx})
				}
				run.Distinct(fmt.Sprintf("err/lenvec/%v", desc))
				outcome("errors/malformed-signature-vector")
			}
		}
		run.Set("malformed_length_vectors", nVec)
	}
	// the FULL structured candidate family (the one C01/C05 offer to Verify) as one entry of a list of
	// three: every string that is not a canonical encoding of a curve point must make the aggregation
	// fail with the invalid-signature error, every canonical one (in or outside G1) is summed
	{
		H, err0 := refbls.DecodeG1(syms[3].sigs[0]) // the key 1: H(m) itself
		sa, err1 := refbls.DecodeG1(syms[0].sigs[0])
		sb, err2 := refbls.DecodeG1(syms[1].sigs[0])
		if err0 != nil || err1 != nil || err2 != nil {
			run.Fatal("decoding base signatures for the candidate family")
		}
		cands := refbls.G1Candidates(sa, H)
		run.Set("aggregation_candidate_family", len(cands))
		ev.Par(len(cands), func(i int) {
			c := cands[i]
			pos := i % 3
			l := []crypto.Signature{syms[0].sigs[0], syms[1].sigs[0], syms[1].sigs[0]}
			l[pos] = c.Bytes
			others := sb.Add(sb)
			if pos != 0 {
				others = sa.Add(sb)
			}
			v := refbls.JudgeG1(c.Bytes)
			out, err := crypto.AggregateBLSSignatures(l)
			run.Add("evaluations", 1)
			rp := map[string]any{"candidate": c.Name, "bytes": ev.Hex(c.Bytes), "position": pos}
			if !v.Decodes {
				if out != nil || !crypto.IsInvalidSignatureError(err) {
					run.Violation("errors:malformed-signature:family:"+class(c.Name), fmt.Sprintf("AggregateBLSSignatures with the non-canonical entry %s at position %d: (%x, %v), want the invalid-signature error", c.Name, pos, out, err), rp)
				}
			} else if want := refbls.EncodeG1(others.Add(v.Point)); err != nil || !bytes.Equal(out, want) {
				rp["expected"] = ev.Hex(want)
				run.Violation("agg:signature:family:"+class(c.Name), fmt.Sprintf("AggregateBLSSignatures with the canonical entry %s at position %d: (%x, %v), want the sum of the three points", c.Name, pos, out, err), rp)
			}
			run.Distinct("fam/" + c.Name)
		})
	}
	esk, _ := crypto.GeneratePrivateKey(crypto.ECDSAP256, seedBytes("ecdsa", 32))
	if _, err := crypto.RemoveBLSPublicKeys(esk.PublicKey(), []crypto.PublicKey{syms[0].pk}); !crypto.IsNotBLSKeyError(err) {
		run.Violation("errors:non-BLS-key", fmt.Sprintf("RemoveBLSPublicKeys(ECDSA key, ...) = %v", err), nil)
	}
	run.Add("evaluations", 1)
	run.Sample(map[string]any{"kind": "error shape", "malformed_signature": ev.Hex(malformed["not-on-curve"]), "position": 1, "length": 3})
}


func longLists(r *big.Int, thorough bool) {
	var lens []int
	maxK := 9
	if thorough {
		maxK = 10
	}
	seen := map[int]bool{}
	for k := 3; k <= maxK; k++ {
		for _, d := range []int{-1, 0, 1} {
			if L := 1<<uint(k) + d; !seen[L] {
				seen[L] = true
				lens = append(lens, L)
			}
		}
	}
	lens = append(lens, 100, 200, 300)
	run.Set("long_list_lengths", lens)
	idPK := crypto.IdentityBLSPublicKey()
	_ = idPK
	ev.Par(len(lens), func(li int) {
		L := lens[li]
		seq := make([]int, L)
		sum := new(big.Int)
		for i := range seq {
			seq[i] = (i*7 + L) % len(syms)
			sum.Add(sum, syms[seq[i]].k)
		}
		sum.Mod(sum, r)
		fail := func(key, what string, extra map[string]any) {
			if extra == nil {
				extra = map[string]any{}
			}
			extra["list_length"] = L
			extra["list_rule"] = "position i holds alphabet symbol (7*i + L) mod 5 of {a, b, r-a, 1, r-1}"
			run.Violation(fmt.Sprintf("%s:len=%d", key, L), fmt.Sprintf("%s (list of %d entries)", what, L), extra)
		}
		var lsk []crypto.PrivateKey
		var lpk []crypto.PublicKey
		for i, x := range seq {
			lsk = append(lsk, syms[x].sk)
			if i%3 == 1 {
				lpk = append(lpk, syms[x].pkj)
			} else {
				lpk = append(lpk, syms[x].pk)
			}
		}
		wantPK := refPK(sum)
		if sk, err := crypto.AggregateBLSPrivateKeys(lsk); err != nil || !bytes.Equal(sk.Encode(), refbls.ScalarBytes(sum)) {
			fail("long:private:sum-mismatch", fmt.Sprintf("aggregated private key is not the sum of the scalars (err=%v)", err), nil)
		}
		pk, err := crypto.AggregateBLSPublicKeys(lpk)
		if err != nil || !bytes.Equal(pk.Encode(), wantPK) {
			fail("long:public:sum-mismatch", fmt.Sprintf("aggregated public key is not [sum]g2 (err=%v)", err), nil)
		}
		run.Add("evaluations", 2)
		for ci := range ctxs {
			var ls []crypto.Signature
			for _, x := range seq {
				ls = append(ls, syms[x].sigs[ci])
			}
			want := refSig(ci, sum)
			got, err := crypto.AggregateBLSSignatures(ls)
			run.Add("evaluations", 1)
			if err != nil || !bytes.Equal(got, want) {
				fail("long:signature:sum-mismatch", fmt.Sprintf("aggregated signature is not [sum]H(m) (err=%v)", err), map[string]any{"context": ctxs[ci].name, "got": ev.Hex(got), "expected": ev.Hex(want)})
			}
			// nested in two halves and in chunks of 8 must give the same bytes
			h1, e1 := crypto.AggregateBLSSignatures(ls[:L/2])
			h2, e2 := crypto.AggregateBLSSignatures(ls[L/2:])
			if e1 == nil && e2 == nil {
				if n2, err := crypto.AggregateBLSSignatures([]crypto.Signature{h1, h2}); err != nil || !bytes.Equal(n2, want) {
					fail("long:signature:nested-halves-mismatch", "Agg(Agg(first half), Agg(second half)) differs from [sum]H(m)", map[string]any{"context": ctxs[ci].name})
				}
			}
			if ci == 0 && pk != nil {
				ok, err := crypto.VerifyBLSSignatureOneMessage(lpk, want, ctxs[ci].msg, crypto.NewExpandMsgXOFKMAC128(ctxs[ci].tag))
				run.Add("evaluations", 1)
				if err != nil || ok != (sum.Sign() != 0) {
					fail("long:verify-one-message", fmt.Sprintf("VerifyBLSSignatureOneMessage over the list = (%v,%v), expected %v", ok, err, sum.Sign() != 0), nil)
				}
				// one malformed signature at the first / a middle / the last position
				for _, pos := range []int{0, L / 2, L - 1} {
					bad := append([]crypto.Signature{}, ls...)
					b := append(crypto.Signature{}, ls[pos]...)
					b[0] &^= 0x80 // compression bit cleared
					bad[pos] = b
					run.Add("evaluations", 1)
					if g, err := crypto.AggregateBLSSignatures(bad); err == nil || g != nil {
						fail("long:signature:malformed-entry-accepted", fmt.Sprintf("a malformed signature at position %d is not refused", pos), map[string]any{"position": pos})
					}
				}
				// removing the second half from the aggregate gives the aggregate of the first half
				if rest, err := crypto.RemoveBLSPublicKeys(pk, lpk[L/2:]); err == nil {
					sa := new(big.Int)
					for _, x := range seq[:L/2] {
						sa.Add(sa, syms[x].k)
					}
					if !bytes.Equal(rest.Encode(), refPK(sa.Mod(sa, r))) {
						fail("long:remove:mismatch", "RemoveBLSPublicKeys(Agg(all), second half) is not Agg(first half)", nil)
					}
				} else {
					fail("long:remove:error", err.Error(), nil)
				}
			}
		}
		run.Distinct(fmt.Sprintf("long/%d", L))
	})
}


func cachePatterns(r *big.Int, thorough bool) {
	maxL := 3
	if thorough {
		maxL = 4
	}
	var seqs [][]int
	var gen func(cur []int)
	gen = func(cur []int) {
		if len(cur) >= 2 {
			seqs = append(seqs, append([]int{}, cur...))
		}
		if len(cur) == maxL {
			return
		}
		for i := range syms {
			gen(append(cur, i))
		}
	}
	gen(nil)
	var n int64
	ev.Par(len(seqs), func(si int) {
		seq := seqs[si]
		L := len(seq)
		sum := new(big.Int)
		for _, x := range seq {
			sum.Add(sum, syms[x].k)
		}
		sum.Mod(sum, r)
		wantPK := refPK(sum)
		for mask := 0; mask < 1<<L; mask++ {
			sks := make([]crypto.PrivateKey, L)
			pks := make([]crypto.PublicKey, L)
			for i, x := range seq {
				sks[i] = mustSK(syms[x].k) // fresh object: nothing cached
				if mask>>i&1 == 1 {
					sks[i].PublicKey()
				}
				pks[i] = syms[x].pk
			}
			ag, err := crypto.AggregateBLSPrivateKeys(sks)
			atomic.AddInt64(&n, 1)
			rp := map[string]any{"sequence": seqCase{seq: seq}.String(), "public_key_already_computed_mask": mask}
			if err != nil {
				run.Violation("cache:agg-private:error", fmt.Sprintf("AggregateBLSPrivateKeys failed: %v", err), rp)
				continue
			}
			if !bytes.Equal(ag.Encode(), refbls.ScalarBytes(sum)) {
				run.Violation("cache:agg-private:sum-mismatch", "aggregated private key is not the sum of the scalars", rp)
			}
			got := ag.PublicKey()
			if !bytes.Equal(got.Encode(), wantPK) {
				rp["got"], rp["expected"] = ev.Hex(got.Encode()), ev.Hex(wantPK)
				run.Violation("cache:agg-private:public-key-mismatch", fmt.Sprintf("PublicKey() of the aggregated private key is not [sum]g2 when the inputs' public keys were computed beforehand according to mask %b", mask), rp)
			}
			if apk, err := crypto.AggregateBLSPublicKeys(pks); err != nil || !apk.Equals(got) || !got.Equals(apk) {
				run.Violation("cache:agg-private:not-equal-to-aggregated-public-keys", "PublicKey() of the aggregated private key does not Equal the aggregated public keys", rp)
			}
			// and the inputs themselves are unharmed
			for i, x := range seq {
				if !bytes.Equal(sks[i].PublicKey().Encode(), syms[x].pk.Encode()) {
					run.Violation("cache:input-key-public-key-changed", "an input key's PublicKey() changed by being aggregated", rp)
				}
			}
		}
		run.Distinct(fmt.Sprintf("cache/%v", seq))
	})
	run.Add("evaluations", n)
	run.Set("cache_pattern_cases", n)
}


// class strips indices from a candidate name ("bitflip/17" -> "bitflip").
func class(name string) string {
	if i := strings.IndexByte(name, '/'); i >= 0 {
		return name[:i]
	}
	return name
}
