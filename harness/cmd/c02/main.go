// C02: aggregate BLS verification equals the pairing-product definition.
//
// Exhaustive enumeration of all assignments position -> (key, (message, hasher)) for every
// list length L up to the bound, each with a family of candidate signature strings, each
// judged by a pairing-free oracle: the harness knows the discrete log of every key it hands
// out, H(m) is taken from the library's signature under the private key 1, and the expected
// aggregate is computed with the naive reference arithmetic of refbls. The library's own
// Verify / aggregation is never the oracle of VerifyBLSSignatureManyMessages.
package main

import (
	"bytes"
	"encoding/json"
	"fmt"
	"math/big"
	mrand "math/rand"
	"os"
	"reflect"
	"sort"
	"strings"
	"sync"
	"time"
	"unsafe"

	crypto "github.com/onflow/crypto"
	"github.com/onflow/crypto/hash"

	"verif/harness/ev"
	"verif/harness/ref/refbls"
)

var run *ev.Run

// ---------------------------------------------------------------- alphabets

type combo struct {
	msg []byte
	tag string
}

// alphabet of keys: index 0 = a, 1 = b, 2 = -a (private key r-a), 3 = identity
const (
	kA = iota
	kB
	kNegA
	kID
)

var keyNames = []string{"a", "b", "-a", "id"}

var (
	skOf    [4]*big.Int // scalar of each alphabet key (0 for identity)
	combos  [3]combo
	hashOfC [3]string    // the 128-byte expand_message output of each combo (what mapPerHash is keyed by)
	hOfC    [3]refbls.G1 // H(m) of each combo as a reference point
	maxL    = 5
	tab     [3][][]refbls.G1 // tab[c][x+maxL][y] = (x*a + y*b)*H_c   for |x|+y <= maxL
	tabOK   [3][][]bool
	single  [4][3]refbls.G1 // sk_key * H_c
	g1      = refbls.G1Gen()
	t3      refbls.G1 // point of exact order 3 (on E1, outside G1)
	tCof    refbls.G1 // point of the cofactor subgroup
	infSig  []byte
	cAgg    *big.Int // helper scalars used to reach other internal representations of one point
	cJ1     *big.Int
	cJ2     *big.Int
)

// representations of one G2 point as a library key object
var reprCycle = []string{"jacobian1", "decoded", "jacobian2", "aggregate", "aggregate-private"}

// shared objects per alphabet key
var (
	sharedObj [4]crypto.PublicKey            // policy "shared": one object per alphabet key
	reprObj   [4]map[string]crypto.PublicKey // policy "mixed-repr": one object per representation
	encOf     [4][]byte                      // reference encoding of the key (library byte order)
)

var policies = []string{"shared", "fresh-decoded", "mixed-repr"}

func mod(k *big.Int) *big.Int { return new(big.Int).Mod(k, refbls.R) }

func libSK(k *big.Int) crypto.PrivateKey {
	sk, err := crypto.DecodePrivateKey(crypto.BLSBLS12381, refbls.ScalarBytes(k))
	if err != nil {
		run.Fatal("DecodePrivateKey(%x): %v", k, err)
	}
	return sk
}

// libPK is the library's public key of the scalar k mod r (the identity constant for 0).
func libPK(k *big.Int) crypto.PublicKey {
	k = mod(k)
	if k.Sign() == 0 {
		return crypto.IdentityBLSPublicKey()
	}
	return libSK(k).PublicKey()
}

func refEncPK(k *big.Int) []byte { return refbls.EncodeG2Flow(refbls.G2Gen().Mul(mod(k))) }

func decodedPK(k *big.Int) crypto.PublicKey {
	pk, err := crypto.DecodePublicKey(crypto.BLSBLS12381, refEncPK(k))
	if err != nil {
		run.Fatal("DecodePublicKey of reference encoding of %x*g2: %v", mod(k), err)
	}
	return pk
}

// mkRepr builds a key object holding the point k*g2 through the named route.
func mkRepr(k *big.Int, name string) crypto.PublicKey {
	var pk crypto.PublicKey
	var err error
	switch name {
	case "decoded":
		pk = decodedPK(k)
	case "derived": // sk.PublicKey() (IdentityBLSPublicKey() for 0)
		pk = libPK(k)
	case "aggregate": // affine sum of two keys
		pk, err = crypto.AggregateBLSPublicKeys([]crypto.PublicKey{libPK(new(big.Int).Sub(k, cAgg)), libPK(cAgg)})
	case "aggregate-private": // public key of an aggregated PRIVATE key (for 0: the zero key's public key)
		var ask crypto.PrivateKey
		ask, err = crypto.AggregateBLSPrivateKeys([]crypto.PrivateKey{libSK(mod(new(big.Int).Sub(k, cAgg))), libSK(mod(cAgg))})
		if err == nil {
			pk = ask.PublicKey()
		}
	case "jacobian1": // RemoveBLSPublicKeys leaves a non-normalised Jacobian point
		pk, err = crypto.RemoveBLSPublicKeys(libPK(new(big.Int).Add(k, cJ1)), []crypto.PublicKey{libPK(cJ1)})
	case "jacobian2":
		two := new(big.Int).Lsh(cJ2, 1)
		pk, err = crypto.RemoveBLSPublicKeys(libPK(new(big.Int).Add(k, two)), []crypto.PublicKey{libPK(cJ2), libPK(cJ2)})
	default:
		run.Fatal("unknown representation %q", name)
	}
	if err != nil {
		run.Fatal("building representation %s: %v", name, err)
	}
	return pk
}

// pointKey is the struct value of the private field `point` (what mapPerPk is keyed by).
func pointKey(pk crypto.PublicKey) string {
	v := reflect.ValueOf(pk)
	if v.Kind() != reflect.Ptr {
		return fmt.Sprintf("%p", pk)
	}
	f := v.Elem().FieldByName("point")
	if !f.IsValid() {
		return fmt.Sprintf("%p", pk)
	}
	return string(unsafe.Slice((*byte)(unsafe.Pointer(f.UnsafeAddr())), f.Type().Size()))
}

func newHasher(tag string) hash.Hasher { return crypto.NewExpandMsgXOFKMAC128(tag) }

var hCache sync.Map // "tag\x00msg" -> refbls.G1

// hashPoint is H(m) under the hasher of `tag`: the library's signature under the private key 1.
func hashPoint(msg []byte, tag string) refbls.G1 {
	key := tag + "\x00" + string(msg)
	if v, ok := hCache.Load(key); ok {
		return v.(refbls.G1)
	}
	s, err := libSK(big.NewInt(1)).Sign(msg, newHasher(tag))
	if err != nil {
		run.Fatal("Sign under key 1: %v", err)
	}
	p, err := refbls.DecodeG1(s)
	if err != nil {
		run.Fatal("signature under key 1 is not a canonical E1 encoding: %v", err)
	}
	if p.Inf || !p.InSubgroup() {
		run.Fatal("H(m) taken from the signature under key 1 is not a non-trivial G1 point")
	}
	hCache.Store(key, p)
	return p
}

// oracleMany is the generic (slow) statement of the property: true iff no key is the identity
// and sig is exactly the canonical encoding of sum sk_i * H_i(m_i).
func oracleMany(sks []*big.Int, msgs [][]byte, tags []string, sig []byte) (bool, []byte) {
	noID := true
	e := refbls.G1Inf()
	for i, k := range sks {
		if mod(k).Sign() == 0 {
			noID = false
		}
		e = e.Add(hashPoint(msgs[i], tags[i]).Mul(mod(k)))
	}
	enc := refbls.EncodeG1(e)
	return noID && bytes.Equal(sig, enc), enc
}

func setup() {
	rng := mrand.New(mrand.NewSource(run.Seed))
	rnd := func() *big.Int {
		for {
			b := make([]byte, 40)
			rng.Read(b)
			k := mod(new(big.Int).SetBytes(b))
			if k.Sign() != 0 {
				return k
			}
		}
	}
	a, b := rnd(), rnd()
	for a.Cmp(b) == 0 || mod(new(big.Int).Add(a, b)).Sign() == 0 {
		b = rnd()
	}
	skOf = [4]*big.Int{a, b, mod(new(big.Int).Neg(a)), big.NewInt(0)}
	cAgg, cJ1, cJ2 = rnd(), rnd(), rnd()
	m1 := make([]byte, 11)
	m2 := make([]byte, 32)
	rng.Read(m1)
	rng.Read(m2)
	combos = [3]combo{{m1, "verif-C02-tagA"}, {m2, "verif-C02-tagA"}, {m1, "verif-C02-tagB"}}
	seen := map[string]bool{}
	for c, cb := range combos {
		hashOfC[c] = string(newHasher(cb.tag).ComputeHash(cb.msg))
		seen[hashOfC[c]] = true
		hOfC[c] = hashPoint(cb.msg, cb.tag)
	}
	if len(seen) != 3 {
		run.Fatal("the three (message, hasher) combinations do not give three distinct hashes")
	}
	for c := 0; c < 3; c++ {
		tab[c] = make([][]refbls.G1, 2*maxL+1)
		tabOK[c] = make([][]bool, 2*maxL+1)
		for x := -maxL; x <= maxL; x++ {
			tab[c][x+maxL] = make([]refbls.G1, maxL+1)
			tabOK[c][x+maxL] = make([]bool, maxL+1)
		}
	}
	type job struct{ c, x, y int }
	var jobs []job
	for c := 0; c < 3; c++ {
		for x := -maxL; x <= maxL; x++ {
			for y := 0; y <= maxL; y++ {
				ax := x
				if ax < 0 {
					ax = -ax
				}
				if ax+y <= maxL {
					jobs = append(jobs, job{c, x, y})
				}
			}
		}
	}
	ev.Par(len(jobs), func(i int) {
		j := jobs[i]
		tab[j.c][j.x+maxL][j.y] = hOfC[j.c].Mul(scalarXY(j.x, j.y))
		tabOK[j.c][j.x+maxL][j.y] = true
	})
	for k := 0; k < 4; k++ {
		for c := 0; c < 3; c++ {
			single[k][c] = hOfC[c].Mul(skOf[k])
		}
	}
	var err error
	if t3, err = refbls.TorsionG1(3); err != nil {
		run.Fatal("%v", err)
	}
	tCof = refbls.CofactorPointG1()
	if !t3.OnCurve() || t3.InSubgroup() || !tCof.OnCurve() || tCof.InSubgroup() {
		run.Fatal("reference torsion points are not in E1 minus G1")
	}
	infSig = refbls.EncodeG1(refbls.G1Inf())

	// key objects
	for k := 0; k < 4; k++ {
		encOf[k] = refEncPK(skOf[k])
		sharedObj[k] = decodedPK(skOf[k])
		reprObj[k] = map[string]crypto.PublicKey{}
		for _, r := range reprCycle {
			reprObj[k][r] = mkRepr(skOf[k], r)
		}
		reprObj[k]["derived"] = mkRepr(skOf[k], "derived")
		for r, o := range reprObj[k] {
			if !bytes.Equal(o.Encode(), encOf[k]) {
				run.Fatal("key object %s/%s does not encode to the reference encoding of its point", keyNames[k], r)
			}
		}
	}
	// harness sanity: the anchor "signature under key 1 is H(m)" is consistent with Sign under a
	sa, _ := libSK(a).Sign(combos[0].msg, newHasher(combos[0].tag))
	if !bytes.Equal(sa, refbls.EncodeG1(single[kA][0])) {
		run.Fatal("Sign under a differs from a*H(m) computed from the signature under key 1")
	}
}

// scalarXY = x*a + y*b mod r
func scalarXY(x, y int) *big.Int {
	s := new(big.Int).Mul(big.NewInt(int64(x)), skOf[kA])
	s.Add(s, new(big.Int).Mul(big.NewInt(int64(y)), skOf[kB]))
	return mod(s)
}

// ---------------------------------------------------------------- statistics

type stats struct {
	m map[string]int64
}

func (s *stats) add(k string, n int64) {
	if s.m == nil {
		s.m = map[string]int64{}
	}
	s.m[k] += n
}

var (
	gmu   sync.Mutex
	gstat = map[string]int64{}
)

func (s *stats) flush() {
	gmu.Lock()
	for k, v := range s.m {
		gstat[k] += v
	}
	gmu.Unlock()
}

// ---------------------------------------------------------------- replay records

type keySpec struct {
	Name string `json:"name"`
	SK   string `json:"sk_hex"` // "00" = identity
	Repr string `json:"repr"`   // decoded | derived | aggregate | jacobian1 | jacobian2 | ecdsa
	Obj  int    `json:"obj"`    // positions with the same obj id hold the very same Go object
}

type replay struct {
	Fn     string    `json:"fn"` // many | one
	Policy string    `json:"policy"`
	Keys   []keySpec `json:"keys"`
	Msgs   []string  `json:"messages_hex"`
	Tags   []string  `json:"hasher_tags"`
	Sig    string    `json:"signature_hex"`
	Cand   string    `json:"candidate_kind"`
	Path   string    `json:"path"`
	Expect string    `json:"expected"`
	Got    string    `json:"got"`
	Note   string    `json:"note,omitempty"`
}

// ---------------------------------------------------------------- candidates

type cand struct {
	kind string
	sig  []byte
}

func flipBit(b []byte, byteIdx int, mask byte) []byte {
	o := append([]byte{}, b...)
	o[byteIdx] ^= mask
	return o
}

// candidates derives the candidate signature strings of one shape from the expected
// aggregate point e and the terms of the first and last position.
func candidates(e refbls.G1, first, last refbls.G1, L int) []cand {
	enc := refbls.EncodeG1(e)
	cs := []cand{
		{"expected", enc},
		{"expected+g1", refbls.EncodeG1(e.Add(g1))},
		{"expected-term0", refbls.EncodeG1(e.Add(first.Neg()))},
	}
	if L > 1 {
		cs = append(cs, cand{"expected-termLast", refbls.EncodeG1(e.Add(last.Neg()))})
	}
	cs = append(cs,
		cand{"identity-signature", infSig},
		cand{"expected+T3(nonG1)", refbls.EncodeG1(e.Add(t3))},
		cand{"expected+Tcof(nonG1)", refbls.EncodeG1(e.Add(tCof))},
		cand{"flip-sign-bit", flipBit(enc, 0, 0x20)},
		cand{"flip-x-lsb", flipBit(enc, 47, 0x01)},
		cand{"len0", []byte{}},
		cand{"len47", append([]byte{}, enc[:47]...)},
		cand{"len49", append(append([]byte{}, enc...), 0)},
	)
	return cs
}

// ---------------------------------------------------------------- many-messages shapes

type shape struct {
	L    int
	keys []int // alphabet index per position
	cmb  []int // combo per position
	rot  int   // rotates the representation cycle of the mixed-repr policy (so that every
	// representation, incl. the one of the FIRST occurrence of a key, varies over the shapes)
}

func decodeShape(L, idx, nKeys int) shape {
	s := shape{L: L, keys: make([]int, L), cmb: make([]int, L), rot: idx % 7}
	for p := 0; p < L; p++ {
		d := idx % (nKeys * 3)
		idx /= nKeys * 3
		s.keys[p] = d / 3
		s.cmb[p] = d % 3
	}
	return s
}

func (s shape) String() string {
	var sb strings.Builder
	for p := 0; p < s.L; p++ {
		if p > 0 {
			sb.WriteByte(',')
		}
		fmt.Fprintf(&sb, "%s@c%d", keyNames[s.keys[p]], s.cmb[p])
	}
	return sb.String()
}

// expectedPoint: sum over combos of (x_c*a + y_c*b)*H_c from the precomputed table.
func (s shape) expectedPoint() (refbls.G1, bool) {
	var x, y [3]int
	noID := true
	for p := 0; p < s.L; p++ {
		switch s.keys[p] {
		case kA:
			x[s.cmb[p]]++
		case kNegA:
			x[s.cmb[p]]--
		case kB:
			y[s.cmb[p]]++
		case kID:
			noID = false
		}
	}
	e := refbls.G1Inf()
	for c := 0; c < 3; c++ {
		if !tabOK[c][x[c]+maxL][y[c]] {
			run.Fatal("table miss")
		}
		e = e.Add(tab[c][x[c]+maxL][y[c]])
	}
	return e, noID
}

// objects returns the key objects of the shape under a policy, plus their replay description.
func (s shape) objects(policy string) ([]crypto.PublicKey, []keySpec) {
	pks := make([]crypto.PublicKey, s.L)
	specs := make([]keySpec, s.L)
	occ := [4]int{}
	for p := 0; p < s.L; p++ {
		k := s.keys[p]
		sp := keySpec{Name: keyNames[k], SK: ev.Hex(skOf[k].Bytes())}
		if k == kID {
			sp.SK = "00"
		}
		switch policy {
		case "shared":
			pks[p] = sharedObj[k]
			sp.Repr, sp.Obj = "decoded", k
		case "fresh-decoded":
			o, err := crypto.DecodePublicKey(crypto.BLSBLS12381, encOf[k])
			if err != nil {
				run.Fatal("DecodePublicKey of a reference encoding: %v", err)
			}
			pks[p] = o
			sp.Repr, sp.Obj = "decoded", 100+p
		case "mixed-repr":
			r := reprCycle[(occ[k]+s.rot)%len(reprCycle)]
			occ[k]++
			pks[p] = reprObj[k][r]
			sp.Repr = r
			for i, rr := range reprCycle {
				if rr == r {
					sp.Obj = 10*(k+1) + i
				}
			}
		}
		specs[p] = sp
	}
	return pks, specs
}

// pathOf mirrors bls_multisig.go:392: one pairing per distinct hash iff strictly fewer
// distinct hashes than distinct key struct values.
func pathOf(pks []crypto.PublicKey, hashes []string) string {
	mh := map[string]bool{}
	mk := map[string]bool{}
	for i := range pks {
		mh[hashes[i]] = true
		mk[pointKey(pks[i])] = true
	}
	switch {
	case len(mh) < len(mk):
		return "perDistinctMessage"
	case len(mh) == len(mk):
		return "tie(perDistinctKey)"
	default:
		return "perDistinctKey"
	}
}

func short(s string) string {
	r := strings.NewReplacer("(nonG1)", "", "(perDistinctKey)", "")
	return r.Replace(s)
}

func doShape(L, idx, nKeys int, pols []string, st *stats, crossCheck bool) {
	s := decodeShape(L, idx, nKeys)
	e, noID := s.expectedPoint()
	encE := refbls.EncodeG1(e)
	msgs := make([][]byte, L)
	tags := make([]string, L)
	hashes := make([]string, L)
	for p := 0; p < L; p++ {
		msgs[p] = combos[s.cmb[p]].msg
		tags[p] = combos[s.cmb[p]].tag
		hashes[p] = hashOfC[s.cmb[p]]
	}
	if crossCheck { // table-based expectation against the literal sum (harness self-check)
		sks := make([]*big.Int, L)
		for p := range sks {
			sks[p] = skOf[s.keys[p]]
		}
		if _, enc := oracleMany(sks, msgs, tags, nil); !bytes.Equal(enc, encE) {
			run.Fatal("table-based expected aggregate differs from the literal sum on shape %s", s)
		}
	}
	cs := candidates(e, single[s.keys[0]][s.cmb[0]], single[s.keys[L-1]][s.cmb[L-1]], L)
	hs := [3]hash.Hasher{newHasher(combos[0].tag), newHasher(combos[1].tag), newHasher(combos[2].tag)}
	kmacs := make([]hash.Hasher, L)
	for p := 0; p < L; p++ {
		kmacs[p] = hs[s.cmb[p]]
	}
	sumInf := e.Inf
	for _, pol := range pols {
		pks, specs := s.objects(pol)
		path := "early-return(identity-key)"
		if noID {
			path = pathOf(pks, hashes)
		}
		st.add("shapes/"+pol+"/"+path, 1)
		run.Distinct(fmt.Sprintf("many/L%d/n%d/%d/%s", L, nKeys, idx, pol))
		for _, c := range cs {
			want := noID && len(c.sig) == 48 && bytes.Equal(c.sig, encE)
			got, err := crypto.VerifyBLSSignatureManyMessages(pks, c.sig, msgs, kmacs)
			st.add("evaluations", 1)
			st.add(fmt.Sprintf("outcome/many/%s/%v", c.kind, got), 1)
			if want && sumInf {
				st.add("valid-with-identity-sum", 1)
			}
			if err == nil && got == want {
				continue
			}
			p := path
			if len(c.sig) != 48 {
				p = "early-return(length)"
			}
			var key string
			switch {
			case err != nil:
				key = "many:unexpected-error:" + short(c.kind) + ":" + short(p)
			case got && !want:
				key = "many:accepts-invalid:" + short(c.kind) + ":" + short(p)
				if sumInf {
					key += ":sum-is-identity"
				}
			default:
				key = "many:rejects-valid:" + short(c.kind) + ":" + short(p)
				if sumInf {
					key += ":sum-is-identity"
				}
			}
			rp := replay{Fn: "many", Policy: pol, Keys: specs, Tags: tags, Sig: ev.Hex(c.sig), Cand: c.kind, Path: p,
				Expect: fmt.Sprint(want), Got: fmt.Sprintf("%v,%v", got, err), Note: "shape " + s.String()}
			for _, m := range msgs {
				rp.Msgs = append(rp.Msgs, ev.Hex(m))
			}
			run.Violation(key, fmt.Sprintf("VerifyBLSSignatureManyMessages on shape [%s] (%s, %s), candidate %s: expected %v, got (%v,%v)", s, pol, p, c.kind, want, got, err), rp)
		}
		if idx%97 == 0 && pol == "mixed-repr" {
			rp := replay{Fn: "many", Policy: pol, Keys: specs, Tags: tags, Sig: ev.Hex(encE), Cand: "expected", Path: path, Expect: fmt.Sprint(noID), Got: "as expected", Note: "shape " + s.String()}
			for _, m := range msgs {
				rp.Msgs = append(rp.Msgs, ev.Hex(m))
			}
			run.Sample(rp)
		}
	}
}

// ---------------------------------------------------------------- one-message shapes

var (
	sumKeyMu  sync.Mutex
	sumKeyObj = map[string]crypto.PublicKey{}
)

// refSumKey is the key object decoded from the reference encoding of (sum of scalars)*g2.
func refSumKey(t *big.Int) crypto.PublicKey {
	sumKeyMu.Lock()
	defer sumKeyMu.Unlock()
	k := t.Text(16)
	if o, ok := sumKeyObj[k]; ok {
		return o
	}
	o := decodedPK(t)
	sumKeyObj[k] = o
	return o
}

func doOne(L, idx int, st *stats) {
	// idx encodes a key sequence in base 4 and the combo (idx % 3)
	c := idx % 3
	q := idx / 3
	s := shape{L: L, keys: make([]int, L), cmb: make([]int, L)}
	x, y := 0, 0
	for p := 0; p < L; p++ {
		s.keys[p] = q % 4
		q /= 4
		s.cmb[p] = c
		switch s.keys[p] {
		case kA:
			x++
		case kNegA:
			x--
		case kB:
			y++
		}
	}
	t := scalarXY(x, y)
	e := tab[c][x+maxL][y]
	encE := refbls.EncodeG1(e)
	sumNonZero := t.Sign() != 0
	cs := candidates(e, single[s.keys[0]][c], single[s.keys[L-1]][c], L)
	sumKey := refSumKey(t)
	for _, pol := range []string{"shared", "mixed-repr"} {
		pks, specs := s.objects(pol)
		run.Distinct(fmt.Sprintf("one/L%d/%d/%s", L, idx, pol))
		st.add("shapes/one/"+pol, 1)
		for _, cd := range cs {
			want := sumNonZero && len(cd.sig) == 48 && bytes.Equal(cd.sig, encE)
			h := newHasher(combos[c].tag)
			got, err := crypto.VerifyBLSSignatureOneMessage(pks, cd.sig, combos[c].msg, h)
			st.add("evaluations", 1)
			st.add(fmt.Sprintf("outcome/one/%s/%v", cd.kind, got), 1)
			rp := replay{Fn: "one", Policy: pol, Keys: specs, Msgs: []string{ev.Hex(combos[c].msg)}, Tags: []string{combos[c].tag},
				Sig: ev.Hex(cd.sig), Cand: cd.kind, Path: "aggregate-then-Verify", Expect: fmt.Sprint(want), Got: fmt.Sprintf("%v,%v", got, err), Note: "keys " + s.String()}
			if err != nil || got != want {
				dir := "rejects-valid"
				if err != nil {
					dir = "unexpected-error"
				} else if got {
					dir = "accepts-invalid"
				}
				key := "one:" + dir + ":" + short(cd.kind)
				if !sumNonZero {
					key += ":key-sum-is-identity"
				}
				run.Violation(key, fmt.Sprintf("VerifyBLSSignatureOneMessage keys [%s] (%s), candidate %s: expected %v (Verify under the reference sum of keys), got (%v,%v)", s, pol, cd.kind, want, got, err), rp)
			}
			// the literal statement: equal to the library's Verify under the sum of the keys,
			// the sum being taken by the reference and decoded from bytes
			vgot, verr := sumKey.Verify(cd.sig, combos[c].msg, newHasher(combos[c].tag))
			st.add("evaluations", 1)
			if verr != nil || vgot != got {
				if err == nil {
					rp.Expect = fmt.Sprintf("%v,%v (library Verify under reference sum key %x)", vgot, verr, refEncPK(t))
					run.Violation("one:differs-from-Verify-under-reference-sum:"+short(cd.kind),
						fmt.Sprintf("VerifyBLSSignatureOneMessage keys [%s] candidate %s = %v but Verify under the reference sum of the keys = (%v,%v)", s, cd.kind, got, vgot, verr), rp)
				}
			}
		}
	}
}

// ---------------------------------------------------------------- error shapes

type sizedHasher struct {
	hash.Hasher
	n int
}

func (s sizedHasher) Size() int { return s.n }

func errorShapes(st *stats) {
	seed := make([]byte, 48)
	for i := range seed {
		seed[i] = byte(i + 1)
	}
	var ecdsaKeys []crypto.PublicKey
	for _, alg := range []crypto.SigningAlgorithm{crypto.ECDSAP256, crypto.ECDSASecp256k1} {
		sk, err := crypto.GeneratePrivateKey(alg, seed)
		if err != nil {
			run.Fatal("ECDSA key generation: %v", err)
		}
		ecdsaKeys = append(ecdsaKeys, sk.PublicKey())
	}
	kmac127, err := hash.NewKMAC_128([]byte("verif-C02-kmac-key-0123456789"), []byte("c"), 127)
	if err != nil {
		run.Fatal("%v", err)
	}
	kmac129, _ := hash.NewKMAC_128([]byte("verif-C02-kmac-key-0123456789"), []byte("c"), 129)
	badHashers := map[string]hash.Hasher{
		"sha3-256(32)": hash.NewSHA3_256(), "kmac(127)": kmac127, "kmac(129)": kmac129,
		"valid-kmac-claiming-0": sizedHasher{newHasher("x"), 0},
	}
	type chk struct {
		name string
		pred func(error) bool
	}
	empty := chk{"IsBLSAggregateEmptyListError", crypto.IsBLSAggregateEmptyListError}
	inval := chk{"IsInvalidInputsError", crypto.IsInvalidInputsError}
	nilH := chk{"IsNilHasherError", crypto.IsNilHasherError}
	sizeH := chk{"IsInvalidHasherSizeError", crypto.IsInvalidHasherSizeError}
	notBLS := chk{"IsNotBLSKeyError", crypto.IsNotBLSKeyError}

	validSig := refbls.EncodeG1(single[kA][0])
	base := func(L int) ([]crypto.PublicKey, [][]byte, []hash.Hasher, []keySpec, []string, []string) {
		pks := make([]crypto.PublicKey, L)
		msgs := make([][]byte, L)
		hs := make([]hash.Hasher, L)
		specs := make([]keySpec, L)
		var mh, tg []string
		for p := 0; p < L; p++ {
			k := []int{kA, kB, kNegA}[p%3]
			pks[p] = sharedObj[k]
			specs[p] = keySpec{Name: keyNames[k], SK: ev.Hex(skOf[k].Bytes()), Repr: "decoded", Obj: k}
			msgs[p] = combos[p%3].msg
			hs[p] = newHasher(combos[p%3].tag)
			mh = append(mh, ev.Hex(msgs[p]))
			tg = append(tg, combos[p%3].tag)
		}
		return pks, msgs, hs, specs, mh, tg
	}
	report := func(fn, class string, want chk, got bool, err error, rp replay) {
		st.add("evaluations", 1)
		st.add("error-shapes/"+fn+"/"+want.name, 1)
		run.Distinct("err/" + fn + "/" + class)
		if !got && err != nil && want.pred(err) {
			return
		}
		rp.Fn = fn
		rp.Expect = "(false, " + want.name + ")"
		rp.Got = fmt.Sprintf("%v,%v", got, err)
		rp.Note = class
		cls := class
		if i := strings.Index(cls, "@"); i >= 0 {
			cls = cls[:i]
		}
		run.Violation(fn+":error-shape:"+cls+":not-"+want.name, fmt.Sprintf("%s on input-error shape %s: expected (false,%s), got (%v,%v)", fn, class, want.name, got, err), rp)
	}
	many := func(class string, want chk, pks []crypto.PublicKey, msgs [][]byte, hs []hash.Hasher, specs []keySpec, mh, tg []string) {
		got, err := crypto.VerifyBLSSignatureManyMessages(pks, validSig, msgs, hs)
		report("many", class, want, got, err, replay{Keys: specs, Msgs: mh, Tags: tg, Sig: ev.Hex(validSig)})
	}
	// empty lists
	many("empty:all-nil", empty, nil, nil, nil, nil, nil, nil)
	many("empty:all-empty", empty, []crypto.PublicKey{}, [][]byte{}, []hash.Hasher{}, nil, nil, nil)
	{
		_, msgs, hs, _, mh, tg := base(2)
		many("empty:keys-only", empty, nil, msgs, hs, nil, mh, tg)
	}
	for L := 1; L <= 4; L++ {
		// mismatched lengths, each of the three lists one shorter / one longer
		for _, d := range []int{-1, 1} {
			for which := 0; which < 3; which++ {
				pks, msgs, hs, specs, mh, tg := base(L)
				ep, em, eh, es, emh, etg := base(L + 1)
				class := fmt.Sprintf("length-mismatch:%s%+d@L%d", []string{"keys", "messages", "hashers"}[which], d, L)
				want := inval
				switch which {
				case 0:
					if d < 0 {
						pks, specs = pks[:L-1], specs[:L-1]
						if L-1 == 0 {
							want = empty // documented: empty key slice -> errBLSAggregateEmptyList
						}
					} else {
						pks, specs = ep, es
					}
				case 1:
					if d < 0 {
						msgs, mh = msgs[:L-1], mh[:L-1]
					} else {
						msgs, mh = em, emh
					}
				case 2:
					if d < 0 {
						hs, tg = hs[:L-1], tg[:L-1]
					} else {
						hs, tg = eh, etg
					}
				}
				many(class, want, pks, msgs, hs, specs, mh, tg)
			}
		}
		for i := 0; i < L; i++ {
			// nil hasher at index i
			pks, msgs, hs, specs, mh, tg := base(L)
			hs[i] = nil
			tg[i] = "<nil hasher>"
			many(fmt.Sprintf("nil-hasher@%d/L%d", i, L), nilH, pks, msgs, hs, specs, mh, tg)
			// wrong-size hasher at index i
			names := make([]string, 0, len(badHashers))
			for n := range badHashers {
				names = append(names, n)
			}
			sort.Strings(names)
			for _, n := range names {
				pks, msgs, hs, specs, mh, tg := base(L)
				hs[i] = badHashers[n]
				tg[i] = "<" + n + ">"
				many(fmt.Sprintf("wrong-size-hasher:%s@%d/L%d", n, i, L), sizeH, pks, msgs, hs, specs, mh, tg)
			}
			// non-BLS key at index i
			for e, ek := range ecdsaKeys {
				pks, msgs, hs, specs, mh, tg := base(L)
				pks[i] = ek
				specs[i] = keySpec{Name: ek.Algorithm().String(), SK: ev.Hex(seed), Repr: "ecdsa", Obj: 200 + e}
				many(fmt.Sprintf("non-BLS-key:%s@%d/L%d", ek.Algorithm(), i, L), notBLS, pks, msgs, hs, specs, mh, tg)
			}
		}
	}
	// VerifyBLSSignatureOneMessage
	one := func(class string, want chk, pks []crypto.PublicKey, h hash.Hasher, specs []keySpec, tag string) {
		got, err := crypto.VerifyBLSSignatureOneMessage(pks, validSig, combos[0].msg, h)
		report("one", class, want, got, err, replay{Keys: specs, Msgs: []string{ev.Hex(combos[0].msg)}, Tags: []string{tag}, Sig: ev.Hex(validSig)})
	}
	one("empty:nil", empty, nil, newHasher(combos[0].tag), nil, combos[0].tag)
	one("empty:empty", empty, []crypto.PublicKey{}, newHasher(combos[0].tag), nil, combos[0].tag)
	for L := 1; L <= 4; L++ {
		pks, _, _, specs, _, _ := base(L)
		one(fmt.Sprintf("nil-hasher@L%d", L), nilH, pks, nil, specs, "<nil hasher>")
		for n, bh := range badHashers {
			one(fmt.Sprintf("wrong-size-hasher:%s@L%d", n, L), sizeH, pks, bh, specs, "<"+n+">")
		}
		for i := 0; i < L; i++ {
			for e, ek := range ecdsaKeys {
				pks, _, _, specs, _, _ := base(L)
				pks[i] = ek
				specs[i] = keySpec{Name: ek.Algorithm().String(), SK: ev.Hex(seed), Repr: "ecdsa", Obj: 200 + e}
				one(fmt.Sprintf("non-BLS-key:%s@%d/L%d", ek.Algorithm(), i, L), notBLS, pks, newHasher(combos[0].tag), specs, combos[0].tag)
			}
		}
	}

	// Observed, not judged: the statement does not fix the precedence when an input error
	// coincides with a condition that makes the verdict false without an error.
	obs := map[string]string{}
	{
		got, err := crypto.VerifyBLSSignatureManyMessages(nil, []byte{1, 2, 3}, nil, nil)
		obs["many: empty lists + signature of length 3"] = fmt.Sprintf("%v,%v", got, err)
		pks, msgs, hs, _, _, _ := base(2)
		pks[0], pks[1] = sharedObj[kID], ecdsaKeys[0]
		got, err = crypto.VerifyBLSSignatureManyMessages(pks, validSig, msgs, hs)
		obs["many: identity key at 0 + ECDSA key at 1"] = fmt.Sprintf("%v,%v", got, err)
		pks, msgs, hs, _, _, _ = base(2)
		got, err = crypto.VerifyBLSSignatureManyMessages(pks, validSig[:47], msgs[:1], hs)
		obs["many: length mismatch + signature of length 47"] = fmt.Sprintf("%v,%v", got, err)
	}
	run.Set("observed_precedence_not_judged", obs)
}

// ---------------------------------------------------------------- replay

func doReplay() {
	b, err := os.ReadFile(run.Replay)
	if err != nil {
		run.Fatal("replay: %v", err)
	}
	var f struct {
		Key    string `json:"key"`
		Replay replay `json:"replay"`
	}
	if err := json.Unmarshal(b, &f); err != nil {
		run.Fatal("replay: %v", err)
	}
	rp := f.Replay
	run.Set("rule", "replay of one recorded case; the verdict is recomputed from the literal sum of sk_i*H_i(m_i)")
	if strings.Contains(f.Key, ":error-shape:") {
		run.Fatal("replay: input-error shapes are re-run by the normal run (they are enumerated in full in under a second)")
	}
	objs := map[int]crypto.PublicKey{}
	var pks []crypto.PublicKey
	var sks []*big.Int
	for _, ks := range rp.Keys {
		k := new(big.Int).SetBytes(ev.UnHex(ks.SK))
		sks = append(sks, k)
		o, ok := objs[ks.Obj]
		if !ok {
			o = mkRepr(k, ks.Repr)
			objs[ks.Obj] = o
		}
		pks = append(pks, o)
	}
	sig := ev.UnHex(rp.Sig)
	var got, want bool
	switch rp.Fn {
	case "many":
		var msgs [][]byte
		var hs []hash.Hasher
		for i := range rp.Msgs {
			msgs = append(msgs, ev.UnHex(rp.Msgs[i]))
			hs = append(hs, newHasher(rp.Tags[i]))
		}
		want, _ = oracleMany(sks, msgs, rp.Tags, sig)
		got, err = crypto.VerifyBLSSignatureManyMessages(pks, sig, msgs, hs)
	case "one":
		msg := ev.UnHex(rp.Msgs[0])
		t := new(big.Int)
		for _, k := range sks {
			t.Add(t, k)
		}
		t = mod(t)
		want = t.Sign() != 0 && bytes.Equal(sig, refbls.EncodeG1(hashPoint(msg, rp.Tags[0]).Mul(t)))
		got, err = crypto.VerifyBLSSignatureOneMessage(pks, sig, msg, newHasher(rp.Tags[0]))
	default:
		run.Fatal("replay: unknown fn %q", rp.Fn)
	}
	run.Add("evaluations", 1)
	run.Distinct("replay/1")
	run.Distinct("replay/2")
	run.Sample(rp)
	fmt.Printf("replay: expected %v, got (%v,%v)\n", want, got, err)
	if err != nil || got != want {
		rp.Expect, rp.Got = fmt.Sprint(want), fmt.Sprintf("%v,%v", got, err)
		run.Violation(f.Key, "replayed case still fails", rp)
	}
	run.Finish()
}

// ---------------------------------------------------------------- main

func main() {
	run = ev.Start("C02", "exploration")
	if err := refbls.SelfTest(); err != nil {
		run.Fatal("refbls self-test: %v", err)
	}
	t0 := time.Now()
	phase := map[string]float64{}
	setup()
	phase["setup"] = time.Since(t0).Seconds()
	if run.Replay != "" {
		doReplay()
	}
	Lmax := 3
	if run.Thorough() {
		Lmax = 4
	}
	type blk struct {
		L, nKeys, n int
		pols        []string
	}
	var blocks []blk
	pow := func(b, e int) int {
		r := 1
		for i := 0; i < e; i++ {
			r *= b
		}
		return r
	}
	for L := 1; L <= Lmax; L++ {
		blocks = append(blocks, blk{L, 4, pow(12, L), policies})
	}
	if run.Thorough() {
		blocks = append(blocks, blk{5, 3, pow(9, 5), []string{"shared", "mixed-repr"}})
	} else {
		// quick: L = 4 only for the identity-free 3-key alphabet and the policy that makes the most
		// distinct key objects (the only way to reach three groups on the per-message path)
		blocks = append(blocks, blk{4, 3, pow(9, 4), []string{"mixed-repr"}})
	}
	shapeCounts := map[string]int{}
	for _, b := range blocks {
		b := b
		t1 := time.Now()
		shapeCounts[fmt.Sprintf("L=%d,keys=%d,policies=%d", b.L, b.nKeys, len(b.pols))] = b.n
		const chunk = 16
		nch := (b.n + chunk - 1) / chunk
		ev.Par(nch, func(ci int) {
			var st stats
			for idx := ci * chunk; idx < (ci+1)*chunk && idx < b.n; idx++ {
				doShape(b.L, idx, b.nKeys, b.pols, &st, b.L <= 2)
			}
			st.flush()
		})
		phase[fmt.Sprintf("many-L%d", b.L)] = time.Since(t1).Seconds()
	}
	t2 := time.Now()
	// one-message shapes: all key sequences of length 1..4 over the 4-key alphabet x 3 combos
	for L := 1; L <= 4; L++ {
		n := pow(4, L) * 3
		L := L
		ev.Par(n, func(i int) {
			var st stats
			doOne(L, i, &st)
			st.flush()
		})
	}
	phase["one-message"] = time.Since(t2).Seconds()
	t2 = time.Now()
	longLists()
	phase["long-lists"] = time.Since(t2).Seconds()
	t2 = time.Now()
	candidateFamily()
	phase["candidate-family"] = time.Since(t2).Seconds()
	t2 = time.Now()
	var st stats
	errorShapes(&st)
	st.flush()
	phase["error-shapes"] = time.Since(t2).Seconds()
	run.Set("phase_seconds", phase)
	fmt.Printf("C02 phases (s): %v\n", phase)

	// evidence
	paths := map[string]int64{}
	outcomes := map[string]int64{}
	errShapes := map[string]int64{}
	pathTotals := map[string]int64{}
	for k, v := range gstat {
		switch {
		case k == "evaluations":
			run.Add("evaluations", v)
		case strings.HasPrefix(k, "shapes/"):
			paths[strings.TrimPrefix(k, "shapes/")] = v
			parts := strings.Split(k, "/")
			if len(parts) == 3 && parts[1] != "one" {
				pathTotals[parts[2]] += v
			}
		case strings.HasPrefix(k, "outcome/"):
			outcomes[strings.TrimPrefix(k, "outcome/")] = v
		case strings.HasPrefix(k, "error-shapes/"):
			errShapes[strings.TrimPrefix(k, "error-shapes/")] = v
		}
	}
	run.Set("rule", "VerifyBLSSignatureManyMessages: for every L up to the bound (quick: L<=3, plus L=4 over {a,b,-a} under the mixed-repr policy only; thorough: L<=4, plus L=5 over {a,b,-a} under the shared and mixed-repr policies), ALL (keys*3)^L assignments position->(key, (message,hasher)) "+
		"[keys {a,b,-a,identity}; combos (m1,tagA),(m2,tagA),(m1,tagB)], each under 3 key-object policies (one shared object per key; a freshly decoded object per position; "+
		"k-th occurrence of a key held in a different internal representation: Jacobian via RemoveBLSPublicKeys, decoded affine, second Jacobian, AggregateBLSPublicKeys), "+
		"each with 12 candidate signatures (expected aggregate, +g1, minus first/last term, identity signature, +T of order 3, +cofactor point, sign-bit flip, x-lsb flip, lengths 0/47/49); "+
		"oracle: true iff no key is the identity and candidate == canonical encoding of sum sk_i*H_i(m_i) (refbls, known discrete logs). "+
		"VerifyBLSSignatureOneMessage: all 4^L key sequences L=1..4 x 3 combos x 2 policies x same candidates vs Verify under the reference sum of keys (pairing-free verdict and the library's Verify under the decoded reference sum). "+
		"Candidate family: the full structured family of C01/C05 (957 strings around the expected aggregate) as the signature of two fixed lists (per-distinct-key and per-distinct-message path), true for exactly one string. Long lists: lengths {7,8,9,15,16,17,33,65} (thorough up to 129) x 5 list patterns (all distinct; one message; one key; two keys alternating; distinct messages with a cancelling pair last) x 4 candidates, generic oracle. Error shapes: empty, each list +-1, nil/wrong-size hasher and ECDSA key at every index, L=1..4. A case is distinct by (function, L, shape index, policy) or (error class).")
	run.Set("shapes_per_block", shapeCounts)
	run.Set("key_alphabet", keyNames)
	run.Set("policies", policies)
	run.Set("shapes_by_policy_and_path", paths)
	run.Set("many_shapes_by_C_path", pathTotals)
	run.Set("outcomes_by_candidate", outcomes)
	run.Set("error_shapes_by_expected_error", errShapes)
	run.Set("valid_verdicts_with_identity_sum", gstat["valid-with-identity-sum"])
	nTrue, nFalse := int64(0), int64(0)
	for k, v := range outcomes {
		if strings.HasSuffix(k, "/true") {
			nTrue += v
		} else {
			nFalse += v
		}
	}
	run.Set("distinct_outcomes", map[string]int64{"true": nTrue, "false": nFalse})
	fmt.Printf("C02 paths: %v\nC02 outcomes: true=%d false=%d identity-sum-valid=%d\n", pathTotals, nTrue, nFalse, gstat["valid-with-identity-sum"])
	run.Assume("refbls (math/big arithmetic, ZCash G1 serialisation) self-tested at start-up",
		"H(m) is the library's signature under the private key 1 (BLST map_to_G1 is the definition of the hash-to-curve image); it is checked to be a non-trivial G1 point by the reference",
		"which C path runs is computed from the shape by the rule of bls_multisig.go:392 (distinct hashes < distinct key struct values), the struct values being read from the real objects by reflection",
		"the order in which Go's map iteration hands groups to C is not owned; the oracle does not depend on it",
		"Go toolchain and math/big are trusted")
	run.Finish()
}


// longLists: list lengths around the powers of two up to 129 (the C layer multiplies pairings in
// batches and groups couples per message or per key) under five list patterns, each with four
// candidate signatures; the generic oracle (sum sk_i*H_i(m_i), no identity key) decides.
func longLists() {
	lens := []int{7, 8, 9, 15, 16, 17, 31, 32, 33, 63, 64, 65, 128, 129}
	if !run.Thorough() {
		lens = []int{7, 8, 9, 15, 16, 17, 33, 65}
	}
	patterns := []string{"distinct-keys-distinct-messages", "distinct-keys-one-message", "one-key-distinct-messages", "two-keys-alternating-distinct-messages", "distinct-messages-then-cancelling-pair-last"}
	type job struct {
		L   int
		pat string
	}
	var jobs []job
	for _, L := range lens {
		for _, p := range patterns {
			jobs = append(jobs, job{L, p})
		}
	}
	run.Set("long_list_lengths", lens)
	run.Set("long_list_patterns", patterns)
	base := scalarXY(7, 11)
	ev.Par(len(jobs), func(ji int) {
		j := jobs[ji]
		var st stats
		defer st.flush()
		sks := make([]*big.Int, j.L)
		msgs := make([][]byte, j.L)
		tags := make([]string, j.L)
		for i := 0; i < j.L; i++ {
			tags[i] = "c02-long"
			msgs[i] = []byte(fmt.Sprintf("c02 long message %d", i))
			sks[i] = mod(new(big.Int).Add(base, big.NewInt(int64(1000*i))))
			switch j.pat {
			case "distinct-keys-one-message":
				msgs[i] = msgs[0]
			case "one-key-distinct-messages":
				sks[i] = base
			case "two-keys-alternating-distinct-messages":
				sks[i] = mod(new(big.Int).Add(base, big.NewInt(int64(i%2))))
			case "distinct-messages-then-cancelling-pair-last":
				if i == j.L-2 {
					sks[i] = base
				}
				if i == j.L-1 {
					sks[i] = mod(new(big.Int).Neg(base))
					msgs[i] = msgs[i-1]
				}
			}
		}
		pks := make([]crypto.PublicKey, j.L)
		hs := make([]hash.Hasher, j.L)
		for i := range pks {
			pks[i] = libPK(sks[i])
			hs[i] = newHasher(tags[i])
		}
		_, enc := oracleMany(sks, msgs, tags, nil)
		e, _ := refbls.DecodeG1(enc)
		first := hashPoint(msgs[0], tags[0]).Mul(sks[0])
		last := hashPoint(msgs[j.L-1], tags[j.L-1]).Mul(sks[j.L-1])
		for _, c := range candidates(e, first, last, j.L)[:4] {
			want, _ := oracleMany(sks, msgs, tags, c.sig)
			got, err := crypto.VerifyBLSSignatureManyMessages(pks, c.sig, msgs, hs)
			st.add("evaluations", 1)
			st.add(fmt.Sprintf("outcome/long/%s/%v", c.kind, want), 1)
			if err != nil || got != want {
				what := "accepts-invalid"
				if want {
					what = "rejects-valid"
				}
				run.Violation(fmt.Sprintf("many:long:%s:%s:%s", what, c.kind, j.pat),
					fmt.Sprintf("VerifyBLSSignatureManyMessages on a list of %d couples (%s) with candidate %s = (%v,%v), the definition says %v", j.L, j.pat, c.kind, got, err, want),
					map[string]any{"length": j.L, "pattern": j.pat, "candidate": c.kind, "signature": ev.Hex(c.sig), "rule": "sk_i = base + 1000*i (pattern-specific overrides), message i = 'c02 long message i', tag 'c02-long'", "base_scalar": ev.Hex(refbls.ScalarBytes(base))})
			}
		}
		run.Distinct(fmt.Sprintf("long/%d/%s", j.L, j.pat))
	})
}


// candidateFamily: the FULL structured candidate family (the one C01/C05 offer to Verify; 957 strings
// around the expected aggregate) as the signature of two fixed lists: [a, b] on two messages
// (per-distinct-key / tie path) and [a, b, a] on one message (per-distinct-message path). True for
// exactly one string.
func candidateFamily() {
	base := scalarXY(3, 5)
	type shapeT struct {
		name string
		sks  []*big.Int
		msgs [][]byte
	}
	m1, m2 := []byte("c02 family message one"), []byte("c02 family message two")
	k2 := mod(new(big.Int).Add(base, big.NewInt(99)))
	shapes := []shapeT{
		{"two-keys-two-messages", []*big.Int{base, k2}, [][]byte{m1, m2}},
		{"three-couples-one-message", []*big.Int{base, k2, base}, [][]byte{m1, m1, m1}},
	}
	for _, sh := range shapes {
		sh := sh
		tags := make([]string, len(sh.sks))
		pks := make([]crypto.PublicKey, len(sh.sks))
		for i := range tags {
			tags[i] = "c02-family"
			pks[i] = libPK(sh.sks[i])
		}
		_, enc := oracleMany(sh.sks, sh.msgs, tags, nil)
		e, err := refbls.DecodeG1(enc)
		if err != nil {
			run.Fatal("decoding the expected aggregate: %v", err)
		}
		cands := refbls.G1Candidates(e, hashPoint(m1, "c02-family"))
		ev.Par(len(cands), func(i int) {
			c := cands[i]
			var st stats
			defer st.flush()
			hs := make([]hash.Hasher, len(pks))
			for k := range hs {
				hs[k] = newHasher("c02-family")
			}
			want := bytes.Equal(c.Bytes, enc)
			got, err := crypto.VerifyBLSSignatureManyMessages(pks, c.Bytes, sh.msgs, hs)
			st.add("evaluations", 1)
			if err != nil || got != want {
				what := "accepts-invalid"
				if want {
					what = "rejects-valid"
				}
				cl := c.Name
				if k := strings.IndexByte(cl, '/'); k >= 0 {
					cl = cl[:k]
				}
				run.Violation(fmt.Sprintf("many:family:%s:%s:%s", what, cl, sh.name), fmt.Sprintf("VerifyBLSSignatureManyMessages (%s) with candidate %s = (%v,%v), the definition says %v", sh.name, c.Name, got, err, want),
					map[string]any{"shape": sh.name, "candidate": c.Name, "signature": ev.Hex(c.Bytes), "expected_aggregate": ev.Hex(enc)})
			}
			run.Distinct("fam/" + sh.name + "/" + c.Name)
		})
	}
}
