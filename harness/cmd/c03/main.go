// C03: BatchVerifyBLSSignaturesOneMessage agrees index-by-index with individual verification.
//
// For every n up to the bound, ALL 2^n subsets of invalid positions are combined with every
// kind of invalidity (including adversarially correlated ones whose sums are valid), and the
// result is judged per index by a pairing-free oracle (known discrete logs, refbls) and
// against the library's own Verify. The function's internal randomness (crypto/rand) is owned
// in a second phase by replacing crypto/rand.Reader with chosen seed tapes.
package main

import (
	"bytes"
	crand "crypto/rand"
	"encoding/json"
	"fmt"
	"io"
	"math/big"
	"math/bits"
	mrand "math/rand"
	"os"
	"sort"
	"strings"
	"sync"
	"sync/atomic"
	"time"

	crypto "github.com/onflow/crypto"
	"github.com/onflow/crypto/hash"

	"verif/harness/ev"
	"verif/harness/ref/refbls"
)

var run *ev.Run

const maxN = 7
const tag = "verif-C03-tag"

var (
	skOf    [maxN]*big.Int
	extraSK *big.Int
	msg     []byte
	hPoint  refbls.G1
	valid   [maxN][]byte // canonical encoding of sk_i*H(m)
	validPt [maxN]refbls.G1
	extraS  []byte
	otherPt [maxN][]byte // an unrelated G1 point per position
	d1, d2  refbls.G1    // G1 points used by the cancelling kinds
	t3      refbls.G1
	tCof    refbls.G1
	infSig  []byte
	cJ, cI  *big.Int
	keyObj  [maxN]crypto.PublicKey
	keyRepr [maxN]string
	idObj   [5]crypto.PublicKey
	idRepr  = [5]string{"identity-const", "identity-decoded", "identity-aggregate(c,-c)", "identity-aggregate-private(c,-c)", "identity-remove(c,[c])"}
)

func mod(k *big.Int) *big.Int { return new(big.Int).Mod(k, refbls.R) }

func libSK(k *big.Int) crypto.PrivateKey {
	sk, err := crypto.DecodePrivateKey(crypto.BLSBLS12381, refbls.ScalarBytes(k))
	if err != nil {
		run.Fatal("DecodePrivateKey(%x): %v", k, err)
	}
	return sk
}

func libPK(k *big.Int) crypto.PublicKey {
	k = mod(k)
	if k.Sign() == 0 {
		return crypto.IdentityBLSPublicKey()
	}
	return libSK(k).PublicKey()
}

func refEncPK(k *big.Int) []byte { return refbls.EncodeG2Flow(refbls.G2Gen().Mul(mod(k))) }

// mkKey builds a key object of the scalar k through the named route.
func mkKey(k *big.Int, repr string) crypto.PublicKey {
	var pk crypto.PublicKey
	var err error
	switch repr {
	case "derived":
		pk = libPK(k)
	case "decoded", "identity-decoded":
		pk, err = crypto.DecodePublicKey(crypto.BLSBLS12381, refEncPK(k))
	case "jacobian":
		pk, err = crypto.RemoveBLSPublicKeys(libPK(new(big.Int).Add(k, cJ)), []crypto.PublicKey{libPK(cJ)})
	case "identity-const":
		pk = crypto.IdentityBLSPublicKey()
	case "identity-aggregate(c,-c)":
		pk, err = crypto.AggregateBLSPublicKeys([]crypto.PublicKey{libPK(cI), libPK(new(big.Int).Neg(cI))})
	case "identity-aggregate-private(c,-c)":
		var ask crypto.PrivateKey
		ask, err = crypto.AggregateBLSPrivateKeys([]crypto.PrivateKey{libSK(mod(cI)), libSK(mod(new(big.Int).Neg(cI)))})
		if err == nil {
			pk = ask.PublicKey()
		}
	case "identity-remove(c,[c])":
		pk, err = crypto.RemoveBLSPublicKeys(libPK(cI), []crypto.PublicKey{libPK(cI)})
	default:
		run.Fatal("unknown key representation %q", repr)
	}
	if err != nil {
		run.Fatal("building key %s: %v", repr, err)
	}
	if strings.HasPrefix(repr, "identity") {
		k = big.NewInt(0)
	}
	if !bytes.Equal(pk.Encode(), refEncPK(k)) {
		run.Fatal("key object (%s) does not encode to the reference encoding of its point", repr)
	}
	return pk
}

func newHasher() hash.Hasher { return crypto.NewExpandMsgXOFKMAC128(tag) }

func hashPointOf(m []byte, tg string) refbls.G1 {
	s, err := libSK(big.NewInt(1)).Sign(m, crypto.NewExpandMsgXOFKMAC128(tg))
	if err != nil {
		run.Fatal("Sign under key 1: %v", err)
	}
	p, err := refbls.DecodeG1(s)
	if err != nil {
		run.Fatal("signature under key 1 is not canonical: %v", err)
	}
	if p.Inf || !p.InSubgroup() {
		run.Fatal("H(m) from the signature under key 1 is not a non-trivial G1 point")
	}
	return p
}

func setup() {
	rng := mrand.New(mrand.NewSource(run.Seed))
	rnd := func() *big.Int {
		for {
			b := make([]byte, 40)
			rng.Read(b)
			k := mod(new(big.Int).SetBytes(b))
			if k.Sign() != 0 {
				return k
			}
		}
	}
	seen := map[string]bool{}
	fresh := func() *big.Int {
		for {
			k := rnd()
			if !seen[k.String()] {
				seen[k.String()] = true
				return k
			}
		}
	}
	for i := range skOf {
		skOf[i] = fresh()
	}
	extraSK = fresh()
	cJ, cI = fresh(), fresh()
	msg = make([]byte, 24)
	rng.Read(msg)
	hPoint = hashPointOf(msg, tag)
	g1 := refbls.G1Gen()
	for i := range skOf {
		validPt[i] = hPoint.Mul(skOf[i])
		valid[i] = refbls.EncodeG1(validPt[i])
		otherPt[i] = refbls.EncodeG1(g1.Mul(fresh()))
		keyRepr[i] = []string{"derived", "decoded", "jacobian"}[i%3]
		keyObj[i] = mkKey(skOf[i], keyRepr[i])
		// harness sanity: the anchor is consistent with the library's Sign
		s, _ := libSK(skOf[i]).Sign(msg, newHasher())
		if !bytes.Equal(s, valid[i]) {
			run.Fatal("Sign under sk_%d differs from sk*H(m) computed from the signature under key 1", i)
		}
	}
	extraS = refbls.EncodeG1(hPoint.Mul(extraSK))
	d1, d2 = g1.Mul(fresh()), g1.Mul(fresh())
	var err error
	if t3, err = refbls.TorsionG1(3); err != nil {
		run.Fatal("%v", err)
	}
	tCof = refbls.CofactorPointG1()
	if !t3.OnCurve() || t3.InSubgroup() || !tCof.OnCurve() || tCof.InSubgroup() {
		run.Fatal("reference torsion points are not in E1 minus G1")
	}
	infSig = refbls.EncodeG1(refbls.G1Inf())
	for v := range idObj {
		idObj[v] = mkKey(big.NewInt(0), idRepr[v])
	}
}

// ---------------------------------------------------------------- cases

type bcase struct {
	n      int
	kind   string // class of invalidity (no indices)
	S      uint   // subset of invalid positions
	sub    []int  // pair / triple carrying the correlated error
	filler string // invalidity of the positions of S outside sub
	sigs   [][]byte
	idKey  []bool // identity public key at the position
	pat    string // key pattern ("" = all positions hold distinct keys)
}

func (c *bcase) id() string {
	return fmt.Sprintf("%sn%d/%s/S%02x/%v/%s", c.pat, c.n, c.kind, c.S, c.sub, c.filler)
}

// key patterns: which key sits at which position (lists with repeated public keys)
var keyPatterns = map[string]func(i int) int{
	"all-same-key/":       func(i int) int { return 0 },
	"adjacent-equal-keys/": func(i int) int { return i / 2 },
	"alternating-keys/":   func(i int) int { return i % 2 },
}

type origArrays struct {
	sk      [maxN]*big.Int
	valid   [maxN][]byte
	validPt [maxN]refbls.G1
	keyObj  [maxN]crypto.PublicKey
	keyRepr [maxN]string
}

var orig *origArrays

// applyPattern re-points the per-position arrays so that position i holds key kp(i) ("" restores).
func applyPattern(name string) {
	if orig == nil {
		orig = &origArrays{skOf, valid, validPt, keyObj, keyRepr}
	}
	kp := func(i int) int { return i }
	if name != "" {
		kp = keyPatterns[name]
	}
	for i := 0; i < maxN; i++ {
		j := kp(i)
		skOf[i], valid[i], validPt[i], keyObj[i], keyRepr[i] = orig.sk[j], orig.valid[j], orig.validPt[j], orig.keyObj[j], orig.keyRepr[j]
	}
	verifyCache = sync.Map{}
}

func members(S uint, n int) []int {
	var m []int
	for i := 0; i < n; i++ {
		if S&(1<<uint(i)) != 0 {
			m = append(m, i)
		}
	}
	return m
}

func enc(p refbls.G1) []byte { return refbls.EncodeG1(p) }

func withByte0(b []byte, and, or byte) []byte {
	o := append([]byte{}, b...)
	o[0] = o[0]&and | or
	return o
}

var xGEp = func() []byte {
	o := bytes.Repeat([]byte{0xff}, 48)
	o[0] = 0x9f // compressed, not infinity, sign 0, x = 2^381-1 >= p
	return o
}()

var mixedKinds = []string{"other-G1-point", "malformed:compression-bit-cleared", "non-G1:+T3", "length-47", "identity-key", "identity-signature", "malformed:x>=p", "length-0"}

// applySimple makes position i invalid in the given way.
func applySimple(c *bcase, i int, kind string) {
	switch kind {
	case "other-G1-point":
		c.sigs[i] = otherPt[i]
	case "negated-signature":
		c.sigs[i] = enc(validPt[i].Neg())
	case "malformed:compression-bit-cleared":
		c.sigs[i] = withByte0(valid[i], 0x7f, 0)
	case "malformed:infinity-flag-on-point":
		c.sigs[i] = withByte0(valid[i], 0xff, 0x40)
	case "malformed:x>=p":
		c.sigs[i] = xGEp
	case "non-G1:+T3":
		c.sigs[i] = enc(validPt[i].Add(t3))
	case "non-G1:+Tcofactor":
		c.sigs[i] = enc(validPt[i].Add(tCof))
	case "length-0":
		c.sigs[i] = []byte{}
	case "length-47":
		c.sigs[i] = append([]byte{}, valid[i][:47]...)
	case "length-49":
		c.sigs[i] = append(append([]byte{}, valid[i]...), 0)
	case "identity-key":
		c.idKey[i] = true
	case "identity-signature":
		c.sigs[i] = infSig
	case "identity-key+identity-signature":
		c.idKey[i] = true
		c.sigs[i] = infSig
	default:
		run.Fatal("unknown kind %q", kind)
	}
}

var simpleKinds = []string{"other-G1-point", "negated-signature", "malformed:compression-bit-cleared", "malformed:infinity-flag-on-point",
	"malformed:x>=p", "non-G1:+T3", "non-G1:+Tcofactor", "length-0", "length-47", "length-49",
	"identity-key", "identity-signature", "identity-key+identity-signature"}

func newCase(n int, kind string, S uint) *bcase {
	c := &bcase{n: n, kind: kind, S: S, sigs: make([][]byte, n), idKey: make([]bool, n)}
	for i := 0; i < n; i++ {
		c.sigs[i] = valid[i]
	}
	return c
}

func fill(c *bcase, rest []int, filler string) {
	c.filler = filler
	for q, i := range rest {
		switch filler {
		case "other-G1-point":
			applySimple(c, i, "other-G1-point")
		case "mixed":
			applySimple(c, i, mixedKinds[i%len(mixedKinds)])
		case "pre-marked":
			// entries that the Go layer refuses before the C layer sees the list (wrong length,
			// identity key), whatever their position
			applySimple(c, i, [...]string{"length-47", "identity-key", "length-0"}[q%3])
		}
	}
}

func without(m []int, sub ...int) []int {
	var r []int
	for _, i := range m {
		in := false
		for _, j := range sub {
			if i == j {
				in = true
			}
		}
		if !in {
			r = append(r, i)
		}
	}
	return r
}

// correlated reports whether the invalid signatures of the case are built so that sums of
// them are valid (the cases that are re-run under chosen seed tapes).
func (c *bcase) correlated() bool {
	switch c.kind {
	case "swapped-pair", "cancelling-pair", "cancelling-torsion-pair", "cancelling-triple", "other-signer(rotation-inside-subset)":
		return true
	}
	return false
}

// alone: the correlated error is the only invalidity of the case.
func (c *bcase) alone() bool {
	return c.correlated() && (len(c.sub) == 0 || bits.OnesCount(c.S) == len(c.sub))
}

func buildCases(n int) []*bcase {
	var out []*bcase
	out = append(out, newCase(n, "all-valid", 0))
	for S := uint(1); S < 1<<uint(n); S++ {
		m := members(S, n)
		for _, k := range simpleKinds {
			c := newCase(n, k, S)
			for _, i := range m {
				applySimple(c, i, k)
			}
			out = append(out, c)
		}
		{ // every position of S a different kind
			c := newCase(n, "mixed", S)
			fill(c, m, "mixed")
			c.filler = ""
			out = append(out, c)
		}
		// a valid signature of a different signer
		if len(m) == 1 {
			c := newCase(n, "other-signer(outside-the-list)", S)
			c.sigs[m[0]] = extraS
			out = append(out, c)
			if n > 1 {
				c := newCase(n, "other-signer(neighbour-in-the-list)", S)
				c.sigs[m[0]] = valid[(m[0]+1)%n]
				out = append(out, c)
			}
		} else {
			c := newCase(n, "other-signer(rotation-inside-subset)", S)
			for q, i := range m {
				c.sigs[i] = valid[m[(q+1)%len(m)]]
			}
			out = append(out, c)
		}
		fillers := func(rest []int) []string {
			if len(rest) == 0 {
				return []string{"none"}
			}
			return []string{"other-G1-point", "mixed", "pre-marked"}
		}
		for a := 0; a < len(m); a++ {
			for b := a + 1; b < len(m); b++ {
				i, j := m[a], m[b]
				rest := without(m, i, j)
				for _, f := range fillers(rest) {
					c := newCase(n, "swapped-pair", S)
					c.sub = []int{i, j}
					c.sigs[i], c.sigs[j] = valid[j], valid[i]
					fill(c, rest, f)
					out = append(out, c)
					c = newCase(n, "cancelling-pair", S)
					c.sub = []int{i, j}
					c.sigs[i] = enc(validPt[i].Add(d1))
					c.sigs[j] = enc(validPt[j].Add(d1.Neg()))
					fill(c, rest, f)
					out = append(out, c)
					// the same with an offset OUTSIDE G1: each entry alone fails the membership test,
					// their sum does not (a membership test on a combination of entries is fooled)
					c = newCase(n, "cancelling-torsion-pair", S)
					c.sub = []int{i, j}
					c.sigs[i] = enc(validPt[i].Add(t3))
					c.sigs[j] = enc(validPt[j].Add(t3.Neg()))
					fill(c, rest, f)
					out = append(out, c)
				}
				for d := b + 1; d < len(m); d++ {
					k := m[d]
					rest := without(m, i, j, k)
					for _, f := range fillers(rest) {
						c := newCase(n, "cancelling-triple", S)
						c.sub = []int{i, j, k}
						c.sigs[i] = enc(validPt[i].Add(d1))
						c.sigs[j] = enc(validPt[j].Add(d2))
						c.sigs[k] = enc(validPt[k].Add(d1.Add(d2).Neg()))
						fill(c, rest, f)
						out = append(out, c)
					}
				}
			}
		}
	}
	return out
}

// ---------------------------------------------------------------- evaluation

type replay struct {
	N       int      `json:"n"`
	Kind    string   `json:"kind"`
	Subset  []int    `json:"invalid_positions"`
	Sub     []int    `json:"correlated_positions,omitempty"`
	Filler  string   `json:"filler,omitempty"`
	SKs     []string `json:"sk_hex"`
	KeyRepr []string `json:"key_repr"` // derived | decoded | jacobian | identity-*
	Msg     string   `json:"message_hex"`
	Tag     string   `json:"hasher_tag"`
	Sigs    []string `json:"signatures_hex"`
	Reader  string   `json:"rand_reader"` // real | tape:k=<byte>,base=<hex>
	Expect  []bool   `json:"expected"`
	Got     string   `json:"got"`
	Verify  []bool   `json:"library_verify,omitempty"`
}

type tape struct {
	k     int
	base  byte
	reads int64
	bad   int64 // reads whose length is not a multiple of 16
}

// Read is stateless: the t-th 16-byte seed of every request is `base` in all bytes except
// byte k, which is t+1. Any two seeds of one request therefore differ in exactly byte k.
func (t *tape) Read(p []byte) (int, error) {
	atomic.AddInt64(&t.reads, 1)
	if len(p)%16 != 0 || len(p) == 0 || len(p) > 16*255 {
		atomic.AddInt64(&t.bad, 1)
	}
	for i := range p {
		p[i] = t.base
		if i%16 == t.k {
			p[i] = byte(i/16 + 1)
		}
	}
	return len(p), nil
}

func (t *tape) String() string { return fmt.Sprintf("tape:k=%d,base=%02x", t.k, t.base) }

var verifyCache sync.Map

func (c *bcase) keys() ([]crypto.PublicKey, []string) {
	pks := make([]crypto.PublicKey, c.n)
	rs := make([]string, c.n)
	for i := 0; i < c.n; i++ {
		if c.idKey[i] {
			pks[i], rs[i] = idObj[(i+c.n)%len(idObj)], idRepr[(i+c.n)%len(idObj)]
		} else {
			pks[i], rs[i] = keyObj[i], keyRepr[i]
		}
	}
	return pks, rs
}

func (c *bcase) want() []bool {
	w := make([]bool, c.n)
	for i := range w {
		w[i] = !c.idKey[i] && len(c.sigs[i]) == 48 && bytes.Equal(c.sigs[i], valid[i])
	}
	return w
}

func (c *bcase) replay(reader string, want, got []bool, err error, ver []bool) replay {
	_, rs := c.keys()
	rp := replay{N: c.n, Kind: c.kind, Subset: members(c.S, c.n), Sub: c.sub, Filler: c.filler, KeyRepr: rs, Msg: ev.Hex(msg), Tag: tag,
		Reader: reader, Expect: want, Got: fmt.Sprintf("%v,%v", got, err), Verify: ver}
	for i := 0; i < c.n; i++ {
		if c.idKey[i] {
			rp.SKs = append(rp.SKs, "00")
		} else {
			rp.SKs = append(rp.SKs, ev.Hex(skOf[i].Bytes()))
		}
		rp.Sigs = append(rp.Sigs, ev.Hex(c.sigs[i]))
	}
	return rp
}

type stats struct{ m map[string]int64 }

func (s *stats) add(k string, n int64) {
	if s.m == nil {
		s.m = map[string]int64{}
	}
	s.m[k] += n
}

var (
	gmu   sync.Mutex
	gstat = map[string]int64{}
)

func (s *stats) flush() {
	gmu.Lock()
	for k, v := range s.m {
		gstat[k] += v
	}
	gmu.Unlock()
}

func kindClass(k string) string {
	if strings.HasPrefix(k, "length-vector") {
		return "length-vector"
	}
	r := strings.NewReplacer("(", "-", ")", "", ">=", "-ge-", "+", "plus-", ",", "-")
	return r.Replace(k)
}

// evaluate runs one case once under whatever crypto/rand.Reader is installed.
func evaluate(c *bcase, reader string, withVerify bool, st *stats) {
	pks, _ := c.keys()
	want := c.want()
	sigs := make([]crypto.Signature, c.n)
	for i := range sigs {
		sigs[i] = c.sigs[i]
	}
	got, err := crypto.BatchVerifyBLSSignaturesOneMessage(pks, sigs, msg, newHasher())
	st.add("evaluations", 1)
	rclass := "real-rand"
	if reader != "real" {
		rclass = "seed-tape"
	}
	run.Distinct(c.id() + "/" + rclass)
	var ver []bool
	if withVerify {
		ver = make([]bool, c.n)
		for i := 0; i < c.n; i++ {
			ck := fmt.Sprintf("%d|%v|%x", i, c.idKey[i], c.sigs[i])
			if c.idKey[i] {
				ck = fmt.Sprintf("%d|id%d|%x", i, (i+c.n)%len(idObj), c.sigs[i])
			}
			if v, ok := verifyCache.Load(ck); ok {
				ver[i] = v.(bool)
				continue
			}
			v, verr := pks[i].Verify(c.sigs[i], msg, newHasher())
			st.add("evaluations", 1)
			if verr != nil {
				run.Violation("verify:unexpected-error:"+kindClass(c.kind), fmt.Sprintf("Verify at index %d of case %s returned error %v", i, c.id(), verr), c.replay(reader, want, got, err, nil))
			}
			verifyCache.Store(ck, v)
			ver[i] = v
		}
	}
	if err != nil || len(got) != c.n {
		run.Violation("batch:unexpected-error-or-length:"+kindClass(c.kind)+":"+rclass,
			fmt.Sprintf("BatchVerify on case %s (%s): expected %v, got (%v,%v)", c.id(), reader, want, got, err), c.replay(reader, want, got, err, ver))
		return
	}
	nT := 0
	for i := 0; i < c.n; i++ {
		if got[i] {
			nT++
		}
		if got[i] != want[i] {
			dir := "false-for-valid"
			if got[i] {
				dir = "true-for-invalid"
			}
			run.Violation("batch:"+dir+":"+kindClass(c.kind)+":"+rclass,
				fmt.Sprintf("BatchVerify on case %s (%s): index %d expected %v (reference: signature == sk*H(m), key not identity, length 48), got %v; full result %v", c.id(), reader, i, want[i], got[i], got),
				c.replay(reader, want, got, err, ver))
			break
		}
	}
	if withVerify {
		for i := 0; i < c.n; i++ {
			if ver[i] != want[i] {
				run.Violation("verify:differs-from-reference:"+kindClass(c.kind),
					fmt.Sprintf("pks[%d].Verify on case %s = %v but the reference verdict is %v", i, c.id(), ver[i], want[i]), c.replay(reader, want, got, err, ver))
				break
			}
		}
	}
	st.add(fmt.Sprintf("outcome/%s/n=%d/true=%d", rclass, c.n, nT), 1)
	if strings.HasPrefix(c.kind, "length-vector") {
		st.add("kind/"+rclass+"/length-vector", 1)
	} else {
		st.add("kind/"+rclass+"/"+c.kind, 1)
	}
}

// ---------------------------------------------------------------- error shapes

type sizedHasher struct {
	hash.Hasher
	n int
}

func (s sizedHasher) Size() int { return s.n }

func errorShapes(st *stats, nMax int) {
	seed := make([]byte, 48)
	for i := range seed {
		seed[i] = byte(i + 1)
	}
	var ecdsaKeys []crypto.PublicKey
	for _, alg := range []crypto.SigningAlgorithm{crypto.ECDSAP256, crypto.ECDSASecp256k1} {
		sk, err := crypto.GeneratePrivateKey(alg, seed)
		if err != nil {
			run.Fatal("ECDSA key generation: %v", err)
		}
		ecdsaKeys = append(ecdsaKeys, sk.PublicKey())
	}
	kmac127, err := hash.NewKMAC_128([]byte("verif-C03-kmac-key-0123456789"), []byte("c"), 127)
	if err != nil {
		run.Fatal("%v", err)
	}
	kmac129, _ := hash.NewKMAC_128([]byte("verif-C03-kmac-key-0123456789"), []byte("c"), 129)
	bad := []struct {
		name string
		h    hash.Hasher
	}{{"sha3-256(32)", hash.NewSHA3_256()}, {"kmac(127)", kmac127}, {"kmac(129)", kmac129}, {"valid-kmac-claiming-0", sizedHasher{newHasher(), 0}}}

	type chk struct {
		name string
		pred func(error) bool
	}
	empty := chk{"IsBLSAggregateEmptyListError", crypto.IsBLSAggregateEmptyListError}
	inval := chk{"IsInvalidInputsError", crypto.IsInvalidInputsError}
	nilH := chk{"IsNilHasherError", crypto.IsNilHasherError}
	sizeH := chk{"IsInvalidHasherSizeError", crypto.IsInvalidHasherSizeError}
	notBLS := chk{"IsNotBLSKeyError", crypto.IsNotBLSKeyError}

	lens := map[string]int64{}
	call := func(class string, want chk, pks []crypto.PublicKey, sigs []crypto.Signature, h hash.Hasher) {
		got, err := crypto.BatchVerifyBLSSignaturesOneMessage(pks, sigs, msg, h)
		st.add("evaluations", 1)
		st.add("error-shapes/"+want.name, 1)
		run.Distinct("err/" + class)
		lens[fmt.Sprintf("len(result)==len(sigs):%v", len(got) == len(sigs))]++
		anyTrue := false
		for _, b := range got {
			anyTrue = anyTrue || b
		}
		if !anyTrue && err != nil && want.pred(err) {
			return
		}
		cls := class
		if i := strings.Index(cls, "@"); i >= 0 {
			cls = cls[:i]
		}
		var sh []string
		for _, s := range sigs {
			sh = append(sh, ev.Hex(s))
		}
		run.Violation("batch:error-shape:"+kindClass(cls)+":not-"+want.name,
			fmt.Sprintf("BatchVerify on input-error shape %s: expected (all false, %s), got (%v,%v)", class, want.name, got, err),
			map[string]any{"class": class, "n_keys": len(pks), "signatures_hex": sh, "message_hex": ev.Hex(msg), "expected": "(all false," + want.name + ")", "got": fmt.Sprintf("%v,%v", got, err)})
	}
	base := func(n int) ([]crypto.PublicKey, []crypto.Signature) {
		pks := make([]crypto.PublicKey, n)
		sigs := make([]crypto.Signature, n)
		for i := 0; i < n; i++ {
			pks[i], sigs[i] = keyObj[i], valid[i]
		}
		return pks, sigs
	}
	call("empty:all-nil", empty, nil, nil, newHasher())
	call("empty:all-empty", empty, []crypto.PublicKey{}, []crypto.Signature{}, newHasher())
	{
		_, sigs := base(3)
		call("empty:keys-only", empty, nil, sigs, newHasher()) // all three signatures are valid ones: every boolean must still be false
	}
	for n := 1; n <= nMax; n++ {
		pks, sigs := base(n)
		if n > 1 {
			call(fmt.Sprintf("length-mismatch:keys-1@n%d", n), inval, pks[:n-1], sigs, newHasher())
		}
		call(fmt.Sprintf("length-mismatch:sigs-1@n%d", n), inval, pks, sigs[:n-1], newHasher())
		if n < maxN {
			p2, s2 := base(n + 1)
			call(fmt.Sprintf("length-mismatch:keys+1@n%d", n), inval, p2, sigs, newHasher())
			call(fmt.Sprintf("length-mismatch:sigs+1@n%d", n), inval, pks, s2, newHasher())
		}
		call(fmt.Sprintf("nil-hasher@n%d", n), nilH, pks, sigs, nil)
		for _, b := range bad {
			call(fmt.Sprintf("wrong-size-hasher:%s@n%d", b.name, n), sizeH, pks, sigs, b.h)
		}
		for i := 0; i < n; i++ {
			for _, ek := range ecdsaKeys {
				pks, sigs := base(n)
				pks[i] = ek
				call(fmt.Sprintf("non-BLS-key:%s@%d/n%d", ek.Algorithm(), i, n), notBLS, pks, sigs, newHasher())
			}
		}
	}
	run.Set("error_shapes_result_length_observed_not_judged", lens)
}

// ---------------------------------------------------------------- replay

func doReplay() {
	b, err := os.ReadFile(run.Replay)
	if err != nil {
		run.Fatal("replay: %v", err)
	}
	var f struct {
		Key    string `json:"key"`
		Replay replay `json:"replay"`
	}
	if err := json.Unmarshal(b, &f); err != nil {
		run.Fatal("replay: %v", err)
	}
	rp := f.Replay
	if rp.N == 0 || len(rp.SKs) != rp.N {
		run.Fatal("replay: not a batch case (input-error shapes are re-run by the normal run)")
	}
	run.Set("rule", "replay of one recorded case; the verdict per index is recomputed from sk_i*H(m)")
	m := ev.UnHex(rp.Msg)
	H := hashPointOf(m, rp.Tag)
	pks := make([]crypto.PublicKey, rp.N)
	sigs := make([]crypto.Signature, rp.N)
	want := make([]bool, rp.N)
	for i := 0; i < rp.N; i++ {
		k := new(big.Int).SetBytes(ev.UnHex(rp.SKs[i]))
		pks[i] = mkKey(k, rp.KeyRepr[i])
		sigs[i] = ev.UnHex(rp.Sigs[i])
		want[i] = k.Sign() != 0 && bytes.Equal(sigs[i], refbls.EncodeG1(H.Mul(k)))
	}
	old := crand.Reader
	if strings.HasPrefix(rp.Reader, "tape:") {
		t := &tape{}
		var base int
		if _, err := fmt.Sscanf(rp.Reader, "tape:k=%d,base=%x", &t.k, &base); err != nil {
			run.Fatal("replay: bad reader %q", rp.Reader)
		}
		t.base = byte(base)
		crand.Reader = t
	}
	got, err := crypto.BatchVerifyBLSSignaturesOneMessage(pks, sigs, m, crypto.NewExpandMsgXOFKMAC128(rp.Tag))
	crand.Reader = old
	ver := make([]bool, rp.N)
	for i := range ver {
		ver[i], _ = pks[i].Verify(sigs[i], m, crypto.NewExpandMsgXOFKMAC128(rp.Tag))
	}
	run.Add("evaluations", int64(1+rp.N))
	run.Distinct("replay/1")
	run.Distinct("replay/2")
	run.Sample(rp)
	fmt.Printf("replay: expected %v, batch (%v,%v), Verify %v\n", want, got, err, ver)
	if err != nil || fmt.Sprint(got) != fmt.Sprint(want) || fmt.Sprint(ver) != fmt.Sprint(want) {
		rp.Expect, rp.Got, rp.Verify = want, fmt.Sprintf("%v,%v", got, err), ver
		run.Violation(f.Key, "replayed case still fails", rp)
	}
	run.Finish()
}

// ---------------------------------------------------------------- main

func main() {
	run = ev.Start("C03", "exploration")
	if err := refbls.SelfTest(); err != nil {
		run.Fatal("refbls self-test: %v", err)
	}
	setup()
	if run.Replay != "" {
		doReplay()
	}
	nMax := 5
	if run.Thorough() {
		nMax = maxN
	}
	phase := map[string]float64{}
	tapeOK := true

	// probe: the harness can own the function's randomness by replacing crypto/rand.Reader
	realReader := crand.Reader
	{
		pt := &tape{k: 3, base: 0x11}
		crand.Reader = pt
		buf := make([]byte, 32)
		_, _ = crand.Read(buf)
		pks := []crypto.PublicKey{keyObj[0], keyObj[1], keyObj[2]}
		sigs := []crypto.Signature{valid[0], valid[1], valid[2]}
		before := atomic.LoadInt64(&pt.reads)
		_, _ = crypto.BatchVerifyBLSSignaturesOneMessage(pks, sigs, msg, newHasher())
		crand.Reader = realReader
		want := bytes.Repeat([]byte{0x11}, 32)
		want[3], want[19] = 1, 2
		if !bytes.Equal(buf, want) {
			run.Fatal("replacing crypto/rand.Reader has no effect in this toolchain (probe: buf=%x)", buf)
		}
		if atomic.LoadInt64(&pt.reads) != before+1 || pt.bad != 0 {
			// the function draws its randomness differently from "one read of 16 bytes per entry": that is
			// not wrong, but the chosen-seed tapes below are laid out for that pattern. They are not
			// applied then (reported, exhaustive:false); everything under the real reader still runs.
			tapeOK = false
			run.Set("seed_tapes_not_applicable", fmt.Sprintf("BatchVerifyBLSSignaturesOneMessage made %d reads of crypto/rand.Reader for one call (%d of unexpected length); the tapes assume one read of 16 bytes per entry", pt.reads-before, pt.bad))
			run.MarkCapped()
		}
	}

	// phase 1: every case under the real crypto/rand, with the library's Verify per index
	t0 := time.Now()
	all := map[int][]*bcase{}
	caseCounts := map[string]int{}
	for n := 1; n <= nMax; n++ {
		all[n] = buildCases(n)
		caseCounts[fmt.Sprintf("n=%d", n)] = len(all[n])
	}
	phase["build-cases"] = time.Since(t0).Seconds()
	t0 = time.Now()
	for n := 1; n <= nMax; n++ {
		cs := all[n]
		ev.Par(len(cs), func(i int) {
			var st stats
			evaluate(cs[i], "real", true, &st)
			st.flush()
		})
	}
	phase["real-rand"] = time.Since(t0).Seconds()
	for n := 1; n <= nMax; n++ {
		for _, i := range []int{0, len(all[n]) / 3, len(all[n]) - 1} {
			c := all[n][i]
			if n >= 3 {
				run.Sample(c.replay("real", c.want(), nil, nil, nil))
			}
		}
	}

	// phase 2: chosen seed tapes. The reader is stateless (a pure function of the byte offset
	// inside one request), so the cases of one tape can run on all cores; tapes are installed
	// one after the other. Only seeds that are pairwise DIFFERENT are used.
	t0 = time.Now()
	var tapeCasesA, tapeCasesB []*bcase
	for n := 2; n <= nMax; n++ {
		for _, c := range all[n] {
			if c.alone() {
				tapeCasesA = append(tapeCasesA, c)
			} else if c.correlated() {
				tapeCasesB = append(tapeCasesB, c)
			}
		}
	}
	var tapes []string
	var tapeReads, tapeBad, tapeCalls int64
	runTape := func(t *tape, cs []*bcase) {
		if !tapeOK {
			return
		}
		crand.Reader = t
		ev.Par(len(cs), func(i int) {
			var st stats
			evaluate(cs[i], t.String(), false, &st)
			st.flush()
		})
		crand.Reader = realReader
		tapeReads += t.reads
		tapeBad += t.bad
		tapeCalls += int64(len(cs))
		tapes = append(tapes, t.String())
	}
	for _, base := range []byte{0x00, 0xa7} {
		for k := 0; k < 16; k++ {
			runTape(&tape{k: k, base: base}, tapeCasesA)
		}
	}
	phase["seed-tapes-A"] = time.Since(t0).Seconds()
	t0 = time.Now()
	if run.Thorough() {
		for _, k := range []int{0, 7, 8, 15} {
			runTape(&tape{k: k, base: 0x5c}, tapeCasesB)
		}
	}
	phase["seed-tapes-B"] = time.Since(t0).Seconds()
	// phase 3: lists with REPEATED public keys (all positions one key, adjacent equal keys,
	// alternating keys): the same subset x kind enumeration for n <= 4 (thorough 5) under the real
	// reader, and the stand-alone correlated cases under 4 seed tapes
	t0 = time.Now()
	patN := 4
	if run.Thorough() {
		patN = 5
	}
	var patNames []string
	for name := range keyPatterns {
		patNames = append(patNames, name)
	}
	sort.Strings(patNames)
	patCases := 0
	for _, name := range patNames {
		applyPattern(name)
		var alone []*bcase
		for n := 2; n <= patN && n <= nMax; n++ {
			cs := buildCases(n)
			for _, c := range cs {
				c.pat = name
				if c.alone() {
					alone = append(alone, c)
				}
			}
			patCases += len(cs)
			ev.Par(len(cs), func(i int) {
				var st stats
				evaluate(cs[i], "real", true, &st)
				st.flush()
			})
		}
		for _, k := range []int{0, 7, 8, 15} {
			runTape(&tape{k: k, base: 0x3d}, alone)
		}
	}
	applyPattern("")
	caseCounts["repeated-key-patterns(total)"] = patCases
	phase["repeated-keys"] = time.Since(t0).Seconds()
	crand.Reader = realReader
	if tapeOK && (tapeReads != tapeCalls || tapeBad != 0) {
		run.Fatal("seed tape accounting: %d batch calls but %d reads of crypto/rand.Reader (%d of unexpected length): the tape does not own the randomness", tapeCalls, tapeReads, tapeBad)
	}
	{ // the real reader is back
		a, b := make([]byte, 32), make([]byte, 32)
		_, _ = io.ReadFull(crand.Reader, a)
		_, _ = crand.Read(b)
		if bytes.Equal(a, b) {
			run.Fatal("crypto/rand.Reader was not restored")
		}
	}

	t0 = time.Now()
	longBatches()
	phase["long-batches"] = time.Since(t0).Seconds()
	t0 = time.Now()
	candidateFamily()
	phase["candidate-family"] = time.Since(t0).Seconds()
	t0 = time.Now()
	linearErrors()
	phase["linear-errors"] = time.Since(t0).Seconds()
	t0 = time.Now()
	lengthVectors()
	phase["length-vectors"] = time.Since(t0).Seconds()

	t0 = time.Now()
	var st stats
	errorShapes(&st, nMax)
	st.flush()
	phase["error-shapes"] = time.Since(t0).Seconds()

	outcomes := map[string]int64{}
	kinds := map[string]int64{}
	errShapes := map[string]int64{}
	for k, v := range gstat {
		switch {
		case k == "evaluations":
			run.Add("evaluations", v)
		case strings.HasPrefix(k, "outcome/"):
			outcomes[strings.TrimPrefix(k, "outcome/")] = v
		case strings.HasPrefix(k, "kind/"):
			kinds[strings.TrimPrefix(k, "kind/")] = v
		case strings.HasPrefix(k, "error-shapes/"):
			errShapes[strings.TrimPrefix(k, "error-shapes/")] = v
		}
	}
	run.Set("rule", "n = 1..nMax signers of one message; ALL 2^n subsets S of invalid positions x kinds of invalidity applied to S: "+
		"13 simple kinds (other G1 point, negated, 3 malformed encodings, s+T of order 3 / cofactor, lengths 0/47/49, identity key, identity signature, both), a mix of kinds by position, "+
		"a valid signature of another signer (outside the list, neighbour, cyclic rotation inside S), and for EVERY pair / triple inside S a swapped pair, a cancelling pair s_i+D, s_j-D and a cancelling triple "+
		"(rest of S filled with other G1 points and, separately, with mixed kinds). Keys are held in derived / decoded / Jacobian representations; identity keys in 5 variants (constant, decoded, aggregated public keys, public key of an aggregated private key, RemoveBLSPublicKeys). "+
		"Phase 1: every case under the real crypto/rand plus pks[i].Verify per index. Phase 2 (crypto/rand.Reader replaced by the harness): every correlated case that stands alone in S, "+
		"for each of the 16 seed-byte positions k and 2 filler bytes, under a tape whose seeds differ pairwise in exactly byte k (never equal seeds); thorough also all other correlated cases under 4 tapes. "+
		"Oracle per index: key not identity AND length 48 AND signature == canonical(sk_i*H(m)) (refbls, known discrete logs); the library's Verify must agree too. "+
		"Input-error shapes (empty, length mismatch, nil / wrong-size hasher, ECDSA key at every index) must give all-false and the typed error. A case is distinct by (n, kind, S, pair/triple, filler, reader class).")
	run.Set("n_max", nMax)
	run.Set("cases_per_n", caseCounts)
	run.Set("tape_cases_alone", len(tapeCasesA))
	run.Set("tape_cases_other_correlated", len(tapeCasesB))
	run.Set("tapes", tapes)
	run.Set("tape_reads_equal_batch_calls", tapeReads)
	run.Set("outcomes_by_reader_n_and_number_of_true", outcomes)
	run.Set("cases_by_reader_and_kind", kinds)
	run.Set("error_shapes_by_expected_error", errShapes)
	run.Set("phase_seconds", phase)
	run.Set("distinct_outcomes", len(outcomes))
	ks := make([]string, 0, len(kinds))
	for k := range kinds {
		ks = append(ks, k)
	}
	sort.Strings(ks)
	fmt.Printf("C03 cases per n: %v; tape cases: %d alone x %d tapes, %d others; distinct outcome classes: %d\nC03 phases (s): %v\n", caseCounts, len(tapeCasesA), 32, len(tapeCasesB), len(outcomes), phase)
	run.Assume("refbls (math/big arithmetic, ZCash G1 serialisation) self-tested at start-up",
		"H(m) is the library's signature under the private key 1 (BLST map_to_G1 defines the hash-to-curve image); checked to be a non-trivial G1 point",
		"crypto/rand.Reader is the only source of the function's randomness: verified at start-up and by accounting (one read of 16*n bytes per batch call)",
		"under real randomness and under the chosen tapes a correct implementation fails a case only if a fixed non-trivial linear relation between its coefficients and the harness's independent random scalars holds (probability about 2^-128 or less)",
		"Go toolchain and math/big are trusted")
	run.Finish()
}


// longBatches: list lengths around the powers of two up to 129 (the verification tree splits at
// len/2 and the C layer handles entries in fixed-size groups) under a fixed set of invalid-position
// patterns; per-index verdict = "the entry was left untouched" (real crypto/rand).
func longBatches() {
	lens := []int{8, 9, 15, 16, 17, 31, 32, 33, 64, 65, 128, 129}
	if !run.Thorough() {
		lens = []int{8, 9, 16, 17, 33, 65}
	}
	patterns := []string{"all-valid", "first-invalid", "last-invalid", "middle-invalid", "cancelling-pair-across-the-middle", "cancelling-pair-first-last", "all-invalid", "odd-positions-invalid", "last-malformed", "first-non-G1", "last-non-G1", "middle-identity-key"}
	type job struct {
		n   int
		pat string
	}
	var jobs []job
	for _, n := range lens {
		for _, p := range patterns {
			jobs = append(jobs, job{n, p})
		}
	}
	run.Set("long_batch_lengths", lens)
	run.Set("long_batch_patterns", patterns)
	base := mod(new(big.Int).Add(extraSK, big.NewInt(77777)))
	ev.Par(len(jobs), func(ji int) {
		j := jobs[ji]
		var st stats
		defer st.flush()
		n := j.n
		pks := make([]crypto.PublicKey, n)
		sigs := make([]crypto.Signature, n)
		want := make([]bool, n)
		pts := make([]refbls.G1, n)
		for i := 0; i < n; i++ {
			k := mod(new(big.Int).Add(base, big.NewInt(int64(31*i))))
			pks[i] = libPK(k)
			pts[i] = hPoint.Mul(k)
			sigs[i] = enc(pts[i])
			want[i] = true
		}
		bad := func(i int) { sigs[i], want[i] = enc(pts[i].Add(d1)), false }
		switch j.pat {
		case "first-invalid":
			bad(0)
		case "last-invalid":
			bad(n - 1)
		case "middle-invalid":
			bad(n / 2)
		case "cancelling-pair-across-the-middle":
			sigs[n/2-1], want[n/2-1] = enc(pts[n/2-1].Add(d1)), false
			sigs[n/2], want[n/2] = enc(pts[n/2].Add(d1.Neg())), false
		case "cancelling-pair-first-last":
			sigs[0], want[0] = enc(pts[0].Add(d1)), false
			sigs[n-1], want[n-1] = enc(pts[n-1].Add(d1.Neg())), false
		case "all-invalid":
			for i := range sigs {
				bad(i)
			}
		case "odd-positions-invalid":
			for i := 1; i < n; i += 2 {
				bad(i)
			}
		case "last-malformed":
			sigs[n-1], want[n-1] = withByte0(sigs[n-1], 0x7f, 0), false
		case "first-non-G1":
			sigs[0], want[0] = enc(pts[0].Add(t3)), false
		case "last-non-G1":
			sigs[n-1], want[n-1] = enc(pts[n-1].Add(tCof)), false
		case "middle-identity-key":
			pks[n/2], want[n/2] = idObj[1], false
		}
		got, err := crypto.BatchVerifyBLSSignaturesOneMessage(pks, sigs, msg, newHasher())
		st.add("evaluations", 1)
		st.add("outcome/long/"+j.pat, 1)
		ok := err == nil && len(got) == n
		firstBad := -1
		if ok {
			for i := range got {
				if got[i] != want[i] {
					ok = false
					firstBad = i
					break
				}
			}
		}
		if !ok {
			what := "error-or-length"
			if firstBad >= 0 {
				what = "false-for-valid"
				if !want[firstBad] {
					what = "true-for-invalid"
				}
			}
			run.Violation(fmt.Sprintf("batch:long:%s:%s", what, j.pat),
				fmt.Sprintf("BatchVerifyBLSSignaturesOneMessage on %d entries (%s): err=%v, first wrong index %d", n, j.pat, err, firstBad),
				map[string]any{"length": n, "pattern": j.pat, "first_wrong_index": firstBad, "rule": "sk_i = base + 31*i; signature i = [sk_i]H(m); invalid = +D (a G1 point), cancelling pairs +D/-D", "base_scalar": ev.Hex(refbls.ScalarBytes(base))})
		}
		run.Distinct(fmt.Sprintf("long/%d/%s", n, j.pat))
	})
}


// candidateFamily: the FULL structured candidate family (the one C01/C05 offer to Verify; 957 strings
// around the valid signature) as ONE entry (first, middle or last) of a batch of three: that index is
// true for exactly one string, the other two indices stay true.
func candidateFamily() {
	base := mod(new(big.Int).Add(extraSK, big.NewInt(424242)))
	ks := []*big.Int{base, mod(new(big.Int).Add(base, big.NewInt(7))), mod(new(big.Int).Add(base, big.NewInt(19)))}
	pks := make([]crypto.PublicKey, 3)
	pts := make([]refbls.G1, 3)
	encs := make([][]byte, 3)
	for i, k := range ks {
		pks[i] = libPK(k)
		pts[i] = hPoint.Mul(k)
		encs[i] = enc(pts[i])
	}
	for pos := 0; pos < 3; pos++ {
		pos := pos
		cands := refbls.G1Candidates(pts[pos], hPoint)
		ev.Par(len(cands), func(i int) {
			c := cands[i]
			var st stats
			defer st.flush()
			sigs := []crypto.Signature{encs[0], encs[1], encs[2]}
			sigs[pos] = c.Bytes
			got, err := crypto.BatchVerifyBLSSignaturesOneMessage(pks, sigs, msg, newHasher())
			st.add("evaluations", 1)
			want := []bool{true, true, true}
			want[pos] = bytes.Equal(c.Bytes, encs[pos])
			ok := err == nil && len(got) == 3 && got[0] == want[0] && got[1] == want[1] && got[2] == want[2]
			if !ok {
				cl := c.Name
				if k := strings.IndexByte(cl, '/'); k >= 0 {
					cl = cl[:k]
				}
				run.Violation("batch:family:"+cl, fmt.Sprintf("BatchVerifyBLSSignaturesOneMessage with candidate %s at position %d of 3: %v, %v; want %v", c.Name, pos, got, err, want),
					map[string]any{"candidate": c.Name, "position": pos, "signature": ev.Hex(c.Bytes)})
			}
			run.Distinct(fmt.Sprintf("fam/%d/%s", pos, c.Name))
		})
	}
}


// linearErrors: EVERY error vector with small integer coefficients on one base point: entry i carries
// s_i + a_i*D for every a in {-A..A}^n other than 0 (n = 2..nLin; D an independent G1 point and,
// separately, D = H(m), i.e. the signature of the key sk_i + a_i). A verifier whose per-entry
// coefficients satisfy ANY fixed small-integer linear relation (equal coefficients, an arithmetic
// progression, multiples of the index, a low-degree polynomial in the index ...) accepts the vectors in
// the kernel of that relation although every touched entry fails on its own; index i is true iff a_i = 0.
// Real crypto/rand only: the chosen seed tapes of phase 2 are themselves an arithmetic progression.
func linearErrors() {
	nLin, A := 5, 2
	if run.Thorough() {
		nLin = 6
	}
	base := mod(new(big.Int).Add(extraSK, big.NewInt(90909)))
	bases := []struct {
		name string
		pt   refbls.G1
	}{{"D", d1}, {"H(m)", hPoint}}
	type job struct {
		n, b int
		a    []int
	}
	var jobs []job
	for n := 2; n <= nLin; n++ {
		tot := 1
		for i := 0; i < n; i++ {
			tot *= 2*A + 1
		}
		for v := 0; v < tot; v++ {
			a := make([]int, n)
			x, nz := v, false
			for i := 0; i < n; i++ {
				a[i] = x%(2*A+1) - A
				x /= 2*A + 1
				nz = nz || a[i] != 0
			}
			if !nz {
				continue
			}
			for b := range bases {
				if b > 0 && n == nLin && !run.Thorough() {
					continue // quick: the largest n with the independent base only
				}
				jobs = append(jobs, job{n, b, a})
			}
		}
	}
	// thorough: coefficients up to 3 at n = 4
	if run.Thorough() {
		for v := 0; v < 7*7*7*7; v++ {
			a := make([]int, 4)
			x, big3 := v, false
			for i := 0; i < 4; i++ {
				a[i] = x%7 - 3
				x /= 7
				big3 = big3 || a[i] == 3 || a[i] == -3
			}
			if big3 {
				jobs = append(jobs, job{4, 0, a})
			}
		}
	}
	run.Set("linear_error_vectors", map[string]any{"n_max": nLin, "coefficient_bound": A, "bases": []string{"independent G1 point D", "H(m)"}, "cases": len(jobs)})
	ks := make([]*big.Int, nLin)
	pks := make([]crypto.PublicKey, nLin)
	pts := make([]refbls.G1, nLin)
	for i := range ks {
		ks[i] = mod(new(big.Int).Add(base, big.NewInt(int64(1013*i+5))))
		pks[i] = libPK(ks[i])
		pts[i] = hPoint.Mul(ks[i])
	}
	// multiples -3..3 of each base
	mult := make([]map[int]refbls.G1, len(bases))
	for b := range bases {
		mult[b] = map[int]refbls.G1{}
		for c := -3; c <= 3; c++ {
			if c != 0 {
				mult[b][c] = bases[b].pt.Mul(mod(big.NewInt(int64(c))))
			}
		}
	}
	var encMu sync.Mutex
	encMemo := map[[3]int][]byte{}
	sigOf := func(i, b, c int) []byte {
		encMu.Lock()
		defer encMu.Unlock()
		k := [3]int{i, b, c}
		if e, ok := encMemo[k]; ok {
			return e
		}
		e := enc(pts[i])
		if c != 0 {
			e = enc(pts[i].Add(mult[b][c]))
		}
		encMemo[k] = e
		return e
	}
	ev.Par(len(jobs), func(ji int) {
		j := jobs[ji]
		var st stats
		defer st.flush()
		sigs := make([]crypto.Signature, j.n)
		want := make([]bool, j.n)
		for i := 0; i < j.n; i++ {
			sigs[i] = sigOf(i, j.b, j.a[i])
			want[i] = j.a[i] == 0
		}
		got, err := crypto.BatchVerifyBLSSignaturesOneMessage(pks[:j.n], sigs, msg, newHasher())
		st.add("evaluations", 1)
		nT := 0
		ok := err == nil && len(got) == j.n
		if ok {
			for i := range got {
				if got[i] {
					nT++
				}
				ok = ok && got[i] == want[i]
			}
		}
		st.add(fmt.Sprintf("outcome/linear/n=%d/true=%d", j.n, nT), 1)
		if !ok {
			rp := replay{N: j.n, Kind: fmt.Sprintf("linear-errors:%v*%s", j.a, bases[j.b].name), Msg: ev.Hex(msg), Tag: tag, Reader: "real", Expect: want, Got: fmt.Sprintf("%v,%v", got, err)}
			for i := 0; i < j.n; i++ {
				if j.a[i] != 0 {
					rp.Subset = append(rp.Subset, i)
				}
				rp.SKs = append(rp.SKs, ev.Hex(ks[i].Bytes()))
				rp.KeyRepr = append(rp.KeyRepr, "derived")
				rp.Sigs = append(rp.Sigs, ev.Hex(sigs[i]))
			}
			dir := "true-for-invalid"
			if err != nil || len(got) != j.n {
				dir = "error-or-length"
			} else {
				for i := range got {
					if want[i] && !got[i] {
						dir = "false-for-valid"
					}
				}
			}
			run.Violation("batch:linear-errors:"+dir+":"+bases[j.b].name,
				fmt.Sprintf("BatchVerifyBLSSignaturesOneMessage on %d entries s_i + a_i*%s with a = %v: got (%v,%v), want %v (index i is valid iff a_i = 0)", j.n, bases[j.b].name, j.a, got, err, want), rp)
		}
		run.Distinct(fmt.Sprintf("linear/%d/%d/%v", j.n, j.b, j.a))
	})
}


// lengthVectors: EVERY vector of entry lengths over {48, 0, 47, 49, 96} for n = 1..4 entries, the entries
// cut one after the other from the stream s_0 || s_1 || ... of the valid signatures: wrong lengths that
// compensate each other re-cut into the valid signatures if the list is flattened. Index i is true iff
// entry i is exactly the valid signature of key i.
func lengthVectors() {
	lens := []int{48, 0, 47, 49, 96}
	var cs []*bcase
	for n := 1; n <= 4; n++ {
		tot := 1
		for i := 0; i < n; i++ {
			tot *= len(lens)
		}
		var stream []byte
		for i := 0; i < 2*n+1; i++ {
			stream = append(stream, valid[i%n]...)
		}
		for v := 1; v < tot; v++ {
			c := newCase(n, "", 0)
			x, off := v, 0
			var ls []int
			for i := 0; i < n; i++ {
				l := lens[x%len(lens)]
				x /= len(lens)
				c.sigs[i] = append([]byte{}, stream[off:off+l]...)
				off += l
				ls = append(ls, l)
				if !bytes.Equal(c.sigs[i], valid[i]) {
					c.S |= 1 << uint(i)
				}
			}
			c.kind = fmt.Sprintf("length-vector%v", ls)
			cs = append(cs, c)
		}
	}
	run.Set("length_vector_cases", len(cs))
	ev.Par(len(cs), func(i int) {
		var st stats
		evaluate(cs[i], "real", true, &st)
		st.flush()
	})
}
