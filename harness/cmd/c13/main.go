// C13: SHA2-256/384, SHA3-256/384, legacy Keccak-256 and KMAC128 equal their standards for all
// inputs and chunkings.
//
// Every case is a *history*: a sequence of Write / SumHash / Reset / ComputeHash calls on ONE
// real hasher object, executed next to a reference stream model ("bytes written since the last
// Reset") whose digests come from the independent references refkeccak / refsha2.
//
//	(a) every message length 0..4*rate+1 (+10000, 65537) through ComputeHash, Write+SumHash,
//	    Reset+Write+SumHash, dirty-object ComputeHash, and the one-shot helpers
//	(b) every 2-split of every length <= 3*rate+2 (thorough 4*rate+2) (fresh object and re-used object), 3-splits
//	    over boundary cut points
//	(c) the history tree to depth 5 (thorough 6) over a 10-letter alphabet, pruned by the model
//	(d) KMAC128 key length x customizer length x output size, rejections
//
// The oracle only demands what the C13 statement defines:
//   - ComputeHash(x) = H(x) after any history;
//   - (fresh or Reset) + any split into Writes + one SumHash = H(concatenation);
//   - SHA2/KMAC: SumHash does not end the stream (writing after SumHash continues it);
//   - KMAC: ComputeHash works on a clone, the stream is untouched (documented in kmac.go);
//   - sponges: nothing is demanded of Write/SumHash after SumHash/ComputeHash without Reset
//     (those continuations are pruned); SHA2: nothing is demanded of Write/SumHash after
//     ComputeHash until the next Reset (executed, output not compared).
package main

import (
	"unsafe"
	"bytes"
	"encoding/json"
	"fmt"
	"math"
	"os"
	"sort"
	"strings"
	"sync"

	"github.com/onflow/crypto/hash"

	"verif/harness/ev"
	"verif/harness/ref/refkeccak"
	"verif/harness/ref/refsha2"
)

var run *ev.Run

// ---------------------------------------------------------------- targets

type target struct {
	name   string // sha3-256, sha3-384, keccak-256, sha2-256, sha2-384, kmac128
	rate   int    // sponge rate / SHA2 block size in bytes
	sponge bool   // SHA3 / Keccak: no writing after SumHash/ComputeHash without Reset
	sha2   bool
	kmac   bool
	key    []byte
	cust   []byte
	size   int
	id     string // name plus kmac parameters
}

func (t *target) mk() (hash.Hasher, error) {
	switch t.name {
	case "sha3-256":
		return hash.NewSHA3_256(), nil
	case "sha3-384":
		return hash.NewSHA3_384(), nil
	case "keccak-256":
		return hash.NewKeccak_256(), nil
	case "sha2-256":
		return hash.NewSHA2_256(), nil
	case "sha2-384":
		return hash.NewSHA2_384(), nil
	case "kmac128":
		return hash.NewKMAC_128(t.key, t.cust, t.size)
	}
	return nil, fmt.Errorf("unknown target %q", t.name)
}

func (t *target) ref(msg []byte) []byte {
	switch t.name {
	case "sha3-256":
		return refkeccak.SHA3_256(msg)
	case "sha3-384":
		return refkeccak.SHA3_384(msg)
	case "keccak-256":
		return refkeccak.Keccak256(msg)
	case "sha2-256":
		return refsha2.Sum256(msg)
	case "sha2-384":
		return refsha2.Sum384(msg)
	case "kmac128":
		return refkeccak.KMAC128(t.key, msg, t.size, t.cust)
	}
	panic("unknown target")
}

func newTarget(name string, key, cust []byte, size int) *target {
	t := &target{name: name, key: key, cust: cust, size: size, id: name}
	switch name {
	case "sha3-256", "keccak-256":
		t.rate, t.sponge = 136, true
	case "sha3-384":
		t.rate, t.sponge = 104, true
	case "sha2-256":
		t.rate, t.sha2 = 64, true
	case "sha2-384":
		t.rate, t.sha2 = 128, true
	case "kmac128":
		t.rate, t.kmac = 168, true
		t.id = fmt.Sprintf("kmac128/k%d/c%d/o%d", len(key), len(cust), size)
	default:
		return nil
	}
	return t
}

// kmacAligned: left_encode(168) || encode_string(key) exactly fills cSHAKE128 blocks.
func kmacAligned(key []byte) bool {
	return (len(refkeccak.LeftEncode(168))+len(refkeccak.EncodeString(key)))%168 == 0
}

// ---------------------------------------------------------------- histories and the model

type op struct {
	K byte   // 'W' Write, 'S' SumHash, 'R' Reset, 'C' ComputeHash
	D []byte // data of W / C
}

const (
	mDefined = iota // the property defines the stream content
	mFinal          // sponge after SumHash/ComputeHash: only Reset / ComputeHash are defined
	mUnspec         // SHA2 after ComputeHash: Write/SumHash allowed (docs) but result not defined by C13
)

func allowed(t *target, mode int, k byte) bool {
	if mode == mFinal && (k == 'W' || k == 'S') {
		return false
	}
	return true
}

func nextMode(t *target, mode int, k byte) int {
	switch k {
	case 'R':
		return mDefined
	case 'S':
		if mode == mDefined && t.sponge {
			return mFinal
		}
	case 'C':
		if t.sponge {
			return mFinal
		}
		if t.sha2 {
			return mUnspec
		}
	}
	return mode
}

type failure struct {
	key, what string
	step      int
}

var (
	digMu   sync.Mutex
	digests = map[[8]byte]struct{}{}
)

func noteDigest(d []byte) {
	var k [8]byte
	copy(k[:], d)
	digMu.Lock()
	digests[k] = struct{}{}
	digMu.Unlock()
}

// exec runs one history on one fresh real object next to the model. It returns the first
// failure (nil = the history held) and the number of compared outputs.
func exec(t *target, ops []op) (fl *failure, cmp int) {
	cur := -1
	defer func() {
		// a panic inside a history whose every step is defined by the property is a failure
		// of the property (no digest is returned), not a harness error
		if r := recover(); r != nil {
			if s, ok := r.(string); ok && strings.HasPrefix(s, "harness:") {
				panic(r)
			}
			k := "ctor"
			if cur >= 0 {
				k = map[byte]string{'W': "write", 'S': "sumhash", 'R': "reset", 'C': "computehash"}[ops[cur].K]
			}
			key := t.name + ":panic:" + k
			if t.kmac && kmacAligned(t.key) {
				key = "kmac:bytepad-aligned"
			}
			fl = &failure{key, fmt.Sprintf("%s: panic at step %d: %v", t.id, cur, r), cur}
			cmp++
		}
	}()
	h, err := t.mk()
	if err != nil {
		return &failure{t.name + ":ctor-rejects-valid", "constructor error: " + err.Error(), -1}, 1
	}
	mode := mDefined
	var stream []byte
	fresh, sawSum, sawCH := true, false, false
	flags := func() string {
		s := ""
		if fresh {
			s += ":never-reset"
		}
		if sawSum {
			s += ":after-sumhash"
		}
		if sawCH {
			s += ":after-computehash"
		}
		return s
	}
	mkKey := func(kind string) string {
		if t.kmac && kmacAligned(t.key) {
			return "kmac:bytepad-aligned"
		}
		return t.name + ":" + kind + flags()
	}
	for i, o := range ops {
		cur = i
		if !allowed(t, mode, o.K) {
			panic("harness: pruned continuation executed")
		}
		switch o.K {
		case 'W':
			_, _ = h.Write(o.D)
			if mode == mDefined {
				stream = append(stream, o.D...)
			}
		case 'S':
			got := h.SumHash()
			if mode == mDefined {
				cmp++
				want := t.ref(stream)
				noteDigest(got)
				if !bytes.Equal(got, want) {
					return &failure{mkKey("sumhash"), fmt.Sprintf("%s: SumHash at step %d over a stream of %d bytes = %s, standard says %s", t.id, i, len(stream), short(got), short(want)), i}, cmp
				}
				sawSum = true
			}
		case 'R':
			h.Reset()
			stream = stream[:0]
			fresh, sawSum, sawCH = false, false, false
		case 'C':
			got := h.ComputeHash(o.D)
			cmp++
			want := t.ref(o.D)
			noteDigest(got)
			if !bytes.Equal(got, want) {
				return &failure{mkKey("computehash"), fmt.Sprintf("%s: ComputeHash of %d bytes at step %d = %s, standard says %s", t.id, len(o.D), i, short(got), short(want)), i}, cmp
			}
			sawCH = true
		}
		mode = nextMode(t, mode, o.K)
	}
	return nil, cmp
}

// short prints at most the first 32 bytes of a digest (the replay file has all inputs).
func short(b []byte) string {
	if len(b) <= 32 {
		return fmt.Sprintf("%x", b)
	}
	return fmt.Sprintf("%x...(%d bytes)", b[:32], len(b))
}

type opJSON struct {
	Op   string `json:"op"`
	Len  int    `json:"len"`
	Data string `json:"data_hex"`
}
type replayJSON struct {
	Kind     string   `json:"kind"` // history | oneshot | ctor
	Algo     string   `json:"algo"`
	Key      string   `json:"kmac_key_hex,omitempty"`
	Cust     string   `json:"kmac_customizer_hex,omitempty"`
	Size     int      `json:"kmac_output_size,omitempty"`
	Ops      []opJSON `json:"ops,omitempty"`
	FailStep int      `json:"failing_step"`
	Note     string   `json:"note,omitempty"`
}

func mkReplay(t *target, ops []op, step int) replayJSON {
	r := replayJSON{Kind: "history", Algo: t.name, FailStep: step}
	if t.kmac {
		r.Key, r.Cust, r.Size = ev.Hex(t.key), ev.Hex(t.cust), t.size
	}
	names := map[byte]string{'W': "Write", 'S': "SumHash", 'R': "Reset", 'C': "ComputeHash"}
	for _, o := range ops {
		r.Ops = append(r.Ops, opJSON{names[o.K], len(o.D), ev.Hex(o.D)})
	}
	return r
}

var (
	vMu       sync.Mutex
	vKeys     = map[string]int{}
	vKmacKeys = map[int]int{} // failing KMAC key lengths
)

func noteViolation(key string, t *target) {
	vMu.Lock()
	vKeys[key]++
	if t.kmac {
		vKmacKeys[len(t.key)]++
	}
	vMu.Unlock()
}

// check executes one history and records the outcome.
func check(t *target, ops []op) bool {
	f, n := exec(t, ops)
	run.Add("evaluations", int64(n))
	if f != nil {
		noteViolation(f.key, t)
		run.Violation(f.key, f.what, mkReplay(t, ops, f.step))
		return false
	}
	return true
}

// ---------------------------------------------------------------- deterministic byte material

var pat1, pat2 []byte // stream bytes / ComputeHash bytes

func fill(n int, seed uint64) []byte {
	// xorshift64*: only instantiates message bytes (VERIF_SEED never changes which cases run)
	x := seed*0x9E3779B97F4A7C15 + 0x2545F4914F6CDD1D
	if x == 0 {
		x = 1
	}
	b := make([]byte, n)
	for i := range b {
		x ^= x >> 12
		x ^= x << 25
		x ^= x >> 27
		b[i] = byte((x * 0x2545F4914F6CDD1D) >> 56)
	}
	return b
}

// lenOp is an operation with a length only; materialize attaches the bytes: Write takes the
// next bytes of pat1 at the current stream position, ComputeHash takes a prefix of pat2.
type lenOp struct {
	K byte
	N int
}

func materialize(lops []lenOp) []op {
	pos := 0
	out := make([]op, len(lops))
	for i, l := range lops {
		out[i].K = l.K
		switch l.K {
		case 'W':
			out[i].D = pat1[pos : pos+l.N]
			pos += l.N
		case 'C':
			out[i].D = pat2[:l.N]
		case 'R':
			pos = 0
		}
	}
	return out
}

func W(n int) lenOp { return lenOp{'W', n} }
func C(n int) lenOp { return lenOp{'C', n} }

var S, R = lenOp{'S', 0}, lenOp{'R', 0}

func hs(l ...lenOp) []op { return materialize(l) }

func describe(lops []lenOp) string {
	var sb strings.Builder
	for i, l := range lops {
		if i > 0 {
			sb.WriteByte(' ')
		}
		switch l.K {
		case 'W', 'C':
			fmt.Fprintf(&sb, "%c%d", l.K, l.N)
		default:
			sb.WriteByte(l.K)
		}
	}
	return sb.String()
}

// ---------------------------------------------------------------- main

func main() {
	run = ev.Start("C13", "model_checking")
	if err := refkeccak.SelfTest(); err != nil {
		run.Fatal("%v", err)
	}
	if err := refsha2.SelfTest(); err != nil {
		run.Fatal("%v", err)
	}
	pat1 = fill(70000, uint64(run.Seed)*2+1)
	pat2 = fill(70000, uint64(run.Seed)*2+2)
	if run.Replay != "" {
		replayMode()
		return
	}

	kKey := fill(400, uint64(run.Seed)+77)
	kCust := fill(400, uint64(run.Seed)+99)
	targets := []*target{
		newTarget("sha3-256", nil, nil, 0),
		newTarget("sha3-384", nil, nil, 0),
		newTarget("keccak-256", nil, nil, 0),
		newTarget("sha2-256", nil, nil, 0),
		newTarget("sha2-384", nil, nil, 0),
		newTarget("kmac128", kKey[:32], kCust[:9], 32),
		newTarget("kmac128", kKey[:16], nil, 200), // empty customizer, output longer than one squeeze block
	}
	depth := 5
	splitMul := 3
	if run.Thorough() {
		depth = 6
		splitMul = 4
	}

	run.Set("rule", "Every case is a history of Write/SumHash/Reset/ComputeHash calls executed on ONE real hasher object next to a reference stream model (bytes written since the last Reset; digests from refkeccak/refsha2, byte equality). "+
		"(a') the same message at every address alignment 0..15 (ComputeHash, Write+SumHash, reuse, split writes starting at other alignments, one-shot helper) for 7 lengths around the block boundaries; (a) per algorithm every message length 0..4*rate+1, 10000, 65537 x {fresh ComputeHash, fresh Write+SumHash, Reset+Write+SumHash, used-then-Reset+Write+SumHash, dirty ComputeHash, one-shot helper}; "+
		"(b) every 2-split (every cut 0..L) of every L<=splitMul*rate+2 on a never-reset object and on a used+Reset object, 3-splits with cuts from {0,1,2,rate-2..rate+2,2rate-1..2rate+1} and tails {0,1,rate-1,rate,rate+1}; "+
		"(c) the complete history tree to the given depth over {W0,W1,W(rate-1),W(rate),W(rate+1),SumHash,Reset,C0,C1,C(rate)} from a never-reset object; pruned: sponge Write/SumHash after SumHash/ComputeHash without Reset (docs forbid); SHA2 Write/SumHash after ComputeHash are executed but not compared until Reset (not defined by C13); "+
		"histories are explored as event sequences (no merging of implementation states); states = distinct reference-model states (algorithm, mode, stream length, never-reset flag, SumHash/ComputeHash-seen flags) visited, transitions = edges of the history tree (each executed on the real object), traces = maximal histories executed end-to-end with every defined output compared; "+
		"(d) KMAC128 key lengths 0..400 x customizer lengths x output sizes (all 0..1000 at selected keys, boundary sizes elsewhere), two histories each; short keys/negative sizes must be rejected. "+
		"distinct_nontrivial = distinct (algorithm, history) cases in which a compared digest depends on at least one non-empty input; evaluations = digests compared with the reference (plus rejection checks).")
	run.Set("history_depth", depth)
	run.Set("split_bound_in_rates", splitMul)
	var tnames []string
	for _, t := range targets {
		tnames = append(tnames, fmt.Sprintf("%s(rate %d)", t.id, t.rate))
	}
	run.Set("targets", tnames)

	partA(targets)
	partAlign(targets)
	partAlias(targets)
	partB(targets, splitMul)
	partC(targets, depth)
	partD(kKey, kCust)
	partCtorHistory(kKey, kCust)

	vMu.Lock()
	run.Set("violation_keys", vKeys)
	kl := map[string]int{}
	for k, n := range vKmacKeys {
		kl[fmt.Sprint(k)] = n
	}
	run.Set("failing_kmac_key_lengths", kl)
	vMu.Unlock()
	digMu.Lock()
	run.Set("distinct_digests_observed", len(digests))
	digMu.Unlock()
	run.Assume(
		"references refkeccak (FIPS 202 / SP 800-185 / Keccak pad 0x01) and refsha2 (FIPS 180-4) are correct: self-tested at start on NIST vectors and committed hashlib vectors",
		"message/key/customizer bytes are one fixed pseudo-random pattern per VERIF_SEED; lengths, splits and histories are exhaustive within the stated bounds, byte values are not",
		"only the amd64 build of the Keccak permutation / xor paths present in this binary is exercised (other build configurations: C20)",
	)
	run.Finish()
}

// (a) every length through every entry point
func partA(targets []*target) {
	for _, t := range targets {
		var lens []int
		for l := 0; l <= 4*t.rate+1; l++ {
			lens = append(lens, l)
		}
		lens = append(lens, 10000, 65537)
		ev.Par(len(lens), func(i int) {
			L := lens[i]
			k := L%5 + 1
			hists := [][]lenOp{
				{C(L)},
				{W(L), S},
				{R, W(L), S},
				{W(k), C(L)},
				{W(3), S, R, W(L), S},
				{C(k), R, W(L), S, C(L)},
			}
			if !t.sponge {
				// SHA2/KMAC: SumHash does not end the stream
				hists = append(hists, []lenOp{W(k), S, W(L), S})
			}
			for hi, h := range hists {
				check(t, materialize(h))
				if L > 0 {
					run.Distinct(fmt.Sprintf("a/%s/%d/%d", t.id, L, hi))
				}
			}
			oneShot(t, pat1[:L])
		})
	}
	t := targets[0]
	run.Sample(map[string]any{"part": "a", "algo": t.id, "history": describe([]lenOp{W(3), S, R, W(137), S}), "meaning": "W<n>=Write n bytes, S=SumHash, R=Reset, C<n>=ComputeHash of n bytes"})
}

// (a') the same bytes at every ADDRESS alignment: a digest is a function of the byte values, not
// of where the caller's slice happens to start in memory (word-wise absorb paths read the caller's
// buffer directly when the internal buffer is empty and a full block is available). The message is
// copied to every offset 0..15 of a 16-byte-aligned backing array and pushed through ComputeHash,
// Write+SumHash, split writes whose later chunks start at other alignments, and the one-shot helper.
func partAlign(targets []*target) {
	for _, t := range targets {
		lens := []int{t.rate - 1, t.rate, t.rate + 1, 2 * t.rate, 2*t.rate + 3, 3*t.rate - 1, 4*t.rate + 1}
		type job struct{ L, off int }
		var jobs []job
		for _, L := range lens {
			for off := 0; off < 16; off++ {
				jobs = append(jobs, job{L, off})
			}
		}
		ev.Par(len(jobs), func(i int) {
			j := jobs[i]
			words := make([]uint64, (j.L+16)/8+3)
			backing := unsafe.Slice((*byte)(unsafe.Pointer(&words[0])), len(words)*8)
			if uintptr(unsafe.Pointer(&backing[0]))%8 != 0 {
				run.Fatal("backing array is not 8-byte aligned")
			}
			data := backing[j.off : j.off+j.L]
			copy(data, pat1[:j.L])
			hists := [][]op{
				{{'C', data}},
				{{'W', data}, {'S', nil}},
				{{'W', data[:1]}, {'S', nil}, {'R', nil}, {'W', data}, {'S', nil}},
			}
			for _, c := range []int{1, 3, 8, t.rate} {
				if c < j.L {
					hists = append(hists, []op{{'R', nil}, {'W', data[:c]}, {'W', data[c:]}, {'S', nil}})
				}
			}
			if t.rate+5 < j.L {
				// a first write that fills exactly one block, then a block-sized write from an odd address
				hists = append(hists, []op{{'W', data[:t.rate]}, {'W', data[t.rate : t.rate+5]}, {'W', data[t.rate+5:]}, {'S', nil}})
			}
			for hi, h := range hists {
				check(t, h)
				run.Distinct(fmt.Sprintf("align/%s/%d/%d/%d", t.id, j.L, j.off, hi))
			}
			oneShot(t, data)
		})
	}
	run.Set("alignment_sweep", "every target x lengths {rate-1, rate, rate+1, 2*rate, 2*rate+3, 3*rate-1, 4*rate+1} x address offsets 0..15 x {ComputeHash, Write+SumHash, reuse, 4 split points, block-then-odd-address}")
}

// (a'') buffers belong to whoever holds them: (i) the bytes handed to Write / ComputeHash are read
// at call time - overwriting the caller's buffer afterwards must not change a later digest; (ii) a
// digest returned by SumHash / ComputeHash is a value - it must not change when the hasher is used
// again, and overwriting it must not disturb the hasher.
func partAlias(targets []*target) {
	for _, t := range targets {
		lens := []int{1, 7, t.rate - 1, t.rate, t.rate + 1, 2*t.rate + 3}
		ev.Par(len(lens), func(i int) {
			L := lens[i]
			fail := func(key, what string) {
				noteViolation(t.name+":"+key, t)
				run.Violation(t.name+":"+key, fmt.Sprintf("%s, message length %d: %s", t.id, L, what), replayJSON{Kind: "alias", Algo: t.name, Ops: []opJSON{{key, L, ""}}})
			}
			msg := append([]byte{}, pat1[:L]...)
			want := t.ref(msg)
			other := append([]byte{}, pat2[:L+3]...)
			wantOther := t.ref(other)
			// (i) caller overwrites its input after Write
			h, err := t.mk()
			if err != nil {
				return
			}
			buf := append([]byte{}, msg...)
			_, _ = h.Write(buf)
			for k := range buf {
				buf[k] ^= 0xff
			}
			if got := h.SumHash(); !bytes.Equal(got, want) {
				fail("write-keeps-a-reference-to-the-callers-buffer", "Write(buf); overwrite buf; SumHash() is not the digest of the bytes that were written")
			}
			// (ii) returned digests are values
			h2, _ := t.mk()
			d1 := h2.ComputeHash(msg)
			snap := append([]byte{}, d1...)
			d2 := h2.ComputeHash(other)
			if !bytes.Equal(d1, snap) || !bytes.Equal(d1, want) {
				fail("returned-digest-changed-later", "the digest returned by ComputeHash changed when the hasher computed another one")
			}
			if !bytes.Equal(d2, wantOther) {
				fail("computehash-second-call", "second ComputeHash on the same object differs from the reference")
			}
			for k := range d2 {
				d2[k] ^= 0xa5 // the caller reuses a returned digest as scratch space
			}
			if d3 := h2.ComputeHash(msg); !bytes.Equal(d3, want) {
				fail("disturbed-by-caller-overwriting-a-returned-digest", "ComputeHash differs after the caller overwrote a digest returned earlier")
			}
			h3, _ := t.mk()
			h3.Reset()
			_, _ = h3.Write(msg)
			s1 := h3.SumHash()
			snap1 := append([]byte{}, s1...)
			h3.Reset()
			_, _ = h3.Write(other)
			s2 := h3.SumHash()
			if !bytes.Equal(s1, snap1) || !bytes.Equal(s1, want) {
				fail("returned-digest-changed-later", "the digest returned by SumHash changed when the hasher was reset and used again")
			}
			if !bytes.Equal(s2, wantOther) {
				fail("sumhash-after-reset", "SumHash after Reset and a second message differs from the reference")
			}
			run.Add("evaluations", 6)
			run.Distinct(fmt.Sprintf("alias/%s/%d", t.id, L))
		})
	}
}

func oneShot(t *target, msg []byte) {
	switch t.name {
	case "sha3-256":
		var out [hash.HashLenSHA3_256]byte
		for i := range out {
			out[i] = 0xEE
		}
		hash.ComputeSHA3_256(&out, msg)
		run.Add("evaluations", 1)
		noteDigest(out[:])
		if want := refkeccak.SHA3_256(msg); !bytes.Equal(out[:], want) {
			run.Violation("sha3-256:oneshot", fmt.Sprintf("ComputeSHA3_256 of %d bytes = %x, FIPS 202 says %x", len(msg), out, want),
				replayJSON{Kind: "oneshot", Algo: t.name, Ops: []opJSON{{"ComputeSHA3_256", len(msg), ev.Hex(msg)}}})
		}
	case "sha2-256":
		var out [hash.HashLenSHA2_256]byte
		for i := range out {
			out[i] = 0xEE
		}
		hash.ComputeSHA2_256(&out, msg)
		run.Add("evaluations", 1)
		noteDigest(out[:])
		if want := refsha2.Sum256(msg); !bytes.Equal(out[:], want) {
			run.Violation("sha2-256:oneshot", fmt.Sprintf("ComputeSHA2_256 of %d bytes = %x, FIPS 180-4 says %x", len(msg), out, want),
				replayJSON{Kind: "oneshot", Algo: t.name, Ops: []opJSON{{"ComputeSHA2_256", len(msg), ev.Hex(msg)}}})
		}
	}
}

// (b) splits
func partB(targets []*target, splitMul int) {
	for _, t := range targets {
		maxL := splitMul*t.rate + 2
		ev.Par(maxL+1, func(L int) {
			for a := 0; a <= L; a++ {
				check(t, hs(W(a), W(L-a), S))
				check(t, hs(W(2), S, R, W(a), W(L-a), S))
				if a > 0 && a < L {
					run.Distinct(fmt.Sprintf("b2/%s/%d/%d", t.id, L, a))
				}
			}
		})
		r := t.rate
		cutSet := map[int]bool{}
		for _, c := range []int{0, 1, r - 1, r, r + 1, 2 * r} {
			for d := -1; d <= 1; d++ {
				if c+d >= 0 {
					cutSet[c+d] = true
				}
			}
		}
		var cuts []int
		for c := range cutSet {
			cuts = append(cuts, c)
		}
		sort.Ints(cuts)
		tails := []int{0, 1, r - 1, r, r + 1}
		type sp struct{ a, b, c int }
		var sps []sp
		for _, c1 := range cuts {
			for _, c2 := range cuts {
				if c2 < c1 {
					continue
				}
				for _, tl := range tails {
					sps = append(sps, sp{c1, c2 - c1, tl})
				}
			}
		}
		ev.Par(len(sps), func(i int) {
			s := sps[i]
			check(t, hs(W(s.a), W(s.b), W(s.c), S))
			check(t, hs(C(1), R, W(s.a), W(s.b), W(s.c), S))
			if s.a > 0 && s.b > 0 && s.c > 0 {
				run.Distinct(fmt.Sprintf("b3/%s/%d/%d/%d", t.id, s.a, s.b, s.c))
			}
		})
		run.Set("splits3_per_algorithm/"+t.id, len(sps))
	}
	run.Sample(map[string]any{"part": "b", "algo": targets[1].id, "history": describe([]lenOp{W(103), W(105), S}), "note": "2-split of a 208-byte message at cut 103 = rate-1 on a never-reset object"})
	run.Sample(map[string]any{"part": "b", "algo": targets[2].id, "history": describe([]lenOp{C(1), R, W(135), W(2), W(136), S}), "note": "3-split on a used and Reset object"})
}

// (c) history tree
func partC(targets []*target, depth int) {
	type mstate struct {
		mode                 int
		n                    int
		fresh, sawSum, sawCH bool
	}
	totalStates, totalTrans, totalTraces := 0, 0, 0
	perAlgo := map[string]any{}
	for _, t := range targets {
		r := t.rate
		alpha := []lenOp{W(0), W(1), W(r - 1), W(r), W(r + 1), S, R, C(0), C(1), C(r)}
		states := map[mstate]struct{}{}
		var leaves [][]lenOp
		trans := 0
		var dfs func(cur []lenOp, st mstate)
		dfs = func(cur []lenOp, st mstate) {
			states[st] = struct{}{}
			if len(cur) == depth {
				leaves = append(leaves, append([]lenOp{}, cur...))
				return
			}
			for _, a := range alpha {
				if !allowed(t, st.mode, a.K) {
					continue
				}
				ns := st
				switch a.K {
				case 'W':
					if st.mode == mDefined {
						ns.n += a.N
					}
				case 'S':
					if st.mode == mDefined {
						ns.sawSum = true
					}
				case 'R':
					ns.n, ns.fresh, ns.sawSum, ns.sawCH = 0, false, false, false
				case 'C':
					ns.sawCH = true
				}
				ns.mode = nextMode(t, st.mode, a.K)
				if ns.mode != mDefined {
					ns.n = 0 // stream content no longer defined by the property
				}
				trans++
				dfs(append(cur, a), ns)
			}
		}
		dfs(nil, mstate{mDefined, 0, true, false, false})
		ev.Par(len(leaves), func(i int) {
			h := leaves[i]
			check(t, materialize(h))
			nontrivial := false
			wrote := false
			for _, o := range h {
				if (o.K == 'W' || o.K == 'C') && o.N > 0 {
					wrote = true
				}
				if (o.K == 'S' || o.K == 'C') && wrote {
					nontrivial = true
				}
			}
			if nontrivial {
				run.Distinct("c/" + t.id + "/" + describe(h))
			}
		})
		totalStates += len(states)
		totalTrans += trans
		totalTraces += len(leaves)
		perAlgo[t.id] = map[string]int{"model_states": len(states), "tree_edges": trans, "maximal_histories": len(leaves)}
	}
	run.Add("states", int64(totalStates))
	run.Add("transitions", int64(totalTrans))
	run.Add("traces_validated_against_impl", int64(totalTraces))
	run.Set("history_tree", perAlgo)
	t := targets[3]
	run.Sample(map[string]any{"part": "c", "algo": t.id, "history": describe([]lenOp{W(63), S, W(1), S, C(64)}), "note": "SHA2: writing after SumHash continues the stream; ComputeHash independent of it"})
	t = targets[0]
	run.Sample(map[string]any{"part": "c", "algo": t.id, "history": describe([]lenOp{W(135), C(136), R, W(137), S}), "note": "sponge: ComputeHash on a part-filled never-reset object, Reset, fast path with remainder"})
}

// (d) KMAC parameters
func partD(kKey, kCust []byte) {
	var custLens []int
	for c := 0; c <= 40; c++ {
		custLens = append(custLens, c)
	}
	// 157 and 325: bytepad(encode_string("KMAC")||encode_string(S)) exactly fills blocks
	custLens = append(custLens, 156, 157, 158, 168, 200, 325)
	bsizes := []int{0, 1, 32, 167, 168, 169, 1000}
	if run.Thorough() {
		bsizes = []int{0, 1, 2, 15, 16, 31, 32, 33, 48, 64, 167, 168, 169, 335, 336, 337, 504, 505, 999, 1000}
	}
	run.Set("kmac_customizer_lengths", custLens)
	run.Set("kmac_boundary_sizes", bsizes)
	run.Set("kmac_key_lengths", "0..400")
	var rejected, accepted int64
	var mu sync.Mutex
	ev.Par(401, func(kl int) {
		key := kKey[:kl]
		var rej, acc int64
		for _, cl := range custLens {
			cust := kCust[:cl]
			for _, sz := range bsizes {
				t := newTarget("kmac128", key, cust, sz)
				if kl < 16 {
					_, err := t.mk()
					run.Add("evaluations", 1)
					rej++
					if err == nil {
						run.Violation("kmac:short-key-accepted", fmt.Sprintf("NewKMAC_128 accepts a %d-byte key", kl),
							replayJSON{Kind: "ctor", Algo: "kmac128", Key: ev.Hex(key), Cust: ev.Hex(cust), Size: sz})
					}
					continue
				}
				acc++
				check(t, hs(C(41), W(20), W(21), S, S))
				check(t, hs(S, C(0), R, S, W(169), S))
				if sz > 0 {
					run.Distinct(fmt.Sprintf("d/k%d/c%d/o%d", kl, cl, sz))
				}
			}
		}
		mu.Lock()
		rejected += rej
		accepted += acc
		mu.Unlock()
	})
	// every output size 0..1000 at selected keys
	type kc struct{ k, c int }
	full := []kc{{32, 9}}
	if run.Thorough() {
		full = []kc{{16, 0}, {32, 9}, {164, 157}, {400, 40}}
	}
	for _, f := range full {
		ev.Par(1001, func(sz int) {
			t := newTarget("kmac128", kKey[:f.k], kCust[:f.c], sz)
			check(t, hs(C(41), W(20), W(21), S, W(1), S))
			if sz > 0 {
				run.Distinct(fmt.Sprintf("d-size/k%d/c%d/o%d", f.k, f.c, sz))
			}
		})
	}
	run.Set("kmac_all_sizes_0_1000_at", fmt.Sprint(full))
	// negative sizes, nil key
	for _, kl := range []int{0, 15, 16, 32, 163, 400} {
		for _, cl := range []int{0, 9, 157} {
			for _, sz := range []int{-1, -2, -32, -1000, math.MinInt64} {
				h, err := hash.NewKMAC_128(kKey[:kl], kCust[:cl], sz)
				run.Add("evaluations", 1)
				rejected++
				if err == nil || h != nil {
					run.Violation("kmac:negative-size-accepted", fmt.Sprintf("NewKMAC_128 with output size %d: err=%v", sz, err),
						replayJSON{Kind: "ctor", Algo: "kmac128", Key: ev.Hex(kKey[:kl]), Cust: ev.Hex(kCust[:cl]), Size: sz})
				}
			}
		}
	}
	if _, err := hash.NewKMAC_128(nil, nil, 32); err == nil {
		run.Violation("kmac:short-key-accepted", "NewKMAC_128 accepts a nil key", replayJSON{Kind: "ctor", Algo: "kmac128", Size: 32})
	}
	run.Set("kmac_instances_accepted", accepted)
	run.Set("kmac_parameter_sets_rejected", rejected)
	run.Sample(map[string]any{"part": "d", "algo": "kmac128", "key_len": 163, "customizer_len": 0, "output_size": 32, "history": describe([]lenOp{C(41), W(20), W(21), S, S}), "key_hex": ev.Hex(kKey[:163])})
}

// ---------------------------------------------------------------- replay of one recorded case

func replayMode() {
	raw, err := os.ReadFile(run.Replay)
	if err != nil {
		run.Fatal("cannot read replay: %v", err)
	}
	var file struct {
		Replay replayJSON `json:"replay"`
	}
	if err := json.Unmarshal(raw, &file); err != nil {
		run.Fatal("cannot parse replay: %v", err)
	}
	rp := file.Replay
	run.Set("rule", "replay of one recorded case")
	switch rp.Kind {
	case "history":
		t := newTarget(rp.Algo, ev.UnHex(rp.Key), ev.UnHex(rp.Cust), rp.Size)
		if t == nil {
			run.Fatal("unknown algo %q", rp.Algo)
		}
		var ops []op
		for _, o := range rp.Ops {
			ops = append(ops, op{o.Op[0], ev.UnHex(o.Data)})
		}
		check(t, ops)
	case "oneshot":
		t := newTarget(rp.Algo, nil, nil, 0)
		if t == nil || len(rp.Ops) != 1 {
			run.Fatal("bad oneshot replay")
		}
		oneShot(t, ev.UnHex(rp.Ops[0].Data))
	case "ctor":
		_, err := hash.NewKMAC_128(ev.UnHex(rp.Key), ev.UnHex(rp.Cust), rp.Size)
		run.Add("evaluations", 1)
		if err == nil && (len(ev.UnHex(rp.Key)) < 16 || rp.Size < 0) {
			run.Violation("kmac:invalid-parameters-accepted", "NewKMAC_128 accepted invalid parameters", rp)
		}
	case "ctor-history", "alias":
		// these parts are small: re-run them whole (they report the case again if it is still there)
		kKey := fill(400, uint64(run.Seed)+77)
		kCust := fill(400, uint64(run.Seed)+99)
		if rp.Kind == "ctor-history" {
			partCtorHistory(kKey, kCust)
		} else if t := newTarget(rp.Algo, kKey[:32], kCust[:9], 32); t != nil {
			partAlias([]*target{t})
		}
	default:
		run.Fatal("unknown replay kind %q", rp.Kind)
	}
	run.Sample(rp)
	run.Finish()
}


// partCtorHistory: the key and customizer handed to NewKMAC_128 belong to the caller. ALL sequences of
// three constructions over 16 (key, customizer, size) choices, every construction reading its key and
// customizer from the SAME two buffers, which are refilled in between (same lengths, other lengths,
// empty customizer): each new hasher computes the KMAC of the bytes its constructor was given, and the
// hashers built earlier still compute theirs afterwards (ComputeHash and Reset/Write/SumHash).
func partCtorHistory(kKey, kCust []byte) {
	type choice struct {
		key, cust []byte
		size      int
	}
	var cs []choice
	for _, k := range [][]byte{kKey[:16], kKey[100:116]} {
		for _, c := range [][]byte{kCust[:9], kCust[50:59], kCust[70:75], {}} {
			for _, sz := range []int{32, 128} {
				cs = append(cs, choice{k, c, sz})
			}
		}
	}
	msg := pat1[:41]
	want := make([][]byte, len(cs))
	for i, c := range cs {
		want[i] = refkeccak.KMAC128(c.key, msg, c.size, c.cust)
	}
	n := len(cs)
	ev.Par(n*n, func(ab int) {
		a, b := ab/n, ab%n
		for c := 0; c < n; c++ {
			seq := []int{a, b, c}
			kbuf, cbuf := make([]byte, 16), make([]byte, 16)
			var hs []hash.Hasher
			bad := func(step int, what string) {
				var d []string
				for _, i := range seq[:step+1] {
					d = append(d, fmt.Sprintf("(key#%d,cust %dB#%d,%d)", i/8, len(cs[i].cust), (i/2)%4, cs[i].size))
				}
				t := newTarget("kmac128", cs[seq[step]].key, cs[seq[step]].cust, cs[seq[step]].size)
				noteViolation("kmac128:constructor-history", t)
				run.Violation("kmac128:constructor-keeps-a-reference-to-the-callers-key-or-customizer", fmt.Sprintf("NewKMAC_128 called %d times with key and customizer read from two reused buffers %v: %s", step+1, d, what),
					replayJSON{Kind: "ctor-history", Algo: "kmac128", Ops: []opJSON{{fmt.Sprint(seq), step, ""}}})
			}
			for step, i := range seq {
				copy(kbuf, cs[i].key)
				copy(cbuf, cs[i].cust)
				h, err := hash.NewKMAC_128(kbuf[:16], cbuf[:len(cs[i].cust)], cs[i].size)
				run.Add("evaluations", 1)
				if err != nil {
					bad(step, "constructor error "+err.Error())
					return
				}
				hs = append(hs, h)
				if got := h.ComputeHash(msg); !bytes.Equal(got, want[i]) {
					bad(step, "the new hasher does not compute KMAC128 under the key and customizer it was given")
					return
				}
			}
			// refill the buffers once more, then every hasher built on the way still computes its own function
			for k := range kbuf {
				kbuf[k], cbuf[k] = 0xEE, 0x77
			}
			for step, h := range hs {
				h.Reset()
				_, _ = h.Write(msg)
				if got := h.SumHash(); !bytes.Equal(got, want[seq[step]]) {
					bad(step, "a hasher built earlier changed after the caller refilled the buffers its constructor had read")
					return
				}
			}
			run.Distinct(fmt.Sprintf("ctorhist/%v", seq))
		}
	})
	run.Set("kmac_constructor_histories", n*n*n)
}
