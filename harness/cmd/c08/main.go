// C08: DKG qualification is fair. Exhaustive exploration (all delivery orders x all adversary
// scripts with <= d deviations) of closed systems of real Feldman-VSS-Qual / Joint-Feldman
// instances; monitors on every edge (no honest participant blamed by an honest one) and at
// terminal states (bad dealing => disqualified by everyone); plus all short histories of the
// plain Feldman VSS receiver.
package main

import (
	"time"

	"verif/harness/dkgcheck"
	"verif/harness/ev"
	"verif/harness/ref/refbls"
)

func main() {
	run := ev.Start("C08", "model_checking")
	if err := refbls.SelfTest(); err != nil {
		run.Fatal("%v", err)
	}
	run.Budget(5*time.Minute, 70*time.Minute)
	if run.Replay != "" {
		dkgcheck.ReplayFile(run, "C08")
		return
	}
	dkgcheck.SizeSweep(run, "C08") // cheap, first: never starved by the exploration budget
	dkgcheck.Run(run, "C08", dkgcheck.Jobs(run, "C08"))
	depth := 3
	dkgcheck.PlainVSS(run, 3, 1, 1, 0, depth)
	// receiver at index 0 (evaluation point 1: where coefficient-wise cancellations show)
	dkgcheck.PlainVSS(run, 3, 1, 0, 1, 2)
	if run.Thorough() {
		dkgcheck.PlainVSS(run, 4, 2, 1, 0, depth)
		dkgcheck.PlainVSS(run, 4, 2, 0, 1, depth)
		dkgcheck.PlainVSS(run, 3, 1, 0, 1, depth)
	} else {
		dkgcheck.PlainVSS(run, 4, 2, 1, 0, 2)
		dkgcheck.PlainVSS(run, 4, 2, 0, 1, 2)
	}
	dkgcheck.Describe(run, "C08")
	run.Finish()
}
