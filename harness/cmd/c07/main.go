// C07: DKG agreement and key consistency. Exhaustive exploration (all delivery orders x all
// adversary scripts with <= d deviations) of closed systems of real Feldman-VSS-Qual /
// Joint-Feldman instances; invariant at every terminal state.
package main

import (
	"time"

	"verif/harness/dkgcheck"
	"verif/harness/ev"
	"verif/harness/ref/refbls"
)

func main() {
	run := ev.Start("C07", "model_checking")
	if err := refbls.SelfTest(); err != nil {
		run.Fatal("%v", err)
	}
	run.Budget(5*time.Minute, 70*time.Minute)
	if run.Replay != "" {
		dkgcheck.ReplayFile(run, "C07")
		return
	}
	dkgcheck.SizeSweep(run, "C07") // cheap, first: never starved by the exploration budget
	dkgcheck.Run(run, "C07", dkgcheck.Jobs(run, "C07"))
	dkgcheck.Describe(run, "C07")
	run.Finish()
}
