// C16: proofs of possession are sound and domain separated from every signature.
//
// keys x tags (every prefix, suffix and substring cut of both suite strings, short strings over
// {"B","_","\x00"}, long tags, tags crafted so that tag||SIGsuite overlaps the PoP suite) x
// the cross checks of the property, plus a candidate-PoP family per key. All verdicts are
// computed from known discrete logs with refbls: the PoP of sk is EncodeG1(sk * H_pop(pk))
// where H_pop(x) is the library's signature of x under the private key 1 with a KMAC128 hasher
// built here from the PoP suite string (which also shows black-box that the library's private
// PoP hasher is exactly that suite).
package main

import (
	"os"
	"bytes"
	"fmt"
	"math/big"
	"sort"
	"strings"
	"sync"
	"time"

	crypto "github.com/onflow/crypto"
	"github.com/onflow/crypto/hash"

	"verif/harness/ev"
	"verif/harness/ref/refbls"
)

const (
	popSuite = "BLS_POP_BLS12381G1_XOF:KMAC128_SSWU_RO_POP_"
	sigSuite = "BLS_SIG_BLS12381G1_XOF:KMAC128_SSWU_RO_POP_"
)

var run *ev.Run

func splitmix(x *uint64) uint64 {
	*x += 0x9e3779b97f4a7c15
	z := *x
	z = (z ^ (z >> 30)) * 0xbf58476d1ce4e5b9
	z = (z ^ (z >> 27)) * 0x94d049bb133111eb
	return z ^ (z >> 31)
}

func material(n int, labels ...int) []byte {
	st := uint64(run.Seed)*0x100000001b3 + 0xcbf29ce484222325
	for _, l := range labels {
		st = st*0x100000001b3 ^ uint64(l+1)
		splitmix(&st)
	}
	out := make([]byte, n)
	for i := range out {
		out[i] = byte(splitmix(&st) >> 24)
	}
	return out
}

// popHasher is the PoP expand_message instance rebuilt from the documented suite string.
func popHasher() hash.Hasher {
	h, err := hash.NewKMAC_128([]byte(popSuite), []byte("H2C"), 128)
	if err != nil {
		run.Fatal("NewKMAC_128: %v", err)
	}
	return h
}

type key struct {
	name   string
	sk     *big.Int
	priv   crypto.PrivateKey // nil for identity keys
	pk     crypto.PublicKey
	pkb    []byte
	hpop   refbls.G1 // H_pop(pk.Encode())
	expPop []byte    // EncodeG1(sk*H_pop(pk))
	pop    []byte    // BLSGeneratePOP(sk)
}

var (
	keys []*key
	one  crypto.PrivateKey
)

func hashPoint(msg []byte, h hash.Hasher) refbls.G1 {
	s, err := one.Sign(msg, h)
	if err != nil {
		run.Fatal("Sign under key 1: %v", err)
	}
	p, err := refbls.DecodeG1(s)
	if err != nil || p.Inf {
		run.Fatal("signature under key 1 is not a canonical non-trivial point: %x", s)
	}
	return p
}

func addKey(name string, sk *big.Int, priv crypto.PrivateKey, pk crypto.PublicKey) {
	want := refbls.EncodeG2Flow(refbls.G2Gen().Mul(sk))
	if !bytes.Equal(want, pk.Encode()) {
		run.Fatal("key %s: public key %x is not sk*g2 = %x", name, pk.Encode(), want)
	}
	k := &key{name: name, sk: sk, priv: priv, pk: pk, pkb: pk.Encode()}
	k.hpop = hashPoint(k.pkb, popHasher())
	k.expPop = refbls.EncodeG1(k.hpop.Mul(sk))
	keys = append(keys, k)
}

type replay struct {
	Call string `json:"call"`
	Key  string `json:"key_name"`
	Sk   string `json:"sk_discrete_log"`
	Pk   string `json:"pk"`
	Tag  string `json:"tag_hex,omitempty"`
	Msg  string `json:"message,omitempty"`
	Sig  string `json:"signature_or_pop,omitempty"`
	Exp  string `json:"expected"`
	Got  string `json:"got"`
	Note string `json:"note,omitempty"`
}

func (k *key) rep(call string, tag string, msg, sig []byte, exp, got, note string) replay {
	return replay{Call: call, Key: k.name, Sk: ev.Hex(refbls.ScalarBytes(k.sk)), Pk: ev.Hex(k.pkb), Tag: ev.Hex([]byte(tag)), Msg: ev.Hex(msg), Sig: ev.Hex(sig), Exp: exp, Got: got, Note: note}
}

// tagClass is a short structural name of a tag for violation keys (no spaces).
type tagT struct {
	s, class string
}

func buildTags(thorough bool) []tagT {
	seen := map[string]bool{}
	var out []tagT
	add := func(s, class string) {
		if !seen[s] {
			seen[s] = true
			out = append(out, tagT{s, class})
		}
	}
	add("", "empty")
	al := []string{"B", "_", "\x00"}
	for _, a := range al {
		add(a, "short-alphabet")
		for _, b := range al {
			add(a+b, "short-alphabet")
		}
	}
	for si, suite := range []string{popSuite, sigSuite} {
		nm := []string{"pop-suite", "sig-suite"}[si]
		for k := 0; k <= len(suite); k++ {
			add(suite[:k], fmt.Sprintf("%s-prefix", nm))
			add(suite[k:], fmt.Sprintf("%s-suffix", nm))
		}
		// token boundaries: positions just after '_' or ':' (and both ends)
		bound := []int{0}
		for i, c := range suite {
			if c == '_' || c == ':' {
				bound = append(bound, i, i+1)
			}
		}
		bound = append(bound, len(suite))
		for _, i := range bound {
			for _, j := range bound {
				if i < j {
					add(suite[i:j], nm+"-substring")
				}
				if i <= j { // the suite with [i,j) cut out
					add(suite[:i]+suite[j:], nm+"-with-cut")
				}
			}
		}
		if thorough {
			for i := 0; i <= len(suite); i++ {
				for j := i + 1; j <= len(suite); j++ {
					add(suite[i:j], nm+"-substring")
				}
			}
		}
	}
	// crafted overlaps: tag || sigSuite starts like the PoP suite / ends like it / contains it
	crafted := []string{
		popSuite + popSuite, sigSuite + sigSuite, popSuite + sigSuite, sigSuite + popSuite,
		popSuite + "\x00", "\x00" + popSuite, popSuite + "_", "BLS_POP", "BLS_POP_BLS_POP_", "BLS_POP_BLS_SIG_",
		"POP_", "_POP_", "POP_BLS_POP_", "BLS_", "BLS_SIG_", "SIG_", "BLS_POP_BLS12381G1_XOF:KMAC128_SSWU_RO_POP_BLS_SIG_",
		strings.Replace(popSuite, "POP_BLS", "SIG_BLS", 1), strings.Replace(sigSuite, "SIG", "POP", 1),
		strings.TrimSuffix(popSuite, "POP_") + "POP_" + sigSuite, popSuite[:8] + popSuite[:8], popSuite[8:] + popSuite[:8],
		"H2C", "KMAC", "H2C" + popSuite, popSuite + "H2C",
		// the bytes left_encode / encode_string would put in front of the PoP suite as a KMAC key (43 bytes = 344 bits)
		"\x02\x01\x58" + popSuite, "\x01\xa8\x02\x01\x58" + popSuite, "\x02\x01\x58", "\x01\xa8",
	}
	for k := 0; k <= len(popSuite); k += 1 {
		// X || SIGsuite where X makes the key start with PoPsuite[0:k] and continue with the SIG suite tail
		crafted = append(crafted, popSuite[:k]+sigSuite[k:])
	}
	for _, c := range crafted {
		add(c, "crafted-overlap")
	}
	add(strings.Repeat("x", 300), "long-300")
	add(strings.Repeat("\x00", 300), "long-300-zero")
	add(strings.Repeat("t", 120), "kmac-key-block-aligned-163") // tag||suite = 163 bytes: encode_string fills the 168-byte block exactly
	add(strings.Repeat("t", 288), "kmac-key-block-aligned-331")
	return out
}

func flip(b []byte, bit int) []byte {
	o := append([]byte{}, b...)
	o[bit/8] ^= 0x80 >> (bit % 8)
	return o
}

type cand struct {
	name string
	b    []byte
}

// candidates derived from the expected PoP of k.
func candidates(k *key, tors []refbls.G1, torsNames []string) []cand {
	base := k.expPop
	pt := k.hpop.Mul(k.sk)
	var out []cand
	out = append(out, cand{"valid", base})
	for i := 0; i < 384; i++ {
		out = append(out, cand{"bitflip", flip(base, i)})
	}
	out = append(out, cand{"negation", refbls.EncodeG1(pt.Neg())})
	for i, t := range tors {
		out = append(out, cand{"plus-" + torsNames[i], refbls.EncodeG1(pt.Add(t))})
	}
	out = append(out, cand{"plus-g1", refbls.EncodeG1(pt.Add(refbls.G1Gen()))})
	out = append(out, cand{"doubled", refbls.EncodeG1(pt.Add(pt))})
	out = append(out, cand{"identity", refbls.EncodeG1(refbls.G1Inf())})
	inf := refbls.EncodeG1(refbls.G1Inf())
	for _, pos := range []int{1, 24, 47} {
		v := append([]byte{}, inf...)
		v[pos] = 1
		out = append(out, cand{"identity-with-nonzero-byte", v})
	}
	{
		v := append([]byte{}, inf...)
		v[0] |= refbls.FlagSign
		out = append(out, cand{"identity-with-sign-bit", v})
	}
	for _, l := range []int{0, 1, 47, 49, 96} {
		v := make([]byte, l)
		copy(v, base)
		out = append(out, cand{fmt.Sprintf("length-%d", l), v})
	}
	if !pt.Inf {
		// uncompressed 96-byte form x||y
		v := append(pt.X.FillBytes(make([]byte, 48)), pt.Y.FillBytes(make([]byte, 48))...)
		out = append(out, cand{"uncompressed-96", v})
		// non-canonical x+p where it fits in 381 bits
		xp := new(big.Int).Add(pt.X, refbls.P)
		if xp.BitLen() <= 381 {
			v := xp.FillBytes(make([]byte, 48))
			v[0] |= base[0] & 0xe0
			out = append(out, cand{"non-canonical-x+p", v})
		}
		// a coordinate >= p always: x = p (reduces to 0) with the flags of the valid PoP
		v2 := refbls.P.FillBytes(make([]byte, 48))
		v2[0] |= base[0] & 0xe0
		out = append(out, cand{"non-canonical-x=p", v2})
	}
	return out
}

func freshPK(b []byte) crypto.PublicKey {
	pk, err := crypto.DecodePublicKey(crypto.BLSBLS12381, append([]byte{}, b...))
	if err != nil {
		run.Fatal("re-decoding a public key: %v", err)
	}
	return pk
}

func freshSK(b []byte) crypto.PrivateKey {
	sk, err := crypto.DecodePrivateKey(crypto.BLSBLS12381, append([]byte{}, b...))
	if err != nil {
		run.Fatal("re-decoding a private key: %v", err)
	}
	return sk
}

func main() {
	run = ev.Start("C16", "exploration")
	if err := refbls.SelfTest(); err != nil {
		run.Fatal("refbls self-test: %v", err)
	}
	run.Budget(4*time.Minute, 15*time.Minute)
	t0 := time.Now()
	rm1 := new(big.Int).Sub(refbls.R, big.NewInt(1))
	mkPriv := func(s *big.Int) crypto.PrivateKey {
		sk, err := crypto.DecodePrivateKey(crypto.BLSBLS12381, refbls.ScalarBytes(s))
		if err != nil {
			run.Fatal("DecodePrivateKey(%x): %v", s, err)
		}
		return sk
	}
	gen := func(label int) (crypto.PrivateKey, *big.Int) {
		sk, err := crypto.GeneratePrivateKey(crypto.BLSBLS12381, material(48, 1, label))
		if err != nil {
			run.Fatal("GeneratePrivateKey: %v", err)
		}
		return sk, refbls.ScalarFromBytes(sk.Encode())
	}
	one = mkPriv(big.NewInt(1))
	aPriv, a := gen(0)
	bPriv, b := gen(1)
	addKey("1", big.NewInt(1), one, one.PublicKey())
	addKey("r-1", rm1, mkPriv(rm1), mkPriv(rm1).PublicKey())
	addKey("generated-a", a, aPriv, aPriv.PublicKey())
	addKey("generated-b", b, bPriv, bPriv.PublicKey())
	aggPriv, err := crypto.AggregateBLSPrivateKeys([]crypto.PrivateKey{aPriv, bPriv})
	if err != nil {
		run.Fatal("AggregateBLSPrivateKeys: %v", err)
	}
	ab := new(big.Int).Mod(new(big.Int).Add(a, b), refbls.R)
	if refbls.ScalarFromBytes(aggPriv.Encode()).Cmp(ab) != 0 {
		run.Fatal("aggregated private key is not a+b (C04's business): %x", aggPriv.Encode())
	}
	addKey("aggregated-a+b", ab, aggPriv, aggPriv.PublicKey())
	negA := new(big.Int).Sub(refbls.R, a)
	addKey("r-a", negA, mkPriv(negA), mkPriv(negA).PublicKey())
	// the key b held as a non-normalised projective point (as RemoveBLSPublicKeys returns it)
	if agg2, err := crypto.AggregateBLSPublicKeys([]crypto.PublicKey{aPriv.PublicKey(), bPriv.PublicKey()}); err == nil {
		if bj, err := crypto.RemoveBLSPublicKeys(agg2, []crypto.PublicKey{aPriv.PublicKey()}); err == nil {
			addKey("b-projective-from-RemoveBLSPublicKeys", b, bPriv, bj)
		}
	}
	if run.Thorough() {
		addKey("2", big.NewInt(2), mkPriv(big.NewInt(2)), mkPriv(big.NewInt(2)).PublicKey())
		cPriv, c := gen(2)
		dec, err := crypto.DecodePrivateKey(crypto.BLSBLS12381, cPriv.Encode())
		if err != nil {
			run.Fatal("%v", err)
		}
		decPk, err := crypto.DecodePublicKey(crypto.BLSBLS12381, cPriv.PublicKey().Encode())
		if err != nil {
			run.Fatal("%v", err)
		}
		addKey("decoded-c", c, dec, decPk)
	}
	nPriv := len(keys)
	addKey("identity", new(big.Int), nil, crypto.IdentityBLSPublicKey())
	idAgg, err := crypto.AggregateBLSPublicKeys([]crypto.PublicKey{aPriv.PublicKey(), keys[5].pk})
	if err != nil {
		run.Fatal("AggregateBLSPublicKeys: %v", err)
	}
	addKey("identity-as-aggregate-of-a-and-r-a", new(big.Int), nil, idAgg)
	// every other route to an identity public key object
	if zsk, err := crypto.AggregateBLSPrivateKeys([]crypto.PrivateKey{aPriv, mkPriv(negA)}); err == nil {
		addKey("identity-as-public-key-of-aggregated-private-keys-a-and-r-a", new(big.Int), nil, zsk.PublicKey())
	}
	if rk, err := crypto.RemoveBLSPublicKeys(aPriv.PublicKey(), []crypto.PublicKey{aPriv.PublicKey()}); err == nil {
		addKey("identity-as-remove-a-from-a", new(big.Int), nil, rk)
	}

	tags := buildTags(run.Thorough())
	classCount := map[string]int{}
	for _, t := range tags {
		classCount[t.class]++
	}
	var kn []string
	for _, k := range keys {
		kn = append(kn, k.name)
	}
	run.Set("alphabet_keys", kn)
	run.Set("tags", len(tags))
	run.Set("tags_by_class", classCount)
	run.Set("rule", "keys {1, r-1, two generated, aggregated a+b, r-a (thorough: 2, decoded), identity, identity as aggregate} x tags {every string of length <=2 over {B,_,\\x00}, empty, 300-byte tags, KMAC-block-aligned tags, every prefix and suffix of the PoP and SIG suite strings, every substring between token boundaries and every suite with a boundary-delimited piece cut out (thorough: every substring), tags crafted so that tag||SIGsuite overlaps the PoP suite}. "+
		"Per key with a private key: the slices returned by Encode() (public key, private key) and by BLSGeneratePOP are overwritten by the caller, after which BLSGeneratePOP, BLSVerifyPOP of the genuine PoP and Encode() must be unchanged. Per key: BLSGeneratePOP(sk) == EncodeG1(sk*H_pop(pk)) with H_pop from a KMAC128 hasher built here from the PoP suite string; BLSVerifyPOP true under its own key object(s), under every other key and the identity keys exactly as the reference says (false); candidate-PoP family (valid, 384 bit flips, negation, +T of order 3/11/33/cofactor, +g1, doubled, identity encodings, lengths 0/1/47/49/96, uncompressed, x+p, x=p) judged by the reference canonical && in G1 && == sk*H_pop(pk). "+
		"Per (key, tag): Sign(pk.Encode(), NewExpandMsgXOFKMAC128(tag)) must equal sk*H_tag(pk) and must not be accepted by BLSVerifyPOP; the PoP must not verify as a signature of pk.Encode() nor of the other alphabet messages under the tag (reference: H_tag(m) != H_pop(pk)); the 128-byte outputs of the PoP hasher and of the tag hasher differ on a fixed input set. A case is distinct by (check, key, tag or candidate).")

	// ---- per key: PoP generation, verification under every key, candidate family
	tors := []refbls.G1{}
	torsNames := []string{"T3", "T11", "T33", "cofactor-point"}
	for _, o := range []int{3, 11, 33} {
		t, err := refbls.TorsionG1(o)
		if err != nil {
			run.Fatal("%v", err)
		}
		tors = append(tors, t)
	}
	tors = append(tors, refbls.CofactorPointG1())
	for _, k := range keys[:nPriv] {
		pop, err := crypto.BLSGeneratePOP(k.priv)
		run.Add("evaluations", 1)
		run.Distinct("gen/" + k.name)
		if err != nil || !bytes.Equal(pop, k.expPop) {
			run.Violation("BLSGeneratePOP:not-sk*H_pop(pk)-under-the-PoP-suite", fmt.Sprintf("key %s: got %x (%v), reference %x", k.name, pop, err, k.expPop),
				k.rep("BLSGeneratePOP", "", k.pkb, pop, ev.Hex(k.expPop), ev.Hex(pop), "H_pop = KMAC128(key=PoP suite, customizer H2C, 128 bytes) mapped to G1"))
		}
		k.pop = pop
	}
	// returned byte slices belong to the caller: overwriting what Encode() of the public key, of the
	// private key and what BLSGeneratePOP returned must not change what the key objects do afterwards
	for _, k0 := range keys[:nPriv] {
		// on fresh objects of the same key, so that a defect found here does not disturb the other phases
		fpriv, err := crypto.DecodePrivateKey(crypto.BLSBLS12381, k0.priv.Encode())
		if err != nil {
			run.Fatal("re-decoding private key %s: %v", k0.name, err)
		}
		fpk, err := crypto.DecodePublicKey(crypto.BLSBLS12381, k0.pkb)
		if err != nil {
			run.Fatal("re-decoding public key %s: %v", k0.name, err)
		}
		kk := *k0
		kk.priv, kk.pk = fpriv, fpk
		k := &kk
		for _, b := range [][]byte{k.pk.Encode(), k.priv.Encode(), k.priv.PublicKey().Encode()} {
			for i := range b {
				b[i] ^= 0xA5
			}
		}
		p1, err := crypto.BLSGeneratePOP(k.priv)
		if err == nil {
			for i := range p1 {
				p1[i] ^= 0x5A
			}
		}
		p2, err2 := crypto.BLSGeneratePOP(k.priv)
		ok, err3 := crypto.BLSVerifyPOP(k.pk, k.expPop)
		ok2, err4 := crypto.BLSVerifyPOP(k.priv.PublicKey(), k.expPop)
		run.Add("evaluations", 4)
		if err != nil || err2 != nil || !bytes.Equal(p2, k.expPop) {
			run.Violation("BLSGeneratePOP:changes-after-caller-overwrote-returned-bytes", fmt.Sprintf("key %s: after the caller overwrote the slices returned by Encode() and by a first BLSGeneratePOP, BLSGeneratePOP returns %x (%v), reference %x", k.name, p2, err2, k.expPop),
				k.rep("BLSGeneratePOP", "", k.pkb, p2, ev.Hex(k.expPop), ev.Hex(p2), "returned slices overwritten before the call"))
		}
		if err3 != nil || err4 != nil || !ok || !ok2 {
			run.Violation("BLSVerifyPOP:rejects-valid-after-caller-overwrote-returned-bytes", fmt.Sprintf("key %s: after the caller overwrote the slices returned by Encode(), the genuine PoP is rejected (%v,%v / %v,%v)", k.name, ok, err3, ok2, err4),
				k.rep("BLSVerifyPOP", "", k.pkb, k.expPop, "true", fmt.Sprint(ok, ok2), "returned slices overwritten before the call"))
		}
		if !bytes.Equal(k.pk.Encode(), k.pkb) {
			run.Violation("Encode:aliases-internal-state", fmt.Sprintf("key %s: Encode() after the caller overwrote an earlier result differs", k.name),
				k.rep("Encode", "", k.pkb, k.pk.Encode(), ev.Hex(k.pkb), ev.Hex(k.pk.Encode()), ""))
		}
		run.Distinct("alias/" + k.name)
		// the PoP bytes handed to BLSVerifyPOP belong to the caller too: after a verdict, the SAME buffer is
		// refilled and offered again to the same key object - each verdict is that of the bytes then in it
		other := keys[0]
		if other.name == k0.name {
			other = keys[1]
		}
		neg := append([]byte{}, k.expPop...)
		neg[0] ^= 0x20
		fills := []struct {
			name string
			b    []byte
			want bool
		}{{"genuine", k.expPop, true}, {"pop-of-another-key", other.expPop, false}, {"negated", neg, false}, {"zeros", make([]byte, 48), false},
			{"genuine-again", k.expPop, true}, {"bit-flip", append([]byte{k.expPop[0]}, append([]byte{k.expPop[1] ^ 1}, k.expPop[2:]...)...), false}, {"genuine-third", k.expPop, true}}
		for _, obj := range []struct {
			n  string
			pk crypto.PublicKey
		}{{"decoded-key-object", freshPK(k0.pkb)}, {"derived-key-object", freshSK(k0.priv.Encode()).PublicKey()}} { // objects no call has seen yet
			buf := make([]byte, 48)
			var trail []string
			for _, f := range fills {
				copy(buf, f.b)
				got, err := crypto.BLSVerifyPOP(obj.pk, buf)
				run.Add("evaluations", 1)
				trail = append(trail, f.name)
				if err != nil || got != f.want {
					run.Violation("BLSVerifyPOP:verdict-depends-on-earlier-contents-of-the-callers-buffer", fmt.Sprintf("key %s (%s): one 48-byte buffer refilled and offered in turn as %v: the last verdict is (%v,%v), want %v", k.name, obj.n, trail, got, err, f.want),
						k.rep("BLSVerifyPOP", "", k.pkb, buf, fmt.Sprint(f.want), fmt.Sprint(got), "same buffer refilled: "+strings.Join(trail, ", ")))
					break
				}
				if !bytes.Equal(buf, f.b) {
					run.Violation("BLSVerifyPOP:modifies-the-callers-buffer", fmt.Sprintf("key %s: the PoP argument was modified by the call", k.name), k.rep("BLSVerifyPOP", "", k.pkb, buf, ev.Hex(f.b), ev.Hex(buf), ""))
					break
				}
			}
			run.Distinct("refill/" + k.name + "/" + obj.n)
		}
	}
	hist := map[string]int64{}
	var mu sync.Mutex
	type kc struct {
		k *key
		c cand
		i int
	}
	var kcs []kc
	for _, k := range keys {
		for i, c := range candidates(k, tors, torsNames) {
			kcs = append(kcs, kc{k, c, i})
		}
	}
	ev.Par(len(kcs), func(i int) {
		k, c := kcs[i].k, kcs[i].c
		exp := false
		if len(c.b) == 48 && k.sk.Sign() != 0 {
			if p, err := refbls.DecodeG1(c.b); err == nil && bytes.Equal(c.b, k.expPop) && p.InSubgroup() {
				exp = true
			}
		}
		got, err := crypto.BLSVerifyPOP(k.pk, c.b)
		run.Add("evaluations", 1)
		run.Distinct(fmt.Sprintf("cand/%s/%d", k.name, kcs[i].i))
		if err != nil || got != exp {
			run.Violation(fmt.Sprintf("BLSVerifyPOP:candidate-%s:key-%s:expected-%v-got-%v", c.name, k.name, exp, got), fmt.Sprintf("candidate %x: (%v,%v)", c.b, got, err),
				k.rep("BLSVerifyPOP", "", k.pkb, c.b, fmt.Sprint(exp), fmt.Sprintf("%v,%v", got, err), "candidate "+c.name))
		}
		mu.Lock()
		hist[fmt.Sprintf("candidate/%s=>%v", c.name, exp)]++
		mu.Unlock()
	})
	// PoP of key i under key j (every ordered pair, incl. the identity keys as verifiers)
	for _, ki := range keys[:nPriv] {
		for _, kj := range keys {
			exp := kj.sk.Sign() != 0 && bytes.Equal(ki.expPop, kj.expPop)
			got, err := crypto.BLSVerifyPOP(kj.pk, ki.expPop)
			run.Add("evaluations", 1)
			run.Distinct("cross/" + ki.name + "/" + kj.name)
			if err != nil || got != exp {
				run.Violation(fmt.Sprintf("BLSVerifyPOP:pop-of-%s-under-%s:expected-%v-got-%v", ki.name, kj.name, exp, got), fmt.Sprintf("(%v,%v)", got, err),
					kj.rep("BLSVerifyPOP", "", kj.pkb, ki.expPop, fmt.Sprint(exp), fmt.Sprintf("%v,%v", got, err), "PoP made by key "+ki.name))
			}
			hist[fmt.Sprintf("pop-under-key=>%v", exp)]++
		}
	}
	// a second object holding the same public key accepts the PoP too
	for _, k := range keys[:nPriv] {
		pk2, err := crypto.DecodePublicKey(crypto.BLSBLS12381, k.pkb)
		if err != nil {
			run.Fatal("DecodePublicKey of a produced key: %v", err)
		}
		got, err := crypto.BLSVerifyPOP(pk2, k.expPop)
		run.Add("evaluations", 1)
		if err != nil || !got {
			run.Violation("BLSVerifyPOP:decoded-copy-of-the-key:rejected", fmt.Sprintf("key %s: (%v,%v)", k.name, got, err), k.rep("BLSVerifyPOP", "", k.pkb, k.expPop, "true", fmt.Sprintf("%v,%v", got, err), "public key decoded from its encoding"))
		}
	}
	// non-BLS keys
	for ci, alg := range []crypto.SigningAlgorithm{crypto.ECDSAP256, crypto.ECDSASecp256k1} {
		esk, err := crypto.GeneratePrivateKey(alg, material(48, 4, ci))
		if err != nil {
			run.Fatal("%v", err)
		}
		_, e1 := crypto.BLSGeneratePOP(esk)
		v, e2 := crypto.BLSVerifyPOP(esk.PublicKey(), keys[0].expPop)
		run.Add("evaluations", 2)
		if !crypto.IsNotBLSKeyError(e1) || !crypto.IsNotBLSKeyError(e2) || v {
			run.Violation("non-BLS-key:not-IsNotBLSKeyError", fmt.Sprintf("%s: generate err %v, verify (%v,%v)", alg, e1, v, e2), replay{Call: "BLSGeneratePOP/BLSVerifyPOP", Key: alg.String(), Exp: "IsNotBLSKeyError", Got: fmt.Sprint(e1, e2)})
		}
	}
	fmt.Printf("C16 per-key part done at %.1fs: %d keys, %d candidates\n", time.Since(t0).Seconds(), len(keys), len(kcs))

	// ---- per (key, tag)
	fixedInputs := [][]byte{{}, []byte("a"), keys[2].pkb, bytes.Repeat([]byte{0}, 168)}
	popOut := make([][]byte, len(fixedInputs))
	for i, x := range fixedInputs {
		popOut[i] = popHasher().ComputeHash(x)
	}
	type kt struct{ k, t int }
	var kts []kt
	for ti := range tags {
		for ki := range keys {
			kts = append(kts, kt{ki, ti})
		}
	}
	otherMsgs := func(k *key) [][]byte {
		o := keys[0]
		if k == keys[0] {
			o = keys[1]
		}
		return [][]byte{k.pkb, {}, []byte("C16-alphabet-message"), o.pkb, k.expPop}
	}
	ev.Par(len(kts), func(i int) {
		if run.Expired() {
			return
		}
		k, tg := keys[kts[i].k], tags[kts[i].t]
		mk := func() hash.Hasher { return crypto.NewExpandMsgXOFKMAC128(tg.s) }
		lh := map[string]int64{}
		var evals int64
		if kts[i].k == 0 {
			// black-box witness that the two KMAC keys differ: outputs on the fixed inputs
			for xi, x := range fixedInputs {
				evals++
				if bytes.Equal(mk().ComputeHash(x), popOut[xi]) {
					run.Violation("hasher:tag-"+tg.class+":output-equals-PoP-hasher-output", fmt.Sprintf("tag %q input %x", tg.s, x), k.rep("NewExpandMsgXOFKMAC128(tag).ComputeHash", tg.s, x, nil, "differs from the PoP hasher output", "equal", ""))
				}
			}
		}
		hTagPk := hashPoint(k.pkb, mk())
		if k.priv != nil {
			// a signature of the public key bytes under the tag
			sig, err := k.priv.Sign(k.pkb, mk())
			want := refbls.EncodeG1(hTagPk.Mul(k.sk))
			evals++
			if err != nil || !bytes.Equal(sig, want) {
				run.Violation("Sign:pk-bytes-under-tag:not-sk*H_tag(pk)", fmt.Sprintf("key %s tag %q: %x (%v) reference %x", k.name, tg.s, sig, err, want), k.rep("Sign", tg.s, k.pkb, sig, ev.Hex(want), ev.Hex(sig), ""))
			}
			exp := bytes.Equal(want, k.expPop) // only if the two hash-to-curve images coincide
			got, err := crypto.BLSVerifyPOP(k.pk, want)
			evals++
			run.Distinct(fmt.Sprintf("sig-as-pop/%s/%x", k.name, tg.s))
			if err != nil || got || exp {
				run.Violation("domain-separation:tag-"+tg.class+":signature-of-pk-bytes-accepted-as-PoP", fmt.Sprintf("key %s tag %q: BLSVerifyPOP=(%v,%v), bytes equal the PoP: %v", k.name, tg.s, got, err, exp),
					k.rep("BLSVerifyPOP(pk, Sign(pk.Encode(), NewExpandMsgXOFKMAC128(tag)))", tg.s, k.pkb, want, "false", fmt.Sprintf("%v,%v", got, err), ""))
			}
			lh[fmt.Sprintf("sig-as-pop=>%v", got)]++
		}
		// the PoP as a signature under the tag, of the public key bytes and of the other messages
		for mi, m := range otherMsgs(k) {
			hm := hTagPk
			if mi > 0 {
				hm = hashPoint(m, mk())
			}
			exp := k.sk.Sign() != 0 && hm.Equal(k.hpop) // sk*H_tag(m) == sk*H_pop(pk) <=> the images coincide
			got, err := k.pk.Verify(k.expPop, m, mk())
			evals++
			run.Distinct(fmt.Sprintf("pop-as-sig/%s/%x/%d", k.name, tg.s, mi))
			if err != nil || got || exp {
				run.Violation("domain-separation:tag-"+tg.class+":PoP-accepted-as-signature", fmt.Sprintf("key %s tag %q message #%d %x: Verify=(%v,%v), hash-to-curve images coincide: %v", k.name, tg.s, mi, m, got, err, exp),
					k.rep("pk.Verify(PoP, message, NewExpandMsgXOFKMAC128(tag))", tg.s, m, k.expPop, "false", fmt.Sprintf("%v,%v", got, err), ""))
			}
			lh[fmt.Sprintf("pop-as-sig/msg%d=>%v", mi, got)]++
		}
		run.Add("evaluations", evals)
		mu.Lock()
		for a, v := range lh {
			hist[a] += v
		}
		mu.Unlock()
	})
	run.Set("outcome_histogram", hist)
	run.Set("distinct_outcomes", len(hist))
	var ts []string
	for _, t := range tags {
		if t.class == "crafted-overlap" && len(ts) < 6 {
			ts = append(ts, t.s)
		}
	}
	sort.Strings(ts)
	run.Sample(map[string]any{"crafted_tags": ts})
	run.Sample(keys[2].rep("BLSGeneratePOP", "", keys[2].pkb, keys[2].pop, ev.Hex(keys[2].expPop), ev.Hex(keys[2].pop), "PoP equals sk*H_pop(pk)"))
	fmt.Printf("C16 per-(key,tag) part done at %.1fs: %d tags x %d keys\n", time.Since(t0).Seconds(), len(tags), len(keys))
	run.Assume(
		"refbls (math/big curve arithmetic, strict G1 decoder, subgroup test) self-tested at start-up; public keys tied to their discrete logs by comparing encodings with refbls sk*g2",
		"H(x) under a hasher is the library's signature of x under the private key 1 (BLST map_to_G1 defines the hash-to-curve image); the PoP hasher is rebuilt with hash.NewKMAC_128(PoP suite, \"H2C\", 128) (KMAC conformance itself is C13's business)",
		"separation for tags outside the enumerated family rests on the injectivity of tag -> tag||SIG suite and on KMAC128 being collision resistant in its key; this is not enumerated",
	)
	// PoPs of two different keys generated / verified at the same time (scheduler variant; cmd/c12s in C16 mode)
	os.Setenv("C12S_MODE", "c16")
	run.SchedPart("C16_SCHED_BIN", "pop_under_concurrent_pop_calls",
		"two threads, key A (one private-key object, generated / decoded / aggregated, public key not yet computed) and a second key B; all unordered pairs of {BLSGeneratePOP(skA), BLSVerifyPOP(pkA,popA), BLSGeneratePOP(skB), BLSVerifyPOP(pkB,popB), BLSVerifyPOP(pkB,popA)}; all schedules with <= 2 (thorough 3) preemptions over the statement-level scheduling points of the instrumented library; genuine PoPs verify, every call returns what it returns alone",
		"BLS generated: [BLSGeneratePOP(skA)] || [BLSGeneratePOP(skB)]")
	run.Finish()
}
