// C10: DKG instances follow the documented single-use state machine.
// BFS to fixpoint over all API-call sequences (finite alphabet) on real instances, each call
// judged by a reference state machine written from the documentation; rejected calls must
// leave the instance observationally unchanged.
package main

import (
	"encoding/json"
	"fmt"
	"os"
	"strings"

	crypto "github.com/onflow/crypto"

	"verif/harness/dkgsys"
	"verif/harness/ev"
)

type call struct {
	Name  string
	Kind  string // start, timeout, end, fd, hb, hp
	Index int
	Data  []byte
}

// model is the documented state machine.
type model struct {
	Running  bool
	Ended    bool
	Timeouts int
}

type role struct {
	Proto  dkgsys.Protocol
	N, T   int
	Me     int
	Dealer int
	Name   string
}

var run *ev.Run

func errClass(err error) string {
	switch {
	case err == nil:
		return "nil"
	case crypto.IsDKGInvalidStateTransitionError(err):
		return "state"
	case crypto.IsInvalidInputsError(err):
		return "input"
	case crypto.IsDKGFailureError(err):
		return "failure"
	}
	return "other:" + err.Error()
}

// expect returns the set of acceptable error classes of c in model state m and the next model state.
func expect(r role, m model, c call) ([]string, model) {
	qual := r.Proto != dkgsys.FVSS
	inRange := c.Index >= 0 && c.Index < r.N
	switch c.Kind {
	case "start":
		if m.Running {
			return []string{"state"}, m
		}
		m.Running = true
		return []string{"nil"}, m
	case "startshort": // Start with a 31-byte seed: only a dealer needs the seed
		if m.Running {
			return []string{"state"}, m
		}
		if r.Proto == dkgsys.JF || r.Me == r.Dealer {
			return []string{"input"}, m // rejected: must not leave the instance running
		}
		m.Running = true
		return []string{"nil"}, m
	case "timeout":
		if !qual {
			return []string{"nil"}, m // no timeouts in plain Feldman VSS: no-op
		}
		if !m.Running || m.Timeouts >= 2 {
			return []string{"state"}, m
		}
		m.Timeouts++
		return []string{"nil"}, m
	case "end":
		if !m.Running {
			return []string{"state"}, m
		}
		if qual && m.Timeouts < 2 {
			return []string{"state"}, m
		}
		m.Running = false
		m.Ended = true
		return []string{"nil", "failure"}, m
	default: // fd, hb, hp
		if !m.Running {
			return []string{"state"}, m
		}
		if !inRange {
			return []string{"input"}, m
		}
		return []string{"nil"}, m
	}
}

func doCall(nd *dkgsys.Node, c call, seed []byte) (cls string, panicked string) {
	var err error
	panicked = dkgsys.Safe(func() {
		switch c.Kind {
		case "start":
			err = nd.Inst.Start(seed)
		case "startshort":
			err = nd.Inst.Start(seed[:31])
		case "timeout":
			err = nd.Inst.NextTimeout()
		case "end":
			_, _, _, err = nd.Inst.End()
		case "fd":
			err = nd.Inst.ForceDisqualify(c.Index)
		case "hb":
			err = nd.Inst.HandleBroadcastMsg(c.Index, c.Data)
		case "hp":
			err = nd.Inst.HandlePrivateMsg(c.Index, c.Data)
		}
	})
	return errClass(err), panicked
}

// observation of one call: everything a user can see.
func observe(nd *dkgsys.Node, c call, seed []byte) string {
	d0, f0 := len(nd.Rec.Disq), len(nd.Rec.Flag)
	var sb strings.Builder
	if c.Kind == "end" {
		var sk crypto.PrivateKey
		var pk crypto.PublicKey
		var pks []crypto.PublicKey
		var err error
		p := dkgsys.Safe(func() { sk, pk, pks, err = nd.Inst.End() })
		fmt.Fprintf(&sb, "%s|%s|", errClass(err), p)
		if err == nil && p == "" {
			fmt.Fprintf(&sb, "%x|%x|", sk.Encode(), pk.Encode())
			for _, k := range pks {
				fmt.Fprintf(&sb, "%x,", k.Encode())
			}
		}
	} else {
		cls, p := doCall(nd, c, seed)
		fmt.Fprintf(&sb, "%s|%s|", cls, p)
	}
	fmt.Fprintf(&sb, "run=%v|disq=%v|flag=%v|", nd.Inst.Running(), nd.Rec.Disq[d0:], nd.Rec.Flag[f0:])
	for _, m := range nd.Rec.Drain() {
		fmt.Fprintf(&sb, "msg(%d,%x)", m.To, m.Data)
	}
	return sb.String()
}

// equivalent compares the observable behaviour of two instances under all continuations up to depth.
type eqKey struct {
	a, b  [32]byte
	depth int
}

type eqRes struct {
	ok  bool
	why string
}

// equivalent: observational equivalence of two instances under all continuations up to `depth`
// calls. Memoised on (state, state, depth): the continuation tree is a DAG over canonical states.
func equivalent(a, b *dkgsys.Node, alpha []call, seed []byte, depth int, memo map[eqKey]eqRes) (bool, string) {
	ha, hb := a.InstHash(), b.InstHash()
	if ha == hb {
		return true, ""
	}
	if depth == 0 {
		return true, ""
	}
	k := eqKey{ha, hb, depth}
	if r, ok := memo[k]; ok {
		return r.ok, r.why
	}
	ok, why := equivalentUncached(a, b, alpha, seed, depth, memo)
	memo[k] = eqRes{ok, why}
	return ok, why
}

func equivalentUncached(a, b *dkgsys.Node, alpha []call, seed []byte, depth int, memo map[eqKey]eqRes) (bool, string) {
	for _, c := range alpha {
		ca, cb := a.Clone(), b.Clone()
		oa, ob := observe(ca, c, seed), observe(cb, c, seed)
		if oa != ob {
			return false, fmt.Sprintf("%s: %q vs %q", c.Name, oa, ob)
		}
		if ok, why := equivalent(ca, cb, alpha, seed, depth-1, memo); !ok {
			return false, c.Name + " ; " + why
		}
	}
	return true, ""
}

func alphabet(r role) []call {
	// well-formed messages recorded from an honest run with the same seeds
	other := (r.Me + 1) % r.N
	if other == r.Dealer && r.N > 2 {
		other = (r.Me + 2) % r.N
	}
	sender := r.Dealer
	if r.Proto == dkgsys.JF || sender == r.Me {
		sender = other
	}
	var vec, share []byte
	{
		// a real dealer instance at index `sender` produces a vector and the share for r.Me
		p := r.Proto
		d, err := dkgsys.NewNode(p, r.N, r.T, sender, sender)
		if err != nil {
			run.Fatal("%v", err)
		}
		if err := d.Inst.Start(dkgsys.SeedFor(run.Seed, sender)); err != nil {
			run.Fatal("%v", err)
		}
		for _, m := range d.Rec.Drain() {
			if m.Bcast() {
				vec = m.Data
			} else if m.To == r.Me {
				share = m.Data
			}
		}
	}
	complaint := []byte{2, byte(r.Dealer)}
	answer := append([]byte{3, byte(other)}, share[1:]...)
	a := []call{{"Start", "start", 0, nil}, {"Start(31-byte seed)", "startshort", 0, nil}, {"NextTimeout", "timeout", 0, nil}, {"End", "end", 0, nil}}
	// participant indices are stored in a byte by the implementation: values that are in range only
	// modulo 256 (255, 256, 256+dealer, 65536+other) must be refused like any other out-of-range index
	idx := map[string]int{"-1": -1, "self": r.Me, "dealer": r.Dealer, "other": other, "n": r.N, "255": 255, "256": 256, "256+dealer": 256 + r.Dealer, "65536+other": 65536 + other}
	order := []string{"-1", "self", "dealer", "other", "n", "256+dealer"}
	if r.Proto == dkgsys.JF {
		idx["dealer"] = sender
	}
	if r.Proto == dkgsys.JF {
		idx["256+dealer"] = 256 + sender
	}
	for _, k := range []string{"-1", "dealer", "other", "n", "255", "256", "256+dealer", "65536+other"} {
		a = append(a, call{"ForceDisqualify(" + k + ")", "fd", idx[k], nil})
	}
	// every in-range participant index (incl. the instance's own one): "all dealers disqualified"
	// and "own dealing disqualified" are states of their own
	for p := 0; p < r.N; p++ {
		if p != idx["dealer"] && p != idx["other"] {
			a = append(a, call{fmt.Sprintf("ForceDisqualify(#%d)", p), "fd", p, nil})
		}
	}
	// further well-formed-but-unwelcome messages: they move the instance into the states in which a
	// complaint is pending, an answer is stored, a dealer is disqualified
	wrongShare := append([]byte{}, share...)
	wrongShare[len(wrongShare)-1] ^= 1
	badVector := append([]byte{}, vec...)
	badVector[1] &^= 0x80
	complaintOther := []byte{2, byte(other)}
	answerSelf := append([]byte{3, byte(r.Me)}, share[1:]...)
	wrongAnswer := append([]byte{}, answer...)
	wrongAnswer[len(wrongAnswer)-1] ^= 1
	bm := map[string][]byte{"empty": {}, "junk": {9, 1, 2}, "vector": vec, "complaint": complaint, "answer": answer,
		"bad-vector": badVector, "complaint-against-other": complaintOther, "answer-for-self": answerSelf, "wrong-answer": wrongAnswer}
	for _, o := range order {
		kinds := []string{"empty", "junk", "vector", "complaint", "answer"}
		if o == "dealer" || o == "other" {
			kinds = append(kinds, "bad-vector", "complaint-against-other", "answer-for-self", "wrong-answer")
		}
		for _, mn := range kinds {
			a = append(a, call{fmt.Sprintf("HandleBroadcastMsg(%s,%s)", o, mn), "hb", idx[o], bm[mn]})
		}
		pk := []string{"empty", "junk", "share"}
		if o == "dealer" || o == "other" {
			pk = append(pk, "wrong-share")
		}
		for _, mn := range pk {
			d := map[string][]byte{"empty": {}, "junk": {9, 1, 2}, "share": share, "wrong-share": wrongShare}[mn]
			a = append(a, call{fmt.Sprintf("HandlePrivateMsg(%s,%s)", o, mn), "hp", idx[o], d})
		}
	}
	return a
}

type item struct {
	nd   *dkgsys.Node
	m    model
	path []int
}

func explore(r role, maxDepth int) {
	alpha := alphabet(r)
	seed := dkgsys.SeedFor(run.Seed, r.Me)
	fresh := func() *dkgsys.Node {
		nd, err := dkgsys.NewNode(r.Proto, r.N, r.T, r.Me, r.Dealer)
		if err != nil {
			run.Fatal("%v", err)
		}
		return nd
	}
	type key struct {
		h [32]byte
		m model
	}
	root := fresh()
	seen := map[key]bool{{root.InstHash(), model{}}: true}
	frontier := []item{{root, model{}, nil}}
	states, trans, depthReached := 1, 0, 0
	hitCap := false
	outcomes := map[string]int{}
	eqMemo := map[eqKey]eqRes{}
	var validate [][]int
	names := func(p []int) []string {
		var o []string
		for _, i := range p {
			o = append(o, alpha[i].Name)
		}
		return o
	}
	for len(frontier) > 0 {
		it := frontier[0]
		frontier = frontier[1:]
		if len(it.path) > depthReached {
			depthReached = len(it.path)
		}
		if len(it.path) >= maxDepth {
			hitCap = true
			continue
		}
		for ci, c := range alpha {
			if (c.Kind == "start" || c.Kind == "startshort") && it.m.Ended {
				continue // reuse after End is outside the quantifier
			}
			want, nm := expect(r, it.m, c)
			nd := it.nd.Clone()
			cls, pan := doCall(nd, c, seed)
			nd.Rec.Drain()
			trans++
			path := append(append([]int{}, it.path...), ci)
			rep := map[string]any{"protocol": r.Proto.String(), "role": r.Name, "n": r.N, "t": r.T, "me": r.Me, "dealer": r.Dealer, "calls": names(path)}
			outcomes[c.Kind+"->"+strings.SplitN(cls, ":", 2)[0]]++
			if pan != "" {
				run.Violation(fmt.Sprintf("panic:%s:%s", r.Proto, c.Name), fmt.Sprintf("%s %s: %v panics: %s", r.Proto, r.Name, names(path), pan), rep)
				continue
			}
			ok := false
			for _, w := range want {
				if w == cls {
					ok = true
				}
			}
			if !ok {
				run.Violation(fmt.Sprintf("fsm:%s:%s:%s-in-%s:got-%s", r.Proto, r.Name, c.Kind, mstr(it.m), strings.SplitN(cls, ":", 2)[0]),
					fmt.Sprintf("%s %s after %v: %s returned %s, the documented state machine prescribes %v (model state %s)", r.Proto, r.Name, names(it.path), c.Name, cls, want, mstr(it.m)), rep)
				continue
			}
			if nd.Inst.Running() != nm.Running {
				run.Violation(fmt.Sprintf("fsm:%s:%s:running-after-%s-in-%s", r.Proto, r.Name, c.Kind, mstr(it.m)),
					fmt.Sprintf("%s %s after %v: Running()=%v, documented %v", r.Proto, r.Name, names(path), nd.Inst.Running(), nm.Running), rep)
				continue
			}
			if cls == "state" || cls == "input" {
				// a rejected call must not change the observable behaviour
				if okEq, why := equivalent(it.nd, nd, alpha, seed, 3, eqMemo); !okEq {
					run.Violation(fmt.Sprintf("fsm:%s:%s:rejected-%s-interferes", r.Proto, r.Name, c.Kind),
						fmt.Sprintf("%s %s after %v: rejected call %s changes later behaviour: %s", r.Proto, r.Name, names(it.path), c.Name, why), rep)
					continue
				}
				run.Add("rejected_calls_checked_for_noninterference", 1)
			}
			k := key{nd.InstHash(), nm}
			if seen[k] {
				continue
			}
			seen[k] = true
			states++
			frontier = append(frontier, item{nd, nm, path})
			if states%7 == 1 {
				validate = append(validate, path)
			}
			run.Distinct(fmt.Sprintf("%s/%s/%x", r.Proto, r.Name, k.h[:8]))
		}
	}
	// conformance: re-execute a stride of shortest paths on fresh instances without cloning
	for _, p := range validate {
		nd := fresh()
		m := model{}
		for _, ci := range p {
			_, m = expect(r, m, alpha[ci])
			doCall(nd, alpha[ci], seed)
			nd.Rec.Drain()
		}
		if !seen[key{nd.InstHash(), m}] {
			run.Fatal("conformance: clone-free re-execution of %v reaches an unknown state", names(p))
		}
		run.Add("traces_validated_against_impl", 1)
	}
	run.Add("states", int64(states))
	run.Add("transitions", int64(trans))
	run.Set("explored_"+r.Proto.String()+"_"+r.Name, map[string]any{"states": states, "transitions": trans, "alphabet": len(alpha), "max_depth_reached": depthReached, "depth_cap_hit": hitCap, "call_outcomes": outcomes})
	if hitCap {
		run.MarkCapped()
	}
	if r.Name == "non-dealer" && r.Proto == dkgsys.FVSSQ {
		run.Sample(map[string]any{"protocol": r.Proto.String(), "role": r.Name, "calls": names(validate[len(validate)/2])})
	}
}

func mstr(m model) string {
	return fmt.Sprintf("running=%v,ended=%v,timeouts=%d", m.Running, m.Ended, m.Timeouts)
}

// replay re-executes a recorded call sequence on a fresh real instance (no cloning) and compares
// every call with the documented state machine.
func replay(roles []role) {
	b, err := os.ReadFile(run.Replay)
	if err != nil {
		run.Fatal("replay: %v", err)
	}
	var f struct {
		Key    string `json:"key"`
		Replay struct {
			Protocol string   `json:"protocol"`
			Role     string   `json:"role"`
			N        int      `json:"n"`
			T        int      `json:"t"`
			Me       int      `json:"me"`
			Dealer   int      `json:"dealer"`
			Calls    []string `json:"calls"`
		} `json:"replay"`
	}
	if err := json.Unmarshal(b, &f); err != nil {
		run.Fatal("replay: %v", err)
	}
	var r *role
	for i := range roles {
		x := roles[i]
		if x.Proto.String() == f.Replay.Protocol && x.Name == f.Replay.Role && x.N == f.Replay.N && x.T == f.Replay.T && x.Me == f.Replay.Me {
			r = &roles[i]
		}
	}
	if r == nil {
		run.Fatal("replay: unknown role %s/%s", f.Replay.Protocol, f.Replay.Role)
	}
	alpha := alphabet(*r)
	nd, err := dkgsys.NewNode(r.Proto, r.N, r.T, r.Me, r.Dealer)
	if err != nil {
		run.Fatal("%v", err)
	}
	seed := dkgsys.SeedFor(run.Seed, r.Me)
	m := model{}
	for _, name := range f.Replay.Calls {
		var c *call
		for i := range alpha {
			if alpha[i].Name == name {
				c = &alpha[i]
			}
		}
		if c == nil {
			run.Fatal("replay: unknown call %q", name)
		}
		want, nm := expect(*r, m, *c)
		cls, pan := doCall(nd, *c, seed)
		nd.Rec.Drain()
		ok := pan == ""
		if ok {
			ok = false
			for _, w := range want {
				if w == cls {
					ok = true
				}
			}
		}
		fmt.Printf("  %-40s -> %s %s (documented: %v) Running()=%v (documented %v)\n", name, cls, pan, want, nd.Inst.Running(), nm.Running)
		run.Add("transitions", 1)
		if !ok || nd.Inst.Running() != nm.Running {
			run.Violation(f.Key, "replayed call sequence still deviates from the documented state machine at "+name, f.Replay)
			break
		}
		m = nm
	}
	run.Add("states", 1)
	run.Add("traces_validated_against_impl", 1)
	run.Distinct("replay/1")
	run.Distinct("replay/2")
	run.Sample(f.Replay)
	run.Set("rule", "replay of one recorded call sequence")
	run.Finish()
}

func main() {
	run = ev.Start("C10", "model_checking")
	depth := 20
	if run.Thorough() {
		depth = 40
	}
	roles := []role{
		{dkgsys.FVSS, 3, 1, 0, 0, "dealer"},
		{dkgsys.FVSS, 3, 1, 1, 0, "non-dealer"},
		{dkgsys.FVSSQ, 3, 1, 0, 0, "dealer"},
		{dkgsys.FVSSQ, 3, 1, 1, 0, "non-dealer"},
		{dkgsys.JF, 3, 1, 0, 0, "participant0"},
		{dkgsys.JF, 3, 1, 2, 0, "participant2"},
	}
	// (the memoised equivalence check made these affordable in the quick tier as well)
	roles = append(roles, role{dkgsys.FVSSQ, 4, 2, 3, 1, "non-dealer"}, role{dkgsys.JF, 4, 2, 1, 0, "participant1"})
	if run.Thorough() {
		roles = append(roles, role{dkgsys.FVSSQ, 5, 2, 0, 0, "dealer"}, role{dkgsys.FVSS, 4, 2, 2, 0, "non-dealer"}, role{dkgsys.JF, 5, 2, 4, 0, "participant4"})
	}
	if run.Replay != "" {
		all := append(roles, role{dkgsys.FVSSQ, 5, 2, 0, 0, "dealer"}, role{dkgsys.FVSS, 4, 2, 2, 0, "non-dealer"}, role{dkgsys.JF, 5, 2, 4, 0, "participant4"})
		replay(all)
		return
	}
	ev.Par(len(roles), func(i int) { explore(roles[i], depth) })
	run.Set("rule", "per (protocol, role): BFS from a fresh real instance over the call alphabet {Start(valid seed), Start(31-byte seed), NextTimeout, End, ForceDisqualify(every index 0..n-1 incl. its own|-1|n|255|256|256+dealer|65536+other), HandleBroadcastMsg/HandlePrivateMsg(origin in {-1,self,dealer,other,n,256+dealer} x message in {empty, junk tag, recorded well-formed vector/complaint/answer/share; from the dealer and another participant also: vector with a cleared flag bit, complaint against another participant, answer for the instance itself, wrong-valued answer, wrong-valued share})}; successor = deep clone + real call; states deduplicated by (canonical hash of every instance field, model state); explored to fixpoint below the depth cap (depth_cap_hit reports whether the cap cut anything). Each call's error class and Running() are compared with the documented state machine; every rejected call is checked for non-interference (equal canonical state, else all continuations to depth 3). distinct_nontrivial = distinct reachable (instance state) classes.")
	run.Set("depth_cap", depth)
	run.Assume("reuse after End (Start after End) is outside the quantifier", "well-formed messages come from an honest dealer run with the same parameters")
	run.Finish()
}
