// C15: the sampling helpers of random/rand.go are in range, valid and exactly uniform in the
// PRG's bytes.
//
// The PRG core (genericPRG.randCore) of a real *chachaPRG is replaced, through reflect+unsafe,
// by a byte TAPE controlled by the enumerator: the random source becomes an environment whose
// answers are enumerated exhaustively. Reading past the end of a tape yields zero bytes and
// sets a flag, so "tape x followed by zeros" and "the call wanted more bytes" are both
// observable. Nothing of the implementation is re-computed except where stated (U3).
//
//	U1  UintN(n), every n <= N and n in {2^k, 2^k+-1}: ALL first-attempt byte strings when the
//	    attempt is <= 2 bytes: result < n; an attempt is accepted iff exactly one Read happened;
//	    every value of [0,n) is produced by exactly the same number (>=1) of accepted strings.
//	U2  rejected attempt(s) followed by attempt y behave exactly like y alone (1 and 2 rejections).
//	U3  n > 2^16 (attempt of 3..8 bytes): all 256 top bytes x corner values of the lower bytes;
//	    there must be ONE width B, bitlen(n-1) <= B <= 8*size, such that every observation is
//	    "v = LE(tape) mod 2^B; accepted iff v < n; result v" (any such sampler is exactly uniform).
//	U4  result independent of stale bytes left in the internal buffer by an earlier call.
//	P   Permutation / SubPermutation / Shuffle / Samples, all n <= 8 (quick 6), all m <= n: DFS over
//	    the whole tape tree (one representative byte per class of bytes UintN cannot distinguish
//	    for n <= 8, the class structure itself is measured on all 256 bytes), all tapes that
//	    consume at most minimal+2 bytes: outputs valid; for every consumed length the number of
//	    tapes per outcome is the same for all n!/(n-m)! outcomes.
//	E   negative / inconsistent sizes give an error.  S  equal seeds give equal outputs (real PRG).
package main

import (
	"bytes"
	"encoding/binary"
	"encoding/json"
	"fmt"
	"math"
	"math/bits"
	"os"
	"reflect"
	"sort"
	"strings"
	"sync"
	"sync/atomic"
	"time"
	"unsafe"

	"github.com/onflow/crypto/random"

	"verif/harness/ev"
)

var run *ev.Run

// ---------------------------------------------------------------- the tape

type tape struct {
	data      []byte
	pos       int
	reads     int  // number of Read calls
	want      int  // total number of bytes requested
	over      bool // a Read went past the end of data (zeros were served)
	maxRd     int  // largest single request
	zeroReads int  // reads served entirely after the tape ran out
	extraZero int  // legitimate number of draws of the call under test (a permutation of n draws n times)
}

// guarded runs f and reports whether the tape raised livelock.
func guarded(f func()) (hung bool) {
	defer func() {
		if r := recover(); r != nil {
			if _, ok := r.(livelock); ok {
				hung = true
				return
			}
			// a panic of the LIBRARY inside a sampling call (e.g. an index derived from an
			// out-of-range draw): a finding, not a harness failure. The call did not complete.
			msg := fmt.Sprint(r)
			if len(msg) > 120 {
				msg = msg[:120]
			}
			viol("panic:sampling-call", "a sampling call panicked: "+msg, replay{Kind: "panic", Note: msg})
			hung = true
		}
	}()
	f()
	return false
}

// livelock is raised by the tape when one library call keeps reading after the tape has run
// out: the continuation is all zeros, and the value 0 is below every n, so a sampler that
// still asks for more after maxZeroReads further reads will never return on this source.
type livelock struct{}

const maxZeroReads = 64

func (t *tape) Read(b []byte) {
	t.reads++
	if t.over || len(b) == 0 {
		t.zeroReads++
		if t.zeroReads > maxZeroReads+t.extraZero {
			panic(livelock{})
		}
	}
	t.want += len(b)
	if len(b) > t.maxRd {
		t.maxRd = len(b)
	}
	n := 0
	if t.pos < len(t.data) {
		n = copy(b, t.data[t.pos:])
		t.pos += n
	}
	if n < len(b) {
		t.over = true
		for i := n; i < len(b); i++ {
			b[i] = 0
		}
	}
}

type rig struct {
	p  random.Rand
	tp *tape
}

// newRig builds a real ChaCha20 PRG object and swaps its core for a tape.
func newRig() *rig {
	p, err := random.NewChacha20PRG(make([]byte, random.Chacha20SeedLen), nil)
	if err != nil {
		run.Fatal("NewChacha20PRG: %v", err)
	}
	g := reflect.ValueOf(p).Elem().FieldByName("genericPRG")
	if !g.IsValid() {
		run.Fatal("chachaPRG has no field genericPRG: instrumentation anchor lost")
	}
	f := g.FieldByName("randCore")
	if !f.IsValid() || f.Kind() != reflect.Interface {
		run.Fatal("genericPRG has no interface field randCore: instrumentation anchor lost")
	}
	tp := &tape{}
	reflect.NewAt(f.Type(), unsafe.Pointer(f.UnsafeAddr())).Elem().Set(reflect.ValueOf(tp))
	return &rig{p, tp}
}

func (r *rig) load(data []byte) {
	t := r.tp
	t.data, t.pos, t.reads, t.want, t.over, t.zeroReads = data, 0, 0, 0, false, 0
}

type obs struct {
	res   uint64
	reads int
}

// uintn runs UintN(n) on tape data||00.. and returns (result, number of Read calls).
// A call that never returns on the zero continuation is reported as reads = -1.
func (r *rig) uintn(n uint64, data []byte) obs {
	r.load(data)
	var v uint64
	if guarded(func() { v = r.p.UintN(n) }) {
		return obs{0, -1}
	}
	return obs{v, r.tp.reads}
}

func reportHang(n uint64, data []byte, prior []string) {
	viol("uintn:no-return-on-zero-continuation", fmt.Sprintf("UintN(%d) on tape %x||00.. (prior calls %v) still asks for bytes after %d all-zero attempts: 0 < n is never accepted, the call cannot return", n, data, prior, maxZeroReads),
		replay{Kind: "uintn", N: n, Tape: ev.Hex(data), Prior: prior})
}

func byteLen(x uint64) int { return (bits.Len64(x) + 7) / 8 }

func le(x uint64, size int) []byte {
	var b [8]byte
	binary.LittleEndian.PutUint64(b[:], x)
	return append([]byte{}, b[:size]...)
}

// ---------------------------------------------------------------- bookkeeping

type replay struct {
	Kind  string   `json:"kind"` // uintn | perm | args | seeds
	Fn    string   `json:"fn,omitempty"`
	N     uint64   `json:"n,omitempty"`
	NInt  int      `json:"n_int,omitempty"`
	M     int      `json:"m,omitempty"`
	Tape  string   `json:"tape_hex,omitempty"`
	Prior []string `json:"prior_calls,omitempty"`
	Got   string   `json:"got,omitempty"`
	Want  string   `json:"want,omitempty"`
	Note  string   `json:"note,omitempty"`
}

var (
	evals        atomic.Int64
	maxReadSeen  atomic.Int64
	readMismatch atomic.Int64 // number of n whose attempts were not ceil(bitlen(n-1)/8) bytes
	minAccNum    = uint64(1)  // smallest acceptance fraction seen, as a fraction num/den
	minAccDen    = uint64(1)
	minAccN      uint64
	accMu        sync.Mutex
)

func noteAcceptance(n, accepted, total uint64) {
	accMu.Lock()
	if accepted*minAccDen < minAccNum*total {
		minAccNum, minAccDen, minAccN = accepted, total, n
	}
	accMu.Unlock()
}

func viol(key, what string, rp replay) { run.Violation(key, what, rp) }

// ---------------------------------------------------------------- U1 + U2: attempts of <= 2 bytes

type scratch struct {
	counts []uint32
	acc    []uint8
	res    []uint16
}

func newScratch() *scratch {
	return &scratch{make([]uint32, 1<<16), make([]uint8, 1<<16), make([]uint16, 1<<16)}
}

// sweepLoop is the hot loop of sweepN: every first-attempt string x, continuation zeros.
func sweepLoop(rg *rig, n uint64, size, total int, data []byte, buf *[2]byte, counts []uint32, acc []uint8, res []uint16, accepted *uint64, obs0 *obs) {
	tp := rg.tp
	for x := 0; x < total; x++ {
		buf[0], buf[1] = byte(x), byte(x>>8)
		tp.data, tp.pos, tp.reads, tp.want, tp.over, tp.zeroReads = data, 0, 0, 0, false, 0
		r := rg.p.UintN(n)
		if x == 0 {
			*obs0 = obs{r, tp.reads}
		}
		if r >= n {
			viol("uintn:out-of-range", fmt.Sprintf("UintN(%d) = %d on tape %x", n, r, data),
				replay{Kind: "uintn", N: n, Tape: ev.Hex(data), Got: fmt.Sprint(r)})
			acc[x] = 2
			continue
		}
		if tp.reads == 1 {
			counts[r]++
			acc[x], res[x] = 1, uint16(r)
			*accepted++
		} else {
			acc[x] = 0
			// rejected: the continuation is all zeros, it must behave like the all-zero attempt alone
			if r != obs0.res || tp.reads != obs0.reads+1 {
				viol("uintn:rejection-continuation", fmt.Sprintf("UintN(%d) on tape %x||00..: result %d after %d reads; the all-zero attempt alone gives %d after %d reads", n, data, r, tp.reads, obs0.res, obs0.reads),
					replay{Kind: "uintn", N: n, Tape: ev.Hex(data), Got: fmt.Sprintf("%d after %d reads", r, tp.reads), Want: fmt.Sprintf("%d after %d reads", obs0.res, obs0.reads+1)})
			}
		}
	}
}

// sweepN: all first-attempt strings for n with n-1 < 2^16.
func sweepN(n uint64, sc *scratch) {
	rg := newRig()
	tp := rg.tp
	max := n - 1
	size := byteLen(max)
	total := 1 << (8 * uint(size))
	counts := sc.counts[:n]
	for i := range counts {
		counts[i] = 0
	}
	acc, res := sc.acc[:total], sc.res[:total]
	var buf [2]byte
	data := buf[:size]
	accepted := uint64(0)
	tp.maxRd = 0
	var obs0 obs // the all-zero attempt alone
	hung := guarded(func() { sweepLoop(rg, n, size, total, data, &buf, counts, acc, res, &accepted, &obs0) })
	if hung {
		reportHang(n, append([]byte{}, tp.data...), nil)
		return
	}
	evals.Add(int64(total))
	if tp.maxRd != size {
		readMismatch.Add(1)
	}
	if int64(tp.maxRd) > maxReadSeen.Load() {
		maxReadSeen.Store(int64(tp.maxRd))
	}
	noteAcceptance(n, accepted, uint64(total))
	// exact uniformity as a counting statement
	c := counts[0]
	for v := uint64(0); v < n; v++ {
		if counts[v] != c || c == 0 {
			viol("uintn:nonuniform", fmt.Sprintf("UintN(%d): over all %d first-attempt strings value 0 is produced by %d accepted strings but value %d by %d", n, total, c, v, counts[v]),
				replay{Kind: "uintn", N: n, Note: fmt.Sprintf("enumerate all %d-byte tapes; count(0)=%d count(%d)=%d accepted=%d", size, c, v, counts[v], accepted)})
			break
		}
	}
	if n >= 2 {
		run.Distinct(fmt.Sprintf("u/%d", n))
	}
	if size == 0 {
		return
	}
	// U2: rejected attempt(s) then attempt y  ==  y alone, one more read
	expect := func(y int) obs {
		switch acc[y] {
		case 1:
			return obs{uint64(res[y]), 1}
		case 0:
			return obs{obs0.res, obs0.reads + 1}
		}
		return obs{^uint64(0), -1} // y alone was already out of range: skip
	}
	var rej, ys []int
	if size == 1 {
		for x := 0; x < 256; x++ {
			if acc[x] == 0 {
				rej = append(rej, x)
			}
			ys = append(ys, x)
		}
	} else {
		mask := uint64(1)<<uint(bits.Len64(max)) - 1
		cand := map[int]bool{}
		for _, v := range []uint64{0, 1, 2, max - 1, max, max + 1, max + 2, mask - 1, mask, mask + 1, 0xFFFF, 0xFFFE,
			0x8000 | max, 0x8000 | (max + 1), mask >> 1, mask>>1 + 1, 0xAAAA, 0x5555, 0xFF00, 0x00FF, (max + mask) / 2} {
			if v <= 0xFFFF {
				cand[int(v)] = true
			}
		}
		for v := range cand {
			ys = append(ys, v)
			if acc[v] == 0 {
				rej = append(rej, v)
			}
		}
		sort.Ints(ys)
		sort.Ints(rej)
	}
	if len(rej) == 0 {
		return
	}
	t := make([]byte, 0, 6)
	check := func(pre []int, y int) {
		t = t[:0]
		for _, x := range append(pre, y) {
			t = append(t, byte(x))
			if size == 2 {
				t = append(t, byte(x>>8))
			}
		}
		got := rg.uintn(n, t)
		if got.reads < 0 {
			reportHang(n, append([]byte{}, t...), nil)
			return
		}
		want := expect(y)
		if want.reads < 0 {
			return
		}
		want.reads += len(pre)
		if got != want {
			viol("uintn:rejection-continuation", fmt.Sprintf("UintN(%d) on tape %x (%d rejected attempts then an attempt that alone gives %d after %d reads): got %d after %d reads", n, t, len(pre), want.res, want.reads-len(pre), got.res, got.reads),
				replay{Kind: "uintn", N: n, Tape: ev.Hex(t), Got: fmt.Sprintf("%d after %d reads", got.res, got.reads), Want: fmt.Sprintf("%d after %d reads", want.res, want.reads)})
		}
	}
	cnt := 0
	for _, x := range rej {
		for _, y := range ys {
			check([]int{x}, y)
			cnt++
		}
	}
	r2 := rej
	if size == 1 && len(rej) > 3 {
		r2 = []int{rej[0], rej[len(rej)/2], rej[len(rej)-1]}
	}
	for _, x1 := range r2 {
		for _, x2 := range r2 {
			for _, y := range ys {
				check([]int{x1, x2}, y)
				cnt++
			}
		}
	}
	evals.Add(int64(cnt))
}

// ---------------------------------------------------------------- U3: attempts of 3..8 bytes

func bigN(n uint64) {
	rg := newRig()
	max := n - 1
	size := byteLen(max)
	lowBits := uint(8 * (size - 1))
	lowMask := uint64(1)<<lowBits - 1
	lowMax := max & lowMask
	lows := map[uint64]bool{}
	for _, v := range []uint64{0, 1, lowMax, lowMax - 1, lowMax + 1, lowMask, lowMask - 1,
		0x5555555555555555, 0xAAAAAAAAAAAAAAAA, uint64(1) << (lowBits - 1), uint64(1)<<(lowBits-1) - 1} {
		lows[v&lowMask] = true
	}
	var lowList []uint64
	for v := range lows {
		lowList = append(lowList, v)
	}
	sort.Slice(lowList, func(i, j int) bool { return lowList[i] < lowList[j] })
	type rec struct {
		x uint64
		o obs
	}
	var recs []rec
	rg.tp.maxRd = 0
	for top := uint64(0); top < 256; top++ {
		for _, lo := range lowList {
			x := top<<lowBits | lo
			o := rg.uintn(n, le(x, size))
			if o.reads < 0 {
				reportHang(n, le(x, size), nil)
				return
			}
			recs = append(recs, rec{x, o})
			if o.res >= n {
				viol("uintn:out-of-range", fmt.Sprintf("UintN(%d) = %d on tape %x", n, o.res, le(x, size)),
					replay{Kind: "uintn", N: n, Tape: ev.Hex(le(x, size)), Got: fmt.Sprint(o.res)})
			}
		}
	}
	evals.Add(int64(len(recs)))
	if rg.tp.maxRd != size {
		readMismatch.Add(1)
	}
	if int64(rg.tp.maxRd) > maxReadSeen.Load() {
		maxReadSeen.Store(int64(rg.tp.maxRd))
	}
	// one width B must explain every observation
	okB := -1
	var firstBad rec
	for B := bits.Len64(max); B <= 8*size && okB < 0; B++ {
		m := ^uint64(0)
		if B < 64 {
			m = uint64(1)<<uint(B) - 1
		}
		good := true
		for _, rc := range recs {
			v := rc.x & m
			want := obs{v, 1}
			if v > max {
				want = obs{0, 2}
			}
			if rc.o != want {
				good = false
				if B == bits.Len64(max) {
					firstBad = rc
				}
				break
			}
		}
		if good {
			okB = B
		}
	}
	if okB < 0 {
		viol("uintn:mask-structure", fmt.Sprintf("UintN(%d): no bit width B in [%d,%d] explains the observations as 'v = tape mod 2^B, accept iff v < n, return v'; e.g. tape %x gives %d after %d reads", n, bits.Len64(max), 8*size, le(firstBad.x, size), firstBad.o.res, firstBad.o.reads),
			replay{Kind: "uintn", N: n, Tape: ev.Hex(le(firstBad.x, size)), Got: fmt.Sprintf("%d after %d reads", firstBad.o.res, firstBad.o.reads)})
	}
	// the accepted corner values must include 0 and n-1 (top of the range is reachable)
	seen0, seenMax := false, false
	var rejs, all []rec
	for _, rc := range recs {
		if rc.o.reads == 1 && rc.o.res == 0 {
			seen0 = true
		}
		if rc.o.reads == 1 && rc.o.res == max {
			seenMax = true
		}
	}
	if !seen0 || !seenMax {
		viol("uintn:value-never-produced", fmt.Sprintf("UintN(%d): 0 reachable=%v, n-1 reachable=%v on the tapes that encode them", n, seen0, seenMax),
			replay{Kind: "uintn", N: n, Tape: ev.Hex(le(max, size)), Want: fmt.Sprint(max)})
	}
	// continuation after rejections
	for i, rc := range recs {
		if rc.o.reads != 1 && len(rejs) < 6 && (i%37 == 0 || len(rejs) == 0 || rc.x&lowMask == (lowMax+1)&lowMask) {
			rejs = append(rejs, rc)
		}
	}
	for i := 0; i < len(recs); i += len(recs)/24 + 1 {
		all = append(all, recs[i])
	}
	all = append(all, recs[len(recs)-1])
	cnt := 0
	chk := func(pre []rec, y rec) {
		var t []byte
		for _, p := range pre {
			t = append(t, le(p.x, size)...)
		}
		t = append(t, le(y.x, size)...)
		got := rg.uintn(n, t)
		want := obs{y.o.res, y.o.reads + len(pre)}
		cnt++
		if got.reads < 0 {
			reportHang(n, t, nil)
			return
		}
		if got != want {
			viol("uintn:rejection-continuation", fmt.Sprintf("UintN(%d) on tape %x (%d rejected attempts first): got %d after %d reads, the last attempt alone gives %d after %d", n, t, len(pre), got.res, got.reads, y.o.res, y.o.reads),
				replay{Kind: "uintn", N: n, Tape: ev.Hex(t), Got: fmt.Sprintf("%d after %d reads", got.res, got.reads), Want: fmt.Sprintf("%d after %d reads", want.res, want.reads)})
		}
	}
	for _, x := range rejs {
		for _, y := range all {
			chk([]rec{x}, y)
		}
	}
	for _, x1 := range rejs {
		for _, x2 := range rejs {
			for i := 0; i < len(all); i += 3 {
				chk([]rec{x1, x2}, all[i])
			}
		}
	}
	evals.Add(int64(cnt))
	run.Distinct(fmt.Sprintf("u3/%d", n))
}

// ---------------------------------------------------------------- U4: stale buffer bytes

func stalePairs(ns []uint64) {
	cands := func(n uint64) [][]byte {
		max := n - 1
		size := byteLen(max)
		if size == 0 {
			return [][]byte{{}}
		}
		full := ^uint64(0) >> uint(64-8*size)
		mask := ^uint64(0) >> uint(64-bits.Len64(max))
		set := map[uint64]bool{}
		for _, v := range []uint64{0, 1, max, max - 1, max + 1, mask, full, full - 1, 0x5555555555555555, 0xAAAAAAAAAAAAAAAA} {
			set[v&full] = true
		}
		var out [][]byte
		var vs []uint64
		for v := range set {
			vs = append(vs, v)
		}
		sort.Slice(vs, func(i, j int) bool { return vs[i] < vs[j] })
		for _, v := range vs {
			out = append(out, le(v, size))
		}
		return out
	}
	ev.Par(len(ns), func(i int) {
		n1 := ns[i]
		max1 := n1 - 1
		s1 := byteLen(max1)
		firsts := [][]byte{le(max1, s1), le(max1&0xAAAAAAAAAAAAAAAA|max1>>1&0x1111111111111111, s1), le(max1>>1|1, s1)}
		cnt := 0
		for _, n2 := range ns {
			for _, y := range cands(n2) {
				fresh := newRig().uintn(n2, y)
				if fresh.reads < 0 {
					reportHang(n2, y, nil)
					continue
				}
				for _, f := range firsts {
					rg := newRig()
					first := rg.uintn(n1, f)
					got := rg.uintn(n2, y)
					cnt++
					if first.reads < 0 {
						reportHang(n1, f, nil)
						continue
					}
					if got.reads < 0 {
						reportHang(n2, y, []string{fmt.Sprintf("UintN(%d) tape %x", n1, f)})
						continue
					}
					if got != fresh {
						viol("uintn:stale-buffer-dependence", fmt.Sprintf("UintN(%d) on tape %x gives %d (%d reads) on a fresh generator but %d (%d reads) right after UintN(%d) on tape %x (=%d)", n2, y, fresh.res, fresh.reads, got.res, got.reads, n1, f, first.res),
							replay{Kind: "uintn", N: n2, Tape: ev.Hex(y), Prior: []string{fmt.Sprintf("UintN(%d) tape %x", n1, f)}, Got: fmt.Sprint(got.res), Want: fmt.Sprint(fresh.res)})
					}
				}
			}
		}
		evals.Add(int64(cnt))
		run.Distinct(fmt.Sprintf("u4/%d", n1))
	})
}

// ---------------------------------------------------------------- P: permutations over the tape tree

type permJob struct {
	fn   string
	n, m int
	// A: number of byte classes of the tape alphabet for this job (0: the caller's default);
	// extra: how many bytes beyond the minimal tape length are followed (rejected draws)
	A, extra int
}

func (j permJob) bits() uint {
	if j.n > 8 {
		return 8
	}
	return 3
}

func (j permJob) String() string {
	switch j.fn {
	case "Permutation", "Shuffle":
		return fmt.Sprintf("%s(%d)", j.fn, j.n)
	}
	return fmt.Sprintf("%s(%d,%d)", j.fn, j.n, j.m)
}

func (j permJob) outcomes() int {
	m := j.m
	if j.fn == "Permutation" || j.fn == "Shuffle" {
		m = j.n
	}
	c := 1
	for i := 0; i < m; i++ {
		c *= j.n - i
	}
	return c
}

type permWorker struct {
	job    permJob
	rg     *rig
	A      int
	L0     int
	counts [3]map[uint32]uint32
	trunc  int64
	runs   int64
	arr    []int
	bad    string
	swapFn func(i, j int)
	badRep map[string]bool
}

func newPermWorker(j permJob, A int) *permWorker {
	w := &permWorker{job: j, rg: newRig(), A: A, arr: make([]int, j.n), badRep: map[string]bool{}}
	w.rg.tp.extraZero = j.n
	for i := range w.counts {
		w.counts[i] = map[uint32]uint32{}
	}
	w.swapFn = func(a, b int) {
		if a < 0 || b < 0 || a >= len(w.arr) || b >= len(w.arr) {
			w.bad = fmt.Sprintf("swap(%d,%d) outside [0,%d)", a, b, len(w.arr))
			return
		}
		w.arr[a], w.arr[b] = w.arr[b], w.arr[a]
	}
	return w
}

func encodeB(s []int, b uint) uint32 {
	if uint(len(s))*b > 31 {
		panic("harness: outcome does not fit the 32-bit code")
	}
	c := uint32(1)
	for i := len(s) - 1; i >= 0; i-- {
		c = c<<b | uint32(s[i])
	}
	return c
}

func decodeB(c uint32, b uint) []int {
	var s []int
	for c > 1 {
		s = append(s, int(c&(1<<b-1)))
		c >>= b
	}
	return s
}

// call runs the job's function once on the currently loaded tape.
func (w *permWorker) call() (uint32, string) {
	j := w.job
	p := w.rg.p
	validSeq := func(s []int, wantLen int) string {
		if len(s) != wantLen {
			return fmt.Sprintf("returned %d elements, want %d", len(s), wantLen)
		}
		var seen [256]bool
		for _, e := range s {
			if e < 0 || e >= j.n {
				return fmt.Sprintf("element %d outside [0,%d) in %v", e, j.n, s)
			}
			if seen[e] {
				return fmt.Sprintf("element %d repeated in %v", e, s)
			}
			seen[e] = true
		}
		return ""
	}
	switch j.fn {
	case "Permutation":
		out, err := p.Permutation(j.n)
		if err != nil {
			return 0, "error-on-valid: " + err.Error()
		}
		if b := validSeq(out, j.n); b != "" {
			return 0, "invalid-output: " + b
		}
		return encodeB(out, j.bits()), ""
	case "SubPermutation":
		out, err := p.SubPermutation(j.n, j.m)
		if err != nil {
			return 0, "error-on-valid: " + err.Error()
		}
		if b := validSeq(out, j.m); b != "" {
			return 0, "invalid-output: " + b
		}
		return encodeB(out, j.bits()), ""
	case "Shuffle", "Samples":
		for i := range w.arr {
			w.arr[i] = i
		}
		w.bad = ""
		var err error
		m := j.m
		if j.fn == "Shuffle" {
			err = p.Shuffle(j.n, w.swapFn)
			m = j.n
		} else {
			err = p.Samples(j.n, j.m, w.swapFn)
		}
		if err != nil {
			return 0, "error-on-valid: " + err.Error()
		}
		if w.bad != "" {
			return 0, "invalid-output: " + w.bad
		}
		return encodeB(w.arr[:m], j.bits()), ""
	}
	panic("harness: unknown fn")
}

func (w *permWorker) dfs(prefix []byte) {
	w.rg.load(prefix)
	var out uint32
	var bad string
	if guarded(func() { out, bad = w.call() }) {
		bad = fmt.Sprintf("no-return-on-zero-continuation: still reading after %d all-zero attempts", maxZeroReads)
		w.rg = newRig()
		w.rg.tp.extraZero = w.job.n
		w.rg.load(prefix)
		w.rg.tp.over = true // treat as an inner node no further: do not count, do not extend
		w.trunc++
		w.runs++
		w.report(prefix, bad)
		return
	}
	w.runs++
	if bad != "" {
		w.report(prefix, bad)
	}
	if !w.rg.tp.over {
		d := len(prefix) - w.L0
		if bad == "" && d >= 0 && d < 3 {
			w.counts[d][out]++
		}
		return
	}
	if len(prefix) >= w.L0+w.job.extra {
		w.trunc++
		return
	}
	for b := 0; b < w.A; b++ {
		w.dfs(append(prefix, byte(b)))
	}
}

func (w *permWorker) report(prefix []byte, bad string) {
	cls := bad[:strings.Index(bad, ":")]
	key := strings.ToLower(w.job.fn) + ":" + cls
	if !w.badRep[key] {
		w.badRep[key] = true
		viol(key, fmt.Sprintf("%v on tape %x||00..: %s", w.job, prefix, bad),
			replay{Kind: "perm", Fn: w.job.fn, NInt: w.job.n, M: w.job.m, Tape: ev.Hex(prefix), Note: bad})
	}
}

type permResult struct {
	skip   bool
	counts [3]map[uint32]uint32
	trunc  int64
	runs   int64
	L0     int
}

func permPart(nmax, alphaBits int) {
	A := 1 << uint(alphaBits)
	var jobs []permJob
	for n := 0; n <= nmax; n++ {
		jobs = append(jobs, permJob{"Permutation", n, n, A, 2}, permJob{"Shuffle", n, n, A, 2})
		for m := 0; m <= n; m++ {
			jobs = append(jobs, permJob{"SubPermutation", n, m, A, 2}, permJob{"Samples", n, m, A, 2})
		}
	}
	runPermJobs(jobs, "perm", nmax)
}

// classBits measures on all 256 bytes and every range n' <= n the smallest k such that UintN(n')
// cannot distinguish byte b from b mod 2^k.
func classBits(n int) int {
	rg := newRig()
	for k := 0; k <= 8; k++ {
		ok := true
		for np := 2; np <= n && ok; np++ {
			for b := 0; b < 256; b++ {
				if rg.uintn(uint64(np), []byte{byte(b)}) != rg.uintn(uint64(np), []byte{byte(b & (1<<uint(k) - 1))}) {
					ok = false
					break
				}
			}
		}
		if ok {
			return k
		}
	}
	return 8
}

// sparsePart: LARGE n with SMALL m (m <= 3), the shapes for which an implementation may take a
// different route than for m close to n (partial Fisher-Yates, sparse index maps, rejection of
// duplicates). Same decision procedure as permPart: all tapes over the measured byte classes that
// consume the minimal number of bytes (+1 rejected draw where affordable), every one run on the
// real code; outputs are m distinct elements of [0,n) and all n!/(n-m)! outcomes are produced by
// the same number of tapes.
func sparsePart(thorough bool) {
	var jobs []permJob
	add := func(n, m, extra int) {
		if m > n {
			return
		}
		A := 1 << uint(classBits(n))
		jobs = append(jobs, permJob{"SubPermutation", n, m, A, extra}, permJob{"Samples", n, m, A, extra})
	}
	for n := 9; n <= 34; n++ {
		add(n, 1, 2)
		add(n, 2, 1)
		if thorough {
			add(n, 3, 1)
		} else {
			add(n, 3, 0)
		}
	}
	for _, n := range []int{48, 63, 64, 65, 100, 128, 129, 200, 255, 256} {
		add(n, 1, 1)
		if thorough || n <= 65 {
			add(n, 2, 0)
		}
	}
	// The full tape tree is enumerable only when a call consumes few bytes. Measure that on the
	// real code: jobs that need at most 4 bytes are decided exactly like permPart (validity AND
	// counting over all tapes); the others (this library's SubPermutation draws a full
	// Permutation(n), i.e. n bytes) are explored deviation-bounded: all tapes that differ from the
	// all-zero tape in at most 2 draws (1 for n > 34), validity of every output only.
	var full, bounded []permJob
	for _, j := range jobs {
		w := newPermWorker(j, j.A)
		w.rg.load(nil)
		if guarded(func() { w.call() }) || w.rg.tp.want <= 4 {
			full = append(full, j)
		} else {
			bounded = append(bounded, j)
		}
	}
	runPermJobs(full, "sparse", 256)
	var bruns atomic.Int64
	ev.Par(len(bounded), func(i int) {
		j := bounded[i]
		w := newPermWorker(j, j.A)
		w.rg.load(nil)
		w.call()
		L := w.rg.tp.want
		dev := 2
		if j.n > 34 || (!thorough && j.m < 3) || w.rg.tp.maxRd > 1 {
			dev = 1 // (several bytes per draw: the byte-wise tape is 8x longer, keep it affordable)
		}
		tp := make([]byte, L)
		runOne := func() {
			w.rg.load(tp)
			var bad string
			if guarded(func() { _, bad = w.call() }) {
				return // needs bytes beyond the tape after rejected draws: not followed here
			}
			bruns.Add(1)
			if bad != "" && !w.rg.tp.over {
				w.report(append([]byte{}, tp...), bad)
			}
		}
		runOne()
		for p1 := 0; p1 < L; p1++ {
			for v1 := 1; v1 < j.A; v1++ {
				tp[p1] = byte(v1)
				runOne()
				if dev >= 2 {
					for p2 := p1 + 1; p2 < L; p2++ {
						for v2 := 1; v2 < j.A; v2++ {
							tp[p2] = byte(v2)
							runOne()
						}
						tp[p2] = 0
					}
				}
			}
			tp[p1] = 0
		}
		run.Distinct(fmt.Sprintf("pb/%v", j))
	})
	evals.Add(bruns.Load())
	run.Set("sparse_bounded_jobs", len(bounded))
	run.Set("sparse_bounded_runs_on_real_code", bruns.Load())
	run.Set("sparse_shapes", "SubPermutation/Samples (n,m): n=9..34 x m<=3; n in {48,63,64,65,100,128,129,200,255,256} x m<=2; calls consuming <= 4 tape bytes: all tapes, validity and exact counting; calls consuming more (SubPermutation draws n bytes): all tapes with <= 2 non-zero draws (<= 1 for n > 34 and, in the quick tier, for m < 3), validity only")
}

func runPermJobs(jobs []permJob, label string, nmax int) {
	// big jobs first, each split by its first tape byte
	sort.SliceStable(jobs, func(a, b int) bool { return jobs[a].n > jobs[b].n })
	results := make([]permResult, len(jobs))
	type sub struct{ job, first int }
	var subs []sub
	var multiByte []string
	for ji, j := range jobs {
		w := newPermWorker(j, j.A)
		w.rg.load(nil)
		if guarded(func() { w.call() }) {
			w.report(nil, fmt.Sprintf("no-return-on-zero-continuation: still reading after %d all-zero attempts", maxZeroReads))
		}
		results[ji].L0 = w.rg.tp.want
		for i := range results[ji].counts {
			results[ji].counts[i] = map[uint32]uint32{}
		}
		// the byte-class abstraction (one representative per class b mod A) is validated for THIS
		// call on its first two tape bytes: a call that distinguishes bytes of one class consumes the
		// source differently from what the enumeration assumes, and is not decided here
		classOK := true
		if j.A < 256 && w.rg.tp.want > 0 {
			probe := func(pos int) {
				for b := j.A; b < 256 && classOK; b++ {
					t1, t2 := make([]byte, pos+1), make([]byte, pos+1)
					t1[pos], t2[pos] = byte(b), byte(b%j.A)
					w.rg.load(t1)
					var o1, o2 uint32
					var b1, b2 string
					h1 := guarded(func() { o1, b1 = w.call() })
					r1 := w.rg.tp.reads
					w.rg.load(t2)
					h2 := guarded(func() { o2, b2 = w.call() })
					if h1 != h2 || o1 != o2 || b1 != b2 || r1 != w.rg.tp.reads {
						classOK = false
					}
				}
			}
			probe(0)
			if w.rg.tp.want > 1 {
				probe(1)
			}
		}
		if w.rg.tp.maxRd > 1 || !classOK {
			// this implementation pulls several bytes per draw: the tape tree over ONE byte class
			// per draw is not its random-source space and would be astronomically larger than
			// the space of draws. The job is not decided here (reported, exhaustive:false); the
			// uniformity of the draws themselves is decided by the U parts in any case.
			multiByte = append(multiByte, j.String())
			results[ji].skip = true
			continue
		}
		if results[ji].L0 == 0 {
			subs = append(subs, sub{ji, -1})
		} else {
			for b := 0; b < j.A; b++ {
				subs = append(subs, sub{ji, b})
			}
		}
	}
	var mu sync.Mutex
	var skipped atomic.Int64
	ev.Par(len(subs), func(i int) {
		if run.Expired() {
			skipped.Add(1)
			return
		}
		s := subs[i]
		w := newPermWorker(jobs[s.job], jobs[s.job].A)
		w.L0 = results[s.job].L0
		w.rg.tp.maxRd = 0
		if s.first < 0 {
			w.dfs(nil)
		} else {
			w.dfs([]byte{byte(s.first)})
		}
		if w.rg.tp.maxRd > 1 {
			run.Fatal("%v requested %d bytes in one Read: the one-byte class alphabet of the tape tree does not apply (decision procedure needs rework)", w.job, w.rg.tp.maxRd)
		}
		mu.Lock()
		r := &results[s.job]
		for d := range w.counts {
			for k, v := range w.counts[d] {
				r.counts[d][k] += v
			}
		}
		r.trunc += w.trunc
		r.runs += w.runs
		mu.Unlock()
	})
	if skipped.Load() > 0 {
		run.Set(label+"_subtrees_skipped_by_budget", skipped.Load())
		return
	}
	// judge
	summary := map[string]any{}
	var totalRuns, totalLeaves int64
	if len(multiByte) > 0 {
		run.Set(label+"_jobs_not_decided_because_a_draw_reads_several_bytes", multiByte)
		run.MarkCapped()
	}
	for ji, j := range jobs {
		r := results[ji]
		if r.skip {
			continue
		}
		totalRuns += r.runs
		exp := j.outcomes()
		perLen := []string{}
		for d := 0; d < 3; d++ {
			cm := r.counts[d]
			var leaves int64
			for _, v := range cm {
				leaves += int64(v)
			}
			totalLeaves += leaves
			perLen = append(perLen, fmt.Sprintf("len%d:%d outcomes x %d tapes", r.L0+d, len(cm), func() uint32 {
				for _, v := range cm {
					return v
				}
				return 0
			}()))
			if d > 0 && len(cm) == 0 {
				continue // no rejection possible at this length
			}
			suffix := ""
			if d > 0 {
				suffix = ":with-rejections"
			}
			key := strings.ToLower(j.fn) + ":nonuniform" + suffix
			if len(cm) != exp {
				// find a missing outcome
				viol(key, fmt.Sprintf("%v: tapes consuming %d bytes reach %d distinct outcomes, there are %d", j, r.L0+d, len(cm), exp),
					replay{Kind: "perm", Fn: j.fn, NInt: j.n, M: j.m, Note: fmt.Sprintf("enumerate all tapes over bytes 0..%d consuming exactly %d bytes", j.A-1, r.L0+d)})
				continue
			}
			var c0 uint32
			var k0 uint32
			first := true
			for k, v := range cm {
				if first {
					c0, k0, first = v, k, false
					continue
				}
				if v != c0 {
					viol(key, fmt.Sprintf("%v: among tapes consuming %d bytes outcome %v is produced by %d tapes but outcome %v by %d", j, r.L0+d, decodeB(k0, j.bits()), c0, decodeB(k, j.bits()), v),
						replay{Kind: "perm", Fn: j.fn, NInt: j.n, M: j.m, Got: fmt.Sprintf("%v x%d, %v x%d", decodeB(k0, j.bits()), c0, decodeB(k, j.bits()), v),
							Note: fmt.Sprintf("enumerate all tapes over bytes 0..%d consuming exactly %d bytes", j.A-1, r.L0+d)})
					break
				}
			}
		}
		for k := range r.counts[0] {
			run.Distinct(fmt.Sprintf("p/%v/%d", j, k))
		}
		if j.n == nmax || j.n <= 2 {
			summary[j.String()] = map[string]any{"min_bytes": r.L0, "outcomes_expected": exp, "per_consumed_length": perLen, "runs": r.runs, "tapes_beyond_2_extra_bytes_not_followed": r.trunc}
		}
	}
	evals.Add(totalRuns)
	run.Set(label+"_jobs", len(jobs))
	run.Set(label+"_runs_on_real_code", totalRuns)
	run.Set(label+"_complete_tapes_judged", totalLeaves)
	run.Set(label+"_summary", summary)
	if label != "perm" {
		return
	}
	run.Sample(map[string]any{"part": "P", "call": "Samples(5,3)", "tape_hex": "070301", "meaning": "byte 07 is rejected for UintN(5), 03 accepted, then 01 for UintN(4), the tape ends: UintN(3) reads zeros (flagged, prefix is extended by every class byte)"})
}

// alphabetBits measures, on all 256 bytes and all n <= nmax, the smallest k such that UintN(n)
// cannot distinguish b from b mod 2^k (result and number of reads on tape b||00..).
func alphabetBits(nmax int) int {
	rg := newRig()
	var f [9][256]obs
	for n := 2; n <= nmax; n++ {
		for b := 0; b < 256; b++ {
			f[n][b] = rg.uintn(uint64(n), []byte{byte(b)})
		}
	}
	for k := 0; k <= 8; k++ {
		ok := true
		for n := 2; n <= nmax && ok; n++ {
			for b := 0; b < 256; b++ {
				if f[n][b] != f[n][b&(1<<uint(k)-1)] {
					ok = false
					break
				}
			}
		}
		if ok {
			return k
		}
	}
	return 8
}

// ---------------------------------------------------------------- E: argument validation

func argsPart() {
	rg := newRig()
	rg.load(nil)
	p := rg.p
	nop := func(i, j int) {}
	cnt := 0
	judge := func(fn string, n, m int, err error, wantErr bool) {
		cnt++
		if (err != nil) != wantErr {
			viol(strings.ToLower(fn)+":argument-validation", fmt.Sprintf("%s(n=%d,m=%d): err=%v, error expected=%v", fn, n, m, err, wantErr),
				replay{Kind: "args", Fn: fn, NInt: n, M: m})
		}
		run.Distinct(fmt.Sprintf("e/%s/%d/%d", fn, n, m))
	}
	big := []int{-1 << 63, -1 << 31, -1000}
	vals := append([]int{}, big...)
	for v := -4; v <= 9; v++ {
		vals = append(vals, v)
	}
	// a panic on bad sizes is "no error returned": reported, not a harness crash
	safe := func(fn string, n, m int, wantErr bool, f func() error) {
		defer func() {
			if r := recover(); r != nil {
				cnt++
				viol(strings.ToLower(fn)+":argument-validation", fmt.Sprintf("%s(n=%d,m=%d) panics: %v", fn, n, m, r),
					replay{Kind: "args", Fn: fn, NInt: n, M: m})
			}
		}()
		rg.load(nil) // fresh all-zero source for every call
		judge(fn, n, m, f(), wantErr)
	}
	for _, n := range vals {
		safe("Permutation", n, 0, n < 0, func() error { _, err := p.Permutation(n); return err })
		safe("Shuffle", n, 0, n < 0, func() error { return p.Shuffle(n, nop) })
		for _, m := range vals {
			bad := n < 0 || m < 0 || m > n
			safe("SubPermutation", n, m, bad, func() error { _, err := p.SubPermutation(n, m); return err })
			safe("Samples", n, m, bad, func() error { return p.Samples(n, m, nop) })
		}
	}
	evals.Add(int64(cnt))
}

// ---------------------------------------------------------------- H: history independence

// historyPart: the result of a sampling call is a function of the source bytes it consumes, not of
// what the generator was used for before (scratch buffers, cached masks/sizes). For every function,
// a set of shapes that includes the 1-byte/2-byte draw boundary (n = 255..258, 65536, 65537), a set
// of tapes and a set of PRIOR calls that leave non-zero bytes in every internal buffer, the call
// on the used generator must return what it returns on a fresh generator, after the same number of reads.
func historyPart(thorough bool) {
	type prior struct {
		name string
		tape []byte
		do   func(p random.Rand)
	}
	priors := []prior{
		{"UintN(2^64-1) on fe ff..ff", []byte{0xfe, 0xff, 0xff, 0xff, 0xff, 0xff, 0xff, 0xff}, func(p random.Rand) { p.UintN(^uint64(0)) }},
		{"UintN(512) on ff 01", []byte{0xff, 0x01}, func(p random.Rand) { p.UintN(512) }},
		{"UintN(65536) on ff ff", []byte{0xff, 0xff}, func(p random.Rand) { p.UintN(65536) }},
		{"UintN(2^24+1) on 00 00 00 01", []byte{0, 0, 0, 1}, func(p random.Rand) { p.UintN(1<<24 + 1) }},
		{"Permutation(300) on 01 01 ..", bytes.Repeat([]byte{1}, 400), func(p random.Rand) { p.Permutation(300) }},
		{"Samples(70000,2) on ff ff 00 fe ff 00", []byte{0xff, 0xff, 0x00, 0xfe, 0xff, 0x00}, func(p random.Rand) { p.Samples(70000, 2, func(i, j int) {}) }},
		// an earlier call of the SAME helper with a larger / a smaller population (scratch space kept between calls)
		{"SubPermutation(300,7) on 05 07 ..", bytes.Repeat([]byte{5, 7}, 40), func(p random.Rand) { p.SubPermutation(300, 7) }},
		{"SubPermutation(4,3) on 03 02 01", []byte{3, 2, 1, 0, 0, 0}, func(p random.Rand) { p.SubPermutation(4, 3) }},
		{"Shuffle(40) on 09 ..", bytes.Repeat([]byte{9}, 80), func(p random.Rand) { p.Shuffle(40, func(i, j int) {}) }},
	}
	ns := []int{1, 2, 3, 5, 8, 9, 16, 17, 100, 255, 256, 257, 258, 300}
	if thorough {
		ns = append(ns, 511, 512, 513, 1000, 65535, 65536, 65537)
	}
	tapes := map[string]func(i int) byte{
		"zeros":   func(i int) byte { return 0 },
		"ones":    func(i int) byte { return 1 },
		"0x55":    func(i int) byte { return 0x55 },
		"counter": func(i int) byte { return byte(i) },
		"0xff-every-3rd": func(i int) byte {
			if i%3 == 0 {
				return 0xff
			}
			return byte(i >> 1)
		},
	}
	type job struct {
		fn   string
		n, m int
	}
	var jobs []job
	for _, n := range ns {
		jobs = append(jobs, job{"Permutation", n, n}, job{"Shuffle", n, n})
		for _, m := range []int{1, 2, n / 2, n} {
			if m >= 1 && m <= n {
				jobs = append(jobs, job{"SubPermutation", n, m}, job{"Samples", n, m})
			}
		}
	}
	var cnt atomic.Int64
	ev.Par(len(jobs), func(ji int) {
		j := jobs[ji]
		callOn := func(rg *rig, data []byte) (string, int) {
			rg.tp.extraZero = 4*j.n + 64
			rg.load(data)
			var out string
			hung := guarded(func() {
				switch j.fn {
				case "Permutation":
					o, err := rg.p.Permutation(j.n)
					out = fmt.Sprint(o, err)
				case "SubPermutation":
					o, err := rg.p.SubPermutation(j.n, j.m)
					out = fmt.Sprint(o, err)
				case "Shuffle", "Samples":
					var sw []int
					f := func(a, b int) { sw = append(sw, a, b) }
					var err error
					if j.fn == "Shuffle" {
						err = rg.p.Shuffle(j.n, f)
					} else {
						err = rg.p.Samples(j.n, j.m, f)
					}
					out = fmt.Sprint(sw, err)
				}
			})
			if hung {
				return "no-return", rg.tp.reads
			}
			return out, rg.tp.reads
		}
		for tn, tf := range tapes {
			data := make([]byte, 4*j.n+16)
			for i := range data {
				data[i] = tf(i)
			}
			fresh := newRig()
			want, wreads := callOn(fresh, data)
			for _, pr := range priors {
				used := newRig()
				used.load(pr.tape)
				if guarded(func() { pr.do(used.p) }) {
					continue
				}
				got, greads := callOn(used, data)
				cnt.Add(1)
				if got != want || greads != wreads {
					name := fmt.Sprintf("%s(%d,%d)", j.fn, j.n, j.m)
					viol(strings.ToLower(j.fn)+":depends-on-earlier-calls",
						fmt.Sprintf("%s on tape %q gives a different result (or number of reads: %d vs %d) right after %s than on a fresh generator", name, tn, greads, wreads, pr.name),
						replay{Kind: "history", Fn: j.fn, NInt: j.n, M: j.m, Tape: tn, Prior: []string{pr.name}, Got: clipStr(got), Want: clipStr(want)})
				}
			}
		}
		run.Distinct(fmt.Sprintf("h/%s/%d/%d", j.fn, j.n, j.m))
	})
	evals.Add(cnt.Load())
	run.Set("history_independence_cases", cnt.Load())
}

func clipStr(s string) string {
	if len(s) > 300 {
		return s[:300] + "..."
	}
	return s
}

// ---------------------------------------------------------------- S: equal seeds, equal outputs (real ChaCha20 core)

// proxy forwards to the real ChaCha20 core and only counts: a single library call that pulls
// more than maxRealReads times from the core is cut off (a sampler spinning without progress
// would otherwise hang the check; for a working rejection sampler the bound is never reached:
// every attempt succeeds with probability > 1/2 and the seeds are fixed).
type proxy struct {
	inner interface{ Read([]byte) }
	reads int
}

const maxRealReads = 100000

func (p *proxy) Read(b []byte) {
	p.reads++
	if p.reads > maxRealReads {
		panic(livelock{})
	}
	p.inner.Read(b)
}

func realWithProxy(seed, cust []byte) (random.Rand, *proxy, error) {
	p, err := random.NewChacha20PRG(seed, cust)
	if err != nil {
		return nil, nil, err
	}
	f := reflect.ValueOf(p).Elem().FieldByName("genericPRG").FieldByName("randCore")
	slot := reflect.NewAt(f.Type(), unsafe.Pointer(f.UnsafeAddr())).Elem()
	inner, ok := slot.Interface().(interface{ Read([]byte) })
	if !ok {
		run.Fatal("randCore does not hold a reader")
	}
	px := &proxy{inner: inner}
	slot.Set(reflect.ValueOf(px))
	return p, px, nil
}

func seedsPart() {
	mk := func(si, ci int) (random.Rand, *proxy, error) {
		seed := make([]byte, random.Chacha20SeedLen)
		for i := range seed {
			seed[i] = byte(i*si*37 + si + int(run.Seed))
		}
		var cust []byte
		if ci > 0 {
			cust = []byte("verif-c15-xx")[:ci]
		}
		return realWithProxy(seed, cust)
	}
	// script returns the transcript of a fixed call sequence; hung names the call that was cut off
	script := func(p random.Rand, px *proxy) (out string, hung string) {
		var sb strings.Builder
		do := func(name string, f func()) bool {
			px.reads = 0
			if guarded(f) {
				hung = name
				return false
			}
			return true
		}
		for _, n := range []uint64{1, 2, 3, 5, 255, 256, 257, 65537, 1 << 32, 1<<63 + 1, ^uint64(0), 1, 256, 65536} {
			if !do(fmt.Sprintf("UintN(%d)", n), func() { fmt.Fprintf(&sb, "%d,", p.UintN(n)) }) {
				return sb.String(), hung
			}
		}
		for n := 0; n <= 8; n++ {
			if !do(fmt.Sprintf("Permutation(%d)", n), func() { pm, _ := p.Permutation(n); fmt.Fprintf(&sb, "%v", pm) }) {
				return sb.String(), hung
			}
			for m := 0; m <= n; m += 3 {
				if !do(fmt.Sprintf("SubPermutation(%d,%d)", n, m), func() { sp, _ := p.SubPermutation(n, m); fmt.Fprintf(&sb, "%v", sp) }) {
					return sb.String(), hung
				}
				if !do(fmt.Sprintf("Samples(%d,%d)", n, m), func() {
					var sw []int
					_ = p.Samples(n, m, func(i, j int) { sw = append(sw, i, j) })
					fmt.Fprintf(&sb, "%v", sw)
				}) {
					return sb.String(), hung
				}
			}
			if !do(fmt.Sprintf("Shuffle(%d)", n), func() {
				var sw []int
				_ = p.Shuffle(n, func(i, j int) { sw = append(sw, i, j) })
				fmt.Fprintf(&sb, "%v", sw)
			}) {
				return sb.String(), hung
			}
		}
		b := make([]byte, 9)
		p.Read(b)
		fmt.Fprintf(&sb, "%x", b)
		return sb.String(), ""
	}
	outs := map[string]bool{}
	cnt := 0
	for si := 0; si < 4; si++ {
		for _, ci := range []int{0, 1, 12} {
			a, pa, err1 := mk(si, ci)
			b, pb, err2 := mk(si, ci)
			if err1 != nil || err2 != nil {
				run.Fatal("NewChacha20PRG: %v %v", err1, err2)
			}
			sa, ha := script(a, pa)
			sb, hb := script(b, pb)
			cnt++
			if ha != "" || hb != "" {
				viol("seeds:call-does-not-return", fmt.Sprintf("generator with seed #%d customizer length %d: %s%s pulled more than %d times from the ChaCha20 core without returning", si, ci, ha, hb, maxRealReads),
					replay{Kind: "seeds", NInt: si, M: ci, Got: sa, Note: ha + hb})
				continue
			}
			if sa != sb {
				viol("seeds:equal-seeds-differ", fmt.Sprintf("two generators with seed #%d customizer length %d disagree on the same call script", si, ci),
					replay{Kind: "seeds", NInt: si, M: ci, Got: sa, Want: sb})
			}
			outs[sa] = true
			run.Distinct(fmt.Sprintf("s/%d/%d", si, ci))
		}
	}
	run.Set("seed_scripts_distinct_outputs", len(outs))
	evals.Add(int64(cnt))
}

// ---------------------------------------------------------------- main

func specialNs() []uint64 {
	set := map[uint64]bool{^uint64(0): true}
	for k := uint(0); k < 64; k++ {
		p := uint64(1) << k
		for _, v := range []uint64{p - 1, p, p + 1} {
			if v > 0 {
				set[v] = true
			}
		}
	}
	set[^uint64(0)-1] = true // 2^64 - 2
	var out []uint64
	for v := range set {
		out = append(out, v)
	}
	sort.Slice(out, func(i, j int) bool { return out[i] < out[j] })
	return out
}

// rigAvailable: can the generator's core be replaced by a tape in this tree? (the private field
// names genericPRG / randCore are the instrumentation anchor)
func rigAvailable() (ok bool) {
	defer func() {
		if recover() != nil {
			ok = false
		}
	}()
	p, err := random.NewChacha20PRG(make([]byte, random.Chacha20SeedLen), nil)
	if err != nil {
		return false
	}
	g := reflect.ValueOf(p).Elem().FieldByName("genericPRG")
	if !g.IsValid() {
		return false
	}
	f := g.FieldByName("randCore")
	return f.IsValid() && f.Kind() == reflect.Interface
}

func main() {
	run = ev.Start("C15", "exploration")
	run.Budget(50*time.Second, 9*time.Minute)
	if run.Replay == "" && !rigAvailable() {
		// the tape cannot be installed in this tree (private fields renamed): the enumeration over the
		// random source is not possible; only the parts that use the real core run
		run.Set("rule", "the generator's core could not be replaced by a tape in this tree (instrumentation anchor genericPRG.randCore not found): only the determinism part and the auxiliary frequency pass ran")
		run.Set("tape_injection", "not available in this tree")
		run.MarkCapped()
		seedsPart()
		auxFrequencies()
		auxSwapFrequencies()
		run.Add("evaluations", evals.Load())
		run.Finish()
		return
	}
	// the tape really is the generator's only source (probe independent of how UintN samples)
	{
		rg := newRig()
		rg.load([]byte{0xC1, 0x5A, 0x07})
		b := make([]byte, 3)
		rg.p.Read(b)
		if b[0] != 0xC1 || b[1] != 0x5A || b[2] != 0x07 || rg.tp.reads != 1 || rg.tp.over {
			run.Fatal("tape injection probe failed: Read gave %x after %d reads", b, rg.tp.reads)
		}
		rg.load(nil)
		hung := guarded(func() { rg.p.UintN(1 << 40) })
		if !hung && (rg.tp.reads == 0 || !rg.tp.over) {
			run.Fatal("tape injection probe failed: UintN(2^40) did not read from the tape")
		}
	}
	if run.Replay != "" {
		replayMode()
		return
	}
	N := uint64(1) << 12
	nmax := 6
	if run.Thorough() {
		N = 1 << 16
		nmax = 8
	}
	special := specialNs()
	run.Set("rule", "The PRG core of a real generator object is replaced by a byte tape (reflect+unsafe); cases are tapes. "+
		"U1: for every n<=N and every n in {2^k,2^k+-1,2^64-1,2^64-2} with n<=2^16, ALL 256^size first-attempt strings (size=bytes of n-1): result<n, accepted iff one Read, every value of [0,n) hit by the same number >=1 of accepted strings (counting = exact uniformity); "+
		"U2: every rejected byte x every next byte (size 1), boundary candidates squared (size 2), and two rejections: rejected attempts followed by y behave as y alone; "+
		"U5: for 17 values of n that are not powers of two, R all-ones (rejected) attempts followed by the attempt 1 for EVERY R up to 160 (thorough 600): must return 1 after exactly R+1 reads; "+
		"U3: n>2^16 from the special set: 256 top bytes x ~10 corner patterns of the lower bytes, one bit width B must explain all observations as v=tape mod 2^B, accept iff v<n, return v; 0 and n-1 reachable; continuation after 1 and 2 rejections; (the 256^size space is NOT enumerable there: pattern coverage only); "+
		"U4: all ordered pairs (n1,n2) of a boundary set: UintN(n2) after UintN(n1) equals UintN(n2) on a fresh object for ~10 boundary tapes x 3 first tapes; "+
		"P: Permutation/SubPermutation/Shuffle/Samples for all n<=nmax, m<=n: DFS over all tapes over one representative byte per measured indistinguishability class, all tapes consuming <= minimal+2 bytes, every run on the real code; outputs valid, per consumed length all n!/(n-m)! outcomes produced by the same number of tapes; "+
		"P2 (sparse shapes): SubPermutation/Samples(n,m) for n=9..34 with m<=3 and n in {48,63,64,65,100,128,129,200,255,256} with m<=2: calls consuming <= 4 tape bytes are decided like P over all tapes; calls consuming more (SubPermutation = full Permutation(n)) over all tapes with <= 2 non-zero draws, validity only; "+
		"H (history independence): Permutation/SubPermutation/Shuffle/Samples for n in {1,2,3,5,8,9,16,17,100,255,256,257,258,300} (thorough also 511..513, 1000, 65535..65537) x m in {1,2,n/2,n} x 5 tapes, run on a fresh generator and right after each of 6 prior calls that leave non-zero bytes in the internal buffers: same result, same number of reads; "+
		"R (structure-independent range part): UintN(n) < n for every n <= 1024 and the special set on 6 tapes; AUX: auxiliary frequency passes with the real core and fixed seeds (UintN: parity, upper half, single values; Shuffle/Samples for every n = 2..24 and some larger n: per step the frequency of every swap target; threshold 12 standard deviations); the attempt-level parts U1-U3, U5, P, P2 are applied only if UintN consumes the source as one Read of bytes(n-1) bytes per attempt (measured first); "+
		"E: all (n,m) in {-2^63,-2^31,-1000,-4..9}^2 must error iff n<0 or m<0 or m>n; S: equal seeds/customizers give equal outputs on a fixed call script with the real ChaCha20 core. "+
		"distinct_nontrivial counts distinct n (U1,U3,U4 first argument), distinct (function,n,m,outcome) reached in P, distinct argument tuples in E, seed configurations in S; evaluations = library calls judged.")
	run.Set("uintn_exhaustive_bound_requested", N)
	run.Set("perm_nmax", nmax)

	// The U and P parts take the random source apart along the structure "one attempt = one Read of
	// bytes(n-1) bytes; a rejected attempt is followed by a fresh Read". That structure is measured
	// first. An implementation that consumes the source differently (say, a 64-bit word per draw) is
	// not wrong for that reason, and the attempt-level oracles would misjudge it: they are then not
	// applied (reported, exhaustive:false) and only the structure-independent parts run (range,
	// history independence, argument validation, determinism, auxiliary frequency pass).
	structOK, structWhy := attemptStructure()
	run.Set("uintn_attempt_structure_as_assumed", structOK)
	if !structOK {
		run.Set("uintn_attempt_structure_note", "UintN does not consume the source as one Read of bytes(n-1) bytes per attempt ("+structWhy+"): the attempt-level enumeration (U1, U2, U3, U5, P, P2) is not applicable to this implementation and was not run")
		run.MarkCapped()
		fmt.Println("C15: attempt structure differs from the assumed one (" + structWhy + "): U1-U3, U5, P, P2 not applied")
	}
	if structOK {
		// U1+U2
		var ns []uint64
		for n := uint64(1); n <= N; n++ {
			ns = append(ns, n)
		}
		var bigs []uint64
		for _, s := range special {
			if s > N && s-1 < 1<<16 {
				ns = append(ns, s)
			}
			if s-1 >= 1<<16 {
				bigs = append(bigs, s)
			}
		}
		// big n first inside Par is irrelevant; interleave so that workers get mixed sizes
		const chunk = 16
		nchunks := (len(ns) + chunk - 1) / chunk
		done := make([]bool, nchunks)
		ev.Par(nchunks, func(ci int) {
			ci = nchunks - 1 - ci // expensive (2-byte) n first
			if run.Expired() {
				return
			}
			sc := newScratch()
			for i := ci * chunk; i < (ci+1)*chunk && i < len(ns); i++ {
				sweepN(ns[i], sc)
			}
			done[ci] = true
		})
		completed := uint64(0)
		allDone := true
		for ci := 0; ci < nchunks; ci++ {
			if !done[ci] {
				allDone = false
				break
			}
			last := (ci+1)*chunk - 1
			if last >= len(ns) {
				last = len(ns) - 1
			}
			if ns[last] <= N {
				completed = ns[last]
			}
		}
		run.Set("uintn_every_n_exhaustive_upto", completed)
		run.Set("uintn_all_first_attempt_strings_enumerated", allDone)
		run.Set("uintn_special_n_small", len(ns)-int(N))
		run.Sample(map[string]any{"part": "U1", "call": "UintN(40000)", "tapes": "all 65536 two-byte strings", "expected": "each of 0..39999 produced by exactly 1 accepted string; 25536 strings rejected"})
		run.Sample(map[string]any{"part": "U2", "call": "UintN(5)", "tape_hex": "0706 03", "meaning": "two rejected attempts (7, 6) then 3: must return 3 after 3 reads"})

		// U3
		ev.Par(len(bigs), func(i int) { bigN(bigs[i]) })
		run.Set("uintn_special_n_big", len(bigs))
		run.Sample(map[string]any{"part": "U3", "call": fmt.Sprintf("UintN(%d)", uint64(1)<<32+1), "tape_hex": "ffffffff01", "meaning": "top byte 01 with all-ones lower bytes: masked value 2^33-1 > n-1, rejected"})

		// U5: deep rejection chains. The deviation "a rejected attempt" is iterated far beyond 2 along one
		// line: R all-ones attempts (rejected for every n that is not a power of two) followed by the
		// attempt "1" must return 1 after exactly R+1 reads, for every R up to the bound — a sampler that
		// gives up after some number of rejections (fallback to a modulo, a cap on the loop) fails here.
		{
			rmax := 160
			if run.Thorough() {
				rmax = 600
			}
			chains := []uint64{3, 5, 6, 7, 9, 100, 129, 255, 257, 1000, 40000, 65537, 1<<24 + 1, 1<<32 + 1, 1<<40 + 3, 1<<63 + 1, ^uint64(0)}
			ev.Par(len(chains), func(i int) {
				n := chains[i]
				size := byteLen(n - 1)
				rg := newRig()
				for R := 1; R <= rmax; R++ {
					t := make([]byte, 0, (R+1)*size)
					for k := 0; k < R*size; k++ {
						t = append(t, 0xff)
					}
					t = append(t, le(1, size)...)
					got := rg.uintn(n, t)
					evals.Add(1)
					if got.reads != R+1 || got.res != 1 {
						viol("uintn:deep-rejection-chain", fmt.Sprintf("UintN(%d) on a tape of %d rejected (all-ones) attempts followed by the attempt 1: got %d after %d reads, expected 1 after %d reads", n, R, got.res, got.reads, R+1),
							replay{Kind: "uintn", N: n, Tape: ev.Hex(t)})
						break
					}
					run.Distinct(fmt.Sprintf("U5/%d/%d", n, R))
				}
			})
			run.Set("deep_rejection_chain_bound", rmax)
			run.Set("deep_rejection_chain_n", len(chains))
		}
	} // structOK

	// U4
	bset := []uint64{1, 2, 3, 4, 5, 7, 8, 9, 255, 256, 257, 258, 65535, 65536, 65537, 1 << 24, 1<<24 + 1, 1<<32 - 1, 1 << 32, 1<<32 + 1, 1 << 56, 1<<56 + 1, 1 << 63, 1<<63 + 1, ^uint64(0)}
	stalePairs(bset)
	run.Set("stale_pairs", len(bset)*len(bset))
	run.Sample(map[string]any{"part": "U4", "first": "UintN(2^64-1) on tape feffffffffffffff", "then": "UintN(3) on tape 02", "expected": "2, as on a fresh generator"})

	// P
	if structOK {
		k := alphabetBits(8)
		run.Set("perm_alphabet_bits_measured", k)
		if k > 3 {
			// still exactly decidable, but the tree is 2^(k-3) times wider per byte
			if k > 5 {
				run.Fatal("UintN(n<=8) distinguishes bytes by more than 5 bits (%d): tape tree too wide, decision procedure needs rework", k)
			}
			if nmax > 6 {
				nmax = 6
			}
			if k > 4 && nmax > 5 {
				nmax = 5
			}
			run.Set("perm_nmax", nmax)
			run.Set("perm_nmax_reduced_because_alphabet_is_wider_than_3_bits", true)
		}
		permPart(nmax, k)
		sparsePart(run.Thorough())
	} // structOK
	rangePart()
	historyPart(run.Thorough())
	auxFrequencies()
	auxSwapFrequencies()

	argsPart()
	seedsPart()

	run.Add("evaluations", evals.Load())
	run.Set("max_read_size_seen", maxReadSeen.Load())
	run.Set("n_whose_attempt_size_differs_from_bytes_of_n_minus_1", readMismatch.Load())
	if readMismatch.Load() > 0 {
		// the enumeration covered the first bytes(n-1) bytes of an attempt only
		run.Set("exhaustive", false)
	}
	accMu.Lock()
	run.Set("min_acceptance_fraction", fmt.Sprintf("%d/%d at n=%d", minAccNum, minAccDen, minAccN))
	accMu.Unlock()
	run.Assume(
		"the tape replaces genericPRG.randCore of a real *chachaPRG; all Rand methods except Read/Store go through it (checked by a probe at start)",
		"U1 decides exact uniformity of UintN for attempts of <= 2 bytes by counting over all strings; for n > 2^16 only the stated byte patterns are run and uniformity follows from the single-width structure check, not from counting",
		"tapes with more than two rejected attempts (UintN) or more than two extra bytes (permutations) are not followed; their total probability mass is below (1/2)^3 per call and they re-enter states already shown to behave identically",
		"P uses one representative byte per class of bytes that UintN(n<=8) provably (all 256 bytes run) does not distinguish",
	)
	run.Finish()
}

// ---------------------------------------------------------------- replay

func replayMode() {
	raw, err := os.ReadFile(run.Replay)
	if err != nil {
		run.Fatal("cannot read replay: %v", err)
	}
	var file struct {
		Replay replay `json:"replay"`
	}
	if err := json.Unmarshal(raw, &file); err != nil {
		run.Fatal("cannot parse replay: %v", err)
	}
	rp := file.Replay
	run.Set("rule", "replay: re-runs the whole family of the recorded case (all tapes for that n / that (function,n,m))")
	switch rp.Kind {
	case "uintn":
		if rp.N == 0 {
			run.Fatal("replay without n")
		}
		if rp.Tape != "" {
			o := newRig().uintn(rp.N, ev.UnHex(rp.Tape))
			fmt.Printf("UintN(%d) on tape %s||00.. on a fresh generator = %d after %d reads\n", rp.N, rp.Tape, o.res, o.reads)
		}
		if rp.N-1 < 1<<16 {
			sweepN(rp.N, newScratch())
		} else {
			bigN(rp.N)
		}
		if len(rp.Prior) > 0 {
			stalePairs([]uint64{1, 2, 3, 4, 5, 7, 8, 9, 255, 256, 257, 258, 65535, 65536, 65537, 1 << 24, 1<<24 + 1, 1<<32 - 1, 1 << 32, 1<<32 + 1, 1 << 56, 1<<56 + 1, 1 << 63, 1<<63 + 1, ^uint64(0)})
		}
	case "perm":
		k := alphabetBits(8)
		if k > 5 {
			run.Fatal("alphabet too wide")
		}
		nm := rp.NInt
		permPart(nm, k)
	case "args":
		argsPart()
	case "seeds":
		seedsPart()
	default:
		run.Fatal("unknown replay kind %q", rp.Kind)
	}
	run.Add("evaluations", evals.Load())
	run.Finish()
}

// attemptStructure measures whether UintN consumes the source the way the U/P parts assume.
func attemptStructure() (bool, string) {
	rg := newRig()
	for _, n := range []uint64{2, 3, 5, 200, 256, 257, 1000, 65536, 65537, 1<<33 + 1, 1<<56 + 1} {
		size := byteLen(n - 1)
		rg.tp.maxRd = 0
		o := rg.uintn(n, nil)
		if o.reads != 1 || rg.tp.want != size || rg.tp.maxRd != size {
			return false, fmt.Sprintf("UintN(%d) on the all-zero source: %d reads, %d bytes requested, largest read %d; assumed 1 read of %d bytes", n, o.reads, rg.tp.want, rg.tp.maxRd, size)
		}
		if n&(n-1) != 0 { // not a power of two: the all-ones attempt is out of range
			t := bytes.Repeat([]byte{0xff}, size)
			o = rg.uintn(n, t)
			if o.reads != 2 || rg.tp.want != 2*size || o.res != 0 {
				return false, fmt.Sprintf("UintN(%d) on one all-ones attempt then zeros: result %d after %d reads / %d bytes; assumed 0 after 2 reads / %d bytes", n, o.res, o.reads, rg.tp.want, 2*size)
			}
		}
	}
	return true, ""
}

// rangePart: structure-independent. UintN(n) < n on a set of tapes (zeros, ones, 0x55, 0xaa, counter,
// 0xff-then-zeros) for every n of the special set and every n <= 1024; never a hang on a source
// that keeps producing the value 0.
func rangePart() {
	ns := specialNs()
	for n := uint64(1); n <= 1024; n++ {
		ns = append(ns, n)
	}
	tapes := [][]byte{nil, bytes.Repeat([]byte{1}, 64), bytes.Repeat([]byte{0x55}, 64), bytes.Repeat([]byte{0xaa}, 64), bytes.Repeat([]byte{0xff}, 8)}
	ctr := make([]byte, 64)
	for i := range ctr {
		ctr[i] = byte(i*37 + 11)
	}
	tapes = append(tapes, ctr)
	var cnt atomic.Int64
	ev.Par(len(ns), func(i int) {
		n := ns[i]
		rg := newRig()
		rg.tp.extraZero = 64
		for ti, t := range tapes {
			o := rg.uintn(n, t)
			cnt.Add(1)
			if o.reads < 0 {
				reportHang(n, t, nil)
				continue
			}
			if o.res >= n {
				viol("uintn:out-of-range", fmt.Sprintf("UintN(%d) = %d on tape #%d", n, o.res, ti), replay{Kind: "uintn", N: n, Tape: ev.Hex(t), Got: fmt.Sprint(o.res)})
			}
		}
	})
	evals.Add(cnt.Load())
	run.Set("range_cases", cnt.Load())
}

// auxFrequencies is an AUXILIARY pass, not the deciding step: with the real ChaCha20 core and fixed
// seeds it draws 2^18 values per n and compares the frequency of the parity, of the upper half and
// (n <= 512) of every value with the uniform expectation. It exists for implementations whose use of
// the source the enumeration above cannot take apart; the threshold is 12 standard deviations on
// fixed seeds (a deterministic computation: the same tree gives the same numbers on every run, and a
// uniform sampler is about 10^-33 away from it), so it cannot make a correct sampler fail.
func auxFrequencies() {
	ns := []uint64{3, 5, 6, 7, 10, 100, 129, 255, 257, 258, 300, 511, 1000, 1025, 40000, 65537, 65539, 1<<24 + 1, 1<<32 + 1, 1<<32 + 3, 1<<40 + 3, 3 << 62}
	const draws = 1 << 18
	type res struct {
		n    uint64
		what string
		z    float64
	}
	out := make([][]res, len(ns))
	ev.Par(len(ns), func(i int) {
		n := ns[i]
		seed := make([]byte, random.Chacha20SeedLen)
		for k := range seed {
			seed[k] = byte(k*13+7) ^ byte(n) ^ byte(n>>8)
		}
		p, err := random.NewChacha20PRG(seed, []byte("c15aux"))
		if err != nil {
			run.Fatal("%v", err)
		}
		var odd, upper int
		var hist []int
		if n <= 512 {
			hist = make([]int, n)
		}
		for d := 0; d < draws; d++ {
			v := p.UintN(n)
			if v >= n {
				viol("uintn:out-of-range", fmt.Sprintf("UintN(%d) = %d with the real core", n, v), replay{Kind: "uintn", N: n, Got: fmt.Sprint(v)})
				return
			}
			if v&1 == 1 {
				odd++
			}
			if v >= n-n/2 { // the upper floor(n/2) values
				upper++
			}
			if hist != nil {
				hist[v]++
			}
		}
		z := func(count int, prob float64) float64 {
			mean := prob * draws
			return (float64(count) - mean) / math.Sqrt(draws*prob*(1-prob))
		}
		pOdd := float64(n/2) / float64(n)
		out[i] = append(out[i], res{n, "parity", z(odd, pOdd)}, res{n, "upper-half", z(upper, float64(n/2)/float64(n))})
		if hist != nil {
			worst := 0.0
			for _, c := range hist {
				if zz := math.Abs(z(c, 1/float64(n))); zz > worst {
					worst = zz
				}
			}
			out[i] = append(out[i], res{n, "single-value", worst})
		}
	})
	worst := 0.0
	for _, rs := range out {
		for _, r := range rs {
			a := math.Abs(r.z)
			if a > worst {
				worst = a
			}
			if a > 12 {
				viol("aux-frequency:"+r.what, fmt.Sprintf("auxiliary pass (real ChaCha20 core, fixed seed, %d draws): UintN(%d) deviates from uniform by %.1f standard deviations in the %s statistic", draws, r.n, r.z, r.what),
					replay{Kind: "aux-frequency", N: r.n, Note: fmt.Sprintf("statistic %s, z = %.2f, %d draws", r.what, r.z, draws)})
			}
		}
	}
	evals.Add(int64(len(ns)) * draws)
	run.Set("aux_frequency_pass", map[string]any{"n": ns, "draws_per_n": draws, "largest_deviation_in_standard_deviations": math.Round(worst*100) / 100, "threshold": 12, "role": "auxiliary (sampled with fixed seeds); not the deciding step"})
}


// auxSwapFrequencies is the second AUXILIARY pass (sampled with fixed seeds, never the deciding
// step): Shuffle(n) and Samples(n,m) with the real ChaCha20 core. In a uniform partial shuffle the
// second index of the swap of step i is uniform over the n-i remaining positions whatever happened
// before; the pass counts, per step, how often every position was chosen and compares with the
// expectation (cells whose expectation is below 30 are skipped; threshold 12 standard deviations).
// It covers population sizes for which the tape tree is not enumerable (every n from 2 to 24 and a
// few larger ones) and implementations whose use of the source the enumeration cannot take apart.
func auxSwapFrequencies() {
	type job struct{ n, m, draws int }
	var jobs []job
	for n := 2; n <= 24; n++ {
		ms := map[int]bool{1: true, n / 2: true, n - 2: true, n - 1: true, n: true}
		for m := range ms {
			if m >= 1 && m <= n {
				jobs = append(jobs, job{n, m, 1 << 15})
			}
		}
	}
	for _, n := range []int{32, 33, 64, 100, 256, 257, 300} {
		jobs = append(jobs, job{n, n, 1 << 11}, job{n, 3, 1 << 13})
	}
	sort.Slice(jobs, func(a, b int) bool {
		if jobs[a].n != jobs[b].n {
			return jobs[a].n < jobs[b].n
		}
		return jobs[a].m < jobs[b].m
	})
	worst := make([]float64, len(jobs))
	var total atomic.Int64
	ev.Par(len(jobs), func(ji int) {
		j := jobs[ji]
		seed := make([]byte, random.Chacha20SeedLen)
		for k := range seed {
			seed[k] = byte(k*29+3) ^ byte(j.n) ^ byte(j.m<<3)
		}
		p, err := random.NewChacha20PRG(seed, []byte("c15swap"))
		if err != nil {
			run.Fatal("%v", err)
		}
		counts := make([][]int, j.m)
		for i := range counts {
			counts[i] = make([]int, j.n-i)
		}
		bad := ""
		for d := 0; d < j.draws && bad == ""; d++ {
			step := 0
			sw := func(a, b int) {
				if step < j.m && a == step && b >= a && b < j.n {
					counts[step][b-a]++
				} else if bad == "" {
					bad = fmt.Sprintf("swap(%d,%d) as swap number %d", a, b, step)
				}
				step++
			}
			var err error
			if j.m == j.n {
				err = p.Shuffle(j.n, sw)
			} else {
				err = p.Samples(j.n, j.m, sw)
			}
			if err != nil {
				bad = "error: " + err.Error()
			} else if step != j.m && !(j.m == j.n && step == j.n) {
				// (a final no-op swap may or may not be reported; anything else is a wrong count)
				if !(step == j.m-1 && j.m == j.n) {
					bad = fmt.Sprintf("%d swaps for m=%d", step, j.m)
				}
			}
		}
		total.Add(int64(j.draws))
		name := fmt.Sprintf("Samples(%d,%d)", j.n, j.m)
		if j.m == j.n {
			name = fmt.Sprintf("Shuffle(%d)", j.n)
		}
		if bad != "" {
			// the swap protocol differs from "step i swaps position i with a position in [i,n)": this
			// pass does not apply to such an implementation (the validity of the result is decided elsewhere)
			worst[ji] = -1
			return
		}
		for i := range counts {
			cells := float64(j.n - i)
			exp := float64(j.draws) / cells
			if exp < 30 || cells < 2 {
				continue
			}
			sd := math.Sqrt(float64(j.draws) * (1 / cells) * (1 - 1/cells))
			for b, c := range counts[i] {
				z := (float64(c) - exp) / sd
				if math.Abs(z) > worst[ji] {
					worst[ji] = math.Abs(z)
				}
				if math.Abs(z) > 12 {
					viol("aux-frequency:swap-target", fmt.Sprintf("auxiliary pass (real ChaCha20 core, fixed seed, %d calls): in %s the swap of step %d chose position %d in %d calls, expected about %.0f (%.1f standard deviations)", j.draws, name, i, i+b, c, exp, z),
						replay{Kind: "aux-frequency", NInt: j.n, M: j.m, Note: fmt.Sprintf("%s step %d target %d: %d of %d calls, z = %.1f", name, i, i+b, c, j.draws, z)})
					return
				}
			}
		}
	})
	w, skipped := 0.0, 0
	for _, x := range worst {
		if x < 0 {
			skipped++
		} else if x > w {
			w = x
		}
	}
	evals.Add(total.Load())
	run.Set("aux_swap_frequency_pass", map[string]any{"jobs": len(jobs), "calls": total.Load(), "largest_deviation_in_standard_deviations": math.Round(w*100) / 100, "threshold": 12,
		"jobs_not_applicable_because_the_swap_protocol_differs": skipped, "shapes": "Shuffle(n) and Samples(n,m) for every n = 2..24 with m in {1, n/2, n-2, n-1, n}; n in {32,33,64,100,256,257,300} with m in {3, n}", "role": "auxiliary (sampled with fixed seeds); not the deciding step"})
}
