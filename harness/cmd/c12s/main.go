//go:build verif

// c12s: the lazily cached public key of a private key under concurrent FIRST use (part of C12:
// "the public key of every private key ... is cached consistently").
// Stateless exploration under the controlled scheduler (instrumented variant): two threads share
// ONE private-key object whose PublicKey() has never been called and each runs one operation that
// needs or fills the cache; all schedules within the preemption bound over the statement-level
// scheduling points of bls.go / bls_multisig.go / ecdsa.go. Oracle: every call returns what it
// returns when run alone (the reference value scalar x generator is checked by the plain C12 check).
// Race-freedom of the cache is NOT demanded (the property does not claim it); only results.
// Output: one JSON line per program; run by cmd/c12 (path in C12_SCHED_BIN).
package main

import (
	"bufio"
	"encoding/json"
	"fmt"
	"os"
	"strings"

	crypto "github.com/onflow/crypto"
	"github.com/onflow/crypto/hash"
	"github.com/onflow/crypto/zzverif/vsched"
)

type keyKind struct {
	name string
	mk   func() crypto.PrivateKey
}

func must[T any](v T, err error) T {
	if err != nil {
		fmt.Fprintf(os.Stderr, "HARNESS-ERROR: %v\n", err)
		os.Exit(2)
	}
	return v
}

func seed(b byte, n int) []byte {
	s := make([]byte, n)
	for i := range s {
		s[i] = b + byte(i*7)
	}
	return s
}

var kinds = []keyKind{
	{"BLS generated", func() crypto.PrivateKey { return must(crypto.GeneratePrivateKey(crypto.BLSBLS12381, seed(3, 48))) }},
	{"BLS decoded", func() crypto.PrivateKey {
		b := make([]byte, 32)
		b[0], b[31] = 0x11, 0x07
		return must(crypto.DecodePrivateKey(crypto.BLSBLS12381, b))
	}},
	{"BLS aggregated", func() crypto.PrivateKey {
		a := must(crypto.GeneratePrivateKey(crypto.BLSBLS12381, seed(5, 32)))
		b := must(crypto.GeneratePrivateKey(crypto.BLSBLS12381, seed(9, 32)))
		return must(crypto.AggregateBLSPrivateKeys([]crypto.PrivateKey{a, b}))
	}},
	{"ECDSA-P256 generated", func() crypto.PrivateKey { return must(crypto.GeneratePrivateKey(crypto.ECDSAP256, seed(11, 32))) }},
	{"ECDSA-secp256k1 decoded", func() crypto.PrivateKey {
		b := make([]byte, 32)
		b[1], b[31] = 0x22, 0x05
		return must(crypto.DecodePrivateKey(crypto.ECDSASecp256k1, b))
	}},
}

type opDef struct {
	name    string
	blsOnly bool
	do      func(sk crypto.PrivateKey) string
}

var msg = []byte("c12 concurrent first use")

var ops = []opDef{
	{"PublicKey().Encode()", false, func(sk crypto.PrivateKey) string { return fmt.Sprintf("%x", sk.PublicKey().Encode()) }},
	{"PublicKey().EncodeCompressed()", false, func(sk crypto.PrivateKey) string { return fmt.Sprintf("%x", sk.PublicKey().EncodeCompressed()) }},
	{"PublicKey().Equals(PublicKey())", false, func(sk crypto.PrivateKey) string { return fmt.Sprint(sk.PublicKey().Equals(sk.PublicKey())) }},
	{"Encode()", false, func(sk crypto.PrivateKey) string { return fmt.Sprintf("%x", sk.Encode()) }},
	{"BLSGeneratePOP(sk)", true, func(sk crypto.PrivateKey) string {
		s, err := crypto.BLSGeneratePOP(sk)
		return fmt.Sprintf("%x,%v", []byte(s), err)
	}},
	{"Sign then PublicKey().Verify", true, func(sk crypto.PrivateKey) string {
		h := crypto.NewExpandMsgXOFKMAC128("c12s")
		s, err := sk.Sign(msg, h)
		if err != nil {
			return "sign-error:" + err.Error()
		}
		ok, err := sk.PublicKey().Verify(s, msg, crypto.NewExpandMsgXOFKMAC128("c12s"))
		return fmt.Sprintf("%x,%v,%v", []byte(s), ok, err)
	}},
}

type viol struct {
	Key      string   `json:"key"`
	What     string   `json:"what"`
	Program  string   `json:"program"`
	KeyKind  int      `json:"key_kind"`
	Ops      []int    `json:"ops"`
	Schedule []int    `json:"schedule"`
	Detail   []string `json:"detail"`
}

type result struct {
	Desc       string `json:"desc"`
	Execs      int    `json:"execs"`
	Points     int    `json:"points"`
	Bound      int    `json:"bound"`
	Replayed   int    `json:"replayed"`
	Capped     bool   `json:"capped"`
	Violations []viol `json:"violations,omitempty"`
}

func short(s string) string {
	if len(s) > 100 {
		return s[:100] + "..."
	}
	return s
}

func runProgram(ki int, a, b int, bound, maxExec int) result {
	kk := kinds[ki]
	desc := fmt.Sprintf("%s: [%s] || [%s]", kk.name, ops[a].name, ops[b].name)
	res := result{Desc: desc, Bound: bound}
	solo := []string{ops[a].do(kk.mk()), ops[b].do(kk.mk())}
	outs := make([]string, 2)
	pr := []int{a, b}
	if c01Want != "" {
		for t, o := range pr {
			if strings.Contains(ops[o].name, "Verify") && !strings.Contains(ops[o].name, "Verify-false") && solo[t] != c01Want {
				res.Violations = append(res.Violations, viol{keyPrefix + ":verdicts-wrong-when-run-alone", ops[o].name + " run alone gives " + solo[t] + ", want " + c01Want, desc, ki, pr, nil, nil})
				return res
			}
		}
	}
	mk := func() []func() {
		sk := kk.mk() // cold: PublicKey() never called on this object
		outs[0], outs[1] = "", ""
		return []func(){
			func() { outs[0] = ops[a].do(sk) },
			func() { outs[1] = ops[b].do(sk) },
		}
	}
	var last []int
	var lastOuts string
	check := func(x *vsched.Exec) {
		last, lastOuts = x.Choices(), strings.Join(outs, "|")
		add := func(key, what string, detail ...string) {
			if len(res.Violations) < 3 {
				res.Violations = append(res.Violations, viol{key, what, desc, ki, pr, x.Choices(), detail})
			}
		}
		if x.Diverged != "" {
			fmt.Fprintf(os.Stderr, "HARNESS-ERROR: schedule replay diverged: %s (%s)\n", x.Diverged, desc)
			os.Exit(2)
		}
		if x.Deadlock {
			add(keyPrefix+":deadlock", "no enabled thread")
			return
		}
		if x.Panic != "" {
			add(keyPrefix+":panic", "panic: "+x.Panic)
			return
		}
		for t := 0; t < 2; t++ {
			if outs[t] != solo[t] {
				add(keyPrefix+":result-differs-from-solo:"+strings.Fields(kk.name)[0],
					fmt.Sprintf("%s %s returned a different result than when run alone", ops[pr[t]].name, situation),
					"concurrent: "+short(outs[t]), "alone:      "+short(solo[t]))
			}
		}
	}
	st := vsched.Explore(mk, bound, maxExec, nil, check)
	res.Execs, res.Points, res.Capped = st.Executions, st.Points, st.Capped
	if last != nil {
		for try := 0; try < 40 && res.Replayed == 0; try++ {
			x := vsched.Run(mk(), last, nil)
			if x.Diverged == "" && strings.Join(outs, "|") == lastOuts {
				res.Replayed = 1
			}
		}
	}
	return res
}

var (
	replayV viol
	replayG *viol
	// C12S_MODE=c01: the same explorer serves C01 ("Verify accepts exactly sk*H(m)") for public keys
	// obtained from a private key whose cache is being filled concurrently
	property  = "C12"
	situation = "on a private key whose public key was being computed for the first time by another goroutine"
	keyPrefix = "publickey-first-use"
)

// c01Mode replaces the operation list: every thread takes pk := sk.PublicKey() of the shared cold
// private key and offers it a fixed candidate list (the valid signature, the identity signature - which an all-zero
// key accepts); the verdicts must be exactly true,false - the absolute C01 oracle, not only "as when run alone".
func c01Mode() {
	property, keyPrefix = "C01", "verify-under-concurrent-first-use"
	type cands struct{ sigs [][]byte }
	memo := map[string]*cands{}
	candsOf := func(sk crypto.PrivateKey) *cands {
		k := fmt.Sprintf("%x", sk.Encode())
		if c, ok := memo[k]; ok {
			return c
		}
		twin := must(crypto.DecodePrivateKey(crypto.BLSBLS12381, sk.Encode())) // never the shared object
		other := must(crypto.GeneratePrivateKey(crypto.BLSBLS12381, seed(41, 32)))
		h := func() hash.Hasher { return crypto.NewExpandMsgXOFKMAC128("c12s") }
		valid := must(twin.Sign(msg, h()))
		// the negation flips the sign bit of the compressed encoding
		neg := append([]byte{}, valid...)
		neg[0] ^= 0x20
		_, _ = neg, other
		c := &cands{sigs: [][]byte{valid, append([]byte{0xc0}, make([]byte, 47)...)}}
		memo[k] = c
		return c
	}
	for _, kk := range kinds[:3] {
		candsOf(kk.mk())
	}
	verdicts := func(pk crypto.PublicKey, c *cands) string {
		var out []string
		for _, sg := range c.sigs {
			ok, err := pk.Verify(sg, msg, crypto.NewExpandMsgXOFKMAC128("c12s"))
			out = append(out, fmt.Sprintf("%v,%v", ok, err))
		}
		return strings.Join(out, " ")
	}
	ops = []opDef{
		{"PublicKey().Verify(valid, identity)", true, func(sk crypto.PrivateKey) string {
			return verdicts(sk.PublicKey(), memo[fmt.Sprintf("%x", sk.Encode())])
		}},
		{"PublicKey().Encode()", false, func(sk crypto.PrivateKey) string { return fmt.Sprintf("%x", sk.PublicKey().Encode()) }},
		{"BLSGeneratePOP(sk)", true, func(sk crypto.PrivateKey) string {
			s, err := crypto.BLSGeneratePOP(sk)
			return fmt.Sprintf("%x,%v", []byte(s), err)
		}},
		{"PublicKey() twice, Verify under the second", true, func(sk crypto.PrivateKey) string {
			_ = sk.PublicKey()
			return verdicts(sk.PublicKey(), memo[fmt.Sprintf("%x", sk.Encode())])
		}},
	}
	c01Want = "true,<nil> false,<nil>"
}

var c01Want string

// c16Mode: proofs of possession of TWO different keys generated / verified at the same time (whatever
// package-level state the PoP path keeps - the shared PoP hasher, scratch buffers - is shared between
// them): BLSGeneratePOP(sk) is sk's signature over its own key bytes and BLSVerifyPOP(pk, that) is true,
// under every schedule. The thread's private key is the shared cold object of the other modes (key A);
// key B is a second, warm key pair.
func c16Mode() {
	property, keyPrefix = "C16", "pop-under-concurrent-pop-calls"
	situation = "while another goroutine was generating / verifying a proof of possession"
	skB := must(crypto.GeneratePrivateKey(crypto.BLSBLS12381, seed(91, 32)))
	pkB := must(crypto.DecodePublicKey(crypto.BLSBLS12381, skB.PublicKey().Encode()))
	popB := must(crypto.BLSGeneratePOP(skB))
	popOf := map[string][]byte{}
	pkOf := map[string]crypto.PublicKey{}
	for _, kk := range kinds[:3] {
		sk := kk.mk()
		k := fmt.Sprintf("%x", sk.Encode())
		popOf[k] = must(crypto.BLSGeneratePOP(kk.mk()))
		pkOf[k] = must(crypto.DecodePublicKey(crypto.BLSBLS12381, sk.PublicKey().Encode()))
	}
	vs := func(ok bool, err error) string { return fmt.Sprintf("%v,%v", ok, err) }
	ops = []opDef{
		{"BLSGeneratePOP(skA)", true, func(sk crypto.PrivateKey) string {
			s, err := crypto.BLSGeneratePOP(sk)
			return fmt.Sprintf("%x,%v", []byte(s), err)
		}},
		{"BLSVerifyPOP(pkA,popA) Verify", true, func(sk crypto.PrivateKey) string {
			k := fmt.Sprintf("%x", sk.Encode())
			return vs(crypto.BLSVerifyPOP(pkOf[k], popOf[k]))
		}},
		{"BLSGeneratePOP(skB)", true, func(sk crypto.PrivateKey) string {
			s, err := crypto.BLSGeneratePOP(skB)
			return fmt.Sprintf("%x,%v", []byte(s), err)
		}},
		{"BLSVerifyPOP(pkB,popB) Verify", true, func(sk crypto.PrivateKey) string { return vs(crypto.BLSVerifyPOP(pkB, popB)) }},
		{"BLSVerifyPOP(pkB,popA) Verify-false", true, func(sk crypto.PrivateKey) string {
			return vs(crypto.BLSVerifyPOP(pkB, popOf[fmt.Sprintf("%x", sk.Encode())]))
		}},
	}
	c01Want = "true,<nil>"
}

func main() {
	thorough := len(os.Args) > 1 && os.Args[1] == "thorough"
	vsched.Filter = func(loc string) bool { return !strings.HasPrefix(loc, "bls_thresholdsign.go:") && !strings.HasPrefix(loc, "hash/") }
	bound, maxExec := 2, 20000
	if thorough {
		bound, maxExec = 3, 200000
	}
	w := bufio.NewWriter(os.Stdout)
	defer w.Flush()
	if os.Getenv("C12S_MODE") == "c01" {
		c01Mode()
	}
	if os.Getenv("C12S_MODE") == "c16" {
		c16Mode()
	}
	if len(os.Args) > 2 && os.Args[1] == "--replay" {
		var v viol
		b, err := os.ReadFile(os.Args[2])
		if err == nil {
			var f struct {
				Replay viol `json:"replay"`
			}
			err = json.Unmarshal(b, &f)
			v = f.Replay
		}
		if err != nil || len(v.Ops) != 2 {
			fmt.Fprintln(os.Stderr, "HARNESS-ERROR: not a c12s replay file")
			os.Exit(2)
		}
		replayV = v
		if v.KeyKind < 0 {
			replayG = &v
		}
	}
	if len(os.Args) > 2 && os.Args[1] == "--replay" && replayG == nil {
		v := replayV
		kk := kinds[v.KeyKind]
		sk := kk.mk()
		outs := make([]string, 2)
		vsched.Run([]func(){func() { outs[0] = ops[v.Ops[0]].do(sk) }, func() { outs[1] = ops[v.Ops[1]].do(sk) }}, v.Schedule, nil)
		bad := false
		for t := 0; t < 2; t++ {
			solo := ops[v.Ops[t]].do(kk.mk())
			fmt.Printf("T%d %s equal-to-solo=%v\n", t, ops[v.Ops[t]].name, outs[t] == solo)
			bad = bad || outs[t] != solo
		}
		if bad {
			fmt.Printf("VIOLATION property=%s replay=%s\n", property, os.Args[2])
			os.Exit(1)
		}
		return
	}
	// second family: key generation / decoding calls that share NO object - only whatever
	// package-level state the library keeps (algorithm singletons, scratch buffers)
	type gop struct {
		name string
		do   func() string
	}
	keyStr := func(sk crypto.PrivateKey, err error) string {
		if err != nil {
			return "err:" + err.Error()
		}
		return fmt.Sprintf("%x/%x", sk.Encode(), sk.PublicKey().Encode())
	}
	pubStr := func(pk crypto.PublicKey, err error) string {
		if err != nil {
			return "err:" + err.Error()
		}
		return fmt.Sprintf("%x", pk.EncodeCompressed())
	}
	blsPkBytes := kinds[0].mk().PublicKey().Encode()
	p256PkBytes := kinds[3].mk().PublicKey().Encode()
	blsSkBytes := kinds[1].mk().Encode()
	gops := []gop{
		{"GeneratePrivateKey(BLS, seed A 32B)", func() string { return keyStr(crypto.GeneratePrivateKey(crypto.BLSBLS12381, seed(21, 32))) }},
		{"GeneratePrivateKey(BLS, seed B 64B)", func() string { return keyStr(crypto.GeneratePrivateKey(crypto.BLSBLS12381, seed(77, 64))) }},
		{"GeneratePrivateKey(BLS, seed C 256B)", func() string { return keyStr(crypto.GeneratePrivateKey(crypto.BLSBLS12381, seed(5, 256))) }},
		{"GeneratePrivateKey(P-256, seed A)", func() string { return keyStr(crypto.GeneratePrivateKey(crypto.ECDSAP256, seed(21, 32))) }},
		{"GeneratePrivateKey(P-256, seed B 64B)", func() string { return keyStr(crypto.GeneratePrivateKey(crypto.ECDSAP256, seed(77, 64))) }},
		{"GeneratePrivateKey(secp256k1, seed B 64B)", func() string { return keyStr(crypto.GeneratePrivateKey(crypto.ECDSASecp256k1, seed(77, 64))) }},
		{"DecodePrivateKey(BLS)", func() string { return keyStr(crypto.DecodePrivateKey(crypto.BLSBLS12381, blsSkBytes)) }},
		{"DecodePublicKey(BLS)", func() string { return pubStr(crypto.DecodePublicKey(crypto.BLSBLS12381, blsPkBytes)) }},
		{"DecodePublicKey(P-256)", func() string { return pubStr(crypto.DecodePublicKey(crypto.ECDSAP256, p256PkBytes)) }},
	}
	runG := func(a, b int, bound int) result {
		desc := fmt.Sprintf("no shared object: [%s] || [%s]", gops[a].name, gops[b].name)
		res := result{Desc: desc, Bound: bound}
		solo := []string{gops[a].do(), gops[b].do()}
		outs := make([]string, 2)
		mk := func() []func() {
			outs[0], outs[1] = "", ""
			return []func(){func() { outs[0] = gops[a].do() }, func() { outs[1] = gops[b].do() }}
		}
		var last []int
		var lastOuts string
		check := func(x *vsched.Exec) {
			last, lastOuts = x.Choices(), strings.Join(outs, "|")
			if x.Diverged != "" {
				fmt.Fprintf(os.Stderr, "HARNESS-ERROR: schedule replay diverged: %s (%s)\n", x.Diverged, desc)
				os.Exit(2)
			}
			add := func(key, what string, detail ...string) {
				if len(res.Violations) < 3 {
					res.Violations = append(res.Violations, viol{key, what, desc, -1, []int{a, b}, x.Choices(), detail})
				}
			}
			if x.Deadlock || x.Panic != "" {
				add("keygen-concurrent:deadlock-or-panic", "deadlock or panic: "+x.Panic)
				return
			}
			for t, o := range []int{a, b} {
				if outs[t] != solo[t] {
					add("keygen-concurrent:result-differs-from-solo", fmt.Sprintf("%s returned a different key while %s was running in another goroutine than when run alone", gops[o].name, gops[[]int{a, b}[1-t]].name),
						"concurrent: "+short(outs[t]), "alone:      "+short(solo[t]))
				}
			}
		}
		st := vsched.Explore(mk, bound, maxExec, nil, check)
		res.Execs, res.Points, res.Capped = st.Executions, st.Points, st.Capped
		if last != nil {
			for try := 0; try < 40 && res.Replayed == 0; try++ {
				x := vsched.Run(mk(), last, nil)
				if x.Diverged == "" && strings.Join(outs, "|") == lastOuts {
					res.Replayed = 1
				}
			}
		}
		return res
	}
	if replayG != nil {
		// re-explore the one program: deterministic, reports the violation again if it is still there
		r := runG(replayG.Ops[0], replayG.Ops[1], bound)
		fmt.Printf("%s: %d schedules, %d violations\n", r.Desc, r.Execs, len(r.Violations))
		if len(r.Violations) > 0 {
			fmt.Printf("VIOLATION property=%s replay=%s\n", property, os.Args[2])
			os.Exit(1)
		}
		return
	}
	// sharding: c12s <tier> <k> <n> runs the programs whose index is k modulo n
	shardK, shardN := 0, 1
	if len(os.Args) > 3 {
		fmt.Sscan(os.Args[2], &shardK)
		fmt.Sscan(os.Args[3], &shardN)
	}
	pi := -1
	for ki, kk := range kinds {
		bls := strings.HasPrefix(kk.name, "BLS")
		if !bls && property != "C12" {
			continue
		}
		for a := range ops {
			for b := a; b < len(ops); b++ {
				if !bls && (ops[a].blsOnly || ops[b].blsOnly) {
					continue
				}
				pi++
				if pi%shardN != shardK {
					continue
				}
				r := runProgram(ki, a, b, bound, maxExec)
				js, _ := json.Marshal(r)
				w.Write(js)
				w.WriteByte('\n')
				w.Flush()
			}
		}
	}
	for a := range gops {
		if property != "C12" {
			break
		}
		for b := a; b < len(gops); b++ {
			pi++
			if pi%shardN != shardK {
				continue
			}
			r := runG(a, b, bound)
			js, _ := json.Marshal(r)
			w.Write(js)
			w.WriteByte('\n')
			w.Flush()
		}
	}
}
