// dkgprobe: development helper — explore one configuration/script and print sizes.
package main

import (
	"fmt"
	"os"
	"strconv"
	"time"

	"verif/harness/dkgsys"
)

func main() {
	// usage: dkgprobe <proto 1=FVSSQ 2=JF> <n> <t> <dealer> <byz> [maxStates [reorderBound]]
	a := os.Args[1:]
	iv := func(i int) int { v, _ := strconv.Atoi(a[i]); return v }
	cfg := &dkgsys.Config{Proto: dkgsys.Protocol(iv(0)), N: iv(1), T: iv(2), Dealer: iv(3), Byz: []int{iv(4)}}
	max := 0
	if len(a) > 5 {
		max = iv(5)
	}
	t0 := time.Now()
	rb := -1
	if len(a) > 6 {
		rb = iv(6)
	}
	rep, err := dkgsys.ExploreBounded(cfg, nil, max, rb, nil)
	if err != nil {
		panic(err)
	}
	fmt.Println(cfg, "states", rep.States, "transitions", rep.Transitions, "terminals", len(rep.Terminals), "capped", rep.Capped, time.Since(t0), "cache hits/misses", dkgsys.LocalHits.Load(), dkgsys.LocalMisses.Load())
}
