// C11: ECDSA verification is exact on P-256 and secp256k1 for every hasher.
//
// Exhaustive enumeration of the product of small alphabets
//
//	curves x keys x messages x hashers x signature candidates
//
// where every candidate is judged by the independent big-integer model refecdsa.Verify on
// the digest obtained by calling the hasher ourselves; SignatureFormatCheck is compared with
// (len==64 and 1<=r,s<n) on every candidate, and every format-false candidate is swept over
// every key, message and hasher of the alphabets. No verdict is assumed: the twin, the cross
// cases and the bit flips all get their expected verdict from the reference.
package main

import (
	"bytes"
	"encoding/json"
	"fmt"
	"math/big"
	"os"
	"sort"
	"strings"
	"sync"
	"time"

	crypto "github.com/onflow/crypto"
	"github.com/onflow/crypto/hash"

	"verif/harness/ev"
	"verif/harness/ref/refecdsa"
	"verif/harness/ref/refsha2"
)

var run *ev.Run

// ---------------------------------------------------------------- alphabets

type curveSpec struct {
	name string
	algo crypto.SigningAlgorithm
	c    *refecdsa.Curve
	keys []*keySpec
}

type keySpec struct {
	name      string
	d         *big.Int
	qx, qy    *big.Int
	raw, comp []byte
	seed      []byte // non-nil: key comes from GeneratePrivateKey(seed)
}

type hasherSpec struct {
	name string
	stub bool // digest does not depend on the message
	mk   func() hash.Hasher
}

// stubHasher is our own hash.Hasher returning a chosen digest for every input.
type stubHasher struct {
	digest []byte
	size   int
}

func (s *stubHasher) Algorithm() hash.HashingAlgorithm { return hash.UnknownHashingAlgorithm }
func (s *stubHasher) Size() int                        { return s.size }
func (s *stubHasher) ComputeHash([]byte) hash.Hash     { return append(hash.Hash{}, s.digest...) }
func (s *stubHasher) Write(p []byte) (int, error)      { return len(p), nil }
func (s *stubHasher) SumHash() hash.Hash               { return append(hash.Hash{}, s.digest...) }
func (s *stubHasher) Reset()                           {}

func stub(name string, digest []byte) *hasherSpec {
	return &hasherSpec{name: name, stub: true, mk: func() hash.Hasher { return &stubHasher{digest, len(digest)} }}
}

var kmacKey = []byte("C11-kmac-key-0123456789abcdef")
var kmacCust = []byte("C11 customizer")

// used wraps a hasher constructor: the hasher is handed over after earlier use (w = Write of a prefix,
// c = ComputeHash of another message, s = SumHash), without a Reset.
func used(mk func() hash.Hasher, how string) func() hash.Hasher {
	return func() hash.Hasher {
		h := mk()
		for _, c := range how {
			switch c {
			case 'w':
				_, _ = h.Write([]byte("bytes absorbed before the hasher is handed to ECDSA"))
			case 'c':
				_ = h.ComputeHash([]byte("an unrelated message"))
			case 's':
				_ = h.SumHash()
			}
		}
		return h
	}
}

func kmac(size int) func() hash.Hasher {
	return func() hash.Hasher {
		hh, err := hash.NewKMAC_128(kmacKey, kmacCust, size)
		if err != nil {
			run.Fatal("NewKMAC_128(size %d): %v", size, err)
		}
		return hh
	}
}

func b32(v *big.Int) []byte { return v.FillBytes(make([]byte, 32)) }

var (
	curves  []*curveSpec
	hashers []*hasherSpec
	msgs    [][]byte
	two256m = new(big.Int).Sub(new(big.Int).Lsh(big.NewInt(1), 256), big.NewInt(1))
)

func chain(tag string, n int) []byte {
	var out []byte
	cur := refsha2.Sum256([]byte(fmt.Sprintf("%s|seed=%d", tag, run.Seed)))
	for len(out) < n {
		out = append(out, cur...)
		cur = refsha2.Sum256(cur)
	}
	return out[:n]
}

func setup() {
	curves = []*curveSpec{
		{name: "P-256", algo: crypto.ECDSAP256, c: refecdsa.P256()},
		{name: "secp256k1", algo: crypto.ECDSASecp256k1, c: refecdsa.Secp256k1()},
	}
	for _, cs := range curves {
		nm1 := new(big.Int).Sub(cs.c.N, big.NewInt(1))
		seed := chain("C11 generated key "+cs.name, 32)
		gk, err := crypto.GeneratePrivateKey(cs.algo, seed)
		if err != nil {
			run.Fatal("GeneratePrivateKey: %v", err)
		}
		gd := new(big.Int).SetBytes(gk.Encode())
		for _, k := range []*keySpec{{name: "1", d: big.NewInt(1)}, {name: "2", d: big.NewInt(2)}, {name: "n-1", d: nm1}, {name: "generated", d: gd, seed: seed}} {
			k.qx, k.qy = cs.c.ScalarBaseMult(k.d)
			if k.qx == nil {
				run.Fatal("key %s on %s is zero", k.name, cs.name)
			}
			k.raw = cs.c.EncodeRaw(k.qx, k.qy)
			k.comp = cs.c.EncodeCompressed(k.qx, k.qy)
			cs.keys = append(cs.keys, k)
		}
	}
	nP, nK := curves[0].c.N, curves[1].c.N
	one := big.NewInt(1)
	d48 := append(chain("C11 48-byte stub digest", 32), bytes.Repeat([]byte{0xFF}, 16)...)
	hashers = []*hasherSpec{
		{name: "SHA2-256", mk: hash.NewSHA2_256},
		{name: "SHA2-384", mk: hash.NewSHA2_384},
		{name: "SHA3-256", mk: hash.NewSHA3_256},
		{name: "SHA3-384", mk: hash.NewSHA3_384},
		{name: "Keccak-256", mk: hash.NewKeccak_256},
		{name: "KMAC128-32", mk: kmac(32)},
		{name: "KMAC128-64", mk: kmac(64)},
		// hashers in NON-INITIAL states (ComputeHash is documented to hash its input whatever was written
		// before): in the middle of a stream, after an unrelated ComputeHash plus a Write, after Write+SumHash
		{name: "SHA3-256[mid-stream]", mk: used(hash.NewSHA3_256, "w")},
		{name: "SHA2-256[after ComputeHash and Write]", mk: used(hash.NewSHA2_256, "cw")},
		{name: "Keccak-256[after Write and SumHash]", mk: used(hash.NewKeccak_256, "ws")},
		{name: "KMAC128-32[mid-stream]", mk: used(kmac(32), "w")},
		stub("stub-0", make([]byte, 32)),
		stub("stub-nP256", b32(nP)),
		stub("stub-nP256+1", b32(new(big.Int).Add(nP, one))),
		stub("stub-nK1", b32(nK)),
		stub("stub-nK1+1", b32(new(big.Int).Add(nK, one))),
		stub("stub-2^256-1", b32(two256m)),
		stub("stub-48bytes", d48),
	}
	msgs = [][]byte{{}, []byte("abc"), chain("C11 200-byte message", 200)}
}

// libKeys builds fresh library objects for a key (never shared between goroutines).
type pkVar struct {
	name string
	pk   crypto.PublicKey
}

func libKeys(cs *curveSpec, k *keySpec) (crypto.PrivateKey, []pkVar) {
	var sk crypto.PrivateKey
	var err error
	if k.seed != nil {
		sk, err = crypto.GeneratePrivateKey(cs.algo, k.seed)
	} else {
		sk, err = crypto.DecodePrivateKey(cs.algo, b32(k.d))
	}
	if err != nil {
		run.Fatal("building private key %s/%s: %v", cs.name, k.name, err)
	}
	p2, err := crypto.DecodePublicKey(cs.algo, k.raw)
	if err != nil {
		run.Fatal("DecodePublicKey %s/%s (reference point): %v", cs.name, k.name, err)
	}
	p3, err := crypto.DecodePublicKeyCompressed(cs.algo, k.comp)
	if err != nil {
		run.Fatal("DecodePublicKeyCompressed %s/%s (reference point): %v", cs.name, k.name, err)
	}
	return sk, []pkVar{{"sk.PublicKey", sk.PublicKey()}, {"DecodePublicKey", p2}, {"DecodePublicKeyCompressed", p3}}
}

// ---------------------------------------------------------------- contexts

type context struct {
	ci, ki, mi, hi int
	digest         []byte
	base           []byte // reference-made valid signature with nonce 2
}

func (x *context) cs() *curveSpec  { return curves[x.ci] }
func (x *context) key() *keySpec   { return curves[x.ci].keys[x.ki] }
func (x *context) hs() *hasherSpec { return hashers[x.hi] }
func (x *context) msg() []byte     { return msgs[x.mi] }

// tag identifies the mathematical context: the message is irrelevant for stub hashers.
func (x *context) tag() string {
	mi := x.mi
	if x.hs().stub {
		mi = 0
	}
	return fmt.Sprintf("%d.%d.%d.%d", x.ci, x.ki, mi, x.hi)
}

var contexts []*context

func ctxIndex(ci, ki, mi, hi int) int {
	return ((ci*4+ki)*len(msgs)+mi)*len(hashers) + hi
}

func sigBytes(r, s *big.Int) []byte {
	return append(b32(r), b32(s)...)
}

// ---------------------------------------------------------------- oracle

func formatOK(c *refecdsa.Curve, sig []byte) bool {
	if len(sig) != 64 {
		return false
	}
	r := new(big.Int).SetBytes(sig[:32])
	s := new(big.Int).SetBytes(sig[32:])
	return r.Sign() > 0 && s.Sign() > 0 && r.Cmp(c.N) < 0 && s.Cmp(c.N) < 0
}

var refCache sync.Map

// expected is the reference verdict for (curve, public key, digest, signature bytes).
func expected(cs *curveSpec, k *keySpec, digest, sig []byte) bool {
	if !formatOK(cs.c, sig) {
		return false
	}
	key := cs.name + "|" + k.name + "|" + string(digest) + "|" + string(sig)
	if v, ok := refCache.Load(key); ok {
		return v.(bool)
	}
	r := new(big.Int).SetBytes(sig[:32])
	s := new(big.Int).SetBytes(sig[32:])
	v := cs.c.Verify(k.qx, k.qy, digest, r, s)
	refCache.Store(key, v)
	return v
}

// ---------------------------------------------------------------- per-task accumulator

type acc struct {
	counts   map[string]int64
	distinct []string
}

func newAcc() *acc { return &acc{counts: map[string]int64{}} }
func (a *acc) flush() {
	for k, v := range a.counts {
		run.Add(k, v)
	}
	for _, d := range a.distinct {
		run.Distinct(d)
	}
}

type replay struct {
	Kind     string `json:"kind"`
	Curve    string `json:"curve"`
	Key      string `json:"key_name"`
	D        string `json:"private_scalar_hex"`
	PubRaw   string `json:"public_key_raw_hex"`
	PkVar    string `json:"public_key_object"`
	Msg      string `json:"message_hex"`
	Hasher   string `json:"hasher"`
	Digest   string `json:"digest_hex"`
	Sig      string `json:"signature_hex"`
	Expected string `json:"expected"`
	Got      string `json:"got"`
}

func mkReplay(kind string, cs *curveSpec, k *keySpec, pv string, msg []byte, hs string, digest, sig []byte, exp, got string) replay {
	return replay{kind, cs.name, k.name, ev.Hex(b32(k.d)), ev.Hex(k.raw), pv, ev.Hex(msg), hs, ev.Hex(digest), ev.Hex(sig), exp, got}
}

// checkOne runs the library on one candidate and compares with the reference.
// dkey != "" registers the case as a distinct non-trivial one.
func checkOne(a *acc, x *context, pv pkVar, kind string, sig []byte, dkey string) {
	cs, k, hs := x.cs(), x.key(), x.hs()
	exp := expected(cs, k, x.digest, sig)
	got, err := pv.pk.Verify(sig, x.msg(), hs.mk())
	a.counts["evaluations"]++
	kk := strings.SplitN(kind, "#", 2)[0]
	if err != nil {
		run.Violation(fmt.Sprintf("verify:%s:%s:%s:unexpected-error", cs.name, kk, hs.name),
			fmt.Sprintf("Verify returned error %v (verdict %v) on a hasher of size >= 32; expected (%v, nil)", err, got, exp),
			mkReplay(kind, cs, k, pv.name, x.msg(), hs.name, x.digest, sig, fmt.Sprint(exp), fmt.Sprintf("%v,%v", got, err)))
	} else if got != exp {
		what := "accepts-invalid"
		if exp {
			what = "rejects-valid"
		}
		run.Violation(fmt.Sprintf("verify:%s:%s:%s:%s", cs.name, kk, hs.name, what),
			fmt.Sprintf("Verify=%v but the reference ECDSA verdict on the leftmost 256 bits of the hasher output is %v (curve %s key %s hasher %s, candidate %s, via %s)", got, exp, cs.name, k.name, hs.name, kind, pv.name),
			mkReplay(kind, cs, k, pv.name, x.msg(), hs.name, x.digest, sig, fmt.Sprint(exp), fmt.Sprint(got)))
	}
	fexp := formatOK(cs.c, sig)
	fgot, ferr := crypto.SignatureFormatCheck(cs.algo, sig)
	if ferr != nil || fgot != fexp {
		run.Violation(fmt.Sprintf("sfc:%s:%s:%v-expected-%v", cs.name, kk, fgot, fexp),
			fmt.Sprintf("SignatureFormatCheck=%v,%v but (len==64 and 1<=r,s<n) is %v", fgot, ferr, fexp),
			mkReplay(kind, cs, k, pv.name, x.msg(), hs.name, x.digest, sig, fmt.Sprint(fexp), fmt.Sprintf("%v,%v", fgot, ferr)))
	}
	if !fgot && got {
		run.Violation(fmt.Sprintf("sfc-implies:%s:%s:%s", cs.name, kk, hs.name),
			"SignatureFormatCheck is false but Verify accepts",
			mkReplay(kind, cs, k, pv.name, x.msg(), hs.name, x.digest, sig, "false", "true"))
	}
	switch {
	case exp:
		a.counts["outcome_accept"]++
	case len(sig) != 64:
		a.counts["outcome_reject_length"]++
	case !fexp:
		a.counts["outcome_reject_range"]++
	default:
		a.counts["outcome_reject_equation"]++
	}
	if dkey != "" {
		a.distinct = append(a.distinct, dkey)
	}
}

// guard turns a panic of the library inside one task into a violation.
func guard(phase string, x *context) {
	if r := recover(); r != nil {
		run.Violation(fmt.Sprintf("panic:%s:%s:%s", phase, x.cs().name, x.hs().name), fmt.Sprintf("library panicked: %v", r),
			mkReplay("panic:"+phase, x.cs(), x.key(), "", x.msg(), x.hs().name, x.digest, x.base, "a result", fmt.Sprintf("panic: %v", r)))
	}
}

// ---------------------------------------------------------------- candidate generators

type cand struct {
	kind string
	sig  []byte
}

func validCands(x *context) []cand {
	c := x.cs().c
	var out []cand
	nm1 := new(big.Int).Sub(c.N, big.NewInt(1))
	for _, kn := range []struct {
		n string
		k *big.Int
	}{{"1", big.NewInt(1)}, {"2", big.NewInt(2)}, {"3", big.NewInt(3)}, {"n-1", nm1}} {
		r, s, ok := c.Sign(x.key().d, x.digest, kn.k)
		if !ok {
			run.Add("reference_sign_degenerate", 1)
			continue
		}
		out = append(out, cand{"ref-valid#k=" + kn.n, sigBytes(r, s)})
		out = append(out, cand{"twin#k=" + kn.n, sigBytes(r, new(big.Int).Sub(c.N, s))})
	}
	return out
}

func rangeCands(x *context) []cand {
	c := x.cs().c
	r0 := new(big.Int).SetBytes(x.base[:32])
	s0 := new(big.Int).SetBytes(x.base[32:])
	one := big.NewInt(1)
	vals := []struct {
		n string
		v *big.Int
	}{{"0", big.NewInt(0)}, {"1", one}, {"n-1", new(big.Int).Sub(c.N, one)}, {"n", c.N}, {"n+1", new(big.Int).Add(c.N, one)}, {"2^256-1", two256m}}
	var out []cand
	for _, v := range vals {
		out = append(out, cand{"range#r=" + v.n, sigBytes(v.v, s0)})
		out = append(out, cand{"range#s=" + v.n, sigBytes(r0, v.v)})
		for _, w := range vals {
			out = append(out, cand{"range#r=" + v.n + ",s=" + w.n, sigBytes(v.v, w.v)})
		}
	}
	out = append(out, cand{"swapped", sigBytes(s0, r0)})
	return out
}

func lengthCands(x *context) []cand {
	var out []cand
	out = append(out, cand{"length#0:nil", nil})
	for l := 0; l <= 130; l++ {
		if l == 64 {
			continue
		}
		if l < 64 {
			out = append(out, cand{fmt.Sprintf("length#%d:prefix", l), append([]byte{}, x.base[:l]...)})
			if l > 0 {
				out = append(out, cand{fmt.Sprintf("length#%d:suffix", l), append([]byte{}, x.base[64-l:]...)})
			}
		} else {
			pad := make([]byte, l-64)
			out = append(out, cand{fmt.Sprintf("length#%d:sig+zeros", l), append(append([]byte{}, x.base...), pad...)})
			out = append(out, cand{fmt.Sprintf("length#%d:zeros+sig", l), append(pad, x.base...)})
			// r and s each left-padded with zeros (a wider fixed-width encoding of the same integers)
			if (l-64)%2 == 0 {
				h := (l - 64) / 2
				w := append(append(append(make([]byte, h), x.base[:32]...), make([]byte, h)...), x.base[32:]...)
				out = append(out, cand{fmt.Sprintf("length#%d:wide-r-s", l), w})
			}
		}
	}
	return out
}

func flip(sig []byte, bit int) []byte {
	o := append([]byte{}, sig...)
	o[bit/8] ^= 0x80 >> (bit % 8)
	return o
}

// ---------------------------------------------------------------- main

func main() {
	run = ev.Start("C11", "exploration")
	if err := refecdsa.SelfTest(); err != nil {
		run.Fatal("%v", err)
	}
	setup()
	// Internal budget: under heavy machine load the run stops early with exhaustive:false (never a violation).
	run.Budget(5*time.Minute, 30*time.Minute)
	if run.Replay != "" {
		doReplay()
		return
	}
	run.Set("rule", "contexts = curves{P-256,secp256k1} x keys{1,2,n-1,GeneratePrivateKey(seed)} x messages{empty,'abc',200 bytes} x hashers{SHA2-256,SHA2-384,SHA3-256,SHA3-384,Keccak-256,KMAC128/32,KMAC128/64, stub digests 0,n_P256,n_P256+1,n_k1,n_k1+1,2^256-1, 48-byte}. "+
		"Per context: reference-made signatures with nonces {1,2,3,n-1} and their (r,n-s) twins; r,s over {0,1,n-1,n,n+1,2^256-1} (one and both coordinates); r/s swapped; every length 0..130 (prefix, suffix, zero-padded either side, widened r||s); 5 library Sign outputs; each under 3 public-key objects (sk.PublicKey, DecodePublicKey, DecodePublicKeyCompressed) for the 64-byte ones. "+
		"Constructed signatures with small r and s under a RECOVERED public key Q = r^-1(sR - eG) (R = the curve points with the two smallest x; s in {1,2,3*2^100,2^256-n-1}) per curve x hasher: (r,s) and twin accepted, every alias r+n / s+n that fits in 32 bytes rejected by Verify and by SignatureFormatCheck. All 512 single-bit flips of the nonce-2 signature (quick: one context per (curve,hasher) with key and message rotating; thorough: every context). Cross: the nonce-2 signature of every context verified under other contexts (quick: those differing in 1 or 2 of curve/key/message/hasher; thorough: all). "+
		"Every format-false candidate of a base set is swept over all keys x key objects x messages x hashers of the curve. Nil hasher and hashers (stub and KMAC128) of size 0..31 on Sign and Verify. "+
		"Expected verdict always = refecdsa.Verify on the digest from our own ComputeHash call; SignatureFormatCheck compared with (len==64 and 1<=r,s<n) on every candidate. "+
		"A case is distinct by (phase, curve, key, message (ignored for stub hashers), hasher, candidate); length-only and duplicate-digest cases are not counted as distinct.")
	run.Set("alphabet_curves", []string{"P-256", "secp256k1"})
	run.Set("alphabet_keys", []string{"1", "2", "n-1", "generated"})
	var hn []string
	for _, h := range hashers {
		hn = append(hn, h.name)
	}
	run.Set("alphabet_hashers", hn)
	run.Set("alphabet_message_lengths", []int{0, 3, 200})

	// contexts, digests (our own ComputeHash call) and base signatures
	for ci := range curves {
		for ki := 0; ki < 4; ki++ {
			for mi := range msgs {
				for hi := range hashers {
					contexts = append(contexts, &context{ci: ci, ki: ki, mi: mi, hi: hi})
				}
			}
		}
	}
	ev.Par(len(contexts), func(i int) {
		x := contexts[i]
		x.digest = x.hs().mk().ComputeHash(x.msg())
		if len(x.digest) < 32 || len(x.digest) != x.hs().mk().Size() {
			run.Fatal("hasher %s returned %d bytes", x.hs().name, len(x.digest))
		}
		r, s, ok := x.cs().c.Sign(x.key().d, x.digest, big.NewInt(2))
		if !ok {
			run.Fatal("reference Sign degenerate for base signature of context %s", x.tag())
		}
		x.base = sigBytes(r, s)
	})
	run.Set("contexts", len(contexts))

	t0 := time.Now()
	phase := func(name string) { // informational only, never an oracle
		fmt.Printf("C11 phase %s done at %.1fs, evaluations so far %d\n", name, time.Since(t0).Seconds(), run.Get("evaluations"))
	}
	var libsignMu sync.Mutex
	libsignDistinct := map[string]bool{}

	// Phase 1: per-context candidates
	ev.Par(len(contexts), func(i int) {
		x := contexts[i]
		a := newAcc()
		defer a.flush()
		defer guard("per-context", x)
		if run.Expired() {
			return
		}
		cs, k, hs := x.cs(), x.key(), x.hs()
		sk, pks := libKeys(cs, k)
		if !bytes.Equal(sk.Encode(), b32(k.d)) || !bytes.Equal(pks[0].pk.Encode(), k.raw) {
			run.Violation(fmt.Sprintf("key:%s:%s:public-key-mismatch", cs.name, k.name), "library key does not encode to d / d*G of the reference",
				mkReplay("key", cs, k, pks[0].name, nil, "", nil, nil, ev.Hex(k.raw), ev.Hex(pks[0].pk.Encode())))
		}
		cands := append(validCands(x), rangeCands(x)...)
		for _, c := range cands {
			for vi, pv := range pks {
				dk := ""
				if vi == 0 {
					dk = fmt.Sprintf("p1/%s/%s", x.tag(), c.kind)
				}
				checkOne(a, x, pv, c.kind, c.sig, dk)
			}
		}
		for _, c := range lengthCands(x) {
			dk := ""
			if x.ki == 0 && x.mi == 0 && x.hi == 0 {
				dk = fmt.Sprintf("p1/%d/%s", x.ci, c.kind)
			}
			checkOne(a, x, pks[0], c.kind, c.sig, dk)
		}
		// library Sign outputs. The returned signatures are HELD (not copied) while the same key
		// object signs again: a signature is a value that belongs to the caller, it must not change
		// when the key is used again, nor when the caller overwrites another returned signature.
		type heldSig struct{ sig, snapshot []byte }
		var held []heldSig
		for j := 0; j < 5; j++ {
			sig, err := sk.Sign(x.msg(), hs.mk())
			a.counts["library_sign_calls"]++
			if err == nil {
				held = append(held, heldSig{sig, append([]byte{}, sig...)})
			}
			for hi, h := range held[:max(len(held)-1, 0)] {
				if !bytes.Equal(h.sig, h.snapshot) {
					run.Violation(fmt.Sprintf("sign:%s:returned-signature-changed-later", cs.name), fmt.Sprintf("the signature returned by Sign call #%d changed when the same key object signed again (call #%d)", hi+1, j+1),
						mkReplay("libsign-held", cs, k, "", x.msg(), hs.name, x.digest, h.snapshot, ev.Hex(h.snapshot), ev.Hex(h.sig)))
					held[hi].snapshot = append([]byte{}, h.sig...)
				}
			}
			if j == 3 && len(held) > 0 {
				for i := range held[0].sig {
					held[0].sig[i] ^= 0x5a // the caller reuses the first returned buffer
				}
				held[0].snapshot = append([]byte{}, held[0].sig...)
			}
			if err != nil || len(sig) != 64 {
				run.Violation(fmt.Sprintf("sign:%s:%s:error-or-length", cs.name, hs.name), fmt.Sprintf("Sign returned len %d err %v", len(sig), err),
					mkReplay("libsign", cs, k, "", x.msg(), hs.name, x.digest, sig, "64-byte signature", fmt.Sprint(err)))
				continue
			}
			if !expected(cs, k, x.digest, sig) {
				run.Violation(fmt.Sprintf("sign:%s:%s:output-invalid", cs.name, hs.name), "a signature returned by Sign does not satisfy the reference ECDSA equation / range",
					mkReplay("libsign", cs, k, "", x.msg(), hs.name, x.digest, sig, "true", "false"))
			}
			for vi, pv := range pks {
				dk := ""
				if vi == 0 {
					dk = fmt.Sprintf("p1/%s/libsign%d", x.tag(), j)
				}
				checkOne(a, x, pv, "libsign", sig, dk)
			}
			libsignMu.Lock()
			libsignDistinct[string(sig)] = true
			libsignMu.Unlock()
		}
	})
	phase("1 per-context candidates")
	run.Set("library_sign_distinct_outputs", len(libsignDistinct))
	x0 := contexts[ctxIndex(1, 2, 1, 8)]
	run.Sample(mkReplay("ref-valid#k=2", x0.cs(), x0.key(), "sk.PublicKey", x0.msg(), x0.hs().name, x0.digest, x0.base, "true", "true"))
	tw := validCands(x0)[3]
	run.Sample(mkReplay(tw.kind, x0.cs(), x0.key(), "sk.PublicKey", x0.msg(), x0.hs().name, x0.digest, tw.sig, fmt.Sprint(expected(x0.cs(), x0.key(), x0.digest, tw.sig)), "same"))

	// Phase 2: all 512 single-bit flips
	var flipCtx []*context
	for _, x := range contexts {
		if run.Thorough() || (x.mi == (x.ci+x.hi)%3 && x.ki == (x.ci+x.hi)%4) {
			flipCtx = append(flipCtx, x)
		}
	}
	run.Set("bitflip_contexts", len(flipCtx))
	ev.Par(len(flipCtx)*8, func(i int) {
		x := flipCtx[i/8]
		a := newAcc()
		defer a.flush()
		defer guard("bitflip", x)
		if run.Expired() {
			return
		}
		_, pks := libKeys(x.cs(), x.key())
		for b := (i % 8) * 64; b < (i%8+1)*64; b++ {
			checkOne(a, x, pks[b%3], fmt.Sprintf("bitflip#%d", b), flip(x.base, b), fmt.Sprintf("p2/%s/%d", x.tag(), b))
		}
	})
	phase("2 bit flips")
	x1 := flipCtx[len(flipCtx)/2]
	run.Sample(mkReplay("bitflip#255", x1.cs(), x1.key(), "sk.PublicKey", x1.msg(), x1.hs().name, x1.digest, flip(x1.base, 255), "false", "false"))

	// Phase 3: cross cases
	diffNames := []string{"curve", "key", "msg", "hasher"}
	ev.Par(len(contexts), func(i int) {
		x := contexts[i] // verifying context
		a := newAcc()
		defer a.flush()
		defer guard("cross", x)
		if run.Expired() {
			return
		}
		_, pks := libKeys(x.cs(), x.key())
		for j, y := range contexts { // signature source
			if i == j {
				continue
			}
			var df []string
			for q, ne := range []bool{x.ci != y.ci, x.ki != y.ki, x.mi != y.mi, x.hi != y.hi} {
				if ne {
					df = append(df, diffNames[q])
				}
			}
			if !run.Thorough() && len(df) > 2 {
				continue
			}
			checkOne(a, x, pks[(i+j)%3], "cross:"+strings.Join(df, "+"), y.base, fmt.Sprintf("p3/%s/%s", x.tag(), y.tag()))
		}
	})
	phase("3 cross")
	xa, xb := contexts[ctxIndex(0, 3, 1, 0)], contexts[ctxIndex(1, 3, 1, 0)]
	run.Sample(mkReplay("cross:curve", xb.cs(), xb.key(), "sk.PublicKey", xb.msg(), xb.hs().name, xb.digest, xa.base, fmt.Sprint(expected(xb.cs(), xb.key(), xb.digest, xa.base)), "same"))

	// Phase 4: SignatureFormatCheck false => Verify false for every key, message, hasher
	pool := map[string]string{}
	for _, hi := range []int{0, 2, 13} {
		for ci := range curves {
			x := contexts[ctxIndex(ci, 3, 1, hi)]
			for _, c := range append(rangeCands(x), lengthCands(x)...) {
				pool[string(c.sig)] = c.kind
			}
			for b := 0; b < 512; b++ {
				pool[string(flip(x.base, b))] = fmt.Sprintf("bitflip#%d", b)
			}
		}
	}
	pool[string(make([]byte, 64))] = "all-zero"
	pool[string(bytes.Repeat([]byte{0xFF}, 64))] = "all-ff"
	var poolKeys []string
	for s := range pool {
		poolKeys = append(poolKeys, s)
	}
	sort.Strings(poolKeys)
	ev.Par(len(poolKeys)*2, func(i int) {
		sig := []byte(poolKeys[i/2])
		if len(sig) == 0 {
			sig = nil // the empty non-nil slice is covered in phase 1
		}
		kind := pool[poolKeys[i/2]]
		cs := curves[i%2]
		fexp := formatOK(cs.c, sig)
		fgot, ferr := crypto.SignatureFormatCheck(cs.algo, sig)
		if ferr != nil || fgot != fexp {
			run.Violation(fmt.Sprintf("sfc:%s:%s:%v-expected-%v", cs.name, strings.SplitN(kind, "#", 2)[0], fgot, fexp),
				fmt.Sprintf("SignatureFormatCheck=%v,%v but (len==64 and 1<=r,s<n) is %v", fgot, ferr, fexp),
				mkReplay(kind, cs, cs.keys[0], "", nil, "", nil, sig, fmt.Sprint(fexp), fmt.Sprintf("%v,%v", fgot, ferr)))
		}
		if fexp && fgot {
			return
		}
		a := newAcc()
		defer a.flush()
		defer guard("format-false-sweep", contexts[ctxIndex(i%2, 0, 0, 0)])
		for ki, k := range cs.keys {
			_, pks := libKeys(cs, k)
			for _, pv := range pks {
				for mi := range msgs {
					for hi, hs := range hashers {
						got, err := pv.pk.Verify(sig, msgs[mi], hs.mk())
						a.counts["evaluations"]++
						a.counts["format_false_sweep_verifies"]++
						if got || err != nil {
							x := contexts[ctxIndex(i%2, ki, mi, hi)]
							run.Violation(fmt.Sprintf("sfc-implies:%s:%s:%s", cs.name, strings.SplitN(kind, "#", 2)[0], hs.name),
								fmt.Sprintf("signature with SignatureFormatCheck=%v (format per definition %v) gave Verify=%v,%v", fgot, fexp, got, err),
								mkReplay(kind, cs, k, pv.name, msgs[mi], hs.name, x.digest, sig, "false,nil", fmt.Sprintf("%v,%v", got, err)))
						}
					}
				}
			}
		}
		a.distinct = append(a.distinct, fmt.Sprintf("p4/%d/%x", i%2, refsha2.Sum256(sig)[:8]))
	})
	phase("4 format-false sweep")
	run.Set("format_false_pool", len(poolKeys))

	// Phase 4b: signatures whose r AND s are small, so that the aliases r+n and s+n still fit in 32
	// bytes. An honest signer produces them with probability ~2^-128, so they are constructed: R is the
	// point with the smallest x-coordinate(s) on the curve (r = R.x), s is chosen, and the PUBLIC KEY is
	// recovered as Q = r^-1 (s R - e G) (no private key exists in the harness). (r,s) and its twin
	// (r,n-s) must verify; every alias with r+n or s+n (equal mod n, but not a valid encoding) must not.
	type crafted struct{ ci, hi int }
	var cr []crafted
	for ci := range curves {
		for hi := range hashers {
			cr = append(cr, crafted{ci, hi})
		}
	}
	ev.Par(len(cr), func(i int) {
		cs, hs := curves[cr[i].ci], hashers[cr[i].hi]
		c := cs.c
		msg := msgs[1]
		digest := hs.mk().ComputeHash(msg)
		e := new(big.Int).Mod(c.DigestInt(digest), c.N)
		a := newAcc()
		defer a.flush()
		// R.x = x (so r = R.x) and R.x = n + x (the band [n, p): r = R.x mod n = x is what the equation
		// demands, a verifier that compares R.x with r without reducing it rejects these valid signatures)
		for _, band := range []*big.Int{new(big.Int), c.N} {
		found := 0
		for x := int64(1); found < 2; x++ {
			rx := new(big.Int).Add(band, big.NewInt(x))
			if rx.Cmp(c.P) >= 0 {
				break
			}
			ry, ok := c.DecompressY(rx, x%2 == 1)
			if !ok {
				continue
			}
			found++
			r := big.NewInt(x)
			for _, sv := range []*big.Int{big.NewInt(1), big.NewInt(2), new(big.Int).Lsh(big.NewInt(3), 100), new(big.Int).Sub(two256m, c.N)} {
				// Q = r^-1 (s R - e G)
				tx, ty, inf := c.ScalarMult(rx, ry, sv)
				if e.Sign() != 0 {
					gx, gy := c.ScalarBaseMult(new(big.Int).Sub(c.N, e))
					if inf {
						tx, ty, inf = gx, gy, false
					} else {
						tx, ty, inf = c.Add(tx, ty, gx, gy)
					}
				}
				if inf {
					continue
				}
				qx, qy, inf := c.ScalarMult(tx, ty, new(big.Int).ModInverse(r, c.N))
				if inf || !c.Verify(qx, qy, digest, r, sv) {
					run.Fatal("crafted small (r,s) signature does not verify under the recovered key in the reference (%s %s)", cs.name, hs.name)
				}
				raw := c.EncodeRaw(qx, qy)
				pk, err := crypto.DecodePublicKey(cs.algo, raw)
				if err != nil {
					run.Violation("crafted:"+cs.name+":recovered-key-rejected", fmt.Sprintf("DecodePublicKey rejects a valid point: %v", err), map[string]any{"public_key_raw_hex": ev.Hex(raw)})
					continue
				}
				rn, sn := new(big.Int).Add(r, c.N), new(big.Int).Add(sv, c.N)
				twin := new(big.Int).Sub(c.N, sv)
				for _, cd := range []struct {
					n    string
					r, s *big.Int
					want bool
				}{{"small-r-s", r, sv, true}, {"small-r-s-twin", r, twin, true}, {"r+n", rn, sv, false}, {"s+n", r, sn, false}, {"r+n,s+n", rn, sn, false}, {"r+n,twin", rn, twin, false}} {
					if cd.r.BitLen() > 256 || cd.s.BitLen() > 256 {
						continue
					}
					sig := sigBytes(cd.r, cd.s)
					got, err := pk.Verify(sig, msg, hs.mk())
					fgot, ferr := crypto.SignatureFormatCheck(cs.algo, sig)
					a.counts["evaluations"]++
					a.counts["crafted_small_rs_candidates"]++
					rp := map[string]any{"kind": "crafted:" + cd.n, "curve": cs.name, "public_key_raw_hex": ev.Hex(raw), "message_hex": ev.Hex(msg), "hasher": hs.name, "digest_hex": ev.Hex(digest), "signature_hex": ev.Hex(sig), "expected": cd.want}
					if err != nil || got != cd.want {
						what := "accepts-invalid"
						if cd.want {
							what = "rejects-valid"
						}
						run.Violation(fmt.Sprintf("verify:%s:crafted-%s:%s:%s", cs.name, cd.n, hs.name, what),
							fmt.Sprintf("Verify=%v,%v on the constructed signature %s (r and s small; aliases r+n, s+n are equal mod n but are not valid encodings), reference verdict %v", got, err, cd.n, cd.want), rp)
					}
					if ferr != nil || fgot != cd.want {
						run.Violation(fmt.Sprintf("sfc:%s:crafted-%s:%v-expected-%v", cs.name, cd.n, fgot, cd.want), fmt.Sprintf("SignatureFormatCheck=%v,%v on %s", fgot, ferr, cd.n), rp)
					}
					a.distinct = append(a.distinct, fmt.Sprintf("p4b/%s/%s/%s/%s/%s", cs.name, hs.name, rx.Text(16), sv.Text(16), cd.n))
				}
			}
		}
		}
	})
	phase("4b crafted small r,s with recovered public keys")

	// Phase 5: nil hasher and hashers of size 0..31
	type guardCase struct{ ci, ki, mi int }
	var gcs []guardCase
	for ci := range curves {
		for ki := 0; ki < 4; ki++ {
			for mi := range msgs {
				gcs = append(gcs, guardCase{ci, ki, mi})
			}
		}
	}
	ev.Par(len(gcs), func(i int) {
		g := gcs[i]
		cs := curves[g.ci]
		k := cs.keys[g.ki]
		msg := msgs[g.mi]
		a := newAcc()
		defer a.flush()
		defer guard("hasher-guard", contexts[ctxIndex(g.ci, g.ki, g.mi, 0)])
		sk, pks := libKeys(cs, k)
		guardViol := func(where, hname string, digest, sig []byte, want, got string) {
			run.Violation(fmt.Sprintf("hasher-guard:%s:%s:%s", cs.name, where, strings.SplitN(hname, "#", 2)[0]),
				fmt.Sprintf("%s with hasher %s: expected %s, got %s", where, hname, want, got),
				mkReplay("hasher-guard", cs, k, "", msg, hname, digest, sig, want, got))
		}
		validFor := func(digest []byte) []byte {
			r, s, ok := cs.c.Sign(k.d, digest, big.NewInt(2))
			if !ok {
				return contexts[ctxIndex(g.ci, g.ki, g.mi, 0)].base
			}
			return sigBytes(r, s)
		}
		// nil hasher
		base := contexts[ctxIndex(g.ci, g.ki, g.mi, 0)].base
		sig, err := sk.Sign(msg, nil)
		a.counts["evaluations"]++
		if sig != nil || !crypto.IsNilHasherError(err) || crypto.IsInvalidHasherSizeError(err) {
			guardViol("Sign", "nil", nil, sig, "(nil, nil-hasher error)", fmt.Sprintf("%x,%v", []byte(sig), err))
		}
		for _, pv := range pks {
			ok, err := pv.pk.Verify(base, msg, nil)
			a.counts["evaluations"]++
			if ok || !crypto.IsNilHasherError(err) || crypto.IsInvalidHasherSizeError(err) {
				guardViol("Verify", "nil", nil, base, "(false, nil-hasher error)", fmt.Sprintf("%v,%v", ok, err))
			}
		}
		a.counts["outcome_error_nil_hasher"] += 4
		a.distinct = append(a.distinct, fmt.Sprintf("p5/%d.%d.%d/nil", g.ci, g.ki, g.mi))
		// an unusable hasher is refused WHATEVER the signature looks like (the statement names no
		// exception): nil and size-31 hashers against signatures of other lengths and out-of-range r, s
		{
			zero64 := make([]byte, 64)
			odd := [][]byte{{}, base[:1], base[:63], append(append([]byte{}, base...), 0), zero64, bytes.Repeat([]byte{0xff}, 64), nil}
			sd31 := bytes.Repeat([]byte{0x5a}, 31)
			for _, sg := range odd {
				for _, pv := range pks[:1] {
					ok, err := pv.pk.Verify(sg, msg, nil)
					a.counts["evaluations"]++
					if ok || !crypto.IsNilHasherError(err) {
						guardViol("Verify", "nil#other-signature-shapes", nil, sg, "(false, nil-hasher error) for every signature", fmt.Sprintf("%v,%v", ok, err))
					}
					ok, err = pv.pk.Verify(sg, msg, &stubHasher{sd31, 31})
					a.counts["evaluations"]++
					if ok || !crypto.IsInvalidHasherSizeError(err) {
						guardViol("Verify", "stub-size#31#other-signature-shapes", sd31, sg, "(false, invalid-hasher-size error) for every signature", fmt.Sprintf("%v,%v", ok, err))
					}
				}
			}
		}
		// sizes 0..31
		for size := 0; size < 32; size++ {
			sd := make([]byte, size)
			for j := range sd {
				sd[j] = 0xA5 ^ byte(j*7)
			}
			for _, hs := range []*hasherSpec{
				{name: fmt.Sprintf("stub-size#%d", size), mk: func() hash.Hasher { return &stubHasher{sd, size} }},
				{name: fmt.Sprintf("KMAC128-size#%d", size), mk: kmac(size)},
			} {
				digest := hs.mk().ComputeHash(msg)
				vs := validFor(digest) // would verify if the short digest were used as e
				sig, err := sk.Sign(msg, hs.mk())
				a.counts["evaluations"]++
				if sig != nil || !crypto.IsInvalidHasherSizeError(err) || crypto.IsNilHasherError(err) {
					guardViol("Sign", hs.name, digest, sig, "(nil, invalid-hasher-size error)", fmt.Sprintf("%x,%v", []byte(sig), err))
				}
				for _, pv := range pks {
					ok, err := pv.pk.Verify(vs, msg, hs.mk())
					a.counts["evaluations"]++
					if ok || !crypto.IsInvalidHasherSizeError(err) || crypto.IsNilHasherError(err) {
						guardViol("Verify", hs.name, digest, vs, "(false, invalid-hasher-size error)", fmt.Sprintf("%v,%v", ok, err))
					}
				}
				a.counts["outcome_error_hasher_size"] += 4
				a.distinct = append(a.distinct, fmt.Sprintf("p5/%d.%d.%d/%s", g.ci, g.ki, g.mi, hs.name))
			}
		}
	})
	run.Sample(map[string]any{"kind": "hasher-guard", "curve": "secp256k1", "key_name": "n-1", "hasher": "KMAC128 output size 31", "message_hex": ev.Hex(msgs[1]), "expected": "Sign: (nil, IsInvalidHasherSizeError); Verify of a signature valid for the 31-byte digest: (false, IsInvalidHasherSizeError)"})

	out := map[string]int64{}
	for _, n := range []string{"outcome_accept", "outcome_reject_length", "outcome_reject_range", "outcome_reject_equation", "outcome_error_nil_hasher", "outcome_error_hasher_size"} {
		out[n] = run.Get(n)
	}
	run.Set("distinct_outcome_classes", len(out))
	fmt.Printf("C11 outcomes: %v  contexts=%d bitflip_contexts=%d format_false_pool=%d libsign_distinct=%d\n", out, len(contexts), len(flipCtx), len(poolKeys), len(libsignDistinct))
	run.Assume("reference refecdsa (math/big affine arithmetic) self-tested on published 2G/3G vectors of both curves and on RFC 6979 A.2.5",
		"the digest fed to the reference is the output of the library's own hasher (hashers are verified against their standards by C13)",
		"Go toolchain and math/big are trusted")
	run.Finish()
}

// doReplay re-runs one recorded case.
func doReplay() {
	b, err := os.ReadFile(run.Replay)
	if err != nil {
		run.Fatal("replay: %v", err)
	}
	var f struct {
		Replay replay `json:"replay"`
	}
	if err := json.Unmarshal(b, &f); err != nil {
		run.Fatal("replay: %v", err)
	}
	rp := f.Replay
	run.Set("rule", "replay of one recorded case")
	for ci, cs := range curves {
		if cs.name != rp.Curve {
			continue
		}
		for ki, k := range cs.keys {
			if ev.Hex(b32(k.d)) != rp.D {
				continue
			}
			for hi, hs := range hashers {
				if hs.name != rp.Hasher {
					continue
				}
				x := &context{ci: ci, ki: ki, hi: hi, mi: -1}
				for mi, m := range msgs {
					if ev.Hex(m) == rp.Msg {
						x.mi = mi
					}
				}
				if x.mi < 0 {
					msgs = append(msgs, ev.UnHex(rp.Msg))
					x.mi = len(msgs) - 1
				}
				x.digest = hs.mk().ComputeHash(x.msg())
				_, pks := libKeys(cs, k)
				a := newAcc()
				for _, pv := range pks {
					if rp.PkVar == "" || pv.name == rp.PkVar {
						checkOne(a, x, pv, rp.Kind, ev.UnHex(rp.Sig), "replay/"+pv.name)
					}
				}
				a.flush()
				run.Distinct("replay/2")
				run.Sample(rp)
				run.Finish()
			}
		}
	}
	run.Fatal("replay: case (curve %q, d %q, hasher %q) is not in the alphabets (hasher-guard and seed-dependent cases must be re-run with the same VERIF_SEED)", rp.Curve, rp.D, rp.Hasher)
}
