// C14: ChaCha20 PRG equals the RFC 8439 keystream; Store/Restore resumes exactly.
// Exhaustive enumeration of read-size sequences, of every byte offset as a store/restore
// point, and of short operation histories, each compared with an independent keystream.
package main

import (
	"bytes"
	"encoding/binary"
	"fmt"

	"github.com/onflow/crypto/random"

	"verif/harness/ev"
	"verif/harness/ref/refchacha"
)

type cfg struct {
	seed, cust []byte
	nonce      []byte
}

func configs() []cfg {
	var out []cfg
	seeds := [][]byte{make([]byte, 32), make([]byte, 32), make([]byte, 32)}
	for i := 0; i < 32; i++ {
		seeds[1][i] = byte(i)
		seeds[2][i] = byte(0xa5 ^ (i * 37))
	}
	for si, s := range seeds {
		for l := 0; l <= 12; l++ {
			c := make([]byte, l)
			for i := range c {
				c[i] = byte(0x11*(i+1) + si)
			}
			n := make([]byte, 12)
			copy(n, c)
			out = append(out, cfg{s, c, n})
			if l > 1 { // customizer with a trailing zero byte (padding must not confuse it)
				c2 := append([]byte{}, c...)
				c2[l-1] = 0
				n2 := make([]byte, 12)
				copy(n2, c2)
				out = append(out, cfg{s, c2, n2})
			}
		}
	}
	return out
}

type replay struct {
	Kind string `json:"kind"`
	Seed string `json:"seed"`
	Cust string `json:"customizer"`
	Ops  []int  `json:"ops"`
	Note string `json:"note"`
}

var run *ev.Run

func fail(key string, c cfg, ops []int, note string) {
	run.Violation(key, note, replay{key, ev.Hex(c.seed), ev.Hex(c.cust), ops, note})
}

// counterOf reads the byte offset recorded in a stored state (seed || customizer || LE64(offset)).
func counterOf(st []byte) int {
	if len(st) != 52 {
		return -1
	}
	return int(binary.LittleEndian.Uint64(st[44:]))
}

func main() {
	run = ev.Start("C14", "fault_enumeration")
	if err := refchacha.SelfTest(); err != nil {
		run.Fatal("%v", err)
	}
	cfgs := configs()
	sizes := []int{0, 1, 63, 64, 65, 127, 128, 129, 200}
	depth := 4
	maxOff := 1100
	if run.Thorough() {
		depth = 5
		maxOff = 4200
	}
	run.Set("rule", "configs = 3 seeds x customizer lengths 0..12 (+trailing-zero variants); (a) all read-size sequences up to depth over {0,1,63,64,65,127,128,129,200} vs reference keystream; (b) every byte offset 0..maxOff as Store/Restore point reached by one read and by split reads, continuation compared with reference and original in lockstep incl. UintN/Permutation/Samples; (c) operation histories over Read/UintN/Permutation/Store+Restore: reads against the keystream, derived values and the stream position after them in lockstep with the original generator (never stored/restored); (d) all invalid seed/customizer/state lengths; (e) all histories up to depth 5 (thorough 6) over {read 1/64/65/130, store-and-keep, uintn} with every state returned by Store() held as returned: unchanged after every later step, each restores at its own offset, and overwriting all caller-owned buffers (constructor inputs, returned states, the buffer handed to Restore) disturbs no generator. A case is non-trivial/distinct by (config, sequence) or (config, offset, split).")
	run.Set("read_sizes", sizes)
	run.Set("depth", depth)
	run.Set("max_store_offset", maxOff)

	// (a) read-size sequences
	var seqs [][]int
	var gen func(cur []int)
	gen = func(cur []int) {
		if len(cur) > 0 {
			seqs = append(seqs, append([]int{}, cur...))
		}
		if len(cur) == depth {
			return
		}
		for _, s := range sizes {
			gen(append(cur, s))
		}
	}
	gen(nil)
	ev.Par(len(cfgs), func(ci int) {
		c := cfgs[ci]
		for _, sq := range seqs {
			p, err := random.NewChacha20PRG(c.seed, c.cust)
			if err != nil {
				fail("ctor-rejects-valid", c, sq, err.Error())
				return
			}
			off := 0
			for _, n := range sq {
				buf := make([]byte, n)
				for i := range buf {
					buf[i] = 0xEE // dirty buffer: output must not depend on it
				}
				p.Read(buf)
				want := refchacha.Keystream(c.seed, c.nonce, off, n)
				if !bytes.Equal(buf, want) {
					fail("read-seq-mismatch", c, sq, fmt.Sprintf("read of %d bytes at offset %d differs from RFC 8439 keystream", n, off))
					break
				}
				off += n
			}
			st := p.Store()
			if !bytes.Equal(st, storeBytes(c, off)) {
				fail("store-layout", c, sq, fmt.Sprintf("Store() after %d bytes = %x", off, st))
			}
			run.Add("evaluations", 1)
			if off > 64 {
				run.Distinct(fmt.Sprintf("a/%d/%v", ci, sq))
			}
		}
	})
	run.Sample(map[string]any{"kind": "read-sequence", "seed": ev.Hex(cfgs[14].seed), "customizer": ev.Hex(cfgs[14].cust), "sizes": seqs[len(seqs)/2]})

	// (b) every offset as store point
	contReads := []int{1, 64, 65, 130}
	ev.Par(len(cfgs), func(ci int) {
		c := cfgs[ci]
		if !run.Thorough() && ci%3 != 0 && len(c.cust) != 12 && len(c.cust) != 0 {
			// quick: every third config plus the extreme customizer lengths
			return
		}
		for o := 0; o <= maxOff; o++ {
			splits := [][]int{{o}}
			for _, a := range []int{1, 63, 64, 65, o / 2, o - 1} {
				if a > 0 && a < o {
					splits = append(splits, []int{a, o - a})
				}
			}
			for si, sp := range splits {
				p, _ := random.NewChacha20PRG(c.seed, c.cust)
				for _, n := range sp {
					p.Read(make([]byte, n))
				}
				st := p.Store()
				if !bytes.Equal(st, storeBytes(c, o)) {
					fail("store-layout", c, sp, fmt.Sprintf("Store() after %d bytes = %x", o, st))
					continue
				}
				q, err := random.RestoreChacha20PRG(st)
				if err != nil {
					fail("restore-rejects-valid", c, sp, err.Error())
					continue
				}
				// second-generation restore (state reached from a non-initial state)
				q2, _ := random.RestoreChacha20PRG(q.Store())
				off := o
				for _, n := range contReads {
					a, b, d := make([]byte, n), make([]byte, n), make([]byte, n)
					p.Read(a)
					q.Read(b)
					q2.Read(d)
					want := refchacha.Keystream(c.seed, c.nonce, off, n)
					if !bytes.Equal(b, want) || !bytes.Equal(a, want) || !bytes.Equal(d, want) {
						fail("restore-continuation", c, append(append([]int{}, sp...), -n), fmt.Sprintf("after store/restore at byte offset %d the next %d bytes differ from the stream continuation (orig ok=%v restored ok=%v restored2 ok=%v)", o, n, bytes.Equal(a, want), bytes.Equal(b, want), bytes.Equal(d, want)))
						break
					}
					off += n
				}
				if si == 0 {
					// derived values
					for _, n := range []uint64{3, 256, 257, 1 << 33} {
						if x, y := p.UintN(n), q.UintN(n); x != y {
							fail("restore-derived", c, sp, fmt.Sprintf("UintN(%d) after restore at %d: %d vs %d", n, o, x, y))
						}
					}
					pa, _ := p.Permutation(5)
					pb, _ := q.Permutation(5)
					if fmt.Sprint(pa) != fmt.Sprint(pb) {
						fail("restore-derived", c, sp, fmt.Sprintf("Permutation(5) after restore at %d: %v vs %v", o, pa, pb))
					}
					var sa, sb []int
					_ = p.Samples(6, 3, func(i, j int) { sa = append(sa, i, j) })
					_ = q.Samples(6, 3, func(i, j int) { sb = append(sb, i, j) })
					if fmt.Sprint(sa) != fmt.Sprint(sb) {
						fail("restore-derived", c, sp, fmt.Sprintf("Samples after restore at %d: %v vs %v", o, sa, sb))
					}
					if !bytes.Equal(p.Store(), q.Store()) {
						fail("restore-derived", c, sp, "Store() of original and restored differ after identical operations")
					}
				}
				run.Add("evaluations", 1)
				run.Distinct(fmt.Sprintf("b/%d/%d/%d", ci, o, si))
			}
		}
	})
	run.Sample(map[string]any{"kind": "store-restore", "seed": ev.Hex(cfgs[1].seed), "customizer": ev.Hex(cfgs[1].cust), "offset": 65, "split": []int{64, 1}, "continuation_reads": contReads})

	// (b') crafted states with large counters (restore arithmetic on block counter)
	for _, c := range []cfg{cfgs[0], cfgs[len(cfgs)-1]} {
		for _, o := range []uint64{1 << 20, 1<<20 + 5, 1<<32 + 7, 64 * (1 << 30), 64*(1<<31) + 63, 64*(1<<32-2) + 1} {
			st := storeBytes(c, 0)
			binary.LittleEndian.PutUint64(st[44:], o)
			q, err := random.RestoreChacha20PRG(st)
			if err != nil {
				fail("restore-rejects-valid", c, []int{int(o)}, err.Error())
				continue
			}
			b := make([]byte, 70)
			q.Read(b)
			var want []byte
			for len(want) < 70 {
				pos := o + uint64(len(want))
				blk := refchacha.Block(c.seed, uint32(pos/64), c.nonce)
				want = append(want, blk[pos%64:]...)
			}
			if !bytes.Equal(b, want[:70]) {
				fail("restore-large-counter", c, []int{int(o)}, fmt.Sprintf("restore at crafted offset %d does not continue the keystream", o))
			}
			run.Add("evaluations", 1)
			run.Distinct(fmt.Sprintf("b2/%d", o))
		}
	}

	// (c) operation histories against the stream-offset model
	type op struct {
		kind string
		n    uint64
	}
	alpha := []op{{"read", 1}, {"read", 64}, {"read", 65}, {"uintn", 3}, {"uintn", 256}, {"uintn", 1<<32 + 1}, {"perm", 3}, {"storerestore", 0}}
	hd := 4
	if run.Thorough() {
		hd = 5
	}
	var hist [][]int
	var hg func(cur []int)
	hg = func(cur []int) {
		if len(cur) > 0 {
			hist = append(hist, append([]int{}, cur...))
		}
		if len(cur) == hd {
			return
		}
		for i := range alpha {
			hg(append(cur, i))
		}
	}
	hg(nil)
	hcfgs := []cfg{cfgs[0], cfgs[5], cfgs[len(cfgs)-1]}
	ev.Par(len(hist), func(hi int) {
		h := hist[hi]
		for _, c := range hcfgs {
			p, _ := random.NewChacha20PRG(c.seed, c.cust)
			// tw: the ORIGINAL generator, which is never stored/restored and just keeps running. How
			// many source bytes UintN / Permutation consume is not prescribed by the property, so the
			// derived values and the stream position after them are taken from this twin: the
			// generator under test (stored and restored along the way) must stay in lockstep with it.
			tw, _ := random.NewChacha20PRG(c.seed, c.cust)
			off := 0
			sync := func(step int, what string) {
				o2 := counterOf(tw.Store())
				if o2 < off {
					fail("history-counter-went-back", c, h, fmt.Sprintf("step %d %s: the stored offset went from %d to %d", step, what, off, o2))
				}
				off = o2
			}
			for step, oi := range h {
				o := alpha[oi]
				switch o.kind {
				case "read":
					b, b2 := make([]byte, o.n), make([]byte, o.n)
					p.Read(b)
					tw.Read(b2)
					if want := refchacha.Keystream(c.seed, c.nonce, off, int(o.n)); !bytes.Equal(b, want) || !bytes.Equal(b2, want) {
						fail("history-read", c, h, fmt.Sprintf("step %d read(%d) at offset %d", step, o.n, off))
					}
					off += int(o.n)
				case "uintn":
					got, want := p.UintN(o.n), tw.UintN(o.n)
					if got != want || got >= o.n {
						fail("history-uintn", c, h, fmt.Sprintf("step %d UintN(%d)=%d, the original generator (never stored/restored) gives %d", step, o.n, got, want))
					}
					sync(step, "UintN")
				case "perm":
					got, _ := p.Permutation(int(o.n))
					want, _ := tw.Permutation(int(o.n))
					if fmt.Sprint(got) != fmt.Sprint(want) {
						fail("history-perm", c, h, fmt.Sprintf("step %d Permutation(%d)=%v, the original generator gives %v", step, o.n, got, want))
					}
					sync(step, "Permutation")
				case "storerestore":
					st := p.Store()
					if !bytes.Equal(st, storeBytes(c, off)) {
						fail("store-layout", c, h, fmt.Sprintf("step %d Store()=%x, expected counter %d", step, st, off))
					}
					q, err := random.RestoreChacha20PRG(st)
					if err != nil {
						fail("restore-rejects-valid", c, h, err.Error())
						return
					}
					p = q
				}
			}
			run.Add("evaluations", 1)
		}
		run.Distinct(fmt.Sprintf("c/%v", h))
	})
	run.Sample(map[string]any{"kind": "history", "ops": []string{"uintn(257)", "storerestore", "read(65)"}})

	// (e) several stored states of ONE generator, held while it keeps running (a state is a value:
	// it must describe the offset at which it was taken whatever the generator or the caller do
	// afterwards). All histories up to depth he over {read 1/64/65/130, store-and-keep,
	// uintn}; the slices returned by Store() are kept as returned (no copy). After every step every
	// kept state must still be seed||customizer||LE64(offset when taken); at the end every kept
	// state is restored and must continue the stream from ITS offset. Then the caller-owned buffers
	// (constructor inputs, the returned states, the state handed to Restore) are overwritten and the
	// original and all restored generators must continue undisturbed.
	he := 5
	if run.Thorough() {
		he = 6
	}
	ealpha := []op{{"read", 1}, {"read", 64}, {"read", 65}, {"read", 130}, {"store", 0}, {"uintn", 257}}
	var ehist [][]int
	var eg func(cur []int, stores int)
	eg = func(cur []int, stores int) {
		if stores >= 1 && len(cur) >= 2 {
			ehist = append(ehist, append([]int{}, cur...))
		}
		if len(cur) == he {
			return
		}
		for i := range ealpha {
			st := stores
			if ealpha[i].kind == "store" {
				st++
			}
			eg(append(cur, i), st)
		}
	}
	eg(nil, 0)
	run.Set("multi_store_history_depth", he)
	run.Set("multi_store_histories", len(ehist))
	ecfgs := []cfg{cfgs[0], cfgs[7], cfgs[len(cfgs)-1]}
	ev.Par(len(ehist), func(hi int) {
		h := ehist[hi]
		for _, c := range ecfgs {
			seedIn := append([]byte{}, c.seed...)
			custIn := append([]byte{}, c.cust...)
			p, err := random.NewChacha20PRG(seedIn, custIn)
			if err != nil {
				fail("ctor-rejects-valid", c, h, err.Error())
				return
			}
			type kept struct {
				st  []byte
				off int
			}
			var ks []kept
			off := 0
			bad := false
			for step, oi := range h {
				o := ealpha[oi]
				switch o.kind {
				case "read":
					b := make([]byte, o.n)
					p.Read(b)
					if !bytes.Equal(b, refchacha.Keystream(c.seed, c.nonce, off, int(o.n))) {
						fail("multistore-read", c, h, fmt.Sprintf("step %d read(%d) at offset %d differs from the keystream", step, o.n, off))
						bad = true
					}
					off += int(o.n)
				case "uintn":
					got := p.UintN(o.n)
					if got >= o.n {
						fail("multistore-uintn", c, h, fmt.Sprintf("step %d UintN(%d)=%d", step, o.n, got))
						bad = true
					}
					// the stream position after a derived value is whatever the generator says it is
					// (checked against the keystream by the next read and by every restore below)
					if o2 := counterOf(p.Store()); o2 >= off {
						off = o2
					} else {
						fail("multistore-counter-went-back", c, h, fmt.Sprintf("step %d: stored offset went from %d to %d", step, off, o2))
						bad = true
					}
				case "store":
					ks = append(ks, kept{p.Store(), off})
				}
				for ki, k := range ks {
					if !bytes.Equal(k.st, storeBytes(c, k.off)) {
						fail("stored-state-changed-later", c, h, fmt.Sprintf("the state returned by Store() #%d (taken after %d bytes) reads %x after step %d: a stored state must not change when the generator runs on or stores again", ki, k.off, k.st, step))
						bad = true
					}
				}
				if bad {
					break
				}
			}
			if bad {
				continue
			}
			var rs []*struct {
				q   interface{ Read([]byte) }
				off int
			}
			for ki, k := range ks {
				arg := append([]byte{}, k.st...)
				q, err := random.RestoreChacha20PRG(arg)
				if err != nil {
					fail("restore-rejects-valid", c, h, err.Error())
					continue
				}
				b := make([]byte, 70)
				q.Read(b)
				if !bytes.Equal(b, refchacha.Keystream(c.seed, c.nonce, k.off, 70)) {
					fail("multistore-restore-continuation", c, h, fmt.Sprintf("state #%d taken after %d bytes does not resume at its offset", ki, k.off))
				}
				for i := range arg {
					arg[i] = 0xAA // the caller reuses the buffer it handed to Restore
				}
				rs = append(rs, &struct {
					q   interface{ Read([]byte) }
					off int
				}{q, k.off + 70})
			}
			// the caller overwrites every buffer it owns
			for i := range seedIn {
				seedIn[i] = 0x55
			}
			for i := range custIn {
				custIn[i] = 0x55
			}
			for _, k := range ks {
				for i := range k.st {
					k.st[i] = 0xAA
				}
			}
			b := make([]byte, 70)
			p.Read(b)
			if !bytes.Equal(b, refchacha.Keystream(c.seed, c.nonce, off, 70)) {
				fail("caller-buffer-aliased:generator", c, h, "after the caller overwrote the constructor inputs and the returned states, the generator no longer continues its stream")
			}
			if st := p.Store(); !bytes.Equal(st, storeBytes(c, off+70)) {
				fail("caller-buffer-aliased:store", c, h, fmt.Sprintf("after the caller overwrote the constructor inputs and the returned states, Store()=%x", st))
			}
			for _, r := range rs {
				r.q.Read(b)
				if !bytes.Equal(b, refchacha.Keystream(c.seed, c.nonce, r.off, 70)) {
					fail("caller-buffer-aliased:restored", c, h, "after the caller overwrote the state buffer handed to Restore, the restored generator no longer continues its stream")
				}
			}
			run.Add("evaluations", 1)
		}
		run.Distinct(fmt.Sprintf("e/%v", h))
	})
	run.Sample(map[string]any{"kind": "multi-store-history", "ops": []string{"read(65)", "store", "read(1)", "store", "uintn(257)"}, "then": "every kept state unchanged, restores at its own offset; caller buffers overwritten; generators continue"})

	// (d) invalid lengths
	good := cfgs[0]
	for l := 0; l <= 80; l++ {
		_, err := random.NewChacha20PRG(make([]byte, l), nil)
		if (l == 32) != (err == nil) {
			fail("ctor-seed-length", good, []int{l}, fmt.Sprintf("seed length %d: err=%v", l, err))
		}
		_, err = random.NewChacha20PRG(good.seed, make([]byte, l))
		if (l <= 12) != (err == nil) {
			fail("ctor-customizer-length", good, []int{l}, fmt.Sprintf("customizer length %d: err=%v", l, err))
		}
		run.Add("evaluations", 2)
	}
	for l := 0; l <= 100; l++ {
		_, err := random.RestoreChacha20PRG(make([]byte, l))
		if (l == 52) != (err == nil) {
			fail("restore-state-length", good, []int{l}, fmt.Sprintf("state length %d: err=%v", l, err))
		}
		run.Add("evaluations", 1)
	}
	// nil seed / nil state
	if _, err := random.NewChacha20PRG(nil, nil); err == nil {
		fail("ctor-seed-length", good, nil, "nil seed accepted")
	}
	if _, err := random.RestoreChacha20PRG(nil); err == nil {
		fail("restore-state-length", good, nil, "nil state accepted")
	}
	run.Assume("reference keystream refchacha self-tested on RFC 8439 2.3.2", "offsets >= 2^38 bytes (32-bit block counter wrap) are outside RFC 8439 and not explored")
	run.Finish()
}

func storeBytes(c cfg, off int) []byte {
	out := append([]byte{}, c.seed...)
	out = append(out, c.nonce...)
	var b [8]byte
	binary.LittleEndian.PutUint64(b[:], uint64(off))
	return append(out, b[:]...)
}
