//go:build verif

// c06s: the stateful threshold-signature object under CONCURRENT submission of distinct valid
// shares (part of C06: "any >= t+1 valid shares, in any order, stateless or stateful, give the same
// 48 bytes valid under the group key").
// Stateless exploration under the controlled scheduler (instrumented variant): 2-3 threads each add
// one distinct valid share (TrustedAdd or VerifyAndAdd) to ONE shared object, possibly next to a
// thread that asks for the signature; all schedules within the preemption bound over the RWMutex
// operations and the statement-level scheduling points of bls_thresholdsign.go. Oracle, after all
// threads have finished: the object holds enough shares iff at least t+1 were added, every
// successful ThresholdSignature() (during and after) returns exactly the bytes of the stateless
// reconstruction, which verify under the group key, and the final call succeeds.
// Output: one JSON line per program; run by cmd/c06 (path in C06_SCHED_BIN).
package main

import (
	"bufio"
	"encoding/json"
	"fmt"
	"os"
	"strings"

	crypto "github.com/onflow/crypto"
	"github.com/onflow/crypto/zzverif/vsched"
)

type cfgT struct{ n, t int }

type fixture struct {
	c       cfgT
	sks     []crypto.PrivateKey
	pks     []crypto.PublicKey
	group   crypto.PublicKey
	valid   []crypto.Signature
	groupSg string
	msg     []byte
	tag     string
}

func die(f string, a ...any) {
	fmt.Fprintf(os.Stderr, "HARNESS-ERROR: "+f+"\n", a...)
	os.Exit(2)
}

func newFixture(c cfgT) *fixture {
	s := make([]byte, 32)
	for i := range s {
		s[i] = byte(i*5 + 3 + c.n)
	}
	sks, pks, g, err := crypto.BLSThresholdKeyGen(c.n, c.t, s)
	if err != nil {
		die("%v", err)
	}
	f := &fixture{c: c, sks: sks, pks: pks, group: g, msg: []byte("c06 concurrent submission"), tag: "c06s"}
	h := crypto.NewExpandMsgXOFKMAC128(f.tag)
	for i := 0; i < c.n; i++ {
		sg, err := sks[i].Sign(f.msg, h)
		if err != nil {
			die("%v", err)
		}
		f.valid = append(f.valid, sg)
	}
	var idx []int
	for i := 0; i <= c.t; i++ {
		idx = append(idx, i)
	}
	gs, err := crypto.BLSReconstructThresholdSignature(c.n, c.t, f.valid[:c.t+1], idx)
	if err != nil {
		die("%v", err)
	}
	if ok, _ := g.Verify(gs, f.msg, h); !ok {
		die("fixture: group signature does not verify")
	}
	f.groupSg = fmt.Sprintf("%x", []byte(gs))
	return f
}

func (f *fixture) object() crypto.ThresholdSignatureInspector {
	o, err := crypto.NewBLSThresholdSignatureInspector(f.group, f.pks, f.c.t, f.msg, f.tag)
	if err != nil {
		die("%v", err)
	}
	return o
}

// thread operation: 'T<i>' TrustedAdd(i), 'V<i>' VerifyAndAdd(i), 'S' ThresholdSignature, 'E' EnoughShares
type op struct {
	kind byte
	idx  int
}

func (o op) String() string {
	switch o.kind {
	case 'T':
		return fmt.Sprintf("TrustedAdd(%d,valid)", o.idx)
	case 'V':
		return fmt.Sprintf("VerifyAndAdd(%d,valid)", o.idx)
	case 'S':
		return "ThresholdSignature()"
	}
	return "EnoughShares()"
}

type program struct {
	cfg     int
	pre     []int // signer indices added sequentially before the threads start
	threads []op
}

func (p program) desc(cs []cfgT) string {
	var t []string
	for _, o := range p.threads {
		t = append(t, "["+o.String()+"]")
	}
	return fmt.Sprintf("n=%d,t=%d pre%v %s", cs[p.cfg].n, cs[p.cfg].t, p.pre, strings.Join(t, " || "))
}

type viol struct {
	Key      string   `json:"key"`
	What     string   `json:"what"`
	Program  string   `json:"program"`
	Index    int      `json:"program_index"`
	Schedule []int    `json:"schedule"`
	Detail   []string `json:"detail"`
}

type result struct {
	Desc       string `json:"desc"`
	Execs      int    `json:"execs"`
	Points     int    `json:"points"`
	Bound      int    `json:"bound"`
	Replayed   int    `json:"replayed"`
	Capped     bool   `json:"capped"`
	Violations []viol `json:"violations,omitempty"`
}

var cfgs = []cfgT{{3, 1}, {4, 2}}

func programs() []program {
	var ps []program
	for ci, c := range cfgs {
		adders := func(kinds string, first int) []op {
			var o []op
			for k, ch := range []byte(kinds) {
				o = append(o, op{ch, first + k})
			}
			return o
		}
		// pools filled up to t+1-k sequentially, then k (+1) distinct valid shares arrive concurrently
		for _, kinds := range []string{"VV", "TV", "TT", "VVV", "TVV", "VVS", "TVS", "VVE"} {
			na := 0
			for _, ch := range []byte(kinds) {
				if ch == 'T' || ch == 'V' {
					na++
				}
			}
			for npre := 0; npre+na <= c.n && npre <= c.t; npre++ {
				if npre+na < c.t+1 {
					continue // the concurrent adds must cross the t+1 line
				}
				var pre []int
				for i := 0; i < npre; i++ {
					pre = append(pre, i)
				}
				var th []op
				k := 0
				for _, ch := range []byte(kinds) {
					if ch == 'T' || ch == 'V' {
						th = append(th, op{ch, npre + k})
						k++
					} else {
						th = append(th, op{ch, 0})
					}
				}
				_ = adders
				ps = append(ps, program{ci, pre, th})
			}
		}
	}
	return ps
}

func runProgram(fs []*fixture, pi int, p program, bound, maxExec int) result {
	f := fs[p.cfg]
	res := result{Desc: p.desc(cfgs), Bound: bound}
	var obj crypto.ThresholdSignatureInspector
	outs := make([]string, len(p.threads))
	mk := func() []func() {
		obj = f.object()
		for _, i := range p.pre {
			if _, err := obj.TrustedAdd(i, f.valid[i]); err != nil {
				die("pre-history TrustedAdd(%d): %v", i, err)
			}
		}
		var bodies []func()
		for ti, o := range p.threads {
			ti, o := ti, o
			outs[ti] = ""
			bodies = append(bodies, func() {
				switch o.kind {
				case 'T':
					e, err := obj.TrustedAdd(o.idx, f.valid[o.idx])
					outs[ti] = fmt.Sprintf("%v,%v", e, err)
				case 'V':
					v, e, err := obj.VerifyAndAdd(o.idx, f.valid[o.idx])
					outs[ti] = fmt.Sprintf("%v,%v,%v", v, e, err)
				case 'S':
					s, err := obj.ThresholdSignature()
					if err != nil {
						outs[ti] = "err"
						if !crypto.IsNotEnoughSharesError(err) {
							outs[ti] = "err:" + err.Error()
						}
					} else {
						outs[ti] = fmt.Sprintf("sig:%x", []byte(s))
					}
				case 'E':
					outs[ti] = fmt.Sprint(obj.EnoughShares())
				}
			})
		}
		return bodies
	}
	added := len(p.pre)
	for _, o := range p.threads {
		if o.kind == 'T' || o.kind == 'V' {
			added++
		}
	}
	var last []int
	var lastOuts string
	check := func(x *vsched.Exec) {
		last, lastOuts = x.Choices(), strings.Join(outs, "|")
		add := func(key, what string, detail ...string) {
			if len(res.Violations) < 3 {
				res.Violations = append(res.Violations, viol{key, what, res.Desc, pi, x.Choices(), append(detail, "thread results: "+strings.Join(outs, " | "))})
			}
		}
		if x.Diverged != "" {
			die("schedule replay diverged: %s (%s)", x.Diverged, res.Desc)
		}
		if x.Deadlock {
			add("stateful-concurrent:deadlock", "no enabled thread")
			return
		}
		if x.Panic != "" {
			add("stateful-concurrent:panic", "panic: "+x.Panic)
			return
		}
		for ti, o := range p.threads {
			if o.kind == 'S' && strings.HasPrefix(outs[ti], "sig:") && outs[ti] != "sig:"+f.groupSg {
				add("stateful-concurrent:wrong-signature-during", "a ThresholdSignature() call running next to the adds returned bytes that are not the group signature", outs[ti])
			}
			if o.kind == 'S' && strings.HasPrefix(outs[ti], "err:") {
				add("stateful-concurrent:error-with-valid-shares", "ThresholdSignature() returned an error other than not-enough-shares although every share is valid", outs[ti])
			}
		}
		// after everything: t+1 or more distinct valid shares were handed in
		if added >= f.c.t+1 {
			if !obj.EnoughShares() {
				add("stateful-concurrent:not-enough-after-t+1-valid-shares", fmt.Sprintf("%d distinct valid shares were added (t+1 = %d) but EnoughShares() is false afterwards", added, f.c.t+1))
			}
			s, err := obj.ThresholdSignature()
			if err != nil {
				add("stateful-concurrent:no-signature-after-t+1-valid-shares", fmt.Sprintf("%d distinct valid shares were added (t+1 = %d) but ThresholdSignature() fails afterwards: %v", added, f.c.t+1, err))
			} else if fmt.Sprintf("%x", []byte(s)) != f.groupSg {
				add("stateful-concurrent:wrong-signature-after", "ThresholdSignature() after the concurrent adds is not the group signature", fmt.Sprintf("%x", []byte(s)))
			}
		}
	}
	st := vsched.Explore(mk, bound, maxExec, nil, check)
	res.Execs, res.Points, res.Capped = st.Executions, st.Points, st.Capped
	if last != nil {
		for try := 0; try < 40 && res.Replayed == 0; try++ {
			x := vsched.Run(mk(), last, nil)
			if x.Diverged == "" && strings.Join(outs, "|") == lastOuts {
				res.Replayed = 1
			}
		}
	}
	return res
}

func main() {
	thorough := len(os.Args) > 1 && os.Args[1] == "thorough"
	vsched.Filter = func(loc string) bool { return strings.HasPrefix(loc, "bls_thresholdsign.go:") }
	bound, maxExec := 2, 30000
	if thorough {
		bound, maxExec = 3, 300000
	}
	var fs []*fixture
	for _, c := range cfgs {
		fs = append(fs, newFixture(c))
	}
	ps := programs()
	w := bufio.NewWriter(os.Stdout)
	defer w.Flush()
	if len(os.Args) > 2 && os.Args[1] == "--replay" {
		b, err := os.ReadFile(os.Args[2])
		var f struct {
			Replay viol `json:"replay"`
		}
		if err == nil {
			err = json.Unmarshal(b, &f)
		}
		if err != nil || f.Replay.Index < 0 || f.Replay.Index >= len(ps) {
			die("not a c06s replay file")
		}
		// re-explore the one program: deterministic, reports the violation again if it is still there
		r := runProgram(fs, f.Replay.Index, ps[f.Replay.Index], bound, maxExec)
		fmt.Printf("%s: %d schedules, %d violations\n", r.Desc, r.Execs, len(r.Violations))
		if len(r.Violations) > 0 {
			fmt.Printf("VIOLATION property=C06 replay=%s\n", os.Args[2])
			os.Exit(1)
		}
		return
	}
	shardK, shardN := 0, 1
	if len(os.Args) > 3 {
		fmt.Sscan(os.Args[2], &shardK)
		fmt.Sscan(os.Args[3], &shardN)
	}
	for pi, p := range ps {
		if pi%shardN != shardK {
			continue
		}
		b := bound
		if len(p.threads) >= 3 {
			b-- // three threads: one preemption less (quick 1, thorough 2)
		}
		r := runProgram(fs, pi, p, b, maxExec)
		js, _ := json.Marshal(r)
		w.Write(js)
		w.WriteByte('\n')
		w.Flush()
	}
}
