//go:build cgo && !no_cgo

package main

import (
	"fmt"
	"math/big"

	crypto "github.com/onflow/crypto"
	"github.com/onflow/crypto/hash"
)

var (
	blsR = hexInt("73eda753299d7d483339d80809a1d80553bda402fffe5bfeffffffff00000001")
	blsP = hexInt("1a0111ea397fe69a4b1ba7b6434bacd764774b84f38512bf6730d2a0f6b0f6241eabfffeb153ffffb9feffffffffaaab")
)

func b48(v *big.Int) []byte { return v.FillBytes(make([]byte, 48)) }

func vS(ok bool, err error) string { return fmt.Sprintf("%v/%s", ok, errS(err)) }

type blsKey struct {
	sk crypto.PrivateKey
	pk crypto.PublicKey
}

func blsKeys(tag string, n int) []blsKey {
	ks := make([]blsKey, n)
	for i := range ks {
		sk, err := crypto.GeneratePrivateKey(crypto.BLSBLS12381, detBytes(tag, i, 32+i%17))
		if err != nil {
			panic(err)
		}
		ks[i] = blsKey{sk, sk.PublicKey()}
	}
	return ks
}

func blsSections() {
	emitS("bls.meta", "lengths", fmt.Sprintf("sig=%d pk=%d sk=%d", crypto.SignatureLenBLSBLS12381, crypto.PubKeyLenBLSBLS12381, crypto.PrKeyLenBLSBLS12381))
	blsKeygen()
	blsDecode()
	blsSignVerify()
	blsAggregation()
	blsBatch()
	blsSpock()
	blsThreshold()
	blsDKG()
}

// ---- key generation over the shared seed set
func blsKeygen() {
	st := newStream("bls.keygen", 200, 25)
	ids, seeds := seedSet()
	for i, s := range seeds {
		sk, err := crypto.GeneratePrivateKey(crypto.BLSBLS12381, s)
		keyLines(st, ids[i], sk, err)
	}
	st.close()
}

type bcand struct {
	id string
	b  []byte
}

// ---- decoding verdicts + re-encodings for private keys, public keys (G2) and signatures (G1)
func blsDecode() {
	st := newStream("bls.decode", 400, 25)
	rm1 := new(big.Int).Sub(blsR, big.NewInt(1))
	ff := make([]byte, 32)
	for i := range ff {
		ff[i] = 0xff
	}
	valid := new(big.Int).SetBytes(detBytes("bls-sk", 1, 32))
	valid.Mod(valid, rm1).Add(valid, big.NewInt(1))
	skc := []bcand{
		{"sk zero", make([]byte, 32)}, {"sk one", b32(big.NewInt(1))}, {"sk two", b32(big.NewInt(2))},
		{"sk r-1", b32(rm1)}, {"sk r", b32(blsR)}, {"sk r+1", b32(new(big.Int).Add(blsR, big.NewInt(1)))},
		{"sk 2r", b32(new(big.Int).Lsh(blsR, 1))}, {"sk 2^256-1", ff}, {"sk valid", b32(valid)},
		{"sk 2^255", b32(new(big.Int).Lsh(big.NewInt(1), 255))}, {"sk 2^64", b32(new(big.Int).Lsh(big.NewInt(1), 64))},
		{"sk len1", []byte{1}}, {"sk len31", b32(valid)[1:]}, {"sk len33-lead0", append([]byte{0}, b32(valid)...)},
		{"sk len33", append(b32(valid), 7)}, {"sk len48", make([]byte, 48)},
	}
	for bit := 0; bit < 256; bit += pick(4, 1) {
		b := b32(rm1)
		b[bit/8] ^= 0x80 >> (bit % 8)
		skc = append(skc, bcand{fmt.Sprintf("sk r-1 flip-bit%d", bit), b})
	}
	for _, k := range skc {
		k := k
		st.addS(k.id+" in", string(k.b))
		res := guard(func() string {
			sk, err := crypto.DecodePrivateKey(crypto.BLSBLS12381, k.b)
			keyLines(st, k.id, sk, err)
			return "done"
		})
		if res != "done" {
			st.addS(k.id+" panic", res)
		}
	}

	// public keys: 96-byte compressed G2
	sk, _ := crypto.DecodePrivateKey(crypto.BLSBLS12381, b32(valid))
	pkb := sk.PublicKey().Encode()
	gen, _ := crypto.DecodePrivateKey(crypto.BLSBLS12381, b32(big.NewInt(1)))
	idk := crypto.IdentityBLSPublicKey().Encode()
	mut := func(base []byte, f func(b []byte)) []byte { b := append([]byte{}, base...); f(b); return b }
	pkc := []bcand{
		{"pk valid", pkb},
		{"pk generator", gen.PublicKey().Encode()},
		{"pk identity", idk},
		{"pk sign-flipped", mut(pkb, func(b []byte) { b[0] ^= 0x20 })},
		{"pk uncompressed-flag", mut(pkb, func(b []byte) { b[0] &^= 0x80 })},
		{"pk infinity-flag-on-point", mut(pkb, func(b []byte) { b[0] |= 0x40 })},
		{"pk infinity-with-sign", mut(idk, func(b []byte) { b[0] |= 0x20 })},
		{"pk infinity-nonzero-byte1", mut(idk, func(b []byte) { b[1] = 1 })},
		{"pk infinity-nonzero-byte47", mut(idk, func(b []byte) { b[47] = 1 })},
		{"pk infinity-nonzero-byte48", mut(idk, func(b []byte) { b[48] = 1 })},
		{"pk infinity-nonzero-last", mut(idk, func(b []byte) { b[95] = 1 })},
		{"pk infinity-uncompressed", mut(idk, func(b []byte) { b[0] = 0x40 })},
		{"pk zero", make([]byte, 96)},
		{"pk first-half=p", mut(pkb, func(b []byte) { copy(b, b48(blsP)); b[0] |= 0x80 })},
		{"pk second-half=p", mut(pkb, func(b []byte) { copy(b[48:], b48(blsP)) })},
		{"pk first-half=p-1", mut(pkb, func(b []byte) { copy(b, b48(new(big.Int).Sub(blsP, big.NewInt(1)))); b[0] |= 0x80 })},
		{"pk second-half=p-1", mut(pkb, func(b []byte) { copy(b[48:], b48(new(big.Int).Sub(blsP, big.NewInt(1)))) })},
		{"pk halves-swapped", append(append([]byte{}, pkb[48:]...), pkb[:48]...)},
		{"pk len0", nil}, {"pk len48", pkb[:48]}, {"pk len95", pkb[:95]}, {"pk len97", append(append([]byte{}, pkb...), 0)}, {"pk len192", append(append([]byte{}, pkb...), pkb...)},
	}
	// x-coordinates near the valid one: mostly not on the twist / not in G2
	for d := 1; d <= pick(12, 60); d++ {
		pkc = append(pkc, bcand{fmt.Sprintf("pk x+%d", d), mut(pkb, func(b []byte) {
			v := new(big.Int).SetBytes(b[48:])
			v.Add(v, big.NewInt(int64(d)))
			copy(b[48:], b48(v))
		})})
		pkc = append(pkc, bcand{fmt.Sprintf("pk smallx=%d", d), mut(make([]byte, 96), func(b []byte) { b[0] = 0x80; b[95] = byte(d) })})
		pkc = append(pkc, bcand{fmt.Sprintf("pk smallx'=%d", d), mut(make([]byte, 96), func(b []byte) { b[0] = 0xa0; b[47] = byte(d); b[95] = 1 })})
	}
	for bit := 0; bit < 768; bit += pick(8, 1) {
		pkc = append(pkc, bcand{fmt.Sprintf("pk flip-bit%d", bit), mut(pkb, func(b []byte) { b[bit/8] ^= 0x80 >> (bit % 8) })})
	}
	for _, k := range pkc {
		k := k
		st.addS(k.id+" in", string(k.b))
		res := guard(func() string {
			pk, err := crypto.DecodePublicKey(crypto.BLSBLS12381, k.b)
			pubLines(st, k.id, pk, err)
			pk2, err2 := crypto.DecodePublicKeyCompressed(crypto.BLSBLS12381, k.b)
			if (err == nil) != (err2 == nil) || (err == nil && !pk.Equals(pk2)) {
				st.addS(k.id+" compressed-decoder-differs", errS(err2))
			}
			return "done"
		})
		if res != "done" {
			st.addS(k.id+" panic", res)
		}
	}

	// signatures (48-byte compressed G1) are only ever decoded inside Verify / aggregation:
	// record the verdict of Verify, of aggregating [s] (re-encoding) and of the identity test.
	kmac := crypto.NewExpandMsgXOFKMAC128("c20-decode")
	msg := []byte("c20 decode message")
	sig, _ := sk.Sign(msg, kmac)
	ids := make([]byte, 48)
	ids[0] = 0xc0
	sgc := []bcand{
		{"sig valid", sig},
		{"sig sign-flipped", mut(sig, func(b []byte) { b[0] ^= 0x20 })},
		{"sig uncompressed-flag", mut(sig, func(b []byte) { b[0] &^= 0x80 })},
		{"sig infinity-flag-on-point", mut(sig, func(b []byte) { b[0] |= 0x40 })},
		{"sig identity", ids},
		{"sig identity-with-sign", mut(ids, func(b []byte) { b[0] |= 0x20 })},
		{"sig identity-nonzero-byte1", mut(ids, func(b []byte) { b[1] = 1 })},
		{"sig identity-nonzero-last", mut(ids, func(b []byte) { b[47] = 1 })},
		{"sig invalid-const", crypto.BLSInvalidSignature()},
		{"sig zero", make([]byte, 48)},
		{"sig x=p", mut(sig, func(b []byte) { copy(b, b48(blsP)); b[0] |= 0x80 })},
		{"sig x=p-1", mut(sig, func(b []byte) { copy(b, b48(new(big.Int).Sub(blsP, big.NewInt(1)))); b[0] |= 0x80 })},
		{"sig len0", nil}, {"sig len47", sig[:47]}, {"sig len49", append(append([]byte{}, sig...), 0)}, {"sig len96", append(append([]byte{}, sig...), sig...)},
	}
	for d := 1; d <= pick(16, 80); d++ {
		// small x: on-curve points outside G1 show up here (cofactor of E1 is large)
		sgc = append(sgc, bcand{fmt.Sprintf("sig smallx=%d", d), mut(make([]byte, 48), func(b []byte) { b[0] = 0x80; b[47] = byte(d) })})
		sgc = append(sgc, bcand{fmt.Sprintf("sig x+%d", d), mut(sig, func(b []byte) {
			v := new(big.Int).SetBytes(b)
			v.Add(v, big.NewInt(int64(d)))
			copy(b, b48(v))
		})})
	}
	for bit := 0; bit < 384; bit += pick(4, 1) {
		sgc = append(sgc, bcand{fmt.Sprintf("sig flip-bit%d", bit), mut(sig, func(b []byte) { b[bit/8] ^= 0x80 >> (bit % 8) })})
	}
	pk := sk.PublicKey()
	for _, k := range sgc {
		k := k
		st.addS(k.id+" in", string(k.b))
		st.addS(k.id+" verdict", guard(func() string {
			ok, err := pk.Verify(k.b, msg, kmac)
			agg, aerr := crypto.AggregateBLSSignatures([]crypto.Signature{k.b})
			agg2, aerr2 := crypto.AggregateBLSSignatures([]crypto.Signature{sig, k.b})
			return fmt.Sprintf("verify:%s identity:%v agg1:%x/%s agg2:%x/%s", vS(ok, err), crypto.IsBLSSignatureIdentity(k.b), []byte(agg), errS(aerr), []byte(agg2), errS(aerr2))
		}))
	}
	st.close()
}

// ---- signatures and verification verdicts
func blsSignVerify() {
	st := newStream("bls.sign", 300, 25)
	keys := blsKeys("bls-sign-key", pick(4, 8))
	msgs := [][]byte{nil, []byte("a"), detBytes("bls-msg", 0, 32), detBytes("bls-msg", 1, 167), detBytes("bls-msg", 2, 168), detBytes("bls-msg", 3, 1000)}
	if thorough {
		for l := 2; l < 400; l += 7 {
			msgs = append(msgs, detBytes("bls-msg", 100+l, l))
		}
	}
	tags := []string{"", "c20-tag-A", "c20-tag-B-" + string(detBytes("bls-tag", 0, 150))}
	sigs := map[[3]int][]byte{}
	for ki, k := range keys {
		for ti, tag := range tags {
			kmac := crypto.NewExpandMsgXOFKMAC128(tag)
			for mi, m := range msgs {
				s, err := k.sk.Sign(m, kmac)
				id := fmt.Sprintf("key#%d tag#%d msg#%d", ki, ti, mi)
				if err != nil {
					st.addS(id+" sign", errS(err))
					continue
				}
				sigs[[3]int{ki, ti, mi}] = s
				st.add(id+" sig", s)
				// sign again with a fresh hasher and a reused one: deterministic
				s2, _ := k.sk.Sign(m, kmac)
				if string(s2) != string(s) {
					st.add(id+" sig-second-call-differs", s2)
				}
			}
		}
	}
	// verdict matrix: each signature against (own | other key) x (own | other msg) x (own | other tag)
	for ki, k := range keys {
		for ti := range tags {
			for mi, m := range msgs {
				s := sigs[[3]int{ki, ti, mi}]
				if s == nil || (mi >= 6 && ki > 0) {
					continue
				}
				id := fmt.Sprintf("key#%d tag#%d msg#%d", ki, ti, mi)
				ok0, e0 := k.pk.Verify(s, m, crypto.NewExpandMsgXOFKMAC128(tags[ti]))
				ok1, e1 := keys[(ki+1)%len(keys)].pk.Verify(s, m, crypto.NewExpandMsgXOFKMAC128(tags[ti]))
				ok2, e2 := k.pk.Verify(s, msgs[(mi+1)%len(msgs)], crypto.NewExpandMsgXOFKMAC128(tags[ti]))
				ok3, e3 := k.pk.Verify(s, m, crypto.NewExpandMsgXOFKMAC128(tags[(ti+1)%len(tags)]))
				st.addS(id+" verify own/otherkey/othermsg/othertag", vS(ok0, e0)+" "+vS(ok1, e1)+" "+vS(ok2, e2)+" "+vS(ok3, e3))
			}
		}
	}
	// hasher verdicts, identity key, PoP
	k := keys[0]
	h128, _ := hash.NewKMAC_128([]byte("c20-custom-128-key"), []byte("x"), 128)
	h127, _ := hash.NewKMAC_128([]byte("c20-custom-128-key"), []byte("x"), 127)
	s, err := k.sk.Sign(msgs[2], h128)
	st.addS("custom-kmac128 sign", fmt.Sprintf("%x/%s", []byte(s), errS(err)))
	ok, err := k.pk.Verify(s, msgs[2], h128)
	st.addS("custom-kmac128 verify", vS(ok, err))
	_, err = k.sk.Sign(msgs[2], h127)
	st.addS("kmac127 sign", errS(err))
	ok, err = k.pk.Verify(s, msgs[2], h127)
	st.addS("kmac127 verify", vS(ok, err))
	_, err = k.sk.Sign(msgs[2], hash.NewSHA3_256())
	st.addS("sha3 sign", errS(err))
	_, err = k.sk.Sign(msgs[2], nil)
	st.addS("nil sign", errS(err))
	ok, err = k.pk.Verify(s, msgs[2], nil)
	st.addS("nil verify", vS(ok, err))
	idpk := crypto.IdentityBLSPublicKey()
	ids := make([]byte, 48)
	ids[0] = 0xc0
	ok, err = idpk.Verify(ids, msgs[2], h128)
	st.addS("identity-key identity-sig verify", vS(ok, err))
	ok, err = idpk.Verify(s, msgs[2], h128)
	st.addS("identity-key verify", vS(ok, err))
	ok, err = k.pk.Verify(ids, msgs[2], h128)
	st.addS("identity-sig verify", vS(ok, err))
	for ki, k := range keys {
		pop, err := crypto.BLSGeneratePOP(k.sk)
		st.addS(fmt.Sprintf("key#%d pop", ki), fmt.Sprintf("%x/%s", []byte(pop), errS(err)))
		ok, err := crypto.BLSVerifyPOP(k.pk, pop)
		ok2, err2 := crypto.BLSVerifyPOP(keys[(ki+1)%len(keys)].pk, pop)
		ok3, err3 := crypto.BLSVerifyPOP(k.pk, sigs[[3]int{ki, 0, 0}])
		// a PoP is not a signature of the key bytes under an application tag
		ok4, err4 := k.pk.Verify(pop, k.pk.Encode(), crypto.NewExpandMsgXOFKMAC128(""))
		st.addS(fmt.Sprintf("key#%d pop verify own/other/sig-as-pop/pop-as-sig", ki), vS(ok, err)+" "+vS(ok2, err2)+" "+vS(ok3, err3)+" "+vS(ok4, err4))
	}
	ok, err = crypto.BLSVerifyPOP(idpk, ids)
	st.addS("pop identity", vS(ok, err))
	st.close()
}

// ---- aggregation of keys and signatures, key removal, multi-signature verification
// offCurvePoints returns compressed E1 encodings 0x80||0..0||x for the first k small x that are
// x-coordinates of curve points (found with the library's own parser). Such points are on the
// curve but outside G1 (the cofactor is ~2^126): operations that accept unverified signatures or
// shares must still produce the same bytes in every build configuration.
func nonG1Points(k int) []crypto.Signature {
	var out []crypto.Signature
	for x := 1; len(out) < k && x < 200; x++ {
		b := make([]byte, 48)
		b[0], b[47] = 0x80, byte(x)
		if _, err := crypto.AggregateBLSSignatures([]crypto.Signature{b}); err == nil {
			out = append(out, b)
		}
	}
	return out
}

func blsAggregation() {
	st := newStream("bls.agg", 300, 25)
	n := pick(24, 70)
	keys := blsKeys("bls-agg-key", n)
	kmac := crypto.NewExpandMsgXOFKMAC128("c20-agg")
	msg := detBytes("bls-agg-msg", 0, 40)
	sigs := make([]crypto.Signature, n)
	pks := make([]crypto.PublicKey, n)
	sks := make([]crypto.PrivateKey, n)
	for i, k := range keys {
		sigs[i], _ = k.sk.Sign(msg, kmac)
		pks[i], sks[i] = k.pk, k.sk
	}
	// prefixes of every size, plus seeded subsets
	type sub struct {
		id  string
		idx []int
	}
	var subs []sub
	for l := 1; l <= n; l++ {
		ix := make([]int, l)
		for i := range ix {
			ix[i] = i
		}
		subs = append(subs, sub{fmt.Sprintf("prefix%d", l), ix})
	}
	g := newGen("bls-agg-subsets", 0)
	for c := 0; c < pick(20, 80); c++ {
		var ix []int
		for i := 0; i < n; i++ {
			if g.intn(3) == 0 {
				ix = append(ix, i)
			}
		}
		if len(ix) == 0 {
			ix = []int{g.intn(n)}
		}
		// a deterministic shuffle: aggregation must not depend on order, the transcript pins both
		for i := len(ix) - 1; i > 0; i-- {
			j := g.intn(i + 1)
			ix[i], ix[j] = ix[j], ix[i]
		}
		subs = append(subs, sub{fmt.Sprintf("subset%d%v", c, ix), ix})
	}
	subs = append(subs, sub{"dup[0,0]", []int{0, 0}}, sub{"dup[1,2,1]", []int{1, 2, 1}})
	for _, s := range subs {
		var ss []crypto.Signature
		var pp []crypto.PublicKey
		var kk []crypto.PrivateKey
		for _, i := range s.idx {
			ss, pp, kk = append(ss, sigs[i]), append(pp, pks[i]), append(kk, sks[i])
		}
		as, e1 := crypto.AggregateBLSSignatures(ss)
		ap, e2 := crypto.AggregateBLSPublicKeys(pp)
		ak, e3 := crypto.AggregateBLSPrivateKeys(kk)
		if e1 != nil || e2 != nil || e3 != nil {
			st.addS(s.id+" agg", errS(e1)+errS(e2)+errS(e3))
			continue
		}
		st.add(s.id+" aggsig", as)
		st.add(s.id+" aggpk", ap.Encode())
		st.add(s.id+" aggsk", ak.Encode())
		sk2sig, _ := ak.Sign(msg, kmac)
		ok1, v1 := ap.Verify(as, msg, kmac)
		ok2, v2 := crypto.VerifyBLSSignatureOneMessage(pp, as, msg, kmac)
		ok3, v3 := crypto.VerifyBLSSignatureOneMessage(pp[:len(pp)-1], as, msg, kmac)
		ok4, v4 := crypto.VerifyBLSSignatureOneMessage(pp, sigs[s.idx[0]], msg, kmac)
		st.addS(s.id+" verdicts", fmt.Sprintf("aggsk-sig-equal=%v aggsk-pk-equal=%v %s %s minus-one-key:%s single-sig:%s",
			string(sk2sig) == string(as), ak.PublicKey().Equals(ap), vS(ok1, v1), vS(ok2, v2), vS(ok3, v3), vS(ok4, v4)))
		// removal: remove the second half from the aggregate, must equal the aggregate of the first half
		h := len(pp) / 2
		rem, e4 := crypto.RemoveBLSPublicKeys(ap, pp[h:])
		if e4 != nil {
			st.addS(s.id+" remove", errS(e4))
			continue
		}
		st.add(s.id+" removed-second-half", rem.Encode())
		all, _ := crypto.RemoveBLSPublicKeys(ap, pp)
		none, _ := crypto.RemoveBLSPublicKeys(ap, nil)
		st.addS(s.id+" remove-all/none", fmt.Sprintf("%x identity=%v none-equal=%v", all.Encode(), all.Equals(crypto.IdentityBLSPublicKey()), none.Equals(ap)))
	}
	// inputs outside G1 (accepted by the aggregation of unverified signatures): same bytes everywhere
	ng := nonG1Points(6)
	for l := 1; l <= len(ng); l++ {
		as, err := crypto.AggregateBLSSignatures(ng[:l])
		st.addS(fmt.Sprintf("non-G1 inputs prefix%d aggsig", l), fmt.Sprintf("%x/%s", []byte(as), errS(err)))
		mixed := append(append([]crypto.Signature{}, sigs[:l]...), ng[:l]...)
		as, err = crypto.AggregateBLSSignatures(mixed)
		okv, ve := pks[0].Verify(as, msg, kmac)
		st.addS(fmt.Sprintf("non-G1 inputs mixed%d aggsig", l), fmt.Sprintf("%x/%s verify:%s", []byte(as), errS(err), vS(okv, ve)))
		as, err = crypto.AggregateBLSSignatures([]crypto.Signature{ng[l-1], ng[l-1]})
		st.addS(fmt.Sprintf("non-G1 input doubled#%d", l), fmt.Sprintf("%x/%s", []byte(as), errS(err)))
		okv, ve = pks[0].Verify(ng[l-1], msg, kmac)
		oks, se := crypto.SPOCKVerify(pks[0], ng[l-1], pks[1], sigs[1])
		st.addS(fmt.Sprintf("non-G1 signature#%d verdicts", l), "verify:"+vS(okv, ve)+" spock:"+vS(oks, se))
	}
	// empty lists, identity
	_, e := crypto.AggregateBLSSignatures(nil)
	st.addS("empty aggsig", fmt.Sprintf("%s %v", errS(e), crypto.IsBLSAggregateEmptyListError(e)))
	_, e = crypto.AggregateBLSPublicKeys(nil)
	st.addS("empty aggpk", fmt.Sprintf("%s %v", errS(e), crypto.IsBLSAggregateEmptyListError(e)))
	_, e = crypto.AggregateBLSPrivateKeys(nil)
	st.addS("empty aggsk", fmt.Sprintf("%s %v", errS(e), crypto.IsBLSAggregateEmptyListError(e)))
	ok, e := crypto.VerifyBLSSignatureOneMessage(nil, sigs[0], msg, kmac)
	st.addS("empty verify-one", vS(ok, e))
	st.add("identity pk", crypto.IdentityBLSPublicKey().Encode())
	// sk and r-sk aggregate to the identity public key
	d := new(big.Int).SetBytes(sks[0].Encode())
	negsk, err := crypto.DecodePrivateKey(crypto.BLSBLS12381, b32(new(big.Int).Sub(blsR, d)))
	if err == nil {
		ap, _ := crypto.AggregateBLSPublicKeys([]crypto.PublicKey{pks[0], negsk.PublicKey()})
		ns, _ := negsk.Sign(msg, kmac)
		as, _ := crypto.AggregateBLSSignatures([]crypto.Signature{sigs[0], ns})
		ok, e := crypto.VerifyBLSSignatureOneMessage([]crypto.PublicKey{pks[0], negsk.PublicKey()}, as, msg, kmac)
		st.addS("pk+(-pk)", fmt.Sprintf("%x aggsig=%x identity-sig=%v verify:%s", ap.Encode(), []byte(as), crypto.IsBLSSignatureIdentity(as), vS(ok, e)))
		_, e = crypto.AggregateBLSPrivateKeys([]crypto.PrivateKey{sks[0], negsk})
		st.addS("sk+(-sk)", errS(e))
	}
	// keys held in NON-AFFINE internal form (results of RemoveBLSPublicKeys, public key shares of the
	// threshold key generation) as inputs of aggregation, removal and one-message verification: the point
	// addition formulas chosen per configuration must not assume affine inputs
	{
		jac := make([]crypto.PublicKey, 6)
		for i := range jac {
			agg, _ := crypto.AggregateBLSPublicKeys([]crypto.PublicKey{pks[i], pks[i+7], pks[i+9]})
			jac[i], _ = crypto.RemoveBLSPublicKeys(agg, []crypto.PublicKey{pks[i+7], pks[i+9]}) // = pks[i], projective
			st.addS(fmt.Sprintf("jacobian key %d equals affine key", i), fmt.Sprintf("%v %x", jac[i].Equals(pks[i]), jac[i].Encode()[:8]))
		}
		for l := 1; l <= len(jac); l++ {
			a1, e1 := crypto.AggregateBLSPublicKeys(jac[:l])
			a2, _ := crypto.AggregateBLSPublicKeys(pks[:l])
			mix := append(append([]crypto.PublicKey{}, jac[:l]...), pks[10:10+l]...)
			a3, e3 := crypto.AggregateBLSPublicKeys(mix)
			as, _ := crypto.AggregateBLSSignatures(sigs[:l])
			ok, e := crypto.VerifyBLSSignatureOneMessage(jac[:l], as, msg, kmac)
			enc := func(k crypto.PublicKey) string {
				if k == nil {
					return "nil"
				}
				return fmt.Sprintf("%x", k.Encode())
			}
			st.addS(fmt.Sprintf("aggregate of %d jacobian keys", l), fmt.Sprintf("%s %s same-as-affine=%v verify:%s", enc(a1), errS(e1), a1 != nil && a2 != nil && a1.Equals(a2), vS(ok, e)))
			st.addS(fmt.Sprintf("aggregate of %d jacobian + %d affine keys", l, l), fmt.Sprintf("%s %s", enc(a3), errS(e3)))
			r1, er := crypto.RemoveBLSPublicKeys(a3, jac[:l])
			st.addS(fmt.Sprintf("remove %d jacobian keys", l), fmt.Sprintf("%s %s", enc(r1), errS(er)))
		}
		tsk, tpk, tg, terr := crypto.BLSThresholdKeyGen(5, 2, detBytes("bls-agg-thr", 0, 32))
		if terr == nil {
			a, e := crypto.AggregateBLSPublicKeys(tpk)
			st.addS("aggregate of threshold public key shares", fmt.Sprintf("%x %s group=%x", a.Encode(), errS(e), tg.Encode()[:8]))
			var ss []crypto.Signature
			for _, k := range tsk {
				s, _ := k.Sign(msg, kmac)
				ss = append(ss, s)
			}
			as, _ := crypto.AggregateBLSSignatures(ss)
			ok, e := crypto.VerifyBLSSignatureOneMessage(tpk, as, msg, kmac)
			st.addS("one-message verification under threshold public key shares", vS(ok, e))
		}
	}
	// not-BLS keys
	ec, _ := crypto.GeneratePrivateKey(crypto.ECDSAP256, detBytes("bls-agg-ecdsa", 0, 32))
	_, e = crypto.AggregateBLSPublicKeys([]crypto.PublicKey{pks[0], ec.PublicKey()})
	st.addS("aggpk with ecdsa key", fmt.Sprintf("%s %v", errS(e), crypto.IsNotBLSKeyError(e)))
	_, e = crypto.RemoveBLSPublicKeys(pks[0], []crypto.PublicKey{ec.PublicKey()})
	st.addS("remove ecdsa key", errS(e))

	// many messages
	mm := newStream("bls.agg.manymsg", 200, 25)
	msgs := make([][]byte, 6)
	for i := range msgs {
		msgs[i] = detBytes("bls-many-msg", i, 10+i*30)
	}
	tags := []string{"c20-many-0", "c20-many-1"}
	shapes := [][][2]int{ // list of (key, msg) pairs
		{{0, 0}},
		{{0, 0}, {1, 1}},
		{{0, 0}, {1, 0}, {2, 0}},
		{{0, 0}, {0, 1}, {0, 2}},
		{{0, 0}, {1, 1}, {0, 1}, {1, 0}},
		{{0, 0}, {1, 1}, {2, 2}, {3, 3}, {4, 4}, {5, 5}},
		{{0, 0}, {1, 0}, {2, 1}, {3, 1}, {4, 2}, {5, 2}, {6, 3}},
		{{0, 0}, {0, 0}},
		{{0, 1}, {1, 1}, {2, 1}, {3, 2}, {3, 3}, {3, 4}, {4, 5}, {5, 5}, {6, 0}, {7, 0}, {8, 1}},
	}
	for si, sh := range shapes {
		for variant := 0; variant < 4; variant++ {
			var pp []crypto.PublicKey
			var ms [][]byte
			var hs []hash.Hasher
			var ss []crypto.Signature
			for i, km := range sh {
				tag := tags[0]
				if variant == 1 && i%2 == 1 {
					tag = tags[1] // mixed hashers
				}
				h := crypto.NewExpandMsgXOFKMAC128(tag)
				s, _ := sks[km[0]].Sign(msgs[km[1]], h)
				pp, ms, hs, ss = append(pp, pks[km[0]]), append(ms, msgs[km[1]]), append(hs, h), append(ss, s)
			}
			as, _ := crypto.AggregateBLSSignatures(ss)
			id := fmt.Sprintf("shape#%d variant#%d", si, variant)
			switch variant {
			case 2: // one message replaced
				ms[len(ms)-1] = []byte("other")
			case 3: // one key replaced
				pp[0] = pks[9]
			}
			ok, e := crypto.VerifyBLSSignatureManyMessages(pp, as, ms, hs)
			mm.add(id+" aggsig", as)
			mm.addS(id+" verdict", vS(ok, e))
		}
	}
	// LONG lists of distinct (key, message) couples: the C layer feeds the pairing in fixed-size batches
	// whose size constants differ between build configurations (lengths around the multiples of 8 / 16)
	{
		const maxLong = 65
		lsk := make([]crypto.PrivateKey, maxLong)
		lpk := make([]crypto.PublicKey, maxLong)
		lms := make([][]byte, maxLong)
		lsg := make([]crypto.Signature, maxLong)
		lh := crypto.NewExpandMsgXOFKMAC128("c20-many-long")
		for i := range lsk {
			lsk[i], _ = crypto.GeneratePrivateKey(crypto.BLSBLS12381, detBytes("bls-many-long-key", i, 32))
			lpk[i] = lsk[i].PublicKey()
			lms[i] = detBytes("bls-many-long-msg", i, 5+i%40)
			lsg[i], _ = lsk[i].Sign(lms[i], lh)
		}
		for _, n := range []int{7, 8, 9, 15, 16, 17, 23, 24, 25, 31, 32, 33, 47, 48, 49, 63, 64, 65} {
			hs := make([]hash.Hasher, n)
			for i := range hs {
				hs[i] = lh
			}
			as, _ := crypto.AggregateBLSSignatures(lsg[:n])
			ok, e := crypto.VerifyBLSSignatureManyMessages(lpk[:n], as, lms[:n], hs)
			mm.addS(fmt.Sprintf("long n=%d distinct couples", n), fmt.Sprintf("aggsig=%x %s", []byte(as), vS(ok, e)))
			// the last message replaced: false
			ms2 := append(append([][]byte{}, lms[:n-1]...), []byte("other"))
			ok, e = crypto.VerifyBLSSignatureManyMessages(lpk[:n], as, ms2, hs)
			mm.addS(fmt.Sprintf("long n=%d last message replaced", n), vS(ok, e))
			// half as many distinct messages as keys (the grouping goes by message)
			ms3 := make([][]byte, n)
			sg3 := make([]crypto.Signature, n)
			for i := 0; i < n; i++ {
				ms3[i] = lms[i/2]
				sg3[i], _ = lsk[i].Sign(ms3[i], lh)
			}
			as3, _ := crypto.AggregateBLSSignatures(sg3)
			ok, e = crypto.VerifyBLSSignatureManyMessages(lpk[:n], as3, ms3, hs)
			mm.addS(fmt.Sprintf("long n=%d two keys per message", n), vS(ok, e))
		}
	}
	ok, e = crypto.VerifyBLSSignatureManyMessages(pks[:2], sigs[0], msgs[:1], []hash.Hasher{kmac})
	mm.addS("length mismatch", vS(ok, e))
	ok, e = crypto.VerifyBLSSignatureManyMessages(nil, sigs[0], nil, nil)
	mm.addS("empty", vS(ok, e))
	ok, e = crypto.VerifyBLSSignatureManyMessages([]crypto.PublicKey{pks[0], crypto.IdentityBLSPublicKey()}, sigs[0], [][]byte{msg, msg}, []hash.Hasher{kmac, kmac})
	mm.addS("with identity key", vS(ok, e))
	ok, e = crypto.VerifyBLSSignatureManyMessages(pks[:1], sigs[0][:47], [][]byte{msg}, []hash.Hasher{kmac})
	mm.addS("short sig", vS(ok, e))
	mm.close()
	st.close()
}

// ---- batch verification verdicts (internal random coefficients; verdicts are deterministic)
func blsBatch() {
	st := newStream("bls.batch", 200, 25)
	n := pick(12, 40)
	keys := blsKeys("bls-batch-key", n)
	kmac := crypto.NewExpandMsgXOFKMAC128("c20-batch")
	msg := detBytes("bls-batch-msg", 0, 64)
	sigs := make([]crypto.Signature, n)
	pks := make([]crypto.PublicKey, n)
	for i, k := range keys {
		sigs[i], _ = k.sk.Sign(msg, kmac)
		pks[i] = k.pk
	}
	other, _ := keys[0].sk.Sign([]byte("other message"), kmac)
	ids := make([]byte, 48)
	ids[0] = 0xc0
	bad := []bcand{{"othermsg", other}, {"invalid-const", crypto.BLSInvalidSignature()}, {"identity", ids}, {"short", other[:47]}}
	for size := 1; size <= n; size++ {
		if size > 9 && size%4 != 0 && !thorough {
			continue
		}
		// none invalid
		res, err := crypto.BatchVerifyBLSSignaturesOneMessage(pks[:size], sigs[:size], msg, kmac)
		st.addS(fmt.Sprintf("size=%d all-valid", size), fmt.Sprint(res, errS(err)))
		// one invalid at each position, each kind of invalid signature
		for pos := 0; pos < size; pos++ {
			for bi, b := range bad {
				if bi > 0 && pos%3 != 0 && !thorough {
					continue
				}
				ss := append([]crypto.Signature{}, sigs[:size]...)
				ss[pos] = b.b
				res, err := crypto.BatchVerifyBLSSignaturesOneMessage(pks[:size], ss, msg, kmac)
				st.addS(fmt.Sprintf("size=%d invalid@%d(%s)", size, pos, b.id), fmt.Sprint(res, errS(err)))
			}
		}
		// swapped signatures (two invalid), all invalid
		if size >= 2 {
			ss := append([]crypto.Signature{}, sigs[:size]...)
			ss[0], ss[size-1] = ss[size-1], ss[0]
			res, err := crypto.BatchVerifyBLSSignaturesOneMessage(pks[:size], ss, msg, kmac)
			st.addS(fmt.Sprintf("size=%d swapped-ends", size), fmt.Sprint(res, errS(err)))
			for i := range ss {
				ss[i] = other
			}
			res, err = crypto.BatchVerifyBLSSignaturesOneMessage(pks[:size], ss, msg, kmac)
			st.addS(fmt.Sprintf("size=%d all-invalid", size), fmt.Sprint(res, errS(err)))
			// identity public key inside the batch
			pp := append([]crypto.PublicKey{}, pks[:size]...)
			pp[size/2] = crypto.IdentityBLSPublicKey()
			res, err = crypto.BatchVerifyBLSSignaturesOneMessage(pp, sigs[:size], msg, kmac)
			st.addS(fmt.Sprintf("size=%d identity-key@%d", size, size/2), fmt.Sprint(res, errS(err)))
		}
	}
	res, err := crypto.BatchVerifyBLSSignaturesOneMessage(nil, nil, msg, kmac)
	st.addS("empty", fmt.Sprint(res, errS(err)))
	res, err = crypto.BatchVerifyBLSSignaturesOneMessage(pks[:2], sigs[:3], msg, kmac)
	st.addS("length mismatch", fmt.Sprint(res, errS(err)))
	res, err = crypto.BatchVerifyBLSSignaturesOneMessage(pks[:2], sigs[:2], msg, nil)
	st.addS("nil hasher", fmt.Sprint(res, errS(err)))
	st.close()
}

// ---- SPoCK
func blsSpock() {
	st := newStream("bls.spock", 200, 25)
	keys := blsKeys("bls-spock-key", pick(4, 8))
	datas := [][]byte{nil, detBytes("spock-data", 0, 32), detBytes("spock-data", 1, 500)}
	kmac := crypto.NewExpandMsgXOFKMAC128("c20-spock")
	proofs := make([][]crypto.Signature, len(keys))
	for ki, k := range keys {
		proofs[ki] = make([]crypto.Signature, len(datas))
		for di, d := range datas {
			p, err := crypto.SPOCKProve(k.sk, d, kmac)
			proofs[ki][di] = p
			st.addS(fmt.Sprintf("key#%d data#%d proof", ki, di), fmt.Sprintf("%x/%s", []byte(p), errS(err)))
			ok, e := crypto.SPOCKVerifyAgainstData(k.pk, p, d, kmac)
			ok2, e2 := crypto.SPOCKVerifyAgainstData(k.pk, p, datas[(di+1)%len(datas)], kmac)
			ok3, e3 := crypto.SPOCKVerifyAgainstData(keys[(ki+1)%len(keys)].pk, p, d, kmac)
			st.addS(fmt.Sprintf("key#%d data#%d against-data own/otherdata/otherkey", ki, di), vS(ok, e)+" "+vS(ok2, e2)+" "+vS(ok3, e3))
		}
	}
	ids := make([]byte, 48)
	ids[0] = 0xc0
	for a := range keys {
		for b := range keys {
			for da := range datas {
				for db := range datas {
					ok, e := crypto.SPOCKVerify(keys[a].pk, proofs[a][da], keys[b].pk, proofs[b][db])
					st.addS(fmt.Sprintf("verify key#%d/data#%d vs key#%d/data#%d", a, da, b, db), vS(ok, e))
				}
			}
		}
		ok, e := crypto.SPOCKVerify(keys[a].pk, proofs[a][1], keys[0].pk, proofs[a][1])
		st.addS(fmt.Sprintf("verify key#%d proof against key#0", a), vS(ok, e))
		ok, e = crypto.SPOCKVerify(keys[a].pk, proofs[a][1][:47], keys[0].pk, proofs[0][1])
		st.addS(fmt.Sprintf("verify key#%d short proof", a), vS(ok, e))
		ok, e = crypto.SPOCKVerify(keys[a].pk, crypto.BLSInvalidSignature(), keys[0].pk, proofs[0][1])
		st.addS(fmt.Sprintf("verify key#%d invalid proof", a), vS(ok, e))
		ok, e = crypto.SPOCKVerify(keys[a].pk, ids, keys[0].pk, ids)
		st.addS(fmt.Sprintf("verify key#%d identity proofs", a), vS(ok, e))
		ok, e = crypto.SPOCKVerify(crypto.IdentityBLSPublicKey(), proofs[a][1], crypto.IdentityBLSPublicKey(), proofs[0][1])
		st.addS(fmt.Sprintf("verify key#%d identity keys", a), vS(ok, e))
	}
	st.close()
}

// ---- threshold key generation, share signing, reconstruction (stateless and stateful)
func blsThreshold() {
	st := newStream("bls.thr", 1<<30, 25)      // reconstruction / inspector results: all verbatim
	ks := newStream("bls.thr.keys", 300, 25) // key shares and signature shares: bulk
	type nt struct{ n, t int }
	cfgs := []nt{{2, 1}, {3, 1}, {3, 2}, {4, 3}, {5, 2}, {6, 4}, {7, 5}, {10, 4}, {10, 9},
		// n=20: t+1 signers straddle the 8-index batches of the Lagrange coefficient loop
		{20, 6}, {20, 7}, {20, 8}, {20, 14}, {20, 15}, {20, 16}, {20, 19},
		// the largest group: indices up to 254 give the largest per-limb products
		{254, 8}, {254, 16}}
	if thorough {
		cfgs = append(cfgs, nt{4, 1}, nt{4, 2}, nt{4, 3}, nt{7, 3}, nt{9, 7}, nt{17, 8}, nt{33, 16}, nt{50, 24}, nt{100, 33}, nt{254, 23}, nt{254, 24}, nt{254, 127}, nt{254, 253})
	}
	{ // no configuration twice (labels must be unique)
		seen := map[nt]bool{}
		var u []nt
		for _, c := range cfgs {
			if !seen[c] {
				seen[c] = true
				u = append(u, c)
			}
		}
		cfgs = u
	}
	thrNonG1 := nonG1Points(5)
	msg := detBytes("bls-thr-msg", 0, 48)
	tag := "c20-threshold"
	kmac := crypto.NewExpandMsgXOFKMAC128(tag)
	for ci, c := range cfgs {
		id := fmt.Sprintf("n=%d t=%d", c.n, c.t)
		seed := detBytes("bls-thr-seed", ci, 32+ci)
		sks, pks, gpk, err := crypto.BLSThresholdKeyGen(c.n, c.t, seed)
		if err != nil {
			st.addS(id+" keygen", errS(err))
			continue
		}
		st.add(id+" group-pk", gpk.Encode())
		shares := make([]crypto.Signature, c.n)
		for i := range sks {
			ks.add(fmt.Sprintf("%s sk[%d]", id, i), sks[i].Encode())
			ks.add(fmt.Sprintf("%s pk[%d]", id, i), pks[i].Encode())
			if !sks[i].PublicKey().Equals(pks[i]) {
				ks.addS(fmt.Sprintf("%s pk[%d] mismatch", id, i), "sk.PublicKey() != pk share")
			}
			shares[i], _ = sks[i].Sign(msg, kmac)
			ks.add(fmt.Sprintf("%s share[%d]", id, i), shares[i])
		}
		// signer sets: first t+1, last t+1, every (n/(t+1))-th, seeded permutations (all n offered,
		// only the first t+1 are used), the top indices
		var sets [][]int
		first := make([]int, c.t+1)
		last := make([]int, c.t+1)
		for i := range first {
			first[i] = i
			last[i] = c.n - 1 - i
		}
		sets = append(sets, first, last)
		g := newGen("bls-thr-sets", ci)
		for k := 0; k < pick(6, 20); k++ {
			perm := make([]int, c.n)
			for i := range perm {
				perm[i] = i
			}
			for i := c.n - 1; i > 0; i-- {
				j := g.intn(i + 1)
				perm[i], perm[j] = perm[j], perm[i]
			}
			if k%2 == 0 {
				sets = append(sets, perm[:c.t+1])
			} else {
				sets = append(sets, perm)
			}
		}
		for si, set := range sets {
			ss := make([]crypto.Signature, len(set))
			for i, s := range set {
				ss[i] = shares[s]
			}
			sig, err := crypto.BLSReconstructThresholdSignature(c.n, c.t, ss, set)
			lbl := fmt.Sprintf("%s set#%d%v", id, si, trunc(set, 24))
			if err != nil {
				st.addS(lbl+" reconstruct", errS(err))
				continue
			}
			ok, verr := gpk.Verify(sig, msg, kmac)
			st.addS(lbl+" reconstruct", fmt.Sprintf("%x verify:%s", []byte(sig), vS(ok, verr)))
			// one wrong share inside the used prefix: reconstruction succeeds, result must not verify
			ss[c.t/2] = shares[(set[c.t/2]+1)%c.n]
			sig2, err := crypto.BLSReconstructThresholdSignature(c.n, c.t, ss, set)
			if err == nil {
				ok, verr = gpk.Verify(sig2, msg, kmac)
			}
			st.addS(lbl+" reconstruct-with-wrong-share", fmt.Sprintf("%x/%s verify:%s", []byte(sig2), errS(err), vS(ok, verr)))
			// unverified shares outside G1 (on the curve) at the first, a middle and the last used
			// position: the result is meaningless but must be the same bytes in every configuration
			if si < 3 {
				for pi, pos := range []int{0, c.t / 2, c.t} {
					if (pi == 1 && pos == 0) || (pi == 2 && pos == c.t/2) {
						continue
					}
					ss2 := make([]crypto.Signature, len(set))
					for i, s := range set {
						ss2[i] = shares[s]
					}
					ss2[pos] = thrNonG1[(pi+si)%len(thrNonG1)]
					sig3, err := crypto.BLSReconstructThresholdSignature(c.n, c.t, ss2, set)
					st.addS(fmt.Sprintf("%s reconstruct-with-non-G1-share@%d", lbl, pos), fmt.Sprintf("%x/%s", []byte(sig3), errS(err)))
				}
				allBad := make([]crypto.Signature, len(set))
				for i := range allBad {
					allBad[i] = thrNonG1[i%len(thrNonG1)]
				}
				sig4, err := crypto.BLSReconstructThresholdSignature(c.n, c.t, allBad, set)
				st.addS(lbl+" reconstruct-all-non-G1", fmt.Sprintf("%x/%s", []byte(sig4), errS(err)))
			}
		}
		// error verdicts
		_, err = crypto.BLSReconstructThresholdSignature(c.n, c.t, shares[:c.t], first[:c.t])
		st.addS(id+" too-few", fmt.Sprintf("%s %v", errS(err), crypto.IsNotEnoughSharesError(err)))
		dup := append([]int{}, first...)
		dup[c.t] = dup[0]
		_, err = crypto.BLSReconstructThresholdSignature(c.n, c.t, shares[:c.t+1], dup)
		st.addS(id+" duplicate", fmt.Sprintf("%s %v", errS(err), crypto.IsDuplicatedSignerError(err)))
		badS := append([]crypto.Signature{}, shares[:c.t+1]...)
		badS[0] = crypto.BLSInvalidSignature()
		_, err = crypto.BLSReconstructThresholdSignature(c.n, c.t, badS, first)
		st.addS(id+" invalid-share-bytes", fmt.Sprintf("%s %v", errS(err), crypto.IsInvalidSignatureError(err)))

		// stateful objects (small and medium groups only: each VerifyAndAdd is a pairing check)
		if c.n > 20 && !thorough {
			continue
		}
		insp, err := crypto.NewBLSThresholdSignatureInspector(gpk, pks, c.t, msg, tag)
		if err != nil {
			st.addS(id+" inspector", errS(err))
			continue
		}
		order := sets[len(sets)-1]
		if len(order) < c.n {
			order = sets[3]
		}
		var log string
		for k, i := range order {
			if k > c.t+2 {
				break
			}
			part, err := crypto.NewBLSThresholdSignatureParticipant(gpk, pks, c.t, i, sks[i], msg, tag)
			if err != nil {
				log += fmt.Sprintf("participant %d: %s;", i, errS(err))
				continue
			}
			sh, err := part.SignShare()
			log += fmt.Sprintf("share[%d]same=%v/%s ", i, string(sh) == string(shares[i]), errS(err))
			okv, err := insp.VerifyShare(i, sh)
			okw, _ := insp.VerifyShare((i+1)%c.n, sh)
			log += fmt.Sprintf("verify=%s wrongidx=%v ", vS(okv, err), okw)
			if k == 1 {
				v, e, err := insp.VerifyAndAdd(i, shares[(i+1)%c.n]) // invalid share for i: rejected
				log += fmt.Sprintf("add-invalid=%v,%v,%s ", v, e, errS(err))
			}
			v, e, err := insp.VerifyAndAdd(i, sh)
			has, _ := insp.HasShare(i)
			log += fmt.Sprintf("add=%v,%v,%s has=%v enough=%v;", v, e, errS(err), has, insp.EnoughShares())
			if k == 0 {
				_, _, err := insp.VerifyAndAdd(i, sh)
				log += fmt.Sprintf("re-add=%s,%v;", errS(err), crypto.IsDuplicatedSignerError(err))
				_, err = insp.ThresholdSignature()
				log += fmt.Sprintf("early=%s,%v;", errS(err), crypto.IsNotEnoughSharesError(err))
			}
		}
		st.addS(id+" inspector log", log)
		ts, err := insp.ThresholdSignature()
		okt, verr := insp.VerifyThresholdSignature(ts)
		okg, _ := gpk.Verify(ts, msg, kmac)
		st.addS(id+" inspector threshold-sig", fmt.Sprintf("%x/%s verify:%s gpk:%v", []byte(ts), errS(err), vS(okt, verr), okg))
		// TrustedAdd of an invalid share: ThresholdSignature must fail its post-verification
		insp2, _ := crypto.NewBLSThresholdSignatureInspector(gpk, pks, c.t, msg, tag)
		var log2 string
		for k := 0; k <= c.t; k++ {
			sh := shares[k]
			if k == c.t {
				sh = shares[(k+1)%c.n]
			}
			e, err := insp2.TrustedAdd(k, sh)
			log2 += fmt.Sprintf("%v/%s ", e, errS(err))
		}
		ts2, err := insp2.ThresholdSignature()
		st.addS(id+" inspector trusted-add-invalid", fmt.Sprintf("%s-> %x/%s", log2, []byte(ts2), errS(err)))
	}
	// parameter verdicts
	for _, c := range []nt{{1, 1}, {2, 0}, {2, 2}, {255, 1}, {3, -1}} {
		_, _, _, err := crypto.BLSThresholdKeyGen(c.n, c.t, detBytes("bls-thr-seed", 0, 32))
		st.addS(fmt.Sprintf("keygen n=%d t=%d", c.n, c.t), errS(err))
	}
	_, _, _, err := crypto.BLSThresholdKeyGen(3, 1, make([]byte, 15))
	st.addS("keygen short seed", errS(err))
	for _, c := range [][2]int{{0, 0}, {1, 1}, {1, 2}, {5, 5}, {5, 6}} {
		ok, err := crypto.EnoughShares(c[0], c[1])
		st.addS(fmt.Sprintf("EnoughShares(%d,%d)", c[0], c[1]), vS(ok, err))
	}
	st.close()
	ks.close()
}

func trunc(s []int, n int) []int {
	if len(s) > n {
		return s[:n]
	}
	return s
}

// ---------------------------------------------------------------------------------------
// DKG: real instances driven synchronously; an in-memory processor queues every outgoing
// message; queues are delivered FIFO in a fixed order; every message, every processor
// callback and every End() result is part of the transcript.

type dkgMsg struct {
	from, to int // to = -1: broadcast
	data     []byte
}

type dkgNet struct {
	st    *stream
	id    string
	queue []dkgMsg
	seq   int
	drop  func(m dkgMsg) bool // messages the network "loses" (a dealer omitting a share)
}

type dkgProc struct {
	net *dkgNet
	me  int
}

func (p *dkgProc) PrivateSend(dest int, data []byte) {
	p.net.log(fmt.Sprintf("send priv %d->%d", p.me, dest), data)
	p.net.queue = append(p.net.queue, dkgMsg{p.me, dest, append([]byte{}, data...)})
}
func (p *dkgProc) Broadcast(data []byte) {
	p.net.log(fmt.Sprintf("send bcast %d", p.me), data)
	p.net.queue = append(p.net.queue, dkgMsg{p.me, -1, append([]byte{}, data...)})
}
func (p *dkgProc) Disqualify(index int, log string) {
	p.net.log(fmt.Sprintf("node %d disqualifies %d", p.me, index), []byte(log))
}
func (p *dkgProc) FlagMisbehavior(index int, log string) {
	p.net.log(fmt.Sprintf("node %d flags %d", p.me, index), []byte(log))
}
func (n *dkgNet) log(what string, data []byte) {
	n.st.add(fmt.Sprintf("%s #%03d %s", n.id, n.seq, what), data)
	n.seq++
}

// deliver drains the queue (messages produced while delivering are appended and delivered too).
func (n *dkgNet) deliver(nodes []crypto.DKGState) {
	for len(n.queue) > 0 {
		m := n.queue[0]
		n.queue = n.queue[1:]
		if n.drop != nil && n.drop(m) {
			n.log(fmt.Sprintf("DROPPED %d->%d", m.from, m.to), m.data)
			continue
		}
		if m.to >= 0 {
			err := nodes[m.to].HandlePrivateMsg(m.from, m.data)
			n.log(fmt.Sprintf("deliver priv %d->%d", m.from, m.to), []byte(errS(err)))
			continue
		}
		for i, nd := range nodes {
			if i == m.from {
				continue
			}
			err := nd.HandleBroadcastMsg(m.from, m.data)
			n.log(fmt.Sprintf("deliver bcast %d->%d", m.from, i), []byte(errS(err)))
		}
	}
}

func (n *dkgNet) finish(nodes []crypto.DKGState) {
	for i, nd := range nodes {
		sk, gpk, pks, err := nd.End()
		if err != nil {
			n.log(fmt.Sprintf("end node %d", i), []byte(fmt.Sprintf("%s failure=%v", errS(err), crypto.IsDKGFailureError(err))))
			continue
		}
		v := ""
		if sk != nil {
			v = fmt.Sprintf("sk=%x ", sk.Encode())
		} else {
			v = "sk=nil "
		}
		v += fmt.Sprintf("gpk=%x pks=", gpk.Encode())
		for _, p := range pks {
			if p == nil {
				v += "nil,"
			} else {
				v += fmt.Sprintf("%x,", p.Encode())
			}
		}
		n.log(fmt.Sprintf("end node %d running=%v", i, nd.Running()), []byte(v))
	}
}

func blsDKG() {
	st := newStream("bls.dkg", 2000, 25)
	type run struct {
		kind       string
		n, t       int
		dealer     int
		dropShares []int // FVSSQ / JF: private shares from the dealer (node `dealer`) to these nodes are lost
	}
	runs := []run{
		{"jf", 3, 1, 0, nil},
		{"fvssq", 4, 1, 1, []int{2}}, // one complaint + its answer
		{"fvssq", 3, 1, 0, nil},
		{"fvss", 3, 1, 2, nil},
	}
	if thorough {
		runs = append(runs,
			run{"jf", 5, 2, 0, nil},
			run{"jf", 4, 1, 3, []int{0}},           // dealer 3's share to node 0 is lost: complaint + answer inside Joint-Feldman
			run{"fvssq", 6, 2, 0, []int{1, 4}},     // two complaints (<= t), both answered
			run{"fvssq", 5, 1, 0, []int{1, 2}},     // two complaints > t: dealer disqualified
			run{"fvss", 7, 3, 0, nil},
			run{"jf", 8, 3, 0, nil},
		)
	}
	// group-size sweep: the public key shares are images of the verification vector at 1..n, computed by
	// routines whose small-exponent / windowing choices depend on n (and differ between configurations)
	maxSweep := 40
	if thorough {
		maxSweep = 72
	}
	for n := 5; n <= maxSweep; n++ {
		runs = append(runs, run{"fvss", n, 1 + n%2, n % 3, nil})
	}
	runs = append(runs, run{"fvss", 16, 7, 0, nil}, run{"fvss", 17, 8, 0, nil}, run{"fvssq", 16, 5, 15, []int{3}}, run{"fvss", 33, 16, 0, nil})
	if thorough {
		runs = append(runs, run{"fvss", 128, 2, 0, nil}, run{"fvss", 129, 2, 1, nil}, run{"fvss", 254, 1, 0, nil}, run{"fvss", 65, 32, 0, nil}, run{"jf", 16, 5, 0, nil}, run{"jf", 17, 8, 0, nil})
	}
	for ri, r := range runs {
		net := &dkgNet{st: st, id: fmt.Sprintf("run#%d %s(n=%d,t=%d,dealer=%d,drop=%v)", ri, r.kind, r.n, r.t, r.dealer, r.dropShares)}
		if len(r.dropShares) > 0 {
			r := r
			net.drop = func(m dkgMsg) bool {
				if m.to < 0 || m.from != r.dealer || len(m.data) == 0 || m.data[0] != 0 { // tag 0 = private share
					return false
				}
				for _, d := range r.dropShares {
					if d == m.to {
						return true
					}
				}
				return false
			}
		}
		nodes := make([]crypto.DKGState, r.n)
		var err error
		for i := range nodes {
			p := &dkgProc{net, i}
			switch r.kind {
			case "jf":
				nodes[i], err = crypto.NewJointFeldman(r.n, r.t, i, p)
			case "fvssq":
				nodes[i], err = crypto.NewFeldmanVSSQual(r.n, r.t, i, p, r.dealer)
			case "fvss":
				nodes[i], err = crypto.NewFeldmanVSS(r.n, r.t, i, p, r.dealer)
			}
			if err != nil {
				net.log(fmt.Sprintf("ctor node %d", i), []byte(errS(err)))
			}
		}
		if err != nil {
			continue
		}
		for i, nd := range nodes {
			err := nd.Start(detBytes("dkg-seed", ri*100+i, 32+i))
			net.log(fmt.Sprintf("start node %d size=%d threshold=%d", i, nd.Size(), nd.Threshold()), []byte(errS(err)))
		}
		net.deliver(nodes)
		if r.kind != "fvss" {
			for phase := 1; phase <= 2; phase++ {
				for i, nd := range nodes {
					err := nd.NextTimeout()
					net.log(fmt.Sprintf("timeout%d node %d", phase, i), []byte(errS(err)))
				}
				net.deliver(nodes)
			}
		}
		net.finish(nodes)
		// the produced keys work as threshold keys (uses node 0's view)
	}
	st.close()
}
