//go:build !cgo || no_cgo

package main

// Builds without BLS (CGO_ENABLED=0 -tags no_cgo): every BLS entry point of the library
// panics by design, so the transcript has no "bls." section at all.
func blsSections() {}

func buildInfo() {}
