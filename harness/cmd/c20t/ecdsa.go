package main

import (
	"fmt"
	"math/big"

	crypto "github.com/onflow/crypto"
	"github.com/onflow/crypto/hash"
)

// ---------------------------------------------------------------------------------------
// Minimal affine short-Weierstrass arithmetic (math/big only). It is used to CONSTRUCT fixed
// inputs (valid ECDSA signatures with a fixed nonce, points on/off the curve); it is not an
// oracle: C20 only compares the library's outputs across build configurations.

type wcurve struct {
	name          string
	algo          crypto.SigningAlgorithm
	p, a, b, n    *big.Int
	gx, gy        *big.Int
}

func hexInt(s string) *big.Int { v, _ := new(big.Int).SetString(s, 16); return v }

var curves = []*wcurve{
	{
		name: "p256", algo: crypto.ECDSAP256,
		p:  hexInt("ffffffff00000001000000000000000000000000ffffffffffffffffffffffff"),
		a:  hexInt("ffffffff00000001000000000000000000000000fffffffffffffffffffffffc"),
		b:  hexInt("5ac635d8aa3a93e7b3ebbd55769886bc651d06b0cc53b0f63bce3c3e27d2604b"),
		n:  hexInt("ffffffff00000000ffffffffffffffffbce6faada7179e84f3b9cac2fc632551"),
		gx: hexInt("6b17d1f2e12c4247f8bce6e563a440f277037d812deb33a0f4a13945d898c296"),
		gy: hexInt("4fe342e2fe1a7f9b8ee7eb4a7c0f9e162bce33576b315ececbb6406837bf51f5"),
	},
	{
		name: "secp256k1", algo: crypto.ECDSASecp256k1,
		p:  hexInt("fffffffffffffffffffffffffffffffffffffffffffffffffffffffefffffc2f"),
		a:  big.NewInt(0),
		b:  big.NewInt(7),
		n:  hexInt("fffffffffffffffffffffffffffffffebaaedce6af48a03bbfd25e8cd0364141"),
		gx: hexInt("79be667ef9dcbbac55a06295ce870b07029bfcdb2dce28d959f2815b16f81798"),
		gy: hexInt("483ada7726a3c4655da4fbfc0e1108a8fd17b448a68554199c47d08ffb10d4b8"),
	},
}

type pt struct{ x, y *big.Int } // nil x = infinity

func (c *wcurve) add(p1, p2 pt) pt {
	if p1.x == nil {
		return p2
	}
	if p2.x == nil {
		return p1
	}
	var l *big.Int
	if p1.x.Cmp(p2.x) == 0 {
		if new(big.Int).Mod(new(big.Int).Add(p1.y, p2.y), c.p).Sign() == 0 {
			return pt{}
		}
		num := new(big.Int).Mul(p1.x, p1.x)
		num.Mul(num, big.NewInt(3)).Add(num, c.a)
		den := new(big.Int).Lsh(p1.y, 1)
		l = num.Mul(num, den.ModInverse(den, c.p))
	} else {
		num := new(big.Int).Sub(p2.y, p1.y)
		den := new(big.Int).Sub(p2.x, p1.x)
		den.Mod(den, c.p)
		l = num.Mul(num, den.ModInverse(den, c.p))
	}
	l.Mod(l, c.p)
	x := new(big.Int).Mul(l, l)
	x.Sub(x, p1.x).Sub(x, p2.x).Mod(x, c.p)
	y := new(big.Int).Sub(p1.x, x)
	y.Mul(y, l).Sub(y, p1.y).Mod(y, c.p)
	return pt{x, y}
}

func (c *wcurve) mul(k *big.Int, p pt) pt {
	r := pt{}
	for i := k.BitLen() - 1; i >= 0; i-- {
		r = c.add(r, r)
		if k.Bit(i) == 1 {
			r = c.add(r, p)
		}
	}
	return r
}

func (c *wcurve) onCurve(x, y *big.Int) bool {
	l := new(big.Int).Mul(y, y)
	r := new(big.Int).Mul(x, x)
	r.Add(r, c.a).Mul(r, x).Add(r, c.b)
	return l.Sub(l, r).Mod(l, c.p).Sign() == 0
}

// b32 is the 32-byte big-endian encoding (of v mod 2^256 when v does not fit).
func b32(v *big.Int) []byte {
	if v.BitLen() > 256 {
		v = new(big.Int).And(v, new(big.Int).Sub(new(big.Int).Lsh(big.NewInt(1), 256), big.NewInt(1)))
	}
	return v.FillBytes(make([]byte, 32))
}

// signFixed builds the ECDSA signature of digest e (already reduced to 32 bytes) under scalar
// d with nonce k: r = (kG).x mod n, s = k^-1 (e + r d) mod n.
func (c *wcurve) signFixed(d, k *big.Int, digest []byte) []byte {
	e := new(big.Int).SetBytes(digest[:32])
	R := c.mul(k, pt{c.gx, c.gy})
	r := new(big.Int).Mod(R.x, c.n)
	s := new(big.Int).Mul(r, d)
	s.Add(s, e).Mul(s, new(big.Int).ModInverse(k, c.n)).Mod(s, c.n)
	return append(b32(r), b32(s)...)
}

// ---------------------------------------------------------------------------------------

func keyLines(st *stream, id string, sk crypto.PrivateKey, err error) {
	st.addS(id+" verdict", errS(err))
	if err != nil {
		return
	}
	pk := sk.PublicKey()
	st.add(id+" sk", sk.Encode())
	st.add(id+" pk", pk.Encode())
	st.add(id+" pkc", pk.EncodeCompressed())
	st.addS(id+" meta", fmt.Sprintf("%s %d %d %s %s %s %v", sk.Algorithm(), sk.Size(), pk.Size(), pk.Algorithm(), sk.String(), pk.String(), sk.Equals(sk) && pk.Equals(pk)))
}

func pubLines(st *stream, id string, pk crypto.PublicKey, err error) {
	st.addS(id+" verdict", errS(err))
	if err != nil {
		return
	}
	st.add(id+" pk", pk.Encode())
	st.add(id+" pkc", pk.EncodeCompressed())
}

// seedSet is the shared structured set of key-generation seeds (also used for BLS).
func seedSet() (ids []string, seeds [][]byte) {
	var lens []int
	for l := 30; l <= 66; l++ {
		lens = append(lens, l)
	}
	for l := 67; l <= 258; l += pick(13, 1) {
		lens = append(lens, l)
	}
	for _, l := range []int{0, 1, 16, 31, 32, 33, 128, 255, 256, 257, 300} {
		lens = appendUniq(lens, l)
	}
	for _, l := range lens {
		for v := 0; v < pick(2, 5); v++ {
			ids = append(ids, fmt.Sprintf("seedlen=%d v%d", l, v))
			seeds = append(seeds, detBytes("keygen-seed", v, l))
		}
		z := make([]byte, l)
		ids = append(ids, fmt.Sprintf("seedlen=%d zero", l))
		seeds = append(seeds, z)
		f := make([]byte, l)
		for i := range f {
			f[i] = 0xff
		}
		ids = append(ids, fmt.Sprintf("seedlen=%d ff", l))
		seeds = append(seeds, f)
	}
	return
}

func ecdsaSections() {
	seedIDs, seeds := seedSet()
	for _, c := range curves {
		// ---- key generation
		st := newStream("ecdsa.keygen."+c.name, 200, 25)
		for i, s := range seeds {
			sk, err := crypto.GeneratePrivateKey(c.algo, s)
			keyLines(st, seedIDs[i], sk, err)
		}
		st.close()

		// ---- private key decoding
		st = newStream("ecdsa.decode."+c.name, 400, 25)
		nm1 := new(big.Int).Sub(c.n, big.NewInt(1))
		valid := new(big.Int).SetBytes(detBytes("ecdsa-sk", 1, 32))
		valid.Mod(valid, nm1).Add(valid, big.NewInt(1))
		type cand struct {
			id string
			b  []byte
		}
		ff := make([]byte, 32)
		for i := range ff {
			ff[i] = 0xff
		}
		skc := []cand{
			{"sk zero", make([]byte, 32)}, {"sk one", b32(big.NewInt(1))}, {"sk two", b32(big.NewInt(2))},
			{"sk n-1", b32(nm1)}, {"sk n", b32(c.n)}, {"sk n+1", b32(new(big.Int).Add(c.n, big.NewInt(1)))},
			{"sk 2^256-1", ff}, {"sk valid", b32(valid)},
			{"sk len0", nil}, {"sk len1", []byte{1}}, {"sk len31", b32(valid)[1:]},
			{"sk len33-lead0", append([]byte{0}, b32(valid)...)}, {"sk len33", append(b32(valid), 7)}, {"sk len64", append(b32(valid), b32(valid)...)},
			{"sk p", b32(c.p)}, {"sk half-n", b32(new(big.Int).Rsh(c.n, 1))},
		}
		for bit := 0; bit < 256; bit += pick(8, 1) {
			b := b32(nm1)
			b[bit/8] ^= 0x80 >> (bit % 8)
			skc = append(skc, cand{fmt.Sprintf("sk n-1 flip-bit%d", bit), b})
		}
		for _, k := range skc {
			k := k
			st.addS(k.id+" in", string(k.b))
			res := guard(func() string {
				sk, err := crypto.DecodePrivateKey(c.algo, k.b)
				keyLines(st, k.id, sk, err)
				return "done"
			})
			if res != "done" {
				st.addS(k.id+" panic", res)
			}
		}

		// ---- public key decoding (raw X||Y and compressed)
		d := valid
		P := c.mul(d, pt{c.gx, c.gy})
		raw := append(b32(P.x), b32(P.y)...)
		negY := new(big.Int).Sub(c.p, P.y)
		// an x with no point on the curve, and an off-curve (x,y)
		xBad := new(big.Int).Set(P.x)
		for {
			xBad.Add(xBad, big.NewInt(1))
			r := new(big.Int).Mul(xBad, xBad)
			r.Add(r, c.a).Mul(r, xBad).Add(r, c.b).Mod(r, c.p)
			if new(big.Int).ModSqrt(r, c.p) == nil {
				break
			}
		}
		pkc := []cand{
			{"pk valid", raw},
			{"pk valid-negY", append(b32(P.x), b32(negY)...)},
			{"pk generator", append(b32(c.gx), b32(c.gy)...)},
			{"pk zero", make([]byte, 64)},
			{"pk x=0", append(make([]byte, 32), b32(P.y)...)},
			{"pk y=0", append(b32(P.x), make([]byte, 32)...)},
			{"pk x=p", append(b32(c.p), b32(P.y)...)},
			{"pk y=p", append(b32(P.x), b32(c.p)...)},
			{"pk x+p", append(b32(new(big.Int).Add(P.x, c.p)), b32(P.y)...)},
			{"pk y+1", append(b32(P.x), b32(new(big.Int).Add(P.y, big.NewInt(1)))...)},
			{"pk x-nonresidue", append(b32(xBad), b32(P.y)...)},
			{"pk swapped", append(b32(P.y), b32(P.x)...)},
			{"pk ff", append(append([]byte{}, ff...), ff...)},
			{"pk len0", nil}, {"pk len63", raw[:63]}, {"pk len65-04prefix", append([]byte{4}, raw...)}, {"pk len65", append(append([]byte{}, raw...), 0)}, {"pk len33", raw[:33]},
		}
		for bit := 0; bit < 512; bit += pick(8, 1) {
			b := append([]byte{}, raw...)
			b[bit/8] ^= 0x80 >> (bit % 8)
			pkc = append(pkc, cand{fmt.Sprintf("pk flip-bit%d", bit), b})
		}
		for _, k := range pkc {
			st.addS(k.id+" in", string(k.b))
			pk, err := crypto.DecodePublicKey(c.algo, k.b)
			pubLines(st, k.id, pk, err)
		}
		pre := byte(2 + P.y.Bit(0))
		comp := append([]byte{pre}, b32(P.x)...)
		cc := []cand{
			{"pkc valid", comp},
			{"pkc other-sign", append([]byte{pre ^ 1}, b32(P.x)...)},
			{"pkc prefix00", append([]byte{0}, b32(P.x)...)},
			{"pkc prefix01", append([]byte{1}, b32(P.x)...)},
			{"pkc prefix04", append([]byte{4}, b32(P.x)...)},
			{"pkc prefix05", append([]byte{5}, b32(P.x)...)},
			{"pkc prefix06", append([]byte{6}, b32(P.x)...)},
			{"pkc prefixff", append([]byte{0xff}, b32(P.x)...)},
			{"pkc x=0", append([]byte{2}, make([]byte, 32)...)},
			{"pkc x=p", append([]byte{2}, b32(c.p)...)},
			{"pkc x=p-1", append([]byte{3}, b32(new(big.Int).Sub(c.p, big.NewInt(1)))...)},
			{"pkc x=ff", append([]byte{2}, ff...)},
			{"pkc x-nonresidue", append([]byte{2}, b32(xBad)...)},
			{"pkc generator", append([]byte{byte(2 + c.gy.Bit(0))}, b32(c.gx)...)},
			{"pkc len0", nil}, {"pkc len32", comp[:32]}, {"pkc len34", append(append([]byte{}, comp...), 0)}, {"pkc raw64", raw}, {"pkc uncompressed65", append([]byte{4}, raw...)},
		}
		for bit := 0; bit < 264; bit += pick(8, 1) {
			b := append([]byte{}, comp...)
			b[bit/8] ^= 0x80 >> (bit % 8)
			cc = append(cc, cand{fmt.Sprintf("pkc flip-bit%d", bit), b})
		}
		for _, k := range cc {
			st.addS(k.id+" in", string(k.b))
			pk, err := crypto.DecodePublicKeyCompressed(c.algo, k.b)
			pubLines(st, k.id, pk, err)
		}
		st.close()

		// ---- verification verdicts
		ecdsaVerify(c)
	}
}

func ecdsaVerify(c *wcurve) {
	st := newStream("ecdsa.verify."+c.name, 300, 25)
	type hs struct {
		name string
		mk   func() hash.Hasher
	}
	kmac32 := func() hash.Hasher { h, _ := hash.NewKMAC_128([]byte("c20-ecdsa-kmac-key"), nil, 32); return h }
	kmac31 := func() hash.Hasher { h, _ := hash.NewKMAC_128([]byte("c20-ecdsa-kmac-key"), nil, 31); return h }
	hashers := []hs{{"sha2_256", hash.NewSHA2_256}, {"sha3_256", hash.NewSHA3_256}, {"keccak_256", hash.NewKeccak_256},
		{"sha2_384", hash.NewSHA2_384}, {"sha3_384", hash.NewSHA3_384}, {"kmac128/32", kmac32}}
	msgs := [][]byte{nil, []byte("a"), detBytes("ecdsa-msg", 0, 135), detBytes("ecdsa-msg", 1, 1000)}
	nKeys := pick(3, 6)
	type key struct {
		d  *big.Int
		sk crypto.PrivateKey
		pk crypto.PublicKey
	}
	var keys []key
	for i := 0; i < nKeys; i++ {
		sk, err := crypto.GeneratePrivateKey(c.algo, detBytes("ecdsa-verify-key", i, 48))
		if err != nil {
			st.addS(fmt.Sprintf("key#%d", i), errS(err))
			continue
		}
		keys = append(keys, key{new(big.Int).SetBytes(sk.Encode()), sk, sk.PublicKey()})
	}
	one := big.NewInt(1)
	for ki, k := range keys {
		for hi, h := range hashers {
			for mi, m := range msgs {
				id := fmt.Sprintf("key#%d %s msg#%d", ki, h.name, mi)
				digest := h.mk().ComputeHash(m)
				nonce := new(big.Int).SetBytes(detBytes("ecdsa-nonce", ki*100+hi*10+mi, 32))
				nonce.Mod(nonce, new(big.Int).Sub(c.n, one)).Add(nonce, one)
				sig := c.signFixed(k.d, nonce, digest)
				r := new(big.Int).SetBytes(sig[:32])
				s := new(big.Int).SetBytes(sig[32:])
				st.add(id+" fixed-sig", sig)
				type cand struct {
					id  string
					sig []byte
				}
				cands := []cand{
					{"valid", sig},
					{"s->n-s", append(b32(r), b32(new(big.Int).Sub(c.n, s))...)},
					{"r+1", append(b32(new(big.Int).Add(r, one)), b32(s)...)},
					{"s+1", append(b32(r), b32(new(big.Int).Add(s, one))...)},
					{"r=0", append(make([]byte, 32), b32(s)...)},
					{"s=0", append(b32(r), make([]byte, 32)...)},
					{"r=n", append(b32(c.n), b32(s)...)},
					{"s=n", append(b32(r), b32(c.n)...)},
					{"swapped", append(b32(s), b32(r)...)},
					{"len63", sig[:63]}, {"len65", append(append([]byte{}, sig...), 0)}, {"len0", nil},
					{"len66-lead0", append(append([]byte{0}, sig[:32]...), append([]byte{0}, sig[32:]...)...)},
				}
				if rn := new(big.Int).Add(r, c.n); rn.BitLen() <= 256 {
					cands = append(cands, cand{"r+n", append(b32(rn), b32(s)...)})
				}
				if sn := new(big.Int).Add(s, c.n); sn.BitLen() <= 256 {
					cands = append(cands, cand{"s+n", append(b32(r), b32(sn)...)})
				}
				if mi == 2 || thorough {
					for by := 0; by < 64; by++ {
						b := append([]byte{}, sig...)
						b[by] ^= 1 << (by % 8)
						cands = append(cands, cand{fmt.Sprintf("flip-byte%d", by), b})
					}
				}
				verd := ""
				for _, cd := range cands {
					ok, err := k.pk.Verify(cd.sig, m, h.mk())
					fc, ferr := crypto.SignatureFormatCheck(c.algo, cd.sig)
					verd += fmt.Sprintf("%s:%v/%s/fmt=%v/%s;", cd.id, ok, errS(err), fc, errS(ferr))
				}
				st.addS(id+" verdicts", verd)
				// same signature under another message / key / hasher
				other := keys[(ki+1)%len(keys)]
				ok1, e1 := k.pk.Verify(sig, msgs[(mi+1)%len(msgs)], h.mk())
				ok2, e2 := other.pk.Verify(sig, m, h.mk())
				ok3, e3 := k.pk.Verify(sig, m, hashers[(hi+1)%len(hashers)].mk())
				st.addS(id+" cross", fmt.Sprintf("othermsg:%v/%s otherkey:%v/%s otherhasher:%v/%s", ok1, errS(e1), ok2, errS(e2), ok3, errS(e3)))
				// library Sign is randomised: only the verdict of verifying its output is recorded
				if mi < 2 || thorough {
					ls, err := k.sk.Sign(m, h.mk())
					v := "sign:" + errS(err)
					if err == nil {
						ok, verr := k.pk.Verify(ls, m, h.mk())
						fc, _ := crypto.SignatureFormatCheck(c.algo, ls)
						ok2, _ := other.pk.Verify(ls, m, h.mk())
						v += fmt.Sprintf(" len=%d verify:%v/%s fmt=%v otherkey:%v", len(ls), ok, errS(verr), fc, ok2)
					}
					st.addS(id+" lib-sign-then-verify", v)
				}
			}
		}
		// hasher verdicts
		ok, err := k.pk.Verify(make([]byte, 64), msgs[1], nil)
		st.addS(fmt.Sprintf("key#%d nil-hasher", ki), fmt.Sprintf("%v/%s", ok, errS(err)))
		ok, err = k.pk.Verify(make([]byte, 64), msgs[1], kmac31())
		st.addS(fmt.Sprintf("key#%d short-hasher", ki), fmt.Sprintf("%v/%s", ok, errS(err)))
		_, err = k.sk.Sign(msgs[1], nil)
		st.addS(fmt.Sprintf("key#%d sign-nil-hasher", ki), errS(err))
		_, err = k.sk.Sign(msgs[1], kmac31())
		st.addS(fmt.Sprintf("key#%d sign-short-hasher", ki), errS(err))
	}
	// decoded keys verify like generated ones
	if len(keys) > 0 {
		k := keys[0]
		pk2, err := crypto.DecodePublicKey(c.algo, k.pk.Encode())
		pk3, err3 := crypto.DecodePublicKeyCompressed(c.algo, k.pk.EncodeCompressed())
		sk2, err2 := crypto.DecodePrivateKey(c.algo, k.sk.Encode())
		if err == nil && err2 == nil && err3 == nil {
			digest := hash.NewSHA2_256().ComputeHash(msgs[2])
			sig := c.signFixed(k.d, big.NewInt(0x1234567), digest)
			a, _ := pk2.Verify(sig, msgs[2], hash.NewSHA2_256())
			b, _ := pk3.Verify(sig, msgs[2], hash.NewSHA2_256())
			d, _ := sk2.PublicKey().Verify(sig, msgs[2], hash.NewSHA2_256())
			st.addS("decoded-keys", fmt.Sprintf("%v %v %v eq=%v,%v,%v", a, b, d, pk2.Equals(k.pk), pk3.Equals(pk2), sk2.Equals(k.sk)))
		} else {
			st.addS("decoded-keys", errS(err)+errS(err2)+errS(err3))
		}
	}
	st.close()
}
