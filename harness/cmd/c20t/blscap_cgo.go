//go:build cgo && !no_cgo

package main

// Run-time evidence for C20 about which BLST code path this binary executes: BLST's mulq_*
// (portable) entry points dispatch to the ADX (mulx) code iff bit 0 of __blst_platform_cap is
// set. The variable is a zero-initialised common symbol of the library's assembly; it is
// only ever written by blst_src/cpuid.c, which the library does not compile.

// extern int __blst_platform_cap;
// static int c20_platform_cap(void) { return __blst_platform_cap; }
import "C"

import (
	"fmt"
	"os"
)

// buildInfo goes to stderr (it is configuration-specific and not part of the transcript).
func buildInfo() {
	fmt.Fprintf(os.Stderr, "c20t-info blst_platform_cap=%d\n", int(C.c20_platform_cap()))
}
