// c20t: the deterministic TRANSCRIPT program of property C20.
//
// It prints text lines `section<TAB>label<TAB>hex` with the outputs of a broad, fixed set of
// deterministic operations of github.com/onflow/crypto. The same source is compiled in the four
// build configurations of C20 (default/ADX, portable BLST, purego, no_cgo) and the transcripts
// are compared by cmd/c20. Everything printed is a pure function of constants in this file:
// no clock, no crypto/rand output, no map iteration order. Sections whose name starts with
// "bls." come from bls_cgo.go and only exist in builds where BLS is available.
//
// usage: c20t [quick|thorough]          (transcript on stdout)
package main

import (
	"bufio"
	"crypto/sha256"
	"encoding/binary"
	"encoding/hex"
	"fmt"
	"hash"
	"os"
	"sort"
	"strconv"
	"strings"
)

var (
	out      *bufio.Writer
	thorough bool
	nLines   int
	secCount = map[string]int{}
)

// emit prints one transcript line.
func emit(section, label string, v []byte) {
	if strings.ContainsAny(section, "\t\n") || strings.ContainsAny(label, "\t\n") {
		panic("bad label " + label)
	}
	fmt.Fprintf(out, "%s\t%s\t%s\n", section, label, hex.EncodeToString(v))
	nLines++
	secCount[section]++
}

// emitS prints a textual verdict (hex of the text, so the line format stays uniform).
func emitS(section, label, s string) { emit(section, label, []byte(s)) }

// errS renders an error deterministically.
func errS(err error) string {
	if err == nil {
		return "nil"
	}
	return "err:" + err.Error()
}

// guard runs f and renders a Go panic as a verdict (some API misuse panics by design).
func guard(f func() string) (res string) {
	defer func() {
		if r := recover(); r != nil {
			res = fmt.Sprintf("PANIC:%v", r)
		}
	}()
	return f()
}

// stream collects many cases of one section: the first `verbatim` cases are printed as is,
// the rest as one SHA-256 digest per `group` consecutive cases, plus a digest over all cases.
type stream struct {
	section  string
	verbatim int
	group    int
	n        int
	all      hash.Hash
	grp      hash.Hash
	grpFirst int
	grpLabel string
}

func newStream(section string, verbatim, group int) *stream {
	return &stream{section: section, verbatim: verbatim, group: group, all: sha256.New(), grp: sha256.New()}
}

func (s *stream) add(label string, v []byte) {
	var l [8]byte
	binary.BigEndian.PutUint64(l[:], uint64(len(label)))
	s.all.Write(l[:])
	s.all.Write([]byte(label))
	binary.BigEndian.PutUint64(l[:], uint64(len(v)))
	s.all.Write(l[:])
	s.all.Write(v)
	if s.n < s.verbatim {
		emit(s.section, label, v)
	} else {
		if (s.n-s.verbatim)%s.group == 0 {
			s.flush()
			s.grpFirst = s.n
			s.grpLabel = label
		}
		binary.BigEndian.PutUint64(l[:], uint64(len(label)))
		s.grp.Write(l[:])
		s.grp.Write([]byte(label))
		binary.BigEndian.PutUint64(l[:], uint64(len(v)))
		s.grp.Write(l[:])
		s.grp.Write(v)
	}
	s.n++
}
func (s *stream) addS(label, v string) { s.add(label, []byte(v)) }

func (s *stream) flush() {
	if s.n > s.verbatim && s.n > s.grpFirst && s.grpLabel != "" {
		emit(s.section, fmt.Sprintf("digest cases[%d..%d) from{%s}", s.grpFirst, s.n, s.grpLabel), s.grp.Sum(nil))
		s.grp.Reset()
		s.grpLabel = ""
	}
}

func (s *stream) close() {
	s.flush()
	emit(s.section, fmt.Sprintf("digest-all cases=%d", s.n), s.all.Sum(nil))
}

// ---------------------------------------------------------------------------------------
// deterministic input bytes: splitmix64 (self-contained, independent of any build tag)

type gen struct{ x uint64 }

// seedMix is 0 unless VERIF_SEED is set: the seed only changes WHICH bytes instantiate the
// fixed set of cases (messages, keys, seeds), never which cases exist.
var seedMix uint64

func newGen(tag string, k int) *gen {
	g := &gen{x: 0x9e3779b97f4a7c15 ^ uint64(k)*0xbf58476d1ce4e5b9 ^ seedMix}
	for _, c := range []byte(tag) {
		g.x = (g.x ^ uint64(c)) * 0x100000001b3
		g.next()
	}
	return g
}
func (g *gen) next() uint64 {
	g.x += 0x9e3779b97f4a7c15
	z := g.x
	z = (z ^ (z >> 30)) * 0xbf58476d1ce4e5b9
	z = (z ^ (z >> 27)) * 0x94d049bb133111eb
	return z ^ (z >> 31)
}
func (g *gen) bytes(n int) []byte {
	b := make([]byte, n)
	for i := 0; i < n; i += 8 {
		v := g.next()
		for j := 0; j < 8 && i+j < n; j++ {
			b[i+j] = byte(v >> (8 * j))
		}
	}
	return b
}
func (g *gen) intn(n int) int { return int(g.next() % uint64(n)) }

func detBytes(tag string, k, n int) []byte { return newGen(tag, k).bytes(n) }

func pick[T any](quick, th T) T {
	if thorough {
		return th
	}
	return quick
}

func main() {
	for _, a := range os.Args[1:] {
		switch a {
		case "thorough":
			thorough = true
		case "quick":
		default:
			fmt.Fprintln(os.Stderr, "usage: c20t [quick|thorough]")
			os.Exit(2)
		}
	}
	if v, err := strconv.ParseInt(os.Getenv("VERIF_SEED"), 10, 64); err == nil && v != 0 {
		seedMix = uint64(v) * 0xd6e8feb86659fd93
	}
	out = bufio.NewWriterSize(os.Stdout, 1<<20)
	emitS("meta", "tier", pick("quick", "thorough"))
	// flushed per group so that a crash in one configuration still leaves the lines before it
	hashSections()
	out.Flush()
	kmacSection()
	out.Flush()
	prgSection()
	out.Flush()
	ecdsaSections()
	out.Flush()
	blsSections() // nothing in builds without BLS
	// per-section line counts (sorted) close the transcript
	var names []string
	for s := range secCount {
		names = append(names, s)
	}
	sort.Strings(names)
	for _, s := range names {
		switch {
		case s == "meta" || s == "bls.meta":
		case strings.HasPrefix(s, "bls."):
			emitS("bls.meta", "lines "+s, fmt.Sprint(secCount[s]))
		default:
			emitS("meta", "lines "+s, fmt.Sprint(secCount[s]))
		}
	}
	buildInfo()
	if err := out.Flush(); err != nil {
		fmt.Fprintln(os.Stderr, err)
		os.Exit(2)
	}
}
