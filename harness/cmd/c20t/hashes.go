package main

import (
	"fmt"

	"github.com/onflow/crypto/hash"
	"github.com/onflow/crypto/random"
)

type hashAlg struct {
	name string
	mk   func() hash.Hasher
	rate int // sponge rate / block size, used to place the split points
}

var hashAlgs = []hashAlg{
	{"sha2_256", hash.NewSHA2_256, 64},
	{"sha2_384", hash.NewSHA2_384, 128},
	{"sha3_256", hash.NewSHA3_256, 136},
	{"sha3_384", hash.NewSHA3_384, 104},
	{"keccak_256", hash.NewKeccak_256, 136},
}

// hashSections: every message length 0..maxLen through ComputeHash (fresh and reused
// hasher), through Write splits, from misaligned input slices, byte-wise writes, and
// state reuse (Write after SumHash, Reset).
func hashSections() {
	maxLen := pick(600, 2200)
	big := detBytes("hash-msg", 0, maxLen+16)
	for _, a := range hashAlgs {
		sec := "hash." + a.name
		st := newStream(sec, 200, 25)
		reused := a.mk()
		emitS(sec, "algorithm/size", fmt.Sprintf("%s/%d", reused.Algorithm(), reused.Size()))
		for l := 0; l <= maxLen; l++ {
			m := big[:l]
			h1 := a.mk().ComputeHash(m)
			h2 := reused.ComputeHash(m) // reused object: ComputeHash must not depend on history
			if string(h1) != string(h2) {
				st.add(fmt.Sprintf("len=%d reused-differs", l), h2)
			}
			st.add(fmt.Sprintf("len=%d", l), h1)
		}
		st.close()

		// Write splits around the block boundaries, and input slices at every misalignment 1..7
		sp := newStream(sec+".split", 200, 25)
		r := a.rate
		lens := []int{1, 7, 8, 9, r - 1, r, r + 1, 2*r - 1, 2 * r, 2*r + 1, 3*r + 5, 600}
		if thorough {
			for l := 0; l <= 3*r+9; l++ {
				lens = append(lens, l)
			}
			lens = append(lens, 1000, 2199)
		}
		for _, l := range uniq(lens) {
			cuts := uniq([]int{0, 1, 7, 8, r - 1, r, r + 1, l / 2, l - 1, l})
			for _, c := range cuts {
				if c < 0 || c > l {
					continue
				}
				for _, off := range []int{0, 1, 3, 7} {
					m := big[off : off+l]
					h := a.mk()
					_, _ = h.Write(m[:c])
					_, _ = h.Write(m[c:])
					sp.add(fmt.Sprintf("len=%d cut=%d off=%d", l, c, off), h.SumHash())
				}
			}
			// three-way split and byte-wise feeding
			h := a.mk()
			for i := 0; i < l; i++ {
				_, _ = h.Write(big[5+i : 5+i+1])
			}
			sp.add(fmt.Sprintf("len=%d bytewise off=5", l), h.SumHash())
			h = a.mk()
			_, _ = h.Write(big[2 : 2+l/3])
			_, _ = h.Write(nil)
			_, _ = h.Write(big[2+l/3 : 2+2*l/3])
			_, _ = h.Write(big[2+2*l/3 : 2+l])
			sp.add(fmt.Sprintf("len=%d 3way off=2", l), h.SumHash())
		}
		// state reuse: SumHash twice, Write after SumHash, Reset, ComputeHash in the middle of writes
		for _, l := range []int{0, 5, r - 1, r, r + 3, 300} {
			h := a.mk()
			_, _ = h.Write(big[:l])
			s1 := h.SumHash()
			s2 := guard(func() string { return string(h.SumHash()) })
			sp.add(fmt.Sprintf("reuse len=%d sum1", l), s1)
			sp.addS(fmt.Sprintf("reuse len=%d sum2", l), s2)
			sp.addS(fmt.Sprintf("reuse len=%d write-after-sum", l), guard(func() string {
				_, _ = h.Write(big[l : l+9])
				return string(h.SumHash())
			}))
			h.Reset()
			_, _ = h.Write(big[1 : 1+l])
			sp.add(fmt.Sprintf("reuse len=%d after-reset", l), h.SumHash())
			h.Reset()
			_, _ = h.Write(big[:l])
			c := h.ComputeHash(big[:7])
			sp.add(fmt.Sprintf("reuse len=%d computehash-mid", l), c)
			sp.addS(fmt.Sprintf("reuse len=%d sum-after-computehash", l), guard(func() string { return string(h.SumHash()) }))
		}
		sp.close()
	}
	// the two allocation-free one-shot functions
	st := newStream("hash.oneshot", 100, 25)
	for l := 0; l <= maxLen; l += pick(3, 1) {
		var r2 [hash.HashLenSHA2_256]byte
		var r3 [hash.HashLenSHA3_256]byte
		hash.ComputeSHA2_256(&r2, big[3:3+l])
		hash.ComputeSHA3_256(&r3, big[3:3+l])
		st.add(fmt.Sprintf("sha2_256 len=%d off=3", l), r2[:])
		st.add(fmt.Sprintf("sha3_256 len=%d off=3", l), r3[:])
	}
	st.close()
}

// kmacSection: KMAC128 over key lengths x customizers x output sizes x message lengths,
// plus Write splits, Reset/reuse and constructor verdicts for invalid parameters.
func kmacSection() {
	st := newStream("kmac", 200, 50)
	var keyLens []int
	for l := 16; l <= 400; l += pick(7, 1) {
		keyLens = append(keyLens, l)
	}
	// key lengths that put bytepad(encode_string(key)) on / next to a 168-byte block boundary
	for _, l := range []int{17, 160, 161, 162, 163, 164, 165, 166, 167, 168, 169, 255, 256, 257, 329, 330, 331, 332, 333, 400} {
		keyLens = appendUniq(keyLens, l)
	}
	custLens := pick([]int{0, 1, 8, 40, 200}, []int{0, 1, 7, 8, 9, 40, 130, 131, 132, 133, 134, 135, 200, 300})
	outLens := pick([]int{0, 1, 32, 33, 128, 167, 168, 169, 500}, []int{0, 1, 2, 31, 32, 33, 64, 128, 167, 168, 169, 335, 336, 337, 500, 1000})
	msgLens := pick([]int{0, 1, 167, 168, 169, 400}, []int{0, 1, 2, 8, 100, 166, 167, 168, 169, 170, 335, 336, 337, 400, 1000})
	keyBuf := detBytes("kmac-key", 0, 512)
	custBuf := detBytes("kmac-cust", 0, 512)
	msgBuf := detBytes("kmac-msg", 0, 1100)
	for _, kl := range keyLens {
		for _, cl := range custLens {
			for _, ol := range outLens {
				k, err := hash.NewKMAC_128(keyBuf[1:1+kl], custBuf[:cl], ol)
				if err != nil {
					st.addS(fmt.Sprintf("key=%d cust=%d out=%d ctor", kl, cl, ol), errS(err))
					continue
				}
				for _, ml := range msgLens {
					st.add(fmt.Sprintf("key=%d cust=%d out=%d msg=%d", kl, cl, ol, ml), k.ComputeHash(msgBuf[:ml]))
				}
			}
		}
	}
	st.close()

	sp := newStream("kmac.split", 200, 50)
	for _, kl := range []int{16, 163, 164, 200} {
		for _, ol := range []int{32, 128, 200} {
			k, _ := hash.NewKMAC_128(keyBuf[:kl], custBuf[:5], ol)
			sp.addS(fmt.Sprintf("key=%d out=%d algorithm/size", kl, ol), fmt.Sprintf("%s/%d", k.Algorithm(), k.Size()))
			for _, ml := range []int{0, 1, 167, 168, 169, 337, 700} {
				for _, c := range uniq([]int{0, 1, 8, 167, 168, 169, ml / 2, ml}) {
					if c > ml {
						continue
					}
					for _, off := range []int{0, 1, 5} {
						m := msgBuf[off : off+ml]
						k.Reset()
						_, _ = k.Write(m[:c])
						_, _ = k.Write(m[c:])
						s1 := k.SumHash()
						sp.add(fmt.Sprintf("key=%d out=%d msg=%d cut=%d off=%d", kl, ol, ml, c, off), s1)
					}
				}
				// SumHash must leave the object usable: sum twice, keep writing, ComputeHash, Reset
				k.Reset()
				_, _ = k.Write(msgBuf[:ml])
				a := k.SumHash()
				b := k.SumHash()
				_, _ = k.Write(msgBuf[ml : ml+3])
				c := k.SumHash()
				d := k.ComputeHash(msgBuf[:ml])
				e := k.SumHash()
				k.Reset()
				f := k.SumHash()
				for i, v := range [][]byte{a, b, c, d, e, f} {
					sp.add(fmt.Sprintf("key=%d out=%d msg=%d reuse#%d", kl, ol, ml, i), v)
				}
			}
		}
	}
	// constructor verdicts
	for _, kl := range []int{0, 1, 15, 16} {
		for _, ol := range []int{-1, 0, 1} {
			_, err := hash.NewKMAC_128(keyBuf[:kl], nil, ol)
			sp.addS(fmt.Sprintf("ctor key=%d out=%d", kl, ol), errS(err))
		}
	}
	sp.close()
}

// uniq drops repeated values, keeping first occurrences.
func uniq(s []int) []int {
	var out []int
	for _, v := range s {
		out = appendUniq(out, v)
	}
	return out
}

func appendUniq(s []int, v int) []int {
	for _, x := range s {
		if x == v {
			return s
		}
	}
	return append(s, v)
}

// prgSection: ChaCha20 PRG streams, UintN, permutations/samples and Store/Restore.
func prgSection() {
	st := newStream("prg", 200, 25)
	nSeeds := pick(4, 12)
	for si := 0; si < nSeeds; si++ {
		seed := detBytes("prg-seed", si, 32)
		if si == 0 {
			seed = make([]byte, 32)
		}
		for _, cl := range []int{0, 1, 11, 12} {
			cust := detBytes("prg-cust", si, cl)
			id := fmt.Sprintf("seed#%d cust=%d", si, cl)
			p, err := random.NewChacha20PRG(seed, cust)
			if err != nil {
				st.addS(id+" ctor", errS(err))
				continue
			}
			for _, n := range []int{0, 1, 63, 64, 65, 200, 1000} {
				b := make([]byte, n)
				p.Read(b)
				st.add(fmt.Sprintf("%s read=%d", id, n), b)
			}
			for _, n := range []uint64{1, 2, 3, 255, 256, 257, 1000, 1 << 31, 1<<32 + 1, 1<<63 + 5, ^uint64(0)} {
				var s string
				for i := 0; i < 12; i++ {
					s += fmt.Sprintf("%d,", p.UintN(n))
				}
				st.addS(fmt.Sprintf("%s uintn=%d x12", id, n), s)
			}
			for _, n := range []int{0, 1, 2, 10, 100} {
				perm, err := p.Permutation(n)
				st.addS(fmt.Sprintf("%s perm=%d", id, n), fmt.Sprint(perm, errS(err)))
				sub, err := p.SubPermutation(n+3, n)
				st.addS(fmt.Sprintf("%s subperm=%d/%d", id, n, n+3), fmt.Sprint(sub, errS(err)))
			}
			arr := make([]int, 40)
			for i := range arr {
				arr[i] = i
			}
			err = p.Shuffle(len(arr), func(i, j int) { arr[i], arr[j] = arr[j], arr[i] })
			st.addS(id+" shuffle=40", fmt.Sprint(arr, errS(err)))
			err = p.Samples(len(arr), 7, func(i, j int) { arr[i], arr[j] = arr[j], arr[i] })
			st.addS(id+" samples=7/40", fmt.Sprint(arr, errS(err)))
			_, err = p.Permutation(-1)
			st.addS(id+" perm=-1", errS(err))
			_, err = p.SubPermutation(3, 4)
			st.addS(id+" subperm=4/3", errS(err))
			state := p.Store()
			st.add(id+" store", state)
			q, err := random.RestoreChacha20PRG(state)
			if err != nil {
				st.addS(id+" restore", errS(err))
				continue
			}
			b1, b2 := make([]byte, 150), make([]byte, 150)
			p.Read(b1)
			q.Read(b2)
			st.add(id+" cont-orig", b1)
			st.add(id+" cont-restored", b2)
		}
	}
	// Store/Restore at every byte offset of the first blocks
	seed := detBytes("prg-seed", 99, 32)
	for o := 0; o <= pick(200, 700); o++ {
		p, _ := random.NewChacha20PRG(seed, []byte("c20"))
		p.Read(make([]byte, o))
		s := p.Store()
		q, err := random.RestoreChacha20PRG(s)
		if err != nil {
			st.addS(fmt.Sprintf("offset=%d restore", o), errS(err))
			continue
		}
		b := make([]byte, 70)
		q.Read(b)
		st.add(fmt.Sprintf("offset=%d store", o), s)
		st.add(fmt.Sprintf("offset=%d next70", o), b)
		st.addS(fmt.Sprintf("offset=%d uintn", o), fmt.Sprint(q.UintN(1000003), p.UintN(1000003)))
	}
	// constructor / restore verdicts
	for _, l := range []int{0, 16, 31, 32, 33, 64} {
		_, err := random.NewChacha20PRG(make([]byte, l), nil)
		st.addS(fmt.Sprintf("ctor seedlen=%d", l), errS(err))
	}
	for _, l := range []int{0, 12, 13, 32} {
		_, err := random.NewChacha20PRG(make([]byte, 32), make([]byte, l))
		st.addS(fmt.Sprintf("ctor custlen=%d", l), errS(err))
	}
	for _, l := range []int{0, 51, 52, 53} {
		_, err := random.RestoreChacha20PRG(make([]byte, l))
		st.addS(fmt.Sprintf("restore len=%d", l), errS(err))
	}
	st.close()
}
