// C20: results do not depend on the build configuration.
//
// bin/check_c20 builds the transcript program cmd/c20t in the four configurations
//
//	default   (cgo, -D__ADX__ from the #cgo line, amd64 Keccak assembly)
//	portable  CGO_CFLAGS="-O2 -D__BLST_PORTABLE__"   (README: for CPUs without ADX)
//	purego    -tags purego                           (pure-Go keccakF1600, generic xorIn/copyOut)
//	nocgo     CGO_ENABLED=0 -tags no_cgo             (no BLS)
//
// runs each binary and calls this comparer, which decides the property: the transcripts of
// default, portable and purego must be identical line by line; nocgo must equal default on
// every non-BLS section and contain no BLS section. It also verifies from the binaries that
// the configurations really select different code.
//
// Inputs (set by bin/check_c20): C20_DIR = directory holding <cfg>.txt (transcript),
// <cfg>.err (stderr), <cfg>.nm (go tool nm), <cfg>.files (go list of the compiled files),
// build.tsv (cfg, env, tags, binary, sha256, exit code of the transcript run).
package main

import (
	"bufio"
	"crypto/sha256"
	"encoding/hex"
	"encoding/json"
	"fmt"
	"os"
	"path/filepath"
	"sort"
	"strings"
	"time"

	"verif/harness/ev"
)

type line struct {
	section, label, hexv string
}

type transcript struct {
	cfg      string
	lines    []line
	byKey    map[string]int // section \t label -> index in lines
	sections map[string]int
	sha      string
}

type buildRec struct {
	Cfg    string `json:"config"`
	Env    string `json:"env"`
	Tags   string `json:"tags"`
	Binary string `json:"binary"`
	SHA256 string `json:"binary_sha256"`
	Exit   string `json:"transcript_exit_code"`
}

var run *ev.Run

func load(dir, cfg string) *transcript {
	p := filepath.Join(dir, cfg+".txt")
	f, err := os.Open(p)
	if err != nil {
		run.Fatal("cannot read transcript %s: %v", p, err)
	}
	defer f.Close()
	t := &transcript{cfg: cfg, byKey: map[string]int{}, sections: map[string]int{}}
	h := sha256.New()
	sc := bufio.NewScanner(f)
	sc.Buffer(make([]byte, 1<<24), 1<<24)
	for sc.Scan() {
		s := sc.Text()
		h.Write([]byte(s + "\n"))
		parts := strings.Split(s, "\t")
		if len(parts) != 3 {
			run.Fatal("malformed transcript line %d of %s: %q", len(t.lines)+1, p, trunc(s, 120))
		}
		if _, err := hex.DecodeString(parts[2]); err != nil {
			run.Fatal("malformed hex in transcript line %d of %s", len(t.lines)+1, p)
		}
		k := parts[0] + "\t" + parts[1]
		if _, dup := t.byKey[k]; dup {
			run.Fatal("transcript %s has a duplicate label %q in section %s (labels must be unique)", p, parts[1], parts[0])
		}
		t.byKey[k] = len(t.lines)
		t.lines = append(t.lines, line{parts[0], parts[1], parts[2]})
		t.sections[parts[0]]++
	}
	if err := sc.Err(); err != nil {
		run.Fatal("reading %s: %v", p, err)
	}
	t.sha = hex.EncodeToString(h.Sum(nil))
	return t
}

func trunc(s string, n int) string {
	if len(s) > n {
		return s[:n] + "..."
	}
	return s
}

func isBLS(section string) bool { return strings.HasPrefix(section, "bls.") }
func isMeta(section string) bool { return section == "meta" || section == "bls.meta" }

// printable renders a hex value as text when it is printable ASCII (verdict lines).
func printable(hx string) string {
	b, _ := hex.DecodeString(hx)
	for _, c := range b {
		if c < 32 || c > 126 {
			return ""
		}
	}
	return string(b)
}

type replay struct {
	Tier       string `json:"tier"`
	Seed       int64  `json:"seed"`
	Config     string `json:"config"`
	ConfigHow  string `json:"config_build"`
	Section    string `json:"section"`
	Label      string `json:"label"`
	DefaultHex string `json:"default_hex"`
	ConfigHex  string `json:"config_hex"`
	DefaultTxt string `json:"default_text,omitempty"`
	ConfigTxt  string `json:"config_text,omitempty"`
	Kind       string `json:"kind"` // differs | missing-in-config | extra-in-config | bls-section-in-nocgo | crash
	HowTo      string `json:"how_to_rerun"`
}

func readLines(p string) []string {
	b, err := os.ReadFile(p)
	if err != nil {
		return nil
	}
	var out []string
	for _, l := range strings.Split(string(b), "\n") {
		if strings.TrimSpace(l) != "" {
			out = append(out, l)
		}
	}
	return out
}

// symbols returns the set of symbol names of a `go tool nm` listing.
func symbols(p string) map[string]bool {
	m := map[string]bool{}
	for _, l := range readLines(p) {
		f := strings.Fields(l)
		if len(f) >= 3 {
			m[f[len(f)-1]] = true
		} else if len(f) == 2 { // undefined symbols have no address
			m[f[1]] = true
		}
	}
	return m
}

func main() {
	run = ev.Start("C20", "exploration")
	dir := os.Getenv("C20_DIR")
	if dir == "" {
		run.Fatal("C20_DIR not set: this binary is run by /verif/bin/check_c20 (use `bin/check C20 <tier>`)")
	}
	repo := os.Getenv("VERIF_REPO_DIR")
	cfgs := []string{"default", "portable", "purego", "nocgo"}

	// ---- build records
	builds := map[string]*buildRec{}
	for _, l := range readLines(filepath.Join(dir, "build.tsv")) {
		f := strings.Split(l, "\t")
		if len(f) != 6 {
			run.Fatal("malformed build.tsv line %q", l)
		}
		builds[f[0]] = &buildRec{f[0], f[1], f[2], f[3], f[4], f[5]}
	}
	var buildList []*buildRec
	for _, c := range cfgs {
		if builds[c] == nil {
			run.Fatal("build.tsv has no record for configuration %s", c)
		}
		buildList = append(buildList, builds[c])
	}
	run.Set("configurations", buildList)

	// replay mode: only the recorded (config, section, label) is re-judged
	var only *replay
	if run.Replay != "" {
		b, err := os.ReadFile(run.Replay)
		if err != nil {
			run.Fatal("cannot read replay file: %v", err)
		}
		var w struct {
			Replay replay `json:"replay"`
		}
		if err := json.Unmarshal(b, &w); err != nil || w.Replay.Config == "" {
			run.Fatal("not a C20 replay file: %s", run.Replay)
		}
		only = &w.Replay
	}
	wanted := func(cfg, section, label string) bool {
		return only == nil || (only.Config == cfg && only.Section == section && (only.Label == label || only.Kind == "crash"))
	}

	// ---- a crashed transcript run
	if builds["default"].Exit != "0" {
		run.Fatal("the transcript program failed in the DEFAULT configuration (exit %s): %s — not a configuration difference; see %s/default.err",
			builds["default"].Exit, trunc(strings.Join(readLines(filepath.Join(dir, "default.err")), " | "), 600), dir)
	}
	ts := map[string]*transcript{}
	for _, c := range cfgs {
		ts[c] = load(dir, c)
	}
	def := ts["default"]
	how := func(c string) string {
		b := builds[c]
		return strings.TrimSpace(fmt.Sprintf("%s go build %s ./cmd/c20t  (module /verif/harness, library = %s)", b.Env, b.Tags, repo))
	}
	howto := func(c string) string {
		return fmt.Sprintf("VERIF_SEED=%d /verif/bin/check C20 %s ; then: diff %s/default.txt %s/%s.txt  (line = section<TAB>label<TAB>hex)", run.Seed, run.Tier, dir, dir, c)
	}
	for _, c := range cfgs[1:] {
		if builds[c].Exit != "0" && wanted(c, "crash", "") {
			errTxt := trunc(strings.Join(readLines(filepath.Join(dir, c+".err")), " | "), 1500)
			run.Violation("cfg:"+c+":crash",
				fmt.Sprintf("the transcript program ran to completion in the default configuration but exited with code %s in configuration %s after %d lines: %s", builds[c].Exit, c, len(ts[c].lines), errTxt),
				replay{Tier: run.Tier, Seed: run.Seed, Config: c, ConfigHow: how(c), Section: "crash", Kind: "crash", ConfigTxt: errTxt, HowTo: howto(c)})
		}
	}

	// ---- vacuity guards on the reference transcript
	required := []string{"hash.sha2_256", "hash.sha2_384", "hash.sha3_256", "hash.sha3_384", "hash.keccak_256",
		"hash.sha3_256.split", "hash.oneshot", "kmac", "kmac.split", "prg",
		"ecdsa.keygen.p256", "ecdsa.keygen.secp256k1", "ecdsa.decode.p256", "ecdsa.decode.secp256k1", "ecdsa.verify.p256", "ecdsa.verify.secp256k1",
		"bls.keygen", "bls.decode", "bls.sign", "bls.agg", "bls.agg.manymsg", "bls.batch", "bls.spock", "bls.thr", "bls.thr.keys", "bls.dkg"}
	for _, s := range required {
		if def.sections[s] < 50 {
			run.Fatal("default transcript has only %d lines in section %s (expected a populated section): the transcript program did not run as designed", def.sections[s], s)
		}
	}

	// ---- the comparison
	type stat struct {
		Lines      int            `json:"lines"`
		Compared   int            `json:"lines_compared_with_default"`
		Differing  int            `json:"differing_lines"`
		Missing    int            `json:"missing_lines"`
		Extra      int            `json:"extra_lines"`
		SHA256     string         `json:"transcript_sha256"`
		BLSLines   int            `json:"bls_lines"`
		PerSection map[string]int `json:"lines_per_section"`
	}
	stats := map[string]*stat{}
	for _, c := range cfgs {
		st := &stat{Lines: len(ts[c].lines), SHA256: ts[c].sha, PerSection: ts[c].sections}
		for s, n := range ts[c].sections {
			if isBLS(s) {
				st.BLSLines += n
			}
		}
		stats[c] = st
	}
	run.Add("evaluations", 0)
	for _, c := range cfgs[1:] {
		t := ts[c]
		st := stats[c]
		crashed := builds[c].Exit != "0"
		for _, l := range def.lines {
			if c == "nocgo" && isBLS(l.section) {
				continue // not part of the claim for the build without BLS
			}
			i, ok := t.byKey[l.section+"\t"+l.label]
			run.Add("evaluations", 1)
			st.Compared++
			if !isMeta(l.section) {
				run.Distinct(l.section + "\t" + l.label)
			}
			switch {
			case !ok:
				st.Missing++
				if crashed {
					continue // already reported once as cfg:<c>:crash
				}
				if wanted(c, l.section, l.label) {
					violation("cfg:"+c+":"+l.section,
						fmt.Sprintf("line {%s} of section %s exists in the default transcript but not in configuration %s", l.label, l.section, c),
						replay{Tier: run.Tier, Seed: run.Seed, Config: c, ConfigHow: how(c), Section: l.section, Label: l.label, DefaultHex: l.hexv, DefaultTxt: printable(l.hexv), Kind: "missing-in-config", HowTo: howto(c)})
				}
			case t.lines[i].hexv != l.hexv:
				st.Differing++
				if wanted(c, l.section, l.label) {
					violation("cfg:"+c+":"+l.section,
						fmt.Sprintf("{%s}: default build gives %s, configuration %s gives %s", l.label, trunc(show(l.hexv), 200), c, trunc(show(t.lines[i].hexv), 200)),
						replay{Tier: run.Tier, Seed: run.Seed, Config: c, ConfigHow: how(c), Section: l.section, Label: l.label, DefaultHex: l.hexv, ConfigHex: t.lines[i].hexv,
							DefaultTxt: printable(l.hexv), ConfigTxt: printable(t.lines[i].hexv), Kind: "differs", HowTo: howto(c)})
				}
			}
		}
		for _, l := range t.lines {
			if c == "nocgo" && isBLS(l.section) {
				st.Extra++
				if wanted(c, l.section, l.label) {
					violation("cfg:nocgo:"+l.section, fmt.Sprintf("the no_cgo build printed a BLS line {%s}", l.label),
						replay{Tier: run.Tier, Seed: run.Seed, Config: c, ConfigHow: how(c), Section: l.section, Label: l.label, ConfigHex: l.hexv, Kind: "bls-section-in-nocgo", HowTo: howto(c)})
				}
				continue
			}
			if _, ok := def.byKey[l.section+"\t"+l.label]; !ok {
				st.Extra++
				run.Add("evaluations", 1)
				if wanted(c, l.section, l.label) {
					violation("cfg:"+c+":"+l.section,
						fmt.Sprintf("line {%s} of section %s exists in configuration %s but not in the default transcript", l.label, l.section, c),
						replay{Tier: run.Tier, Seed: run.Seed, Config: c, ConfigHow: how(c), Section: l.section, Label: l.label, ConfigHex: l.hexv, ConfigTxt: printable(l.hexv), Kind: "extra-in-config", HowTo: howto(c)})
				}
			}
		}
		// full byte identity is implied by the above plus equal order; order is checked here
		if st.Differing+st.Missing+st.Extra == 0 && c != "nocgo" && t.sha != def.sha {
			run.Violation("cfg:"+c+":order", "same lines as the default transcript but in a different order",
				replay{Tier: run.Tier, Seed: run.Seed, Config: c, ConfigHow: how(c), Section: "order", Kind: "differs", HowTo: howto(c)})
		}
	}
	run.Set("per_config", stats)

	// ---- do the configurations really select different code?
	eff := configEvidence(dir, cfgs, builds)
	run.Set("configuration_evidence", eff)

	// ---- evidence
	var secNames []string
	for s := range def.sections {
		secNames = append(secNames, s)
	}
	sort.Strings(secNames)
	for _, want := range []string{"hash.sha3_256", "kmac", "prg", "ecdsa.verify.secp256k1", "bls.sign", "bls.thr", "bls.dkg", "bls.agg"} {
		for _, l := range def.lines {
			if l.section == want && len(l.hexv) >= 32 {
				run.Sample(map[string]any{"section": l.section, "label": l.label, "hex": trunc(l.hexv, 128), "configs_agreeing": agreeing(ts, cfgs, l)})
				break
			}
		}
	}
	run.Set("sections", secNames)
	// operations behind the lines: every stream section closes with "digest-all cases=N"
	cases := map[string]int{}
	total := 0
	for _, l := range def.lines {
		var n int
		if _, err := fmt.Sscanf(l.label, "digest-all cases=%d", &n); err == nil {
			cases[l.section] = n
			total += n
		}
	}
	run.Set("operation_results_per_section_default", cases)
	run.Set("operation_results_total_default", total)
	if t0 := os.Getenv("C20_T0"); t0 != "" {
		var a float64
		if _, err := fmt.Sscanf(t0, "%f", &a); err == nil {
			run.Set("wall_s_including_builds_and_transcript_runs", float64(time.Now().UnixNano())/1e9-a)
		}
	}
	run.Set("rule", "one deterministic transcript program (cmd/c20t: fixed splitmix64-generated inputs; hashing of every length 0..N with Write splits/misaligned slices/reuse, KMAC128 key x customizer x output x message grid, ChaCha20 PRG streams/UintN/permutations/Store+Restore, ECDSA+BLS key generation over a seed-length grid, key/signature decoding verdicts+re-encodings for valid/bit-flipped/out-of-range strings, ECDSA verdicts for externally constructed signatures and their mutations, BLS sign/verify/PoP/aggregation/removal/many-message/batch/SPoCK, threshold keygen+reconstruction incl. n=20 and n=254 signer sets, full message logs and End() results of Joint-Feldman and Feldman-VSS(-Qual) runs incl. complaint+answer) is built in ALL 4 build configurations of the module and run; every line `section/label/value` of the default build is compared with the same line of each other configuration (nocgo: non-BLS sections only, and it must have no BLS line). evaluations = (configuration, line) comparisons; a distinct non-trivial case = one transcript line (section+label, meta lines excluded) compared in >= 2 configurations. Lines beyond the first 200..400 of a section are SHA-256 digests over 25..50 consecutive cases, so one compared line can stand for many operations.")
	run.Set("tier_transcript", run.Tier)
	run.Set("library_tree", repo)
	run.Set("exhaustive", true)
	run.Assume(
		"C20 compares configurations with each other; whether the common answer is right is decided by C01..C17 on the default configuration",
		"only the four configurations buildable on this amd64 host (no -D__BLST_NO_ASM__, no other GOARCH)",
		"the host CPU supports ADX/BMI2 (otherwise the default build could not run); the portable build's run-time dispatch stays on the mulq path because __blst_platform_cap is never set (probed at run time)",
		"Go toolchain and gcc are trusted to honour -tags / CGO_ENABLED / CGO_CFLAGS (checked from the produced binaries' symbol tables and go list file sets)",
		"ECDSA Sign and BLS batch-verification coefficients are randomised by design: only their verification verdicts enter the transcript",
		"operations inside digest groups are compared through SHA-256 (crypto/sha256 of the Go standard library)",
	)
	run.Finish()
}

// violation reports at most 3 cases per key (config+section); the per-config statistics in the
// evidence file still count every differing line.
var perKey = map[string]int{}

func violation(key, what string, rp replay) {
	perKey[key]++
	if perKey[key] > 3 {
		return
	}
	run.Violation(key, what, rp)
}

func show(hx string) string {
	if p := printable(hx); p != "" {
		return fmt.Sprintf("%q", p)
	}
	return hx
}

func agreeing(ts map[string]*transcript, cfgs []string, l line) []string {
	var out []string
	for _, c := range cfgs {
		if i, ok := ts[c].byKey[l.section+"\t"+l.label]; ok && ts[c].lines[i].hexv == l.hexv {
			out = append(out, c)
		}
	}
	return out
}

// configEvidence inspects the four binaries (symbol tables, compiled file sets, run-time
// probe) and fails the run as a HARNESS error when a configuration is not what it claims to
// be: comparing a configuration with itself would make the result vacuous.
func configEvidence(dir string, cfgs []string, builds map[string]*buildRec) map[string]any {
	out := map[string]any{}
	syms := map[string]map[string]bool{}
	files := map[string]string{}
	for _, c := range cfgs {
		syms[c] = symbols(filepath.Join(dir, c+".nm"))
		files[c] = strings.Join(readLines(filepath.Join(dir, c+".files")), " ; ")
		if len(syms[c]) < 1000 {
			run.Fatal("symbol table of the %s binary could not be read (%s/%s.nm)", c, dir, c)
		}
	}
	// all binaries distinct
	seen := map[string]string{}
	for _, c := range cfgs {
		if o, dup := seen[builds[c].SHA256]; dup {
			run.Fatal("configurations %s and %s produced byte-identical binaries: the build settings did not take effect", o, c)
		}
		seen[builds[c].SHA256] = c
	}
	has := func(c, s string) bool { return syms[c][s] }
	probe := func(c string) string {
		for _, l := range readLines(filepath.Join(dir, c+".err")) {
			if v, ok := strings.CutPrefix(l, "c20t-info blst_platform_cap="); ok {
				return v
			}
		}
		return "n/a"
	}
	const kAsm = "github.com/onflow/crypto/hash.keccakF1600.abi0" // assembly body (ABI0 symbol)
	const kGo = "github.com/onflow/crypto/hash.keccakF1600"        // Go body (ABIInternal symbol)
	const kRC = "github.com/onflow/crypto/hash.rc"                 // round constants of the Go body
	type ce struct {
		Files          string          `json:"go_list_compiled_files"`
		Symbols        map[string]bool `json:"symbol_present"`
		PlatformCap    string          `json:"blst_platform_cap_at_exit"`
		Interpretation string          `json:"interpretation"`
	}
	pick := func(c string, names ...string) map[string]bool {
		m := map[string]bool{}
		for _, n := range names {
			m[n] = has(c, n)
		}
		return m
	}
	blstSyms := []string{"mulx_mont_384", "mul_mont_384", "ctx_inverse_mod_383", "ct_inverse_mod_383", "blst_sha256_block_ssse3", "blst_sha256_block_data_order_shaext", "__blst_platform_cap", "__blst_cpuid", kAsm, kGo, kRC, "x_cgo_init", "crosscall2"}
	interp := map[string]string{}

	// default: ADX-only BLST (mulx_* global entry points, no mulq code at all), assembly Keccak
	if !(has("default", "mulx_mont_384") && !has("default", "mul_mont_384") && !has("default", "ct_inverse_mod_383") && has("default", kAsm) && !has("default", kRC)) {
		run.Fatal("default configuration is not the expected ADX + assembly-Keccak build (symbols: %v)", pick("default", blstSyms...))
	}
	interp["default"] = "BLST assembled with -D__ADX__ only: the field arithmetic entry points are the mulx/adx routines (mulx_mont_384, ctx_inverse_mod_383), the mulq routines are not even linked; Keccak-f is the amd64 assembly (symbol keccakF1600.abi0, files keccakf_asm.go+keccak.s+xor_unaligned.go)"
	// portable: both code paths linked, entry points mul_mont_384 etc. dispatch on __blst_platform_cap, which stays 0
	if !(has("portable", "mul_mont_384") && has("portable", "ct_inverse_mod_383") && has("portable", "blst_sha256_block_ssse3")) {
		run.Fatal("portable configuration does not contain BLST's portable (mulq) code: CGO_CFLAGS did not reach the C compiler (symbols: %v)", pick("portable", blstSyms...))
	}
	if has("portable", "__blst_cpuid") || probe("portable") != "0" {
		run.Fatal("portable configuration: __blst_platform_cap is %s / a cpuid constructor is linked (%v): on this ADX-capable host the portable build would dispatch to the same mulx code as the default build, so the non-ADX path is not exercised", probe("portable"), has("portable", "__blst_cpuid"))
	}
	interp["portable"] = "BLST assembled with -D__BLST_PORTABLE__: entry points mul_mont_384/sqr_mont_384/ct_inverse_mod_383/... are the mulq (non-ADX) routines that jump to the mulx code only if bit 0 of __blst_platform_cap is set; blst_src/cpuid.c (the only writer) is not compiled (no __blst_cpuid symbol) and the variable read 0 at the end of the run, so every field operation of the run took the non-ADX path; SHA-256 inside BLST uses the ssse3 block function"
	// purego
	if !(has("purego", kGo) && has("purego", kRC) && !has("purego", kAsm) && strings.Contains(files["purego"], "xor_generic.go") && strings.Contains(files["purego"], "keccakf.go") && !strings.Contains(files["purego"], "keccak.s")) {
		run.Fatal("purego configuration does not use the pure-Go Keccak permutation / generic xor (symbols %v, files %s)", pick("purego", kAsm, kGo, kRC), files["purego"])
	}
	if !(strings.Contains(files["default"], "xor_unaligned.go") && strings.Contains(files["default"], "keccakf_asm.go") && strings.Contains(files["default"], "keccak.s")) {
		run.Fatal("default configuration does not compile the assembly Keccak / unaligned xor files: %s", files["default"])
	}
	interp["purego"] = "tag purego: hash package compiled from keccakf.go (Go keccakF1600 + table rc) and xor_generic.go instead of keccakf_asm.go/keccak.s and xor_unaligned.go; the tag also switches golang.org/x/crypto/chacha20 and the standard library SHA-2/SHA-3 (used by KMAC's cSHAKE) to their generic code; BLS layer as in default"
	// nocgo
	if !(strings.Contains(files["nocgo"], "no_cgo.go") && !strings.Contains(files["nocgo"], "bls12381_utils.go") && !has("nocgo", "mulx_mont_384") && !has("nocgo", "x_cgo_init") && !has("nocgo", "crosscall2")) {
		run.Fatal("nocgo configuration still contains cgo/BLST code (files %s)", files["nocgo"])
	}
	interp["nocgo"] = "CGO_ENABLED=0 -tags no_cgo: root package compiled from no_cgo.go (panicking BLS stubs) without any cgo file; no BLST symbol in the binary; hash/random/ECDSA code identical in source to default"
	for _, c := range cfgs {
		out[c] = ce{Files: files[c], Symbols: pick(c, blstSyms...), PlatformCap: probe(c), Interpretation: interp[c]}
	}
	out["cgo_cflags_reach_compiler"] = "verified with `go build -x`: gcc is invoked with `-O2 -D__BLST_PORTABLE__ -I... -D__BLST_CGO__ ... -D__ADX__ -mno-avx` for bls12381_utils.c, blst_assembly.S and the cgo stubs (environment CGO_CFLAGS precedes the #cgo CFLAGS of bls12381_utils.go); at check time this is re-verified from the symbol table of the portable binary"
	return out
}
