// C12: key generation is a fixed, in-range, deterministic function of the seed, and the
// public key of every private key (generated, decoded, aggregated) is scalar x generator.
//
// Exhaustive over algorithms {BLS, P-256, secp256k1} x every seed length 0..300 x four seed
// contents; each generated key is compared byte for byte with an independent derivation
// (HKDF-SHA256 over refsha2: IETF BLS KeyGen / Flow's ECDSA mapping) and each public key with
// an independent scalar multiplication (refecdsa, refbls).
package main

import (
	"bytes"
	"encoding/json"
	"fmt"
	"math/big"
	"os"
	"sync"
	"time"

	crypto "github.com/onflow/crypto"
	"github.com/onflow/crypto/hash"

	"verif/harness/ev"
	"verif/harness/ref/refbls"
	"verif/harness/ref/refecdsa"
	"verif/harness/ref/refsha2"
)

var run *ev.Run

type algoSpec struct {
	name  string
	algo  crypto.SigningAlgorithm
	order *big.Int
	c     *refecdsa.Curve // nil for BLS
}

var algos []*algoSpec

// blsOrder is written out here (not taken from refbls) and cross-checked against refbls.R.
var blsOrder, _ = new(big.Int).SetString("73eda753299d7d483339d80809a1d80553bda402fffe5bfeffffffff00000001", 16)

// ---------------------------------------------------------------- reference derivations

// refBLSKeyGen is KeyGen of draft-irtf-cfrg-bls-signature-05 section 2.3 with empty key_info.
func refBLSKeyGen(ikm []byte) *big.Int {
	salt := refsha2.Sum256([]byte("BLS-SIG-KEYGEN-SALT-"))
	secret := append(append([]byte{}, ikm...), 0) // IKM || I2OSP(0,1)
	info := []byte{0, 48}                         // key_info || I2OSP(L,2), L = 48
	for {
		okm := refsha2.HKDF256(secret, salt, info, 48)
		sk := new(big.Int).SetBytes(okm)
		sk.Mod(sk, blsOrder)
		if sk.Sign() != 0 {
			return sk
		}
		salt = refsha2.Sum256(salt)
	}
}

// refECDSAKeyGen is the documented Flow mapping: HKDF-SHA256(seed, salt "", info "") to
// 32+16 bytes, d = OS2IP(okm) mod (n-1) + 1.
func refECDSAKeyGen(n *big.Int, seed []byte) *big.Int {
	okm := refsha2.HKDF256(seed, nil, nil, 48)
	d := new(big.Int).SetBytes(okm)
	d.Mod(d, new(big.Int).Sub(n, big.NewInt(1)))
	return d.Add(d, big.NewInt(1))
}

func refDerive(a *algoSpec, seed []byte) *big.Int {
	if a.c == nil {
		return refBLSKeyGen(seed)
	}
	return refECDSAKeyGen(a.order, seed)
}

// refPub returns the acceptable encodings of scalar x generator. For ECDSA: X||Y. For BLS the
// property is about the group element, not the byte order of the F_p^2 halves (that is C05),
// so both the library's C0||C1 order and the ZCash C1||C0 order of the same point are accepted.
func refPub(a *algoSpec, k *big.Int) [][]byte {
	if a.c != nil {
		x, y := a.c.ScalarBaseMult(k)
		if x == nil {
			return nil
		}
		return [][]byte{a.c.EncodeRaw(x, y)}
	}
	p := refbls.G2Gen().Mul(k)
	return [][]byte{refbls.EncodeG2Flow(p), refbls.EncodeG2ZCash(p)}
}

func b32(v *big.Int) []byte { return v.FillBytes(make([]byte, 32)) }

func selfTest() error {
	if err := refsha2.SelfTest(); err != nil {
		return err
	}
	if err := refecdsa.SelfTest(); err != nil {
		return err
	}
	if err := refbls.SelfTest(); err != nil {
		return err
	}
	if refbls.R.Cmp(blsOrder) != 0 || !blsOrder.ProbablyPrime(32) {
		return fmt.Errorf("BLS group order constants disagree")
	}
	// Published vectors for hkdf_mod_r = KeyGen with empty key_info (EIP-2333 test cases,
	// seeds of 64 and 32 bytes; the function is the one of draft-irtf-cfrg-bls-signature-04+).
	for _, v := range []struct{ seed, sk string }{
		{"c55257c360c07c72029aebc1b53c05ed0362ada38ead3e3e9efa3708e53495531f09a6987599d18264c1e1c92f2cf141630c7a3c4ab7c81b2f001698e7463b04",
			"6083874454709270928345386274498605044986640685124978867557563392430687146096"},
		{"3141592653589793238462643383279502884197169399375105820974944592",
			"29757020647961307431480504535336562678282505419141012933316116377660817309383"},
		{"0099FF991111002299DD7744EE3355BBDD8844115566CC55663355668888CC00",
			"27580842291869792442942448775674722299803720648445448686099262467207037398656"},
	} {
		want, _ := new(big.Int).SetString(v.sk, 10)
		if got := refBLSKeyGen(ev.UnHex(v.seed)); got.Cmp(want) != 0 {
			return fmt.Errorf("reference BLS KeyGen fails EIP-2333 vector seed=%s: got %v", v.seed, got)
		}
	}
	return nil
}

// ---------------------------------------------------------------- cases

type replay struct {
	Kind     string   `json:"kind"` // gen | scalar | aggregate
	Algo     string   `json:"algorithm"`
	Seed     string   `json:"seed_hex,omitempty"`
	Content  string   `json:"seed_content,omitempty"`
	Scalars  []string `json:"scalars_hex,omitempty"`
	Expected string   `json:"expected"`
	Got      string   `json:"got"`
}

var (
	hmu  sync.Mutex
	hist = map[string]int64{}
)

func bump(k string) { hmu.Lock(); hist[k]++; hmu.Unlock() }

func lenClass(l int) string {
	switch {
	case l < 32:
		return "len0-31"
	case l == 32:
		return "len32"
	case l <= 64:
		return "len33-64"
	case l <= 128:
		return "len65-128"
	case l <= 256:
		return "len129-256"
	}
	return "len257-300"
}

func scalarClass(k, order *big.Int) string {
	if k.Sign() == 0 {
		return "zero"
	}
	if new(big.Int).Add(k, big.NewInt(1)).Cmp(order) == 0 {
		return "order-1"
	}
	return fmt.Sprintf("leading-zero-bytes-%d", 32-(k.BitLen()+7)/8)
}

func matchAny(got []byte, want [][]byte) int {
	for i, w := range want {
		if bytes.Equal(got, w) {
			return i
		}
	}
	return -1
}

// checkPub: sk's public key must encode scalar x generator, and repeated PublicKey() calls
// must return Equal keys (with equal encodings).
func checkPub(a *algoSpec, sk crypto.PrivateKey, k *big.Int, source string, rp replay) {
	want := refPub(a, k)
	p1 := sk.PublicKey()
	p2 := sk.PublicKey()
	e1 := p1.Encode()
	run.Add("evaluations", 1)
	run.Add("public_keys_checked", 1)
	m := matchAny(e1, want)
	if m < 0 {
		rp.Expected, rp.Got = ev.Hex(want[0]), ev.Hex(e1)
		run.Violation(fmt.Sprintf("pub:%s:%s:%s:mismatch", a.name, source, scalarClass(k, a.order)),
			fmt.Sprintf("PublicKey().Encode() of %s %s key with scalar %x is not scalar x generator", a.name, source, k), rp)
	} else if a.c == nil {
		bump([]string{"bls_pub_format_c0c1", "bls_pub_format_zcash"}[m])
	}
	if !p1.Equals(p2) || !p2.Equals(p1) || !bytes.Equal(e1, p2.Encode()) || !bytes.Equal(e1, sk.PublicKey().Encode()) {
		rp.Expected, rp.Got = "repeated PublicKey() calls Equal", "not equal"
		run.Violation(fmt.Sprintf("pub:%s:%s:cache-not-equal", a.name, source), "repeated PublicKey() calls return keys that are not Equal", rp)
	}
	bump("pub_ok_" + source)
}

// guard turns a panic of the library inside one case into a violation of that case.
func guard(a *algoSpec, rp *replay) {
	if r := recover(); r != nil {
		rp.Expected, rp.Got = "a result", fmt.Sprintf("panic: %v", r)
		run.Violation(fmt.Sprintf("panic:%s:%s", a.name, rp.Kind), fmt.Sprintf("library panicked: %v", r), *rp)
	}
}

func seedContent(kind, l int) ([]byte, string) {
	s := make([]byte, l)
	switch kind {
	case 0:
		return s, "zeros"
	case 1:
		for i := range s {
			s[i] = 0xff
		}
		return s, "0xff"
	case 2:
		for i := range s {
			s[i] = byte(i)
		}
		return s, "counter"
	}
	tag, name := "C12 seed content", "seed-derived"
	if kind > 3 {
		name = fmt.Sprintf("seed-derived-%d", kind-2)
		tag += name
	}
	cur := refsha2.Sum256([]byte(fmt.Sprintf("%s|len=%d|seed=%d", tag, l, run.Seed)))
	for i := 0; i < l; i += 32 {
		copy(s[i:], cur)
		cur = refsha2.Sum256(cur)
	}
	return s, name
}

// caseGen handles one (algorithm, seed). pubCheck: also verify the public key.
func caseGen(a *algoSpec, seed []byte, content string, pubCheck bool) {
	rp := replay{Kind: "gen", Algo: a.name, Seed: ev.Hex(seed), Content: content}
	defer guard(a, &rp)
	l := len(seed)
	keep := append([]byte{}, seed...)
	sk, err := crypto.GeneratePrivateKey(a.algo, seed)
	run.Add("evaluations", 1)
	if l < 32 || l > 256 {
		if err == nil || sk != nil {
			rp.Expected, rp.Got = "invalid-inputs error", "key returned"
			run.Violation(fmt.Sprintf("gen:%s:seed-%s:accepted", a.name, lenClass(l)), fmt.Sprintf("seed of %d bytes accepted", l), rp)
		} else if !crypto.IsInvalidInputsError(err) {
			rp.Expected, rp.Got = "invalid-inputs error", err.Error()
			run.Violation(fmt.Sprintf("gen:%s:seed-%s:wrong-error-type", a.name, lenClass(l)), fmt.Sprintf("seed of %d bytes rejected with a non invalid-inputs error", l), rp)
		}
		bump("reject_seed_length")
		return
	}
	if err != nil || sk == nil {
		rp.Expected, rp.Got = "key", fmt.Sprint(err)
		run.Violation(fmt.Sprintf("gen:%s:seed-%s:rejected", a.name, lenClass(l)), fmt.Sprintf("seed of %d bytes rejected: %v", l, err), rp)
		return
	}
	want := refDerive(a, keep)
	enc := sk.Encode()
	if !bytes.Equal(enc, b32(want)) {
		rp.Expected, rp.Got = ev.Hex(b32(want)), ev.Hex(enc)
		run.Violation(fmt.Sprintf("gen:%s:seed-%s:derivation-mismatch", a.name, lenClass(l)),
			fmt.Sprintf("GeneratePrivateKey(%s, %d-byte %s seed) is not the documented derivation", a.name, l, content), rp)
	}
	if new(big.Int).SetBytes(enc).Sign() == 0 || new(big.Int).SetBytes(enc).Cmp(a.order) >= 0 {
		rp.Expected, rp.Got = "1 <= sk < order", ev.Hex(enc)
		run.Violation(fmt.Sprintf("gen:%s:seed-%s:out-of-range", a.name, lenClass(l)), "generated key is zero or not reduced", rp)
	}
	if !bytes.Equal(seed, keep) {
		rp.Expected, rp.Got = "seed untouched", ev.Hex(seed)
		run.Violation(fmt.Sprintf("gen:%s:seed-modified", a.name), "GeneratePrivateKey modified the caller's seed", rp)
	}
	sk2, err2 := crypto.GeneratePrivateKey(a.algo, seed)
	run.Add("evaluations", 1)
	if err2 != nil || !bytes.Equal(sk2.Encode(), enc) || !sk.Equals(sk2) || !bytes.Equal(sk.Encode(), enc) {
		rp.Expected, rp.Got = ev.Hex(enc), fmt.Sprintf("%v", err2)
		if err2 == nil {
			rp.Got = ev.Hex(sk2.Encode())
		}
		run.Violation(fmt.Sprintf("gen:%s:seed-%s:nondeterministic", a.name, lenClass(l)), "two calls with the same seed give different keys", rp)
	}
	if sk.Algorithm() != a.algo || sk.Size() != 32 {
		rp.Expected, rp.Got = "algorithm/size", fmt.Sprintf("%v/%d", sk.Algorithm(), sk.Size())
		run.Violation(fmt.Sprintf("gen:%s:algorithm-or-size", a.name), "generated key reports wrong algorithm or size", rp)
	}
	bump("derivation_ok_" + a.name)
	run.Distinct(fmt.Sprintf("gen/%s/%d/%s", a.name, l, content))
	if pubCheck {
		checkPub(a, sk, new(big.Int).SetBytes(enc), "generated", rp)
		run.Distinct(fmt.Sprintf("genpub/%s/%d/%s", a.name, l, content))
	}
}

// caseScalar: DecodePrivateKey of a chosen scalar, then the public key.
func caseScalar(a *algoSpec, k *big.Int) {
	rp := replay{Kind: "scalar", Algo: a.name, Scalars: []string{ev.Hex(b32(k))}}
	defer guard(a, &rp)
	sk, err := crypto.DecodePrivateKey(a.algo, b32(k))
	run.Add("evaluations", 1)
	if err != nil {
		rp.Expected, rp.Got = "key", err.Error()
		run.Violation(fmt.Sprintf("decode:%s:%s:rejected", a.name, scalarClass(k, a.order)), "valid private scalar rejected by DecodePrivateKey", rp)
		return
	}
	if !bytes.Equal(sk.Encode(), b32(k)) {
		rp.Expected, rp.Got = ev.Hex(b32(k)), ev.Hex(sk.Encode())
		run.Violation(fmt.Sprintf("decode:%s:%s:encode-roundtrip", a.name, scalarClass(k, a.order)), "Encode() of a decoded private key differs from the input", rp)
	}
	checkPub(a, sk, k, "decoded", rp)
	run.Distinct(fmt.Sprintf("scalar/%s/%x", a.name, k))
}

// caseAgg: aggregated BLS private key = sum of scalars mod r; its public key = sum x g2.
func caseAgg(a *algoSpec, ks []*big.Int) { caseAggPattern(a, ks, 0) }

// caseAggPattern: bit i of `cached` set = PublicKey() of input key i is called BEFORE the
// aggregation (the public key of a private key is computed lazily and cached, so the history of
// PublicKey() calls on the inputs is part of the input of AggregateBLSPrivateKeys).
func caseAggPattern(a *algoSpec, ks []*big.Int, cached uint) {
	rp := replay{Kind: "aggregate", Algo: a.name, Content: fmt.Sprintf("public-key-cached-pattern=%b", cached)}
	defer guard(a, &rp)
	sum := new(big.Int)
	var keys []crypto.PrivateKey
	for _, k := range ks {
		rp.Scalars = append(rp.Scalars, ev.Hex(b32(k)))
		sk, err := crypto.DecodePrivateKey(a.algo, b32(k))
		if err != nil {
			run.Fatal("DecodePrivateKey(%x): %v", k, err)
		}
		keys = append(keys, sk)
		sum.Add(sum, k)
	}
	for i := range keys {
		if cached&(1<<uint(i)) != 0 {
			keys[i].PublicKey()
		}
	}
	sum.Mod(sum, a.order)
	agg, err := crypto.AggregateBLSPrivateKeys(keys)
	run.Add("evaluations", 1)
	if err != nil {
		rp.Expected, rp.Got = "key", err.Error()
		run.Violation("aggregate:BLS:error", "AggregateBLSPrivateKeys failed on valid keys", rp)
		return
	}
	if !bytes.Equal(agg.Encode(), b32(sum)) {
		rp.Expected, rp.Got = ev.Hex(b32(sum)), ev.Hex(agg.Encode())
		run.Violation(fmt.Sprintf("aggregate:BLS:%s:scalar-mismatch", scalarClass(sum, a.order)), "aggregated private key is not the sum of the scalars mod r", rp)
	}
	checkPub(a, agg, sum, "aggregated", rp)
	run.Distinct(fmt.Sprintf("agg/%v/%b", rp.Scalars, cached))
}

func pow2(e uint, add int64) *big.Int {
	return new(big.Int).Add(new(big.Int).Lsh(big.NewInt(1), e), big.NewInt(add))
}

func scalarSet(a *algoSpec) []*big.Int {
	set := []*big.Int{big.NewInt(1), big.NewInt(2), big.NewInt(255), big.NewInt(256), pow2(128, 0),
		new(big.Int).Sub(a.order, big.NewInt(1)), new(big.Int).Sub(a.order, big.NewInt(2)),
		pow2(232, 5), pow2(240, 7), pow2(247, 1), pow2(224, 9), pow2(231, 3), pow2(239, 11)}
	// every number of leading zero bytes 1..31, first non-zero byte 0x01 and 0x80
	for z := 1; z <= 31; z++ {
		top := uint(8 * (32 - z))
		set = append(set, pow2(top-8, int64(z)), pow2(top-1, int64(z)))
	}
	// byte-sparse scalars: a single non-zero byte at each of the 32 byte positions (b * 256^j) and
	// every count of TRAILING zero bytes under a two-byte head — where a scalar-to-bytes helper
	// that confuses byte order, or drops zero bytes at either end, goes wrong
	for j := uint(0); j < 32; j++ {
		for _, b := range []int64{1, 5, 0x55, 0x73, 0xff} {
			set = append(set, new(big.Int).Lsh(big.NewInt(b), 8*j))
		}
		set = append(set, new(big.Int).Lsh(big.NewInt(0x0102), 8*j))
	}
	// every bit position: 2^k-1, 2^k, 2^k+1 (limb, word, window and "short scalar" boundaries of the
	// scalar multiplication by the generator)
	for k := uint(1); k <= 255; k++ {
		set = append(set, pow2(k, -1), pow2(k, 0), pow2(k, 1))
	}
	seen := map[string]bool{}
	var out []*big.Int
	for _, k := range set {
		if k.Sign() > 0 && k.Cmp(a.order) < 0 && !seen[k.String()] {
			seen[k.String()] = true
			out = append(out, k)
		}
	}
	return out
}

func main() {
	run = ev.Start("C12", "exploration")
	if err := selfTest(); err != nil {
		run.Fatal("%v", err)
	}
	algos = []*algoSpec{
		{"BLS", crypto.BLSBLS12381, blsOrder, nil},
		{"P-256", crypto.ECDSAP256, refecdsa.P256().N, refecdsa.P256()},
		{"secp256k1", crypto.ECDSASecp256k1, refecdsa.Secp256k1().N, refecdsa.Secp256k1()},
	}
	if run.Replay != "" {
		doReplay()
		return
	}
	t0 := time.Now()
	blsStride, nContents := 4, 4
	if run.Thorough() {
		blsStride, nContents = 1, 12 // 8 further SHA-256-chain contents
	}
	run.Set("rule", fmt.Sprintf("algorithms {BLS, P-256, secp256k1} x every seed length 0..300 (plus the nil seed) x contents {zeros, 0xff, counter, SHA-256 chain of VERIF_SEED; thorough: 8 more chains}: outside 32..256 an invalid-inputs error is required, inside the Encode() bytes must equal the reference derivation (BLS: IETF KeyGen draft-05 2.3 over refsha2.HKDF256 incl. salt re-hash loop; ECDSA: HKDF to 48 bytes, mod (n-1) + 1), be in [1, order-1], and a second call must give the same bytes. "+
		"Public keys: every generated ECDSA key and every generated BLS key whose seed length is a multiple of %d (and lengths 32, 33, 255, 256), every decoded scalar of {1,2,255,256,2^128,order-1,order-2, 2^232+5, 2^240+7, 2^247+1, ..., all counts 1..31 of leading zero bytes with first byte 0x01 and 0x80, byte-sparse scalars b*256^j for every byte position j and b in {1,5,0x55,0x73,0xff,0x0102}, 2^k-1, 2^k, 2^k+1 for every bit position k=1..255}, every aggregated BLS key of a fixed list of scalar tuples (incl. sum = 0 and sum wrapping mod r) and, for tuples of 2-4 keys, under EVERY pattern of which input keys already had PublicKey() called (lazy public-key cache): PublicKey().Encode() = scalar x generator by refecdsa/refbls and repeated PublicKey() calls are Equal. "+
		"A case is distinct by (algorithm, seed length, content) for in-range derivations, by (algorithm, scalar) for decoded keys, by scalar tuple for aggregated keys; rejected lengths are not counted as distinct.", blsStride))
	run.Set("seed_lengths", "0..300")
	run.Set("seed_contents", []string{"zeros", "0xff", "counter", "seed-derived"})
	run.Set("seed_contents_count", nContents)
	run.Set("bls_public_key_stride", blsStride)

	// 1. seed sweep
	type job struct {
		ai, l, kind int
	}
	var jobs []job
	for ai := range algos {
		for l := 0; l <= 300; l++ {
			for kind := 0; kind < nContents; kind++ {
				jobs = append(jobs, job{ai, l, kind})
			}
		}
	}
	ev.Par(len(jobs), func(i int) {
		j := jobs[i]
		a := algos[j.ai]
		seed, content := seedContent(j.kind, j.l)
		pub := a.c != nil || j.l%blsStride == 0 || j.l == 33 || j.l == 255
		caseGen(a, seed, content, pub)
	})
	for _, a := range algos {
		caseGen(a, nil, "nil", false)
	}
	fmt.Printf("C12 seed sweep done at %.1fs\n", time.Since(t0).Seconds())
	s, c := seedContent(3, 65)
	run.Sample(replay{Kind: "gen", Algo: "BLS", Seed: ev.Hex(s), Content: c, Expected: ev.Hex(b32(refBLSKeyGen(s))), Got: "same"})
	s, c = seedContent(2, 256)
	run.Sample(replay{Kind: "gen", Algo: "secp256k1", Seed: ev.Hex(s), Content: c, Expected: ev.Hex(b32(refECDSAKeyGen(algos[2].order, s))), Got: "same"})
	s, c = seedContent(1, 257)
	run.Sample(replay{Kind: "gen", Algo: "P-256", Seed: ev.Hex(s), Content: c, Expected: "invalid-inputs error", Got: "same"})

	// 2. decoded scalars
	type sj struct {
		ai int
		k  *big.Int
	}
	var sjobs []sj
	for ai, a := range algos {
		for _, k := range scalarSet(a) {
			sjobs = append(sjobs, sj{ai, k})
		}
	}
	run.Set("decoded_scalars_per_algorithm", len(scalarSet(algos[0])))
	ev.Par(len(sjobs), func(i int) { caseScalar(algos[sjobs[i].ai], sjobs[i].k) })
	run.Sample(replay{Kind: "scalar", Algo: "secp256k1", Scalars: []string{ev.Hex(b32(pow2(232, 5)))}, Expected: ev.Hex(refPub(algos[2], pow2(232, 5))[0]), Got: "same"})
	fmt.Printf("C12 decoded scalars done at %.1fs\n", time.Since(t0).Seconds())

	// 3. aggregated BLS private keys
	bls := algos[0]
	rm1 := new(big.Int).Sub(blsOrder, big.NewInt(1))
	g1 := refBLSKeyGen(bytes.Repeat([]byte{1}, 32))
	g2 := refBLSKeyGen(bytes.Repeat([]byte{2}, 48))
	one, two := big.NewInt(1), big.NewInt(2)
	tuples := [][]*big.Int{
		{one, one}, {one, two}, {rm1, one}, {rm1, two}, {rm1, rm1}, {g1, g2}, {g2, g1}, {g1, new(big.Int).Sub(blsOrder, g1)},
		{pow2(128, 0), pow2(232, 5)}, {pow2(247, 1), pow2(240, 7)}, {g1}, {one}, {g1, g2, rm1}, {one, two, big.NewInt(252)},
		{pow2(254, 0), pow2(254, 0)}, {rm1, rm1, rm1, rm1},
	}
	ev.Par(len(tuples), func(i int) { caseAgg(bls, tuples[i]) })
	// every pattern of "PublicKey() already called" over the inputs, for tuples of 2, 3 and 4 keys
	type aggJob struct {
		t []*big.Int
		c uint
	}
	var ajobs []aggJob
	for _, t := range [][]*big.Int{{g1, g2}, {g1, g2, rm1}, {g1, g2, two, pow2(200, 3)}, {g1, new(big.Int).Sub(blsOrder, g1)}, {g1, g2, new(big.Int).Sub(blsOrder, g1)}} {
		for c := uint(1); c < 1<<uint(len(t)); c++ {
			ajobs = append(ajobs, aggJob{t, c})
		}
	}
	ev.Par(len(ajobs), func(i int) { caseAggPattern(bls, ajobs[i].t, ajobs[i].c) })
	run.Set("aggregated_tuples_with_cache_patterns", len(ajobs))
	run.Set("aggregated_tuples", len(tuples))
	run.Sample(replay{Kind: "aggregate", Algo: "BLS", Scalars: []string{ev.Hex(b32(rm1)), ev.Hex(b32(two))}, Expected: "scalar 1, public key g2", Got: "same"})

	usePart(bls, []*big.Int{g1, g2, two, rm1})
	schedPart()

	hmu.Lock()
	run.Set("outcomes", hist)
	run.Set("distinct_outcome_classes", len(hist))
	fmt.Printf("C12 outcomes: %v\n", hist)
	hmu.Unlock()
	run.Assume("refsha2 (SHA-256/HMAC/HKDF) self-tested on FIPS 180-4 / RFC 4231 / RFC 5869 vectors; reference BLS KeyGen additionally on the three EIP-2333 hkdf_mod_r vectors",
		"refecdsa and refbls scalar multiplication self-tested on published generator multiples",
		"the OKM = 0 mod r retry branch of BLS KeyGen needs a SHA-256 preimage and is not reachable by enumeration; the reference implements it but no seed of the sweep exercises it",
		"for BLS public keys the byte order of the two F_p^2 halves is not judged here (C05): the C0||C1 and the ZCash C1||C0 encodings of the correct point are both accepted")
	run.Finish()
}

// schedPart: concurrent FIRST use of the lazily cached public key of one private-key object, all
// schedules within the preemption bound; every call must return what it returns alone (cmd/c12s).
func schedPart() {
	run.SchedPart("C12_SCHED_BIN", "concurrent_first_use",
		"two threads share ONE private-key object (BLS generated / decoded / aggregated, ECDSA on both curves) whose PublicKey() was never called; all unordered pairs of {PublicKey().Encode(), PublicKey().EncodeCompressed(), PublicKey().Equals(PublicKey()), Encode(), BLSGeneratePOP, Sign+PublicKey().Verify}; all schedules with <= 2 (thorough 3) preemptions over the statement-level scheduling points of the instrumented library; every call returns what it returns alone",
		"BLS generated: [PublicKey().Encode()] || [BLSGeneratePOP(sk)]")
}

func doReplay() {
	b, err := os.ReadFile(run.Replay)
	if err != nil {
		run.Fatal("replay: %v", err)
	}
	if bytes.Contains(b, []byte("publickey-first-use")) {
		// a schedule of the concurrent-first-use part: replayed by the scheduler-variant binary
		ev.SchedReplay("C12_SCHED_BIN", run.Replay)
	}
	var f struct {
		Replay replay `json:"replay"`
	}
	if err := json.Unmarshal(b, &f); err != nil {
		run.Fatal("replay: %v", err)
	}
	rp := f.Replay
	run.Set("rule", "replay of one recorded case")
	for _, a := range algos {
		if a.name != rp.Algo {
			continue
		}
		switch rp.Kind {
		case "gen":
			caseGen(a, ev.UnHex(rp.Seed), rp.Content, true)
		case "scalar":
			caseScalar(a, new(big.Int).SetBytes(ev.UnHex(rp.Scalars[0])))
		case "aggregate":
			var ks []*big.Int
			for _, s := range rp.Scalars {
				ks = append(ks, new(big.Int).SetBytes(ev.UnHex(s)))
			}
			caseAgg(a, ks)
		default:
			run.Fatal("replay: unknown kind %q", rp.Kind)
		}
		run.Distinct("replay/1")
		run.Distinct("replay/2")
		run.Sample(rp)
		run.Finish()
	}
	run.Fatal("replay: unknown algorithm %q", rp.Algo)
}


// usePart: "cached consistently" over the life of the key object: after EVERY read-only use of a key pair
// (its public key object handed to Verify, BLSVerifyPOP, SPOCKVerify in either position, aggregation,
// removal, one-message / many-message / batch verification, Equals, encodings; the private key to Sign,
// SPOCKProve, BLSGeneratePOP, aggregation) PublicKey() still encodes to scalar x generator - for decoded,
// generated-like and aggregated keys; all ordered pairs of uses (the second use may undo what the first did).
func usePart(a *algoSpec, ks []*big.Int) {
	type use struct {
		name string
		do   func(sk crypto.PrivateKey, pk crypto.PublicKey, osk crypto.PrivateKey, opk crypto.PublicKey)
	}
	h := func() hash.Hasher { return crypto.NewExpandMsgXOFKMAC128("c12-use") }
	msg := []byte("c12 use part")
	uses := []use{
		{"Verify", func(sk crypto.PrivateKey, pk crypto.PublicKey, _ crypto.PrivateKey, _ crypto.PublicKey) {
			s, _ := sk.Sign(msg, h())
			_, _ = pk.Verify(s, msg, h())
		}},
		{"BLSVerifyPOP", func(sk crypto.PrivateKey, pk crypto.PublicKey, _ crypto.PrivateKey, _ crypto.PublicKey) {
			p, _ := crypto.BLSGeneratePOP(sk)
			_, _ = crypto.BLSVerifyPOP(pk, p)
		}},
		{"SPOCKVerify(first)", func(sk crypto.PrivateKey, pk crypto.PublicKey, osk crypto.PrivateKey, opk crypto.PublicKey) {
			p1, _ := crypto.SPOCKProve(sk, msg, h())
			p2, _ := crypto.SPOCKProve(osk, msg, h())
			_, _ = crypto.SPOCKVerify(pk, p1, opk, p2)
		}},
		{"SPOCKVerify(second)", func(sk crypto.PrivateKey, pk crypto.PublicKey, osk crypto.PrivateKey, opk crypto.PublicKey) {
			p1, _ := crypto.SPOCKProve(sk, msg, h())
			p2, _ := crypto.SPOCKProve(osk, msg, h())
			_, _ = crypto.SPOCKVerify(opk, p2, pk, p1)
		}},
		{"SPOCKVerifyAgainstData", func(sk crypto.PrivateKey, pk crypto.PublicKey, _ crypto.PrivateKey, _ crypto.PublicKey) {
			p1, _ := crypto.SPOCKProve(sk, msg, h())
			_, _ = crypto.SPOCKVerifyAgainstData(pk, p1, msg, h())
		}},
		{"AggregateBLSPublicKeys", func(_ crypto.PrivateKey, pk crypto.PublicKey, _ crypto.PrivateKey, opk crypto.PublicKey) {
			_, _ = crypto.AggregateBLSPublicKeys([]crypto.PublicKey{pk, opk, pk})
		}},
		{"RemoveBLSPublicKeys", func(_ crypto.PrivateKey, pk crypto.PublicKey, _ crypto.PrivateKey, opk crypto.PublicKey) {
			ag, _ := crypto.AggregateBLSPublicKeys([]crypto.PublicKey{pk, opk})
			_, _ = crypto.RemoveBLSPublicKeys(ag, []crypto.PublicKey{pk})
			_, _ = crypto.RemoveBLSPublicKeys(pk, []crypto.PublicKey{opk})
		}},
		{"VerifyOneMessage+ManyMessages+Batch", func(sk crypto.PrivateKey, pk crypto.PublicKey, osk crypto.PrivateKey, opk crypto.PublicKey) {
			s1, _ := sk.Sign(msg, h())
			s2, _ := osk.Sign(msg, h())
			ag, _ := crypto.AggregateBLSSignatures([]crypto.Signature{s1, s2})
			_, _ = crypto.VerifyBLSSignatureOneMessage([]crypto.PublicKey{opk, pk}, ag, msg, h())
			_, _ = crypto.VerifyBLSSignatureManyMessages([]crypto.PublicKey{opk, pk}, ag, [][]byte{msg, msg}, []hash.Hasher{h(), h()})
			_, _ = crypto.BatchVerifyBLSSignaturesOneMessage([]crypto.PublicKey{opk, pk}, []crypto.Signature{s2, s1}, msg, h())
		}},
		{"AggregateBLSPrivateKeys+Equals+Encode", func(sk crypto.PrivateKey, pk crypto.PublicKey, osk crypto.PrivateKey, opk crypto.PublicKey) {
			_, _ = crypto.AggregateBLSPrivateKeys([]crypto.PrivateKey{sk, osk})
			_ = pk.Equals(opk)
			_ = pk.EncodeCompressed()
			_ = sk.Equals(osk)
		}},
	}
	other := new(big.Int).Add(ks[0], big.NewInt(12345))
	type job struct {
		ki, u1, u2 int
		agg        bool
	}
	var jobs []job
	for ki := range ks {
		for u1 := range uses {
			for u2 := -1; u2 < len(uses); u2++ {
				jobs = append(jobs, job{ki, u1, u2, false})
				if ki == 0 {
					jobs = append(jobs, job{ki, u1, u2, true})
				}
			}
		}
	}
	ev.Par(len(jobs), func(ji int) {
		j := jobs[ji]
		k := ks[j.ki]
		rp := replay{Kind: "use", Algo: a.name, Scalars: []string{ev.Hex(b32(k))}}
		defer guard(a, &rp)
		var sk crypto.PrivateKey
		var err error
		if j.agg { // k = (k - 7) + 7 as an aggregated private key
			p1, e1 := crypto.DecodePrivateKey(a.algo, b32(new(big.Int).Mod(new(big.Int).Sub(k, big.NewInt(7)), a.order)))
			p2, e2 := crypto.DecodePrivateKey(a.algo, b32(big.NewInt(7)))
			if e1 != nil || e2 != nil {
				return
			}
			sk, err = crypto.AggregateBLSPrivateKeys([]crypto.PrivateKey{p1, p2})
		} else {
			sk, err = crypto.DecodePrivateKey(a.algo, b32(k))
		}
		osk, err2 := crypto.DecodePrivateKey(a.algo, b32(new(big.Int).Mod(other, a.order)))
		if err != nil || err2 != nil {
			return
		}
		want := refPub(a, k)
		seq := uses[j.u1].name
		uses[j.u1].do(sk, sk.PublicKey(), osk, osk.PublicKey())
		if j.u2 >= 0 {
			seq += ", " + uses[j.u2].name
			uses[j.u2].do(sk, sk.PublicKey(), osk, osk.PublicKey())
		}
		run.Add("evaluations", 1)
		got := sk.PublicKey().Encode()
		if matchAny(got, want) < 0 {
			rp.Expected, rp.Got = ev.Hex(want[0]), ev.Hex(got)
			run.Violation(fmt.Sprintf("pub:%s:changed-by-a-read-only-use:%s", a.name, uses[j.u1].name),
				fmt.Sprintf("after the read-only uses [%s] of the key pair with scalar %x (aggregated=%v), PublicKey().Encode() is no longer scalar x generator", seq, k, j.agg), rp)
		}
		if matchAny(osk.PublicKey().Encode(), refPub(a, new(big.Int).Mod(other, a.order))) < 0 {
			run.Violation(fmt.Sprintf("pub:%s:other-key-changed-by-a-read-only-use:%s", a.name, uses[j.u1].name), fmt.Sprintf("after [%s] the OTHER key pair's PublicKey() changed", seq), rp)
		}
		run.Distinct(fmt.Sprintf("use/%d/%v/%s", j.ki, j.agg, seq))
	})
	run.Set("read_only_use_histories", len(jobs))
}
