package main

import (
	"encoding/hex"
	"fmt"
	"strconv"
	"strings"

	crypto "github.com/onflow/crypto"

	"verif/harness/dkgsys"
)

// A dkgUnit is the single-instance state-space exploration of one real DKG object: breadth
// first over every sequence of API calls (with hostile arguments) up to a depth bound, with
// de-duplication of the real object's state.
type dkgUnit struct {
	Name                     string
	Proto                    dkgsys.Protocol
	N, T, Me, Dealer, Other  int
	Depth                    int
	Actions                  []dkgAction
	seed                     int64
}

type dkgAction struct {
	Fn    string // Start | NextTimeout | End | ForceDisqualify | HandleBroadcastMsg | HandlePrivateMsg
	Class string // input class, e.g. orig=dealer,msg=tag1:size-1
	Hex   string // payload / seed in hex (replay)
	run   func(s crypto.DKGState) error
}

func (a dkgAction) Label() string { return a.Fn + "(" + a.Class + ")" }

type namedMsg struct {
	name string
	data []byte
}

func cat(parts ...[]byte) []byte {
	var o []byte
	for _, p := range parts {
		o = append(o, p...)
	}
	return o
}

func rep(b byte, n int) []byte {
	o := make([]byte, n)
	for i := range o {
		o[i] = b
	}
	return o
}

// honestMessages runs a real honest dealer `from` and records what it sends: the private
// shares, the verification vector and (when the protocol has complaints) its answers.
func honestMessages(p dkgsys.Protocol, n, t, from int, seed []byte) (shares map[int][]byte, vector []byte, answers map[int][]byte, err error) {
	nd, err := dkgsys.NewNode(p, n, t, from, from)
	if err != nil {
		return nil, nil, nil, err
	}
	if err := nd.Inst.Start(seed); err != nil {
		return nil, nil, nil, err
	}
	shares, answers = map[int][]byte{}, map[int][]byte{}
	for _, m := range nd.Rec.Drain() {
		if m.Bcast() {
			vector = m.Data
		} else {
			shares[m.To] = m.Data
		}
	}
	if p != dkgsys.FVSS {
		for j := 0; j < n; j++ {
			if j == from {
				continue
			}
			if err := nd.Inst.HandleBroadcastMsg(j, []byte{2, byte(from)}); err != nil {
				return nil, nil, nil, err
			}
			for _, m := range nd.Rec.Drain() {
				if m.Bcast() && len(m.Data) > 1 && m.Data[0] == 3 {
					answers[j] = m.Data
				}
			}
		}
	}
	if vector == nil || len(shares) != n-1 {
		return nil, nil, nil, fmt.Errorf("honest run of %v did not produce the expected messages", p)
	}
	return
}

func newDKGUnit(p dkgsys.Protocol, role string, me, dealer, other, depth int, runSeed int64) (*dkgUnit, error) {
	const n, t = 3, 1
	u := &dkgUnit{Name: fmt.Sprintf("dkg:%v[%s]", p, role), Proto: p, N: n, T: t, Me: me, Dealer: dealer, Other: other, Depth: depth, seed: runSeed}
	src := dealer // whose real messages are the "valid" ones
	shares, vector, answers, err := honestMessages(p, n, t, src, dkgsys.SeedFor(runSeed, src))
	if err != nil {
		return nil, err
	}
	shareFor := func(j int) []byte { // body (no tag) of the share the honest dealer computed for j
		if s, ok := shares[j]; ok {
			return s[1:]
		}
		for k := 0; k < n; k++ { // the dealer sends nothing to itself: the lowest other well-formed share
			if s, ok := shares[k]; ok {
				return s[1:]
			}
		}
		return nil
	}
	mine, others := shareFor(me), shareFor(other)
	if me == src {
		mine = shareFor(other)
		others = shareFor(3 - me - other)
	}
	vec := vector[1:]
	L := len(vec)
	otherVec := dkgsys.OtherVector(t)
	nonSub := cat(dkgsys.NonSubgroupG2(), vec[96:])
	ansFor := func(j int) []byte {
		if a, ok := answers[j]; ok {
			return a[1:]
		}
		return cat([]byte{byte(j)}, shareFor(j))
	}
	var msgs []namedMsg
	addm := func(name string, data []byte) {
		for _, m := range msgs {
			if string(m.data) == string(data) { // same bytes under two role names (e.g. self = dealer): keep the first
				return
			}
		}
		msgs = append(msgs, namedMsg{name, data})
	}
	addm("empty", []byte{})
	// tag 0: private share, right size 32
	addm("tag0:empty", []byte{0})
	addm("tag0:1B", []byte{0, mine[0]})
	addm("tag0:size-1(31B)", cat([]byte{0}, mine[:31]))
	addm("tag0:valid-share", cat([]byte{0}, mine))
	addm("tag0:share-of-another-participant", cat([]byte{0}, others))
	addm("tag0:ff(32B)", cat([]byte{0}, rep(0xff, 32)))
	addm("tag0:zero(32B)", cat([]byte{0}, rep(0, 32)))
	addm("tag0:size+1(33B)", cat([]byte{0}, mine, []byte{0}))
	// tag 1: verification vector, right size 96*(t+1)
	addm("tag1:empty", []byte{1})
	addm("tag1:1B", []byte{1, vec[0]})
	addm(fmt.Sprintf("tag1:size-1(%dB)", L-1), cat([]byte{1}, vec[:L-1]))
	addm("tag1:valid-vector", cat([]byte{1}, vec))
	addm("tag1:unrelated-valid-vector", cat([]byte{1}, otherVec))
	addm(fmt.Sprintf("tag1:ff(%dB)", L), cat([]byte{1}, rep(0xff, L)))
	addm("tag1:non-subgroup-point", cat([]byte{1}, nonSub))
	addm(fmt.Sprintf("tag1:size+1(%dB)", L+1), cat([]byte{1}, vec, []byte{0}))
	// tag 2: complaint, right size 1
	addm("tag2:empty", []byte{2})
	addm("tag2:complainee=dealer", []byte{2, byte(dealer)})
	addm("tag2:complainee=self", []byte{2, byte(me)})
	addm("tag2:complainee=other", []byte{2, byte(other)})
	addm("tag2:complainee=n", []byte{2, byte(n)})
	addm("tag2:complainee=255", []byte{2, 255})
	addm("tag2:size+1(2B)", []byte{2, byte(dealer), 0})
	// tag 3: complaint answer, right size 33
	addm("tag3:empty", []byte{3})
	addm("tag3:1B", []byte{3, byte(me)})
	addm("tag3:size-1(32B)", cat([]byte{3}, ansFor(me)[:32]))
	addm("tag3:valid-answer-to-self", cat([]byte{3}, ansFor(me)))
	addm("tag3:valid-answer-to-other", cat([]byte{3}, ansFor(other)))
	addm("tag3:self|ff", cat([]byte{3, byte(me)}, rep(0xff, 32)))
	addm("tag3:self|share-of-another", cat([]byte{3, byte(me)}, others))
	addm("tag3:complainer=n", cat([]byte{3, byte(n)}, mine))
	addm("tag3:complainer=255", cat([]byte{3, 255}, mine))
	addm("tag3:size+1(34B)", cat([]byte{3}, ansFor(me), []byte{0}))
	for _, tg := range []byte{4, 255} {
		addm(fmt.Sprintf("tag%d:empty", tg), []byte{tg})
		addm(fmt.Sprintf("tag%d:1B", tg), []byte{tg, 1})
		addm(fmt.Sprintf("tag%d:33B", tg), cat([]byte{tg, byte(me)}, mine))
	}

	act := func(fn, class, hx string, run func(s crypto.DKGState) error) {
		u.Actions = append(u.Actions, dkgAction{Fn: fn, Class: class, Hex: hx, run: run})
	}
	good := dkgsys.SeedFor(runSeed, me)
	for _, sd := range []namedMsg{{"valid(32B)", good}, {"short(31B)", good[:31]}, {"nil", nil}, {"4KiB", rep(7, 4096)}} {
		sd := sd
		act("Start", "seed="+sd.name, hex.EncodeToString(sd.data), func(s crypto.DKGState) error { return s.Start(sd.data) })
	}
	act("NextTimeout", "", "", func(s crypto.DKGState) error { return s.NextTimeout() })
	act("End", "", "", func(s crypto.DKGState) error { _, _, _, err := s.End(); return err })
	seenP := map[int]bool{}
	for _, pv := range []struct {
		name string
		v    int
	}{{"-1", -1}, {"0", 0}, {"dealer", dealer}, {"other", other}, {"self", me}, {"n-1", n - 1}, {"n", n}, {"255", 255}, {"256", 256}} {
		if seenP[pv.v] {
			continue
		}
		seenP[pv.v] = true
		pv := pv
		act("ForceDisqualify", "participant="+pv.name, strconv.Itoa(pv.v), func(s crypto.DKGState) error { return s.ForceDisqualify(pv.v) })
	}
	type org struct {
		name string
		v    int
	}
	orgs := []org{{"dealer", dealer}, {"other", other}, {"self", me}, {"-1", -1}, {"n", n}}
	if dealer == me {
		orgs = []org{{"self(dealer)", me}, {"other", other}, {"-1", -1}, {"n", n}}
	}
	for _, h := range []string{"HandleBroadcastMsg", "HandlePrivateMsg"} {
		for _, o := range orgs {
			for _, m := range msgs {
				h, o, m := h, o, m
				run := func(s crypto.DKGState) error { return s.HandleBroadcastMsg(o.v, m.data) }
				if h == "HandlePrivateMsg" {
					run = func(s crypto.DKGState) error { return s.HandlePrivateMsg(o.v, m.data) }
				}
				act(h, "orig="+o.name+",msg="+m.name, hex.EncodeToString(m.data), run)
			}
		}
	}
	return u, nil
}

func dkgUnits(thorough bool, runSeed int64) ([]*dkgUnit, error) {
	depth := 4
	if thorough {
		depth = 5
	}
	var out []*dkgUnit
	for _, c := range []struct {
		p                 dkgsys.Protocol
		role              string
		me, dealer, other int
	}{
		{dkgsys.FVSS, "non-dealer", 1, 0, 2}, {dkgsys.FVSS, "dealer", 0, 0, 1},
		{dkgsys.FVSSQ, "non-dealer", 1, 0, 2}, {dkgsys.FVSSQ, "dealer", 0, 0, 1},
		{dkgsys.JF, "me=1,peer=0", 1, 0, 2}, {dkgsys.JF, "me=0,peer=1", 0, 1, 2},
	} {
		u, err := newDKGUnit(c.p, c.role, c.me, c.dealer, c.other, depth, runSeed)
		if err != nil {
			return nil, err
		}
		out = append(out, u)
	}
	return out, nil
}

func (u *dkgUnit) root() (*dkgsys.Node, error) {
	return dkgsys.NewNode(u.Proto, u.N, u.T, u.Me, u.Dealer)
}

func pathString(p []int) string {
	s := make([]string, len(p))
	for i, v := range p {
		s[i] = strconv.Itoa(v)
	}
	return strings.Join(s, ".")
}

func parsePath(s string) ([]int, error) {
	if s == "" {
		return nil, nil
	}
	var out []int
	for _, f := range strings.Split(s, ".") {
		v, err := strconv.Atoi(f)
		if err != nil {
			return nil, err
		}
		out = append(out, v)
	}
	return out, nil
}

func (u *dkgUnit) labels(p []int) []string {
	out := make([]string, len(p))
	for i, a := range p {
		out[i] = u.Actions[a].Label()
	}
	return out
}

// replayPath re-executes a call sequence on a fresh instance; it returns the panic text and
// the error of the last call.
func (u *dkgUnit) replayPath(p []int) (pan string, last error, err error) {
	nd, err := u.root()
	if err != nil {
		return "", nil, err
	}
	for i, a := range p {
		var e error
		pn := dkgsys.Safe(func() { e = u.Actions[a].run(nd.Inst) })
		if pn != "" {
			if i == len(p)-1 {
				return pn, nil, nil
			}
			return "", nil, fmt.Errorf("prefix panicked at step %d: %s", i, pn)
		}
		last = e
	}
	return "", last, nil
}

// minimisePath drops every call of the prefix that is not needed for the same failure of the last call.
func (u *dkgUnit) minimisePath(p []int, same func(pan string, last error) bool) []int {
	cur := append([]int{}, p...)
	for changed := true; changed; {
		changed = false
		for i := 0; i < len(cur)-1; i++ {
			try := append(append([]int{}, cur[:i]...), cur[i+1:]...)
			pan, last, err := u.replayPath(try)
			if err == nil && same(pan, last) {
				cur = try
				changed = true
				break
			}
		}
	}
	// canonical representative: every call of the prefix is replaced by the first call of the
	// same function (table order) that preserves the failure, so equivalent prefixes share a key
	for i := 0; i < len(cur)-1; i++ {
		for cand := 0; cand < cur[i]; cand++ {
			if u.Actions[cand].Fn != u.Actions[cur[i]].Fn {
				continue
			}
			try := append([]int{}, cur...)
			try[i] = cand
			pan, last, err := u.replayPath(try)
			if err == nil && same(pan, last) {
				cur = try
				break
			}
		}
	}
	return cur
}

func isSubsequence(small, big []int) bool {
	j := 0
	for _, v := range big {
		if j < len(small) && small[j] == v {
			j++
		}
	}
	return j == len(small)
}

type dkgFinding struct {
	Kind  string   `json:"kind"`
	Key   string   `json:"key"`
	What  string   `json:"what"`
	Path  []int    `json:"path"`
	Calls []string `json:"calls"`
	Hex   []string `json:"args_hex"`
}

// chunkStats is what a worker measured while expanding some states of one unit.
type chunkStats struct {
	Transitions int64            `json:"t"`
	Changed     int64            `json:"c"`
	Outcomes    map[string]int64 `json:"o"`
	PerFn       map[string]int64 `json:"f"`
	Distinct    []string         `json:"d,omitempty"` // new (call, outcome) pairs
}

// dkgWorkerState is kept by a worker across the chunks of one unit.
type dkgWorkerState struct {
	known    map[string][][]int // (action, failure signature) -> minimised paths already reported
	distinct map[string]bool
}

func newDKGWorkerState() *dkgWorkerState {
	return &dkgWorkerState{known: map[string][][]int{}, distinct: map[string]bool{}}
}

// rebuild replays a path on a fresh real instance (the state of the explored object).
func (u *dkgUnit) rebuild(p []int) (*dkgsys.Node, error) {
	nd, err := u.root()
	if err != nil {
		return nil, err
	}
	for i, a := range p {
		pn := dkgsys.Safe(func() { _ = u.Actions[a].run(nd.Inst) })
		if pn != "" {
			return nil, fmt.Errorf("replaying %v: step %d panicked: %s", p, i, pn)
		}
	}
	nd.Rec.Out, nd.Rec.Disq, nd.Rec.Flag, nd.Rec.Logs = nil, nil, nil, nil
	return nd, nil
}

// expand executes every action of the alphabet on the state reached by path. announce is
// called before each library call (crash attribution); emit is called for every transition
// that changed the state of the real object.
func (u *dkgUnit) expand(ws *dkgWorkerState, path []int, skip map[string]bool, st *chunkStats,
	announce func(ai int), emit func(hash [32]byte, ai int), report func(f dkgFinding)) error {
	S, err := u.rebuild(path)
	if err != nil {
		return err
	}
	hS := S.InstHash()
	emit(hS, -1) // the state itself (so that the parent never re-expands it)
	W := S.Clone()
	local := map[[32]byte]bool{}
	for ai := range u.Actions {
		a := &u.Actions[ai]
		full := append(append(make([]int, 0, len(path)+1), path...), ai)
		if len(skip) > 0 && skip[u.Name+"/"+pathString(full)] {
			continue
		}
		announce(ai)
		W.Rec.Out, W.Rec.Disq, W.Rec.Flag, W.Rec.Logs = nil, nil, nil, nil
		var e error
		pan := dkgsys.Safe(func() {
			e = a.run(W.Inst)
			_ = W.Inst.Running()
			_ = W.Inst.Size() + W.Inst.Threshold()
		})
		st.Transitions++
		st.PerFn[a.Fn]++
		outcome := "ok"
		kind, sig := "", ""
		switch {
		case pan != "":
			outcome, kind, sig = "panic", "panic", normPanic(pan)
		case e != nil:
			ec := errClass(e)
			outcome = "err:" + ec
			if ec == "untyped" {
				kind, sig = "untyped-error", "untyped"
			}
		}
		st.Outcomes[a.Fn+":"+outcome]++
		if dk := a.Label() + "|" + outcome; !ws.distinct[dk] {
			ws.distinct[dk] = true
			st.Distinct = append(st.Distinct, dk)
		}
		if kind != "" {
			ck := strconv.Itoa(ai) + "|" + kind + "|" + sig
			dup := false
			for _, k := range ws.known[ck] {
				if isSubsequence(k, full) {
					dup = true
					break
				}
			}
			if !dup {
				min := u.minimisePath(full, func(p2 string, l2 error) bool {
					if kind == "panic" {
						return p2 != "" && normPanic(p2) == sig
					}
					return p2 == "" && l2 != nil && errClass(l2) == "untyped"
				})
				ws.known[ck] = append(ws.known[ck], min)
				lab := u.labels(min)
				key := fmt.Sprintf("%s:%s.%s", kind, strings.TrimPrefix(u.Name, "dkg:"), lab[len(lab)-1])
				if len(lab) > 1 {
					key += ":after:" + strings.Join(lab[:len(lab)-1], ";")
				}
				what := "Go panic: " + pan
				if kind != "panic" {
					what = fmt.Sprintf("error %q satisfies none of the documented error predicates", e.Error())
				}
				var hx []string
				for _, x := range min {
					hx = append(hx, u.Actions[x].Hex)
				}
				report(dkgFinding{Kind: kind, Key: strings.ReplaceAll(key, " ", ""), What: what, Path: min, Calls: lab, Hex: hx})
			}
		}
		if pan != "" {
			W = S.Clone() // the call may have stopped half way
			continue
		}
		if h := W.InstHash(); h != hS {
			st.Changed++
			if !local[h] {
				local[h] = true
				emit(h, ai)
			}
			W = S.Clone()
		}
	}
	return nil
}
