package main

import (
	"fmt"
	"math/big"

	crypto "github.com/onflow/crypto"
	"github.com/onflow/crypto/hash"
)

// fx holds the valid key material every domain is built around. It is a deterministic
// function of VERIF_SEED; the seed changes the bytes, never the classes.
type fx struct {
	seed32, seed32b []byte
	msg             []byte
	tag             string

	blsSK   [3]crypto.PrivateKey
	blsPK   [3]crypto.PublicKey
	blsSig  [3][]byte // signatures of msg by blsSK[i] with kmac()
	blsAgg  []byte    // aggregate of blsSig
	blsPOP  []byte
	zeroSK  crypto.PrivateKey // sk + (r - sk): the identity private key
	idPK    crypto.PublicKey
	p256SK  crypto.PrivateKey
	k1SK    crypto.PrivateKey
	p256SK2 crypto.PrivateKey
	k1SK2   crypto.PrivateKey
	p256Sig []byte
	k1Sig   []byte

	// threshold setting n=3, t=1
	thrSK    []crypto.PrivateKey
	thrPK    []crypto.PublicKey
	thrGroup crypto.PublicKey
	thrShare [3][]byte
	thrSig   []byte

	bigPKs []crypto.PublicKey // 255 public key shares (sizes 254 / 255)
}

var blsOrder, _ = new(big.Int).SetString("73eda753299d7d483339d80809a1d80553bda402fffe5bfeffffffff00000001", 16)

func must[T any](v T, err error) T {
	if err != nil {
		panic(fmt.Sprintf("fixture: %v", err))
	}
	return v
}

func seedBytes(runSeed int64, salt byte, n int) []byte {
	b := make([]byte, n)
	x := uint64(runSeed)*0x9e3779b97f4a7c15 + uint64(salt)*0x100000001b3 + 0x1234567
	for i := range b {
		x ^= x << 13
		x ^= x >> 7
		x ^= x << 17
		b[i] = byte(x >> 24)
	}
	return b
}

func (x *fx) kmac() hash.Hasher { return crypto.NewExpandMsgXOFKMAC128(x.tag) }

func newFx(runSeed int64) *fx {
	x := &fx{tag: "c09-tag"}
	x.seed32 = seedBytes(runSeed, 1, 32)
	x.seed32b = seedBytes(runSeed, 2, 32)
	x.msg = seedBytes(runSeed, 3, 32)
	for i := 0; i < 3; i++ {
		x.blsSK[i] = must(crypto.GeneratePrivateKey(crypto.BLSBLS12381, seedBytes(runSeed, byte(10+i), 32)))
		x.blsPK[i] = x.blsSK[i].PublicKey()
		x.blsSig[i] = must(x.blsSK[i].Sign(x.msg, x.kmac()))
	}
	x.blsAgg = must(crypto.AggregateBLSSignatures([]crypto.Signature{x.blsSig[0], x.blsSig[1], x.blsSig[2]}))
	x.blsPOP = must(crypto.BLSGeneratePOP(x.blsSK[0]))
	neg := new(big.Int).Sub(blsOrder, new(big.Int).SetBytes(x.blsSK[0].Encode()))
	negSK := must(crypto.DecodePrivateKey(crypto.BLSBLS12381, neg.FillBytes(make([]byte, 32))))
	x.zeroSK = must(crypto.AggregateBLSPrivateKeys([]crypto.PrivateKey{x.blsSK[0], negSK}))
	x.idPK = crypto.IdentityBLSPublicKey()
	x.p256SK = must(crypto.GeneratePrivateKey(crypto.ECDSAP256, seedBytes(runSeed, 20, 32)))
	x.p256SK2 = must(crypto.GeneratePrivateKey(crypto.ECDSAP256, seedBytes(runSeed, 21, 32)))
	x.k1SK = must(crypto.GeneratePrivateKey(crypto.ECDSASecp256k1, seedBytes(runSeed, 22, 32)))
	x.k1SK2 = must(crypto.GeneratePrivateKey(crypto.ECDSASecp256k1, seedBytes(runSeed, 23, 32)))
	x.p256Sig = must(x.p256SK.Sign(x.msg, hash.NewSHA3_256()))
	x.k1Sig = must(x.k1SK.Sign(x.msg, hash.NewSHA2_256()))

	sks, pks, g, err := crypto.BLSThresholdKeyGen(3, 1, seedBytes(runSeed, 30, 32))
	if err != nil {
		panic(err)
	}
	x.thrSK, x.thrPK, x.thrGroup = sks, pks, g
	for i := 0; i < 3; i++ {
		x.thrShare[i] = must(sks[i].Sign(x.msg, x.kmac()))
	}
	x.thrSig = must(crypto.BLSReconstructThresholdSignature(3, 1,
		[]crypto.Signature{x.thrShare[0], x.thrShare[1]}, []int{0, 1}))
	_, bigPK, _, err := crypto.BLSThresholdKeyGen(254, 1, seedBytes(runSeed, 31, 32))
	if err != nil {
		panic(err)
	}
	x.bigPKs = append(append([]crypto.PublicKey{}, bigPK...), x.blsPK[0])
	return x
}
