package main

import (
	"fmt"
	"testing"

	"verif/harness/dkgsys"
)

func TestF5(t *testing.T) {
	d, _ := dkgsys.NewNode(dkgsys.FVSS, 3, 1, 0, 0)
	_ = d.Inst.Start(dkgsys.SeedFor(0, 0))
	var share, vec []byte
	for _, m := range d.Rec.Drain() {
		if m.Bcast() {
			vec = m.Data
		} else if m.To == 1 {
			share = m.Data
		}
	}
	n, _ := dkgsys.NewNode(dkgsys.FVSS, 3, 1, 1, 0)
	fmt.Println(n.Inst.Start(nil))
	fmt.Println(n.Inst.HandleBroadcastMsg(0, vec[:len(vec)-1]))
	fmt.Println(n.Rec.Logs)
	p := dkgsys.Safe(func() { fmt.Println(n.Inst.HandlePrivateMsg(0, share)) })
	fmt.Println("panic:", p, n.Rec.Logs)
}
