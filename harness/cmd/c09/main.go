// C09: no exported function panics or corrupts memory on untrusted input.
//
// Fault enumeration under AddressSanitizer (bin/check builds this package with -asan):
//   - a driver table lists every exported function and method of the three packages and is
//     compared with go/parser's view of the current tree (anything without a driver is recorded
//     as `undriven`);
//   - every parameter has a finite domain by role; each function is called on the full cross
//     product of its domains (<= 20000 calls) or on all tuples with <= 2 parameters off a valid
//     baseline; stateful objects are driven after short setup histories;
//   - the DKG objects are explored breadth first (single instance, hostile call sequences,
//     de-duplicated real states);
//   - oracle: no Go panic, no process death, no ASan report, termination, error results satisfy
//     a documented predicate, inputs that are invalid by documented length/range are not
//     reported as success.
//
// Crash isolation: the binary re-executes itself as worker processes. A worker announces each
// case on its stdout before executing it; when a worker dies the parent attributes the death to
// the announced case, re-runs that case alone to confirm and minimise it, and restarts the
// worker after it.
package main

import (
	"bufio"
	"bytes"
	"encoding/json"
	"fmt"
	"io"
	"os"
	"os/exec"
	"runtime"
	"sort"
	"strconv"
	"strings"
	"sync"
	"time"

	"verif/harness/ev"
)

const (
	nWorkers      = 16
	caseWatchdog  = 300 * time.Second // non-termination guard only
	chunkCost     = 400               // cost units per chunk handed to a worker
	maxCrashSpawn = 12                // isolation re-runs per crashing case (confirm + minimise)
)

// ---------------------------------------------------------------------------------------
// universe shared by parent and workers (deterministic in VERIF_SEED and the tier)

type universe struct {
	x     *fx
	fns   []*fn
	dkg   []*dkgUnit
	bound int
}

func buildUniverse(seed int64, thorough bool) (*universe, error) {
	u := &universe{x: newFx(seed), bound: 2}
	if thorough {
		u.bound = 3
	}
	u.fns = buildTable(u.x)
	for _, f := range u.fns {
		f.build(u.bound)
	}
	var err error
	u.dkg, err = dkgUnits(thorough, seed)
	return u, err
}

// ---------------------------------------------------------------------------------------
// worker

type vmsg struct {
	Kind   string `json:"kind"`
	Key    string `json:"key"`
	What   string `json:"what"`
	Replay any    `json:"replay"`
}

func hexArgs(f *fn, idx []int) map[string]any {
	m := map[string]any{}
	for i, p := range f.Params {
		v := p.Vals[idx[i]]
		var shown any
		switch t := v.V.(type) {
		case []byte:
			if len(t) > 300 {
				shown = fmt.Sprintf("%s...(%d bytes)", ev.Hex(t[:64]), len(t))
			} else if t == nil {
				shown = "nil"
			} else {
				shown = ev.Hex(t)
			}
		case [][]byte:
			if t == nil {
				shown = "nil"
			} else {
				var l []string
				for _, b := range t {
					if b == nil {
						l = append(l, "nil")
					} else if len(b) > 300 {
						l = append(l, fmt.Sprintf("%s...(%d bytes)", ev.Hex(b[:48]), len(b)))
					} else {
						l = append(l, ev.Hex(b))
					}
				}
				if len(l) > 6 {
					l = append(l[:6], fmt.Sprintf("... %d elements", len(t)))
				}
				shown = l
			}
		case int, uint64, string, []int:
			shown = t
		case interface{ Encode() []byte }:
			shown = ev.Hex(t.Encode())
		default:
			shown = v.C
		}
		m[p.Name] = map[string]any{"class": v.C, "value": shown}
	}
	return m
}

func workerMain(args []string) {
	thorough := len(args) > 0 && args[0] == "thorough"
	seed, _ := strconv.ParseInt(os.Getenv("VERIF_SEED"), 10, 64)
	out := bufio.NewWriterSize(os.Stdout, 1<<16)
	say := func(format string, a ...any) { fmt.Fprintf(out, format+"\n", a...) }
	u, err := buildUniverse(seed, thorough)
	if err != nil {
		say("H %v", err)
		out.Flush()
		os.Exit(2)
	}
	say("READY")
	out.Flush()
	reported := map[string]bool{}
	dkgWS := map[int]*dkgWorkerState{}
	runFn := func(ui, k int, minimise bool) {
		f := u.fns[ui]
		idx := f.tuples[k]
		say("B %d %s", k, f.caseID(idx))
		out.Flush()
		outcome, fd := f.exec(idx)
		if fd != nil {
			if fd.Kind == "baseline" {
				say("H %s: %s", f.caseID(idx), fd.What)
			} else {
				min := idx
				if minimise {
					min = f.minimise(idx, fd, func(id string) { say("B %d %s", k, id); out.Flush() })
				}
				key := fd.Kind + ":" + f.Name + ":" + f.classKey(min)
				if !reported[key] {
					reported[key] = true
					b, _ := json.Marshal(vmsg{Kind: fd.Kind, Key: key, What: fd.What, Replay: map[string]any{
						"function": f.Name, "case": f.caseID(min), "first_seen_as": f.caseID(idx), "args": hexArgs(f, min)}})
					say("V %s", b)
				} else {
					say("D %s", key)
				}
			}
		}
		say("E %s", outcome)
	}
	in := bufio.NewScanner(os.Stdin)
	in.Buffer(make([]byte, 1<<20), 1<<20)
	for in.Scan() {
		fs := strings.Fields(in.Text())
		if len(fs) == 0 {
			continue
		}
		switch fs[0] {
		case "Q":
			out.Flush()
			return
		case "R": // R <fn> <from> <to>
			ui, _ := strconv.Atoi(fs[1])
			from, _ := strconv.Atoi(fs[2])
			to, _ := strconv.Atoi(fs[3])
			for k := from; k < to; k++ {
				runFn(ui, k, true)
			}
			say("F")
			out.Flush()
		case "X": // X <dkgunit> <skipfile|-> <path>... : expand the states reached by the paths
			ui, _ := strconv.Atoi(fs[1])
			skip := map[string]bool{}
			if fs[2] != "-" {
				if b, err := os.ReadFile(fs[2]); err == nil {
					for _, l := range strings.Split(string(b), "\n") {
						if l != "" {
							skip[l] = true
						}
					}
				}
			}
			d := u.dkg[ui]
			if dkgWS[ui] == nil {
				dkgWS[ui] = newDKGWorkerState()
			}
			st := &chunkStats{Outcomes: map[string]int64{}, PerFn: map[string]int64{}}
			for k, ps := range fs[3:] {
				if ps == "-" {
					ps = ""
				}
				path, _ := parsePath(ps)
				err := d.expand(dkgWS[ui], path, skip, st,
					func(ai int) { say("B %d %d", k, ai); out.Flush() },
					func(h [32]byte, ai int) { say("N %x %d %d", h[:16], k, ai) },
					func(f dkgFinding) {
						b, _ := json.Marshal(vmsg{Kind: f.Kind, Key: f.Key, What: f.What, Replay: map[string]any{
							"unit": d.Name, "n": d.N, "t": d.T, "me": d.Me, "dealer": d.Dealer, "calls": f.Calls, "args_hex": f.Hex, "path": f.Path}})
						say("V %s", b)
					})
				if err != nil {
					say("H %s: %v", d.Name, err)
				}
			}
			b, _ := json.Marshal(st)
			say("S %s", b)
			say("F")
			out.Flush()
		}
	}
}

// oneMain executes a single case in isolation (crash confirmation / minimisation).
//
//	--one <tier> fn <fnIndex> <i0,i1,...>     |    --one <tier> dkg <unit> <path>
func oneMain(args []string) {
	thorough := args[0] == "thorough"
	seed, _ := strconv.ParseInt(os.Getenv("VERIF_SEED"), 10, 64)
	u, err := buildUniverse(seed, thorough)
	if err != nil {
		fmt.Println("H", err)
		os.Exit(2)
	}
	ui, _ := strconv.Atoi(args[2])
	switch args[1] {
	case "fn":
		f := u.fns[ui]
		var idx []int
		for _, s := range strings.Split(args[3], ",") {
			if s != "" {
				v, _ := strconv.Atoi(s)
				idx = append(idx, v)
			}
		}
		fmt.Println("B", f.caseID(idx))
		outcome, fd := f.exec(idx)
		fmt.Println("RESULT", outcome)
		if fd != nil {
			fmt.Printf("FINDING %s: %s\n", fd.Kind, fd.What)
		}
	case "dkg":
		p, _ := parsePath(args[3])
		d := u.dkg[ui]
		fmt.Println("B", strings.Join(d.labels(p), " ; "))
		pan, last, err := d.replayPath(p)
		fmt.Println("RESULT", pan, last, err)
		if pan != "" {
			fmt.Printf("FINDING panic: Go panic: %s\n", pan)
		} else if last != nil && errClass(last) == "untyped" {
			fmt.Printf("FINDING untyped-error: %v\n", last)
		}
	}
}

// ---------------------------------------------------------------------------------------
// parent

type item struct {
	dkg      bool
	unit     int
	from, to int      // table cases
	paths    []string // DKG: states to expand (paths from the initial state)
	level    int
}

type worker struct {
	slot   int
	cmd    *exec.Cmd
	stdin  io.WriteCloser
	lines  *bufio.Scanner
	stderr *capBuf

	mu       sync.Mutex
	busy     bool
	lastLine time.Time
	hung     bool
}

type capBuf struct {
	mu  sync.Mutex
	buf bytes.Buffer
}

func (c *capBuf) Write(p []byte) (int, error) {
	c.mu.Lock()
	if c.buf.Len() < 24<<10 {
		c.buf.Write(p)
	}
	c.mu.Unlock()
	return len(p), nil
}
func (c *capBuf) String() string { c.mu.Lock(); defer c.mu.Unlock(); return c.buf.String() }

// dkgRun is the parent's view of one level-synchronous breadth-first exploration: the states
// of a level are expanded by the workers, the parent de-duplicates the successors by the hash
// of the real object and forms the next level (for each new state the smallest path).
type dkgRun struct {
	level     int
	pending   int
	seen      map[string]bool
	next      map[string]string
	states    int64
	trans     int64
	changed   int64
	perLevel  []int64
	stPerLvl  []int64
	capped    bool
	skip      []string
	outcomes  map[string]int64
	perFn     map[string]int64
	distinct    int
	distinctSet map[string]bool
	completed   int // levels fully expanded
}

type parent struct {
	run      *ev.Run
	u        *universe
	tier     string
	deadline time.Time
	t0       time.Time

	mu          sync.Mutex
	cond        *sync.Cond
	queue       []item
	outstanding int // items handed out and not finished
	calls       map[string]int64
	outcomes    map[string]int64
	vioHits     map[string]int
	vioFirst    map[string]bool
	crashes     int
	dkg         []*dkgRun
	harnessEr   []string
	samples     int
	sampled     map[string]bool
	crashMin    map[string][][]int
	crashMinDKG map[string][][]int
	aborted     bool
}

func (p *parent) spawn(slot int) (*worker, error) {
	cmd := exec.Command(os.Args[0], "--worker", p.tier)
	cmd.Env = append(os.Environ(), "ASAN_OPTIONS=detect_leaks=0:abort_on_error=0:allocator_may_return_null=1", "GOTRACEBACK=single")
	stdin, err := cmd.StdinPipe()
	if err != nil {
		return nil, err
	}
	stdout, err := cmd.StdoutPipe()
	if err != nil {
		return nil, err
	}
	w := &worker{slot: slot, cmd: cmd, stdin: stdin, stderr: &capBuf{}}
	cmd.Stderr = w.stderr
	if err := cmd.Start(); err != nil {
		return nil, err
	}
	w.lines = bufio.NewScanner(stdout)
	w.lines.Buffer(make([]byte, 1<<22), 1<<22)
	w.touch()
	for w.lines.Scan() { // wait for READY (valid fixtures built)
		l := w.lines.Text()
		if l == "READY" {
			return w, nil
		}
		if strings.HasPrefix(l, "H ") {
			return nil, fmt.Errorf("worker start-up: %s", l[2:])
		}
	}
	_ = cmd.Wait()
	return nil, fmt.Errorf("worker died during start-up (building valid fixtures): %s", tail(w.stderr.String(), 2000))
}

func (w *worker) touch() { w.mu.Lock(); w.lastLine = time.Now(); w.mu.Unlock() }

func tail(s string, n int) string {
	if len(s) <= n {
		return s
	}
	return s[:n/2] + "\n...\n" + s[len(s)-n/2:]
}

// take blocks until an item is available or all work is finished.
func (p *parent) take() (item, bool) {
	p.mu.Lock()
	defer p.mu.Unlock()
	for {
		if p.aborted {
			return item{}, false
		}
		if len(p.queue) > 0 {
			it := p.queue[0]
			p.queue = p.queue[1:]
			p.outstanding++
			return it, true
		}
		if p.outstanding == 0 {
			return item{}, false
		}
		p.cond.Wait()
	}
}

func (p *parent) done() {
	p.mu.Lock()
	p.outstanding--
	p.mu.Unlock()
	p.cond.Broadcast()
}

func (p *parent) abort(msg string) {
	p.mu.Lock()
	p.harnessEr = append(p.harnessEr, msg)
	p.aborted = true
	p.mu.Unlock()
	p.cond.Broadcast()
}

func (p *parent) pushFront(its ...item) {
	p.mu.Lock()
	p.queue = append(append([]item{}, its...), p.queue...)
	p.mu.Unlock()
	p.cond.Broadcast()
}

func (p *parent) violation(v vmsg) {
	p.mu.Lock()
	p.vioHits[v.Key]++
	first := !p.vioFirst[v.Key]
	p.vioFirst[v.Key] = true
	p.mu.Unlock()
	if first {
		p.run.Violation(v.Key, v.What, v.Replay)
	}
}

// isolate re-runs one case alone; it reports whether the process died and its stderr.
func (p *parent) isolate(args ...string) (died bool, stderr string) {
	cmd := exec.Command(os.Args[0], append([]string{"--one", p.tier}, args...)...)
	cmd.Env = append(os.Environ(), "ASAN_OPTIONS=detect_leaks=0:abort_on_error=0", "GOTRACEBACK=single")
	var eb capBuf
	cmd.Stderr = &eb
	cmd.Stdout = io.Discard
	done := make(chan error, 1)
	if err := cmd.Start(); err != nil {
		return false, err.Error()
	}
	go func() { done <- cmd.Wait() }()
	select {
	case err := <-done:
		return err != nil, eb.String()
	case <-time.After(caseWatchdog):
		_ = cmd.Process.Kill()
		<-done
		return true, "killed by the 300 s non-termination guard\n" + eb.String()
	}
}

func idxString(idx []int) string {
	s := make([]string, len(idx))
	for i, v := range idx {
		s[i] = strconv.Itoa(v)
	}
	return strings.Join(s, ",")
}

// deathSummary extracts the one line that characterises why a process died.
func deathSummary(stderr string) string {
	lines := strings.Split(stderr, "\n")
	for _, l := range lines {
		if strings.HasPrefix(l, "SUMMARY:") {
			f := strings.Fields(l)
			if len(f) >= 3 { // SUMMARY: AddressSanitizer: <kind> <location> in <function>
				s := strings.Join(f[:3], " ")
				if i := strings.LastIndex(l, " in "); i >= 0 {
					s += l[i:]
				}
				return s
			}
			return strings.TrimSpace(l)
		}
	}
	for _, l := range lines {
		if strings.Contains(l, "ERROR: AddressSanitizer") || strings.HasPrefix(l, "fatal error:") || strings.HasPrefix(l, "SIG") || strings.Contains(l, "signal ") {
			return strings.TrimSpace(l)
		}
	}
	return "process died"
}

// crashFn handles the death of a worker during table case (unit, k).
func (p *parent) crashFn(ui, k int, announced, stderr string, hung bool) {
	f := p.u.fns[ui]
	idx := f.tuples[k]
	kind := "crash"
	if hung {
		kind = "hang"
	}
	// a crash already minimised for this function whose off-baseline values all occur in this
	// tuple is the same defect: count it, do not re-run it
	p.mu.Lock()
	for _, m := range p.crashMin[f.Name] {
		same := true
		for i, pr := range f.Params {
			if m[i] != pr.Base && m[i] != idx[i] {
				same = false
			}
		}
		if same && !hung {
			p.vioHits["crash:"+f.Name+":"+f.classKey(m)]++
			p.mu.Unlock()
			return
		}
	}
	p.mu.Unlock()
	spawns := 0
	confirmed, cstderr := false, ""
	if !hung {
		confirmed, cstderr = p.isolate("fn", strconv.Itoa(ui), idxString(idx))
		spawns++
	}
	min := append([]int{}, idx...)
	if confirmed {
		for changed := true; changed && spawns < maxCrashSpawn; {
			changed = false
			for i, pr := range f.Params {
				if min[i] == pr.Base || spawns >= maxCrashSpawn {
					continue
				}
				try := append([]int{}, min...)
				try[i] = pr.Base
				d, se := p.isolate("fn", strconv.Itoa(ui), idxString(try))
				spawns++
				if d && deathSummary(se) == deathSummary(cstderr) {
					min, changed = try, true
				}
			}
		}
		stderr = cstderr
	}
	if confirmed {
		p.mu.Lock()
		p.crashMin[f.Name] = append(p.crashMin[f.Name], min)
		p.mu.Unlock()
	}
	key := kind + ":" + f.Name + ":" + f.classKey(min)
	what := fmt.Sprintf("worker process died while executing this case (%s); reproduced in isolation: %v", deathSummary(stderr), confirmed)
	if hung {
		what = "case did not terminate within the 300 s guard"
	}
	p.violation(vmsg{Kind: kind, Key: key, What: what, Replay: map[string]any{
		"function": f.Name, "case": f.caseID(min), "first_seen_as": f.caseID(idx), "announced": announced,
		"args": hexArgs(f, min), "reproduced_in_isolation": confirmed, "stderr": tail(stderr, 6000)}})
}

func (p *parent) crashDKG(ui int, path []int, stderr string, hung bool) {
	d := p.u.dkg[ui]
	kind := "crash"
	if hung {
		kind = "hang"
	}
	p.mu.Lock()
	for _, m := range p.crashMinDKG[d.Name] {
		if isSubsequence(m, path) && !hung {
			p.vioHits["crash-duplicate:"+d.Name]++
			p.mu.Unlock()
			return
		}
	}
	p.mu.Unlock()
	confirmed, cstderr := false, ""
	spawns := 0
	if !hung {
		confirmed, cstderr = p.isolate("dkg", strconv.Itoa(ui), pathString(path))
		spawns++
	}
	min := append([]int{}, path...)
	if confirmed {
		for changed := true; changed && spawns < maxCrashSpawn; {
			changed = false
			for i := 0; i < len(min)-1 && spawns < maxCrashSpawn; i++ {
				try := append(append([]int{}, min[:i]...), min[i+1:]...)
				dd, se := p.isolate("dkg", strconv.Itoa(ui), pathString(try))
				spawns++
				if dd && deathSummary(se) == deathSummary(cstderr) {
					min, changed = try, true
					break
				}
			}
		}
		stderr = cstderr
	}
	if confirmed {
		p.mu.Lock()
		p.crashMinDKG[d.Name] = append(p.crashMinDKG[d.Name], min)
		p.mu.Unlock()
	}
	lab := d.labels(min)
	key := fmt.Sprintf("%s:%s.%s", kind, strings.TrimPrefix(d.Name, "dkg:"), lab[len(lab)-1])
	if len(lab) > 1 {
		key += ":after:" + strings.Join(lab[:len(lab)-1], ";")
	}
	var hx []string
	for _, a := range min {
		hx = append(hx, d.Actions[a].Hex)
	}
	what := fmt.Sprintf("worker process died during this DKG call sequence (%s); reproduced in isolation: %v", deathSummary(stderr), confirmed)
	if hung {
		what = "DKG call did not terminate within the 300 s guard"
	}
	p.violation(vmsg{Kind: kind, Key: strings.ReplaceAll(key, " ", ""), What: what, Replay: map[string]any{
		"unit": d.Name, "n": d.N, "t": d.T, "me": d.Me, "dealer": d.Dealer, "calls": lab, "args_hex": hx, "path": min,
		"first_seen_path": path, "reproduced_in_isolation": confirmed, "stderr": tail(stderr, 6000)}})
}

const dkgChunkStates = 6

// startLevel queues the expansion of a level (called with p.mu held).
func (p *parent) startLevelLocked(ui int, frontier []string) {
	r := p.dkg[ui]
	var its []item
	for a := 0; a < len(frontier); a += dkgChunkStates {
		b := a + dkgChunkStates
		if b > len(frontier) {
			b = len(frontier)
		}
		its = append(its, item{dkg: true, unit: ui, paths: frontier[a:b], level: r.level})
	}
	r.pending = len(its)
	r.stPerLvl = append(r.stPerLvl, int64(len(frontier)))
	r.perLevel = append(r.perLevel, 0)
	p.queue = append(its, p.queue...)
}

func pathLess(a, b string) bool {
	pa, _ := parsePath(a)
	pb, _ := parsePath(b)
	for i := 0; i < len(pa) && i < len(pb); i++ {
		if pa[i] != pb[i] {
			return pa[i] < pb[i]
		}
	}
	return len(pa) < len(pb)
}

// chunkDone merges the result of one DKG chunk and, when the level is complete, forms the next.
func (p *parent) chunkDone(it item, succ map[string]string, st *chunkStats, requeue *item) {
	p.mu.Lock()
	r := p.dkg[it.unit]
	if st != nil {
		r.trans += st.Transitions
		r.changed += st.Changed
		r.perLevel[it.level] += st.Transitions
		for k, v := range st.Outcomes {
			r.outcomes[k] += v
		}
		for k, v := range st.PerFn {
			r.perFn[k] += v
		}
		for _, d := range st.Distinct {
			p.run.Distinct(p.u.dkg[it.unit].Name + "|" + d)
			if !r.distinctSet[d] {
				r.distinctSet[d] = true
				r.distinct++
			}
		}
	}
	for h, path := range succ {
		if r.seen[h] {
			continue
		}
		if old, ok := r.next[h]; !ok || pathLess(path, old) {
			r.next[h] = path
		}
	}
	if requeue != nil {
		p.queue = append([]item{*requeue}, p.queue...)
	} else {
		r.pending--
		if r.pending == 0 {
			r.completed = r.level + 1
			var frontier []string
			for h, path := range r.next {
				r.seen[h] = true
				frontier = append(frontier, path)
			}
			r.states += int64(len(frontier))
			r.next = map[string]string{}
			sort.Slice(frontier, func(i, j int) bool { return pathLess(frontier[i], frontier[j]) })
			r.level++
			if os.Getenv("C09_DEBUG") != "" {
				fmt.Fprintf(os.Stderr, "[%6.1fs] %s level %d done, next frontier %d, queue %d\n", time.Since(p.t0).Seconds(), p.u.dkg[it.unit].Name, r.level, len(frontier), len(p.queue))
			}
			if r.level < p.u.dkg[it.unit].Depth && len(frontier) > 0 {
				if time.Now().After(p.deadline) {
					r.capped = true
				} else {
					p.startLevelLocked(it.unit, frontier)
				}
			}
		}
	}
	p.mu.Unlock()
	p.cond.Broadcast()
}

// serve runs one worker slot until all work is finished.
func (p *parent) serve(slot int, wg *sync.WaitGroup, ws []*worker, wsMu *sync.Mutex) {
	defer wg.Done()
	var w *worker
	defer func() {
		if w != nil {
			fmt.Fprintln(w.stdin, "Q")
			_ = w.stdin.Close()
			_ = w.cmd.Wait()
		}
		wsMu.Lock()
		ws[slot] = nil
		wsMu.Unlock()
	}()
	for {
		it, ok := p.take()
		if !ok {
			return
		}
		if time.Now().After(p.deadline) {
			p.run.MarkCapped()
			if it.dkg {
				p.mu.Lock()
				p.dkg[it.unit].capped = true
				p.mu.Unlock()
				p.chunkDone(it, nil, nil, nil)
			}
			p.done()
			continue
		}
		if w == nil {
			var err error
			w, err = p.spawn(slot)
			if err != nil {
				p.done()
				p.abort(err.Error())
				return
			}
			wsMu.Lock()
			ws[slot] = w
			wsMu.Unlock()
		}
		skipFile := "-"
		if it.dkg {
			p.mu.Lock()
			sk := append([]string{}, p.dkg[it.unit].skip...)
			p.mu.Unlock()
			if len(sk) > 0 {
				skipFile = fmt.Sprintf("%s/c09-skip-%d-%d-%d", os.TempDir(), os.Getpid(), slot, it.unit)
				_ = os.WriteFile(skipFile, []byte(strings.Join(sk, "\n")+"\n"), 0o600)
			}
			ps := make([]string, len(it.paths))
			for i, s := range it.paths {
				ps[i] = s
				if s == "" {
					ps[i] = "-"
				}
			}
			fmt.Fprintf(w.stdin, "X %d %s %s\n", it.unit, skipFile, strings.Join(ps, " "))
		} else {
			fmt.Fprintf(w.stdin, "R %d %d %d\n", it.unit, it.from, it.to)
		}
		w.mu.Lock()
		w.busy = true
		w.lastLine = time.Now()
		w.mu.Unlock()
		curK, curA, curID := -1, -1, ""
		inCase := false
		baseK := -1
		finished := false
		var localCalls int64
		localOut := map[string]int64{}
		succ := map[string]string{}
		var selfs []string
		var cst *chunkStats
		var f *fn
		if !it.dkg {
			f = p.u.fns[it.unit]
		}
		for w.lines.Scan() {
			l := w.lines.Text()
			w.touch()
			if len(l) < 1 {
				continue
			}
			switch l[0] {
			case 'B':
				sp := strings.IndexByte(l[2:], ' ')
				curK, _ = strconv.Atoi(l[2 : 2+sp])
				inCase = true
				if it.dkg {
					curA, _ = strconv.Atoi(l[3+sp:])
				} else {
					curID = l[3+sp:]
					if curK != baseK {
						baseK = curK
						if !f.isBase(f.tuples[curK]) {
							p.run.Distinct(curID)
						}
					}
				}
			case 'E':
				localCalls++
				localOut[l[2:]]++
				p.mu.Lock()
				if p.samples < 8 && curK > 0 && curK%7 == 3 && !p.sampled[f.Name] {
					p.samples++
					p.sampled[f.Name] = true
					p.mu.Unlock()
					p.run.Sample(map[string]any{"case": f.caseID(f.tuples[curK]), "outcome": l[2:], "args": hexArgs(f, f.tuples[curK])})
				} else {
					p.mu.Unlock()
				}
				inCase = false
			case 'N': // N <hash> <k> <ai>
				fs := strings.Fields(l)
				if len(fs) == 4 {
					k, _ := strconv.Atoi(fs[2])
					if fs[3] == "-1" {
						selfs = append(selfs, fs[1])
						continue
					}
					base := it.paths[k]
					if base != "" {
						base += "."
					}
					np := base + fs[3]
					if old, ok := succ[fs[1]]; !ok || pathLess(np, old) {
						succ[fs[1]] = np
					}
				}
			case 'V':
				var v vmsg
				if err := json.Unmarshal([]byte(l[2:]), &v); err == nil {
					p.violation(v)
				}
			case 'D':
				p.mu.Lock()
				p.vioHits[l[2:]]++
				p.mu.Unlock()
			case 'H':
				p.abort(l[2:])
			case 'S':
				var st chunkStats
				if err := json.Unmarshal([]byte(l[2:]), &st); err == nil {
					cst = &st
				}
			case 'F':
				finished = true
			}
			if finished {
				break
			}
		}
		w.mu.Lock()
		w.busy = false
		hung := w.hung
		w.mu.Unlock()
		if !it.dkg {
			p.mu.Lock()
			p.calls[f.Name] += localCalls
			for k, v := range localOut {
				p.outcomes[k] += v
			}
			p.mu.Unlock()
		}
		if skipFile != "-" {
			_ = os.Remove(skipFile)
		}
		if it.dkg {
			p.mu.Lock()
			for _, h := range selfs {
				p.dkg[it.unit].seen[h] = true
				delete(p.dkg[it.unit].next, h)
			}
			p.mu.Unlock()
		}
		if finished {
			if os.Getenv("C09_DEBUG") != "" && !it.dkg && it.to == len(f.tuples) {
				fmt.Fprintf(os.Stderr, "[%6.1fs] table %s last chunk done\n", time.Since(p.t0).Seconds(), f.Name)
			}
			if it.dkg {
				p.chunkDone(it, succ, cst, nil)
			}
			p.done()
			continue
		}
		// the worker died (or was killed by the watchdog) before finishing the item
		_ = w.cmd.Wait()
		stderr := w.stderr.String()
		w = nil
		p.mu.Lock()
		p.crashes++
		tooMany := p.crashes > 300
		p.mu.Unlock()
		if !inCase || tooMany {
			if it.dkg {
				p.chunkDone(it, succ, nil, nil)
			}
			p.done()
			if tooMany {
				p.abort("more than 300 worker deaths: giving up")
			} else {
				p.abort(fmt.Sprintf("worker died outside any announced case (item %+v): %s", it, tail(stderr, 1500)))
			}
			return
		}
		if it.dkg {
			base, _ := parsePath(it.paths[curK])
			full := append(base, curA)
			p.crashDKG(it.unit, full, stderr, hung)
			p.mu.Lock()
			p.dkg[it.unit].skip = append(p.dkg[it.unit].skip, p.u.dkg[it.unit].Name+"/"+pathString(full))
			p.mu.Unlock()
			rest := item{dkg: true, unit: it.unit, paths: it.paths[curK:], level: it.level}
			p.chunkDone(it, succ, nil, &rest)
		} else {
			p.crashFn(it.unit, curK, curID, stderr, hung)
			if curK+1 < it.to {
				p.pushFront(item{unit: it.unit, from: curK + 1, to: it.to})
			}
		}
		p.done()
	}
}

func parentMain() {
	run := ev.Start("C09", "fault_enumeration")
	if run.Replay != "" {
		replayMain(run)
		return
	}
	budget := 140 * time.Second
	tier := "quick"
	if run.Thorough() {
		tier = "thorough"
		budget = 8 * time.Minute
	}
	run.Budget(budget, budget)
	repo := os.Getenv("VERIF_REPO_DIR")
	if repo == "" {
		repo = "/repo"
	}
	exp, skippedFiles, err := listExported(repo)
	if err != nil {
		run.Fatal("cannot parse %s: %v", repo, err)
	}
	u, err := buildUniverse(run.Seed, run.Thorough())
	if err != nil {
		run.Fatal("cannot build the case universe: %v", err)
	}
	p := &parent{run: run, u: u, tier: tier, deadline: time.Now().Add(budget), calls: map[string]int64{}, outcomes: map[string]int64{},
		vioHits: map[string]int{}, vioFirst: map[string]bool{}, sampled: map[string]bool{},
		crashMin: map[string][][]int{}, crashMinDKG: map[string][][]int{}}
	p.cond = sync.NewCond(&p.mu)
	p.t0 = time.Now()

	// driver table vs. the current tree
	covered := map[string]string{}
	for _, f := range u.fns {
		for _, c := range f.Covers {
			if c != "" {
				covered[c] = f.Name
			}
		}
	}
	dkgCov := map[string][]string{
		"FeldmanVSS":     {"crypto.(*feldmanVSSstate).Start", "crypto.(*feldmanVSSstate).End", "crypto.(*feldmanVSSstate).HandleBroadcastMsg", "crypto.(*feldmanVSSstate).HandlePrivateMsg", "crypto.(*feldmanVSSstate).ForceDisqualify", "crypto.(*dkgCommon).Running", "crypto.(*dkgCommon).Size", "crypto.(*dkgCommon).Threshold", "crypto.(*dkgCommon).NextTimeout"},
		"FeldmanVSSQual": {"crypto.(*feldmanVSSQualState).NextTimeout", "crypto.(*feldmanVSSQualState).End", "crypto.(*feldmanVSSQualState).HandleBroadcastMsg", "crypto.(*feldmanVSSQualState).HandlePrivateMsg", "crypto.(*feldmanVSSQualState).ForceDisqualify"},
		"JointFeldman":   {"crypto.(*JointFeldmanState).Start", "crypto.(*JointFeldmanState).NextTimeout", "crypto.(*JointFeldmanState).End", "crypto.(*JointFeldmanState).HandleBroadcastMsg", "crypto.(*JointFeldmanState).HandlePrivateMsg", "crypto.(*JointFeldmanState).Running", "crypto.(*JointFeldmanState).ForceDisqualify"},
	}
	for _, d := range u.dkg {
		for _, c := range dkgCov[d.Proto.String()] {
			covered[c] = "state-space " + d.Proto.String()
		}
	}
	undriven, excluded, driven := []string{}, []string{}, []string{}
	seenExp := map[string]bool{}
	for _, e := range exp {
		seenExp[e.Name] = true
		switch {
		case e.TestOnly:
			excluded = append(excluded, fmt.Sprintf("%s (%s:%d, test helper taking *testing.T)", e.Name, e.File, e.Line))
		case covered[e.Name] != "":
			driven = append(driven, e.Name)
		default:
			undriven = append(undriven, fmt.Sprintf("%s (%s:%d)", e.Name, e.File, e.Line))
		}
	}
	stale := []string{}
	for c := range covered {
		if !seenExp[c] {
			stale = append(stale, c)
		}
	}
	sort.Strings(stale)
	run.Set("exported_functions_in_tree", len(exp))
	run.Set("driven", len(driven))
	run.Set("undriven", undriven)
	run.Set("excluded", excluded)
	run.Set("drivers_without_function_in_tree", stale)
	run.Set("files_skipped_by_build_constraints", skippedFiles)

	// work queue: the table in chunks (costly functions first); DKG levels are pushed in front
	var total int64
	modes := map[string]string{}
	planned := map[string]int{}
	order := make([]int, len(u.fns))
	for i := range order {
		order[i] = i
	}
	sort.SliceStable(order, func(a, b int) bool { return u.fns[order[a]].Cost > u.fns[order[b]].Cost })
	for _, i := range order {
		f := u.fns[i]
		modes[f.Name] = f.mode
		planned[f.Name] = len(f.tuples)
		total += int64(len(f.tuples))
		c := f.Cost
		if c < 1 {
			c = 1
		}
		step := chunkCost / c
		if step < 10 {
			step = 10
		}
		for a := 0; a < len(f.tuples); a += step {
			b := a + step
			if b > len(f.tuples) {
				b = len(f.tuples)
			}
			p.queue = append(p.queue, item{unit: i, from: a, to: b})
		}
	}
	for i := range u.dkg {
		p.dkg = append(p.dkg, &dkgRun{distinctSet: map[string]bool{}, seen: map[string]bool{}, next: map[string]string{}, outcomes: map[string]int64{}, perFn: map[string]int64{}, states: 1})
		p.startLevelLocked(i, []string{""})
	}
	fmt.Printf("C09 %s: %d table functions, %d planned table cases, %d DKG units (depth %d, %d actions per state), %d exported functions in tree (%d undriven)\n",
		tier, len(u.fns), total, len(u.dkg), u.dkg[0].Depth, len(u.dkg[0].Actions), len(exp), len(undriven))

	n := nWorkers
	if c := runtime.NumCPU(); c < n {
		n = c
	}
	ws := make([]*worker, n)
	var wsMu sync.Mutex
	stopWatch := make(chan struct{})
	go func() { // non-termination guard
		t := time.NewTicker(5 * time.Second)
		defer t.Stop()
		for {
			select {
			case <-stopWatch:
				return
			case <-t.C:
				wsMu.Lock()
				for _, w := range ws {
					if w == nil {
						continue
					}
					w.mu.Lock()
					if w.busy && time.Since(w.lastLine) > caseWatchdog {
						w.hung = true
						_ = w.cmd.Process.Kill()
					}
					w.mu.Unlock()
				}
				wsMu.Unlock()
			}
		}
	}()
	var wg sync.WaitGroup
	for s := 0; s < n; s++ {
		wg.Add(1)
		go p.serve(s, &wg, ws, &wsMu)
	}
	wg.Wait()
	close(stopWatch)
	if len(p.harnessEr) > 0 {
		run.Fatal("%s", strings.Join(p.harnessEr, " | "))
	}

	// evidence
	var evals int64
	perFn := map[string]int64{}
	for k, v := range p.calls {
		perFn[k] = v
		evals += v
	}
	var states, trans int64
	dkgSummary := map[string]any{}
	for i, r := range p.dkg {
		name := u.dkg[i].Name
		states += r.states
		trans += r.trans
		evals += r.trans
		for fnn, c := range r.perFn {
			perFn[name+"."+fnn] = c
		}
		for k, v := range r.outcomes {
			p.outcomes["dkg:"+k] += v
		}
		if r.capped || r.completed < u.dkg[i].Depth && r.pending > 0 {
			run.MarkCapped()
		}
		dkgSummary[name] = map[string]any{"states": r.states, "transitions": r.trans, "state_changing_transitions": r.changed,
			"states_expanded_per_level": r.stPerLvl, "transitions_per_level": r.perLevel, "levels_completed": r.completed,
			"capped": r.capped, "transitions_skipped_after_worker_death": len(r.skip), "distinct_call_outcome_pairs": r.distinct}
	}
	for name, pl := range planned {
		if perFn[name] < int64(pl) {
			run.MarkCapped()
		}
	}
	run.Add("evaluations", evals)
	run.Add("states", states)
	run.Add("transitions", trans)
	run.Set("per_function_calls", perFn)
	run.Set("per_function_enumeration", modes)
	run.Set("per_function_planned_cases", planned)
	run.Set("dkg_state_space", dkgSummary)
	run.Set("outcome_histogram", p.outcomes)
	run.Set("distinct_outcomes", len(p.outcomes))
	run.Set("worker_deaths", p.crashes)
	run.Set("violation_key_hits", p.vioHits)
	run.Set("workers", n)
	run.Set("dkg_alphabet", map[string]any{"n": 3, "t": 1, "depth": u.dkg[0].Depth, "actions_per_state": len(u.dkg[0].Actions),
		"action_classes": actionClasses(u.dkg[2])})
	run.Set("rule", "driver table over every exported function/method of crypto, hash and random (checked against go/parser's list of the current tree); per parameter a finite domain by role "+
		"(byte slices: nil, empty, 1 byte, valid-1, valid, valid+1, 4 KiB, all-0xff of valid length, plus role-specific values; ints: -2^63, -1, 0, 1, boundaries +-1, 255, 256, 2^31 (linear-memory sizes capped at 2^16); "+
		"enums: -1, 0, each valid, max+1, 2^31; lists: nil, empty, [nil element], mismatched lengths, wrong key type, valid); each function called on the full cross product when <= 20000 tuples, else on every tuple with <= "+
		strconv.Itoa(u.bound)+" parameters off the valid baseline; stateful objects (threshold inspector/participant, hashers, PRG) additionally after each setup history; DKG: level-synchronous BFS over all call sequences of one real instance up to the depth bound, "+
		"successor states de-duplicated by a hash of every field of the real object, 3 protocols x 2 roles. A case is distinct/non-trivial = a (function, input-class tuple) that is not the all-valid baseline; for DKG a (call, outcome) pair. "+
		"Oracle: no recovered Go panic, no worker death/ASan report, termination, error satisfies a documented predicate (plain error for hash/random), documented-invalid length/range not reported as success.")
	run.Assume("the C layer is instrumented by -asan (gcc); Go heap redzones make C over-reads of Go buffers visible; inputs are heap allocated",
		"nil interface / nil callback arguments, UintN(0), linear-memory sizes above 2^16 and no-cgo builds are documented exceptions and are not passed",
		"random: avoiding the cycling of the 2^38-byte ChaCha20 keystream is documented as the caller's responsibility (random/chacha20.go header): restored PRG states that are read from use counters below 2^38-2^22 (all-0xff seed/nonce bytes, bounded counter); crafted counters at or beyond the period are passed to RestoreChacha20PRG only, never read from",
		"methods promoted from embedded standard-library types (hash.Hash, sha3.ShakeHash) that are not part of hash.Hasher are outside the three packages' declared API",
		"DKG state de-duplication hashes every field of the real instance (dkgsys.InstHash); states are rebuilt in the workers by replaying their path")
	run.Finish()
}

// replayMain re-executes the case stored in a replay file in an isolated child process.
func replayMain(run *ev.Run) {
	b, err := os.ReadFile(run.Replay)
	if err != nil {
		run.Fatal("cannot read %s: %v", run.Replay, err)
	}
	var rf struct {
		Key    string `json:"key"`
		Replay struct {
			Function string `json:"function"`
			Case     string `json:"case"`
			Unit     string `json:"unit"`
			Path     []int  `json:"path"`
		} `json:"replay"`
	}
	if err := json.Unmarshal(b, &rf); err != nil {
		run.Fatal("cannot parse %s: %v", run.Replay, err)
	}
	tier := "quick"
	if run.Thorough() {
		tier = "thorough"
	}
	u, err := buildUniverse(run.Seed, run.Thorough())
	if err != nil {
		run.Fatal("%v", err)
	}
	var args []string
	if rf.Replay.Unit != "" {
		for i, d := range u.dkg {
			if d.Name == rf.Replay.Unit {
				args = []string{"dkg", strconv.Itoa(i), pathString(rf.Replay.Path)}
			}
		}
	} else {
		for i, f := range u.fns {
			if f.Name != rf.Replay.Function {
				continue
			}
			for _, idx := range f.tuples {
				if f.caseID(idx) == rf.Replay.Case {
					args = []string{"fn", strconv.Itoa(i), idxString(idx)}
					break
				}
			}
		}
	}
	if args == nil {
		run.Fatal("the case of %s is not part of the %s universe of the current tree", run.Replay, tier)
	}
	cmd := exec.Command(os.Args[0], append([]string{"--one", tier}, args...)...)
	cmd.Env = append(os.Environ(), "ASAN_OPTIONS=detect_leaks=0:abort_on_error=0", "GOTRACEBACK=single")
	out, err := cmd.CombinedOutput()
	fmt.Print(tail(string(out), 6000))
	run.Add("evaluations", 1)
	run.Set("rule", "replay of one stored case in an isolated process")
	switch {
	case err != nil:
		run.Violation(rf.Key, "replayed case killed the process: "+deathSummary(string(out)), nil)
	case strings.Contains(string(out), "\nFINDING "):
		run.Violation(rf.Key, "replayed case reproduces the finding", nil)
	default:
		fmt.Println("replayed case does not fail on the current tree")
	}
	run.Finish()
}

func actionClasses(d *dkgUnit) []string {
	seen := map[string]bool{}
	var out []string
	for _, a := range d.Actions {
		c := a.Fn + "(" + a.Class + ")"
		if i := strings.Index(c, "orig="); i >= 0 { // list message classes once
			j := strings.Index(c, ",msg=")
			c = a.Fn + "(orig=*," + c[j+1:]
		}
		if !seen[c] {
			seen[c] = true
			out = append(out, c)
		}
	}
	return out
}

func main() {
	if len(os.Args) > 1 && os.Args[1] == "--worker" {
		workerMain(os.Args[2:])
		return
	}
	if len(os.Args) > 1 && os.Args[1] == "--one" {
		oneMain(os.Args[2:])
		return
	}
	parentMain()
}
