package main

import (
	"fmt"

	crypto "github.com/onflow/crypto"
)

func main() {
	seed := make([]byte, 32)
	sk, _ := crypto.GeneratePrivateKey(crypto.BLSBLS12381, seed)
	h := crypto.NewExpandMsgXOFKMAC128("x")
	s0, _ := sk.Sign([]byte("m"), h)
	one := make([]byte, 1)
	one[0] = s0[0]
	r, err := sk.PublicKey().Verify(one, []byte("m"), h)
	fmt.Println(r, err)
}
