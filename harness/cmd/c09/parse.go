package main

import (
	"bufio"
	"fmt"
	"go/ast"
	"go/build/constraint"
	"go/parser"
	"go/token"
	"os"
	"path/filepath"
	"sort"
	"strings"
)

// exported is one exported function or method found in the current tree.
type exported struct {
	Name     string // e.g. crypto.DecodePrivateKey, crypto.(*prKeyECDSA).Sign, hash.Hash.Equal
	File     string
	Line     int
	TestOnly bool // takes *testing.T / *testing.B: a test helper living in a non-test file
}

// buildOK evaluates the //go:build line of a file for the configuration this check is built
// in (linux/amd64, gc, cgo, no extra tags). Files for other configurations are skipped.
func buildOK(path string) bool {
	f, err := os.Open(path)
	if err != nil {
		return false
	}
	defer f.Close()
	sc := bufio.NewScanner(f)
	for sc.Scan() {
		line := strings.TrimSpace(sc.Text())
		if strings.HasPrefix(line, "package ") {
			break
		}
		if constraint.IsGoBuild(line) {
			e, err := constraint.Parse(line)
			if err != nil {
				return true
			}
			return e.Eval(func(tag string) bool {
				switch tag {
				case "linux", "unix", "amd64", "gc", "cgo":
					return true
				}
				return strings.HasPrefix(tag, "go1.")
			})
		}
	}
	return true
}

func recvString(e ast.Expr) string {
	switch t := e.(type) {
	case *ast.StarExpr:
		return "(*" + recvString(t.X) + ")"
	case *ast.Ident:
		return t.Name
	case *ast.IndexExpr:
		return recvString(t.X)
	case *ast.ParenExpr:
		return recvString(t.X)
	}
	return "?"
}

func takesTestingT(ft *ast.FuncType) bool {
	if ft.Params == nil {
		return false
	}
	for _, p := range ft.Params.List {
		t := p.Type
		if s, ok := t.(*ast.StarExpr); ok {
			t = s.X
		}
		if sel, ok := t.(*ast.SelectorExpr); ok {
			if id, ok := sel.X.(*ast.Ident); ok && id.Name == "testing" {
				return true
			}
		}
	}
	return false
}

// listExported parses the non-test Go files of the three packages of the library.
func listExported(repo string) ([]exported, []string, error) {
	var out []exported
	var skipped []string
	for _, pk := range []struct{ dir, name string }{{"", "crypto"}, {"hash", "hash"}, {"random", "random"}} {
		dir := filepath.Join(repo, pk.dir)
		ents, err := os.ReadDir(dir)
		if err != nil {
			return nil, nil, err
		}
		fset := token.NewFileSet()
		for _, e := range ents {
			n := e.Name()
			if e.IsDir() || !strings.HasSuffix(n, ".go") {
				continue
			}
			if strings.HasSuffix(n, "_test.go") {
				continue
			}
			full := filepath.Join(dir, n)
			if n == "no_cgo.go" || !buildOK(full) {
				skipped = append(skipped, filepath.Join(pk.dir, n))
				continue
			}
			af, err := parser.ParseFile(fset, full, nil, parser.SkipObjectResolution)
			if err != nil {
				return nil, nil, fmt.Errorf("parse %s: %v", full, err)
			}
			for _, d := range af.Decls {
				fd, ok := d.(*ast.FuncDecl)
				if !ok || !fd.Name.IsExported() {
					continue
				}
				name := pk.name + "."
				if fd.Recv != nil && len(fd.Recv.List) == 1 {
					name += recvString(fd.Recv.List[0].Type) + "."
				}
				name += fd.Name.Name
				out = append(out, exported{Name: name, File: filepath.Join(pk.dir, n),
					Line: fset.Position(fd.Pos()).Line, TestOnly: takesTestingT(fd.Type)})
			}
		}
	}
	sort.Slice(out, func(i, j int) bool { return out[i].Name < out[j].Name })
	sort.Strings(skipped)
	return out, skipped, nil
}
