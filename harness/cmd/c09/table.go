package main

import (
	"bytes"
	"errors"
	"fmt"
	"math"
	"reflect"

	crypto "github.com/onflow/crypto"
	"github.com/onflow/crypto/hash"
	"github.com/onflow/crypto/random"

	"verif/harness/dkgsys"
)

const (
	minI64 = math.MinInt64
	p31    = 1 << 31
	p16    = 1 << 16
)

func bs(a any) []byte          { return a.([]byte) }
func sg(a any) crypto.Signature { return crypto.Signature(a.([]byte)) }
func in(a any) int             { return a.(int) }

func sigList(a any) []crypto.Signature {
	l := a.([][]byte)
	if l == nil {
		return nil
	}
	out := make([]crypto.Signature, len(l))
	for i := range l {
		out[i] = crypto.Signature(l[i])
	}
	return out
}

func verd(b bool) int {
	if b {
		return vTrue
	}
	return vFalse
}

type hmk struct {
	name string
	mk   func() hash.Hasher
}

func mustKMAC(size int) func() hash.Hasher {
	return func() hash.Hasher {
		h, err := hash.NewKMAC_128([]byte("c09-key-0123456789"), []byte("c09"), size)
		if err != nil {
			panic(err)
		}
		return h
	}
}

func (x *fx) hashers() []hmk {
	return []hmk{
		{"xof128B", x.kmac}, {"kmac127B", mustKMAC(127)}, {"kmac129B", mustKMAC(129)}, {"kmac0B", mustKMAC(0)},
		{"kmac31B", mustKMAC(31)}, {"kmac32B", mustKMAC(32)}, {"kmac128B-otherkey", mustKMAC(128)},
		{"sha2_256", hash.NewSHA2_256}, {"sha2_384", hash.NewSHA2_384}, {"sha3_256", hash.NewSHA3_256},
		{"sha3_384", hash.NewSHA3_384}, {"keccak_256", hash.NewKeccak_256},
	}
}

// hasherP: every hasher the package can build (wrong sizes included); nil interfaces are a
// documented exception and never passed.
func (x *fx) hasherP(base string) param {
	p := param{Name: "hasher", Base: -1}
	for _, h := range x.hashers() {
		if h.name == base {
			p.Base = len(p.Vals)
		}
		p.Vals = append(p.Vals, val{C: h.name, V: h.mk})
	}
	return p
}
func hs(a any) hash.Hasher { return a.(func() hash.Hasher)() }

func (x *fx) algoP(base crypto.SigningAlgorithm) param {
	p := param{Name: "algo", Base: -1}
	for _, v := range []int{-1, 0, 1, 2, 3, 4, p31} {
		lab := intLabel(v)
		if v >= 0 && v <= 3 {
			lab = crypto.SigningAlgorithm(v).String()
		}
		if v == int(base) {
			p.Base = len(p.Vals)
		}
		p.Vals = append(p.Vals, val{C: lab, V: crypto.SigningAlgorithm(v), Rej: v < 1 || v > 3})
	}
	return p
}
func alg(a any) crypto.SigningAlgorithm { return a.(crypto.SigningAlgorithm) }

func (x *fx) skP() param {
	return param{Name: "sk", Base: 0, Vals: []val{{C: "bls", V: x.blsSK[0]}, {C: "bls-identity", V: x.zeroSK},
		{C: "ecdsa-p256", V: x.p256SK}, {C: "ecdsa-secp256k1", V: x.k1SK}}}
}
func (x *fx) pkP(name string, i int) param {
	return param{Name: name, Base: 0, Vals: []val{{C: "bls", V: x.blsPK[i]}, {C: "bls-identity", V: x.idPK},
		{C: "ecdsa-p256", V: x.p256SK.PublicKey()}, {C: "ecdsa-secp256k1", V: x.k1SK.PublicKey()}}}
}

func (x *fx) pkListP(name string) param {
	b := x.blsPK
	p := x.p256SK.PublicKey()
	return param{Name: name, Base: 3, Vals: []val{
		{C: "nil", V: []crypto.PublicKey(nil)},
		{C: "empty", V: []crypto.PublicKey{}},
		{C: "[bls]", V: []crypto.PublicKey{b[0]}},
		{C: "[bls,bls,bls]", V: []crypto.PublicKey{b[0], b[1], b[2]}},
		{C: "[bls,bls]", V: []crypto.PublicKey{b[0], b[1]}},
		{C: "[bls,ecdsa,bls]", V: []crypto.PublicKey{b[0], p, b[2]}},
		{C: "[ecdsa]", V: []crypto.PublicKey{p}},
		{C: "[bls,identity,bls]", V: []crypto.PublicKey{b[0], x.idPK, b[2]}},
		{C: "[identity,identity,identity]", V: []crypto.PublicKey{x.idPK, x.idPK, x.idPK}},
		{C: "[bls,bls,bls,bls]", V: []crypto.PublicKey{b[0], b[1], b[2], b[0]}},
		{C: "[identity]", V: []crypto.PublicKey{x.idPK}},
		{C: "[bls,bls,bls,bls (same)]", V: []crypto.PublicKey{b[0], b[0], b[0], b[0]}},
		// nil INTERFACE elements, at every position of short lists and as the only element (single-element
		// shortcuts skip the loop that validates the list)
		{C: "[nil]", V: []crypto.PublicKey{nil}, Rej: true},
		{C: "[nil,nil,nil]", V: []crypto.PublicKey{nil, nil, nil}, Rej: true},
		{C: "[nil,bls,bls]", V: []crypto.PublicKey{nil, b[1], b[2]}, Rej: true},
		{C: "[bls,nil,bls]", V: []crypto.PublicKey{b[0], nil, b[2]}, Rej: true},
		{C: "[bls,bls,nil]", V: []crypto.PublicKey{b[0], b[1], nil}, Rej: true},
		{C: "[bls,nil]", V: []crypto.PublicKey{b[0], nil}, Rej: true},
		{C: "[ecdsa,ecdsa,ecdsa]", V: []crypto.PublicKey{p, p, p}},
	}}
}
func pkl(a any) []crypto.PublicKey { return a.([]crypto.PublicKey) }

// sigListP: lists of three signatures around the valid [s0,s1,s2]. [nil element] is a nil byte slice.
func idSig() []byte {
	b := make([]byte, 48)
	b[0] = 0xc0
	return b
}

func sigListP(name string, s [3][]byte) param {
	ff := make([]byte, 48)
	for i := range ff {
		ff[i] = 0xff
	}
	big := make([]byte, 4096)
	copy(big, s[0])
	s012 := append(append(append([]byte{}, s[0]...), s[1]...), s[2]...)
	return param{Name: name, Base: 4, Vals: []val{
		{C: "nil", V: [][]byte(nil)},
		{C: "empty", V: [][]byte{}},
		{C: "[nil]", V: [][]byte{nil}, Rej: true},
		{C: "[empty,empty,empty]", V: [][]byte{{}, {}, {}}, Rej: true},
		{C: "[s,s,s]", V: [][]byte{s[0], s[1], s[2]}},
		{C: "[s]", V: [][]byte{s[0]}},
		{C: "[s,s]", V: [][]byte{s[0], s[1]}},
		{C: "[s,nil,s]", V: [][]byte{s[0], nil, s[2]}, Rej: true},
		{C: "[s,1B,s]", V: [][]byte{s[0], s[1][:1], s[2]}, Rej: true},
		{C: "[s,47B,s]", V: [][]byte{s[0], s[1][:47], s[2]}, Rej: true},
		{C: "[s,49B,s]", V: [][]byte{s[0], append(append([]byte{}, s[1]...), 0), s[2]}, Rej: true},
		{C: "[s,ff(48B),s]", V: [][]byte{s[0], ff, s[2]}},
		{C: "[s,s,4KiB]", V: [][]byte{s[0], s[1], big}, Rej: true},
		{C: "[96B,s]", V: [][]byte{append(append([]byte{}, s[0]...), s[1]...), s[2]}, Rej: true},
		// wrong lengths that COMPENSATE each other, cut from the stream s0||s1||s2 (a flattened list re-cuts into valid signatures)
		{C: "[47B|49B|s of s0s1s2]", V: [][]byte{s012[:47], s012[47:96], s[2]}, Rej: true},
		{C: "[49B|48B|47B of s0s1s2]", V: [][]byte{s012[:49], s012[49:97], s012[97:]}, Rej: true},
		{C: "[96B,0B,s]", V: [][]byte{s012[:96], {}, s[2]}, Rej: true},
		{C: "[0B,s,96B]", V: [][]byte{{}, s[0], s012[48:]}, Rej: true},
		// well-formed SPECIAL values: the identity signature (alone, repeated, mixed) and the same
		// signature many times - valid inputs that an "ignore the neutral element" or "deduplicate"
		// shortcut may turn into an empty or shorter internal list
		{C: "[identity]", V: [][]byte{idSig()}},
		{C: "[identity,identity]", V: [][]byte{idSig(), idSig()}},
		{C: "[identity x10]", V: [][]byte{idSig(), idSig(), idSig(), idSig(), idSig(), idSig(), idSig(), idSig(), idSig(), idSig()}},
		{C: "[identity,s]", V: [][]byte{idSig(), s[0]}},
		{C: "[s,identity,s]", V: [][]byte{s[0], idSig(), s[2]}},
		{C: "[s,s,s,s (same)]", V: [][]byte{s[0], s[0], s[0], s[0]}},
	}}
}

func strP(name, valid string) param {
	big := make([]byte, 4096)
	for i := range big {
		big[i] = byte('a' + i%26)
	}
	return param{Name: name, Base: 2, Vals: []val{{C: "empty", V: ""}, {C: "1B", V: "x"}, {C: "valid", V: valid},
		{C: "4KiB", V: string(big)}, {C: "non-utf8", V: "\xff\x00\xfe"}}}
}

func ints(vs ...int) []int { return vs }

func strIf(c bool, s string) string {
	if c {
		return s
	}
	return ""
}

// sizeVals: group sizes around both documented boundaries (2 and 254).
var sizeVals = ints(minI64, -1, 0, 1, 2, 3, 253, 254, 255, 256, p31)

// ---------------------------------------------------------------------------------------

func buildTable(x *fx) []*fn {
	var t []*fn
	add := func(f *fn) { t = append(t, f) }
	isBLSsig := func(b []byte) bool { return len(b) == 48 }

	// ---- sign.go -----------------------------------------------------------------------
	add(&fn{Name: "GeneratePrivateKey", Covers: []string{"crypto.GeneratePrivateKey"},
		Params: []param{x.algoP(crypto.BLSBLS12381), bytesP("seed", x.seed32, false, false,
			val{C: "256B", V: seedBytes(7, 7, 256)}, val{C: "257B", V: seedBytes(7, 7, 257)})},
		Rej: func(a []any) bool { return len(bs(a[1])) < 32 || len(bs(a[1])) > 256 },
		Call: func(a []any) res {
			sk, err := crypto.GeneratePrivateKey(alg(a[0]), bs(a[1]))
			if err == nil {
				_ = sk.PublicKey().Encode()
			}
			return res{err: err}
		}})
	zeros32 := make([]byte, 32)
	add(&fn{Name: "DecodePrivateKey", Covers: []string{"crypto.DecodePrivateKey"},
		Params: []param{x.algoP(crypto.BLSBLS12381), bytesP("input", x.blsSK[0].Encode(), true, true,
			val{C: "zero(32B)", V: zeros32, Rej: true}, val{C: "bls-order(32B)", V: blsOrder.FillBytes(make([]byte, 32))})},
		Call: func(a []any) res {
			sk, err := crypto.DecodePrivateKey(alg(a[0]), bs(a[1]))
			if err == nil {
				_ = sk.Encode()
			}
			return res{err: err}
		}})
	pkLen := func(al crypto.SigningAlgorithm) int {
		if al == crypto.BLSBLS12381 {
			return 96
		}
		return 64
	}
	p256pk, k1pk := x.p256SK.PublicKey(), x.k1SK.PublicKey()
	add(&fn{Name: "DecodePublicKey", Covers: []string{"crypto.DecodePublicKey"},
		Params: []param{x.algoP(crypto.BLSBLS12381), bytesP("input", x.blsPK[0].Encode(), false, false,
			val{C: "bls-identity(96B)", V: x.idPK.Encode()},
			val{C: "bls-offcurve(96B)", V: dkgsys.OffCurveG2()}, val{C: "bls-nonsubgroup(96B)", V: dkgsys.NonSubgroupG2()},
			val{C: "p256(64B)", V: p256pk.Encode()}, val{C: "secp256k1(64B)", V: k1pk.Encode()},
			val{C: "p256-1(63B)", V: p256pk.Encode()[:63]}, val{C: "p256+1(65B)", V: append(p256pk.Encode(), 0)},
			val{C: "zero(64B)", V: make([]byte, 64)}, val{C: "ff(64B)", V: std8(make([]byte, 64))[7].V})},
		Rej: func(a []any) bool { return len(bs(a[1])) != pkLen(alg(a[0])) },
		Call: func(a []any) res {
			pk, err := crypto.DecodePublicKey(alg(a[0]), bs(a[1]))
			if err == nil {
				_ = pk.Encode()
			}
			return res{err: err}
		}})
	add(&fn{Name: "DecodePublicKeyCompressed", Covers: []string{"crypto.DecodePublicKeyCompressed"},
		Params: []param{x.algoP(crypto.ECDSAP256), bytesP("data", p256pk.EncodeCompressed(), false, false,
			val{C: "secp256k1(33B)", V: k1pk.EncodeCompressed()}, val{C: "bls(96B)", V: x.blsPK[0].Encode()},
			val{C: "zero(33B)", V: make([]byte, 33)}, val{C: "hdr04(33B)", V: append([]byte{4}, make([]byte, 32)...)},
			val{C: "bls+1(97B)", V: append(x.blsPK[0].Encode(), 0)}, val{C: "bls-1(95B)", V: x.blsPK[0].Encode()[:95]})},
		Rej: func(a []any) bool {
			if alg(a[0]) == crypto.BLSBLS12381 {
				return len(bs(a[1])) != 96
			}
			return len(bs(a[1])) != 33
		},
		Call: func(a []any) res {
			pk, err := crypto.DecodePublicKeyCompressed(alg(a[0]), bs(a[1]))
			if err == nil {
				_ = pk.EncodeCompressed()
			}
			return res{err: err}
		}})
	add(&fn{Name: "SignatureFormatCheck", Covers: []string{"crypto.SignatureFormatCheck"},
		Params: []param{x.algoP(crypto.ECDSAP256), bytesP("sig", x.p256Sig, true, true,
			val{C: "secp256k1(64B)", V: x.k1Sig}, val{C: "zero(64B)", V: make([]byte, 64), Rej: true}, val{C: "bls(48B)", V: x.blsSig[0], Rej: true})},
		Rej: func(a []any) bool { return alg(a[0]) == crypto.BLSBLS12381 },
		Call: func(a []any) res {
			ok, err := crypto.SignatureFormatCheck(alg(a[0]), sg(a[1]))
			return res{err: err, verdict: verd(ok)}
		}})
	add(&fn{Name: "SigningAlgorithm.String", Covers: []string{"crypto.SigningAlgorithm.String"}, NoRej: true,
		Params: []param{x.algoP(crypto.BLSBLS12381)},
		Call:   func(a []any) res { return res{out: fmt.Sprint(len(alg(a[0]).String()) > 0)} }})
	add(&fn{Name: "Signature.Bytes/String", Covers: []string{"crypto.Signature.Bytes", "crypto.Signature.String"},
		Params: []param{bytesP("s", x.blsSig[0], false, false)},
		Call: func(a []any) res {
			_ = sg(a[0]).Bytes()
			_ = sg(a[0]).String()
			return res{}
		}})

	// ---- keys: every method of the three private and three public key types --------------
	type keyCase struct {
		label     string
		sk        crypto.PrivateKey
		skT, pkT  string
		goodHash  string
		sig, osig []byte
	}
	keys := []keyCase{
		{"bls", x.blsSK[0], "(*prKeyBLSBLS12381)", "(*pubKeyBLSBLS12381)", "xof128B", x.blsSig[0], x.p256Sig},
		{"bls-identity", x.zeroSK, "(*prKeyBLSBLS12381)", "(*pubKeyBLSBLS12381)", "xof128B", x.blsSig[0], x.p256Sig},
		{"p256", x.p256SK, "(*prKeyECDSA)", "(*pubKeyECDSA)", "sha3_256", x.p256Sig, x.blsSig[0]},
		{"secp256k1", x.k1SK, "(*prKeyECDSA)", "(*pubKeyECDSA)", "sha2_256", x.k1Sig, x.blsSig[0]},
	}
	otherSK := param{Name: "other", Base: 0, Vals: []val{{C: "bls", V: x.blsSK[0]}, {C: "bls2", V: x.blsSK[1]}, {C: "bls-identity", V: x.zeroSK},
		{C: "p256", V: x.p256SK}, {C: "p256b", V: x.p256SK2}, {C: "secp256k1", V: x.k1SK}, {C: "secp256k1b", V: x.k1SK2}}}
	otherPK := param{Name: "other", Base: 0}
	for _, v := range otherSK.Vals {
		otherPK.Vals = append(otherPK.Vals, val{C: v.C, V: v.V.(crypto.PrivateKey).PublicKey()})
	}
	for _, k := range keys {
		k := k
		pk := k.sk.PublicKey()
		noBase := k.label == "bls-identity"
		add(&fn{Name: "PrivateKey[" + k.label + "].Sign", Covers: []string{"crypto." + k.skT + ".Sign"},
			Params: []param{msgP("data", x.msg), x.hasherP(k.goodHash)},
			Call: func(a []any) res {
				s, err := k.sk.Sign(bs(a[0]), hs(a[1]))
				return res{err: err, out: fmt.Sprintf("len%d", len(s))}
			}})
		sigExtra := []val{{C: "other-algo-sig", V: k.osig, Rej: len(k.osig) != len(k.sig)}, {C: "zero", V: make([]byte, len(k.sig)), Rej: true}}
		if k.skT == "(*prKeyBLSBLS12381)" {
			sigExtra = append(sigExtra, val{C: "g1-identity", V: append([]byte{0xc0}, make([]byte, 47)...), Rej: true},
				val{C: "BLSInvalidSignature", V: []byte(crypto.BLSInvalidSignature()), Rej: true})
		}
		add(&fn{Name: "PublicKey[" + k.label + "].Verify", Covers: []string{"crypto." + k.pkT + ".Verify"}, NoBase: noBase,
			Params: []param{bytesP("sig", k.sig, true, true, sigExtra...), msgP("data", x.msg), x.hasherP(k.goodHash)},
			Call: func(a []any) res {
				ok, err := pk.Verify(sg(a[0]), bs(a[1]), hs(a[2]))
				return res{err: err, verdict: verd(ok)}
			}})
		add(&fn{Name: "PrivateKey[" + k.label + "].getters", Covers: []string{"crypto." + k.skT + ".Algorithm", "crypto." + k.skT + ".Size",
			"crypto." + k.skT + ".String", "crypto." + k.skT + ".PublicKey", "crypto." + k.skT + ".Encode", strIf(k.skT == "(*prKeyBLSBLS12381)", "crypto.(*scalar).String")},
			Call: func(a []any) res {
				if len(k.sk.Encode()) != k.sk.Size() || len(k.sk.String()) == 0 || k.sk.PublicKey().Algorithm() != k.sk.Algorithm() {
					return res{err: fmt.Errorf("%w: inconsistent getters", errDriver)}
				}
				return res{}
			}})
		add(&fn{Name: "PublicKey[" + k.label + "].getters", Covers: []string{"crypto." + k.pkT + ".Algorithm", "crypto." + k.pkT + ".Size",
			"crypto." + k.pkT + ".String", "crypto." + k.pkT + ".Encode", "crypto." + k.pkT + ".EncodeCompressed", strIf(k.skT == "(*prKeyBLSBLS12381)", "crypto.(*pointE2).String")},
			Call: func(a []any) res {
				if len(pk.Encode()) != pk.Size() || len(pk.String()) == 0 || len(pk.EncodeCompressed()) == 0 || pk.Algorithm() != k.sk.Algorithm() {
					return res{err: fmt.Errorf("%w: inconsistent getters", errDriver)}
				}
				return res{}
			}})
		add(&fn{Name: "PrivateKey[" + k.label + "].Equals", Covers: []string{"crypto." + k.skT + ".Equals"}, NoBase: true,
			Params: []param{otherSK},
			Call:   func(a []any) res { return res{verdict: verd(k.sk.Equals(a[0].(crypto.PrivateKey)))} }})
		add(&fn{Name: "PublicKey[" + k.label + "].Equals", Covers: []string{"crypto." + k.pkT + ".Equals"}, NoBase: true,
			Params: []param{otherPK},
			Call:   func(a []any) res { return res{verdict: verd(pk.Equals(a[0].(crypto.PublicKey)))} }})
	}

	// ---- bls.go / bls_multisig.go / spock.go --------------------------------------------
	add(&fn{Name: "NewExpandMsgXOFKMAC128", Covers: []string{"crypto.NewExpandMsgXOFKMAC128"},
		Params: []param{strP("domainTag", x.tag)},
		Call: func(a []any) res {
			h := crypto.NewExpandMsgXOFKMAC128(a[0].(string))
			return res{out: fmt.Sprintf("size%d/len%d", h.Size(), len(h.ComputeHash([]byte("m"))))}
		}})
	add(&fn{Name: "IsBLSSignatureIdentity", Covers: []string{"crypto.IsBLSSignatureIdentity"}, NoBase: true,
		Params: []param{bytesP("s", x.blsSig[0], false, false, val{C: "g1-identity", V: append([]byte{0xc0}, make([]byte, 47)...)})},
		Call:   func(a []any) res { return res{verdict: verd(crypto.IsBLSSignatureIdentity(sg(a[0])))} }})
	add(&fn{Name: "BLSInvalidSignature/IdentityBLSPublicKey", Covers: []string{"crypto.BLSInvalidSignature", "crypto.IdentityBLSPublicKey"},
		Call: func(a []any) res {
			s := crypto.BLSInvalidSignature()
			ok, err := x.blsPK[0].Verify(s, x.msg, x.kmac())
			if ok || err != nil || len(crypto.IdentityBLSPublicKey().Encode()) != 96 {
				return res{err: fmt.Errorf("%w: BLSInvalidSignature verified", errWrongAnswer)}
			}
			return res{}
		}})
	add(&fn{Name: "BLSGeneratePOP", Covers: []string{"crypto.BLSGeneratePOP"}, Params: []param{x.skP()},
		Call: func(a []any) res { _, err := crypto.BLSGeneratePOP(a[0].(crypto.PrivateKey)); return res{err: err} }})
	add(&fn{Name: "BLSVerifyPOP", Covers: []string{"crypto.BLSVerifyPOP"},
		Params: []param{x.pkP("pk", 0), bytesP("s", x.blsPOP, true, true, val{C: "plain-signature", V: x.blsSig[0]})},
		Call: func(a []any) res {
			ok, err := crypto.BLSVerifyPOP(a[0].(crypto.PublicKey), sg(a[1]))
			return res{err: err, verdict: verd(ok)}
		}})
	add(&fn{Name: "AggregateBLSSignatures", Covers: []string{"crypto.AggregateBLSSignatures"},
		Params: []param{sigListP("sigs", x.blsSig)},
		Rej:    func(a []any) bool { return len(a[0].([][]byte)) == 0 },
		Call:   func(a []any) res { _, err := crypto.AggregateBLSSignatures(sigList(a[0])); return res{err: err} }})
	b0, b1, b2 := x.blsSK[0], x.blsSK[1], x.blsSK[2]
	add(&fn{Name: "AggregateBLSPrivateKeys", Covers: []string{"crypto.AggregateBLSPrivateKeys"},
		Params: []param{listP("keys", 3,
			val{C: "nil", V: []crypto.PrivateKey(nil), Rej: true}, val{C: "empty", V: []crypto.PrivateKey{}, Rej: true},
			val{C: "[bls]", V: []crypto.PrivateKey{b0}}, val{C: "[bls,bls,bls]", V: []crypto.PrivateKey{b0, b1, b2}},
			val{C: "[bls,ecdsa,bls]", V: []crypto.PrivateKey{b0, x.p256SK, b2}, Rej: true}, val{C: "[ecdsa]", V: []crypto.PrivateKey{x.k1SK}, Rej: true},
			val{C: "[bls,bls-identity]", V: []crypto.PrivateKey{b0, x.zeroSK}}, val{C: "[bls,same-bls]", V: []crypto.PrivateKey{b0, b0}},
			val{C: "[nil]", V: []crypto.PrivateKey{nil}, Rej: true}, val{C: "[bls,nil,bls]", V: []crypto.PrivateKey{b0, nil, b2}, Rej: true},
			val{C: "[nil,bls]", V: []crypto.PrivateKey{nil, b1}, Rej: true}, val{C: "[bls,nil]", V: []crypto.PrivateKey{b0, nil}, Rej: true})},
		Call: func(a []any) res {
			sk, err := crypto.AggregateBLSPrivateKeys(a[0].([]crypto.PrivateKey))
			if err == nil {
				_ = sk.PublicKey().Encode()
			}
			return res{err: err}
		}})
	hasNonBLS := func(l []crypto.PublicKey) bool {
		for _, k := range l {
			if k.Algorithm() != crypto.BLSBLS12381 {
				return true
			}
		}
		return false
	}
	add(&fn{Name: "AggregateBLSPublicKeys", Covers: []string{"crypto.AggregateBLSPublicKeys"},
		Params: []param{x.pkListP("keys")},
		Rej:    func(a []any) bool { return len(pkl(a[0])) == 0 || hasNonBLS(pkl(a[0])) },
		Call: func(a []any) res {
			pk, err := crypto.AggregateBLSPublicKeys(pkl(a[0]))
			if err == nil {
				_ = pk.Encode()
			}
			return res{err: err}
		}})
	aggPK := must(crypto.AggregateBLSPublicKeys(x.blsPK[:]))
	add(&fn{Name: "RemoveBLSPublicKeys", Covers: []string{"crypto.RemoveBLSPublicKeys"},
		Params: []param{param{Name: "aggKey", Base: 0, Vals: []val{{C: "bls-aggregate", V: aggPK}, {C: "bls-identity", V: x.idPK},
			{C: "ecdsa-p256", V: p256pk, Rej: true}}}, x.pkListP("keysToRemove")},
		Rej: func(a []any) bool { return hasNonBLS(pkl(a[1])) },
		Call: func(a []any) res {
			pk, err := crypto.RemoveBLSPublicKeys(a[0].(crypto.PublicKey), pkl(a[1]))
			if err == nil {
				_ = pk.Encode()
			}
			return res{err: err}
		}})
	aggExtra := []val{{C: "single-signature", V: x.blsSig[0]}, {C: "g1-identity", V: append([]byte{0xc0}, make([]byte, 47)...), Rej: true}}
	add(&fn{Name: "VerifyBLSSignatureOneMessage", Covers: []string{"crypto.VerifyBLSSignatureOneMessage"}, Cost: 4,
		Params: []param{x.pkListP("pks"), bytesP("s", x.blsAgg, true, true, aggExtra...), msgP("message", x.msg), x.hasherP("xof128B")},
		Rej:    func(a []any) bool { return len(pkl(a[0])) == 0 || hasNonBLS(pkl(a[0])) },
		Call: func(a []any) res {
			ok, err := crypto.VerifyBLSSignatureOneMessage(pkl(a[0]), sg(a[1]), bs(a[2]), hs(a[3]))
			return res{err: err, verdict: verd(ok)}
		}})
	m1, m2 := seedBytes(5, 5, 20), seedBytes(6, 6, 33)
	big := msgP("", nil).Vals[4].V.([]byte)
	sigMany := must(crypto.AggregateBLSSignatures([]crypto.Signature{
		must(b0.Sign(x.msg, x.kmac())), must(b1.Sign(m1, x.kmac())), must(b2.Sign(m2, x.kmac()))}))
	type hl = []func() hash.Hasher
	k, k127, s3 := x.kmac, mustKMAC(127), hash.NewSHA3_256
	nilH := func() hash.Hasher { return nil }
	add(&fn{Name: "VerifyBLSSignatureManyMessages", Covers: []string{"crypto.VerifyBLSSignatureManyMessages"}, Cost: 6,
		Params: []param{x.pkListP("pks"), bytesP("s", sigMany, true, true, aggExtra...),
			listP("messages", 5, val{C: "nil", V: [][]byte(nil)}, val{C: "empty", V: [][]byte{}}, val{C: "[nil,nil,nil]", V: [][]byte{nil, nil, nil}},
				val{C: "[m]", V: [][]byte{x.msg}}, val{C: "[m,m,m]", V: [][]byte{x.msg, x.msg, x.msg}},
				val{C: "[m0,m1,m2]", V: [][]byte{x.msg, m1, m2}}, val{C: "[m0,m1]", V: [][]byte{x.msg, m1}},
				val{C: "[m0,empty,4KiB]", V: [][]byte{x.msg, {}, big}}, val{C: "[m0,m1,m2,m0]", V: [][]byte{x.msg, m1, m2, x.msg}}),
			listP("hashers", 3, val{C: "nil", V: hl(nil)}, val{C: "empty", V: hl{}}, val{C: "[xof]", V: hl{k}}, val{C: "[xof,xof,xof]", V: hl{k, k, k}},
				val{C: "[xof,xof]", V: hl{k, k}}, val{C: "[xof,sha3_256,xof]", V: hl{k, s3, k}}, val{C: "[kmac127B,kmac127B,kmac127B]", V: hl{k127, k127, k127}},
				val{C: "[xof,xof,xof,xof]", V: hl{k, k, k, k}}, val{C: "[xof,xof,kmac128B-otherkey]", V: hl{k, k, mustKMAC(128)}},
				val{C: "[nil]", V: hl{nilH}}, val{C: "[xof,nil,xof]", V: hl{k, nilH, k}}, val{C: "[nil,nil,nil]", V: hl{nilH, nilH, nilH}}, val{C: "[xof,xof,nil]", V: hl{k, k, nilH}})},
		Rej: func(a []any) bool {
			n := len(pkl(a[0]))
			return n == 0 || hasNonBLS(pkl(a[0])) || n != len(a[2].([][]byte)) || n != len(a[3].(hl))
		},
		Call: func(a []any) res {
			var hh []hash.Hasher
			if l := a[3].(hl); l != nil {
				hh = make([]hash.Hasher, len(l))
				for i := range l {
					hh[i] = l[i]()
				}
			}
			ok, err := crypto.VerifyBLSSignatureManyMessages(pkl(a[0]), sg(a[1]), a[2].([][]byte), hh)
			return res{err: err, verdict: verd(ok)}
		}})
	add(&fn{Name: "BatchVerifyBLSSignaturesOneMessage", Covers: []string{"crypto.BatchVerifyBLSSignaturesOneMessage"}, Cost: 8,
		Params: []param{x.pkListP("pks"), sigListP("sigs", x.blsSig), msgP("message", x.msg), x.hasherP("xof128B")},
		Call: func(a []any) res {
			sl := sigList(a[1])
			pks := pkl(a[0])
			out, err := crypto.BatchVerifyBLSSignaturesOneMessage(pks, sl, bs(a[2]), hs(a[3]))
			if len(out) != len(sl) {
				return res{err: fmt.Errorf("%w: BatchVerify returned %d verdicts for %d signatures", errDriver, len(out), len(sl))}
			}
			// verdict: true only if every index verified; a wrong-length signature or an
			// identity key reported as verified is an accepted invalid input.
			all := len(out) > 0
			for i, b := range out {
				if b && (!isBLSsig(sl[i]) || (err != nil)) {
					return res{err: fmt.Errorf("%w: index %d reported true for an invalid signature or together with an error", errWrongAnswer, i)}
				}
				all = all && b
			}
			return res{err: err, verdict: verd(all)}
		}})
	add(&fn{Name: "SPOCKProve", Covers: []string{"crypto.SPOCKProve"},
		Params: []param{x.skP(), msgP("data", x.msg), x.hasherP("xof128B")},
		Call: func(a []any) res {
			_, err := crypto.SPOCKProve(a[0].(crypto.PrivateKey), bs(a[1]), hs(a[2]))
			return res{err: err}
		}})
	pr0 := must(crypto.SPOCKProve(b0, x.msg, x.kmac()))
	pr1 := must(crypto.SPOCKProve(b1, x.msg, x.kmac()))
	add(&fn{Name: "SPOCKVerifyAgainstData", Covers: []string{"crypto.SPOCKVerifyAgainstData"}, Cost: 4,
		Params: []param{x.pkP("pk", 0), bytesP("proof", pr0, true, true), msgP("data", x.msg), x.hasherP("xof128B")},
		Call: func(a []any) res {
			ok, err := crypto.SPOCKVerifyAgainstData(a[0].(crypto.PublicKey), sg(a[1]), bs(a[2]), hs(a[3]))
			return res{err: err, verdict: verd(ok)}
		}})
	g1id := val{C: "g1-identity", V: append([]byte{0xc0}, make([]byte, 47)...)}
	add(&fn{Name: "SPOCKVerify", Covers: []string{"crypto.SPOCKVerify"}, Cost: 6,
		Params: []param{x.pkP("pk1", 0), bytesP("proof1", pr0, true, true, g1id), x.pkP("pk2", 1), bytesP("proof2", pr1, true, true, g1id)},
		Call: func(a []any) res {
			ok, err := crypto.SPOCKVerify(a[0].(crypto.PublicKey), sg(a[1]), a[2].(crypto.PublicKey), sg(a[3]))
			return res{err: err, verdict: verd(ok)}
		}})

	// ---- threshold signatures --------------------------------------------------------------
	sh := x.thrShare
	ff48 := std8(sh[0])[7].V.([]byte)
	many := make([][]byte, 254)
	manyIdx := make([]int, 254)
	for i := range many {
		many[i] = sh[i%3]
		manyIdx[i] = i
	}
	wrongLen := func(l [][]byte, upto int) bool {
		for i, s := range l {
			if i < upto && len(s) != 48 {
				return true
			}
		}
		return false
	}
	s01 := append(append([]byte{}, sh[0]...), sh[1]...)
	add(&fn{Name: "BLSReconstructThresholdSignature", Covers: []string{"crypto.BLSReconstructThresholdSignature"},
		Params: []param{intP("size", 3, sizeVals...), intP("threshold", 1, minI64, -1, 0, 1, 2, 3, 253, 254, 255, 256, p31),
			listP("shares", 4, val{C: "nil", V: [][]byte(nil)}, val{C: "empty", V: [][]byte{}}, val{C: "[nil,nil]", V: [][]byte{nil, nil}},
				val{C: "[empty,empty]", V: [][]byte{{}, {}}}, val{C: "[s0,s1]", V: [][]byte{sh[0], sh[1]}}, val{C: "[s0]", V: [][]byte{sh[0]}},
				val{C: "[s0,s1,s2]", V: [][]byte{sh[0], sh[1], sh[2]}}, val{C: "[s0,empty]", V: [][]byte{sh[0], {}}}, val{C: "[s0,1B]", V: [][]byte{sh[0], sh[1][:1]}},
				val{C: "[s0,47B]", V: [][]byte{sh[0], sh[1][:47]}}, val{C: "[s0,49B]", V: [][]byte{sh[0], append(append([]byte{}, sh[1]...), 0)}},
				val{C: "[s0,ff(48B)]", V: [][]byte{sh[0], ff48}}, val{C: "[s0,4KiB]", V: [][]byte{sh[0], big}}, val{C: "[47B,49B]", V: [][]byte{sh[0][:47], append([]byte{1}, sh[1]...)}},
				val{C: "[s x254]", V: many},
				// wrong lengths that COMPENSATE each other, cut from the stream s0||s1 (the flattened list re-cuts into the valid shares)
				val{C: "[47B|49B of s0s1]", V: [][]byte{s01[:47], s01[47:]}}, val{C: "[49B|47B of s0s1]", V: [][]byte{s01[:49], s01[49:]}},
				val{C: "[96B,0B]", V: [][]byte{s01, {}}}, val{C: "[0B,96B]", V: [][]byte{{}, s01}}),
			listP("signers", 2, val{C: "nil", V: []int(nil)}, val{C: "empty", V: []int{}}, val{C: "[0,1]", V: []int{0, 1}}, val{C: "[1,0]", V: []int{1, 0}},
				val{C: "[0]", V: []int{0}}, val{C: "[0,0]", V: []int{0, 0}}, val{C: "[0,-1]", V: []int{0, -1}}, val{C: "[0,3]", V: []int{0, 3}}, val{C: "[0,255]", V: []int{0, 255}},
				val{C: "[0,256]", V: []int{0, 256}}, val{C: "[0,257]", V: []int{0, 257}}, val{C: "[-2^63,2^31]", V: []int{minI64, p31}}, val{C: "[0,1,2]", V: []int{0, 1, 2}},
				val{C: "[0..253]", V: manyIdx})},
		Rej: func(a []any) bool {
			n, t, l, sgn := in(a[0]), in(a[1]), a[2].([][]byte), a[3].([]int)
			if n < 2 || n > 254 || t < 1 || t >= n || len(l) != len(sgn) || len(l) < t+1 {
				return true
			}
			return wrongLen(l, t+1)
		},
		Call: func(a []any) res {
			s, err := crypto.BLSReconstructThresholdSignature(in(a[0]), in(a[1]), sigList(a[2]), a[3].([]int))
			return res{err: err, out: fmt.Sprintf("len%d", len(s))}
		}})
	add(&fn{Name: "EnoughShares", Covers: []string{"crypto.EnoughShares"}, NoBase: true,
		Params: []param{intP("threshold", 1, minI64, -1, 0, 1, 2, 253, 254, 255, 256, p31, math.MaxInt64),
			intP("sharesNumber", 2, minI64, -1, 0, 1, 2, 3, 254, 255, 256, p31, math.MaxInt64)},
		Rej: func(a []any) bool { return in(a[0]) < 1 },
		Call: func(a []any) res {
			ok, err := crypto.EnoughShares(in(a[0]), in(a[1]))
			if err == nil && ok != (in(a[1]) > in(a[0])) {
				return res{err: fmt.Errorf("%w: EnoughShares(%d,%d)=%v", errDriver, in(a[0]), in(a[1]), ok)}
			}
			return res{err: err, verdict: verd(ok)}
		}})
	add(&fn{Name: "BLSThresholdKeyGen", Covers: []string{"crypto.BLSThresholdKeyGen"}, Cost: 20,
		Params: []param{intP("size", 3, sizeVals...), intP("threshold", 1, minI64, -1, 0, 1, 2, 3, 252, 253, 254, 255, p31),
			bytesP("seed", x.seed32, false, false)},
		Rej: func(a []any) bool { n, t := in(a[0]), in(a[1]); return n < 2 || n > 254 || t < 1 || t >= n || len(bs(a[2])) < 32 },
		Call: func(a []any) res {
			sks, pks, g, err := crypto.BLSThresholdKeyGen(in(a[0]), in(a[1]), bs(a[2]))
			if err == nil && (len(sks) != in(a[0]) || len(pks) != in(a[0]) || g == nil) {
				return res{err: fmt.Errorf("%w: BLSThresholdKeyGen output sizes", errDriver)}
			}
			return res{err: err}
		}})
	tp := x.thrPK
	thrLists := listP("sharePublicKeys", 3,
		val{C: "nil", V: []crypto.PublicKey(nil), Rej: true}, val{C: "empty", V: []crypto.PublicKey{}, Rej: true}, val{C: "[pk0]", V: []crypto.PublicKey{tp[0]}, Rej: true},
		val{C: "[pk0,pk1,pk2]", V: []crypto.PublicKey{tp[0], tp[1], tp[2]}}, val{C: "[pk0,pk1]", V: []crypto.PublicKey{tp[0], tp[1]}},
		val{C: "[pk0,ecdsa,pk2]", V: []crypto.PublicKey{tp[0], p256pk, tp[2]}, Rej: true}, val{C: "[identity x3]", V: []crypto.PublicKey{x.idPK, x.idPK, x.idPK}},
		val{C: "[pk x254]", V: x.bigPKs[:254]}, val{C: "[pk x255]", V: x.bigPKs[:255], Rej: true})
	groupP := param{Name: "groupPublicKey", Base: 0, Vals: []val{{C: "bls-group", V: x.thrGroup}, {C: "bls-identity", V: x.idPK}, {C: "bls-unrelated", V: x.blsPK[0]},
		{C: "ecdsa-p256", V: p256pk, Rej: true}}}
	thrT := intP("threshold", 1, minI64, -1, 0, 1, 2, 3, 253, 254, 255, 256, p31)
	add(&fn{Name: "NewBLSThresholdSignatureInspector", Covers: []string{"crypto.NewBLSThresholdSignatureInspector"},
		Params: []param{groupP, thrLists, thrT, msgP("message", x.msg), strP("dsTag", x.tag)},
		Rej:    func(a []any) bool { return in(a[2]) < 1 || in(a[2]) >= len(pkl(a[1])) },
		Call: func(a []any) res {
			o, err := crypto.NewBLSThresholdSignatureInspector(a[0].(crypto.PublicKey), pkl(a[1]), in(a[2]), bs(a[3]), a[4].(string))
			if err == nil {
				_ = o.EnoughShares()
			}
			return res{err: err}
		}})
	add(&fn{Name: "NewBLSThresholdSignatureParticipant", Covers: []string{"crypto.NewBLSThresholdSignatureParticipant"},
		Params: []param{groupP, thrLists, thrT, intP("myIndex", 0, minI64, -1, 0, 1, 2, 3, 253, 254, 255, 256, p31),
			param{Name: "myPrivateKey", Base: 0, Vals: []val{{C: "share0", V: x.thrSK[0]}, {C: "share1", V: x.thrSK[1]}, {C: "bls-unrelated", V: x.blsSK[0]},
				{C: "bls-identity", V: x.zeroSK}, {C: "ecdsa-p256", V: x.p256SK, Rej: true}, {C: "ecdsa-secp256k1", V: x.k1SK, Rej: true}}},
			msgP("message", x.msg), strP("dsTag", x.tag)},
		Rej: func(a []any) bool {
			l, i := pkl(a[1]), in(a[3])
			if in(a[2]) < 1 || in(a[2]) >= len(l) || i < 0 || i >= len(l) {
				return true
			}
			// the private key must match the public key share at myIndex
			return !bytes.Equal(a[4].(crypto.PrivateKey).PublicKey().Encode(), l[i].Encode())
		},
		Call: func(a []any) res {
			o, err := crypto.NewBLSThresholdSignatureParticipant(a[0].(crypto.PublicKey), pkl(a[1]), in(a[2]), in(a[3]),
				a[4].(crypto.PrivateKey), bs(a[5]), a[6].(string))
			if err == nil {
				_, err = o.SignShare()
			}
			return res{err: err}
		}})

	// stateful inspector / participant (n=3, t=1) after short setup histories
	type tsi = crypto.ThresholdSignatureInspector
	hostile := []val{{C: "nil", V: []byte(nil)}, {C: "empty", V: []byte{}}, {C: "1B", V: sh[1][:1]}, {C: "47B", V: sh[1][:47]},
		{C: "49B", V: append(append([]byte{}, sh[1]...), 0)}, {C: "ff(48B)", V: ff48}, {C: "4KiB", V: big}, {C: "other-signer-share", V: sh[2]}}
	type setup struct {
		name string
		run  func(o tsi) error
	}
	chk := func(errs ...error) error {
		for _, e := range errs {
			if e != nil {
				return fmt.Errorf("%w: setup: %v", errDriver, e)
			}
		}
		return nil
	}
	setups := []setup{
		{"empty", func(o tsi) error { return nil }},
		{"half(1-of-2)", func(o tsi) error { _, e := o.TrustedAdd(0, sh[0]); return chk(e) }},
		{"full", func(o tsi) error { _, e := o.TrustedAdd(0, sh[0]); _, e2 := o.TrustedAdd(1, sh[1]); return chk(e, e2) }},
		{"full-verified", func(o tsi) error { _, _, e := o.VerifyAndAdd(2, sh[2]); _, _, e2 := o.VerifyAndAdd(0, sh[0]); return chk(e, e2) }},
		{"after-ThresholdSignature", func(o tsi) error {
			_, e := o.TrustedAdd(0, sh[0])
			_, e2 := o.TrustedAdd(1, sh[1])
			_, e3 := o.ThresholdSignature()
			return chk(e, e2, e3)
		}},
	}
	nPlain := len(setups)
	for _, h := range hostile {
		h := h
		setups = append(setups, setup{"half+TrustedAdd(1," + h.C + ")", func(o tsi) error {
			_, e := o.TrustedAdd(0, sh[0])
			_, e2 := o.TrustedAdd(1, h.V.([]byte))
			return chk(e, e2)
		}})
	}
	for _, h := range hostile[:2] {
		h := h
		setups = append(setups, setup{"TrustedAdd(0," + h.C + ")+TrustedAdd(1," + h.C + ")", func(o tsi) error {
			_, e := o.TrustedAdd(0, h.V.([]byte))
			_, e2 := o.TrustedAdd(1, h.V.([]byte))
			return chk(e, e2)
		}})
	}
	// mode 2: every setup; mode 1: plain setups + one hostile TrustedAdd + all-hostile; mode 0: as 1 without all-hostile
	stateP := func(mode int) param {
		p := param{Name: "state", Base: 0}
		for i, s := range setups {
			if mode == 2 || i < nPlain || i == nPlain+1 || (mode == 1 && i == len(setups)-1) {
				p.Vals = append(p.Vals, val{C: s.name, V: s.run})
			}
		}
		return p
	}
	objP := param{Name: "obj", Base: 0, Vals: []val{{C: "inspector", V: "i"}, {C: "participant", V: "p"}}}
	mk := func(a []any) (tsi, error) {
		var o tsi
		var err error
		if a[0].(string) == "i" {
			o, err = crypto.NewBLSThresholdSignatureInspector(x.thrGroup, x.thrPK, 1, x.msg, x.tag)
		} else {
			o, err = crypto.NewBLSThresholdSignatureParticipant(x.thrGroup, x.thrPK, 1, 0, x.thrSK[0], x.msg, x.tag)
		}
		if err != nil {
			return nil, fmt.Errorf("%w: %v", errDriver, err)
		}
		if err := a[1].(func(o tsi) error)(o); err != nil {
			return nil, err
		}
		return o, nil
	}
	origP := func(base int) param { return intP("orig", base, minI64, -1, 0, 1, 2, 3, 4, 255, 256, p31) }
	shareP := func(i int) param {
		return bytesP("share", sh[i], true, true, val{C: "other-signer-share", V: sh[(i+1)%3]}, val{C: "g1-identity", V: g1id.V, Rej: true})
	}
	const ins = "crypto.(*blsThresholdSignatureInspector)."
	badOrig := func(o int) bool { return o < 0 || o > 2 }
	add(&fn{Name: "ThresholdSignatureInspector.VerifyShare", Covers: []string{ins + "VerifyShare"}, Cost: 4,
		Params: []param{objP, stateP(1), origP(2), shareP(2)},
		Rej:    func(a []any) bool { return badOrig(in(a[2])) },
		Call: func(a []any) res {
			o, err := mk(a)
			if err != nil {
				return res{err: err}
			}
			ok, err := o.VerifyShare(in(a[2]), sg(a[3]))
			return res{err: err, verdict: verd(ok)}
		}})
	add(&fn{Name: "ThresholdSignatureInspector.VerifyThresholdSignature", Covers: []string{ins + "VerifyThresholdSignature"}, Cost: 4,
		Params: []param{objP, stateP(1), bytesP("thresholdSignature", x.thrSig, true, true, val{C: "a-share", V: sh[0], Rej: true})},
		Call: func(a []any) res {
			o, err := mk(a)
			if err != nil {
				return res{err: err}
			}
			ok, err := o.VerifyThresholdSignature(sg(a[2]))
			return res{err: err, verdict: verd(ok)}
		}})
	add(&fn{Name: "ThresholdSignatureInspector.EnoughShares", Covers: []string{ins + "EnoughShares"}, NoBase: true,
		Params: []param{objP, stateP(2)},
		Call: func(a []any) res {
			o, err := mk(a)
			if err != nil {
				return res{err: err}
			}
			return res{verdict: verd(o.EnoughShares())}
		}})
	add(&fn{Name: "ThresholdSignatureInspector.HasShare", Covers: []string{ins + "HasShare"}, NoBase: true,
		Params: []param{objP, stateP(2), origP(0)},
		Rej:    func(a []any) bool { return badOrig(in(a[2])) },
		Call: func(a []any) res {
			o, err := mk(a)
			if err != nil {
				return res{err: err}
			}
			ok, err := o.HasShare(in(a[2]))
			return res{err: err, verdict: verd(ok)}
		}})
	// after a state-changing call the consequences are driven too: EnoughShares, HasShare and
	// the reconstruction itself (which consumes whatever TrustedAdd stored)
	after := func(o tsi) res {
		_ = o.EnoughShares()
		for i := 0; i < 3; i++ {
			if _, err := o.HasShare(i); err != nil {
				return res{err: fmt.Errorf("%w: HasShare(%d): %v", errDriver, i, err)}
			}
		}
		s, err := o.ThresholdSignature()
		if err != nil {
			return res{err: err, out: "then-ThresholdSignature-error"}
		}
		ok, err := o.VerifyThresholdSignature(s)
		if err != nil || !ok {
			return res{err: fmt.Errorf("%w: ThresholdSignature returned a signature that does not verify (%v)", errWrongAnswer, err)}
		}
		return res{out: "then-ThresholdSignature-ok"}
	}
	add(&fn{Name: "ThresholdSignatureInspector.TrustedAdd", Covers: []string{ins + "TrustedAdd"}, Cost: 4, NoBase: true, NoRej: true,
		// the follow-up reconstruction starts from states that are not already broken: the
		// all-hostile pools belong to the domain of ThresholdSignature itself
		Params: []param{objP, stateP(0), origP(2), shareP(2)},
		Call: func(a []any) res {
			o, err := mk(a)
			if err != nil {
				return res{err: err}
			}
			if _, err := o.TrustedAdd(in(a[2]), sg(a[3])); err != nil {
				return res{err: err}
			}
			r := after(o)
			if !errors.Is(r.err, errDriver) && errClass(r.err) != "untyped" {
				r.err = nil // TrustedAdd itself succeeded; typed reconstruction errors are the documented consequence
			}
			return r
		}})
	add(&fn{Name: "ThresholdSignatureInspector.VerifyAndAdd", Covers: []string{ins + "VerifyAndAdd"}, Cost: 6,
		Params: []param{objP, stateP(0), origP(2), shareP(2)},
		Rej:    func(a []any) bool { return badOrig(in(a[2])) },
		Call: func(a []any) res {
			o, err := mk(a)
			if err != nil {
				return res{err: err}
			}
			ok, _, err := o.VerifyAndAdd(in(a[2]), sg(a[3]))
			if err != nil {
				return res{err: err}
			}
			r := after(o)
			if errors.Is(r.err, errDriver) || errClass(r.err) == "untyped" {
				return r
			}
			return res{verdict: verd(ok), out: r.out}
		}})
	add(&fn{Name: "ThresholdSignatureInspector.ThresholdSignature", Covers: []string{ins + "ThresholdSignature"}, Cost: 4, NoBase: true,
		Params: []param{objP, stateP(2)},
		Call: func(a []any) res {
			o, err := mk(a)
			if err != nil {
				return res{err: err}
			}
			s, err := o.ThresholdSignature()
			if err != nil {
				return res{err: err}
			}
			if ok, err := x.thrGroup.Verify(s, x.msg, x.kmac()); err != nil || !ok {
				return res{err: fmt.Errorf("%w: ThresholdSignature returned a signature that does not verify", errWrongAnswer)}
			}
			s2, err := o.ThresholdSignature() // cached path
			return res{err: err, out: fmt.Sprintf("len%d", len(s2))}
		}})
	add(&fn{Name: "ThresholdSignatureParticipant.SignShare", Covers: []string{"crypto.(*blsThresholdSignatureParticipant).SignShare"},
		Params: []param{stateP(2)},
		Call: func(a []any) res {
			o, err := mk([]any{"p", a[0]})
			if err != nil {
				return res{err: err}
			}
			s, err := o.(crypto.ThresholdSignatureParticipant).SignShare()
			return res{err: err, out: fmt.Sprintf("len%d", len(s))}
		}})

	// ---- DKG constructors (the handlers are driven by the state-space units) ------------
	dkgInts := sizeVals
	rec := &dkgsys.Rec{}
	dkgRej := func(n, t, me, d int) bool { return n < 2 || n > 254 || t < 1 || t >= n || me < 0 || me >= n || d < 0 || d >= n }
	probeDKG := func(s crypto.DKGState, n, t int) error {
		if s.Size() != n || s.Threshold() != t || s.Running() {
			return fmt.Errorf("%w: fresh DKG instance getters", errDriver)
		}
		return nil
	}
	for _, c := range []struct {
		name string
		mk   func(n, t, me int, p crypto.DKGProcessor, d int) (crypto.DKGState, error)
	}{{"NewFeldmanVSS", crypto.NewFeldmanVSS}, {"NewFeldmanVSSQual", crypto.NewFeldmanVSSQual}} {
		c := c
		add(&fn{Name: c.name, Covers: []string{"crypto." + c.name},
			Params: []param{intP("size", 3, dkgInts...), intP("threshold", 1, dkgInts...), intP("myIndex", 1, dkgInts...), intP("dealerIndex", 0, dkgInts...)},
			Rej:    func(a []any) bool { return dkgRej(in(a[0]), in(a[1]), in(a[2]), in(a[3])) },
			Call: func(a []any) res {
				s, err := c.mk(in(a[0]), in(a[1]), in(a[2]), rec, in(a[3]))
				if err == nil {
					err = probeDKG(s, in(a[0]), in(a[1]))
				}
				return res{err: err}
			}})
	}
	add(&fn{Name: "NewJointFeldman", Covers: []string{"crypto.NewJointFeldman"},
		Params: []param{intP("size", 3, dkgInts...), intP("threshold", 1, dkgInts...), intP("myIndex", 1, dkgInts...)},
		Rej:    func(a []any) bool { return dkgRej(in(a[0]), in(a[1]), in(a[2]), 0) },
		Call: func(a []any) res {
			s, err := crypto.NewJointFeldman(in(a[0]), in(a[1]), in(a[2]), rec)
			if err == nil {
				err = probeDKG(s, in(a[0]), in(a[1]))
			}
			return res{err: err}
		}})
	// E2PolynomialImages is exported but takes slices of an unexported type: reachable with nil
	// literals and through reflection only.
	e2t := reflect.TypeOf(crypto.E2PolynomialImages).In(0)
	e2l := func(name string, base int) param {
		return listP(name, base, val{C: "nil", V: -1}, val{C: "empty", V: 0}, val{C: "len1", V: 1}, val{C: "len2", V: 2}, val{C: "len3", V: 3})
	}
	add(&fn{Name: "E2PolynomialImages", Covers: []string{"crypto.E2PolynomialImages"},
		Params: []param{e2l("out", 4), e2l("A", 3)},
		Call: func(a []any) res {
			mkl := func(n int) reflect.Value {
				if n < 0 {
					return reflect.Zero(e2t)
				}
				return reflect.MakeSlice(e2t, n, n)
			}
			reflect.ValueOf(crypto.E2PolynomialImages).Call([]reflect.Value{mkl(in(a[0])), mkl(in(a[1]))})
			return res{}
		}})

	// ---- error predicates and Unwrap methods ------------------------------------------------
	type nerr struct {
		name string
		err  error
	}
	var errsL []nerr
	collect := func(name string, err error) {
		if err == nil {
			panic("fixture: expected an error for " + name)
		}
		errsL = append(errsL, nerr{name, err})
	}
	{
		_, e := crypto.DecodePrivateKey(crypto.UnknownSigningAlgorithm, nil)
		collect("invalidInputs", e)
		_, e = b0.Sign(x.msg, hash.NewSHA3_256())
		collect("invalidHasherSize", e)
		_, e = crypto.BLSGeneratePOP(x.p256SK)
		collect("notBLSKey", e)
		_, e = crypto.AggregateBLSSignatures(nil)
		collect("emptyList", e)
		_, e = crypto.AggregateBLSSignatures([]crypto.Signature{{1}})
		collect("invalidSignature", e)
		_, e = crypto.BLSReconstructThresholdSignature(3, 1, []crypto.Signature{sh[0], sh[0]}, []int{0, 0})
		collect("duplicatedSigner", e)
		_, e = crypto.BLSReconstructThresholdSignature(3, 1, []crypto.Signature{sh[0]}, []int{0})
		collect("notEnoughShares", e)
		nd, _ := dkgsys.NewNode(dkgsys.FVSS, 3, 1, 1, 0)
		_, _, _, e = nd.Inst.End()
		collect("dkgInvalidStateTransition", e)
		_ = nd.Inst.Start(x.seed32)
		_, _, _, e = nd.Inst.End()
		collect("dkgFailure", e)
		collect("plain", errors.New("plain"))
		collect("wrapped-invalidInputs", fmt.Errorf("ctx: %w", errsL[0].err))
		collect("joined", errors.Join(errsL[2].err, errsL[3].err))
	}
	errP := param{Name: "err", Base: 0}
	for _, e := range errsL {
		errP.Vals = append(errP.Vals, val{C: e.name, V: e.err})
	}
	preds := []struct {
		name string
		f    func(error) bool
	}{{"IsInvalidInputsError", crypto.IsInvalidInputsError}, {"IsNilHasherError", crypto.IsNilHasherError},
		{"IsInvalidHasherSizeError", crypto.IsInvalidHasherSizeError}, {"IsBLSAggregateEmptyListError", crypto.IsBLSAggregateEmptyListError},
		{"IsNotBLSKeyError", crypto.IsNotBLSKeyError}, {"IsInvalidSignatureError", crypto.IsInvalidSignatureError},
		{"IsDuplicatedSignerError", crypto.IsDuplicatedSignerError}, {"IsNotEnoughSharesError", crypto.IsNotEnoughSharesError},
		{"IsDKGFailureError", crypto.IsDKGFailureError}, {"IsDKGInvalidStateTransitionError", crypto.IsDKGInvalidStateTransitionError}}
	for _, p := range preds {
		p := p
		add(&fn{Name: p.name, Covers: []string{"crypto." + p.name}, NoBase: true, Params: []param{errP},
			Call: func(a []any) res { return res{verdict: verd(p.f(a[0].(error)))} }})
	}
	add(&fn{Name: "errors.Unwrap(typed-error)", Covers: []string{"crypto.invalidInputsError.Unwrap", "crypto.invalidHasherSizeError.Unwrap",
		"crypto.dkgInvalidStateTransitionError.Unwrap"}, Params: []param{errP},
		Call: func(a []any) res {
			e := a[0].(error)
			if u, ok := e.(interface{ Unwrap() error }); ok {
				_ = u.Unwrap()
			}
			return res{out: fmt.Sprint(errors.Unwrap(e) != nil)}
		}})

	addHashTable(x, add)
	addRandomTable(x, add)
	return t
}

// ---------------------------------------------------------------------------------------
// package hash

func addHashTable(x *fx, add func(*fn)) {
	key16 := seedBytes(3, 3, 16)
	outP := intP("outputSize", 32, minI64, -1, 0, 1, 31, 32, 33, 127, 128, 129, 255, 256, p16, p31)
	add(&fn{Name: "hash.NewKMAC_128", Covers: []string{"hash.NewKMAC_128"}, Plain: true,
		Params: []param{bytesP("key", key16, false, false, val{C: "163B", V: seedBytes(1, 1, 163)}, val{C: "168B", V: seedBytes(1, 1, 168)}),
			bytesP("customizer", []byte("c09"), false, false), outP},
		Rej: func(a []any) bool { return len(bs(a[0])) < 16 || in(a[2]) < 0 },
		Call: func(a []any) res {
			h, err := hash.NewKMAC_128(bs(a[0]), bs(a[1]), in(a[2]))
			if err != nil {
				return res{err: err}
			}
			if in(a[2]) > p16 {
				// output allocation is linear in outputSize: larger sizes are a documented exception
				return res{out: fmt.Sprintf("size%d-not-squeezed", h.Size())}
			}
			_, _ = h.Write([]byte("abc"))
			s1 := h.SumHash()
			c := h.ComputeHash([]byte("abc"))
			h.Reset()
			if len(s1) != in(a[2]) || len(c) != in(a[2]) || h.Size() != in(a[2]) || h.Algorithm() != hash.KMAC128 {
				return res{err: fmt.Errorf("%w: KMAC output length", errDriver)}
			}
			return res{}
		}})
	type hk struct {
		name, typ string
		mk        func() hash.Hasher
		rate      int
	}
	hashers := []hk{{"SHA2_256", "(*sha2_256Algo)", hash.NewSHA2_256, 64}, {"SHA2_384", "(*sha2_384Algo)", hash.NewSHA2_384, 128},
		{"SHA3_256", "(*spongeState)", hash.NewSHA3_256, 136}, {"SHA3_384", "(*spongeState)", hash.NewSHA3_384, 104},
		{"Keccak_256", "(*spongeState)", hash.NewKeccak_256, 136}, {"KMAC128", "(*kmac128)", mustKMAC(32), 168}}
	for _, h := range hashers {
		h := h
		dataP := func(name string) param {
			mkb := func(n int) []byte { return seedBytes(int64(n), 9, n) }
			return listP(name, 3, val{C: "nil", V: []byte(nil)}, val{C: "empty", V: []byte{}}, val{C: "1B", V: mkb(1)}, val{C: "32B", V: mkb(32)},
				val{C: fmt.Sprintf("rate-1(%dB)", h.rate-1), V: mkb(h.rate - 1)}, val{C: fmt.Sprintf("rate(%dB)", h.rate), V: mkb(h.rate)},
				val{C: fmt.Sprintf("rate+1(%dB)", h.rate+1), V: mkb(h.rate + 1)}, val{C: "4KiB", V: mkb(4096)})
		}
		// setup histories of the stateful hasher
		hist := listP("state", 0,
			val{C: "fresh", V: func(o hash.Hasher) {}},
			val{C: "Write(1B)", V: func(o hash.Hasher) { _, _ = o.Write([]byte{1}) }},
			val{C: "Write(rate)", V: func(o hash.Hasher) { _, _ = o.Write(make([]byte, h.rate)) }},
			val{C: "Write(rate-1)", V: func(o hash.Hasher) { _, _ = o.Write(make([]byte, h.rate-1)) }},
			val{C: "SumHash", V: func(o hash.Hasher) { _ = o.SumHash() }},
			val{C: "Write,SumHash", V: func(o hash.Hasher) { _, _ = o.Write([]byte{1, 2, 3}); _ = o.SumHash() }},
			val{C: "SumHash,SumHash", V: func(o hash.Hasher) { _ = o.SumHash(); _ = o.SumHash() }},
			val{C: "SumHash,Write(rate)", V: func(o hash.Hasher) { _ = o.SumHash(); _, _ = o.Write(make([]byte, h.rate)) }},
			val{C: "ComputeHash", V: func(o hash.Hasher) { _ = o.ComputeHash([]byte("x")) }},
			val{C: "Write,Reset", V: func(o hash.Hasher) { _, _ = o.Write([]byte{1}); o.Reset() }},
			val{C: "SumHash,Reset", V: func(o hash.Hasher) { _ = o.SumHash(); o.Reset() }})
		opP := listP("then", 0, val{C: "SumHash", V: 0}, val{C: "ComputeHash(32B)", V: 1}, val{C: "Reset,SumHash", V: 2}, val{C: "Write(rate+1),SumHash", V: 3})
		cov := func(ms ...string) []string {
			var o []string
			for _, m := range ms {
				o = append(o, "hash."+h.typ+"."+m)
			}
			return o
		}
		covers := cov("Algorithm", "ComputeHash", "SumHash")
		ctor := "hash.New" + h.name
		if h.name == "KMAC128" {
			covers = append(covers, cov("Reset", "Size")...)
			ctor = ""
		} else if h.typ == "(*spongeState)" {
			covers = append(covers, cov("Reset", "Size", "Write")...)
		}
		if ctor != "" {
			covers = append(covers, ctor)
		}
		add(&fn{Name: "hash.Hasher[" + h.name + "]", Covers: covers, Plain: true,
			Params: []param{hist, dataP("data"), opP},
			Call: func(a []any) res {
				o := h.mk()
				size := o.Size()
				a[0].(func(o hash.Hasher))(o)
				d := bs(a[1])
				n, err := o.Write(d)
				if err != nil || n != len(d) {
					return res{err: fmt.Errorf("%w: Write returned (%d,%v) for %d bytes", errDriver, n, err, len(d))}
				}
				var out hash.Hash
				switch in(a[2]) {
				case 0:
					out = o.SumHash()
				case 1:
					out = o.ComputeHash(seedBytes(1, 1, 32))
				case 2:
					o.Reset()
					out = o.SumHash()
				case 3:
					_, _ = o.Write(make([]byte, h.rate+1))
					out = o.SumHash()
				}
				_ = o.Algorithm().String()
				if len(out) != size || o.Size() != size {
					return res{err: fmt.Errorf("%w: digest length %d, Size() %d", errDriver, len(out), size)}
				}
				c1 := o.ComputeHash(d)
				c2 := h.mk().ComputeHash(d)
				if !c1.Equal(c2) {
					return res{err: fmt.Errorf("%w: ComputeHash depends on the previous history", errDriver)}
				}
				return res{}
			}})
	}
	d32 := seedBytes(2, 2, 32)
	add(&fn{Name: "hash.ComputeSHA2_256/ComputeSHA3_256", Covers: []string{"hash.ComputeSHA2_256", "hash.ComputeSHA3_256"},
		Plain: true, Params: []param{bytesP("data", seedBytes(4, 4, 136), false, false, val{C: "135B", V: seedBytes(4, 4, 135)})},
		Call: func(a []any) res {
			var r2, r3 [32]byte
			hash.ComputeSHA2_256(&r2, bs(a[0]))
			hash.ComputeSHA3_256(&r3, bs(a[0]))
			if !hash.Hash(r2[:]).Equal(hash.NewSHA2_256().ComputeHash(bs(a[0]))) || !hash.Hash(r3[:]).Equal(hash.NewSHA3_256().ComputeHash(bs(a[0]))) {
				return res{err: fmt.Errorf("%w: one-shot helper differs from the hasher", errDriver)}
			}
			return res{}
		}})
	add(&fn{Name: "hash.Hash.Equal/Hex/String", Covers: []string{"hash.Hash.Equal", "hash.Hash.Hex", "hash.Hash.String"}, Plain: true,
		Params: []param{bytesP("h", d32, false, false), bytesP("input", d32, false, false)},
		Call: func(a []any) res {
			h := hash.Hash(bs(a[0]))
			_ = h.Hex()
			_ = h.String()
			return res{verdict: verd(h.Equal(hash.Hash(bs(a[1]))))}
		}})
	hp := param{Name: "algo", Base: 2}
	for _, v := range []int{-1, 0, 1, 2, 3, 4, 5, 6, 7, p31} {
		hp.Vals = append(hp.Vals, val{C: intLabel(v), V: v})
	}
	add(&fn{Name: "hash.HashingAlgorithm.String", Covers: []string{"hash.HashingAlgorithm.String"}, Plain: true, Params: []param{hp},
		Call: func(a []any) res { return res{out: fmt.Sprint(len(hash.HashingAlgorithm(in(a[0])).String()) > 0)} }})
}

// ---------------------------------------------------------------------------------------
// package random

func addRandomTable(x *fx, add func(*fn)) {
	cust := []byte("c09-customiz")
	add(&fn{Name: "random.NewChacha20PRG", Covers: []string{"random.NewChacha20PRG"}, Plain: true,
		Params: []param{bytesP("seed", x.seed32, true, false), bytesP("customizer", cust, false, false)},
		Rej:    func(a []any) bool { return len(bs(a[1])) > 12 },
		Call: func(a []any) res {
			p, err := random.NewChacha20PRG(bs(a[0]), bs(a[1]))
			if err == nil {
				p.Read(make([]byte, 70))
				_ = p.UintN(10)
			}
			return res{err: err}
		}})
	good := must(random.NewChacha20PRG(x.seed32, cust))
	good.Read(make([]byte, 100))
	st := good.Store()
	mkState := func(counter uint64) []byte {
		b := append([]byte{}, st...)
		for i := 0; i < 8; i++ {
			b[44+i] = byte(counter >> (8 * i))
		}
		return b
	}
	states := bytesP("stateBytes", st, true, false,
		val{C: "counter=0", V: mkState(0)}, val{C: "counter=63", V: mkState(63)}, val{C: "counter=64", V: mkState(64)},
		val{C: "counter=2^32", V: mkState(1 << 32)}, val{C: "counter=2^38-65", V: mkState(1<<38 - 65)},
		val{C: "counter=2^38-1", V: mkState(1<<38 - 1)}, val{C: "counter=2^38", V: mkState(1 << 38)}, val{C: "counter=2^63", V: mkState(1 << 63)})
	add(&fn{Name: "random.RestoreChacha20PRG", Covers: []string{"random.RestoreChacha20PRG"}, Plain: true,
		Params: []param{states},
		Call: func(a []any) res {
			p, err := random.RestoreChacha20PRG(bs(a[0]))
			if err == nil {
				_ = p.Store()
			}
			return res{err: err}
		}})
	// a PRG after short setup histories. The package documents that avoiding the cycling of the
	// 2^38-byte keystream is the caller's responsibility: restored states that are then read from
	// use counters below 2^38-2^22 (all-0xff seed and nonce, bounded counter); crafted counters at
	// or beyond the period are only passed to the constructor itself (RestoreChacha20PRG above).
	ffBounded := std8(st)[7].V.([]byte)
	for i := 0; i < 8; i++ {
		ffBounded[44+i] = byte(uint64(1<<38-1<<22) >> (8 * i))
	}
	type mkPRG = func() (random.Rand, error)
	fresh := func() (random.Rand, error) { return random.NewChacha20PRG(x.seed32, cust) }
	prgP := listP("prg", 0,
		val{C: "fresh", V: mkPRG(fresh)},
		val{C: "after-Read(1B)", V: mkPRG(func() (random.Rand, error) { p, e := fresh(); p.Read(make([]byte, 1)); return p, e })},
		val{C: "after-Read(65B)", V: mkPRG(func() (random.Rand, error) { p, e := fresh(); p.Read(make([]byte, 65)); return p, e })},
		val{C: "after-UintN,Permutation", V: mkPRG(func() (random.Rand, error) {
			p, e := fresh()
			_ = p.UintN(7)
			_, _ = p.Permutation(5)
			return p, e
		})},
		val{C: "restored(Store)", V: mkPRG(func() (random.Rand, error) { return random.RestoreChacha20PRG(st) })},
		val{C: "restored(counter=2^32)", V: mkPRG(func() (random.Rand, error) { return random.RestoreChacha20PRG(mkState(1 << 32)) })},
		val{C: "restored(ff-seed,ff-nonce,counter=2^38-2^22)", V: mkPRG(func() (random.Rand, error) { return random.RestoreChacha20PRG(ffBounded) })})
	get := func(a any) (random.Rand, error) {
		p, err := a.(mkPRG)()
		if err != nil {
			return nil, fmt.Errorf("%w: %v", errDriver, err)
		}
		return p, nil
	}
	const g = "random.(*genericPRG)."
	add(&fn{Name: "random.Rand.Read/Store", Covers: []string{"random.(*chachaCore).Read", "random.(*chachaPRG).Store"}, Plain: true,
		Params: []param{prgP, listP("buffer", 4, val{C: "nil", V: -1}, val{C: "empty", V: 0}, val{C: "1B", V: 1}, val{C: "63B", V: 63}, val{C: "64B", V: 64},
			val{C: "65B", V: 65}, val{C: "4KiB", V: 4096}, val{C: "2^16B", V: p16})},
		Call: func(a []any) res {
			p, err := get(a[0])
			if err != nil {
				return res{err: err}
			}
			var b []byte
			if n := in(a[1]); n >= 0 {
				b = make([]byte, n)
			}
			p.Read(b)
			p.Read(b)
			if len(p.Store()) != 52 {
				return res{err: fmt.Errorf("%w: Store length", errDriver)}
			}
			return res{}
		}})
	add(&fn{Name: "random.Rand.UintN", Covers: []string{g + "UintN"}, Plain: true,
		// UintN(0) is the documented panic and excluded by construction
		Params: []param{prgP, listP("n", 2, val{C: "1", V: uint64(1)}, val{C: "2", V: uint64(2)}, val{C: "10", V: uint64(10)}, val{C: "255", V: uint64(255)},
			val{C: "256", V: uint64(256)}, val{C: "257", V: uint64(257)}, val{C: "2^31", V: uint64(1 << 31)}, val{C: "2^32", V: uint64(1 << 32)},
			val{C: "2^63", V: uint64(1 << 63)}, val{C: "2^63+1", V: uint64(1<<63 + 1)}, val{C: "2^64-1", V: ^uint64(0)})},
		Call: func(a []any) res {
			p, err := get(a[0])
			if err != nil {
				return res{err: err}
			}
			n := a[1].(uint64)
			for i := 0; i < 3; i++ {
				if v := p.UintN(n); v >= n {
					return res{err: fmt.Errorf("%w: UintN(%d)=%d", errDriver, n, v)}
				}
			}
			return res{}
		}})
	// population sizes: linear memory/time, capped at 2^16 as documented
	popVals := ints(minI64, -1, 0, 1, 2, 3, 255, 256, p16)
	add(&fn{Name: "random.Rand.Permutation", Covers: []string{g + "Permutation"}, Plain: true, Cost: 3,
		Params: []param{prgP, intP("n", 3, popVals...)},
		Rej:    func(a []any) bool { return in(a[1]) < 0 },
		Call: func(a []any) res {
			p, err := get(a[0])
			if err != nil {
				return res{err: err}
			}
			out, err := p.Permutation(in(a[1]))
			if err == nil && len(out) != in(a[1]) {
				return res{err: fmt.Errorf("%w: Permutation length", errDriver)}
			}
			return res{err: err}
		}})
	add(&fn{Name: "random.Rand.SubPermutation", Covers: []string{g + "SubPermutation"}, Plain: true, Cost: 3,
		Params: []param{prgP, intP("n", 3, popVals...), intP("m", 2, popVals...)},
		Rej:    func(a []any) bool { return in(a[2]) < 0 || in(a[1]) < in(a[2]) },
		Call: func(a []any) res {
			p, err := get(a[0])
			if err != nil {
				return res{err: err}
			}
			out, err := p.SubPermutation(in(a[1]), in(a[2]))
			if err == nil && len(out) != in(a[2]) {
				return res{err: fmt.Errorf("%w: SubPermutation length", errDriver)}
			}
			return res{err: err}
		}})
	swapOK := func(n int, bad *bool) func(i, j int) {
		return func(i, j int) {
			if i < 0 || j < 0 || i >= n || j >= n {
				*bad = true
			}
		}
	}
	add(&fn{Name: "random.Rand.Shuffle", Covers: []string{g + "Shuffle"}, Plain: true, Cost: 3,
		Params: []param{prgP, intP("n", 3, popVals...)},
		Rej:    func(a []any) bool { return in(a[1]) < 0 },
		Call: func(a []any) res {
			p, err := get(a[0])
			if err != nil {
				return res{err: err}
			}
			bad := false
			err = p.Shuffle(in(a[1]), swapOK(in(a[1]), &bad))
			if bad {
				return res{err: fmt.Errorf("%w: swap callback got an index outside [0,n)", errDriver)}
			}
			return res{err: err}
		}})
	add(&fn{Name: "random.Rand.Samples", Covers: []string{g + "Samples"}, Plain: true, Cost: 3,
		Params: []param{prgP, intP("n", 3, popVals...), intP("m", 2, popVals...)},
		Rej:    func(a []any) bool { return in(a[2]) < 0 || in(a[1]) < in(a[2]) },
		Call: func(a []any) res {
			p, err := get(a[0])
			if err != nil {
				return res{err: err}
			}
			bad := false
			err = p.Samples(in(a[1]), in(a[2]), swapOK(in(a[1]), &bad))
			if bad {
				return res{err: fmt.Errorf("%w: swap callback got an index outside [0,n)", errDriver)}
			}
			return res{err: err}
		}})
	id256 := make([]int, 256)
	for i := range id256 {
		id256[i] = 255 - i
	}
	add(&fn{Name: "random.EncodePermutation", Covers: []string{"random.EncodePermutation"}, Plain: true,
		Params: []param{listP("perm", 3, val{C: "nil", V: []int(nil)}, val{C: "empty", V: []int{}}, val{C: "[0]", V: []int{0}}, val{C: "[1,0,2]", V: []int{1, 0, 2}},
			val{C: "[0,0]", V: []int{0, 0}}, val{C: "[-1,2^31]", V: []int{-1, p31}}, val{C: "[-2^63,2^63-1,5]", V: []int{minI64, math.MaxInt64, 5}},
			val{C: "reverse(256)", V: id256})},
		Call: func(a []any) res { return res{out: fmt.Sprint(random.EncodePermutation(a[0].([]int)) >= 0)} }})
}
