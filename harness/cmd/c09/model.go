package main

import (
	"errors"
	"fmt"
	"math"
	"sort"
	"strings"

	crypto "github.com/onflow/crypto"
)

// ---------------------------------------------------------------------------------------
// Finite input domains

// val is one representative of an input class of one parameter.
type val struct {
	C   string // class label (no spaces)
	V   any
	Rej bool // invalid by documented length/range: the call must not report success
}

type param struct {
	Name string
	Vals []val
	Base int // index of the value used in the all-valid baseline
}

const (
	vNone = iota
	vTrue
	vFalse
)

// res is what a driver observed.
type res struct {
	err     error
	verdict int    // vNone / vTrue / vFalse for Verify-like functions
	out     string // short class of a non-error output (outcome histogram)
}

// fn is one row of the driver table.
type fn struct {
	Name   string   // used in case ids and violation keys
	Covers []string // names as produced by listExported
	Params []param
	Call   func(a []any) res
	Plain  bool               // hash / random: a plain non-nil error is the documented report
	Rej    func(a []any) bool // optional: inputs that are invalid by documented length / range
	NoBase bool               // the baseline is not required to succeed (documented failure)
	NoRej  bool               // the function documents that it accepts invalid values (String(), TrustedAdd)
	Cost   int                // rough relative cost of one call (chunk sizing), default 1

	tuples [][]int // enumerated index tuples (lazily built)
	mode   string
}

func std8(valid []byte) []val {
	l := len(valid)
	cut := valid
	if l > 0 {
		cut = valid[:l-1]
	}
	one := []byte{0x01}
	if l > 0 {
		one = []byte{valid[0]}
	}
	big := make([]byte, 4096)
	for i := range big {
		if l > 0 {
			big[i] = valid[i%l]
		} else {
			big[i] = byte(i)
		}
	}
	ff := make([]byte, l)
	for i := range ff {
		ff[i] = 0xff
	}
	return []val{
		{C: "nil", V: []byte(nil)},
		{C: "empty", V: []byte{}},
		{C: "1B", V: one},
		{C: fmt.Sprintf("valid-1(%dB)", l-1), V: append([]byte{}, cut...)},
		{C: fmt.Sprintf("valid(%dB)", l), V: append([]byte{}, valid...)},
		{C: fmt.Sprintf("valid+1(%dB)", l+1), V: append(append([]byte{}, valid...), 0)},
		{C: "4KiB", V: big},
		{C: fmt.Sprintf("ff(%dB)", l), V: ff},
	}
}

// bytesP builds the standard byte-slice domain around a valid value; fixed marks every class
// whose length differs from the valid one as must-reject; ffInvalid marks the all-0xff value too.
func bytesP(name string, valid []byte, fixed, ffInvalid bool, extra ...val) param {
	vs := std8(valid)
	for i := range vs {
		if fixed && len(vs[i].V.([]byte)) != len(valid) {
			vs[i].Rej = true
		}
	}
	vs[7].Rej = ffInvalid
	vs = append(vs, extra...)
	return param{Name: name, Vals: vs, Base: 4}
}

// msgP is a free-length message.
func msgP(name string, valid []byte) param {
	big := make([]byte, 4096)
	for i := range big {
		big[i] = byte(i*7 + 3)
	}
	return param{Name: name, Base: 3, Vals: []val{
		{C: "nil", V: []byte(nil)}, {C: "empty", V: []byte{}}, {C: "1B", V: []byte{0x61}},
		{C: fmt.Sprintf("valid(%dB)", len(valid)), V: append([]byte{}, valid...)}, {C: "4KiB", V: big}}}
}

func intLabel(v int) string {
	switch v {
	case math.MinInt64:
		return "-2^63"
	case 1 << 31:
		return "2^31"
	case 1 << 16:
		return "2^16"
	case math.MaxInt64:
		return "2^63-1"
	}
	return fmt.Sprint(v)
}

// intP builds an integer domain; base is the baseline value (must be in vals).
func intP(name string, base int, vals ...int) param {
	seen := map[int]bool{}
	p := param{Name: name, Base: -1}
	for _, v := range vals {
		if seen[v] {
			continue
		}
		seen[v] = true
		if v == base {
			p.Base = len(p.Vals)
		}
		p.Vals = append(p.Vals, val{C: intLabel(v), V: v})
	}
	if p.Base < 0 {
		panic("intP: baseline not in domain: " + name)
	}
	return p
}

func (p param) rejIf(f func(v any) bool) param {
	vs := append([]val{}, p.Vals...)
	for i := range vs {
		if f(vs[i].V) {
			vs[i].Rej = true
		}
	}
	p.Vals = vs
	return p
}

func listP(name string, base int, vals ...val) param {
	return param{Name: name, Vals: vals, Base: base}
}

// ---------------------------------------------------------------------------------------
// Enumeration of the cases of one function

const crossCap = 40000

func (f *fn) build(devBound int) {
	if f.tuples != nil {
		return
	}
	total := 1
	for _, p := range f.Params {
		total *= len(p.Vals)
		if total > 1<<40 {
			break
		}
	}
	base := make([]int, len(f.Params))
	for i, p := range f.Params {
		base[i] = p.Base
	}
	if total <= crossCap {
		f.mode = "full-cross-product"
		idx := make([]int, len(f.Params))
		for {
			f.tuples = append(f.tuples, append([]int{}, idx...))
			k := len(idx) - 1
			for k >= 0 {
				idx[k]++
				if idx[k] < len(f.Params[k].Vals) {
					break
				}
				idx[k] = 0
				k--
			}
			if k < 0 {
				break
			}
		}
		return
	}
	f.mode = fmt.Sprintf("<=%d-parameters-off-baseline", devBound)
	f.tuples = append(f.tuples, append([]int{}, base...))
	var rec func(start int, cur []int, left int)
	rec = func(start int, cur []int, left int) {
		if left == 0 {
			return
		}
		for i := start; i < len(f.Params); i++ {
			for v := range f.Params[i].Vals {
				if v == base[i] {
					continue
				}
				nx := append([]int{}, cur...)
				nx[i] = v
				f.tuples = append(f.tuples, nx)
				rec(i+1, nx, left-1)
			}
		}
	}
	rec(0, base, devBound)
}

func (f *fn) isBase(idx []int) bool {
	for i, p := range f.Params {
		if idx[i] != p.Base {
			return false
		}
	}
	return true
}

func (f *fn) args(idx []int) []any {
	a := make([]any, len(idx))
	for i, p := range f.Params {
		a[i] = p.Vals[idx[i]].V
	}
	return a
}

// caseID names the (function, input-class tuple).
func (f *fn) caseID(idx []int) string {
	var sb strings.Builder
	sb.WriteString(f.Name)
	sb.WriteByte(':')
	for i, p := range f.Params {
		if i > 0 {
			sb.WriteByte(',')
		}
		sb.WriteString(p.Name)
		sb.WriteByte('=')
		sb.WriteString(p.Vals[idx[i]].C)
	}
	return sb.String()
}

// classKey lists only the parameters that are off the valid baseline.
func (f *fn) classKey(idx []int) string {
	var parts []string
	for i, p := range f.Params {
		if idx[i] != p.Base {
			parts = append(parts, p.Name+"="+p.Vals[idx[i]].C)
		}
	}
	if len(parts) == 0 {
		return "valid-baseline"
	}
	return strings.Join(parts, ",")
}

func (f *fn) mustReject(idx []int, a []any) bool {
	if f.NoRej {
		return false
	}
	for i, p := range f.Params {
		if p.Vals[idx[i]].Rej {
			return true
		}
	}
	if f.Rej != nil {
		return f.Rej(a)
	}
	return false
}

// ---------------------------------------------------------------------------------------
// Oracle

// errClass maps an error onto the documented predicates of the library.
func errClass(err error) string {
	switch {
	case err == nil:
		return "nil"
	case crypto.IsInvalidInputsError(err):
		return "InvalidInputs"
	case crypto.IsInvalidSignatureError(err):
		return "InvalidSignature"
	case crypto.IsNotBLSKeyError(err):
		return "NotBLSKey"
	case crypto.IsNilHasherError(err):
		return "NilHasher"
	case crypto.IsInvalidHasherSizeError(err):
		return "InvalidHasherSize"
	case crypto.IsBLSAggregateEmptyListError(err):
		return "BLSAggregateEmptyList"
	case crypto.IsDuplicatedSignerError(err):
		return "DuplicatedSigner"
	case crypto.IsNotEnoughSharesError(err):
		return "NotEnoughShares"
	case crypto.IsDKGFailureError(err):
		return "DKGFailure"
	case crypto.IsDKGInvalidStateTransitionError(err):
		return "DKGInvalidStateTransition"
	}
	return "untyped"
}

// finding is a failed oracle on one case.
type finding struct {
	Kind string `json:"kind"` // panic | untyped-error | accepted | baseline
	Sig  string `json:"sig"`  // normalised signature used to recognise the same failure while minimising
	What string `json:"what"`
}

var errDriver = errors.New("driver error")

// errWrongAnswer: the driver itself saw the library report success for something invalid
// (a verdict true for a malformed signature, a reconstructed signature that does not verify ...).
// That is a finding about the library ("accepted"), not a harness problem.
var errWrongAnswer = errors.New("library accepted an invalid input")

// exec runs one case in-process. A Go panic is recovered; a C abort / ASan report kills the
// process and is attributed by the parent.
func (f *fn) exec(idx []int) (outcome string, fd *finding) {
	a := f.args(idx)
	var r res
	pan := safely(func() { r = f.Call(a) })
	if pan != "" {
		return "panic", &finding{Kind: "panic", Sig: normPanic(pan), What: "Go panic: " + pan}
	}
	ec := errClass(r.err)
	outcome = "ok"
	if r.err != nil {
		outcome = "err:" + ec
		if f.Plain && ec == "untyped" {
			outcome = "err:plain"
		}
	} else if r.verdict == vFalse {
		outcome = "false"
	} else if r.verdict == vTrue {
		outcome = "true"
	}
	if r.out != "" {
		outcome += "/" + r.out
	}
	if errors.Is(r.err, errWrongAnswer) {
		return outcome, &finding{Kind: "accepted", Sig: "accepted", What: r.err.Error()}
	}
	if errors.Is(r.err, errDriver) {
		return outcome, &finding{Kind: "baseline", Sig: "driver", What: r.err.Error()}
	}
	if r.err != nil && ec == "untyped" && !f.Plain {
		return outcome, &finding{Kind: "untyped-error", Sig: "untyped",
			What: fmt.Sprintf("error %q satisfies none of the documented error predicates", r.err.Error())}
	}
	if r.err == nil && r.verdict != vFalse && f.mustReject(idx, a) {
		return outcome, &finding{Kind: "accepted", Sig: "accepted",
			What: "an input that is invalid by its documented length/range was reported as success (nil error, no false verdict)"}
	}
	if f.isBase(idx) && !f.NoBase && (r.err != nil || r.verdict == vFalse) {
		return outcome, &finding{Kind: "baseline", Sig: "baseline",
			What: fmt.Sprintf("harness: the all-valid baseline of %s did not succeed: err=%v verdict=%d", f.Name, r.err, r.verdict)}
	}
	return outcome, nil
}

func safely(f func()) (p string) {
	defer func() {
		if r := recover(); r != nil {
			p = fmt.Sprint(r)
		}
	}()
	f()
	return ""
}

// normPanic removes the concrete numbers from a panic text so that the same defect reached
// through different tuples is recognised while minimising.
func normPanic(s string) string {
	var sb strings.Builder
	for _, r := range s {
		if r >= '0' && r <= '9' {
			if sb.Len() == 0 || !strings.HasSuffix(sb.String(), "#") {
				sb.WriteByte('#')
			}
			continue
		}
		sb.WriteRune(r)
	}
	return sb.String()
}

// minimise resets every off-baseline parameter that is not needed for the same failure.
func (f *fn) minimise(idx []int, fd *finding, announce func(id string)) []int {
	cur := append([]int{}, idx...)
	for changed := true; changed; {
		changed = false
		for i, p := range f.Params {
			if cur[i] == p.Base {
				continue
			}
			try := append([]int{}, cur...)
			try[i] = p.Base
			announce(f.caseID(try))
			_, g := f.exec(try)
			if g != nil && g.Kind == fd.Kind && g.Sig == fd.Sig {
				cur = try
				changed = true
			}
		}
	}
	return cur
}

func sortedKeys[V any](m map[string]V) []string {
	ks := make([]string, 0, len(m))
	for k := range m {
		ks = append(ks, k)
	}
	sort.Strings(ks)
	return ks
}
