//go:build verif

// C18: the stateful threshold-signature object is linearizable under concurrent use.
// Stateless model checking of the REAL inspector/participant: all interleavings (up to a
// preemption bound) of 2-3 threads over the hooked RWMutex operations and statement-level
// yield points of bls_thresholdsign.go; every execution's call/return history must be
// linearizable w.r.t. a sequential reference model.
package main

import (
	"bufio"
	"encoding/json"
	"fmt"
	"os"
	"os/exec"
	"reflect"
	"sort"
	"strconv"
	"strings"
	"sync"
	"time"

	"github.com/anishathalye/porcupine"
	crypto "github.com/onflow/crypto"
	"github.com/onflow/crypto/zzverif/vsched"

	"verif/harness/ev"
	"verif/harness/space"
)

const (
	N = 3
	T = 1
)

// ---------------------------------------------------------------- fixture

type fixture struct {
	sks     []crypto.PrivateKey
	pks     []crypto.PublicKey
	group   crypto.PublicKey
	valid   [][]byte // valid share of signer i
	bad     []byte   // malformed share
	groupSg []byte   // expected group signature
	msg     []byte
	tag     string
}

func newFixture(seed int64) *fixture {
	s := make([]byte, 32)
	for i := range s {
		s[i] = byte(int64(i*3+1) + seed)
	}
	sks, pks, g, err := crypto.BLSThresholdKeyGen(N, T, s)
	if err != nil {
		panic(err)
	}
	f := &fixture{sks: sks, pks: pks, group: g, msg: []byte("c18 message"), tag: "c18-tag"}
	h := crypto.NewExpandMsgXOFKMAC128(f.tag)
	for i := 0; i < N; i++ {
		sg, err := sks[i].Sign(f.msg, h)
		if err != nil {
			panic(err)
		}
		f.valid = append(f.valid, sg)
	}
	f.bad = crypto.BLSInvalidSignature()
	gs, err := crypto.BLSReconstructThresholdSignature(N, T, []crypto.Signature{f.valid[0], f.valid[1]}, []int{0, 1})
	if err != nil {
		panic(err)
	}
	ok, _ := g.Verify(gs, f.msg, h)
	if !ok {
		panic("fixture: group signature does not verify")
	}
	// uniqueness sanity: another subset gives the same bytes
	gs2, _ := crypto.BLSReconstructThresholdSignature(N, T, []crypto.Signature{f.valid[2], f.valid[1]}, []int{2, 1})
	if string(gs) != string(gs2) {
		panic("fixture: group signature not unique")
	}
	f.groupSg = gs
	return f
}

func (f *fixture) object() crypto.ThresholdSignatureParticipant {
	p, err := crypto.NewBLSThresholdSignatureParticipant(f.group, f.pks, T, 2, f.sks[2], f.msg, f.tag)
	if err != nil {
		panic(err)
	}
	return p
}

func errc(err error) string {
	switch {
	case err == nil:
		return "nil"
	case crypto.IsDuplicatedSignerError(err):
		return "dup"
	case crypto.IsNotEnoughSharesError(err):
		return "notenough"
	case crypto.IsInvalidInputsError(err):
		return "input"
	case crypto.IsInvalidSignatureError(err):
		return "invalidsig"
	}
	return "other"
}

// ---------------------------------------------------------------- operations and the sequential model

type opDef struct {
	Name string
	Do   func(f *fixture, o crypto.ThresholdSignatureParticipant) string
	Mod  func(f *fixture, m *model) string
}

type model struct {
	shares map[int]string // retained share bytes per signer
	cached bool
}

func (m *model) clone() *model {
	n := &model{shares: map[int]string{}, cached: m.cached}
	for k, v := range m.shares {
		n.shares[k] = v
	}
	return n
}
func (m *model) enough() bool { return len(m.shares) == T+1 }
func (m *model) allValid(f *fixture) bool {
	for i, s := range m.shares {
		if s != string(f.valid[i]) {
			return false
		}
	}
	return true
}

func trustedAdd(name string, idx int, share func(f *fixture) []byte) opDef {
	return opDef{name,
		func(f *fixture, o crypto.ThresholdSignatureParticipant) string {
			e, err := o.TrustedAdd(idx, share(f))
			return fmt.Sprintf("%v,%s", e, errc(err))
		},
		func(f *fixture, m *model) string {
			if idx < 0 || idx >= N {
				return "false,input"
			}
			if _, ok := m.shares[idx]; ok {
				return "false,dup"
			}
			if m.enough() {
				return "true,nil"
			}
			m.shares[idx] = string(share(f))
			return fmt.Sprintf("%v,nil", m.enough())
		}}
}

func verifyAndAdd(name string, idx int, share func(f *fixture) []byte) opDef {
	return opDef{name,
		func(f *fixture, o crypto.ThresholdSignatureParticipant) string {
			v, e, err := o.VerifyAndAdd(idx, share(f))
			return fmt.Sprintf("%v,%v,%s", v, e, errc(err))
		},
		func(f *fixture, m *model) string {
			if idx < 0 || idx >= N {
				return "false,false,input"
			}
			if _, ok := m.shares[idx]; ok {
				return "false,false,dup"
			}
			v := string(share(f)) == string(f.valid[idx])
			if v && !m.enough() {
				m.shares[idx] = string(share(f))
			}
			return fmt.Sprintf("%v,%v,nil", v, m.enough())
		}}
}

func thresholdSig() opDef {
	return opDef{"ThresholdSignature()",
		func(f *fixture, o crypto.ThresholdSignatureParticipant) string {
			s, err := o.ThresholdSignature()
			if err != nil {
				if c := errc(err); c == "notenough" {
					return "notenough"
				}
				return "error" // an invalid retained share: some error, never a signature
			}
			return fmt.Sprintf("sig:%x", []byte(s))
		},
		func(f *fixture, m *model) string {
			if m.cached {
				return fmt.Sprintf("sig:%x", f.groupSg)
			}
			if !m.enough() {
				return "notenough"
			}
			if !m.allValid(f) {
				return "error"
			}
			m.cached = true
			return fmt.Sprintf("sig:%x", f.groupSg)
		}}
}

func hasShare(idx int) opDef {
	return opDef{fmt.Sprintf("HasShare(%d)", idx),
		func(f *fixture, o crypto.ThresholdSignatureParticipant) string {
			h, err := o.HasShare(idx)
			return fmt.Sprintf("%v,%s", h, errc(err))
		},
		func(f *fixture, m *model) string {
			if idx < 0 || idx >= N {
				return "false,input"
			}
			_, ok := m.shares[idx]
			return fmt.Sprintf("%v,nil", ok)
		}}
}

var ops = []opDef{
	trustedAdd("TrustedAdd(0,valid)", 0, func(f *fixture) []byte { return f.valid[0] }),
	trustedAdd("TrustedAdd(1,valid)", 1, func(f *fixture) []byte { return f.valid[1] }),
	trustedAdd("TrustedAdd(0,share-of-1)", 0, func(f *fixture) []byte { return f.valid[1] }),
	trustedAdd("TrustedAdd(2,malformed)", 2, func(f *fixture) []byte { return f.bad }),
	verifyAndAdd("VerifyAndAdd(0,valid)", 0, func(f *fixture) []byte { return f.valid[0] }),
	verifyAndAdd("VerifyAndAdd(1,valid)", 1, func(f *fixture) []byte { return f.valid[1] }),
	verifyAndAdd("VerifyAndAdd(1,invalid)", 1, func(f *fixture) []byte { return f.valid[0] }),
	verifyAndAdd("VerifyAndAdd(-1,valid)", -1, func(f *fixture) []byte { return f.valid[0] }),
	hasShare(0),
	{"EnoughShares()",
		func(f *fixture, o crypto.ThresholdSignatureParticipant) string { return fmt.Sprint(o.EnoughShares()) },
		func(f *fixture, m *model) string { return fmt.Sprint(m.enough()) }},
	{"VerifyShare(0,valid)",
		func(f *fixture, o crypto.ThresholdSignatureParticipant) string {
			v, err := o.VerifyShare(0, f.valid[0])
			return fmt.Sprintf("%v,%s", v, errc(err))
		},
		func(f *fixture, m *model) string { return "true,nil" }},
	{"VerifyThresholdSignature(expected)",
		func(f *fixture, o crypto.ThresholdSignatureParticipant) string {
			v, err := o.VerifyThresholdSignature(f.groupSg)
			return fmt.Sprintf("%v,%s", v, errc(err))
		},
		func(f *fixture, m *model) string { return "true,nil" }},
	{"SignShare()",
		func(f *fixture, o crypto.ThresholdSignatureParticipant) string {
			s, err := o.SignShare()
			return fmt.Sprintf("%x,%s", []byte(s), errc(err))
		},
		func(f *fixture, m *model) string { return fmt.Sprintf("%x,nil", f.valid[2]) }},
	thresholdSig(),
	hasShare(1), // 14
	hasShare(2), // 15
}

// the 8 state-changing / observing operations used in the 2x2 programs
var core = []int{0, 1, 2, 4, 5, 8, 9, 13}

// final observer thread (runs after all others): pins the final state
var observer = []int{8, 14, 15, 9, 13, 13}

// ---------------------------------------------------------------- programs

type program struct {
	ID      int
	Pre     []int   // sequential pre-history
	Threads [][]int // op indices per thread
}

func (p program) String() string {
	var t []string
	for _, th := range p.Threads {
		var n []string
		for _, o := range th {
			n = append(n, ops[o].Name)
		}
		t = append(t, "["+strings.Join(n, "; ")+"]")
	}
	pre := ""
	if len(p.Pre) > 0 {
		var n []string
		for _, o := range p.Pre {
			n = append(n, ops[o].Name)
		}
		pre = "pre{" + strings.Join(n, "; ") + "} "
	}
	return pre + strings.Join(t, " || ")
}

func programs(thorough bool) []program {
	var ps []program
	add := func(pre []int, th ...[]int) {
		ps = append(ps, program{ID: len(ps), Pre: pre, Threads: th})
	}
	A := 14
	// two threads, one operation each (unordered pairs incl. equal)
	for i := 0; i < A; i++ {
		for j := i; j < A; j++ {
			add(nil, []int{i}, []int{j})
		}
	}
	// the same pairs from non-initial states: one valid share present (the next add reaches t+1),
	// one wrong share present, a full valid pool, a full pool holding a wrong (well-formed) share,
	// a full pool holding a malformed share
	preShare := []int{16}
	for _, pre := range [][]int{preShare, {2}, {0, 1}, {2, 1}, {3, 1}, {wrongLengthOp, 22}} {
		for i := 0; i < A; i++ {
			for j := i; j < A; j++ {
				add(pre, []int{i}, []int{j})
			}
		}
	}
	// boundary-index operations against every operation of the alphabet
	for _, pre := range [][]int{nil, preShare} {
		for _, b := range boundaryOps {
			for j := 0; j < A; j++ {
				add(pre, []int{b}, []int{j})
			}
		}
	}
	// a share of the wrong length against every operation of the alphabet
	for _, pre := range [][]int{nil, {22}} {
		for j := 0; j < A; j++ {
			add(pre, []int{wrongLengthOp}, []int{j})
		}
	}
	// VerifyShare of an INVALID share (another signer's share, a malformed string) against every operation,
	// also when exactly those bytes already sit in the pool (TrustedAdd does not check them): the verdict
	// is the share's validity, whatever the pool holds
	for _, pre := range [][]int{nil, {2}, {3}, {2, 3}} {
		for _, v := range verifyInvalidOps {
			for j := 0; j < A; j++ {
				add(pre, []int{v}, []int{j})
			}
			add(pre, []int{v}, []int{v})
		}
	}
	// three threads, one operation each
	for i := 0; i < A; i++ {
		for j := i; j < A; j++ {
			for k := j; k < A; k++ {
				if !thorough && !(isAdd(i) || isAdd(j) || isAdd(k)) {
					continue // quick: at least one mutating operation
				}
				add(nil, []int{i}, []int{j}, []int{k})
			}
		}
	}
	// two threads, two operations each over the core alphabet
	var seqs [][]int
	for _, a := range core {
		for _, b := range core {
			seqs = append(seqs, []int{a, b})
		}
	}
	for i := range seqs {
		for j := i; j < len(seqs); j++ {
			add(nil, seqs[i], seqs[j])
		}
	}
	// "read your own write while somebody else is busy": thread 1 = a mutating operation followed
	// by any operation, thread 2 = one operation, from three pre-states. Switching at the boundary
	// between thread 1's two operations is free, so "a1 completes; the other thread is preempted
	// inside its operation; a2 observes" costs one preemption.
	for _, pre := range [][]int{nil, preShare, {0, 1}} {
		for a1 := 0; a1 < A; a1++ {
			if !isAdd(a1) {
				continue
			}
			// a2: in the quick tier the operations that observe the pool or add to it again
			// (thorough: every operation)
			for a2 := 0; a2 < A; a2++ {
				if !thorough && !(a2 == 0 || a2 == 4 || a2 == 8 || a2 == 9 || a2 == 13 || a2 == 14 || a2 == 15) {
					continue
				}
				for b := 0; b < A; b++ {
					add(pre, []int{a1, a2}, []int{b})
				}
			}
		}
	}
	if thorough {
		for i := 0; i < A; i++ {
			for j := i; j < A; j++ {
				for k := j; k < A; k++ {
					add(preShare, []int{i}, []int{j}, []int{k})
				}
			}
		}
	}
	return ps
}

func isAdd(i int) bool { return i <= 6 || i == 13 }

func init() {
	// op 16: pre-history helper: TrustedAdd(2, valid share of signer 2)
	ops = append(ops, trustedAdd("TrustedAdd(2,valid)", 2, func(f *fixture) []byte { return f.valid[2] }))
	// ops 17..20: the boundary index n (one past the last signer) on every indexed operation
	ops = append(ops,
		trustedAdd("TrustedAdd(n,valid)", N, func(f *fixture) []byte { return f.valid[0] }),
		verifyAndAdd("VerifyAndAdd(n,valid)", N, func(f *fixture) []byte { return f.valid[0] }),
		hasShare(N),
		opDef{"VerifyShare(n,valid)",
			func(f *fixture, o crypto.ThresholdSignatureParticipant) string {
				v, err := o.VerifyShare(N, f.valid[0])
				return fmt.Sprintf("%v,%s", v, errc(err))
			},
			func(f *fixture, m *model) string { return "false,input" }},
	)
}

var boundaryOps = []int{17, 18, 19, 20}

// op 21: a share of the wrong length (TrustedAdd does not look at it; reconstruction must refuse it
// and leave the pool as it is)
var wrongLengthOp = 21

func init() {
	ops = append(ops, trustedAdd("TrustedAdd(2,47-bytes)", 2, func(f *fixture) []byte { return f.valid[2][:47] }))
	// op 22: pre-history helper. Reconstruction walks the share MAP and stops at the first share of
	// the wrong length, so a pool mixing usable and wrong-length shares would make the number of
	// executed statements depend on Go's map iteration order (not owned by the scheduler): the
	// wrong-length pre-states hold wrong-length shares only.
	ops = append(ops, trustedAdd("TrustedAdd(1,47-bytes)", 1, func(f *fixture) []byte { return f.valid[1][:47] }))
}

// ops 23, 24: VerifyShare of invalid shares (the bytes of ops 2 and 3)
var verifyInvalidOps = []int{23, 24}

func init() {
	ops = append(ops,
		opDef{"VerifyShare(0,share-of-1)",
			func(f *fixture, o crypto.ThresholdSignatureParticipant) string {
				v, err := o.VerifyShare(0, f.valid[1])
				return fmt.Sprintf("%v,%s", v, errc(err))
			},
			func(f *fixture, m *model) string { return "false,nil" }},
		opDef{"VerifyShare(2,malformed)",
			func(f *fixture, o crypto.ThresholdSignatureParticipant) string {
				v, err := o.VerifyShare(2, f.bad)
				return fmt.Sprintf("%v,%s", v, errc(err))
			},
			func(f *fixture, m *model) string { return "false,nil" }},
	)
}

// ---------------------------------------------------------------- linearizability

type callRec struct {
	Thread   int
	Op       int
	Inv, Res int
	Out      string
}

// porcupineSays is an independent verdict on the same history by porcupine v1.3.0 (its own search
// over the same sequential model): a cross-check of the brute-force search below. Intervals are
// closed on both sides in both checkers.
func porcupineSays(f *fixture, pre []int, calls []callRec) bool {
	pm := porcupine.Model{
		Init: func() interface{} {
			m0 := &model{shares: map[int]string{}}
			for _, o := range pre {
				ops[o].Mod(f, m0)
			}
			return m0
		},
		Step: func(state, input, output interface{}) (bool, interface{}) {
			m := state.(*model).clone()
			out := ops[input.(int)].Mod(f, m)
			return out == output.(string), m
		},
		Equal: func(a, b interface{}) bool {
			x, y := a.(*model), b.(*model)
			if x.cached != y.cached || len(x.shares) != len(y.shares) {
				return false
			}
			for k, v := range x.shares {
				if w, ok := y.shares[k]; !ok || w != v {
					return false
				}
			}
			return true
		},
	}
	var po []porcupine.Operation
	for _, c := range calls {
		po = append(po, porcupine.Operation{ClientId: c.Thread % 100, Input: c.Op, Call: int64(c.Inv), Output: c.Out, Return: int64(c.Res)})
	}
	return porcupine.CheckOperations(pm, po)
}

// linearizable searches a total order consistent with program order and real time that the model explains.
func linearizable(f *fixture, pre []int, calls []callRec) (bool, []int) {
	n := len(calls)
	used := make([]bool, n)
	order := make([]int, 0, n)
	m0 := &model{shares: map[int]string{}}
	for _, o := range pre {
		ops[o].Mod(f, m0)
	}
	var rec func(m *model) bool
	rec = func(m *model) bool {
		if len(order) == n {
			return true
		}
		for i := 0; i < n; i++ {
			if used[i] {
				continue
			}
			// i may come next only if no unused call finished before i was invoked
			ok := true
			for j := 0; j < n; j++ {
				if j != i && !used[j] && calls[j].Res < calls[i].Inv {
					ok = false
					break
				}
			}
			if !ok {
				continue
			}
			m2 := m.clone()
			if ops[calls[i].Op].Mod(f, m2) != calls[i].Out {
				continue
			}
			used[i] = true
			order = append(order, i)
			if rec(m2) {
				return true
			}
			order = order[:len(order)-1]
			used[i] = false
		}
		return false
	}
	ok := rec(m0)
	return ok, order
}

// ---------------------------------------------------------------- worker

type progResult struct {
	Prog       int      `json:"prog"`
	Desc       string   `json:"desc"`
	Execs      int      `json:"execs"`
	Points     int      `json:"points"`
	MaxPoints  int      `json:"max_points"`
	Capped     bool     `json:"capped"`
	Outcomes   int      `json:"outcomes"`
	Violations []violRec `json:"violations,omitempty"`
	Replayed   int      `json:"replayed"`
	CrossChecked int `json:"cross_checked_with_porcupine,omitempty"`
	Nondet       int `json:"nondeterministic_under_fixed_schedule,omitempty"`
	Retries      int `json:"retries,omitempty"`
	Unreplayable int `json:"unreplayable_prefixes,omitempty"`
}

type violRec struct {
	Key      string   `json:"key"`
	What     string   `json:"what"`
	Program  string   `json:"program"`
	Prog     program  `json:"prog"`
	Schedule []int    `json:"schedule"`
	History  []string `json:"history"`
}

var yieldFilter = func(loc string) bool { return strings.HasPrefix(loc, "bls_thresholdsign.go:") }

func runProgram(f *fixture, p program, bound, maxExec int) progResult {
	res := progResult{Prog: p.ID, Desc: p.String()}
	crossN := 0
	outcomes := map[string]bool{}
	var calls []callRec
	var obj crypto.ThresholdSignatureParticipant
	var mu sync.Mutex
	mk := func() []func() {
		obj = f.object()
		calls = nil
		for _, o := range p.Pre {
			ops[o].Do(f, obj)
		}
		var bodies []func()
		for ti, th := range p.Threads {
			ti, th := ti, th
			bodies = append(bodies, func() {
				for k, o := range th {
					if k > 0 {
						vsched.Boundary("op-boundary") // between two operations: switching away is free
					}
					inv := vsched.StepIndex()
					out := ops[o].Do(f, obj)
					mu.Lock()
					calls = append(calls, callRec{ti, o, inv, vsched.StepIndex(), out})
					mu.Unlock()
				}
			})
		}
		return bodies
	}
	check := func(x *vsched.Exec) {
		hist := func(cs []callRec) []string {
			var h []string
			for _, c := range cs {
				h = append(h, fmt.Sprintf("T%d %s [%d,%d] -> %s", c.Thread, ops[c.Op].Name, c.Inv, c.Res, c.Out))
			}
			return h
		}
		v := func(key, what string, cs []callRec) {
			if len(res.Violations) < 5 {
				res.Violations = append(res.Violations, violRec{key, what, p.String(), p, x.Choices(), hist(cs)})
			}
		}
		if x.Diverged != "" {
			return // (Explore never hands over a diverged execution; kept as a guard)
		}
		if x.Deadlock {
			v("deadlock", "no enabled thread while threads are unfinished", calls)
			return
		}
		if x.Panic != "" {
			v("panic:"+strings.Fields(x.Panic)[0], "panic: "+x.Panic, calls)
			return
		}
		// final observer (sequential, after everything)
		all := append([]callRec{}, calls...)
		base := 1 << 30
		for k, o := range observer {
			all = append(all, callRec{99, o, base + 2*k, base + 2*k + 1, ops[o].Do(f, obj)})
		}
		// structural invariants on the retained state
		// (read by reflection; a tree in which the field was renamed just loses this extra invariant -
		// linearizability below does not depend on it)
		if shares, ok := sharesField(obj); ok && shares.Len() > T+1 {
			v("invariant:more-than-t+1-shares", fmt.Sprintf("%d shares retained", shares.Len()), all)
			return
		}
		ok, _ := linearizable(f, p.Pre, all)
		// cross-check of the oracle itself on a deterministic stride of executions and on every
		// execution judged non-linearizable
		if crossN++; !ok || crossN%7 == 0 {
			if pv := porcupineSays(f, p.Pre, all); pv != ok {
				fmt.Fprintf(os.Stderr, "HARNESS-ERROR: the brute-force linearizability search says %v, porcupine says %v for %s: %v\n", ok, pv, p, hist(all))
				os.Exit(2)
			}
			res.CrossChecked++
		}
		if !ok {
			v("not-linearizable:"+progClass(p), "no sequential order of the calls consistent with real-time order explains the observed return values", all)
		}
		var o []string
		for _, c := range all {
			o = append(o, fmt.Sprintf("%d:%d:%s", c.Thread, c.Op, c.Out))
		}
		sort.Strings(o)
		outcomes[strings.Join(o, "|")] = true
	}
	var lastSched []int
	var lastHist string
	histOf := func() string {
		var h []string
		for _, c := range calls {
			h = append(h, fmt.Sprintf("T%d %d [%d,%d] -> %s", c.Thread, c.Op, c.Inv, c.Res, c.Out))
		}
		return strings.Join(h, "\n")
	}
	inner := check
	check = func(x *vsched.Exec) {
		lastSched, lastHist = x.Choices(), histOf()
		inner(x)
	}
	st := vsched.Explore(mk, bound, maxExec, nil, check)
	// determinism / conformance: the last explored schedule is replayed once more from scratch and
	// must give the identical call/return history
	if lastSched != nil {
		same := false
		for try := 0; try < 40 && !same; try++ {
			x := vsched.Run(mk(), lastSched, nil)
			same = x.Diverged == "" && histOf() == lastHist
		}
		if same {
			res.Replayed++
		} else {
			// the code under test does not behave the same twice under one schedule (control flow
			// depending on something the scheduler does not own, e.g. map iteration order)
			res.Nondet++
		}
	}
	res.Execs, res.Points, res.MaxPoints, res.Capped = st.Executions, st.Points, st.MaxPoints, st.Capped || st.Unreplayable > 0
	res.Retries, res.Unreplayable = st.Retries, st.Unreplayable
	res.Outcomes = len(outcomes)
	// determinism: replay the first and (if any) the first violating schedule twice
	if len(res.Violations) > 0 {
		sched := res.Violations[0].Schedule
		// a violation is believed only if its schedule reproduces the same history at least twice
		// more; the code under test may not be deterministic under one schedule (map iteration
		// order), so up to 40 attempts are made
		repro := 0
		for r := 0; r < 40 && repro < 2; r++ {
			var got []string
			x := vsched.Run(mk(), sched, nil)
			if x.Diverged != "" {
				continue
			}
			for _, c := range calls {
				got = append(got, fmt.Sprintf("T%d %s [%d,%d] -> %s", c.Thread, ops[c.Op].Name, c.Inv, c.Res, c.Out))
			}
			if len(got) <= len(res.Violations[0].History) && fmt.Sprint(got) == fmt.Sprint(res.Violations[0].History[:len(got)]) {
				repro++
			}
		}
		if repro >= 2 {
			res.Replayed += 2
		} else {
			fmt.Fprintf(os.Stderr, "note: a violating schedule of %s did not reproduce (%d of 40 replays): not reported\n", p, repro)
			res.Violations = nil
			res.Nondet++
		}
	}
	return res
}

func progClass(p program) string {
	var names []string
	for _, th := range p.Threads {
		for _, o := range th {
			n := ops[o].Name
			names = append(names, n[:strings.Index(n, "(")])
		}
	}
	sort.Strings(names)
	return strings.Join(names, "+")
}

func worker(k, n int, thorough bool, seed int64) {
	vsched.Filter = yieldFilter
	f := newFixture(seed)
	ps := programs(thorough)
	bound, maxExec := bounds(thorough)
	w := bufio.NewWriter(os.Stdout)
	for _, p := range ps {
		if p.ID%n != k {
			continue
		}
		_ = bound
		r := runProgram(f, p, boundFor(p, thorough), maxExec)
		js, _ := json.Marshal(r)
		w.Write(js)
		w.WriteByte('\n')
		w.Flush()
	}
}

func bounds(thorough bool) (int, int) {
	if thorough {
		return 3, 60000
	}
	return 2, 20000
}

// boundFor: preemption bound per program class.
//   two threads x one operation: 2 (thorough 3); three threads and 2x2 programs: 1 (thorough 2)
func boundFor(p program, thorough bool) int {
	small := len(p.Threads) == 2 && len(p.Threads[0]) == 1 && len(p.Threads[1]) == 1
	switch {
	case small && thorough:
		return 3
	case small:
		return 2
	case thorough:
		return 2
	}
	return 1
}

// ---------------------------------------------------------------- parent

func main() {
	if len(os.Args) > 1 && os.Args[1] == "--worker" {
		k, _ := strconv.Atoi(os.Args[2])
		n, _ := strconv.Atoi(os.Args[3])
		seed, _ := strconv.ParseInt(os.Args[5], 10, 64)
		worker(k, n, os.Args[4] == "thorough", seed)
		return
	}
	run := ev.Start("C18", "model_checking")
	if run.Replay != "" {
		replay(run)
		return
	}
	nw := 16
	ps := programs(run.Thorough())
	var mu sync.Mutex
	var wg sync.WaitGroup
	totalOutcomes := 0
	multi := 0
	t0 := time.Now()
	for k := 0; k < nw; k++ {
		wg.Add(1)
		go func(k int) {
			defer wg.Done()
			cmd := exec.Command(os.Args[0], "--worker", strconv.Itoa(k), strconv.Itoa(nw), run.Tier, strconv.FormatInt(run.Seed, 10))
			cmd.Env = append(os.Environ(), "GOMAXPROCS=2")
			cmd.Stderr = os.Stderr
			out, err := cmd.StdoutPipe()
			if err != nil {
				run.Fatal("%v", err)
			}
			if err := cmd.Start(); err != nil {
				run.Fatal("%v", err)
			}
			sc := bufio.NewScanner(out)
			sc.Buffer(make([]byte, 1<<22), 1<<22)
			for sc.Scan() {
				var r progResult
				if err := json.Unmarshal(sc.Bytes(), &r); err != nil {
					continue
				}
				mu.Lock()
				run.Add("executions", int64(r.Execs))
				run.Add("transitions", int64(r.Points))
				run.Add("programs", 1)
				run.Add("traces_validated_against_impl", int64(r.Replayed))
				run.Add("histories_cross_checked_with_porcupine", int64(r.CrossChecked))
				if r.Nondet+r.Retries+r.Unreplayable > 0 {
					run.Add("programs_not_deterministic_under_a_fixed_schedule", int64(r.Nondet))
					run.Add("schedule_prefix_retries", int64(r.Retries))
					run.Add("unreplayable_prefixes_not_explored", int64(r.Unreplayable))
				}
				totalOutcomes += r.Outcomes
				if r.Outcomes > 1 {
					multi++
				}
				if r.Capped {
					run.MarkCapped()
					run.Add("programs_capped", 1)
				}
				run.Distinct(r.Desc)
				if r.Prog%397 == 5 {
					run.Sample(map[string]any{"program": r.Desc, "schedules": r.Execs, "scheduling_points": r.Points, "distinct_outcomes": r.Outcomes})
				}
				for _, v := range r.Violations {
					run.Violation(v.Key, v.Program+": "+v.What, v)
				}
				mu.Unlock()
			}
			if err := cmd.Wait(); err != nil {
				run.Fatal("worker %d failed: %v", k, err)
			}
		}(k)
	}
	wg.Wait()
	_ = t0
	if int(run.Get("programs")) != len(ps) {
		run.Fatal("workers reported %d programs, expected %d", run.Get("programs"), len(ps))
	}
	b, me := bounds(run.Thorough())
	run.Set("states", run.Get("executions")) // one terminal state per complete schedule (stateless search)
	_ = b
	run.Set("preemption_bound", map[string]int{"two_threads_one_op": boundFor(program{Threads: [][]int{{0}, {0}}}, run.Thorough()), "three_threads_or_two_ops_per_thread": boundFor(program{Threads: [][]int{{0}, {0}, {0}}}, run.Thorough())})
	run.Set("max_schedules_per_program", me)
	run.Set("distinct_outcomes_total", totalOutcomes)
	run.Set("programs_with_more_than_one_outcome", multi)
	run.Set("rule", "program = sequential pre-history + 2-3 threads with 1-2 operations each over the 14-operation alphabet (all unordered pairs from 6 pre-states: empty, one valid share, one wrong share, full valid pool, full pool with a wrong well-formed share, full pool with a malformed share, full pool with a share of the wrong length; each of the 4 boundary-index operations (index n) against every operation; all unordered triples; all 2x2 programs over the 8 core operations) on ONE shared real participant object (n=3,t=1); for each program ALL schedules with at most `preemption_bound` preemptions (per program class) over scheduling points = every Lock/RLock/Unlock/RUnlock of the object's RWMutex (modelled blocking) + every statement of bls_thresholdsign.go methods; each complete schedule yields a call/return history (plus a final sequential observer) that must be linearizable w.r.t. the sequential reference model; <= t+1 shares retained. executions = schedules run; distinct_nontrivial = programs; states = complete executions (stateless search).")
	run.Assume("sequentially consistent interleavings at statement granularity of the instrumented Go file; calls into BLS Sign/Verify and C are atomic steps", "RWMutex modelled without writer preference (superset of lock-acquisition orders)", "n=3, t=1, one message/tag; validity of shares decided by byte equality with the library-made shares (threshold arithmetic itself is C06's business)")
	run.Finish()
}

func replay(run *ev.Run) {
	b, err := os.ReadFile(run.Replay)
	if err != nil {
		run.Fatal("%v", err)
	}
	var file struct {
		Replay violRec `json:"replay"`
	}
	if err := json.Unmarshal(b, &file); err != nil {
		run.Fatal("%v", err)
	}
	vsched.Filter = yieldFilter
	f := newFixture(run.Seed)
	p := file.Replay.Prog
	// re-run exactly the recorded schedule
	r := runProgramSchedule(f, p, file.Replay.Schedule)
	for _, h := range r {
		fmt.Println(h)
	}
	_ = reflect.TypeOf
	run.Set("rule", "replay")
	run.Add("evaluations", 1)
	os.Exit(0)
}

func runProgramSchedule(f *fixture, p program, sched []int) []string {
	obj := f.object()
	for _, o := range p.Pre {
		ops[o].Do(f, obj)
	}
	var calls []callRec
	var mu sync.Mutex
	var bodies []func()
	for ti, th := range p.Threads {
		ti, th := ti, th
		bodies = append(bodies, func() {
			for _, o := range th {
				inv := vsched.StepIndex()
				out := ops[o].Do(f, obj)
				mu.Lock()
				calls = append(calls, callRec{ti, o, inv, vsched.StepIndex(), out})
				mu.Unlock()
			}
		})
	}
	x := vsched.Run(bodies, sched, nil)
	var h []string
	for _, c := range calls {
		h = append(h, fmt.Sprintf("T%d %s [%d,%d] -> %s", c.Thread, ops[c.Op].Name, c.Inv, c.Res, c.Out))
	}
	ok, _ := linearizable(f, p.Pre, calls)
	h = append(h, fmt.Sprintf("deadlock=%v panic=%q linearizable=%v", x.Deadlock, x.Panic, ok))
	return h
}


func sharesField(obj any) (v reflect.Value, ok bool) {
	defer func() {
		if recover() != nil {
			ok = false
		}
	}()
	sh := space.Field(obj, "blsThresholdSignatureInspector")
	v = space.Field(sh.Interface(), "shares")
	return v, v.Kind() == reflect.Map
}
