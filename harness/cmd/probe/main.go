package main

import (
	"fmt"

	"verif/harness/dkgsys"
)

func main() {
	cfg := &dkgsys.Config{Proto: dkgsys.FVSSQ, N: 3, T: 1, Dealer: 0, Byz: []int{2}}
	sc := dkgsys.Script{{Z: 2, Slot: "inj:1:cmp:0", Var: "ok"}, {Z: 2, Slot: "inj:2:cmp:0", Var: "bigcomplainee"}}
	rep, _ := dkgsys.Explore(cfg, sc, 0, nil)
	for _, t := range rep.Terminals {
		st, _, err := dkgsys.Replay(cfg, sc, t.Path)
		fmt.Println(err, st.Hash() == t.State.Hash(), t.Path)
		for i := 0; i < 3; i++ {
			if st.Nodes[i] != nil {
				fmt.Println(" node", i, st.Nodes[i].Hash() == t.State.Nodes[i].Hash(), st.Nodes[i].InstHash() == t.State.Nodes[i].InstHash())
			}
			if st.Shadows[i] != nil {
				fmt.Println(" shadow", i, st.Shadows[i].Hash() == t.State.Shadows[i].Hash())
			}
		}
		fmt.Println(st.Obs)
		fmt.Println(t.State.Obs)
		fmt.Println(st.Phase, t.State.Phase, len(st.Held), len(t.State.Held))
	}
}
