//go:build verif

// C19: operations documented as read-only / thread-safe do not interfere.
// Stateless model checking under the controlled scheduler: pairs (thorough: triples) of
// operations sharing one KMAC hasher, the package-level PoP hasher and key objects are
// interleaved at statement granularity of kmac.go, bls.go, bls_multisig.go, spock.go, ecdsa.go.
// Monitors: every call returns what it returns alone; after EVERY scheduling step the deep
// snapshot of every shared object and argument buffer equals the initial snapshot.
package main

import (
	"bufio"
	"bytes"
	"encoding/json"
	"fmt"
	"os"
	"os/exec"
	"strconv"
	"strings"
	"sync"

	crypto "github.com/onflow/crypto"
	"github.com/onflow/crypto/hash"
	"github.com/onflow/crypto/zzverif/vsched"

	"verif/harness/ev"
	"verif/harness/ref/refbls"
	"verif/harness/space"
)

type fixture struct {
	H                  hash.Hasher // the shared KMAC128 hasher
	// argument LISTS that are shared too (not rebuilt per call): a batch that contains entries the
	// Go layer refuses up front (a 47-byte signature, an identity public key) next to valid ones
	batchPks           []crypto.PublicKey
	longA, longB       []crypto.PublicKey // 33 entries each, alternating pk1 / pk2 (different sums)
	batchSigs          []crypto.Signature
	Hmid               hash.Hasher // a third shared KMAC128 hasher that is in the MIDDLE of a stream (Write, no SumHash/Reset yet)
	Hused              hash.Hasher // a second shared KMAC128 hasher that was used for streaming before (Write, SumHash, Reset)
	pop                hash.Hasher // package-level PoP hasher
	sk1, sk2           crypto.PrivateKey
	pk1, pk2           crypto.PublicKey
	pk1j               crypto.PublicKey // pk1 held as a non-normalised (Jacobian) point
	msgFrame, sigFrame []byte           // the buffers all messages / signatures are sub-slices of
	m1, m2             []byte
	s1, s2, s2m2, pop1 crypto.Signature
	agg1, agg2         crypto.Signature
	ep, es             crypto.PrivateKey // ECDSA P-256 / secp256k1
	epk, esk           crypto.PublicKey
	sigP, sigS         crypto.Signature
	shared             []any
	names              []string
}

func must[T any](v T, err error) T {
	if err != nil {
		panic(err)
	}
	return v
}

// recipe holds the byte material from which fresh shared objects are rebuilt for every execution,
// so that FIRST use of an object (lazy initialisation, caches) is part of every explored schedule.
type recipe struct {
	seed                       int64
	pk1b, pk2b, epkb, eskb     []byte
	m1, m2                     []byte
	s1, s2, s2m2, pop1         []byte
	agg1, agg2, sigP, sigS     []byte
	seedB1, seedB2, seedP, seedS []byte
}

func mkSeed(b byte, seed int64) []byte {
	s := make([]byte, 48)
	for i := range s {
		s[i] = byte(int64(i)*7 + int64(b) + seed)
	}
	return s
}

func newRecipe(seed int64) *recipe {
	r := &recipe{seed: seed, seedB1: mkSeed(1, seed), seedB2: mkSeed(2, seed), seedP: mkSeed(3, seed), seedS: mkSeed(4, seed)}
	H := crypto.NewExpandMsgXOFKMAC128("c19")
	sk1 := must(crypto.GeneratePrivateKey(crypto.BLSBLS12381, r.seedB1))
	sk2 := must(crypto.GeneratePrivateKey(crypto.BLSBLS12381, r.seedB2))
	ep := must(crypto.GeneratePrivateKey(crypto.ECDSAP256, r.seedP))
	es := must(crypto.GeneratePrivateKey(crypto.ECDSASecp256k1, r.seedS))
	r.pk1b, r.pk2b = sk1.PublicKey().Encode(), sk2.PublicKey().Encode()
	r.epkb, r.eskb = ep.PublicKey().Encode(), es.PublicKey().Encode()
	r.m1, r.m2 = []byte("c19 message one"), []byte("c19 message two, a little longer than the first")
	r.s1 = must(sk1.Sign(r.m1, H))
	r.s2 = must(sk2.Sign(r.m1, H))
	r.s2m2 = must(sk2.Sign(r.m2, H))
	r.pop1 = must(crypto.BLSGeneratePOP(sk1))
	r.agg1 = must(crypto.AggregateBLSSignatures([]crypto.Signature{r.s1, r.s2}))
	r.agg2 = must(crypto.AggregateBLSSignatures([]crypto.Signature{r.s1, r.s2m2}))
	r.sigP = must(ep.Sign(r.m1, hash.NewSHA3_256()))
	r.sigS = must(es.Sign(r.m1, hash.NewSHA2_256()))
	return r
}

func cp(b []byte) []byte { return append([]byte(nil), b...) }

// fresh builds brand-new shared objects: a new KMAC hasher, public keys decoded from bytes (never
// used before), private keys with their public key already computed (lazy public-key caching of
// PRIVATE keys is deliberately not part of the scenario), fresh copies of all buffers.
func (r *recipe) fresh() *fixture {
	f := &fixture{}
	f.H = crypto.NewExpandMsgXOFKMAC128("c19")
	// non-initial state of a hasher: legitimately used as a streaming hasher before it is shared
	f.Hused = crypto.NewExpandMsgXOFKMAC128("c19-used")
	_, _ = f.Hused.Write([]byte("earlier streaming use"))
	_ = f.Hused.SumHash()
	f.Hused.Reset()
	f.Hmid = crypto.NewExpandMsgXOFKMAC128("c19-mid")
	_, _ = f.Hmid.Write([]byte("bytes written before the hasher is lent to ComputeHash users"))
	f.pop = crypto.VerifPopKMAC()
	f.sk1 = must(crypto.GeneratePrivateKey(crypto.BLSBLS12381, r.seedB1))
	f.sk2 = must(crypto.GeneratePrivateKey(crypto.BLSBLS12381, r.seedB2))
	f.sk1.PublicKey()
	f.sk2.PublicKey()
	f.pk1 = must(crypto.DecodePublicKey(crypto.BLSBLS12381, r.pk1b))
	f.pk2 = must(crypto.DecodePublicKey(crypto.BLSBLS12381, r.pk2b))
	// messages and signatures are ADJACENT sub-slices of two frames (like records of one network
	// frame): each slice has spare capacity that belongs to its neighbour, and a guard at the end
	guard := bytes.Repeat([]byte{0xA5}, 32)
	f.msgFrame = append(append(append([]byte{}, r.m1...), r.m2...), guard...)
	f.m1, f.m2 = f.msgFrame[:len(r.m1)], f.msgFrame[len(r.m1):len(r.m1)+len(r.m2)]
	var sigs [][]byte
	f.sigFrame, sigs = frameOf(guard, r.s1, r.s2, r.s2m2, r.pop1, r.agg1, r.agg2, r.sigP, r.sigS)
	f.s1, f.s2, f.s2m2, f.pop1 = sigs[0], sigs[1], sigs[2], sigs[3]
	f.agg1, f.agg2 = sigs[4], sigs[5]
	// the same key as pk1 in a different internal representation (RemoveBLSPublicKeys leaves a
	// non-normalised projective point)
	f.pk1j = must(crypto.RemoveBLSPublicKeys(must(crypto.AggregateBLSPublicKeys([]crypto.PublicKey{f.pk1, f.pk2})), []crypto.PublicKey{f.pk2}))
	f.ep = must(crypto.GeneratePrivateKey(crypto.ECDSAP256, r.seedP))
	f.es = must(crypto.GeneratePrivateKey(crypto.ECDSASecp256k1, r.seedS))
	f.ep.PublicKey()
	f.es.PublicKey()
	f.epk = must(crypto.DecodePublicKey(crypto.ECDSAP256, r.epkb))
	f.esk = must(crypto.DecodePublicKey(crypto.ECDSASecp256k1, r.eskb))
	f.sigP, f.sigS = sigs[6], sigs[7]
	f.batchPks = []crypto.PublicKey{f.pk1, crypto.IdentityBLSPublicKey(), f.pk2, f.pk1}
	f.batchSigs = []crypto.Signature{f.s1, f.s1, f.s2, f.s1[:47]}
	for i := 0; i < 33; i++ {
		if i%2 == 0 {
			f.longA, f.longB = append(f.longA, f.pk1), append(f.longB, f.pk2)
		} else {
			f.longA, f.longB = append(f.longA, f.pk2), append(f.longB, f.pk1)
		}
	}
	add := func(n string, v any) { f.names = append(f.names, n); f.shared = append(f.shared, v) }
	add("kmac-hasher", f.H)
	add("kmac-hasher-used-before", f.Hused)
	add("kmac-hasher-mid-stream", f.Hmid)
	add("pop-hasher", f.pop)
	add("bls-sk1", f.sk1)
	add("bls-sk2", f.sk2)
	add("bls-pk1", f.pk1)
	add("bls-pk2", f.pk2)
	add("ecdsa-p256-sk", f.ep)
	add("ecdsa-secp-sk", f.es)
	add("ecdsa-p256-pk", f.epk)
	add("ecdsa-secp-pk", f.esk)
	add("bls-pk1-jacobian", f.pk1j)
	add("batch-list-of-public-keys", f.batchPks)
	add("batch-list-of-signatures", f.batchSigs)
	add("long-key-list-A", f.longA)
	add("long-key-list-B", f.longB)
	add("message-frame(m1|m2|guard)", f.msgFrame)
	add("signature-frame(8 signatures|guard)", f.sigFrame)
	return f
}

func newFixture(seed int64) *fixture { return newRecipe(seed).fresh() }

// frameOf lays the given byte strings out back to back in one buffer (followed by a guard) and
// returns the buffer and the sub-slices.
func frameOf(guard []byte, parts ...[]byte) ([]byte, [][]byte) {
	var frame []byte
	for _, p := range parts {
		frame = append(frame, p...)
	}
	frame = append(frame, guard...)
	out := make([][]byte, len(parts))
	off := 0
	for i, p := range parts {
		out[i] = frame[off : off+len(p)]
		off += len(p)
	}
	return frame, out
}

// snapshot: raw-memory deep snapshot of all shared objects (see space.Snap)
func (f *fixture) snapshot() *space.Snap { return space.NewSnap(f.shared...) }

type opDef struct {
	Name string
	Do   func(f *fixture) string
}

func vb(ok bool, err error) string { return fmt.Sprintf("%v,%v", ok, err) }

var ops = []opDef{
	{"KMAC.ComputeHash(m1)", func(f *fixture) string { return fmt.Sprintf("%x", []byte(f.H.ComputeHash(f.m1))) }},
	{"KMAC.ComputeHash(m2)", func(f *fixture) string { return fmt.Sprintf("%x", []byte(f.H.ComputeHash(f.m2))) }},
	{"BLS.Sign(sk1,m1,H)", func(f *fixture) string { s, err := f.sk1.Sign(f.m1, f.H); return fmt.Sprintf("%x,%v", []byte(s), err) }},
	{"BLS.Verify(pk1,s1,m1,H)", func(f *fixture) string { return vb(f.pk1.Verify(f.s1, f.m1, f.H)) }},
	{"BLSVerifyPOP(pk1,pop1)", func(f *fixture) string { return vb(crypto.BLSVerifyPOP(f.pk1, f.pop1)) }},
	{"SPOCKVerify(pk1,s1,pk2,s2)", func(f *fixture) string { return vb(crypto.SPOCKVerify(f.pk1, f.s1, f.pk2, f.s2)) }},
	{"VerifyOneMessage([pk1,pk2],agg,m1,H)", func(f *fixture) string {
		return vb(crypto.VerifyBLSSignatureOneMessage([]crypto.PublicKey{f.pk1, f.pk2}, f.agg1, f.m1, f.H))
	}},
	{"VerifyManyMessages([pk1,pk2],agg,[m1,m2],[H,H])", func(f *fixture) string {
		return vb(crypto.VerifyBLSSignatureManyMessages([]crypto.PublicKey{f.pk1, f.pk2}, f.agg2, [][]byte{f.m1, f.m2}, []hash.Hasher{f.H, f.H}))
	}},
	{"BatchVerify([pk1,pk2],[s1,s2m2],m1,H)", func(f *fixture) string {
		r, err := crypto.BatchVerifyBLSSignaturesOneMessage([]crypto.PublicKey{f.pk1, f.pk2}, []crypto.Signature{f.s1, f.s2m2}, f.m1, f.H)
		return fmt.Sprintf("%v,%v", r, err)
	}},
	{"ECDSA-P256.Sign(m1,own SHA3)", func(f *fixture) string {
		s, err := f.ep.Sign(f.m1, hash.NewSHA3_256())
		if err != nil {
			return "err:" + err.Error()
		}
		ok, err := f.epk.Verify(s, f.m1, hash.NewSHA3_256())
		return "signature-verifies:" + vb(ok, err)
	}},
	{"ECDSA-P256.Verify(sig,m1,own SHA3)", func(f *fixture) string { return vb(f.epk.Verify(f.sigP, f.m1, hash.NewSHA3_256())) }},
	{"ECDSA-secp256k1.Sign(m1,own SHA2)", func(f *fixture) string {
		s, err := f.es.Sign(f.m1, hash.NewSHA2_256())
		if err != nil {
			return "err:" + err.Error()
		}
		ok, err := f.esk.Verify(s, f.m1, hash.NewSHA2_256())
		return "signature-verifies:" + vb(ok, err)
	}},
	{"ECDSA-secp256k1.Verify(sig,m1,own SHA2)", func(f *fixture) string { return vb(f.esk.Verify(f.sigS, f.m1, hash.NewSHA2_256())) }},
	{"BLSGeneratePOP(sk1)", func(f *fixture) string { s, err := crypto.BLSGeneratePOP(f.sk1); return fmt.Sprintf("%x,%v", []byte(s), err) }},
	{"BLS.Verify(pk2,s2m2,m2,H)", func(f *fixture) string { return vb(f.pk2.Verify(f.s2m2, f.m2, f.H)) }},
	{"BLS.Verify(pk1[jacobian],s1,m1,H)", func(f *fixture) string { return vb(f.pk1j.Verify(f.s1, f.m1, f.H)) }},
	{"SPOCKVerify(pk1[jacobian],s1,pk2,s2)", func(f *fixture) string { return vb(crypto.SPOCKVerify(f.pk1j, f.s1, f.pk2, f.s2)) }},
	{"AggregateBLSSignatures([s1,s2])", func(f *fixture) string {
		s, err := crypto.AggregateBLSSignatures([]crypto.Signature{f.s1, f.s2})
		return fmt.Sprintf("%x,%v", []byte(s), err)
	}},
	// second variants of the list-taking operations with DIFFERENT inputs and results: state that
	// leaks from one call into another (scratch buffers, caches) is invisible between identical calls
	{"BatchVerify([pk2,pk1],[s2,s1],m1,H)", func(f *fixture) string {
		r, err := crypto.BatchVerifyBLSSignaturesOneMessage([]crypto.PublicKey{f.pk2, f.pk1}, []crypto.Signature{f.s2, f.s1}, f.m1, f.H)
		return fmt.Sprintf("%v,%v", r, err)
	}},
	{"VerifyOneMessage([pk1],agg,m1,H)", func(f *fixture) string {
		return vb(crypto.VerifyBLSSignatureOneMessage([]crypto.PublicKey{f.pk1}, f.agg1, f.m1, f.H))
	}},
	{"VerifyManyMessages([pk2,pk1],agg,[m1,m2],[H,H])", func(f *fixture) string {
		return vb(crypto.VerifyBLSSignatureManyMessages([]crypto.PublicKey{f.pk2, f.pk1}, f.agg2, [][]byte{f.m1, f.m2}, []hash.Hasher{f.H, f.H}))
	}},
	{"AggregateBLSSignatures([s2m2,s2,s1])", func(f *fixture) string {
		s, err := crypto.AggregateBLSSignatures([]crypto.Signature{f.s2m2, f.s2, f.s1})
		return fmt.Sprintf("%x,%v", []byte(s), err)
	}},
	{"AggregateBLSPublicKeys([pk2,pk2,pk1]).Encode", func(f *fixture) string {
		k, err := crypto.AggregateBLSPublicKeys([]crypto.PublicKey{f.pk2, f.pk2, f.pk1})
		if err != nil {
			return "err:" + err.Error()
		}
		return fmt.Sprintf("%x", k.Encode())
	}},
	{"BLS.Sign(sk2,m2,H)", func(f *fixture) string { s, err := f.sk2.Sign(f.m2, f.H); return fmt.Sprintf("%x,%v", []byte(s), err) }},
	{"BatchVerify(shared lists with a 47-byte signature and an identity key)", func(f *fixture) string {
		r, err := crypto.BatchVerifyBLSSignaturesOneMessage(f.batchPks, f.batchSigs, f.m1, f.H)
		return fmt.Sprintf("%v,%v", r, err)
	}},
	{"AggregateBLSSignatures(shared list)[:3]", func(f *fixture) string {
		s, err := crypto.AggregateBLSSignatures(f.batchSigs[:3])
		return fmt.Sprintf("%x,%v", []byte(s), err)
	}},
	{"KMAC[mid-stream].ComputeHash(m1)", func(f *fixture) string { return fmt.Sprintf("%x", []byte(f.Hmid.ComputeHash(f.m1))) }},
	{"BLS.Sign(sk1,m1,H[mid-stream])", func(f *fixture) string { s, err := f.sk1.Sign(f.m1, f.Hmid); return fmt.Sprintf("%x,%v", []byte(s), err) }},
	{"KMAC[used before].ComputeHash(m1)", func(f *fixture) string { return fmt.Sprintf("%x", []byte(f.Hused.ComputeHash(f.m1))) }},
	{"KMAC[used before].ComputeHash(m2)", func(f *fixture) string { return fmt.Sprintf("%x", []byte(f.Hused.ComputeHash(f.m2))) }},
	{"AggregateBLSPublicKeys([pk1,pk2]).Encode", func(f *fixture) string {
		k, err := crypto.AggregateBLSPublicKeys([]crypto.PublicKey{f.pk1, f.pk2})
		if err != nil {
			return "err:" + err.Error()
		}
		return fmt.Sprintf("%x", k.Encode())
	}},
	// LONG key lists (33 entries, two lists with different sums): list handling that changes with the
	// length (pre-sized or pooled scratch space for many keys) is shared between concurrent calls
	{"AggregateBLSPublicKeys(33 keys: pk1,pk2,pk1,...).Encode", func(f *fixture) string {
		k, err := crypto.AggregateBLSPublicKeys(f.longA)
		if err != nil {
			return "err:" + err.Error()
		}
		return fmt.Sprintf("%x", k.Encode())
	}},
	{"AggregateBLSPublicKeys(33 keys: pk2,pk1,pk2,...).Encode", func(f *fixture) string {
		k, err := crypto.AggregateBLSPublicKeys(f.longB)
		if err != nil {
			return "err:" + err.Error()
		}
		return fmt.Sprintf("%x", k.Encode())
	}},
}

type program struct {
	ID      int
	Threads []int
	// Repeat[i] > 1: thread i calls its operation that many times in a row (nil: once each); the
	// point between two calls is a free switch point (vsched.Boundary)
	Repeat []int
}

func (p program) times(ti int) int {
	if ti < len(p.Repeat) && p.Repeat[ti] > 1 {
		return p.Repeat[ti]
	}
	return 1
}

func (p program) String() string {
	var n []string
	for ti, o := range p.Threads {
		if k := p.times(ti); k > 1 {
			n = append(n, fmt.Sprintf("%dx %s", k, ops[o].Name))
		} else {
			n = append(n, ops[o].Name)
		}
	}
	return strings.Join(n, " || ")
}

func programs(thorough bool) []program {
	var ps []program
	for i := range ops {
		for j := i; j < len(ops); j++ {
			ps = append(ps, program{len(ps), []int{i, j}, nil})
		}
	}
	// one call overlapped by two successive calls of another (or the same) operation: all ordered
	// pairs. Catches state that is handed from one call to the next (scratch buffers, try-locks,
	// caches) while a third call is still in progress; costs one preemption.
	// (quick tier: y from the same function family as x, or a ComputeHash on one of the shared
	// hashers; thorough: all ordered pairs)
	fam := func(i int) string {
		n := ops[i].Name
		if k := strings.IndexAny(n, "(["); k >= 0 {
			n = n[:k]
		}
		return n
	}
	for i := range ops {
		for j := range ops {
			if !thorough && fam(i) != fam(j) && fam(j) != "KMAC" {
				continue
			}
			ps = append(ps, program{len(ps), []int{i, j}, []int{1, 2}})
		}
	}
	if thorough {
		// triples that contain a ComputeHash on the shared hasher
		for i := 0; i < 2; i++ {
			for j := i; j < len(ops); j++ {
				for k := j; k < len(ops); k++ {
					ps = append(ps, program{len(ps), []int{i, j, k}, nil})
				}
			}
		}
	}
	return ps
}

type violRec struct {
	Key      string   `json:"key"`
	What     string   `json:"what"`
	Program  string   `json:"program"`
	Threads  []int    `json:"threads"`
	Repeat   []int    `json:"repeat,omitempty"`
	Schedule []int    `json:"schedule"`
	Detail   []string `json:"detail"`
}

type progResult struct {
	Prog       int       `json:"prog"`
	Desc       string    `json:"desc"`
	Execs      int       `json:"execs"`
	Points     int       `json:"points"`
	MaxPoints  int       `json:"max_points"`
	Capped     bool      `json:"capped"`
	Snapshots  int       `json:"snapshots"`
	Bound      int       `json:"bound"`
	NPoints    int       `json:"npoints"`
	Replayed   int       `json:"replayed"`
	Nondet       int `json:"nondeterministic_under_fixed_schedule,omitempty"`
	Retries      int `json:"retries,omitempty"`
	Unreplayable int `json:"unreplayable_prefixes,omitempty"`
	Violations []violRec `json:"violations,omitempty"`
}

func filter(loc string) bool { return !strings.HasPrefix(loc, "bls_thresholdsign.go:") }

// runOp calls operation o k times in a row; the result is the solo result unless some call differed
// (then that call's result, so that the comparison with the solo result fails).
func runOp(f *fixture, o, k int) string {
	out := ""
	for c := 0; c < k; c++ {
		if c > 0 {
			vsched.Boundary("between-calls")
		}
		r := ops[o].Do(f)
		if c == 0 || r != out {
			if c > 0 {
				return fmt.Sprintf("call#%d:%s (call#1:%s)", c+1, r, out)
			}
			out = r
		}
	}
	return out
}

func boundFor(p program, thorough bool) (int, int) {
	if p.Repeat != nil {
		if thorough {
			return 2, 20000
		}
		return 1, 4000
	}
	switch {
	case len(p.Threads) == 2 && thorough:
		return 3, 40000
	case len(p.Threads) == 2:
		return 2, 4000
	}
	return 2, 20000
}

func runProgram(rc *recipe, solo []string, p program, thorough bool) progResult {
	var f *fixture
	var init *space.Snap
	res := progResult{Prog: p.ID, Desc: p.String()}
	outs := make([]string, len(p.Threads))
	var stepViol *violRec
	var cur *vsched.Exec
	_ = cur
	mk := func() []func() {
		f = rc.fresh() // cold objects: first use happens inside the explored schedule
		init = f.snapshot()
		var bodies []func()
		for ti, o := range p.Threads {
			ti, o := ti, o
			outs[ti] = ""
			k := p.times(ti)
			bodies = append(bodies, func() { outs[ti] = runOp(f, o, k) })
		}
		return bodies
	}
	steps := 0
	onStep := func(tid int, loc string) {
		steps++
		res.Snapshots++
		if i, path := init.Changed(); i >= 0 && stepViol == nil {
			stepViol = &violRec{Key: "shared-object-modified:" + f.names[i] + ":by:" + opShort(p.Threads[tid]),
				What:   fmt.Sprintf("shared object %q (%s) differs from its initial snapshot at a scheduling point of thread %d (%s) at %s", f.names[i], path, tid, ops[p.Threads[tid]].Name, loc),
				Detail: []string{fmt.Sprintf("step %d", steps)}}
		}
	}
	var lastSched []int
	var lastOuts string
	check := func(x *vsched.Exec) {
		lastSched, lastOuts = x.Choices(), strings.Join(outs, "|")
		v := func(r violRec) {
			r.Program, r.Threads, r.Repeat, r.Schedule = p.String(), p.Threads, p.Repeat, x.Choices()
			if len(res.Violations) < 4 {
				res.Violations = append(res.Violations, r)
			}
		}
		if x.Diverged != "" {
			fmt.Fprintf(os.Stderr, "HARNESS-ERROR: schedule replay diverged: %s (%s)\n", x.Diverged, p)
			os.Exit(2)
		}
		if x.Deadlock {
			v(violRec{Key: "deadlock", What: "no enabled thread"})
			return
		}
		if x.Panic != "" {
			v(violRec{Key: "panic:" + strings.Fields(x.Panic)[0], What: "panic: " + x.Panic})
			return
		}
		if stepViol != nil {
			v(*stepViol)
			stepViol = nil
			// the objects may be left modified: rebuild is not possible for package-level state,
			// so restore by running nothing; subsequent schedules are still compared with init.
		}
		if i, path := init.Changed(); i >= 0 {
			v(violRec{Key: "shared-object-modified-at-end:" + f.names[i], What: "shared object " + f.names[i] + " (" + path + ") differs from its initial snapshot after both operations returned"})
		}
		for ti, o := range p.Threads {
			if outs[ti] != solo[o] {
				v(violRec{Key: "result-differs-from-solo:" + opShort(o) + ":with:" + opShort(p.Threads[(ti+1)%len(p.Threads)]),
					What:   fmt.Sprintf("%s returned a different result than when run alone", ops[o].Name),
					Detail: []string{"concurrent: " + clip(outs[ti]), "alone:      " + clip(solo[o])}})
			}
		}
		steps = 0
	}
	bound, maxExec := boundFor(p, thorough)
	// the default schedule tells how many scheduling points the program has; if the number of
	// schedules within the bound would exceed maxExec the bound is lowered (and reported)
	probe := vsched.Run(mk(), nil, nil)
	np := len(probe.Points)
	for bound > 1 && estimate(np, len(p.Threads), bound) > maxExec {
		bound--
	}
	res.Bound, res.NPoints = bound, np
	st := vsched.Explore(mk, bound, maxExec, onStep, check)
	res.Execs, res.Points, res.MaxPoints, res.Capped = st.Executions, st.Points, st.MaxPoints, st.Capped || st.Unreplayable > 0
	res.Retries, res.Unreplayable = st.Retries, st.Unreplayable
	if lastSched != nil {
		same := false
		for try := 0; try < 40 && !same; try++ {
			x := vsched.Run(mk(), lastSched, nil)
			same = x.Diverged == "" && strings.Join(outs, "|") == lastOuts
		}
		if same {
			res.Replayed++
		} else {
			res.Nondet++ // not the same twice under one schedule: see vsched.Stats.Retries
		}
	}
	// arguments and shared objects unmodified at the end
	return res
}

// estimate: rough count of schedules with <= b preemptions over n points and t threads
func estimate(n, t, b int) int {
	e := 1
	for i := 0; i < b; i++ {
		e = e * n * (t - 1) / (i + 1)
	}
	return e
}

func clip(s string) string {
	if len(s) > 80 {
		return s[:80] + "..."
	}
	return s
}

func opShort(o int) string {
	n := ops[o].Name
	if i := strings.Index(n, "("); i >= 0 {
		n = n[:i]
	}
	return n
}

func soloResults(rc *recipe) []string {
	solo := make([]string, len(ops))
	for i, o := range ops {
		solo[i] = o.Do(rc.fresh())
	}
	// solo results must be stable (fresh objects again, and a second call on the same objects)
	for i, o := range ops {
		f := rc.fresh()
		if o.Do(f) != solo[i] || o.Do(f) != solo[i] {
			fmt.Fprintf(os.Stderr, "HARNESS-ERROR: sequential result of %s is not stable\n", o.Name)
			os.Exit(2)
		}
	}
	return solo
}

func worker(k, n int, thorough bool, seed int64) {
	vsched.Filter = filter
	rc := newRecipe(seed)
	solo := soloResults(rc)
	w := bufio.NewWriter(os.Stdout)
	for _, p := range programs(thorough) {
		if p.ID%n != k {
			continue
		}
		r := runProgram(rc, solo, p, thorough)
		js, _ := json.Marshal(r)
		w.Write(js)
		w.WriteByte('\n')
		w.Flush()
	}
}

// freeRun is the AUXILIARY pass (not the deciding step): the same operation bodies on real,
// free-running goroutines (in a -race build when available). It discharges the assumption the
// cooperative exploration rests on — that steps inside x/crypto, the standard library and C are
// atomic and share no hidden mutable state (the cooperative scheduler's hand-offs are
// happens-before edges and blind the race detector, and C memory is invisible to it anyway).
// Oracle: every result equals the solo result. A data race makes the -race build exit with
// code 66 (GORACE), which the parent reports.
func freeRun(seed int64, thorough bool) {
	rc := newRecipe(seed)
	solo := soloResults(rc)
	type res struct {
		Pair  string `json:"pair"`
		Op    string `json:"op"`
		Got   string `json:"got"`
		Want  string `json:"want"`
		Calls int    `json:"calls"`
	}
	G, K := 3, 4
	if thorough {
		G, K = 4, 12
	}
	w := bufio.NewWriter(os.Stdout)
	var wmu sync.Mutex
	emit := func(r res) {
		js, _ := json.Marshal(r)
		wmu.Lock()
		w.Write(js)
		w.WriteByte('\n')
		w.Flush()
		wmu.Unlock()
	}
	var pairs [][2]int
	for i := range ops {
		for j := i; j < len(ops); j++ {
			pairs = append(pairs, [2]int{i, j})
		}
	}
	sem := make(chan struct{}, 4)
	var pw sync.WaitGroup
	for _, pr := range pairs {
		pr := pr
		pw.Add(1)
		sem <- struct{}{}
		go func() {
			defer pw.Done()
			defer func() { <-sem }()
			f := rc.fresh()
			start := make(chan struct{})
			var wg sync.WaitGroup
			var bad sync.Map
			for g := 0; g < 2*G; g++ {
				o := pr[g%2]
				wg.Add(1)
				go func() {
					defer wg.Done()
					<-start
					for k := 0; k < K; k++ {
						if got := ops[o].Do(f); got != solo[o] {
							bad.LoadOrStore(o, got)
						}
					}
				}()
			}
			close(start)
			wg.Wait()
			name := ops[pr[0]].Name + " || " + ops[pr[1]].Name
			n := 0
			bad.Range(func(k, v any) bool {
				n++
				emit(res{Pair: name, Op: ops[k.(int)].Name, Got: clip(v.(string)), Want: clip(solo[k.(int)]), Calls: 2 * G * K})
				return true
			})
			if n == 0 {
				emit(res{Pair: name, Calls: 2 * G * K})
			}
		}()
	}
	pw.Wait()
}

func main() {
	if len(os.Args) > 1 && os.Args[1] == "--free" {
		seed, _ := strconv.ParseInt(os.Args[3], 10, 64)
		freeRun(seed, os.Args[2] == "thorough")
		return
	}
	if len(os.Args) > 1 && os.Args[1] == "--worker" {
		k, _ := strconv.Atoi(os.Args[2])
		n, _ := strconv.Atoi(os.Args[3])
		seed, _ := strconv.ParseInt(os.Args[5], 10, 64)
		worker(k, n, os.Args[4] == "thorough", seed)
		return
	}
	run := ev.Start("C19", "model_checking")
	if run.Replay != "" {
		replay(run)
		return
	}
	nw := 16
	ps := programs(run.Thorough())
	var mu sync.Mutex
	var wg sync.WaitGroup
	for k := 0; k < nw; k++ {
		wg.Add(1)
		go func(k int) {
			defer wg.Done()
			cmd := exec.Command(os.Args[0], "--worker", strconv.Itoa(k), strconv.Itoa(nw), run.Tier, strconv.FormatInt(run.Seed, 10))
			cmd.Env = append(os.Environ(), "GOMAXPROCS=2")
			cmd.Stderr = os.Stderr
			out, err := cmd.StdoutPipe()
			if err != nil {
				run.Fatal("%v", err)
			}
			if err := cmd.Start(); err != nil {
				run.Fatal("%v", err)
			}
			sc := bufio.NewScanner(out)
			sc.Buffer(make([]byte, 1<<22), 1<<22)
			for sc.Scan() {
				var r progResult
				if json.Unmarshal(sc.Bytes(), &r) != nil {
					continue
				}
				mu.Lock()
				run.Add("executions", int64(r.Execs))
				run.Add("transitions", int64(r.Points))
				run.Add("state_snapshots_compared", int64(r.Snapshots))
				run.Add("programs", 1)
				run.Add(fmt.Sprintf("programs_explored_with_preemption_bound_%d", r.Bound), 1)
				run.Add("traces_validated_against_impl", int64(r.Replayed))
				if r.Nondet+r.Retries+r.Unreplayable > 0 {
					run.Add("programs_not_deterministic_under_a_fixed_schedule", int64(r.Nondet))
					run.Add("schedule_prefix_retries", int64(r.Retries))
					run.Add("unreplayable_prefixes_not_explored", int64(r.Unreplayable))
				}
				if r.Capped {
					run.Add("programs_capped_by_max_schedules", 1)
					run.MarkCapped()
				}
				run.Distinct(r.Desc)
				if r.Prog%23 == 1 {
					run.Sample(map[string]any{"program": r.Desc, "schedules": r.Execs, "scheduling_points": r.Points, "max_points_in_one_execution": r.MaxPoints})
				}
				for _, v := range r.Violations {
					run.Violation(v.Key, v.Program+": "+v.What, v)
				}
				mu.Unlock()
			}
			if err := cmd.Wait(); err != nil {
				run.Fatal("worker %d failed: %v", k, err)
			}
		}(k)
	}
	wg.Wait()
	if int(run.Get("programs")) != len(ps) {
		run.Fatal("workers reported %d programs, expected %d", run.Get("programs"), len(ps))
	}
	argFamily(run)
	auxFreeRun(run)
	b2, m2 := boundFor(program{Threads: []int{0, 0}}, run.Thorough())
	b3, m3 := boundFor(program{Threads: []int{0, 0, 0}}, run.Thorough())
	run.Set("states", run.Get("executions"))
	run.Set("preemption_bound", map[string]int{"two_threads": b2, "three_threads": b3})
	run.Set("max_schedules_per_program", map[string]int{"two_threads": m2, "three_threads": m3})
	run.Set("rule", "program = 2 threads (thorough also 3 with a ComputeHash) running one operation each from the 35-operation alphabet (incl. public-key aggregation over two 33-entry key lists) (incl. ComputeHash and Sign on a hasher that is in the middle of a stream) (incl. a batch verification and an aggregation over SHARED argument lists that hold a 47-byte signature and an identity key; the lists themselves are snapshotted) (incl. ComputeHash on a hasher that was used for streaming before it was shared) (list-taking operations in two variants with different inputs and results) (KMAC ComputeHash x2 on ONE shared hasher, BLS Sign/Verify/VerifyPOP/GeneratePOP/SPOCKVerify/aggregate/many-message/batch verification sharing keys, that hasher and the package-level PoP hasher, ECDSA Sign/Verify on both curves with per-thread hashers): all unordered pairs, plus ordered pairs (x, y) as 'one call of x overlapped by two successive calls of y' (quick: y of the same function family as x or a ComputeHash on a shared hasher; thorough: all ordered pairs) (the point between the two calls is a free switch point); every execution starts from FRESH shared objects (new hasher, public keys decoded from bytes and never used before), so first use / lazy initialisation is inside the explored schedules; for each program ALL schedules within the preemption bound over statement-level scheduling points in hash/kmac.go, bls.go, bls_multisig.go, spock.go, ecdsa.go; monitors: results equal the solo results, and after EVERY scheduling point a deep reflective snapshot of all shared objects and of the two frames that hold every message and signature (sub-slices with spare capacity, guard bytes) equals the initial one. executions = complete schedules; distinct_nontrivial = programs.")
	run.Assume("private keys have their public key computed before the threads start (lazy public-key caching of private keys is not part of the listed operations)", "interleavings at statement granularity of the instrumented Go files, sequentially consistent; calls into x/crypto, the standard library and C are atomic steps (data races inside them are invisible to this technique)", "ECDSA Sign is randomised: its output is verified, not compared")
	run.Finish()
}

// auxFreeRun runs the free-running auxiliary pass in the -race binary (path in C19_RACE_BIN; falls
// back to this binary without race detection) and reports result mismatches and data races.
func auxFreeRun(run *ev.Run) {
	bin, raceBuild := os.Getenv("C19_RACE_BIN"), true
	if bin == "" {
		bin, raceBuild = os.Args[0], false
	}
	cmd := exec.Command(bin, "--free", run.Tier, strconv.FormatInt(run.Seed, 10))
	cmd.Env = append(os.Environ(), "GORACE=halt_on_error=1 exitcode=66")
	var stderr strings.Builder
	cmd.Stderr = &stderr
	out, err := cmd.Output()
	type res struct {
		Pair  string `json:"pair"`
		Op    string `json:"op"`
		Got   string `json:"got"`
		Want  string `json:"want"`
		Calls int    `json:"calls"`
	}
	pairs, calls := 0, 0
	for _, line := range strings.Split(string(out), "\n") {
		var r res
		if json.Unmarshal([]byte(line), &r) != nil || r.Pair == "" {
			continue
		}
		if r.Op == "" {
			pairs++
			calls += r.Calls
			continue
		}
		pairs++
		calls += r.Calls
		run.Violation("aux-free-run:result-differs-from-solo:"+opShortName(r.Op), "free-running goroutines: "+r.Pair+": "+r.Op+" returned a different result than when run alone", r)
	}
	if err != nil {
		if ee, ok := err.(*exec.ExitError); ok && ee.ExitCode() == 66 {
			txt := stderr.String()
			fn := "unknown"
			for _, l := range strings.Split(txt, "\n") {
				l = strings.TrimSpace(l)
				if strings.HasPrefix(l, "github.com/onflow/crypto") {
					fn = l
					if i := strings.Index(fn, "("); i > 0 {
						fn = fn[:i]
					}
					break
				}
			}
			if len(txt) > 3000 {
				txt = txt[:3000]
			}
			run.Violation("aux-data-race:"+fn, "the Go race detector reports a data race between free-running calls of the listed operations on shared objects", map[string]any{"race_report": txt})
		} else {
			run.Fatal("auxiliary free-running pass failed: %v\n%s", err, stderr.String())
		}
	}
	run.Set("aux_free_running_pass", map[string]any{"race_detector_build": raceBuild, "operation_pairs": pairs, "calls": calls, "note": "auxiliary assumption discharge (sampling), not the deciding step"})
}

func opShortName(n string) string {
	if i := strings.Index(n, "("); i >= 0 {
		n = n[:i]
	}
	return n
}

func replay(run *ev.Run) {
	b, err := os.ReadFile(run.Replay)
	if err != nil {
		run.Fatal("%v", err)
	}
	var file struct {
		Replay violRec `json:"replay"`
	}
	if err := json.Unmarshal(b, &file); err != nil {
		run.Fatal("%v", err)
	}
	vsched.Filter = filter
	rc := newRecipe(run.Seed)
	solo := soloResults(rc)
	f := rc.fresh()
	init := f.snapshot()
	p := program{0, file.Replay.Threads, file.Replay.Repeat}
	outs := make([]string, len(p.Threads))
	var bodies []func()
	for ti, o := range p.Threads {
		ti, o := ti, o
		k := p.times(ti)
		bodies = append(bodies, func() { outs[ti] = runOp(f, o, k) })
	}
	vsched.Run(bodies, file.Replay.Schedule, func(tid int, loc string) {
		if i, path := init.Changed(); i >= 0 {
			fmt.Printf("shared object %s (%s) modified at %s (thread %d)\n", f.names[i], path, loc, tid)
		}
	})
	for ti, o := range p.Threads {
		fmt.Printf("T%d %s equal-to-solo=%v\n", ti, ops[o].Name, outs[ti] == solo[o])
	}
	os.Exit(0)
}


// argFamily: "signatures passed as arguments are left unmodified" and "each call returns what it returns
// alone" for EVERY string of the structured candidate family around a valid signature (valid, 384 bit
// flips, negation, +torsion, x >= p, flag settings, infinity variants, every length 0..200 - the family
// C01/C05 offer to Verify), not only for valid signatures. Sequential (no scheduling involved): the
// candidate sits between two guards in a frame, is handed to every verification / aggregation entry
// point, and the frame is compared byte by byte afterwards; every call is made twice (same verdict), and
// the full snapshot of the shared objects is compared at the end of each chunk.
func argFamily(run *ev.Run) {
	rc := newRecipe(run.Seed)
	one := make([]byte, 32)
	one[31] = 1
	hs, err := must(crypto.DecodePrivateKey(crypto.BLSBLS12381, one)).Sign(rc.m1, crypto.NewExpandMsgXOFKMAC128("c19"))
	if err != nil {
		run.Fatal("argFamily: %v", err)
	}
	hPt, err1 := refbls.DecodeG1(hs)
	sPt, err2 := refbls.DecodeG1(rc.s1)
	if err1 != nil || err2 != nil {
		run.Fatal("argFamily: decoding the base signature: %v %v", err1, err2)
	}
	cands := refbls.G1Candidates(sPt, hPt)
	type entry struct {
		name string
		do   func(f *fixture, c []byte) string
	}
	entries := []entry{
		{"BLS.Verify(pk1,c,m1,H)", func(f *fixture, c []byte) string { return vb(f.pk1.Verify(c, f.m1, f.H)) }},
		{"BLSVerifyPOP(pk1,c)", func(f *fixture, c []byte) string { return vb(crypto.BLSVerifyPOP(f.pk1, c)) }},
		{"SPOCKVerify(pk1,c,pk2,s2)", func(f *fixture, c []byte) string { return vb(crypto.SPOCKVerify(f.pk1, c, f.pk2, f.s2)) }},
		{"SPOCKVerify(pk2,s2,pk1,c)", func(f *fixture, c []byte) string { return vb(crypto.SPOCKVerify(f.pk2, f.s2, f.pk1, c)) }},
		{"VerifyOneMessage([pk1,pk2],c,m1,H)", func(f *fixture, c []byte) string {
			return vb(crypto.VerifyBLSSignatureOneMessage([]crypto.PublicKey{f.pk1, f.pk2}, c, f.m1, f.H))
		}},
		{"VerifyManyMessages([pk1,pk2],c,[m1,m2],[H,H])", func(f *fixture, c []byte) string {
			return vb(crypto.VerifyBLSSignatureManyMessages([]crypto.PublicKey{f.pk1, f.pk2}, c, [][]byte{f.m1, f.m2}, []hash.Hasher{f.H, f.H}))
		}},
		{"BatchVerify([pk1,pk2],[c,s2],m1,H)", func(f *fixture, c []byte) string {
			r, err := crypto.BatchVerifyBLSSignaturesOneMessage([]crypto.PublicKey{f.pk1, f.pk2}, []crypto.Signature{c, f.s2}, f.m1, f.H)
			return fmt.Sprintf("%v,%v", r, err)
		}},
		{"AggregateBLSSignatures([s2,c])", func(f *fixture, c []byte) string {
			r, err := crypto.AggregateBLSSignatures([]crypto.Signature{f.s2, c})
			return fmt.Sprintf("%x,%v", []byte(r), err)
		}},
	}
	const chunks = 32
	var mu sync.Mutex
	calls := 0
	ev.Par(chunks, func(ch int) {
		f := rc.fresh()
		before := f.snapshot()
		guard := bytes.Repeat([]byte{0x5A}, 16)
		n := 0
		for ci := ch; ci < len(cands); ci += chunks {
			c := cands[ci]
			frame := append(append(append([]byte{}, guard...), c.Bytes...), guard...)
			arg := frame[16 : 16+len(c.Bytes) : 16+len(c.Bytes)]
			want := append([]byte{}, frame...)
			for _, e := range entries {
				r1 := e.do(f, arg)
				same := bytes.Equal(frame, want)
				r2 := e.do(f, arg)
				n += 2
				if !same || !bytes.Equal(frame, want) {
					mu.Lock()
					run.Violation("argument-modified:signature:"+opShortName(e.name), fmt.Sprintf("%s with c = %s: the caller's signature buffer (or its neighbourhood) was modified by the call", e.name, c.Name),
						map[string]any{"entry": e.name, "candidate": c.Name, "before": ev.Hex(want), "after": ev.Hex(frame)})
					mu.Unlock()
					copy(frame, want)
				}
				if r1 != r2 {
					mu.Lock()
					run.Violation("result-differs-on-repetition:"+opShortName(e.name), fmt.Sprintf("%s with c = %s returns %s and then %s on the same inputs", e.name, c.Name, clip(r1), clip(r2)),
						map[string]any{"entry": e.name, "candidate": c.Name, "signature": ev.Hex(c.Bytes)})
					mu.Unlock()
				}
			}
		}
		if i, path := before.Changed(); i >= 0 {
			mu.Lock()
			run.Violation("argument-modified:shared-object", "a shared key / hasher / message object changed while invalid signatures were offered: "+f.names[i]+" "+path, map[string]any{"chunk": ch})
			mu.Unlock()
		}
		mu.Lock()
		calls += n
		mu.Unlock()
	})
	run.Add("evaluations", int64(calls))
	run.Set("argument_family_part", map[string]any{"candidates": len(cands), "entry_points": len(entries), "calls": calls,
		"rule": "every candidate string (between two 16-byte guards) as the signature argument of 8 entry points, each called twice: frame unchanged, same result twice; shared objects snapshot-equal afterwards"})
}
