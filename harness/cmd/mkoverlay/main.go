// mkoverlay generates, from the CURRENT source files of the library, the build overlay of the
// "sched" variant: the sync import of bls_thresholdsign.go is redirected to the scheduler's
// RWMutex shim and vsched.Yield(loc) calls are inserted before every statement of selected
// functions. Everything else stays byte-identical. Fails loudly if an anchor is missing.
package main

import (
	"encoding/json"
	"flag"
	"fmt"
	"go/ast"
	"go/parser"
	"go/token"
	"os"
	"path/filepath"
	"sort"
	"strings"
)

const shimImport = `"github.com/onflow/crypto/zzverif/vsched"`

// file -> function names to instrument ("*" = every function with a receiver whose type name has the given prefix)
var targets = map[string][]string{
	// named functions are ANCHORS (the build fails loudly if one disappears); "*" additionally
	// instruments every other function of the file, so that helpers introduced by a change are
	// interleavable like the functions that call them
	"bls_thresholdsign.go": {"recv:blsThresholdSignature", "*"},
	"hash/kmac.go":         {"ComputeHash", "SumHash", "Reset", "Size", "*"},
	"bls.go":               {"Sign", "Verify", "PublicKey", "Encode", "*"},
	"bls_multisig.go":      {"BLSGeneratePOP", "BLSVerifyPOP", "AggregateBLSPublicKeys", "VerifyBLSSignatureOneMessage", "VerifyBLSSignatureManyMessages", "BatchVerifyBLSSignaturesOneMessage", "*"},
	"spock.go":             {"SPOCKProve", "SPOCKVerifyAgainstData", "SPOCKVerify", "*"},
	"ecdsa.go":             {"Sign", "Verify", "PublicKey", "*"},
}

func die(f string, a ...any) {
	fmt.Fprintf(os.Stderr, "mkoverlay: "+f+"\n", a...)
	os.Exit(1)
}

func recvName(fd *ast.FuncDecl) string {
	if fd.Recv == nil || len(fd.Recv.List) == 0 {
		return ""
	}
	t := fd.Recv.List[0].Type
	if s, ok := t.(*ast.StarExpr); ok {
		t = s.X
	}
	if id, ok := t.(*ast.Ident); ok {
		return id.Name
	}
	return ""
}

func instrument(repo, rel string, names []string) (string, int) {
	path := filepath.Join(repo, rel)
	src, err := os.ReadFile(path)
	if err != nil {
		die("%v", err)
	}
	fset := token.NewFileSet()
	f, err := parser.ParseFile(fset, path, src, parser.ParseComments)
	if err != nil {
		die("parse %s: %v", rel, err)
	}
	want := map[string]bool{}
	optional := map[string]bool{}
	all := false
	prefix := ""
	for _, n := range names {
		switch {
		case strings.HasPrefix(n, "recv:"):
			prefix = strings.TrimPrefix(n, "recv:")
		case n == "*":
			all = true
		case strings.HasPrefix(n, "opt:"):
			// instrumented when present; a tree without it is not an error (not an anchor)
			optional[strings.TrimPrefix(n, "opt:")] = true
		default:
			want[n] = false
		}
	}
	type ins struct {
		off  int
		text string
	}
	var inserts []ins
	nfunc := 0
	for _, d := range f.Decls {
		fd, ok := d.(*ast.FuncDecl)
		if !ok || fd.Body == nil {
			continue
		}
		sel := false
		if _, ok := want[fd.Name.Name]; ok {
			want[fd.Name.Name] = true
			sel = true
		}
		if prefix != "" && strings.HasPrefix(recvName(fd), prefix) {
			sel = true
		}
		if optional[fd.Name.Name] || (all && fd.Name.Name != "init") {
			sel = true
		}
		if !sel {
			continue
		}
		nfunc++
		skip := map[*ast.BlockStmt]bool{}
		ast.Inspect(fd.Body, func(n ast.Node) bool {
			switch x := n.(type) {
			case *ast.SwitchStmt:
				skip[x.Body] = true
			case *ast.TypeSwitchStmt:
				skip[x.Body] = true
			case *ast.SelectStmt:
				skip[x.Body] = true
			}
			return true
		})
		add := func(list []ast.Stmt) {
			for _, st := range list {
				pos := fset.Position(st.Pos())
				inserts = append(inserts, ins{pos.Offset, fmt.Sprintf("vsched.Yield(%q); ", fmt.Sprintf("%s:%d", rel, pos.Line))})
			}
		}
		ast.Inspect(fd.Body, func(n ast.Node) bool {
			switch x := n.(type) {
			case *ast.BlockStmt:
				if !skip[x] {
					add(x.List)
				}
			case *ast.CaseClause:
				add(x.Body)
			case *ast.CommClause:
				add(x.Body)
			}
			return true
		})
	}
	for n, found := range want {
		if !found {
			die("anchor not found: function %s in %s", n, rel)
		}
	}
	if nfunc == 0 {
		die("no function instrumented in %s", rel)
	}
	// import: right after the package clause, on the same line (line numbers unchanged)
	pkgEnd := fset.Position(f.Name.End()).Offset
	inserts = append(inserts, ins{pkgEnd, "; import vsched " + shimImport})
	sort.Slice(inserts, func(i, j int) bool { return inserts[i].off > inserts[j].off })
	out := string(src)
	for _, in := range inserts {
		out = out[:in.off] + in.text + out[in.off:]
	}
	return out, len(inserts) - 1
}

func main() {
	repo := flag.String("repo", "/repo", "library checkout")
	outDir := flag.String("out", "", "output directory")
	flag.Parse()
	if *outDir == "" {
		die("-out required")
	}
	if err := os.MkdirAll(filepath.Join(*outDir, "hash"), 0o755); err != nil {
		die("%v", err)
	}
	replace := map[string]string{}
	total := 0
	var rels []string
	for r := range targets {
		rels = append(rels, r)
	}
	sort.Strings(rels)
	points := map[string]int{}
	for _, rel := range rels {
		txt, n := instrument(*repo, rel, targets[rel])
		// redirect the sync import to the scheduler shim: required in bls_thresholdsign.go (the
		// documented-thread-safe object), and applied to any other instrumented file that has one
		// (a change that adds locking to a "read-only" path is then explored with modelled blocking)
		if n := strings.Count(txt, "\t\"sync\"\n"); n == 1 {
			txt = strings.Replace(txt, "\t\"sync\"\n", "\tsync "+shimImport+"\n", 1)
		} else if rel == "bls_thresholdsign.go" {
			die("anchor not found: import \"sync\" in %s", rel)
		}
		dst := filepath.Join(*outDir, rel)
		old, _ := os.ReadFile(dst)
		if string(old) != txt { // keep mtime when unchanged (build cache friendliness)
			if err := os.WriteFile(dst, []byte(txt), 0o644); err != nil {
				die("%v", err)
			}
		}
		replace[filepath.Join(*repo, rel)] = dst
		total += n
		points[rel] = n
	}
	// test-only accessor for the package-level PoP hasher (added to the package by the overlay)
	exp := filepath.Join(*outDir, "zz_verif_export.go")
	expSrc := "//go:build verif\n\npackage crypto\n\nimport \"github.com/onflow/crypto/hash\"\n\n// VerifPopKMAC exposes the shared proof-of-possession hasher to the C19 harness.\nfunc VerifPopKMAC() hash.Hasher { return popKMAC }\n"
	if old, _ := os.ReadFile(exp); string(old) != expSrc {
		if err := os.WriteFile(exp, []byte(expSrc), 0o644); err != nil {
			die("%v", err)
		}
	}
	replace[filepath.Join(*repo, "zz_verif_export.go")] = exp
	shimSrc := "/verif/harness/overlay_src/vsched/vsched.go"
	if _, err := os.Stat(shimSrc); err != nil {
		die("%v", err)
	}
	replace[filepath.Join(*repo, "zzverif/vsched/vsched.go")] = shimSrc
	b, _ := json.MarshalIndent(map[string]any{"Replace": replace}, "", " ")
	if err := os.WriteFile(filepath.Join(*outDir, "overlay.json"), b, 0o644); err != nil {
		die("%v", err)
	}
	pb, _ := json.Marshal(points)
	_ = os.WriteFile(filepath.Join(*outDir, "points.json"), pb, 0o644)
	fmt.Printf("mkoverlay: %d yield points in %d files\n", total, len(rels))
}
