// C05: serialization is canonical and validating for every key and signature type.
//
// Exhaustive enumeration of a structured grammar of byte strings per decoder (BLS private
// key, BLS public key / G2 incl. DKG verification vectors, the four G1 parsing sites, ECDSA
// public keys raw + compressed on both curves, ECDSA private keys) plus round trips of the
// objects the package produces. Every case is judged by independent reference decoders
// (refbls: ZCash format per draft-irtf-cfrg-pairing-friendly-curves; refecdsa: SEC1):
//
//	reference accepts  => library accepts AND re-encodes to exactly the input
//	reference rejects  => library rejects with IsInvalidInputsError (decoders),
//	                      (false,nil) (Verify, SPOCKVerify), IsInvalidSignatureError
//	                      (AggregateBLSSignatures, BLSReconstructThresholdSignature)
//
// G2 is judged against the ZCash byte order the statement cites. The class "the library
// behaves exactly like the reference with the two 48-byte F_p halves exchanged" gets the
// key enc:G2:fp2-order-swapped (finding F1); anything else gets its own narrow key.
package main

import (
	"bytes"
	"encoding/binary"
	"fmt"
	"math/big"
	"sort"
	"strings"
	"sync"

	crypto "github.com/onflow/crypto"
	"github.com/onflow/crypto/hash"

	"verif/harness/ev"
	"verif/harness/ref/refbls"
	"verif/harness/ref/refecdsa"
)

var (
	run  *ev.Run
	hmu  sync.Mutex
	hist = map[string]int64{}
)

func outcome(k string) {
	hmu.Lock()
	hist[k]++
	hmu.Unlock()
}

// errClass maps a library error to the class the property talks about.
func errClass(err error) string {
	switch {
	case err == nil:
		return "nil"
	case crypto.IsInvalidInputsError(err):
		return "invalidInputs"
	case crypto.IsInvalidSignatureError(err):
		return "invalidSignature"
	default:
		return "other"
	}
}

// guard runs f and converts a panic into a string.
func guard(f func()) (panicked string) {
	defer func() {
		if r := recover(); r != nil {
			panicked = fmt.Sprint(r)
		}
	}()
	f()
	return ""
}

type named struct {
	name string
	b    []byte
}

func seedBytes(label string, n int) []byte {
	// deterministic key material; VERIF_SEED only perturbs these bytes
	out := make([]byte, 0, n)
	var ctr uint64
	for len(out) < n {
		var blk [16]byte
		binary.BigEndian.PutUint64(blk[:8], uint64(run.Seed))
		binary.BigEndian.PutUint64(blk[8:], ctr)
		k, _ := hash.NewKMAC_128([]byte("verif-c05-material"), []byte(label), 32)
		out = append(out, k.ComputeHash(blk[:])...)
		ctr++
	}
	return out[:n]
}

// seedScalar returns a scalar in [2, mod-2] derived from the seed.
func seedScalar(label string, mod *big.Int) *big.Int {
	v := new(big.Int).SetBytes(seedBytes(label, 48))
	v.Mod(v, new(big.Int).Sub(mod, big.NewInt(4)))
	return v.Add(v, big.NewInt(2))
}

func be(v *big.Int, n int) []byte { return v.FillBytes(make([]byte, n)) }

func pow2(n uint) *big.Int { return new(big.Int).Lsh(big.NewInt(1), n) }

func bitflips(b []byte) [][]byte {
	var out [][]byte
	for i := 0; i < 8*len(b); i++ {
		c := append([]byte{}, b...)
		c[i/8] ^= 0x80 >> (i % 8)
		out = append(out, c)
	}
	return out
}

// lengthFamily: every length 0..200 as truncation / zero extension / garbage extension /
// leading-zero extension of a valid encoding v.
func lengthFamily(v []byte) []named {
	var out []named
	for n := 0; n <= 200; n++ {
		switch {
		case n < len(v):
			out = append(out, named{fmt.Sprintf("len/%d/trunc", n), append([]byte{}, v[:n]...)})
			out = append(out, named{fmt.Sprintf("len/%d/tail", n), append([]byte{}, v[len(v)-n:]...)})
		case n > len(v):
			z := make([]byte, n)
			copy(z, v)
			out = append(out, named{fmt.Sprintf("len/%d/zeroext", n), z})
			g := make([]byte, n)
			copy(g, v)
			for i := len(v); i < n; i++ {
				g[i] = byte(0x5b + 11*i)
			}
			out = append(out, named{fmt.Sprintf("len/%d/garbage", n), g})
			l := make([]byte, n)
			copy(l[n-len(v):], v)
			out = append(out, named{fmt.Sprintf("len/%d/leadingzeros", n), l})
		}
	}
	return out
}

// ------------------------------------------------------------------ private keys (BLS and ECDSA)

func scalarFamily(order *big.Int, generated []byte) []named {
	var out []named
	one := big.NewInt(1)
	vals := map[string]*big.Int{
		"0": big.NewInt(0), "1": one, "2": big.NewInt(2),
		"ord-2": new(big.Int).Sub(order, big.NewInt(2)), "ord-1": new(big.Int).Sub(order, one),
		"ord": order, "ord+1": new(big.Int).Add(order, one),
		"2^255-1": new(big.Int).Sub(pow2(255), one), "2^255": pow2(255), "2^256-1": new(big.Int).Sub(pow2(256), one),
	}
	names := make([]string, 0, len(vals))
	for k := range vals {
		names = append(names, k)
	}
	sort.Strings(names)
	for _, k := range names {
		out = append(out, named{"value/" + k, be(vals[k], 32)})
	}
	for i, b := range bitflips(be(vals["ord-1"], 32)) {
		out = append(out, named{fmt.Sprintf("bitflip-ord-1/%d", i), b})
	}
	for i, b := range bitflips(generated) {
		out = append(out, named{fmt.Sprintf("bitflip-generated/%d", i), b})
	}
	out = append(out, named{"generated", generated})
	out = append(out, lengthFamily(generated)...)
	out = append(out, named{"nil", nil})
	return out
}

func checkPrivateKeys(algo crypto.SigningAlgorithm, label string, order *big.Int) {
	gen, err := crypto.GeneratePrivateKey(algo, seedBytes("gen-"+label, 48))
	if err != nil {
		run.Fatal("GeneratePrivateKey %s: %v", label, err)
	}
	cases := scalarFamily(order, gen.Encode())
	ev.Par(len(cases), func(i int) {
		c := cases[i]
		v := new(big.Int).SetBytes(c.b)
		want := len(c.b) == 32 && v.Sign() > 0 && v.Cmp(order) < 0
		var sk crypto.PrivateKey
		var derr error
		rp := map[string]any{"decoder": "DecodePrivateKey", "algo": label, "case": c.name, "input": ev.Hex(c.b)}
		if p := guard(func() { sk, derr = crypto.DecodePrivateKey(algo, c.b) }); p != "" {
			cls := "len-" + fmt.Sprint(len(c.b))
			if len(c.b) == 0 {
				cls = "empty-input"
			}
			run.Violation("dec:"+label+"-private:panic:"+cls, "DecodePrivateKey panics instead of rejecting: "+p, rp)
			outcome(label + "-private/panic")
			run.Add("evaluations", 1)
			return
		}
		cl := strings.SplitN(c.name, "/", 2)[0]
		if strings.HasPrefix(c.name, "len/") {
			cl = "len"
		}
		switch {
		case want && derr != nil:
			run.Violation("dec:"+label+"-private:"+cl+":valid-rejected", fmt.Sprintf("valid scalar rejected: %v", derr), rp)
		case want:
			if enc := sk.Encode(); !bytes.Equal(enc, c.b) {
				rp["reencoded"] = ev.Hex(enc)
				run.Violation("dec:"+label+"-private:"+cl+":reencode-differs", "accepted private key re-encodes differently", rp)
			}
			again, e2 := crypto.DecodePrivateKey(algo, sk.Encode())
			if e2 != nil || !again.Equals(sk) || !sk.Equals(again) {
				run.Violation("dec:"+label+"-private:"+cl+":roundtrip-not-equal", "decode(encode(sk)) is not Equal to sk", rp)
			}
			run.Distinct(label + "-priv/" + ev.Hex(c.b))
		case derr == nil:
			rp["reencoded"] = ev.Hex(sk.Encode())
			run.Violation("dec:"+label+"-private:"+cl+":invalid-accepted", "scalar outside [1,order-1] or of wrong length accepted", rp)
		case !crypto.IsInvalidInputsError(derr):
			run.Violation("dec:"+label+"-private:"+cl+":wrong-error-class", fmt.Sprintf("rejection is not an invalid-inputs error: %v", derr), rp)
		default:
			if len(c.b) == 32 {
				run.Distinct(label + "-priv/" + ev.Hex(c.b))
			}
		}
		outcome(fmt.Sprintf("%s-private/ref=%v/lib=%s", label, want, errClass(derr)))
		run.Add("evaluations", 1)
	})
	run.Sample(map[string]any{"decoder": "DecodePrivateKey", "algo": label, "case": cases[3].name, "input": ev.Hex(cases[3].b)})
}

// ------------------------------------------------------------------ G2 (BLS public keys, DKG vectors)

// g2Reason mirrors the reference decoder's rejection reason (for violation keys only; the
// verdict itself comes from refbls). first/second are the two 48-byte halves as written.
func g2Reason(b []byte) string {
	if len(b) != 96 {
		return "length"
	}
	if b[0]&0x80 == 0 {
		return "no-compression-bit"
	}
	if b[0]&0x40 != 0 {
		if b[0] != 0xc0 {
			return "infinity-with-other-header-or-x-bits"
		}
		nz, last := 0, -1
		for i := 1; i < 96; i++ {
			if b[i] != 0 {
				nz++
				last = i
			}
		}
		if nz == 1 && last == 95 {
			return "infinity-nonzero-last-byte"
		}
		if nz > 0 {
			return "infinity-nonzero-byte"
		}
		return ""
	}
	t := append([]byte{}, b[:48]...)
	t[0] &= 0x1f
	if new(big.Int).SetBytes(t).Cmp(refbls.P) >= 0 || new(big.Int).SetBytes(b[48:]).Cmp(refbls.P) >= 0 {
		return "coordinate>=p"
	}
	return "not-on-curve"
}

type g2ref struct {
	ok     bool
	reason string
}

var g2sub sync.Map // x (hex of both coefficients) -> in subgroup

func judgeG2(b []byte, flow bool) g2ref {
	var p refbls.G2
	var err error
	if flow {
		p, err = refbls.DecodeG2Flow(b)
	} else {
		p, err = refbls.DecodeG2ZCash(b)
	}
	if err != nil {
		r := g2Reason(b)
		if r == "" {
			run.Fatal("reference decoder rejects %x (%v) but the classifier finds no reason", b, err)
		}
		return g2ref{false, r}
	}
	if g2Reason(b) != "" && g2Reason(b) != "not-on-curve" {
		run.Fatal("reference decoder accepts %x but the classifier says %s", b, g2Reason(b))
	}
	if !bytes.Equal(map[bool]func(refbls.G2) []byte{true: refbls.EncodeG2Flow, false: refbls.EncodeG2ZCash}[flow](p), b) {
		run.Fatal("reference decoder is not canonical on %x", b)
	}
	if p.Inf {
		return g2ref{true, ""}
	}
	key := p.X.C0.Text(16) + "/" + p.X.C1.Text(16)
	in, ok := g2sub.Load(key)
	if !ok {
		in = p.InSubgroup()
		g2sub.Store(key, in)
		run.Add("reference_subgroup_tests_G2", 1)
	}
	if !in.(bool) {
		return g2ref{false, "not-in-G2"}
	}
	return g2ref{true, ""}
}

type g2lib struct {
	accepted bool
	cls      string
	enc      []byte
	panicked string
	errText  string
}

func (l g2lib) String() string {
	if l.panicked != "" {
		return "panic"
	}
	if l.accepted {
		return "accept"
	}
	return "reject-" + l.cls
}

func libDecodePub(b []byte) g2lib {
	var r g2lib
	r.panicked = guard(func() {
		pk, err := crypto.DecodePublicKey(crypto.BLSBLS12381, b)
		r.cls = errClass(err)
		if err != nil {
			r.errText = err.Error()
			return
		}
		r.accepted = true
		r.enc = pk.Encode()
		// the compressed entry point must behave identically
		pk2, err2 := crypto.DecodePublicKeyCompressed(crypto.BLSBLS12381, b)
		if err2 != nil || !pk2.Equals(pk) || !bytes.Equal(pk2.EncodeCompressed(), r.enc) {
			r.panicked = "DecodePublicKeyCompressed disagrees with DecodePublicKey"
		}
	})
	return r
}

// agrees: does the library behaviour equal what a reference verdict demands?
func agrees(l g2lib, r g2ref, b []byte, needBytes bool) bool {
	if l.panicked != "" {
		return false
	}
	if r.ok {
		return l.accepted && (!needBytes || bytes.Equal(l.enc, b))
	}
	return !l.accepted && l.cls == "invalidInputs"
}

type dkgProc struct {
	disq []string
	flag []string
}

func (p *dkgProc) PrivateSend(int, []byte)           {}
func (p *dkgProc) Broadcast([]byte)                  {}
func (p *dkgProc) Disqualify(i int, log string)      { p.disq = append(p.disq, log) }
func (p *dkgProc) FlagMisbehavior(i int, log string) { p.flag = append(p.flag, log) }

// libDKGVector offers cand as element `pos` of a Feldman-VSS verification vector (t = 1)
// to a fresh non-dealer participant. Accepted = the dealer is not disqualified.
func libDKGVector(cand, other []byte, pos int) g2lib {
	var r g2lib
	r.panicked = guard(func() {
		pr := &dkgProc{}
		d, err := crypto.NewFeldmanVSS(2, 1, 1, pr, 0)
		if err != nil {
			panic(err)
		}
		if err := d.Start(nil); err != nil {
			panic(err)
		}
		msg := []byte{1} // feldmanVSSVerifVec
		if pos == 0 {
			msg = append(append(msg, cand...), other...)
		} else {
			msg = append(append(msg, other...), cand...)
		}
		if err := d.HandleBroadcastMsg(0, msg); err != nil {
			panic(err)
		}
		r.accepted = len(pr.disq) == 0
		r.cls = "invalidInputs" // a disqualification is this site's rejection
		if !r.accepted {
			r.errText = pr.disq[0]
		}
	})
	return r
}

func g2Candidates() []named {
	var out []named
	add := func(n string, b []byte) { out = append(out, named{n, b}) }
	p := refbls.P
	one := big.NewInt(1)
	g2 := refbls.G2Gen()
	a := seedScalar("g2-valid-a", refbls.R)
	valid := []refbls.G2{g2.Mul(a), g2, g2.Mul(new(big.Int).Sub(refbls.R, one))}
	if run.Thorough() {
		for i := 0; i < 5; i++ {
			valid = append(valid, g2.Mul(seedScalar(fmt.Sprintf("g2-valid-%d", i), refbls.R)))
		}
	}
	nonsub := refbls.NonSubgroupG2()
	small, err := refbls.SmallOrderComponentG2()
	if err != nil {
		run.Fatal("%v", err)
	}
	t13, _ := refbls.TorsionG2(13)
	// x with x^3 + 4(1+u) a non-residue: first c0 + u that is not an x-coordinate
	var nonres refbls.Fp2
	for c := int64(1); ; c++ {
		x := refbls.NewFp2(big.NewInt(c), one)
		if _, ok := refbls.G2FromX(x, false); !ok {
			nonres = x
			break
		}
	}
	// (1) flags x first half x second half
	vals := []struct {
		n string
		v *big.Int
	}{
		{"0", big.NewInt(0)}, {"1", one}, {"p-1", new(big.Int).Sub(p, one)}, {"p", p}, {"p+1", new(big.Int).Add(p, one)},
		{"2^381-1", new(big.Int).Sub(pow2(381), one)},
		{"valid.c0", valid[0].X.C0}, {"valid.c1", valid[0].X.C1},
		{"gen.c0", g2.X.C0}, {"gen.c1", g2.X.C1},
		{"nonresidue.c0", nonres.C0}, {"nonresidue.c1", nonres.C1},
		{"nonsubgroup.c0", nonsub.X.C0}, {"nonsubgroup.c1", nonsub.X.C1},
		{"smallorder.c0", small.X.C0}, {"smallorder.c1", small.X.C1},
		{"order13.c0", t13.X.C0}, {"order13.c1", t13.X.C1},
	}
	for f := 0; f < 8; f++ {
		for _, v1 := range vals {
			for _, v2 := range vals {
				b := append(be(v1.v, 48), be(v2.v, 48)...)
				b[0] = b[0]&0x1f | byte(f)<<5
				add(fmt.Sprintf("grid/flags=%03b/%s/%s", f, v1.n, v2.n), b)
			}
		}
	}
	// (2) infinity header with a non-zero byte at each of the 96 positions, other flag bits
	for _, h := range []byte{0xc0, 0xe0, 0x40, 0x60, 0x80, 0x00} {
		b := make([]byte, 96)
		b[0] = h
		add(fmt.Sprintf("inf/header=%02x", h), b)
		if h != 0xc0 && h != 0xe0 {
			continue
		}
		for pos := 0; pos < 96; pos++ {
			for _, v := range []byte{0x01, 0x80, 0xff} {
				if pos == 0 && v != 0x01 {
					continue
				}
				c := append([]byte{}, b...)
				c[pos] |= v
				add(fmt.Sprintf("inf-nonzero/header=%02x/pos=%d/%02x", h, pos, v), c)
			}
		}
	}
	// (3) all single-bit flips of valid encodings, in both byte orders; (4) all lengths
	for i, pt := range valid {
		for _, ord := range []struct {
			n string
			e func(refbls.G2) []byte
		}{{"flow", refbls.EncodeG2Flow}, {"zcash", refbls.EncodeG2ZCash}} {
			e := ord.e(pt)
			add(fmt.Sprintf("valid/%s/%d", ord.n, i), e)
			for j, f := range bitflips(e) {
				add(fmt.Sprintf("bitflip/%s/%d/%d", ord.n, i, j), f)
			}
			if i == 0 {
				for _, l := range lengthFamily(e) {
					add(ord.n+"/"+l.name, l.b)
				}
			}
		}
	}
	// non-reduced aliases of valid points: one half replaced by half+p (second half: always fits
	// in 48 bytes; first half: only when half+p < 2^381, so valid points are searched for one)
	for _, ord := range []struct {
		n string
		e func(refbls.G2) []byte
	}{{"flow", refbls.EncodeG2Flow}, {"zcash", refbls.EncodeG2ZCash}} {
		doneFirst := false
		for k := int64(1); k < 200 && !doneFirst; k++ {
			pt := g2.Mul(new(big.Int).Add(a, big.NewInt(k)))
			e := ord.e(pt)
			flags := e[0] & 0xe0
			t := append([]byte{}, e[:48]...)
			t[0] &= 0x1f
			first, second := new(big.Int).SetBytes(t), new(big.Int).SetBytes(e[48:])
			if k == 1 {
				b := append(append([]byte{}, e[:48]...), be(new(big.Int).Add(second, p), 48)...)
				add("alias/"+ord.n+"/second-half+p", b)
			}
			if fp := new(big.Int).Add(first, p); fp.BitLen() <= 381 {
				b := append(be(fp, 48), e[48:]...)
				b[0] |= flags
				add("alias/"+ord.n+"/first-half+p", b)
				b2 := append(be(fp, 48), be(new(big.Int).Add(second, p), 48)...)
				b2[0] |= flags
				add("alias/"+ord.n+"/both-halves+p", b2)
				doneFirst = true
			}
		}
	}
	// other points outside G2 and of the cofactor subgroup, both signs, both orders
	for n, pt := range map[string]refbls.G2{"nonsubgroup": nonsub, "smallorder": small, "order13": t13, "cofactor": refbls.CofactorPointG2()} {
		for _, q := range []refbls.G2{pt, pt.Neg()} {
			add("offgroup/flow/"+n, refbls.EncodeG2Flow(q))
			add("offgroup/zcash/"+n, refbls.EncodeG2ZCash(q))
		}
	}
	add("nil", nil)
	// de-duplicate by bytes (the grid produces repeats), keep first name
	seen := map[string]bool{}
	var uniq []named
	for _, c := range out {
		if !seen[string(c.b)] {
			seen[string(c.b)] = true
			uniq = append(uniq, c)
		}
	}
	return uniq
}

func family(name string) string {
	parts := strings.Split(name, "/")
	if parts[0] == "flow" || parts[0] == "zcash" {
		return "len"
	}
	return parts[0]
}

func checkG2() {
	cands := g2Candidates()
	run.Set("g2_candidates", len(cands))
	other := refbls.EncodeG2Flow(refbls.G2Gen().Mul(big.NewInt(5))) // what the library reads as a valid element
	ev.Par(len(cands), func(i int) {
		c := cands[i]
		rz, rf := judgeG2(c.b, false), judgeG2(c.b, true)
		sites := []struct {
			name      string
			lib       g2lib
			needBytes bool
		}{{"decodePublicKey", libDecodePub(c.b), true}}
		if len(c.b) == 96 {
			// the vector site has its own (total) length check; element-wise grammar only
			sites = append(sites,
				struct {
					name      string
					lib       g2lib
					needBytes bool
				}{"dkg-vector[0]", libDKGVector(c.b, other, 0), false},
				struct {
					name      string
					lib       g2lib
					needBytes bool
				}{"dkg-vector[1]", libDKGVector(c.b, other, 1), false})
		}
		for _, s := range sites {
			run.Add("evaluations", 1)
			outcome(fmt.Sprintf("G2/%s/zcash-ref=%v/flow-ref=%v/lib=%s", strings.SplitN(s.name, "[", 2)[0], rz.ok, rf.ok, s.lib))
			if agrees(s.lib, rz, c.b, s.needBytes) {
				continue
			}
			rp := map[string]any{"site": s.name, "case": c.name, "input": ev.Hex(c.b),
				"reference_zcash": fmt.Sprintf("%+v", rz), "reference_flow_order": fmt.Sprintf("%+v", rf),
				"library": s.lib.String(), "library_error": s.lib.errText, "library_reencoded": ev.Hex(s.lib.enc)}
			if agrees(s.lib, rf, c.b, s.needBytes) {
				run.Violation("enc:G2:fp2-order-swapped", fmt.Sprintf("%s: library verdict/bytes are those of the c0||c1 order, not of the cited ZCash c1||c0 order (case %s)", s.name, c.name), rp)
				continue
			}
			// a genuine disagreement with both orders: narrow key
			site := strings.SplitN(s.name, "[", 2)[0]
			var key string
			switch {
			case s.lib.panicked != "":
				key = "enc:G2:" + site + ":panic:" + family(c.name)
			case s.lib.accepted && rf.reason == "infinity-nonzero-last-byte":
				key = "enc:G2:infinity-nonzero-last-byte"
			case s.lib.accepted && !rf.ok:
				key = "enc:G2:" + site + ":accepts:" + rf.reason
			case s.lib.accepted:
				key = "enc:G2:" + site + ":reencode-differs:" + family(c.name)
			case rf.ok:
				key = "enc:G2:" + site + ":rejects-valid:" + family(c.name)
			default:
				key = "enc:G2:" + site + ":wrong-error-class:" + rf.reason
			}
			run.Violation(key, fmt.Sprintf("%s on case %s: library %s, reference (flow order) %+v, reference (ZCash) %+v", s.name, c.name, s.lib, rf, rz), rp)
		}
		if len(c.b) == 96 {
			run.Distinct("G2/" + ev.Hex(c.b))
		}
	})
	for _, i := range []int{5, len(cands) / 2, len(cands) - 3} {
		run.Sample(map[string]any{"decoder": "DecodePublicKey(BLS)+dkg-vector", "case": cands[i].name, "input": ev.Hex(cands[i].b)})
	}
}

// ------------------------------------------------------------------ G1 parsing sites

type g1setup struct {
	a, b   *big.Int // private scalars of key 1 and key 2
	sk1    crypto.PrivateKey
	pk1    crypto.PublicKey
	pk2    crypto.PublicKey
	msg    []byte
	h      hash.Hasher
	H      refbls.G1 // H(m)
	s1, s2 refbls.G1 // a*H, b*H
}

func mustSK(k *big.Int) crypto.PrivateKey {
	sk, err := crypto.DecodePrivateKey(crypto.BLSBLS12381, refbls.ScalarBytes(k))
	if err != nil {
		run.Fatal("DecodePrivateKey(%v): %v", k, err)
	}
	return sk
}

// newG1Setup picks message bytes (counter) so that the non-canonical x+p variant of the valid
// signature exists (x + p < 2^381), making the family complete for this setup.
func newG1Setup(idx int) *g1setup {
	s := &g1setup{a: seedScalar(fmt.Sprintf("g1-a-%d", idx), refbls.R), b: seedScalar(fmt.Sprintf("g1-b-%d", idx), refbls.R)}
	if idx == 1 {
		s.a = new(big.Int).Sub(refbls.R, big.NewInt(1))
	}
	s.sk1 = mustSK(s.a)
	s.pk1 = s.sk1.PublicKey()
	s.pk2 = mustSK(s.b).PublicKey()
	s.h = crypto.NewExpandMsgXOFKMAC128(fmt.Sprintf("verif-c05-%d", idx))
	one := mustSK(big.NewInt(1))
	for ctr := 0; ; ctr++ {
		s.msg = append(seedBytes(fmt.Sprintf("g1-msg-%d", idx), 20), byte(ctr))
		hs, err := one.Sign(s.msg, s.h)
		if err != nil {
			run.Fatal("Sign: %v", err)
		}
		H, err := refbls.DecodeG1(hs)
		if err != nil || H.Inf || !H.InSubgroup() {
			run.Fatal("H(m) from the library does not decode into G1: %v", err)
		}
		s.H = H
		s.s1, s.s2 = H.Mul(s.a), H.Mul(s.b)
		if new(big.Int).Add(s.s1.X, refbls.P).BitLen() <= 381 {
			break
		}
	}
	// anchor: the library's own signature is the reference sk*H(m)
	sig, _ := s.sk1.Sign(s.msg, s.h)
	if !bytes.Equal(sig, refbls.EncodeG1(s.s1)) {
		run.Violation("enc:G1:sign:not-canonical-sk*H", "Sign output differs from the reference encoding of sk*H(m)", map[string]any{"sk": ev.Hex(refbls.ScalarBytes(s.a)), "msg": ev.Hex(s.msg), "sig": ev.Hex(sig)})
	}
	return s
}

func g1Class(name string) string {
	parts := strings.Split(name, "/")
	switch parts[0] {
	case "len":
		return "len-" + parts[2]
	case "inf-nonzero", "inf-sign-nonzero":
		if parts[1] == "47" {
			return parts[0] + "-last-byte"
		}
		return parts[0]
	}
	return parts[0]
}

func checkG1Sites(idx int) {
	su := newG1Setup(idx)
	cands := refbls.G1Candidates(su.s1, su.H)
	run.Set("g1_candidates_per_setup", len(cands))
	encS2 := refbls.EncodeG1(su.s2)
	// shares for the reconstruction site: arbitrary G1 points v_i = (i+7)*H at signer i
	v := make([]refbls.G1, 3)
	for i := range v {
		v[i] = su.H.Mul(big.NewInt(int64(i + 7)))
	}
	lag01 := refbls.LagrangeAtZero([]int{1, 2})
	base := map[string]any{"sk1": ev.Hex(refbls.ScalarBytes(su.a)), "sk2": ev.Hex(refbls.ScalarBytes(su.b)), "msg": ev.Hex(su.msg), "tag": fmt.Sprintf("verif-c05-%d", idx)}
	ev.Par(len(cands), func(i int) {
		c := named{cands[i].Name, cands[i].Bytes}
		vd := refbls.JudgeG1(c.b)
		isValid := vd.InG1 && vd.Point.Equal(su.s1)
		cls := g1Class(c.name)
		report := func(site, what string, extra map[string]any) {
			rp := map[string]any{"site": site, "case": c.name, "candidate": ev.Hex(c.b), "reference_decodes": vd.Decodes, "reference_in_G1": vd.InG1}
			for k, x := range base {
				rp[k] = x
			}
			for k, x := range extra {
				rp[k] = x
			}
			key := "enc:G1:" + site + ":" + cls
			if strings.HasPrefix(cls, "inf-nonzero-last-byte") {
				key = "enc:G1:infinity-nonzero-last-byte"
			}
			if site == "reconstruct" && len(c.b) != 48 {
				key = "enc:G1:reconstruct:share-length-not-48"
			}
			run.Violation(key, site+": "+what+" (case "+c.name+")", rp)
		}
		// boolean sites
		boolSite := func(site string, f func() (bool, error)) {
			var ok bool
			var err error
			run.Add("evaluations", 1)
			if p := guard(func() { ok, err = f() }); p != "" {
				report(site, "panic: "+p, nil)
				return
			}
			outcome(fmt.Sprintf("G1/%s/ref=%v/lib=%v,%s", site, isValid, ok, errClass(err)))
			if err != nil {
				report(site, fmt.Sprintf("returned an error instead of a verdict: %v", err), nil)
			} else if ok != isValid {
				report(site, fmt.Sprintf("verdict %v, reference %v (decodes=%v inG1=%v)", ok, isValid, vd.Decodes, vd.InG1), nil)
			}
		}
		boolSite("verify", func() (bool, error) { return su.pk1.Verify(c.b, su.msg, su.h) })
		boolSite("spock-proof1", func() (bool, error) { return crypto.SPOCKVerify(su.pk1, c.b, su.pk2, encS2) })
		boolSite("spock-proof2", func() (bool, error) { return crypto.SPOCKVerify(su.pk2, encS2, su.pk1, c.b) })
		// the other entry points that parse one signature for the same (key, message, hasher):
		// the expected verdict is the same as for Verify
		boolSite("verify-one-message", func() (bool, error) {
			return crypto.VerifyBLSSignatureOneMessage([]crypto.PublicKey{su.pk1}, c.b, su.msg, su.h)
		})
		boolSite("verify-many-messages", func() (bool, error) {
			return crypto.VerifyBLSSignatureManyMessages([]crypto.PublicKey{su.pk1}, c.b, [][]byte{su.msg}, []hash.Hasher{su.h})
		})
		boolSite("batch-verify", func() (bool, error) {
			r, err := crypto.BatchVerifyBLSSignaturesOneMessage([]crypto.PublicKey{su.pk1}, []crypto.Signature{c.b}, su.msg, su.h)
			if len(r) != 1 {
				return false, fmt.Errorf("batch returned %d verdicts", len(r))
			}
			return r[0], err
		})
		boolSite("spock-verify-against-data", func() (bool, error) { return crypto.SPOCKVerifyAgainstData(su.pk1, c.b, su.msg, su.h) })
		// byte-producing sites
		bytesSite := func(site string, f func() (crypto.Signature, error), want func() []byte, tolerateOffGroup bool) {
			var out crypto.Signature
			var err error
			run.Add("evaluations", 1)
			if p := guard(func() { out, err = f() }); p != "" {
				report(site, "panic: "+p, nil)
				return
			}
			outcome(fmt.Sprintf("G1/%s/ref-decodes=%v/lib=%s", site, vd.Decodes, errClass(err)))
			switch {
			case !vd.Decodes:
				if err == nil {
					report(site, "malformed signature accepted", map[string]any{"output": ev.Hex(out)})
				} else if !crypto.IsInvalidSignatureError(err) {
					report(site, fmt.Sprintf("rejection is not an invalid-signature error: %v", err), nil)
				}
			case tolerateOffGroup && !vd.InG1:
				// an E1 point outside G1: documented as "not an error", result unspecified
				if err != nil && !crypto.IsInvalidSignatureError(err) {
					report(site, fmt.Sprintf("unexpected error class: %v", err), nil)
				}
			case err != nil:
				report(site, fmt.Sprintf("canonical encoding of a curve point rejected: %v", err), nil)
			default:
				if w := want(); w != nil && !bytes.Equal(out, w) {
					report(site, "output differs from the reference", map[string]any{"output": ev.Hex(out), "expected": ev.Hex(w)})
				}
			}
		}
		bytesSite("aggregate[single]", func() (crypto.Signature, error) { return crypto.AggregateBLSSignatures([]crypto.Signature{c.b}) },
			func() []byte { return c.b }, false)
		sumWant := func() []byte {
			if !vd.InG1 {
				return nil // off-group sums are C04's business, only accept/reject is judged here
			}
			return refbls.EncodeG1(vd.Point.Add(su.s2))
		}
		bytesSite("aggregate[first]", func() (crypto.Signature, error) {
			return crypto.AggregateBLSSignatures([]crypto.Signature{c.b, encS2})
		}, sumWant, false)
		bytesSite("aggregate[last]", func() (crypto.Signature, error) {
			return crypto.AggregateBLSSignatures([]crypto.Signature{encS2, c.b})
		}, sumWant, false)
		for pos := 0; pos < 2; pos++ {
			pos := pos
			bytesSite("reconstruct", func() (crypto.Signature, error) {
				// t+2 shares are supplied so that the flattened buffer always covers (t+1)*48 bytes
				sh := []crypto.Signature{refbls.EncodeG1(v[0]), refbls.EncodeG1(v[1]), refbls.EncodeG1(v[2])}
				sh[pos] = c.b
				return crypto.BLSReconstructThresholdSignature(3, 1, sh, []int{0, 1, 2})
			}, func() []byte {
				if vd.Point.Inf {
					// an identity share is "always an invalid signature" by the package documentation, so the
					// value reconstructed from it is unspecified: only acceptance is judged
					return nil
				}
				pts := []refbls.G1{v[0], v[1]}
				pts[pos] = vd.Point
				return refbls.EncodeG1(pts[0].Mul(lag01[0]).Add(pts[1].Mul(lag01[1])))
			}, true)
		}
		if len(c.b) == 48 {
			run.Distinct(fmt.Sprintf("G1/%d/%s", idx, ev.Hex(c.b)))
		}
	})
	if idx == 0 {
		for _, i := range []int{7, 386, 400} {
			run.Sample(map[string]any{"sites": "Verify,SPOCKVerify,AggregateBLSSignatures,BLSReconstructThresholdSignature", "case": cands[i].Name, "candidate": ev.Hex(cands[i].Bytes), "msg": ev.Hex(su.msg), "sk": ev.Hex(refbls.ScalarBytes(su.a))})
		}
	}
}

// ------------------------------------------------------------------ ECDSA public keys

type ecCurve struct {
	label string
	algo  crypto.SigningAlgorithm
	c     *refecdsa.Curve
}

func refRaw(c *refecdsa.Curve, b []byte) (x, y *big.Int, ok bool) {
	if len(b) != 64 {
		return nil, nil, false
	}
	x, y = new(big.Int).SetBytes(b[:32]), new(big.Int).SetBytes(b[32:])
	if x.Cmp(c.P) >= 0 || y.Cmp(c.P) >= 0 || !c.IsOnCurve(x, y) {
		return nil, nil, false
	}
	return x, y, true
}

func refCompressed(c *refecdsa.Curve, b []byte) (x, y *big.Int, ok bool) {
	if len(b) != 33 || (b[0] != 2 && b[0] != 3) {
		return nil, nil, false
	}
	x = new(big.Int).SetBytes(b[1:])
	if x.Cmp(c.P) >= 0 {
		return nil, nil, false
	}
	y, ok = c.DecompressY(x, b[0] == 3)
	if !ok || !c.IsOnCurve(x, y) || y.Bit(0) != uint(b[0]&1) {
		return nil, nil, false
	}
	return x, y, true
}

func ecRawEnc(x, y *big.Int) []byte { return append(be(x, 32), be(y, 32)...) }
func ecCompEnc(x, y *big.Int) []byte {
	return append([]byte{2 + byte(y.Bit(0))}, be(x, 32)...)
}

func checkECDSAPublic(cv ecCurve) {
	c := cv.c
	p := c.P
	one := big.NewInt(1)
	// two valid points with known discrete logs, one with even and one with odd y
	var even, odd [2]*big.Int
	for k := int64(0); even[0] == nil || odd[0] == nil; k++ {
		d := new(big.Int).Add(seedScalar("ec-"+cv.label, c.N), big.NewInt(k))
		x, y := c.ScalarBaseMult(d.Mod(d, c.N))
		if y.Bit(0) == 0 && even[0] == nil {
			even = [2]*big.Int{x, y}
		} else if y.Bit(0) == 1 && odd[0] == nil {
			odd = [2]*big.Int{x, y}
		}
	}
	var nonres *big.Int
	for x := int64(1); ; x++ {
		if _, ok := c.DecompressY(big.NewInt(x), false); !ok {
			nonres = big.NewInt(x)
			break
		}
	}
	var small *big.Int // smallest x >= 1 that IS an x-coordinate
	for x := int64(1); ; x++ {
		if _, ok := c.DecompressY(big.NewInt(x), false); ok {
			small = big.NewInt(x)
			break
		}
	}
	smallY, _ := c.DecompressY(small, false)
	vals := []struct {
		n string
		v *big.Int
	}{
		{"0", big.NewInt(0)}, {"1", one}, {"p-1", new(big.Int).Sub(p, one)}, {"p", p}, {"p+1", new(big.Int).Add(p, one)},
		{"2^256-1", new(big.Int).Sub(pow2(256), one)},
		{"even.x", even[0]}, {"even.y", even[1]}, {"-even.y", new(big.Int).Sub(p, even[1])},
		{"odd.x", odd[0]}, {"odd.y", odd[1]}, {"nonresidue.x", nonres},
		{"small.x", small}, {"small.y", smallY}, {"G.x", c.Gx}, {"G.y", c.Gy},
	}
	// the other numeric boundary of the key format: the group order n (< p on both curves). Values in
	// [n, p) are perfectly good coordinates; the largest x-coordinate below p and the smallest one
	// >= n are valid points inside that band.
	var top, band *big.Int
	for x := new(big.Int).Sub(p, one); top == nil; x = new(big.Int).Sub(x, one) {
		if _, ok := c.DecompressY(x, false); ok {
			top = x
		}
	}
	for x := new(big.Int).Set(c.N); band == nil; x = new(big.Int).Add(x, one) {
		if _, ok := c.DecompressY(x, false); ok {
			band = x
		}
	}
	topY, _ := c.DecompressY(top, false)
	bandY, _ := c.DecompressY(band, true)
	for _, e := range []struct {
		n string
		v *big.Int
	}{{"n-1", new(big.Int).Sub(c.N, one)}, {"n", c.N}, {"n+1", new(big.Int).Add(c.N, one)},
		{"top.x", top}, {"top.y", topY}, {"-top.y", new(big.Int).Sub(p, topY)}, {"band.x", band}, {"band.y", bandY}} {
		vals = append(vals, e)
	}
	if yb, ok := c.DecompressY(big.NewInt(0), false); ok {
		vals = append(vals, struct {
			n string
			v *big.Int
		}{"sqrt(b)", yb})
	}
	// x + p for a small valid x (non-reduced alias that still fits in 256 bits)
	if xp := new(big.Int).Add(small, p); xp.BitLen() <= 256 && new(big.Int).Add(smallY, p).BitLen() <= 256 {
		vals = append(vals, struct {
			n string
			v *big.Int
		}{"small.x+p", xp}, struct {
			n string
			v *big.Int
		}{"small.y+p", new(big.Int).Add(smallY, p)})
	}
	var raw, comp []named
	for _, vx := range vals {
		for _, vy := range vals {
			raw = append(raw, named{"grid/" + vx.n + "/" + vy.n, append(be(vx.v, 32), be(vy.v, 32)...)})
		}
		for pre := 0; pre < 256; pre++ {
			comp = append(comp, named{fmt.Sprintf("grid/prefix=%02x/%s", pre, vx.n), append([]byte{byte(pre)}, be(vx.v, 32)...)})
		}
	}
	for i, pt := range [][2]*big.Int{even, odd} {
		e := ecRawEnc(pt[0], pt[1])
		raw = append(raw, named{fmt.Sprintf("valid/%d", i), e})
		for j, f := range bitflips(e) {
			raw = append(raw, named{fmt.Sprintf("bitflip/%d/%d", i, j), f})
		}
		ce := ecCompEnc(pt[0], pt[1])
		comp = append(comp, named{fmt.Sprintf("valid/%d", i), ce})
		for j, f := range bitflips(ce) {
			comp = append(comp, named{fmt.Sprintf("bitflip/%d/%d", i, j), f})
		}
	}
	raw = append(raw, lengthFamily(ecRawEnc(even[0], even[1]))...)
	raw = append(raw, named{"sec1-uncompressed-65", append([]byte{4}, ecRawEnc(even[0], even[1])...)}, named{"nil", nil})
	raw = append(raw, named{"compressed-as-raw", ecCompEnc(even[0], even[1])})
	comp = append(comp, lengthFamily(ecCompEnc(odd[0], odd[1]))...)
	comp = append(comp, named{"raw-as-compressed", ecRawEnc(even[0], even[1])}, named{"nil", nil},
		named{"sec1-uncompressed-65", append([]byte{4}, ecRawEnc(even[0], even[1])...)},
		named{"sec1-hybrid-65", append([]byte{6}, ecRawEnc(even[0], even[1])...)})

	judge := func(form string, cs []named, ref func(*refecdsa.Curve, []byte) (*big.Int, *big.Int, bool),
		dec func(crypto.SigningAlgorithm, []byte) (crypto.PublicKey, error)) {
		ev.Par(len(cs), func(i int) {
			cse := cs[i]
			x, y, want := ref(c, cse.b)
			var pk crypto.PublicKey
			var err error
			rp := map[string]any{"decoder": form, "curve": cv.label, "case": cse.name, "input": ev.Hex(cse.b)}
			cl := strings.SplitN(cse.name, "/", 2)[0]
			pre := "dec:ECDSA-" + cv.label + ":" + form + ":" + cl
			run.Add("evaluations", 1)
			if p := guard(func() { pk, err = dec(cv.algo, cse.b) }); p != "" {
				run.Violation(pre+":panic", "decoder panics: "+p, rp)
				return
			}
			outcome(fmt.Sprintf("ECDSA-%s/%s/ref=%v/lib=%s", cv.label, form, want, errClass(err)))
			switch {
			case want && err != nil:
				run.Violation(pre+":valid-rejected", fmt.Sprintf("valid key rejected: %v", err), rp)
			case want:
				r, cp := pk.Encode(), pk.EncodeCompressed()
				rp["raw"], rp["compressed"] = ev.Hex(r), ev.Hex(cp)
				if !bytes.Equal(r, ecRawEnc(x, y)) || !bytes.Equal(cp, ecCompEnc(x, y)) {
					run.Violation(pre+":reencode-differs", "accepted key does not re-encode to the reference point", rp)
				} else if (form == "raw" && !bytes.Equal(r, cse.b)) || (form == "compressed" && !bytes.Equal(cp, cse.b)) {
					run.Violation(pre+":reencode-differs", "accepted key does not re-encode to the input", rp)
				}
				run.Distinct("ECDSA/" + cv.label + form + ev.Hex(cse.b))
			case err == nil:
				rp["raw"] = ev.Hex(pk.Encode())
				run.Violation(pre+":invalid-accepted", "input that is not a canonical on-curve point accepted", rp)
			case !crypto.IsInvalidInputsError(err):
				run.Violation(pre+":wrong-error-class", fmt.Sprintf("rejection is not an invalid-inputs error: %v", err), rp)
			default:
				if (form == "raw" && len(cse.b) == 64) || (form == "compressed" && len(cse.b) == 33) {
					run.Distinct("ECDSA/" + cv.label + form + ev.Hex(cse.b))
				}
			}
		})
	}
	judge("raw", raw, refRaw, crypto.DecodePublicKey)
	judge("compressed", comp, refCompressed, crypto.DecodePublicKeyCompressed)
	run.Set("ecdsa_"+cv.label+"_candidates", map[string]int{"raw": len(raw), "compressed": len(comp)})
	run.Sample(map[string]any{"decoder": "DecodePublicKeyCompressed", "curve": cv.label, "case": comp[300].name, "input": ev.Hex(comp[300].b)})
}

// ------------------------------------------------------------------ produced objects

type net struct {
	n     int
	nodes []crypto.DKGState
	queue []func()
}
type netProc struct {
	nt   *net
	me   int
	disq int
}

func (p *netProc) PrivateSend(dest int, data []byte) {
	d, me := append([]byte{}, data...), p.me
	p.nt.queue = append(p.nt.queue, func() { _ = p.nt.nodes[dest].HandlePrivateMsg(me, d) })
}
func (p *netProc) Broadcast(data []byte) {
	d, me := append([]byte{}, data...), p.me
	for i := 0; i < p.nt.n; i++ {
		if i != me {
			i := i
			p.nt.queue = append(p.nt.queue, func() { _ = p.nt.nodes[i].HandleBroadcastMsg(me, d) })
		}
	}
}
func (p *netProc) Disqualify(int, string)      { p.disq++ }
func (p *netProc) FlagMisbehavior(int, string) { p.disq++ }

func checkProduced() {
	fail := func(kind, what string, rp map[string]any) {
		run.Violation("roundtrip:"+kind, what, rp)
	}
	pubRT := func(kind string, algo crypto.SigningAlgorithm, pk crypto.PublicKey) {
		run.Add("evaluations", 1)
		e := pk.Encode()
		d, err := crypto.DecodePublicKey(algo, e)
		if err != nil || !d.Equals(pk) || !pk.Equals(d) || !bytes.Equal(d.Encode(), e) {
			fail(kind+":public", fmt.Sprintf("produced public key does not decode back to an Equal object (err=%v)", err), map[string]any{"kind": kind, "encoded": ev.Hex(e)})
		}
		if algo != crypto.BLSBLS12381 || true {
			ce := pk.EncodeCompressed()
			d2, err := crypto.DecodePublicKeyCompressed(algo, ce)
			if err != nil || !d2.Equals(pk) || !bytes.Equal(d2.EncodeCompressed(), ce) {
				fail(kind+":public-compressed", fmt.Sprintf("compressed encoding does not decode back (err=%v)", err), map[string]any{"kind": kind, "encoded": ev.Hex(ce)})
			}
		}
		if algo == crypto.BLSBLS12381 {
			// the produced bytes are a canonical encoding of a G2 element in the library's order
			if r := judgeG2(e, true); !r.ok {
				fail(kind+":public-not-canonical-G2", "produced public key bytes are not a canonical G2 encoding (c0||c1 order): "+r.reason, map[string]any{"kind": kind, "encoded": ev.Hex(e)})
			}
		}
		// the returned bytes belong to the caller: overwriting them must not change the object
		for _, enc := range []func() []byte{pk.Encode, pk.EncodeCompressed} {
			b0 := append([]byte{}, enc()...)
			b1 := enc()
			for i := range b1 {
				b1[i] ^= 0xA5
			}
			if b2 := enc(); !bytes.Equal(b2, b0) {
				fail(kind+":public:encode-aliases-internal-state", "Encode()/EncodeCompressed() changes after the caller overwrote an earlier result", map[string]any{"kind": kind, "encoded": ev.Hex(b0), "after": ev.Hex(b2)})
			}
		}
		// the bytes handed to a decoder belong to the caller too: reusing, wiping or refilling the input
		// buffer afterwards (with garbage, zeros, another valid key) must not change the decoded object
		otherOf := func(n int) []byte {
			o := append([]byte{}, e[:n]...)
			if osk, err := crypto.GeneratePrivateKey(algo, seedBytes("alias-other-key", 48)); err == nil {
				if n == len(e) {
					o = osk.PublicKey().Encode()
				} else {
					o = osk.PublicKey().EncodeCompressed()
				}
			}
			return o
		}
		for ci, dec := range []func([]byte) (crypto.PublicKey, error){
			func(b []byte) (crypto.PublicKey, error) { return crypto.DecodePublicKey(algo, b) },
			func(b []byte) (crypto.PublicKey, error) { return crypto.DecodePublicKeyCompressed(algo, b) },
		} {
			src := e
			if ci == 1 {
				src = pk.EncodeCompressed()
			}
			for _, how := range []string{"xor-a5", "zero", "another-valid-key"} {
				buf := append([]byte{}, src...)
				d, err := dec(buf)
				if err != nil {
					continue // reported above
				}
				switch how {
				case "xor-a5":
					for i := range buf {
						buf[i] ^= 0xA5
					}
				case "zero":
					for i := range buf {
						buf[i] = 0
					}
				default:
					copy(buf, otherOf(len(buf)))
				}
				run.Add("evaluations", 1)
				if !bytes.Equal(d.Encode(), e) || !bytes.Equal(d.EncodeCompressed(), pk.EncodeCompressed()) || !d.Equals(pk) || !pk.Equals(d) {
					fail(kind+":public:decode-aliases-input-buffer", fmt.Sprintf("a key decoded from a buffer changes its encoding / equality after the caller reused the buffer (%s, compressed=%v)", how, ci == 1),
						map[string]any{"kind": kind, "encoded": ev.Hex(src), "buffer_after": ev.Hex(buf), "encode_after": ev.Hex(d.Encode())})
				}
			}
		}
		run.Distinct("produced/" + kind + "/" + ev.Hex(e))
		outcome("produced/public/" + kind)
	}
	prvRT := func(kind string, algo crypto.SigningAlgorithm, sk crypto.PrivateKey) {
		run.Add("evaluations", 1)
		e := sk.Encode()
		d, err := crypto.DecodePrivateKey(algo, e)
		if err != nil || !d.Equals(sk) || !sk.Equals(d) || !bytes.Equal(d.Encode(), e) {
			fail(kind+":private", fmt.Sprintf("produced private key does not decode back to an Equal object (err=%v)", err), map[string]any{"kind": kind, "encoded": ev.Hex(e)})
		}
		{
			b1 := sk.Encode()
			for i := range b1 {
				b1[i] ^= 0xA5
			}
			if b2 := sk.Encode(); !bytes.Equal(b2, e) {
				fail(kind+":private:encode-aliases-internal-state", "Encode() of a private key changes after the caller overwrote an earlier result", map[string]any{"kind": kind})
			}
		}
		for _, how := range []string{"xor-a5", "zero"} {
			buf := append([]byte{}, e...)
			d, err := crypto.DecodePrivateKey(algo, buf)
			if err != nil {
				continue
			}
			for i := range buf {
				if how == "zero" {
					buf[i] = 0
				} else {
					buf[i] ^= 0xA5
				}
			}
			run.Add("evaluations", 1)
			if !bytes.Equal(d.Encode(), e) || !d.Equals(sk) || !bytes.Equal(d.PublicKey().Encode(), sk.PublicKey().Encode()) {
				fail(kind+":private:decode-aliases-input-buffer", "a private key decoded from a buffer changes after the caller reused the buffer ("+how+")", map[string]any{"kind": kind})
			}
		}
		run.Distinct("produced/" + kind + "/" + ev.Hex(e))
		outcome("produced/private/" + kind)
	}
	sigRT := func(kind string, s crypto.Signature) {
		run.Add("evaluations", 1)
		v := refbls.JudgeG1(s)
		if !v.Decodes || !v.InG1 || !bytes.Equal(refbls.EncodeG1(v.Point), s) {
			fail(kind+":signature", "produced signature is not the canonical encoding of a G1 element", map[string]any{"kind": kind, "signature": ev.Hex(s)})
		}
		// and the library's own parser accepts it and reproduces it
		out, err := crypto.AggregateBLSSignatures([]crypto.Signature{s})
		if err != nil || !bytes.Equal(out, s) {
			fail(kind+":signature-reparse", fmt.Sprintf("produced signature does not re-parse to itself (err=%v)", err), map[string]any{"kind": kind, "signature": ev.Hex(s)})
		}
		run.Distinct("produced/" + kind + "/" + ev.Hex(s))
		outcome("produced/signature/" + kind)
	}
	h := crypto.NewExpandMsgXOFKMAC128("verif-c05-produced")
	msg := seedBytes("produced-msg", 33)
	nkeys := 6
	if run.Thorough() {
		nkeys = 40
	}
	var sks []crypto.PrivateKey
	var pks []crypto.PublicKey
	var sigs []crypto.Signature
	for i := 0; i < nkeys; i++ {
		sk, err := crypto.GeneratePrivateKey(crypto.BLSBLS12381, seedBytes(fmt.Sprintf("produced-bls-%d", i), 32+i))
		if err != nil {
			run.Fatal("%v", err)
		}
		prvRT("generated-BLS", crypto.BLSBLS12381, sk)
		pubRT("generated-BLS", crypto.BLSBLS12381, sk.PublicKey())
		s, _ := sk.Sign(msg, h)
		sigRT("sign", s)
		pop, _ := crypto.BLSGeneratePOP(sk)
		sigRT("pop", pop)
		sp, _ := crypto.SPOCKProve(sk, msg, h)
		sigRT("spock", sp)
		sks, pks, sigs = append(sks, sk), append(pks, sk.PublicKey()), append(sigs, s)
		for _, algo := range []crypto.SigningAlgorithm{crypto.ECDSAP256, crypto.ECDSASecp256k1} {
			esk, err := crypto.GeneratePrivateKey(algo, seedBytes(fmt.Sprintf("produced-ec-%d", i), 32+i))
			if err != nil {
				run.Fatal("%v", err)
			}
			prvRT("generated-"+algo.String(), algo, esk)
			pubRT("generated-"+algo.String(), algo, esk.PublicKey())
		}
	}
	// decoded extreme scalars
	for _, k := range []*big.Int{big.NewInt(1), big.NewInt(2), new(big.Int).Sub(refbls.R, big.NewInt(1))} {
		sk := mustSK(k)
		prvRT("decoded-BLS", crypto.BLSBLS12381, sk)
		pubRT("decoded-BLS", crypto.BLSBLS12381, sk.PublicKey())
	}
	// aggregated keys / signatures, prefixes of the key list; cancelling pair -> identity
	for n := 2; n <= len(sks); n++ {
		ask, _ := crypto.AggregateBLSPrivateKeys(sks[:n])
		apk, _ := crypto.AggregateBLSPublicKeys(pks[:n])
		asig, err := crypto.AggregateBLSSignatures(sigs[:n])
		if err != nil {
			run.Fatal("aggregate: %v", err)
		}
		prvRT("aggregated-BLS", crypto.BLSBLS12381, ask)
		pubRT("aggregated-BLS", crypto.BLSBLS12381, apk)
		pubRT("aggregated-BLS-from-private", crypto.BLSBLS12381, ask.PublicKey())
		sigRT("aggregated", asig)
		rem, _ := crypto.RemoveBLSPublicKeys(apk, pks[:1])
		pubRT("removed-BLS", crypto.BLSBLS12381, rem)
	}
	a := seedScalar("produced-cancel", refbls.R)
	ska, skna := mustSK(a), mustSK(new(big.Int).Sub(refbls.R, a))
	idpk, _ := crypto.AggregateBLSPublicKeys([]crypto.PublicKey{ska.PublicKey(), skna.PublicKey()})
	pubRT("identity-aggregated-BLS", crypto.BLSBLS12381, idpk)
	pubRT("identity-BLS", crypto.BLSBLS12381, crypto.IdentityBLSPublicKey())
	sa, _ := ska.Sign(msg, h)
	sna, _ := skna.Sign(msg, h)
	idsig, _ := crypto.AggregateBLSSignatures([]crypto.Signature{sa, sna})
	sigRT("identity-aggregated", idsig)
	if !crypto.IsBLSSignatureIdentity(idsig) {
		fail("identity-signature", "aggregate of s and -s is not recognised as the identity signature", map[string]any{"signature": ev.Hex(idsig)})
	}
	// threshold key generation + reconstruction
	for _, nt := range [][2]int{{2, 1}, {3, 1}, {4, 2}, {5, 4}} {
		tsk, tpk, gpk, err := crypto.BLSThresholdKeyGen(nt[0], nt[1], seedBytes(fmt.Sprintf("produced-tkg-%d", nt[0]), 32))
		if err != nil {
			run.Fatal("BLSThresholdKeyGen: %v", err)
		}
		pubRT("threshold-group", crypto.BLSBLS12381, gpk)
		var shares []crypto.Signature
		var signers []int
		for i := range tsk {
			prvRT("threshold-share", crypto.BLSBLS12381, tsk[i])
			pubRT("threshold-share", crypto.BLSBLS12381, tpk[i])
			s, _ := tsk[i].Sign(msg, h)
			sigRT("threshold-share", s)
			shares, signers = append(shares, s), append(signers, i)
		}
		ts, err := crypto.BLSReconstructThresholdSignature(nt[0], nt[1], shares, signers)
		if err != nil {
			run.Fatal("reconstruct: %v", err)
		}
		sigRT("threshold-reconstructed", ts)
	}
	// DKG outputs (Feldman VSS, honest run n=3 t=1, and Joint-Feldman n=3)
	for _, kind := range []string{"feldman-vss", "joint-feldman"} {
		nt := &net{n: 3}
		for i := 0; i < 3; i++ {
			var d crypto.DKGState
			var err error
			if kind == "feldman-vss" {
				d, err = crypto.NewFeldmanVSS(3, 1, i, &netProc{nt: nt, me: i}, 0)
			} else {
				d, err = crypto.NewJointFeldman(3, 1, i, &netProc{nt: nt, me: i})
			}
			if err != nil {
				run.Fatal("dkg ctor: %v", err)
			}
			nt.nodes = append(nt.nodes, d)
		}
		for i, d := range nt.nodes {
			if err := d.Start(seedBytes(fmt.Sprintf("produced-dkg-%s-%d", kind, i), 32)); err != nil {
				run.Fatal("dkg start: %v", err)
			}
		}
		for len(nt.queue) > 0 {
			f := nt.queue[0]
			nt.queue = nt.queue[1:]
			f()
		}
		if kind == "joint-feldman" {
			for r := 0; r < 2; r++ {
				for _, d := range nt.nodes {
					_ = d.NextTimeout()
				}
				for len(nt.queue) > 0 {
					f := nt.queue[0]
					nt.queue = nt.queue[1:]
					f()
				}
			}
		}
		for i, d := range nt.nodes {
			sk, gpk, pkl, err := d.End()
			if err != nil {
				run.Fatal("honest %s run failed at node %d: %v", kind, i, err)
			}
			prvRT("dkg-"+kind+"-share", crypto.BLSBLS12381, sk)
			pubRT("dkg-"+kind+"-group", crypto.BLSBLS12381, gpk)
			for _, p := range pkl {
				pubRT("dkg-"+kind+"-share", crypto.BLSBLS12381, p)
			}
		}
	}
	run.Sample(map[string]any{"kind": "produced-object round trip", "example": "aggregated-BLS public key", "encoded": ev.Hex(idpk.Encode())})
}

func main() {
	run = ev.Start("C05", "exploration")
	if err := refbls.SelfTest(); err != nil {
		run.Fatal("refbls self-test: %v", err)
	}
	if err := refecdsa.SelfTest(); err != nil {
		run.Fatal("refecdsa self-test: %v", err)
	}
	run.Set("rule", "Per decoder an explicit grammar of byte strings is enumerated exhaustively and each string is judged by an independent reference decoder. "+
		"BLS/ECDSA private keys: every length 0..200 (truncation, tail, zero/garbage/leading-zero extension) + 10 boundary values + all 512 single-bit flips of order-1 and of a generated key. "+
		"G2 (DecodePublicKey, DecodePublicKeyCompressed, DKG verification-vector elements 0 and 1): 8 flag settings x 18x18 grid of half values {0,1,p-1,p,p+1,2^381-1, coefficients of a valid point, of the generator, of a non-residue x, of a point outside G2, of g2+T13, of T13}; infinity/other headers with a non-zero byte (01,80,ff) at each of 96 positions; all 768 single-bit flips of each valid encoding in both byte orders; every length 0..200; off-group points. Each string is judged in the cited ZCash order and in the c0||c1 order. "+
		"G1 sites (Verify, VerifyBLSSignatureOneMessage, VerifyBLSSignatureManyMessages, BatchVerifyBLSSignaturesOneMessage, SPOCKVerifyAgainstData, SPOCKVerify both positions, AggregateBLSSignatures single/first/last, BLSReconstructThresholdSignature position 0/1): the C01 candidate family (valid, 384 bit flips, -s, s+T3/T11/T33/cofactor, s+-g1, s+-H, 2s, x+p, 8 flag settings, uncompressed, infinity with a non-zero byte at each position with and without sign bit, every length 0..200). "+
		"ECDSA public keys on P-256 and secp256k1: raw 64-byte = all pairs over {0,1,p-1,p,p+1,2^256-1, n-1,n,n+1, coordinates of valid points incl. the largest x below p and the smallest x >= n (the band [n,p) between group order and field prime), non-residue x, x+p aliases}; compressed = all 256 prefix bytes x the same x values; all single-bit flips of two valid encodings; every length 0..200; SEC1 65-byte forms. "+
		"Produced objects (generated, decoded, aggregated, removed, identity, threshold-keygen, Feldman-VSS and Joint-Feldman outputs, signatures, PoPs, SPoCK proofs, reconstructed signatures) are re-decoded and compared with Equals and bytes. "+
		"A case is distinct/non-trivial when it is a distinct byte string of the decoder's nominal length (it passes the length gate) or a distinct produced object.")
	checkPrivateKeys(crypto.BLSBLS12381, "BLS", refbls.R)
	checkPrivateKeys(crypto.ECDSAP256, "ECDSA-P256", refecdsa.P256().N)
	checkPrivateKeys(crypto.ECDSASecp256k1, "ECDSA-secp256k1", refecdsa.Secp256k1().N)
	checkG2()
	setups := 2
	if run.Thorough() {
		setups = 6
	}
	for i := 0; i < setups; i++ {
		checkG1Sites(i)
	}
	run.Set("g1_setups", setups)
	checkECDSAPublic(ecCurve{"P256", crypto.ECDSAP256, refecdsa.P256()})
	checkECDSAPublic(ecCurve{"secp256k1", crypto.ECDSASecp256k1, refecdsa.Secp256k1()})
	checkProduced()
	run.Set("outcome_histogram", hist)
	run.Set("distinct_outcomes", len(hist))
	run.Assume(
		"refbls (math/big field/curve arithmetic, ZCash codec) self-tested on the published generator encodings, [2]G vectors, torsion orders; refecdsa self-tested on published vectors",
		"the zero private key that AggregateBLSPrivateKeys returns for cancelling inputs is excluded from the produced-object round trip: the statement itself fixes accepted private keys to [1, r-1]",
		"for E1 points outside G1 offered to BLSReconstructThresholdSignature only the error class is judged (documented as 'not an error', result unspecified)",
		"2^768 / 2^384 / 2^512 encoding spaces are covered by the stated structured grammar, not exhaustively",
	)
	fmt.Printf("C05: distinct outcomes %d\n", len(hist))
	run.Finish()
}
