package space

import (
	"bytes"
	"reflect"
	"strings"
	"unsafe"
)

// Snap is a cheap deep snapshot of object graphs: the raw memory of every reachable struct,
// array and slice backing store is copied once; Changed compares the live memory with the copy.
// Pointer fields are part of their parent's raw memory, so re-pointing a field is detected as
// well as writing through it. Maps are not supported (none occur in the objects snapshotted).
type Snap struct {
	regs  []region
	saved [][]byte
}

type region struct {
	p     unsafe.Pointer
	n     uintptr
	root  int
	path  string
	holes [][2]uintptr // byte ranges that are not compared (see syncHoles)
}

// syncHoles lists the byte ranges of a value of type t that hold synchronisation or cache
// machinery - fields whose type comes from sync, sync/atomic or the scheduler's sync shim (Mutex,
// RWMutex, Once, Pool, atomic.*). Taking a lock, publishing a flag or parking an item in a pool is
// not a modification of the object in the sense of the properties (it carries no value of the
// object), and a monitor that looks at raw memory must not report it.
func syncHoles(t reflect.Type, base uintptr, out *[][2]uintptr) {
	switch t.Kind() {
	case reflect.Struct:
		if p := t.PkgPath(); p == "sync" || p == "sync/atomic" || strings.HasSuffix(p, "/zzverif/vsched") {
			*out = append(*out, [2]uintptr{base, base + t.Size()})
			return
		}
		for i := 0; i < t.NumField(); i++ {
			f := t.Field(i)
			syncHoles(f.Type, base+f.Offset, out)
		}
	case reflect.Array:
		if t.Len() > 0 && t.Len() <= 64 {
			for i := 0; i < t.Len(); i++ {
				syncHoles(t.Elem(), base+uintptr(i)*t.Elem().Size(), out)
			}
		}
	}
}

func equalOutside(a, b []byte, holes [][2]uintptr) bool {
	pos := uintptr(0)
	for _, h := range holes {
		if h[0] > pos && !bytes.Equal(a[pos:h[0]], b[pos:h[0]]) {
			return false
		}
		if h[1] > pos {
			pos = h[1]
		}
	}
	return pos >= uintptr(len(a)) || bytes.Equal(a[pos:], b[pos:])
}

// follow decides whether pointers/interfaces to values of this type are walked.
func follow(t reflect.Type) bool {
	for t.Kind() == reflect.Ptr {
		t = t.Elem()
	}
	p := t.PkgPath()
	return strings.HasPrefix(p, "github.com/onflow/crypto") || strings.HasPrefix(p, "golang.org/x/crypto/sha3") ||
		p == "math/big" || p == "crypto/ecdsa" || p == "crypto/internal/fips140/sha3" || p == "crypto/sha3" || p == "" || strings.HasPrefix(p, "verif/")
}

// NewSnap snapshots the given roots (pointers, interfaces holding pointers, or byte slices).
func NewSnap(roots ...any) *Snap {
	s := &Snap{}
	seen := map[unsafe.Pointer]bool{}
	var walk func(v reflect.Value, root int, path string, depth int)
	addRegion := func(p unsafe.Pointer, n uintptr, root int, path string, t reflect.Type) {
		if p == nil || n == 0 {
			return
		}
		var holes [][2]uintptr
		if t != nil {
			syncHoles(t, 0, &holes)
		}
		s.regs = append(s.regs, region{p, n, root, path, holes})
	}
	walk = func(v reflect.Value, root int, path string, depth int) {
		if !v.IsValid() || depth > 12 {
			return
		}
		t := v.Type()
		switch t.Kind() {
		case reflect.Ptr:
			if v.IsNil() || !follow(t) {
				return
			}
			p := unsafe.Pointer(v.Pointer())
			if seen[p] {
				return
			}
			seen[p] = true
			addRegion(p, t.Elem().Size(), root, path, t.Elem())
			if hasPointers(t.Elem()) {
				walk(v.Elem(), root, path, depth+1)
			}
		case reflect.Struct:
			if p := t.PkgPath(); p == "sync" || p == "sync/atomic" || strings.HasSuffix(p, "/zzverif/vsched") {
				return // synchronisation / cache machinery: not part of the object's value (see syncHoles)
			}
			for i := 0; i < t.NumField(); i++ {
				if hasPointers(t.Field(i).Type) {
					walk(access(v.Field(i)), root, path+"."+t.Field(i).Name, depth+1)
				}
			}
		case reflect.Slice:
			if v.IsNil() || v.Len() == 0 {
				return
			}
			p := unsafe.Pointer(v.Pointer())
			if !seen[p] {
				seen[p] = true
				var at reflect.Type
				if v.Len() <= 64 {
					at = reflect.ArrayOf(v.Len(), t.Elem())
				}
				addRegion(p, uintptr(v.Len())*t.Elem().Size(), root, path+"[]", at)
			}
			if hasPointers(t.Elem()) {
				for i := 0; i < v.Len(); i++ {
					walk(access(v.Index(i)), root, path+"[]", depth+1)
				}
			}
		case reflect.Array:
			if hasPointers(t.Elem()) {
				for i := 0; i < v.Len(); i++ {
					walk(access(v.Index(i)), root, path, depth+1)
				}
			}
		case reflect.Interface:
			if v.IsNil() {
				return
			}
			e := v.Elem()
			if e.Kind() == reflect.Ptr || e.Kind() == reflect.Slice {
				walk(e, root, path, depth+1)
			}
		}
	}
	for i, r := range roots {
		walk(reflect.ValueOf(r), i, "", 0)
	}
	for _, r := range s.regs {
		s.saved = append(s.saved, append([]byte(nil), unsafe.Slice((*byte)(r.p), r.n)...))
	}
	return s
}

// Changed returns (root index, path) of the first region whose memory differs from the snapshot, or (-1, "").
func (s *Snap) Changed() (int, string) {
	for i, r := range s.regs {
		if !equalOutside(unsafe.Slice((*byte)(r.p), r.n), s.saved[i], r.holes) {
			return r.root, r.path
		}
	}
	return -1, ""
}

// Regions returns the number of memory regions and bytes covered.
func (s *Snap) Regions() (int, int) {
	n := 0
	for _, b := range s.saved {
		n += len(b)
	}
	return len(s.regs), n
}
