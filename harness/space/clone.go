// Package space provides the explicit-state machinery used on real library objects:
// an alias-preserving reflective deep clone (also of unexported fields) and a canonical
// dump (maps sorted, pointers followed) that is hashed to deduplicate states.
//
// Soundness of the abstraction: the dump covers every field the code can read (only values
// of interface type whose dynamic type the caller asks to skip are left out, e.g. the
// DKGProcessor callback sink, which the harness dumps itself), so two states are merged only
// when they are bit-identical in everything the implementation can observe.
package space

import (
	"crypto/sha256"
	"encoding/binary"
	"fmt"
	"hash"
	"reflect"
	"sort"
	"unsafe"
)

// Cloner deep-copies object graphs. Remap lets the caller substitute pointers (e.g. the
// harness' recording processor) : a pointer found in Remap is replaced, not copied.
type Cloner struct {
	Remap map[unsafe.Pointer]unsafe.Pointer
	memo  map[unsafe.Pointer]reflect.Value
}

func NewCloner() *Cloner {
	return &Cloner{Remap: map[unsafe.Pointer]unsafe.Pointer{}, memo: map[unsafe.Pointer]reflect.Value{}}
}

// Clone returns a deep copy of v (typically a pointer to a struct or an interface holding one).
func (c *Cloner) Clone(v any) any {
	src := reflect.ValueOf(v)
	dst := reflect.New(src.Type()).Elem()
	c.copyInto(dst, src)
	return dst.Interface()
}

func access(v reflect.Value) reflect.Value {
	// make unexported fields readable/settable
	if v.CanAddr() {
		return reflect.NewAt(v.Type(), unsafe.Pointer(v.UnsafeAddr())).Elem()
	}
	return v
}

var pointerFree = map[reflect.Type]bool{}

func hasPointers(t reflect.Type) bool {
	switch t.Kind() {
	case reflect.Ptr, reflect.Map, reflect.Slice, reflect.Interface, reflect.Chan, reflect.Func, reflect.UnsafePointer, reflect.String:
		return t.Kind() != reflect.String
	case reflect.Array:
		return hasPointers(t.Elem())
	case reflect.Struct:
		for i := 0; i < t.NumField(); i++ {
			if hasPointers(t.Field(i).Type) {
				return true
			}
		}
		return false
	}
	return false
}

func (c *Cloner) copyInto(dst, src reflect.Value) {
	t := src.Type()
	if !hasPointers(t) {
		dst.Set(src)
		return
	}
	switch t.Kind() {
	case reflect.Ptr:
		if src.IsNil() {
			return
		}
		p := unsafe.Pointer(src.Pointer())
		if np, ok := c.Remap[p]; ok {
			dst.Set(reflect.NewAt(t.Elem(), np))
			return
		}
		if m, ok := c.memo[p]; ok {
			dst.Set(m)
			return
		}
		n := reflect.New(t.Elem())
		c.memo[p] = n
		c.copyInto(n.Elem(), src.Elem())
		dst.Set(n)
	case reflect.Struct:
		for i := 0; i < t.NumField(); i++ {
			c.copyInto(access(dst.Field(i)), access(src.Field(i)))
		}
	case reflect.Slice:
		if src.IsNil() {
			return
		}
		n := reflect.MakeSlice(t, src.Len(), src.Cap())
		for i := 0; i < src.Len(); i++ {
			c.copyInto(n.Index(i), access(src.Index(i)))
		}
		dst.Set(n)
	case reflect.Array:
		for i := 0; i < src.Len(); i++ {
			c.copyInto(dst.Index(i), access(src.Index(i)))
		}
	case reflect.Map:
		if src.IsNil() {
			return
		}
		n := reflect.MakeMapWithSize(t, src.Len())
		it := src.MapRange()
		for it.Next() {
			k := reflect.New(t.Key()).Elem()
			c.copyInto(k, it.Key())
			v := reflect.New(t.Elem()).Elem()
			c.copyInto(v, it.Value())
			n.SetMapIndex(k, v)
		}
		dst.Set(n)
	case reflect.Interface:
		if src.IsNil() {
			return
		}
		e := src.Elem()
		n := reflect.New(e.Type()).Elem()
		c.copyInto(n, e)
		dst.Set(n)
	case reflect.Func, reflect.Chan, reflect.UnsafePointer:
		dst.Set(src) // shared (not used by the objects we clone)
	default:
		dst.Set(src)
	}
}

// Dumper writes a canonical byte representation of an object graph into a hash.
type Dumper struct {
	H    hash.Hash
	Skip func(t reflect.Type) bool // dynamic types (behind interfaces / pointers) to leave out
	seen map[unsafe.Pointer]int
}

func NewDumper(skip func(reflect.Type) bool) *Dumper {
	return &Dumper{H: sha256.New(), Skip: skip, seen: map[unsafe.Pointer]int{}}
}

func (d *Dumper) Sum() [32]byte { var o [32]byte; copy(o[:], d.H.Sum(nil)); return o }

func (d *Dumper) u64(x uint64) { var b [8]byte; binary.LittleEndian.PutUint64(b[:], x); d.H.Write(b[:]) }

func (d *Dumper) Bytes(b []byte) { d.u64(uint64(len(b))); d.H.Write(b) }

// Dump appends v.
func (d *Dumper) Dump(v any) { d.dump(reflect.ValueOf(v)) }

func (d *Dumper) dump(v reflect.Value) {
	if !v.IsValid() {
		d.u64(0xdead)
		return
	}
	t := v.Type()
	switch t.Kind() {
	case reflect.Ptr:
		if v.IsNil() {
			d.u64(0)
			return
		}
		if d.Skip != nil && d.Skip(t) {
			d.u64(2)
			return
		}
		p := unsafe.Pointer(v.Pointer())
		if id, ok := d.seen[p]; ok {
			d.u64(3)
			d.u64(uint64(id))
			return
		}
		d.seen[p] = len(d.seen) + 1
		d.u64(1)
		d.dump(v.Elem())
	case reflect.Struct:
		for i := 0; i < t.NumField(); i++ {
			d.dump(access(v.Field(i)))
		}
	case reflect.Slice:
		if v.IsNil() {
			d.u64(0)
			return
		}
		d.u64(uint64(v.Len()) + 1)
		for i := 0; i < v.Len(); i++ {
			d.dump(access(v.Index(i)))
		}
	case reflect.Array:
		for i := 0; i < v.Len(); i++ {
			d.dump(access(v.Index(i)))
		}
	case reflect.Map:
		if v.IsNil() {
			d.u64(0)
			return
		}
		d.u64(uint64(v.Len()) + 1)
		type kv struct {
			k string
			v reflect.Value
		}
		var items []kv
		it := v.MapRange()
		for it.Next() {
			sub := NewDumper(d.Skip)
			sub.dump(it.Key())
			s := sub.Sum()
			items = append(items, kv{string(s[:]), it.Value()})
		}
		sort.Slice(items, func(i, j int) bool { return items[i].k < items[j].k })
		for _, e := range items {
			d.H.Write([]byte(e.k))
			d.dump(e.v)
		}
	case reflect.Interface:
		if v.IsNil() {
			d.u64(0)
			return
		}
		e := v.Elem()
		if d.Skip != nil && d.Skip(e.Type()) {
			d.u64(2)
			return
		}
		d.H.Write([]byte(e.Type().String()))
		d.dump(e)
	case reflect.String:
		d.Bytes([]byte(v.String()))
	case reflect.Bool:
		if v.Bool() {
			d.u64(1)
		} else {
			d.u64(0)
		}
	case reflect.Int, reflect.Int8, reflect.Int16, reflect.Int32, reflect.Int64:
		d.u64(uint64(v.Int()))
	case reflect.Uint, reflect.Uint8, reflect.Uint16, reflect.Uint32, reflect.Uint64, reflect.Uintptr:
		d.u64(v.Uint())
	case reflect.Func, reflect.Chan, reflect.UnsafePointer:
		d.u64(4)
	default:
		panic(fmt.Sprintf("space.Dump: unsupported kind %s", t.Kind()))
	}
}

// Field returns an addressable, settable view of the (possibly unexported) field `name`
// of the struct pointed to by ptr (which may be an interface holding a pointer).
func Field(ptr any, name string) reflect.Value {
	v := reflect.ValueOf(ptr)
	for v.Kind() == reflect.Interface || v.Kind() == reflect.Ptr {
		v = v.Elem()
	}
	f := v.FieldByName(name)
	if !f.IsValid() {
		panic("space.Field: no field " + name + " in " + v.Type().String())
	}
	return access(f)
}
