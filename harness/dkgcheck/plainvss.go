package dkgcheck

import (
	"fmt"
	"math/big"
	"sort"
	"strings"

	crypto "github.com/onflow/crypto"

	"verif/harness/dkgsys"
	"verif/harness/ev"
	"verif/harness/ref/refbls"
)

type vssEvent struct {
	Name  string
	Bcast bool
	From  int
	Data  []byte
}

// PlainVSS: plain Feldman VSS receiver, every history of length <= depth over the alphabet of
// vector variants and share variants (both orders, duplicates, mixed). Oracle (C08): End()
// returns keys only if the FIRST vector delivered was a valid vector of t+1 G2 points and the
// FIRST share delivered is a valid scalar matching it; never a panic.
func PlainVSS(run *ev.Run, n, t, me, dealerIdx, depth int) {
	cfg := &dkgsys.Config{Proto: dkgsys.FVSS, N: n, T: t, Dealer: dealerIdx, Seed: run.Seed}
	other := 3 - me - dealerIdx // a third participant (n >= 3)
	dealer, err := dkgsys.NewNode(dkgsys.FVSS, n, t, dealerIdx, dealerIdx)
	if err != nil {
		run.Fatal("%v", err)
	}
	if err := dealer.Inst.Start(dkgsys.SeedFor(run.Seed, dealerIdx)); err != nil {
		run.Fatal("%v", err)
	}
	var vec, share []byte
	for _, m := range dealer.Rec.Drain() {
		if m.Bcast() {
			vec = m.Data
		} else if m.To == me {
			share = m.Data
		}
	}
	var alpha []vssEvent
	mut := func(b []byte) []byte { return append([]byte{}, b...) }
	alpha = append(alpha, vssEvent{"vec:honest", true, dealerIdx, vec})
	for _, v := range []string{"badflags", "infbit", "nonreduced", "offcurve", "nong2", "nong2last", "nong2cancel", "otherpoly", "infa0", "swapcoef"} {
		alpha = append(alpha, vssEvent{"vec:" + v, true, dealerIdx, dkgsys.MutateVector(mut(vec), v, cfg)})
	}
	alpha = append(alpha,
		vssEvent{"vec:short", true, dealerIdx, mut(vec)[:len(vec)-1]},
		vssEvent{"vec:long", true, dealerIdx, append(mut(vec), 0)},
		vssEvent{"vec:tagonly", true, dealerIdx, []byte{1}},
		vssEvent{"vec:onepoint", true, dealerIdx, mut(vec)[:97]},
		vssEvent{"vec:dupcoef", true, dealerIdx, append(mut(vec)[:97], vec[1:97]...)},
		vssEvent{"bcast:empty", true, dealerIdx, []byte{}},
		vssEvent{"bcast:unktag", true, dealerIdx, []byte{9, 1, 2}},
		vssEvent{"vec:fromother", true, other, vec},
		vssEvent{"share:honest", false, dealerIdx, share},
	)
	for _, v := range []string{"zero", "ger", "allff", "wrong"} {
		alpha = append(alpha, vssEvent{"share:" + v, false, dealerIdx, dkgsys.MutateScalar(mut(share), 1, v)})
	}
	wt := mut(share)
	wt[0] = 7
	alpha = append(alpha,
		vssEvent{"share:short", false, dealerIdx, mut(share)[:len(share)-1]},
		vssEvent{"share:long", false, dealerIdx, append(mut(share), 0)},
		vssEvent{"share:tagonly", false, dealerIdx, []byte{0}},
		vssEvent{"share:empty", false, dealerIdx, []byte{}},
		vssEvent{"share:wrongtag", false, dealerIdx, wt},
		vssEvent{"share:fromother", false, other, share},
	)
	// crafted dealing: a valid first coefficient g2^k followed by undecodable coefficients, and the
	// share k itself (matches the "polynomial" if the undecoded coefficients are treated as identity)
	k7 := make([]byte, 32)
	k7[31] = 7
	sk7, err := crypto.DecodePrivateKey(crypto.BLSBLS12381, k7)
	if err != nil {
		run.Fatal("%v", err)
	}
	a0 := sk7.PublicKey().Encode()
	cleared := append([]byte{}, a0...)
	cleared[0] &^= 0x80
	for name, bad := range map[string][]byte{"offcurve": dkgsys.OffCurveG2(), "nong2": dkgsys.NonSubgroupG2(), "zeros": make([]byte, 96), "nocompress": cleared} {
		v := append([]byte{1}, a0...)
		for j := 0; j < t; j++ {
			v = append(v, bad...)
		}
		alpha = append(alpha, vssEvent{"vec:a0+" + name, true, dealerIdx, v})
	}
	sort.Slice(alpha, func(i, j int) bool { return alpha[i].Name < alpha[j].Name })
	alpha = append(alpha, vssEvent{"share:a0", false, dealerIdx, append([]byte{0}, k7...)})
	// reference judgement of each event
	vecValid := map[string][]refbls.G2{}
	for _, e := range alpha {
		if e.Bcast && e.From == dealerIdx && strings.HasPrefix(e.Name, "vec:") {
			if v, ok := parseVector(e.Data, t); ok {
				vecValid[e.Name] = v
			}
		}
	}
	shareVal := map[string]*big.Int{}
	for _, e := range alpha {
		if !e.Bcast && e.From == dealerIdx && len(e.Data) == 33 && e.Data[0] == 0 {
			s := refbls.ScalarFromBytes(e.Data[1:])
			if s.Sign() != 0 && s.Cmp(refbls.R) < 0 {
				shareVal[e.Name] = s
			}
		}
	}
	matchCache := map[string]bool{}
	matches := func(vn, sn string) bool {
		k := vn + "|" + sn
		if m, ok := matchCache[k]; ok {
			return m
		}
		v := vecValid[vn]
		want := refbls.G2Inf()
		xp := big.NewInt(1)
		for j := range v {
			want = want.Add(v[j].Mul(xp))
			xp = new(big.Int).Mul(xp, big.NewInt(int64(me+1)))
		}
		m := refbls.G2Gen().Mul(shareVal[sn]).Equal(want)
		matchCache[k] = m
		return m
	}
	for vn := range vecValid {
		for sn := range shareVal {
			matches(vn, sn)
		}
	}
	var hist [][]int
	var gen func(cur []int)
	gen = func(cur []int) {
		hist = append(hist, append([]int{}, cur...))
		if len(cur) == depth {
			return
		}
		for i := range alpha {
			gen(append(cur, i))
		}
	}
	gen(nil)
	run.Set(fmt.Sprintf("plainvss_n%d_t%d_me%d_dealer%d", n, t, me, dealerIdx), map[string]any{"alphabet": len(alpha), "depth": depth, "histories": len(hist)})
	outcomes := map[string]int{}
	var omu = make(chan struct{}, 1)
	omu <- struct{}{}
	ev.Par(len(hist), func(hi int) {
		h := hist[hi]
		nd, _ := dkgsys.NewNode(dkgsys.FVSS, n, t, me, dealerIdx)
		_ = nd.Inst.Start(dkgsys.SeedFor(run.Seed, me))
		names := make([]string, len(h))
		firstVec, firstShare := "", ""
		pan := ""
		for k, ai := range h {
			e := alpha[ai]
			names[k] = e.Name
			if e.From == dealerIdx && e.Bcast && firstVec == "" && strings.HasPrefix(e.Name, "vec:") {
				firstVec = e.Name
			}
			if e.From == dealerIdx && !e.Bcast && firstShare == "" {
				firstShare = e.Name
			}
			if p := dkgsys.Safe(func() {
				if e.Bcast {
					_ = nd.Inst.HandleBroadcastMsg(e.From, e.Data)
				} else {
					_ = nd.Inst.HandlePrivateMsg(e.From, e.Data)
				}
			}); p != "" {
				pan = fmt.Sprintf("step %d (%s): %s", k, e.Name, p)
				break
			}
		}
		rep := map[string]any{"protocol": "FeldmanVSS", "n": n, "t": t, "receiver": me, "dealer": dealerIdx, "history": names}
		var sk crypto.PrivateKey
		var gpk crypto.PublicKey
		var pks []crypto.PublicKey
		var eerr error
		if pan == "" {
			if p := dkgsys.Safe(func() { sk, gpk, pks, eerr = nd.Inst.End() }); p != "" {
				pan = "End: " + p
			}
		}
		run.Add("plainvss_histories", 1)
		run.Add("transitions", int64(len(h)+1))
		if pan != "" {
			run.Violation("panic:fvss:"+logClass(pan)+":"+classOf(names), fmt.Sprintf("plain Feldman VSS (n=%d,t=%d) history %v panics: %s", n, t, names, pan), rep)
			return
		}
		_, vOK := vecValid[firstVec]
		_, sOK := shareVal[firstShare]
		good := vOK && sOK && matches(firstVec, firstShare)
		// an empty/unknown-tag broadcast from the dealer disqualifies it in the callback only; the
		// statement's conditions are about the vector and the share, nothing else is asserted.
		out := "failure"
		if eerr == nil {
			out = "keys"
		} else if !crypto.IsDKGFailureError(eerr) {
			out = "other"
		}
		<-omu
		outcomes[fmt.Sprintf("%s/expected-good=%v", out, good)]++
		omu <- struct{}{}
		if len(h) >= 2 {
			run.Distinct(fmt.Sprintf("vss/%d/%d/%d/%d/%v", n, t, me, dealerIdx, h))
		}
		if out == "other" {
			run.Violation("end-unexpected:fvss:"+logClass(eerr.Error()), fmt.Sprintf("plain Feldman VSS history %v: End() returned %v", names, eerr), rep)
			return
		}
		if out == "keys" && !good {
			why := "the first share delivered does not match the first vector delivered"
			if !vOK {
				why = "the first vector delivered is invalid or missing"
			} else if !sOK {
				why = "the first share delivered is invalid or missing"
			}
			run.Violation("fvss-keys-despite-bad-dealing:"+classOf(names), fmt.Sprintf("plain Feldman VSS (n=%d,t=%d) history %v: End() returned keys although %s", n, t, names, why), rep)
			return
		}
		if out == "keys" {
			// returned keys must be the dealt ones
			v := vecValid[firstVec]
			if g, err := refbls.DecodeG2Flow(gpk.Encode()); err != nil || !g.Equal(v[0]) {
				run.Violation("fvss-wrong-group-key", fmt.Sprintf("history %v: group key is not the first coefficient of the vector", names), rep)
			}
			if refbls.ScalarFromBytes(sk.Encode()).Cmp(shareVal[firstShare]) != 0 {
				run.Violation("fvss-wrong-private-share", fmt.Sprintf("history %v: returned private share differs from the delivered one", names), rep)
			}
			if len(pks) != n {
				run.Violation("fvss-wrong-share-count", fmt.Sprintf("history %v: %d public shares", names, len(pks)), rep)
			}
		}
	})
	run.Set(fmt.Sprintf("plainvss_n%d_t%d_me%d_dealer%d_outcomes", n, t, me, dealerIdx), outcomes)
	run.Sample(map[string]any{"kind": "plain-vss-history", "n": n, "t": t, "history": []string{"vec:short", "share:honest"}, "expected": "End() = DKG failure, no panic"})
}

// classOf reduces a history to the classes of its events (for narrow violation keys).
func classOf(names []string) string {
	var p []string
	for _, n := range names {
		switch {
		case n == "vec:honest" || n == "share:honest":
			p = append(p, n)
		case strings.HasPrefix(n, "vec:short"), strings.HasPrefix(n, "vec:long"), n == "vec:tagonly", n == "vec:onepoint":
			p = append(p, "vec:wrongsize")
		case strings.HasPrefix(n, "vec:"):
			p = append(p, "vec:bad")
		case strings.HasPrefix(n, "share:"):
			p = append(p, "share:bad")
		default:
			p = append(p, "other")
		}
	}
	return strings.Join(p, ">")
}
