package dkgcheck

import (
	"os"
	"verif/harness/dkgsys"
	"verif/harness/ev"
)

// Jobs returns the configurations and deviation bounds explored per tier.
func Jobs(run *ev.Run, prop string) []Job {
	jfD := 2 // C07 quick: Joint-Feldman with 2 deviations (End-time disqualification needs share+answer faults)
	if prop == "C08" {
		jfD = 1
	}
	s := run.Seed
	q := func(p dkgsys.Protocol, n, t, dealer int, byz []int, d int) Job {
		return Job{Cfg: dkgsys.Config{Proto: p, N: n, T: t, Dealer: dealer, Byz: byz, Seed: s}, D: d}
	}
	// bounded delivery order (see dkgsys.ExploreBounded): Joint-Feldman with >= 3 honest participants
	b := func(p dkgsys.Protocol, n, t, dealer int, byz []int, d, reorder int) Job {
		j := q(p, n, t, dealer, byz, d)
		j.BoundedOrder, j.Reorder = true, reorder
		return j
	}
	if os.Getenv("VERIF_DKG_ONLY") == "jf3tr" { // development: one job only
		j := q(dkgsys.JF, 3, 1, 0, []int{0}, 2)
		j.TripleReps = true
		return []Job{j}
	}
	if os.Getenv("VERIF_DKG_ONLY") == "jf3pc" { // development: one job only
		j := q(dkgsys.JF, 3, 1, 0, []int{0}, 2)
		j.PlusComplaint = true
		return []Job{j}
	}
	if !run.Thorough() {
		return []Job{
			// Byzantine dealer; plus all 3-deviation scripts over behaviour-class representatives
			// (cheap for the single-dealer protocol, whose state spaces are ~25x smaller than Joint-Feldman's)
			func() Job { j := q(dkgsys.FVSSQ, 3, 1, 0, []int{0}, 2); j.TripleReps = true; return j }(),
			q(dkgsys.FVSSQ, 3, 1, 0, []int{2}, 2), // honest dealer, Byzantine receiver
			q(dkgsys.FVSSQ, 3, 1, 1, []int{1}, 1), // dealer at another index
			q(dkgsys.FVSSQ, 4, 1, 0, []int{0}, 1),
			q(dkgsys.FVSSQ, 4, 2, 0, []int{0}, 1),
			q(dkgsys.JF, 3, 1, 0, []int{0}, jfD),
			q(dkgsys.JF, 3, 1, 0, []int{1}, 1),
			q(dkgsys.JF, 3, 1, 0, []int{2}, 1),
			b(dkgsys.JF, 4, 1, 0, []int{0}, 1, 2),
			b(dkgsys.JF, 4, 1, 0, []int{3}, 1, 2),
			// two Byzantine dealers (t = 2): single deviations plus every pair of dealing deviations, one per dealer
			func() Job { j := b(dkgsys.JF, 5, 2, 0, []int{0, 4}, 1, 2); j.CrossPairs = true; return j }(),
		}
	}
	return []Job{
		q(dkgsys.FVSSQ, 3, 1, 0, []int{0}, 3),
		q(dkgsys.FVSSQ, 3, 1, 0, []int{2}, 3),
		q(dkgsys.FVSSQ, 3, 1, 1, []int{1}, 2),
		q(dkgsys.FVSSQ, 3, 1, 2, []int{2}, 2),
		q(dkgsys.FVSSQ, 4, 1, 0, []int{0}, 2),
		q(dkgsys.FVSSQ, 4, 1, 0, []int{3}, 2),
		q(dkgsys.FVSSQ, 4, 2, 0, []int{0}, 2),
		q(dkgsys.FVSSQ, 4, 2, 0, []int{0, 1}, 1), // dealer colluding with a receiver
		q(dkgsys.FVSSQ, 5, 2, 0, []int{0, 4}, 1),
		// all scripts with <= 2 deviations from the full grammar, plus all scripts with 3 deviations over
		// one representative per behaviour class of every slot (subsumes "a bad dealer that also accuses")
		func() Job { j := q(dkgsys.JF, 3, 1, 0, []int{0}, 2); j.TripleReps = true; return j }(),
		q(dkgsys.JF, 3, 1, 0, []int{1}, 1),
		q(dkgsys.JF, 3, 1, 0, []int{2}, 1),
		b(dkgsys.JF, 4, 1, 0, []int{0}, 2, 2),
		b(dkgsys.JF, 4, 1, 0, []int{0}, 1, 3),
		b(dkgsys.JF, 4, 1, 0, []int{2}, 1, 3),
		func() Job { j := b(dkgsys.JF, 5, 2, 0, []int{0, 4}, 1, 2); j.CrossPairs = true; return j }(), // two colluding Byzantine dealers
	}
}

// Describe fills the evidence keys common to C07 and C08.
func Describe(run *ev.Run, prop string) {
	run.Set("rule", "One case = one (configuration, adversary script); for each the COMPLETE reachable state graph of the closed system {real honest DKG instances + network with per-(sender,channel,receiver) FIFO queues + scripted Byzantine participant(s) derived from a real shadow instance} is explored by BFS: every interleaving of deliveries within a round across senders and channels, barriers = timeouts/End when nothing is pending. Scripts = all sets of <= d deviations on distinct slots from the grammar (vector/share/answer/complaint variants: omit, late, duplicate, malformed in each documented way, inconsistent-but-wellformed, unsolicited/premature, junk). States are deduplicated by a canonical hash of every field of every real instance + queues + sent-facts. distinct_nontrivial counts scripts with >= 1 deviation (plus plain-VSS histories of length >= 2 for C08). Oracles: see DESIGN.md C07/C08; "+prop)
	run.Assume(
		"strict rounds: a message sent in phase k is delivered in phase k to every receiver; broadcasts reach all honest receivers with the same bytes (reliable broadcast); per-(sender,channel,receiver) FIFO",
		"the adversary's shadow instance sees every message addressed to it immediately (earliest possible reaction; later reactions are covered by delivery-order exploration)",
		"Byzantine behaviours are limited to the deviation grammar with <= d deviations per script; configurations n<=5",
		"reference group arithmetic refbls (self-tested) decides key consistency and wrong-answer verdicts",
	)
}
