package dkgcheck

import (
	"bytes"
	"fmt"
	"math/big"
	"sync"

	crypto "github.com/onflow/crypto"

	"verif/harness/ev"
	"verif/harness/ref/refbls"
)

// Size sweep: the explored configurations have n <= 5 participants. The agreement / key-consistency
// clauses are also stated for "all (n, t)"; what CAN be enumerated there is the group size itself along
// one fixed schedule: all-honest runs (and runs with one lost share, i.e. one complaint + answer) of the
// three protocols for every group size in a list that crosses every power of two up to the maximum 254.
// Per run: every participant ends without error (plain VSS: with the documented result), all agree on
// the group key and on every public key share, sk_i*g2 == pk_i for boundary indices (refbls), the
// private shares lie on one polynomial of degree t, and t+1 shares - among them the highest indices -
// reconstruct a signature valid under the group key.

type sizeNet struct {
	nodes []crypto.DKGState
	queue []func()
	flags []string
	mu    sync.Mutex
	drop  func(from, to int) bool
}

type sizeProc struct {
	nt *sizeNet
	me int
}

func (p *sizeProc) PrivateSend(dest int, data []byte) {
	d, me := append([]byte{}, data...), p.me
	if p.nt.drop != nil && p.nt.drop(me, dest) {
		return
	}
	p.nt.queue = append(p.nt.queue, func() { _ = p.nt.nodes[dest].HandlePrivateMsg(me, d) })
}
func (p *sizeProc) Broadcast(data []byte) {
	d, me := append([]byte{}, data...), p.me
	for i := range p.nt.nodes {
		if i != me {
			i := i
			p.nt.queue = append(p.nt.queue, func() { _ = p.nt.nodes[i].HandleBroadcastMsg(me, d) })
		}
	}
}
func (p *sizeProc) Disqualify(i int, l string) {
	p.nt.flags = append(p.nt.flags, fmt.Sprintf("%d disqualifies %d: %s", p.me, i, l))
}
func (p *sizeProc) FlagMisbehavior(i int, l string) {
	p.nt.flags = append(p.nt.flags, fmt.Sprintf("%d flags %d: %s", p.me, i, l))
}

func (nt *sizeNet) deliver() {
	for len(nt.queue) > 0 {
		q := nt.queue
		nt.queue = nil
		for _, f := range q {
			f()
		}
	}
}

type sizeCase struct {
	proto  string // fvss | fvssq | jf
	n, t   int
	dealer int
	lost   int // >= 0: the dealer's share to this participant is lost (fvssq / jf: one complaint, answered)
}

func (c sizeCase) String() string {
	return fmt.Sprintf("%s(n=%d,t=%d,dealer=%d,lost-share-to=%d)", c.proto, c.n, c.t, c.dealer, c.lost)
}

// SizeSweep runs the cases and reports under the property's own violation keys (prefix "size-sweep:").
func SizeSweep(run *ev.Run, prop string) {
	sizes := []int{2, 3, 7, 8, 9, 15, 16, 17, 31, 32, 33, 63, 64, 65, 127, 128, 129}
	if run.Thorough() {
		sizes = append(sizes, 4, 5, 6, 10, 20, 100, 191, 192, 193, 253, 254)
	}
	var cases []sizeCase
	for _, n := range sizes {
		t := 1
		if n > 3 {
			t = 2
		}
		cases = append(cases, sizeCase{"fvssq", n, t, n - 1, -1}, sizeCase{"fvss", n, t, 0, -1})
		if n >= 3 {
			cases = append(cases, sizeCase{"fvssq", n, t, 0, n - 1})
		}
		if n <= 33 || (run.Thorough() && n <= 65) {
			cases = append(cases, sizeCase{"jf", n, t, 0, -1})
		}
	}
	// larger thresholds at the boundaries (cost grows with n*n*t)
	cases = append(cases, sizeCase{"fvssq", 16, 7, 0, -1}, sizeCase{"fvssq", 17, 8, 16, -1}, sizeCase{"fvssq", 33, 16, 1, -1}, sizeCase{"fvssq", 129, 5, 128, -1})
	if run.Thorough() {
		cases = append(cases, sizeCase{"fvssq", 65, 32, 64, -1}, sizeCase{"fvssq", 129, 64, 0, 128}, sizeCase{"fvssq", 254, 3, 253, 0})
	}
	var mu sync.Mutex
	done := 0
	ev.Par(len(cases), func(ci int) {
		if run.Expired() {
			return
		}
		c := cases[ci]
		viol := func(key, what string) {
			run.Violation("size-sweep:"+c.proto+":"+key, c.String()+": "+what, map[string]any{"case": c.String(), "protocol": c.proto, "n": c.n, "t": c.t, "dealer": c.dealer, "lost_share_to": c.lost, "seed": run.Seed})
		}
		nt := &sizeNet{nodes: make([]crypto.DKGState, c.n)}
		if c.lost >= 0 {
			nt.drop = func(from, to int) bool { return from == c.dealer && to == c.lost }
		}
		for i := range nt.nodes {
			var err error
			p := &sizeProc{nt, i}
			switch c.proto {
			case "fvss":
				nt.nodes[i], err = crypto.NewFeldmanVSS(c.n, c.t, i, p, c.dealer)
			case "fvssq":
				nt.nodes[i], err = crypto.NewFeldmanVSSQual(c.n, c.t, i, p, c.dealer)
			default:
				nt.nodes[i], err = crypto.NewJointFeldman(c.n, c.t, i, p)
			}
			if err != nil {
				viol("constructor-error", fmt.Sprintf("participant %d: %v", i, err))
				return
			}
		}
		for i, nd := range nt.nodes {
			seed := make([]byte, 32)
			for k := range seed {
				seed[k] = byte(int64(k*7+i*13+c.n) + run.Seed)
			}
			if err := nd.Start(seed); err != nil {
				viol("start-error", fmt.Sprintf("participant %d: %v", i, err))
				return
			}
		}
		nt.deliver()
		if c.proto != "fvss" {
			for ph := 0; ph < 2; ph++ {
				for i, nd := range nt.nodes {
					if err := nd.NextTimeout(); err != nil {
						viol("timeout-error", fmt.Sprintf("participant %d timeout %d: %v", i, ph+1, err))
						return
					}
				}
				nt.deliver()
			}
		}
		sks := make([]crypto.PrivateKey, c.n)
		var gpk crypto.PublicKey
		var pks []crypto.PublicKey
		for i, nd := range nt.nodes {
			sk, g, p, err := nd.End()
			if err != nil {
				viol("end-error-in-an-honest-run", fmt.Sprintf("participant %d: End() = %v although every participant is honest (flags: %v)", i, err, first(nt.flags, 3)))
				return
			}
			sks[i] = sk
			if i == 0 {
				gpk, pks = g, p
				continue
			}
			if !g.Equals(gpk) {
				viol("group-key-disagreement", fmt.Sprintf("participants 0 and %d output different group keys", i))
				return
			}
			if len(p) != len(pks) {
				viol("public-shares-disagreement", fmt.Sprintf("participants 0 and %d output %d and %d public key shares", i, len(pks), len(p)))
				return
			}
			for j := range p {
				if !p[j].Equals(pks[j]) {
					viol("public-shares-disagreement", fmt.Sprintf("participants 0 and %d output different public key shares for index %d", i, j))
					return
				}
			}
		}
		if len(nt.flags) > 0 && c.lost < 0 {
			viol("honest-flagged-in-an-honest-run", fmt.Sprintf("%d flags / disqualifications although every participant is honest and no message is lost: %v", len(nt.flags), first(nt.flags, 3)))
			return
		}
		if len(pks) != c.n {
			viol("public-shares-count", fmt.Sprintf("%d public key shares for %d participants", len(pks), c.n))
			return
		}
		// key consistency: sk_i * g2 == pk_i (library for all i, refbls for boundary indices)
		for i := 0; i < c.n; i++ {
			if sks[i] == nil {
				viol("nil-private-share", fmt.Sprintf("participant %d ends without error and without a private share", i))
				return
			}
			if !sks[i].PublicKey().Equals(pks[i]) {
				viol("private-share-does-not-match-public-share", fmt.Sprintf("participant %d: sk_i*g2 != pk_i (the public share every participant computed from the verification vector)", i))
				return
			}
		}
		for _, i := range []int{0, c.n / 2, c.n - 2, c.n - 1} {
			if i < 0 || i >= c.n {
				continue
			}
			k := new(big.Int).SetBytes(sks[i].Encode())
			if !bytes.Equal(refbls.EncodeG2Flow(refbls.G2Gen().Mul(k)), pks[i].Encode()) {
				viol("public-share-is-not-sk*g2", fmt.Sprintf("participant %d: reference sk_i*g2 differs from the public share", i))
				return
			}
		}
		// t+1 shares, the highest indices among them, reconstruct a signature valid under the group key
		msg, tag := []byte("size sweep message"), "verif-size-sweep"
		idx := []int{c.n - 1}
		for i := 0; len(idx) < c.t+1; i++ {
			if i != c.n-1 {
				idx = append([]int{i}, idx...)
			}
		}
		if c.n > c.t+2 {
			idx[0] = c.n - 2
		}
		seen := map[int]bool{}
		var shares []crypto.Signature
		var signers []int
		for _, i := range idx {
			if seen[i] {
				continue
			}
			seen[i] = true
			s, err := sks[i].Sign(msg, crypto.NewExpandMsgXOFKMAC128(tag))
			if err != nil {
				viol("sign-error", err.Error())
				return
			}
			shares, signers = append(shares, s), append(signers, i)
		}
		for i := 0; len(signers) < c.t+1 && i < c.n; i++ {
			if !seen[i] {
				seen[i] = true
				s, _ := sks[i].Sign(msg, crypto.NewExpandMsgXOFKMAC128(tag))
				shares, signers = append(shares, s), append(signers, i)
			}
		}
		ts, err := crypto.BLSReconstructThresholdSignature(c.n, c.t, shares, signers)
		if err != nil {
			viol("threshold-signature-error", fmt.Sprintf("signers %v: %v", signers, err))
			return
		}
		if ok, err := gpk.Verify(ts, msg, crypto.NewExpandMsgXOFKMAC128(tag)); err != nil || !ok {
			viol("threshold-signature-invalid-under-the-group-key", fmt.Sprintf("signers %v: the reconstructed signature does not verify under the group key the DKG output (%v)", signers, err))
			return
		}
		run.Add("size_sweep_participant_runs", int64(c.n))
		run.Distinct("size-sweep/" + c.String())
		mu.Lock()
		done++
		mu.Unlock()
	})
	run.Set("size_sweep", map[string]any{"prop": prop, "group_sizes": sizes, "cases": len(cases), "completed": done,
		"rule": "all-honest runs along the default schedule (plus one lost share = one answered complaint) of Feldman VSS, Feldman-VSS-Qual and Joint-Feldman for every listed group size: every End() succeeds, all participants output the same group key and public key shares, sk_i*g2 == pk_i (library for every i, refbls at indices 0, n/2, n-2, n-1), and t+1 shares including the highest indices reconstruct a signature valid under the group key"})
}

func first(l []string, k int) []string {
	if len(l) > k {
		return l[:k]
	}
	return l
}
