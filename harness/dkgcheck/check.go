// Package dkgcheck holds the oracles evaluated over the exhaustive exploration of the closed
// DKG systems of package dkgsys: C07 (agreement, key consistency) at terminal states and
// C08 (fairness of qualification) on every edge and at terminal states.
package dkgcheck

import (
	"bytes"
	"encoding/json"
	"fmt"
	"math/big"
	"os"
	"regexp"
	"runtime/debug"
	"sort"
	"strings"
	"sync"

	crypto "github.com/onflow/crypto"

	"verif/harness/dkgsys"
	"verif/harness/ev"
	"verif/harness/ref/refbls"
)

// Job is one (configuration, deviation bound) to explore completely.
type Job struct {
	Cfg       dkgsys.Config
	D         int // max number of deviations per script
	MaxStates int // 0: unbounded
	// BoundedOrder: explore delivery orders with at most Reorder deviations from the default
	// schedule (dkgsys.ExploreBounded) instead of all of them. Used only for the configurations
	// whose unbounded order space is too large (Joint-Feldman with >= 3 honest participants).
	BoundedOrder bool
	Reorder      int
	// PlusComplaint: additionally every script of exactly D deviations extended by ONE well-formed
	// complaint of the Byzantine participant against an honest dealer (round 1 or 2): "a bad dealer
	// that also accuses somebody" needs one deviation more than the bad dealing itself.
	PlusComplaint bool
	// TripleReps: additionally all scripts of THREE deviations on distinct slots, drawn from one
	// representative per behaviour class of each slot. Two variants of one slot are in one class
	// when their single-deviation explorations are indistinguishable (same state-space sizes under
	// every network variant and the same set of terminal outcome classes); this is a heuristic
	// reduction of the grammar for the third deviation only - scripts with <= D deviations are
	// still taken from the full grammar.
	TripleReps bool
	// CrossPairs (more than one Byzantine participant, D < 2): additionally all scripts of TWO
	// deviations, one per Byzantine participant, both on dealing slots (the verification vector or a
	// private share): two bad dealers acting on the same run - e.g. one honest participant that has
	// a reason to complain against two different dealers.
	CrossPairs bool
}

type replayFile struct {
	Config  string   `json:"config"`
	Proto   int      `json:"proto"`
	N       int      `json:"n"`
	T       int      `json:"t"`
	Dealer  int      `json:"dealer"`
	Byz     []int    `json:"byzantine"`
	Seed    int64    `json:"seed"`
	Net     int      `json:"net_round_slip,omitempty"`
	Script  []string `json:"script"`
	Dev     []dkgsys.Deviation `json:"deviations"`
	Path    []dkgsys.Trans `json:"path"`
	PathStr []string `json:"path_readable"`
	Detail  string   `json:"detail"`
	Logs    []string `json:"logs,omitempty"`
}

func mkReplay(cfg *dkgsys.Config, sc dkgsys.Script, path []dkgsys.Trans, detail string, st *dkgsys.State) replayFile {
	r := replayFile{Config: cfg.String(), Proto: int(cfg.Proto), N: cfg.N, T: cfg.T, Dealer: cfg.Dealer, Byz: cfg.Byz, Seed: cfg.Seed, Net: cfg.Net, Dev: sc, Path: path, Detail: detail}
	for _, d := range sc {
		r.Script = append(r.Script, d.String())
	}
	for _, t := range path {
		r.PathStr = append(r.PathStr, t.String())
	}
	if st != nil {
		for _, n := range st.Nodes {
			if n != nil {
				r.Logs = append(r.Logs, n.Rec.Logs...)
			}
		}
	}
	return r
}

var reNum = regexp.MustCompile(`[0-9]+|0x[0-9a-f]+`)

// logClass turns a callback log line into a stable class name (numbers removed).
func logClass(l string) string {
	if i := strings.Index(l, ": "); i >= 0 {
		l = l[i+2:]
	}
	if i := strings.Index(l, ","); i >= 0 {
		l = l[:i]
	}
	l = reNum.ReplaceAllString(l, "")
	l = strings.Join(strings.Fields(l), "-")
	l = strings.Trim(l, "-:()")
	if len(l) > 60 {
		l = l[:60]
	}
	return l
}

var msg = []byte("verif threshold message")

type checker struct {
	run   *ev.Run
	prop  string
	mu    sync.Mutex
	keyOK map[string]bool   // key-material consistency cache
	outcomes map[string]int
	validated int64
}

// Run explores all jobs (scripts in parallel) and evaluates the oracles of `prop` (C07 or C08).
func Run(run *ev.Run, prop string, jobs []Job) {
	// the exploration allocates quickly on 16 cores; keep the heap from running far ahead of the GC
	debug.SetGCPercent(40)
	debug.SetMemoryLimit(12 << 30)
	c := &checker{run: run, prop: prop, keyOK: map[string]bool{}, outcomes: map[string]int{}}
	type unit struct {
		job *Job
		sc  dkgsys.Script
	}
	var units []unit
	var jobInfo []map[string]any
	for i := range jobs {
		j := &jobs[i]
		g := dkgsys.Grammar(&j.Cfg)
		scs := dkgsys.Scripts(g, j.D)
		if j.PlusComplaint {
			var extra []dkgsys.Deviation
			for _, d := range g {
				if strings.HasPrefix(d.Slot, "inj:") && strings.Contains(d.Slot, ":cmp:") && d.Var == "ok" && !strings.HasPrefix(d.Slot, "inj:3:") {
					extra = append(extra, d)
				}
			}
			var more []dkgsys.Script
			for _, sc := range scs {
				if len(sc) != j.D {
					continue
				}
			next:
				for _, e := range extra {
					for _, d := range sc {
						if d.Z == e.Z && d.Slot == e.Slot {
							continue next
						}
					}
					more = append(more, append(append(dkgsys.Script{}, sc...), e))
				}
			}
			scs = append(scs, more...)
		}
		nCross := 0
		if j.CrossPairs && j.D < 2 {
			vars := map[string]bool{"omit": true, "wrong": true, "empty": true, "otherpoly": true}
			if run.Thorough() {
				for _, v := range []string{"late", "dup", "thenlatewrong", "swapcoef", "long"} {
					vars[v] = true
				}
			}
			dealing := func(d dkgsys.Deviation) bool {
				return (d.Slot == "vec" || strings.HasPrefix(d.Slot, "share:")) && vars[d.Var]
			}
			for a := 0; a < len(g); a++ {
				for b := a + 1; b < len(g); b++ {
					if g[a].Z != g[b].Z && dealing(g[a]) && dealing(g[b]) {
						scs = append(scs, dkgsys.Script{g[a], g[b]})
						nCross++
					}
				}
			}
		}
		for _, sc := range scs {
			units = append(units, unit{j, sc})
		}
		order := "unbounded (every interleaving of deliveries)"
		if j.BoundedOrder {
			order = fmt.Sprintf("<= %d deviations from the default delivery schedule", j.Reorder)
		}
		jobInfo = append(jobInfo, map[string]any{"config": j.Cfg.String(), "deviation_bound": j.D, "single_deviations": len(g), "scripts": len(scs), "delivery_order": order, "plus_one_complaint_against_an_honest_dealer": j.PlusComplaint, "two_dealing_deviations_one_per_byzantine_participant": nCross})
	}
	run.Set("jobs", jobInfo)
	var statsMu sync.Mutex
	perCfg := map[string][3]int64{}
	explore := func(i int, u unit) string {
		if run.Expired() {
			return ""
		}
		sig := ""
		outs := map[string]bool{}
		// network variants: explore with every reactive honest broadcast landing in its own round;
		// if such broadcasts occur at all, also with the answers / the complaints / both landing one
		// round later (Config.Net) - closed under what the variants themselves reveal
		todo, seenNet := []int{0}, map[int]bool{0: true}
		var cfg dkgsys.Config
		for len(todo) > 0 {
			net := todo[0]
			todo = todo[1:]
			cfg = u.job.Cfg
			cfg.Net = net
			cfg := cfg
			rb := -1
			if u.job.BoundedOrder {
				rb = u.job.Reorder
			}
			rep, err := dkgsys.ExploreBounded(&cfg, u.sc, u.job.MaxStates, rb, func(prev *dkgsys.State, t dkgsys.Trans, next *dkgsys.State, evs []dkgsys.Event, path func() []dkgsys.Trans) {
				c.edge(&cfg, u.sc, next, evs, path)
			})
			if err != nil {
				run.Fatal("explore %v %v: %v", cfg.String(), u.sc, err)
			}
			for b := 1; b <= 2; b <<= 1 {
				if rep.Reactive&b != 0 && net&b == 0 && !seenNet[net|b] {
					seenNet[net|b] = true
					todo = append(todo, net|b)
				}
			}
			if rep.Capped {
				run.MarkCapped()
			}
			run.Add("states", int64(rep.States))
			run.Add("transitions", int64(rep.Transitions))
			sig += fmt.Sprintf("net%d:%d/%d;", net, rep.States, rep.Transitions)
			if net != 0 {
				run.Add("explorations_with_round_slip", 1)
			}
			statsMu.Lock()
			x := perCfg[u.job.Cfg.String()]
			x[0] += int64(rep.States)
			x[1] += int64(rep.Transitions)
			if net == 0 {
				x[2]++
			}
			perCfg[u.job.Cfg.String()] = x
			statsMu.Unlock()
			for ti, term := range rep.Terminals {
				c.terminal(&cfg, u.sc, term)
				o := term.State.Outcome()
				if !outs[o] || ti%16 == 0 {
					// conformance: re-execute the path from scratch on fresh instances without cloning
					c.validate(&cfg, u.sc, term)
				}
				outs[o] = true
			}
			if i%997 == 3 && net == 0 {
				run.Sample(map[string]any{"config": cfg.String(), "script": u.sc.String(), "states": rep.States, "transitions": rep.Transitions, "terminal_outcomes": keys(outs)})
			}
		}
		run.Add("scripts", 1)
		c.mu.Lock()
		for o := range outs {
			c.outcomes[outcomeClass(o)]++
		}
		c.mu.Unlock()
		cfg = u.job.Cfg
		if len(u.sc) > 0 {
			run.Distinct(cfg.String() + "/" + u.sc.String())
		}
		var oc []string
		for o := range outs {
			oc = append(oc, outcomeClass(o))
		}
		sort.Strings(oc)
		return sig + strings.Join(oc, "|")
	}
	var sigMu sync.Mutex
	sigs := map[*Job]map[dkgsys.Deviation]string{}
	// an answer slot only exists once somebody complained: its variants are compared IN THE CONTEXT of the
	// deviation that provokes the complaint (the pair {share to r omitted, answer-to-r variant}, explored
	// anyway when D >= 2) - alone they are all indistinguishable from "no deviation"
	pairSigs := map[*Job]map[[2]dkgsys.Deviation]string{}
	ev.Par(len(units), func(i int) {
		u := units[i]
		sg := explore(i, u)
		if u.job.TripleReps && len(u.sc) == 1 && sg != "" {
			sigMu.Lock()
			if sigs[u.job] == nil {
				sigs[u.job] = map[dkgsys.Deviation]string{}
			}
			sigs[u.job][u.sc[0]] = sg
			sigMu.Unlock()
		}
		if u.job.TripleReps && len(u.sc) == 2 && sg != "" {
			a, b := u.sc[0], u.sc[1]
			if strings.HasPrefix(b.Slot, "share:") {
				a, b = b, a
			}
			if strings.HasPrefix(a.Slot, "share:") && a.Var == "omit" && strings.HasPrefix(b.Slot, "ans:") && a.Z == b.Z && strings.TrimPrefix(a.Slot, "share:") == strings.TrimPrefix(b.Slot, "ans:") {
				sigMu.Lock()
				if pairSigs[u.job] == nil {
					pairSigs[u.job] = map[[2]dkgsys.Deviation]string{}
				}
				pairSigs[u.job][[2]dkgsys.Deviation{a, b}] = sg
				sigMu.Unlock()
			}
		}
	})
	// second stage: triples over class representatives
	var units2 []unit
	for i := range jobs {
		j := &jobs[i]
		if !j.TripleReps || run.Expired() {
			continue
		}
		g := dkgsys.Grammar(&j.Cfg)
		var reps []dkgsys.Deviation
		seenClass := map[string]bool{}
		for _, d := range g { // grammar order: the first variant of a class represents it
			sg, ok := sigs[j][d]
			if !ok {
				continue
			}
			if strings.HasPrefix(d.Slot, "ans:") {
				ctx := dkgsys.Deviation{Z: d.Z, Slot: "share:" + strings.TrimPrefix(d.Slot, "ans:"), Var: "omit"}
				if psg, ok := pairSigs[j][[2]dkgsys.Deviation{ctx, d}]; ok {
					sg += "|after-a-complaint:" + psg
				}
			}
			// timing is never merged away: a late variant meets other states of the receivers than its
			// on-time twin once it is combined with further deviations (phase-dependent counters)
			k := fmt.Sprintf("%d/%s/late=%v/last=%v/%s", d.Z, d.Slot, strings.Contains(d.Var, "late"), strings.HasSuffix(d.Var, "last"), sg)
			if !seenClass[k] {
				seenClass[k] = true
				reps = append(reps, d)
			}
		}
		n3 := 0
		for a := 0; a < len(reps); a++ {
			for b := a + 1; b < len(reps); b++ {
				for e := b + 1; e < len(reps); e++ {
					x, y, z := reps[a], reps[b], reps[e]
					if (x.Z == y.Z && x.Slot == y.Slot) || (x.Z == z.Z && x.Slot == z.Slot) || (y.Z == z.Z && y.Slot == z.Slot) {
						continue
					}
					units2 = append(units2, unit{j, dkgsys.Script{x, y, z}})
					n3++
				}
			}
		}
		var rn []string
		for _, d := range reps {
			rn = append(rn, d.String())
		}
		jobInfo[i]["three_deviation_scripts_over_class_representatives"] = n3
		jobInfo[i]["class_representatives"] = rn
	}
	if len(units2) > 0 {
		run.Set("jobs", jobInfo)
		ev.Par(len(units2), func(i int) { explore(len(units)+i, units2[i]) })
	}
	run.Set("per_config_states_transitions_scripts", perCfg)
	run.Set("distinct_terminal_outcome_classes", c.outcomes)
	run.Set("traces_validated_against_impl", c.validated)
	run.Set("evaluations", run.Get("transitions"))
}

func keys(m map[string]bool) []string {
	var o []string
	for k := range m {
		o = append(o, k)
	}
	sort.Strings(o)
	return o
}

var reHash = regexp.MustCompile(`:[0-9a-f]{8}( |$)`)

func outcomeClass(o string) string { return reHash.ReplaceAllString(o, "$1") }

func (c *checker) validate(cfg *dkgsys.Config, sc dkgsys.Script, term *dkgsys.Terminal) {
	st, _, err := dkgsys.Replay(cfg, sc, term.Path)
	if err != nil {
		c.run.Fatal("conformance replay diverged: %v (%s %s)", err, cfg, sc)
	}
	if st.Hash() != term.State.Hash() || st.Outcome() != term.State.Outcome() {
		for i := range st.Nodes {
			if st.Nodes[i] != nil && st.Nodes[i].Hash() != term.State.Nodes[i].Hash() {
				fmt.Printf("DIFF node %d inst-equal=%v logs-replay=%v logs-explore=%v\n", i, st.Nodes[i].InstHash() == term.State.Nodes[i].InstHash(), st.Nodes[i].Rec.Logs, term.State.Nodes[i].Rec.Logs)
			}
			if st.Shadows[i] != nil && st.Shadows[i].Hash() != term.State.Shadows[i].Hash() {
				fmt.Printf("DIFF shadow %d\n", i)
			}
		}
		fmt.Printf("obs-equal=%v phase %d/%d path=%v\n", fmt.Sprint(st.Obs) == fmt.Sprint(term.State.Obs), st.Phase, term.State.Phase, term.Path)
		c.run.Fatal("conformance: clone-based exploration and clone-free re-execution disagree (%s %s): %s vs %s", cfg, sc, st.Outcome(), term.State.Outcome())
	}
	c.mu.Lock()
	c.validated++
	c.mu.Unlock()
}

// edge: monitors evaluated on every explored transition.
func (c *checker) edge(cfg *dkgsys.Config, sc dkgsys.Script, next *dkgsys.State, evs []dkgsys.Event, path func() []dkgsys.Trans) {
	for _, e := range evs {
		switch e.Kind {
		case "panic":
			c.run.Violation(fmt.Sprintf("panic:%s:%s", cfg.Proto, logClass(e.Log)),
				fmt.Sprintf("%s script %s: panic at participant %d: %s", cfg, sc, e.Reporter, e.Log), mkReplay(cfg, sc, path(), e.Log, next))
		case "err":
			c.run.Violation(fmt.Sprintf("handler-error:%s:%s", cfg.Proto, logClass(e.Log)),
				fmt.Sprintf("%s script %s: participant %d got an error from a handler during a legal run: %s", cfg, sc, e.Reporter, e.Log), mkReplay(cfg, sc, path(), e.Log, next))
		case "flag", "disq":
			if c.prop == "C08" && !cfg.IsByz(e.Reporter) && !cfg.IsByz(e.Target) {
				kind := "flagged"
				if e.Kind == "disq" {
					kind = "disqualified"
				}
				c.run.Violation(fmt.Sprintf("honest-%s:%s:%s", kind, protoShort(cfg.Proto), logClass(e.Log)),
					fmt.Sprintf("%s script %s: honest participant %d %s honest participant %d: %s", cfg, sc, e.Reporter, kind, e.Target, e.Log), mkReplay(cfg, sc, path(), e.Log, next))
			}
		}
	}
}

func protoShort(p dkgsys.Protocol) string { return [...]string{"fvss", "fvssq", "jf"}[p] }

func intsEq(a, b []int) bool {
	if len(a) != len(b) {
		return false
	}
	for i := range a {
		if a[i] != b[i] {
			return false
		}
	}
	return true
}

func dealersOnly(cfg *dkgsys.Config, xs []int) []int {
	var o []int
	for _, x := range xs {
		if x >= 0 && x < cfg.N && cfg.IsDealer(x) {
			o = append(o, x)
		}
	}
	return o
}

// devSig is a short structural signature of a script (slots and variants, no participant numbers).
func devSig(sc dkgsys.Script) string {
	var p []string
	for _, d := range sc {
		slot := d.Slot
		parts := strings.Split(slot, ":")
		// drop trailing participant index
		if len(parts) > 1 {
			if _, ok := new(big.Int).SetString(parts[len(parts)-1], 10); ok {
				parts = parts[:len(parts)-1]
			}
		}
		p = append(p, strings.Join(parts, ".")+"="+d.Var)
	}
	sort.Strings(p)
	return strings.Join(p, "+")
}

func (c *checker) terminal(cfg *dkgsys.Config, sc dkgsys.Script, term *dkgsys.Terminal) {
	st := term.State
	honest := cfg.Honest()
	viol := func(key, what string) {
		c.run.Violation(key, fmt.Sprintf("%s script %s: %s [outcome %s]", cfg, sc, what, st.Outcome()), mkReplay(cfg, sc, term.Path, what, st))
	}
	if c.prop == "C07" {
		first := st.Results[honest[0]]
		d0 := dealersOnly(cfg, st.Nodes[honest[0]].Rec.DisqSet())
		for _, h := range honest {
			r := st.Results[h]
			if strings.HasPrefix(r.Class, "other:") || strings.HasPrefix(r.Class, "panic:") {
				viol(fmt.Sprintf("end-unexpected:%s:%s", protoShort(cfg.Proto), logClass(r.Class)), fmt.Sprintf("End() of honest %d returned %s", h, r.Class))
				return
			}
			if r.Class != first.Class {
				viol(fmt.Sprintf("verdict-disagree:%s:%s", protoShort(cfg.Proto), devSig(sc)), fmt.Sprintf("honest %d ends with %s but honest %d with %s", honest[0], first.Class, h, r.Class))
				return
			}
			if dh := dealersOnly(cfg, st.Nodes[h].Rec.DisqSet()); !intsEq(d0, dh) {
				viol(fmt.Sprintf("disqualified-set-disagree:%s:%s", protoShort(cfg.Proto), devSig(sc)), fmt.Sprintf("honest %d disqualified dealers %v but honest %d %v", honest[0], d0, h, dh))
				return
			}
			if r.Class == "ok" {
				if !bytes.Equal(r.GroupPK, first.GroupPK) || len(r.PKShares) != len(first.PKShares) {
					viol(fmt.Sprintf("keys-disagree:%s:%s", protoShort(cfg.Proto), devSig(sc)), fmt.Sprintf("group public keys of honest %d and %d differ", honest[0], h))
					return
				}
				for k := range r.PKShares {
					if !bytes.Equal(r.PKShares[k], first.PKShares[k]) {
						viol(fmt.Sprintf("keys-disagree:%s:%s", protoShort(cfg.Proto), devSig(sc)), fmt.Sprintf("public key share %d differs between honest %d and %d", k, honest[0], h))
						return
					}
				}
			}
		}
		if first.Class == "ok" {
			c.keyConsistency(cfg, sc, term)
		}
	}
	if c.prop == "C08" {
		c.mustDisqualify(cfg, sc, term, viol)
	}
}

// keyConsistency: sk_i*g2 == pk_i, all public shares on one polynomial of degree <= t with
// value the group key at 0, every (t+1)-subset of honest participants produces a threshold
// signature valid under the group key. Cached per key material.
func (c *checker) keyConsistency(cfg *dkgsys.Config, sc dkgsys.Script, term *dkgsys.Terminal) {
	st := term.State
	honest := cfg.Honest()
	var kb bytes.Buffer
	first := st.Results[honest[0]]
	kb.Write(first.GroupPK)
	for _, s := range first.PKShares {
		kb.Write(s)
	}
	for _, h := range honest {
		kb.Write(st.Results[h].SK)
	}
	key := string(kb.Bytes())
	c.mu.Lock()
	done := c.keyOK[key]
	c.keyOK[key] = true
	c.mu.Unlock()
	if done {
		return
	}
	viol := func(k, what string) {
		c.run.Violation(k, fmt.Sprintf("%s script %s: %s", cfg, sc, what), mkReplay(cfg, sc, term.Path, what, st))
	}
	// (1) private share matches public share (reference arithmetic)
	if len(first.PKShares) != cfg.N {
		viol("keys:share-vector-length:"+protoShort(cfg.Proto), fmt.Sprintf("%d public key shares for n=%d", len(first.PKShares), cfg.N))
		return
	}
	pts := make([]refbls.G2, cfg.N)
	for i, b := range first.PKShares {
		p, err := refbls.DecodeG2Flow(b)
		if err != nil || !p.InSubgroup() {
			viol("keys:share-not-in-G2:"+protoShort(cfg.Proto), fmt.Sprintf("public key share %d is not a canonical G2 element: %x", i, b))
			return
		}
		pts[i] = p
	}
	gp, err := refbls.DecodeG2Flow(first.GroupPK)
	if err != nil || !gp.InSubgroup() || gp.Inf {
		viol("keys:group-key-invalid:"+protoShort(cfg.Proto), fmt.Sprintf("group key %x", first.GroupPK))
		return
	}
	for _, h := range honest {
		sk := refbls.ScalarFromBytes(st.Results[h].SK)
		if sk.Sign() == 0 || sk.Cmp(refbls.R) >= 0 {
			viol("keys:sk-out-of-range:"+protoShort(cfg.Proto), fmt.Sprintf("private share of %d = %x", h, st.Results[h].SK))
			return
		}
		if !refbls.G2Gen().Mul(sk).Equal(pts[h]) {
			viol("keys:sk-pk-mismatch:"+protoShort(cfg.Proto)+":"+devSig(sc), fmt.Sprintf("private share of honest %d does not match its public share", h))
			return
		}
		if !st.Results[h].Priv().PublicKey().Equals(st.Results[h].Shares()[h]) {
			viol("keys:sk-pk-mismatch-lib:"+protoShort(cfg.Proto), fmt.Sprintf("library: PublicKey() of private share %d != public share", h))
			return
		}
	}
	// (2) degree <= t and value at 0: interpolate from points 1..t+1 and compare every other point and the group key
	idx := make([]int, cfg.T+1)
	for i := range idx {
		idx[i] = i + 1
	}
	interp := func(at int) refbls.G2 {
		// Lagrange basis at x=at over idx
		acc := refbls.G2Inf()
		for _, j := range idx {
			num, den := big.NewInt(1), big.NewInt(1)
			for _, m := range idx {
				if m == j {
					continue
				}
				num.Mul(num, big.NewInt(int64(at-m)))
				den.Mul(den, big.NewInt(int64(j-m)))
			}
			num.Mod(num, refbls.R)
			den.Mod(den, refbls.R)
			l := new(big.Int).Mul(num, new(big.Int).ModInverse(den, refbls.R))
			l.Mod(l, refbls.R)
			acc = acc.Add(pts[j-1].Mul(l))
		}
		return acc
	}
	if !interp(0).Equal(gp) {
		viol("keys:group-key-not-poly-at-0:"+protoShort(cfg.Proto)+":"+devSig(sc), "the public key shares do not interpolate to the group public key at 0")
		return
	}
	for x := cfg.T + 2; x <= cfg.N; x++ {
		if !interp(x).Equal(pts[x-1]) {
			viol("keys:shares-not-degree-t:"+protoShort(cfg.Proto)+":"+devSig(sc), fmt.Sprintf("public key share %d is not on the degree-%d polynomial through shares 1..%d", x-1, cfg.T, cfg.T+1))
			return
		}
	}
	// (3) threshold signatures from every (t+1)-subset of honest participants verify under the group key
	if len(honest) >= cfg.T+1 {
		hasher := crypto.NewExpandMsgXOFKMAC128("verif-dkg")
		shares := map[int]crypto.Signature{}
		for _, h := range honest {
			s, err := st.Results[h].Priv().Sign(msg, hasher)
			if err != nil {
				viol("keys:sign-failed", err.Error())
				return
			}
			shares[h] = s
		}
		var sub func(start int, cur []int)
		bad := false
		sub = func(start int, cur []int) {
			if bad {
				return
			}
			if len(cur) == cfg.T+1 {
				var ss []crypto.Signature
				for _, h := range cur {
					ss = append(ss, shares[h])
				}
				sig, err := crypto.BLSReconstructThresholdSignature(cfg.N, cfg.T, ss, cur)
				ok := false
				if err == nil {
					ok, _ = first.Group().Verify(sig, msg, hasher)
				}
				if !ok {
					bad = true
					viol("keys:threshold-signature-invalid:"+protoShort(cfg.Proto)+":"+devSig(sc), fmt.Sprintf("threshold signature of honest signers %v does not verify under the group key (err=%v)", cur, err))
				}
				return
			}
			for i := start; i < len(honest); i++ {
				sub(i+1, append(append([]int{}, cur...), honest[i]))
			}
		}
		sub(0, nil)
	}
	c.run.Add("key_material_sets_checked", 1)
}

// mustDisqualify evaluates the sufficient conditions of C08 for every Byzantine dealer from
// what was actually SENT (State.Obs) with the reference arithmetic, and demands that every honest
// participant has disqualified it.
func (c *checker) mustDisqualify(cfg *dkgsys.Config, sc dkgsys.Script, term *dkgsys.Terminal, viol func(key, what string)) {
	st := term.State
	for _, z := range cfg.Byz {
		if !cfg.IsDealer(z) {
			continue
		}
		reason := c.disqReason(cfg, st, z)
		if reason == "" {
			continue
		}
		for _, h := range cfg.Honest() {
			found := false
			for _, d := range st.Nodes[h].Rec.DisqSet() {
				if d == z {
					found = true
				}
			}
			if !found {
				viol(fmt.Sprintf("bad-dealer-not-disqualified:%s:%s:%s", protoShort(cfg.Proto), reason, devSig(sc)),
					fmt.Sprintf("Byzantine dealer %d must be disqualified (%s) but honest %d did not disqualify it", z, reason, h))
				return
			}
		}
	}
}

// disqReason returns a non-empty reason if one of the statement's sufficient conditions holds for dealer z.
func (c *checker) disqReason(cfg *dkgsys.Config, st *dkgsys.State, z int) string {
	// what z broadcast as verification vector(s), per phase
	var vecP1 [][]byte
	complainers := map[int]int{} // complainer -> phase of first well-formed complaint against z
	type ans struct {
		phase int
		seq   int
		data  []byte
	}
	answers := map[int][]ans{}
	for _, o := range st.Obs {
		var from, ph int
		var hx string
		switch {
		case strings.HasPrefix(o, "vec:"):
			fmt.Sscanf(o, "vec:%d:p%d:%s", &from, &ph, &hx)
			if from == z && ph == 1 {
				vecP1 = append(vecP1, ev.UnHex(hx))
			}
		case strings.HasPrefix(o, "cmp:"):
			fmt.Sscanf(o, "cmp:%d:p%d:%s", &from, &ph, &hx)
			b := ev.UnHex(hx)
			if len(b) == 1 && int(b[0]) == z && from != z && ph <= 2 {
				if _, ok := complainers[from]; !ok {
					complainers[from] = ph
				}
			}
		case strings.HasPrefix(o, "ans:"):
			fmt.Sscanf(o, "ans:%d:p%d:%s", &from, &ph, &hx)
			seq := 0
			if i := strings.Index(hx, ":#"); i >= 0 {
				fmt.Sscanf(hx[i+2:], "%d", &seq)
				hx = hx[:i]
			}
			b := ev.UnHex(hx)
			if from == z && len(b) >= 1 {
				answers[int(b[0])] = append(answers[int(b[0])], ans{ph, seq, b})
			}
		}
	}
	// (1) vector missing, late or malformed. If z sent several vectors in phase 1 only the first
	// counts at every receiver (same broadcast order everywhere); Obs does not keep the order, so
	// the condition is only asserted when there is exactly one.
	if len(vecP1) == 0 {
		return "vector-missing-or-late"
	}
	if len(vecP1) > 1 {
		return ""
	}
	vec, ok := parseVector(vecP1[0], cfg.T)
	if !ok {
		return "vector-malformed"
	}
	// (2) more than t complaints
	if len(complainers) > cfg.T {
		return "more-than-t-complaints"
	}
	// (3) an honest complaint left unanswered or wrongly answered
	for _, h := range cfg.Honest() {
		if _, ok := complainers[h]; !ok {
			continue
		}
		as := answers[h]
		if len(as) == 0 {
			return "complaint-unanswered"
		}
		// several answers: the FIRST one in the dealer's broadcast order is the one every honest
		// receiver processes (later ones are flagged as duplicates)
		sort.Slice(as, func(i, j int) bool { return as[i].seq < as[j].seq })
		a := as[0].data
		if len(a) != 33 {
			return "answer-malformed"
		}
		s := refbls.ScalarFromBytes(a[1:])
		if s.Sign() == 0 || s.Cmp(refbls.R) >= 0 {
			return "answer-malformed"
		}
		// expected public share of h: sum_j vec[j] * (h+1)^j   (memoised: few distinct (vector, answer) pairs)
		ck := fmt.Sprintf("%x|%d|%x", vecP1[0], h, a)
		wrong, ok := answerCache.Load(ck)
		if !ok {
			want := refbls.G2Inf()
			xp := big.NewInt(1)
			for j := range vec {
				want = want.Add(vec[j].Mul(xp))
				xp = new(big.Int).Mod(new(big.Int).Mul(xp, big.NewInt(int64(h+1))), refbls.R)
			}
			wrong = !refbls.G2Gen().Mul(s).Equal(want)
			answerCache.Store(ck, wrong)
		}
		if wrong.(bool) {
			return "answer-wrong"
		}
	}
	return ""
}

var vecCache sync.Map
var answerCache sync.Map

func parseVector(data []byte, t int) ([]refbls.G2, bool) {
	type res struct {
		v  []refbls.G2
		ok bool
	}
	if r, ok := vecCache.Load(string(data)); ok {
		return r.(res).v, r.(res).ok
	}
	out := res{}
	if len(data) == 1+96*(t+1) && data[0] == 1 {
		out.ok = true
		for j := 0; j <= t; j++ {
			p, err := refbls.DecodeG2Flow(data[1+96*j : 1+96*(j+1)])
			if err != nil || !p.InSubgroup() {
				out.ok = false
				break
			}
			out.v = append(out.v, p)
		}
	}
	vecCache.Store(string(data), out)
	return out.v, out.ok
}

// ReplayFile re-executes one recorded violation (configuration, script, path) from scratch on
// fresh real instances WITHOUT the explorer, cloning or memoisation, prints what happens at every
// step and evaluates the oracles of `prop` on the terminal state reached.
func ReplayFile(run *ev.Run, prop string) {
	b, err := os.ReadFile(run.Replay)
	if err != nil {
		run.Fatal("replay: %v", err)
	}
	var f struct {
		Key    string     `json:"key"`
		Replay replayFile `json:"replay"`
	}
	if err := json.Unmarshal(b, &f); err != nil {
		run.Fatal("replay: %v", err)
	}
	rp := f.Replay
	if rp.N == 0 {
		run.Fatal("replay: not a DKG system trace (plain-VSS histories are re-run by the normal run)")
	}
	cfg := &dkgsys.Config{Proto: dkgsys.Protocol(rp.Proto), N: rp.N, T: rp.T, Dealer: rp.Dealer, Byz: rp.Byz, Seed: rp.Seed, Net: rp.Net}
	sc := dkgsys.Script(rp.Dev)
	st, evs, err := dkgsys.Replay(cfg, sc, rp.Path)
	if err != nil {
		run.Fatal("replay: %v", err)
	}
	fmt.Printf("replay of %s, script %s, %d steps\n", cfg, sc, len(rp.Path))
	c := &checker{run: run, prop: prop, keyOK: map[string]bool{}, outcomes: map[string]int{}}
	for i, es := range evs {
		step := "init"
		if i > 0 {
			step = rp.Path[i-1].String()
		}
		for _, e := range es {
			fmt.Printf("  step %d %-24s %s reporter=%d target=%d %s\n", i, step, e.Kind, e.Reporter, e.Target, e.Log)
		}
		p := rp.Path[:i]
		c.edge(cfg, sc, st, es, func() []dkgsys.Trans { return p })
	}
	run.Add("transitions", int64(len(rp.Path)))
	run.Add("states", int64(len(rp.Path)+1))
	run.Add("traces_validated_against_impl", 1)
	run.Set("evaluations", int64(len(rp.Path)))
	run.Distinct("replay/1")
	run.Distinct("replay/2")
	run.Sample(rp)
	run.Set("rule", "replay of one recorded trace, clone-free on fresh instances")
	if st.Phase == 4 {
		fmt.Printf("  terminal outcome: %s\n", st.Outcome())
		c.terminal(cfg, sc, &dkgsys.Terminal{State: st, Path: rp.Path})
	} else {
		fmt.Printf("  trace ends in phase %d (not terminal)\n", st.Phase)
	}
	for _, n := range st.Nodes {
		if n != nil {
			for _, l := range n.Rec.Logs {
				fmt.Println("  log:", l)
			}
		}
	}
	run.Finish()
}
