package ev

import (
	"bufio"
	"bytes"
	"encoding/json"
	"fmt"
	"os"
	"os/exec"
	"sync"
)

// SchedPart runs a scheduler-variant explorer binary (built by bin/check with the instrumentation
// overlay; path in the environment variable envBin) sharded over 16 processes and folds its
// per-program JSON lines (desc, execs, points, bound, replayed, capped, violations[{key,what,...}])
// into this run: violations are reported under this run's property, the totals are stored under
// evidenceKey together with the rule text. sampleDesc names the program recorded as a sample.
func (r *Run) SchedPart(envBin, evidenceKey, rule, sampleDesc string) {
	bin := os.Getenv(envBin)
	if bin == "" {
		r.Set(evidenceKey, "not run ("+envBin+" not set: use bin/check)")
		return
	}
	const nw = 16
	outs := make([][]byte, nw)
	errs := make([]error, nw)
	var wg sync.WaitGroup
	for k := 0; k < nw; k++ {
		wg.Add(1)
		go func(k int) {
			defer wg.Done()
			cmd := exec.Command(bin, r.Tier, fmt.Sprint(k), fmt.Sprint(nw))
			cmd.Env = append(os.Environ(), "GOMAXPROCS=2")
			cmd.Stderr = os.Stderr
			outs[k], errs[k] = cmd.Output()
		}(k)
	}
	wg.Wait()
	var out []byte
	for k := range outs {
		if errs[k] != nil {
			r.Fatal("scheduler part (%s) failed (worker %d): %v", evidenceKey, k, errs[k])
		}
		out = append(out, outs[k]...)
	}
	var progs, execs, points, replayed int64
	sc := bufio.NewScanner(bytes.NewReader(out))
	sc.Buffer(make([]byte, 1<<22), 1<<22)
	for sc.Scan() {
		var p struct {
			Desc       string `json:"desc"`
			Execs      int64  `json:"execs"`
			Points     int64  `json:"points"`
			Bound      int    `json:"bound"`
			Replayed   int64  `json:"replayed"`
			Capped     bool   `json:"capped"`
			Violations []struct {
				Key  string `json:"key"`
				What string `json:"what"`
			} `json:"violations"`
		}
		line := append([]byte{}, sc.Bytes()...)
		if json.Unmarshal(line, &p) != nil || p.Desc == "" {
			continue
		}
		progs++
		execs += p.Execs
		points += p.Points
		replayed += p.Replayed
		if p.Capped {
			r.MarkCapped()
		}
		r.Distinct("sched/" + p.Desc)
		var full struct {
			Violations []json.RawMessage `json:"violations"`
		}
		_ = json.Unmarshal(line, &full)
		for i, v := range p.Violations {
			var rp any
			_ = json.Unmarshal(full.Violations[i], &rp)
			r.Violation(v.Key, p.Desc+": "+v.What, rp)
		}
		if p.Desc == sampleDesc {
			r.Sample(map[string]any{"kind": evidenceKey, "program": p.Desc, "schedules": p.Execs, "scheduling_points": p.Points, "preemption_bound": p.Bound})
		}
	}
	r.Add("evaluations", execs)
	r.Add("schedules_explored", execs)
	r.Set(evidenceKey, map[string]any{"programs": progs, "schedules_explored": execs, "scheduling_points": points, "schedules_replayed_for_determinism": replayed, "rule": rule})
}

// SchedReplay hands a replay file of a scheduler part to the explorer binary and exits with its status.
func SchedReplay(envBin, file string) {
	cmd := exec.Command(os.Getenv(envBin), "--replay", file)
	cmd.Stdout, cmd.Stderr = os.Stdout, os.Stderr
	if err := cmd.Run(); err != nil {
		os.Exit(1)
	}
	os.Exit(0)
}
