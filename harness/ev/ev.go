// Package ev is the plumbing shared by all checks: tier/seed handling, measured
// coverage counters, violation files (replays), known findings and the evidence file.
package ev

import (
	"runtime/debug"
	"bufio"
	"crypto/sha256"
	"encoding/hex"
	"encoding/json"
	"fmt"
	"os"
	"path/filepath"
	"runtime"
	"sort"
	"strconv"
	"strings"
	"sync"
	"time"
)

// Root is the /verif directory (overridable for tests with VERIF_ROOT).
func Root() string {
	if r := os.Getenv("VERIF_ROOT"); r != "" {
		return r
	}
	return "/verif"
}

type finding struct {
	Status   string `json:"status"`
	Property string `json:"property"`
	Key      string `json:"key"`
	What     string `json:"what"`
	Commit   string `json:"commit,omitempty"`
}

// Run collects what one invocation of one check covered.
type Run struct {
	ID      string
	Tier    string
	Seed    int64
	Level   string
	Replay  string // non-empty: replay mode, path of the replay file
	start   time.Time
	mu      sync.Mutex
	counts  map[string]int64
	extra   map[string]any
	samples []any
	maxSamp int
	dist    map[string]struct{}
	assume  []string
	viol    int
	violKey map[string]bool
	knownHit map[string]bool
	known   []finding
	deadline time.Time
	capped  bool
}

// Start parses the command line of a check binary: <tier> | --replay <file>.
func Start(id, level string) *Run {
	r := &Run{ID: id, Level: level, Tier: "quick", start: time.Now(),
		counts: map[string]int64{}, extra: map[string]any{}, dist: map[string]struct{}{},
		violKey: map[string]bool{}, knownHit: map[string]bool{}, maxSamp: 8}
	current = r
	if t := os.Getenv("VERIF_TIER"); t == "quick" || t == "thorough" {
		r.Tier = t
	}
	args := os.Args[1:]
	for i := 0; i < len(args); i++ {
		switch args[i] {
		case "quick", "thorough":
			r.Tier = args[i]
		case "--replay":
			if i+1 < len(args) {
				r.Replay = args[i+1]
				i++
			}
		}
	}
	if s := os.Getenv("VERIF_SEED"); s != "" {
		if v, err := strconv.ParseInt(s, 10, 64); err == nil {
			r.Seed = v
		}
	}
	r.loadKnown()
	return r
}

func (r *Run) Thorough() bool { return r.Tier == "thorough" }

// Budget sets an internal wall-clock budget; Expired never makes a run fail, it only
// makes it stop early and report exhaustive:false.
func (r *Run) Budget(quick, thorough time.Duration) {
	d := quick
	if r.Thorough() {
		d = thorough
	}
	r.deadline = r.start.Add(d)
}
func (r *Run) Expired() bool {
	if r.deadline.IsZero() {
		return false
	}
	if time.Now().After(r.deadline) {
		r.mu.Lock()
		r.capped = true
		r.mu.Unlock()
		return true
	}
	return false
}
func (r *Run) Capped() bool { r.mu.Lock(); defer r.mu.Unlock(); return r.capped }
func (r *Run) MarkCapped() { r.mu.Lock(); r.capped = true; r.mu.Unlock() }

func (r *Run) loadKnown() {
	// /verif/KNOWN_FINDINGS.txt, one record per line (never written at run time):
	//   known: property=<id> key=<signature> :: <what fails>
	//   fixed: property=<id> <commit> <what failed>      (suppresses nothing)
	f, err := os.Open("/verif/KNOWN_FINDINGS.txt") // always the committed file, also when VERIF_ROOT redirects outputs
	if err != nil {
		return
	}
	defer f.Close()
	sc := bufio.NewScanner(f)
	sc.Buffer(make([]byte, 1<<20), 1<<20)
	for sc.Scan() {
		line := strings.TrimSpace(sc.Text())
		if !strings.HasPrefix(line, "known:") {
			continue
		}
		rest := strings.TrimSpace(strings.TrimPrefix(line, "known:"))
		head, what, _ := strings.Cut(rest, "::")
		var k finding
		k.Status = "known"
		k.What = strings.TrimSpace(what)
		for _, f := range strings.Fields(head) {
			if v, ok := strings.CutPrefix(f, "property="); ok {
				k.Property = v
			}
			if v, ok := strings.CutPrefix(f, "key="); ok {
				k.Key = v
			}
		}
		if k.Property != "" && k.Key != "" {
			r.known = append(r.known, k)
		}
	}
}

// Add increments a measured counter (evaluations, states, transitions, ...).
func (r *Run) Add(name string, n int64) {
	r.mu.Lock()
	r.counts[name] += n
	r.mu.Unlock()
}
func (r *Run) Get(name string) int64 { r.mu.Lock(); defer r.mu.Unlock(); return r.counts[name] }

// Set records an extra coverage key (bounds, radix vectors, outcome histograms...).
func (r *Run) Set(name string, v any) {
	r.mu.Lock()
	r.extra[name] = v
	r.mu.Unlock()
}

// Distinct registers one non-trivial case by a key; distinct_nontrivial = number of keys.
func (r *Run) Distinct(key string) {
	r.mu.Lock()
	if len(r.dist) < 5_000_000 {
		r.dist[key] = struct{}{}
	}
	r.mu.Unlock()
}
func (r *Run) DistinctN() int { r.mu.Lock(); defer r.mu.Unlock(); return len(r.dist) }

// Sample keeps the first few actual cases for the evidence file.
func (r *Run) Sample(v any) {
	r.mu.Lock()
	if len(r.samples) < r.maxSamp {
		r.samples = append(r.samples, v)
	}
	r.mu.Unlock()
}
func (r *Run) Assume(s ...string) { r.mu.Lock(); r.assume = append(r.assume, s...); r.mu.Unlock() }

// Violation records a failing case. key is a narrow structural signature: if the
// known-findings file lists (property,key) with status "known" the case is reported as
// KNOWN-FINDING (once per key) and does not fail the run; everything else is a VIOLATION
// with a replay file. Returns true when it counted as a (new) violation.
func (r *Run) Violation(key, what string, replay any) bool {
	r.mu.Lock()
	defer r.mu.Unlock()
	for _, k := range r.known {
		if k.Status == "known" && k.Property == r.ID && k.Key == key {
			if !r.knownHit[key] {
				r.knownHit[key] = true
				fmt.Printf("KNOWN-FINDING: property=%s %s [%s]\n", r.ID, k.What, key)
			}
			return false
		}
	}
	r.viol++
	if r.violKey[key] && r.viol > 20 {
		return true // do not flood: same signature already reported
	}
	r.violKey[key] = true
	body, _ := json.MarshalIndent(map[string]any{"property": r.ID, "key": key, "what": what, "replay": replay}, "", " ")
	h := sha256.Sum256(body)
	p := filepath.Join(Root(), "replays", fmt.Sprintf("%s-%s.json", r.ID, hex.EncodeToString(h[:6])))
	if r.Replay == "" {
		_ = os.MkdirAll(filepath.Dir(p), 0o755)
		_ = os.WriteFile(p, body, 0o644)
	} else {
		p = r.Replay
	}
	fmt.Printf("VIOLATION property=%s replay=%s\n", r.ID, p)
	fmt.Printf("  key=%s\n  what=%s\n", key, what)
	return true
}
func (r *Run) Violations() int { r.mu.Lock(); defer r.mu.Unlock(); return r.viol }

// Fatal is a harness error (never a VIOLATION): exit 2.
func (r *Run) Fatal(format string, a ...any) {
	fmt.Fprintf(os.Stderr, "HARNESS-ERROR property=%s: %s\n", r.ID, fmt.Sprintf(format, a...))
	os.Exit(2)
}

// Finish writes the evidence file and exits 0/1.
func (r *Run) Finish() {
	r.mu.Lock()
	cov := map[string]any{}
	for k, v := range r.extra {
		cov[k] = v
	}
	for k, v := range r.counts {
		cov[k] = v
	}
	cov["distinct_nontrivial"] = len(r.dist)
	if _, ok := cov["evaluations"]; !ok {
		cov["evaluations"] = r.counts["transitions"] + r.counts["executions"]
	}
	if _, ok := cov["exhaustive"]; !ok {
		cov["exhaustive"] = !r.capped
	} else if r.capped {
		cov["exhaustive"] = false
	}
	if r.capped {
		cov["capped_by_time_budget"] = true
	}
	cov["samples"] = r.samples
	kh := make([]string, 0, len(r.knownHit))
	for k := range r.knownHit {
		kh = append(kh, k)
	}
	sort.Strings(kh)
	cov["known_findings_reproduced"] = kh
	cov["cpus"] = runtime.NumCPU()
	out := map[string]any{
		"property_id": r.ID, "tier": r.Tier, "seed": r.Seed, "level": r.Level,
		"coverage": cov, "assumptions": r.assume,
		"wall_s": time.Since(r.start).Seconds(), "violations": r.viol,
	}
	viol := r.viol
	r.mu.Unlock()
	if r.Replay == "" {
		b, _ := json.MarshalIndent(out, "", " ")
		_ = os.MkdirAll(filepath.Join(Root(), "evidence"), 0o755)
		if err := os.WriteFile(filepath.Join(Root(), "evidence", r.ID+".json"), b, 0o644); err != nil {
			fmt.Fprintln(os.Stderr, "cannot write evidence:", err)
			os.Exit(2)
		}
	}
	fmt.Printf("%s %s: violations=%d wall=%.1fs %s\n", r.ID, r.Tier, viol, time.Since(r.start).Seconds(), summary(cov))
	if viol > 0 {
		os.Exit(1)
	}
	os.Exit(0)
}

func summary(cov map[string]any) string {
	var parts []string
	for _, k := range []string{"evaluations", "distinct_nontrivial", "states", "transitions", "executions", "traces_validated_against_impl", "exhaustive"} {
		if v, ok := cov[k]; ok {
			parts = append(parts, fmt.Sprintf("%s=%v", k, v))
		}
	}
	return strings.Join(parts, " ")
}

var current *Run

// guardedCall: a Go panic that ORIGINATES in the library under test (first non-runtime frame below
// panic() is in github.com/onflow/crypto, not in the harness and not in the scheduler shim) while a
// case of a parallel part runs is reported as a violation ("panic:<library function>") instead of
// taking the whole check down with exit status 2. A panic that originates in harness code is re-raised.
func guardedCall(f func(int), i int) {
	defer func() {
		r := recover()
		if r == nil {
			return
		}
		st := string(debug.Stack())
		origin := ""
		lines := strings.Split(st, "\n")
		for k, l := range lines {
			if strings.HasPrefix(l, "panic(") {
				for _, m := range lines[k+1:] {
					if m == "" || m[0] == '\t' || strings.HasPrefix(m, "runtime.") || strings.HasPrefix(m, "runtime/") {
						continue
					}
					origin = m
					break
				}
				break
			}
		}
		if current == nil || !strings.HasPrefix(origin, "github.com/onflow/crypto") || strings.Contains(origin, "zzverif") {
			panic(r)
		}
		if p := strings.Index(origin, "("); p > 0 {
			origin = origin[:p]
		}
		current.Violation("panic:"+origin, fmt.Sprintf("the library panicked: %v (case %d of a parallel part; the panic originates in %s)", r, i, origin), map[string]any{"panic": fmt.Sprint(r), "stack": st})
	}()
	f(i)
}

// Par runs f(i) for i in [0,n) on all CPUs.
func Par(n int, f func(i int)) {
	w := runtime.NumCPU()
	if w > n {
		w = n
	}
	if w <= 1 {
		for i := 0; i < n; i++ {
			f(i)
		}
		return
	}
	var wg sync.WaitGroup
	ch := make(chan int, 4*w)
	for k := 0; k < w; k++ {
		wg.Add(1)
		go func() {
			defer wg.Done()
			for i := range ch {
				guardedCall(f, i)
			}
		}()
	}
	for i := 0; i < n; i++ {
		ch <- i
	}
	close(ch)
	wg.Wait()
}

// Hex is a short helper for replay files.
func Hex(b []byte) string { return hex.EncodeToString(b) }
func UnHex(s string) []byte { b, _ := hex.DecodeString(s); return b }
