// Package vsched is the controlled cooperative scheduler used to model-check concurrent use of
// onflow/crypto objects. It is compiled INTO the library under test by a build overlay
// (as github.com/onflow/crypto/zzverif/vsched): the library's `sync` import is redirected to the
// RWMutex below and `Yield` calls are inserted before statements of selected functions.
//
// Outside an exploration (Active()==false) everything degrades to the real primitives / no-ops.
package vsched

import (
	"fmt"
	"runtime"
	"sync"
	"sync/atomic"
)

// ---------------------------------------------------------------- scheduler

type opKind int

const (
	opYield opKind = iota
	opLock
	opRLock
	opStart
)

type pendingOp struct {
	kind opKind
	mu   *RWMutex
	loc  string
	free bool // switching away at this point is not counted as a preemption (operation boundary)
}

type thread struct {
	id      int
	wake    chan bool // true = abort
	done    bool
	started bool
	pend    pendingOp
}

// Point is one scheduling decision of an execution.
type Point struct {
	Enabled        []int // thread ids in canonical order (running thread first if still enabled)
	Choice         int   // index into Enabled
	RunningEnabled bool  // the thread that was running is Enabled[0]
	Free           bool  // the running thread is between two operations: a switch here is not a preemption
	Loc            string
}

// Exec is the record of one complete execution.
type Exec struct {
	Points   []Point
	Deadlock bool
	Panic    string
	Diverged string // non-empty: replay prefix did not fit (hard harness error)
}

// Choices returns the choice sequence of the execution.
func (x *Exec) Choices() []int {
	c := make([]int, len(x.Points))
	for i, p := range x.Points {
		c[i] = p.Choice
	}
	return c
}

// PreemptionsBefore counts preemptions among the first i points.
func (x *Exec) PreemptionsBefore(i int) int {
	n := 0
	for _, p := range x.Points[:i] {
		if p.RunningEnabled && p.Choice != 0 && !p.Free {
			n++
		}
	}
	return n
}

type sched struct {
	threads []*thread
	cur     int
	prefix  []int
	exec    *Exec
	aborted atomic.Bool
	wg      sync.WaitGroup
	fin     chan struct{}
	finOnce sync.Once
	onStep  func(tid int, loc string)
	steps   int
	maxStep int
}

var active atomic.Pointer[sched]

// Active reports whether an exploration is running.
func Active() bool { return active.Load() != nil }

// StepIndex returns a global logical clock (number of scheduling points so far) — used by
// harnesses to timestamp invocations and responses.
func StepIndex() int {
	if s := active.Load(); s != nil {
		return s.steps
	}
	return 0
}

// CurrentThread returns the id of the running controlled thread.
func CurrentThread() int {
	if s := active.Load(); s != nil {
		return s.cur
	}
	return -1
}

func (s *sched) enabled(t *thread) bool {
	if t.done {
		return false
	}
	switch t.pend.kind {
	case opLock:
		return !t.pend.mu.w && t.pend.mu.r == 0
	case opRLock:
		return !t.pend.mu.w
	}
	return true
}

// pick computes the enabled set, consumes one choice and records the point. nil = nobody enabled.
func (s *sched) pick(loc string, free bool) *thread {
	var en []int
	runningEnabled := false
	if s.cur >= 0 && s.enabled(s.threads[s.cur]) {
		en = append(en, s.cur)
		runningEnabled = true
	}
	for _, t := range s.threads {
		if t.id != s.cur && s.enabled(t) {
			en = append(en, t.id)
		}
	}
	if len(en) == 0 {
		return nil
	}
	choice := 0
	i := len(s.exec.Points)
	if i < len(s.prefix) {
		choice = s.prefix[i]
		if choice < 0 || choice >= len(en) {
			s.exec.Diverged = fmt.Sprintf("point %d: choice %d out of range (enabled %v)", i, choice, en)
			return nil
		}
	}
	s.exec.Points = append(s.exec.Points, Point{Enabled: en, Choice: choice, RunningEnabled: runningEnabled, Free: free && runningEnabled, Loc: loc})
	s.steps++
	return s.threads[en[choice]]
}

func (s *sched) abort() {
	if s.aborted.Load() {
		return
	}
	s.aborted.Store(true)
	for _, t := range s.threads {
		if !t.done && t.id != s.cur {
			select {
			case t.wake <- true:
			default:
			}
		}
	}
}

// point is called by the running thread at every scheduling point, with its pending operation.
func (s *sched) point(op pendingOp) {
	if s.aborted.Load() {
		return
	}
	t := s.threads[s.cur]
	t.pend = op
	if s.onStep != nil {
		s.onStep(t.id, op.loc)
	}
	if s.maxStep > 0 && s.steps > s.maxStep {
		s.exec.Diverged = "step limit exceeded (livelock?)"
		s.abort()
		runtime.Goexit()
	}
	next := s.pick(op.loc, op.free)
	if next == nil {
		if s.exec.Diverged == "" {
			s.exec.Deadlock = true
		}
		s.abort()
		runtime.Goexit()
	}
	if next != t {
		s.cur = next.id
		next.wake <- false
		if ab := <-t.wake; ab {
			runtime.Goexit()
		}
		// resumed: s.cur was set to t.id by whoever woke us
	}
	// apply the operation's effect: nobody else ran since enabledness was evaluated
	switch op.kind {
	case opLock:
		op.mu.w = true
	case opRLock:
		op.mu.r++
	}
	t.pend = pendingOp{kind: opYield}
}

func (s *sched) finish(t *thread) {
	t.done = true
	if s.aborted.Load() {
		return
	}
	if s.onStep != nil {
		s.onStep(t.id, "finish")
	}
	all := true
	for _, x := range s.threads {
		if !x.done {
			all = false
		}
	}
	if all {
		s.closeFin()
		return
	}
	next := s.pick("finish", false)
	if next == nil {
		if s.exec.Diverged == "" {
			s.exec.Deadlock = true
		}
		s.abort()
		s.closeFin()
		return
	}
	s.cur = next.id
	next.wake <- false
}

func (s *sched) closeFin() { s.finOnce.Do(func() { close(s.fin) }) }

// Run executes the thread bodies under the controlled scheduler following `prefix`
// (then choice 0 = keep running the current thread). onStep, if not nil, is called at every
// scheduling point before the decision (in the running thread).
func Run(bodies []func(), prefix []int, onStep func(tid int, loc string)) *Exec {
	s := &sched{prefix: prefix, exec: &Exec{}, fin: make(chan struct{}), cur: -1, onStep: onStep, maxStep: 200000}
	for i := range bodies {
		s.threads = append(s.threads, &thread{id: i, wake: make(chan bool, 1), pend: pendingOp{kind: opStart}})
	}
	if !active.CompareAndSwap(nil, s) {
		panic("vsched: nested or concurrent Run")
	}
	defer active.Store(nil)
	for i, b := range bodies {
		t := s.threads[i]
		body := b
		s.wg.Add(1)
		go func() {
			defer s.wg.Done()
			if ab := <-t.wake; ab {
				t.done = true
				return
			}
			defer func() {
				// runs on normal return, on panic and on Goexit (abort)
				if r := recover(); r != nil {
					if s.exec.Panic == "" {
						s.exec.Panic = fmt.Sprint(r)
					}
					t.done = true
					s.abort()
					s.closeFin()
					return
				}
				if s.aborted.Load() {
					t.done = true
					s.closeFin()
					return
				}
				s.finish(t)
			}()
			body()
		}()
	}
	first := s.pick("start", false)
	if first == nil {
		s.abort()
		s.closeFin()
	} else {
		s.cur = first.id
		first.wake <- false
		<-s.fin
	}
	if s.aborted.Load() {
		// make sure every parked goroutine is released
		for _, t := range s.threads {
			select {
			case t.wake <- true:
			default:
			}
		}
	}
	s.wg.Wait()
	return s.exec
}

// Filter, when set, selects which statement-level Yield locations ("file:line") are
// scheduling points (lock operations always are). Set it before Run, never during.
var Filter func(loc string) bool

// Yield is a statement-level scheduling point inserted into the library by the overlay.
func Yield(loc string) {
	s := active.Load()
	if s == nil || s.cur < 0 {
		return
	}
	if Filter != nil && !Filter(loc) {
		return
	}
	s.point(pendingOp{kind: opYield, loc: loc})
}

// Boundary is called by a harness thread BETWEEN two operations of its program. It is a scheduling
// point at which switching to another thread is free (not a preemption): the thread is not in
// the middle of anything, exactly like a thread that has not started yet.
func Boundary(loc string) {
	s := active.Load()
	if s == nil || s.cur < 0 {
		return
	}
	s.point(pendingOp{kind: opYield, loc: loc, free: true})
}

// ---------------------------------------------------------------- sync shim

// RWMutex replaces sync.RWMutex in the instrumented library files. Under exploration its
// operations are scheduling points with modelled blocking; otherwise it is a real RWMutex.
type RWMutex struct {
	real sync.RWMutex
	w    bool
	r    int
}

func (m *RWMutex) Lock() {
	if s := active.Load(); s != nil && s.cur >= 0 {
		s.point(pendingOp{kind: opLock, mu: m, loc: "Lock"})
		return
	}
	m.real.Lock()
}

func (m *RWMutex) Unlock() {
	if s := active.Load(); s != nil && s.cur >= 0 {
		m.w = false
		s.point(pendingOp{kind: opYield, loc: "Unlock"})
		return
	}
	m.real.Unlock()
}

func (m *RWMutex) RLock() {
	if s := active.Load(); s != nil && s.cur >= 0 {
		s.point(pendingOp{kind: opRLock, mu: m, loc: "RLock"})
		return
	}
	m.real.RLock()
}

func (m *RWMutex) RUnlock() {
	if s := active.Load(); s != nil && s.cur >= 0 {
		m.r--
		s.point(pendingOp{kind: opYield, loc: "RUnlock"})
		return
	}
	m.real.RUnlock()
}

// writerPending: some controlled thread is parked at Lock() of m (it has announced itself, like
// the real RWMutex whose TryRLock fails as soon as a writer is waiting).
func (s *sched) writerPending(m *RWMutex) bool {
	for _, t := range s.threads {
		if !t.done && t.id != s.cur && t.pend.kind == opLock && t.pend.mu == m {
			return true
		}
	}
	return false
}

// TryLock / TryRLock never block: they are plain scheduling points followed by an atomic attempt.
func (m *RWMutex) TryLock() bool {
	if s := active.Load(); s != nil && s.cur >= 0 {
		s.point(pendingOp{kind: opYield, loc: "TryLock"})
		if m.w || m.r > 0 {
			return false
		}
		m.w = true
		return true
	}
	return m.real.TryLock()
}

func (m *RWMutex) TryRLock() bool {
	if s := active.Load(); s != nil && s.cur >= 0 {
		s.point(pendingOp{kind: opYield, loc: "TryRLock"})
		if m.w || s.writerPending(m) {
			return false
		}
		m.r++
		return true
	}
	return m.real.TryRLock()
}

type rlocker RWMutex

func (r *rlocker) Lock()   { (*RWMutex)(r).RLock() }
func (r *rlocker) Unlock() { (*RWMutex)(r).RUnlock() }

// RLocker mirrors sync.RWMutex.RLocker.
func (m *RWMutex) RLocker() Locker { return (*rlocker)(m) }

// Mutex mirrors sync.Mutex on top of the modelled RWMutex.
type Mutex struct{ rw RWMutex }

func (m *Mutex) Lock()         { m.rw.Lock() }
func (m *Mutex) Unlock()       { m.rw.Unlock() }
func (m *Mutex) TryLock() bool { return m.rw.TryLock() }

// Once mirrors sync.Once with modelled blocking (a second caller waits until the first returns).
type Once struct {
	m    Mutex
	done bool
}

func (o *Once) Do(f func()) {
	o.m.Lock()
	defer o.m.Unlock()
	if !o.done {
		defer func() { o.done = true }()
		f()
	}
}

// The remaining names of package sync are passed through unchanged (their operations are atomic
// steps between the statement-level scheduling points; none of them blocks in the explored code).
type (
	Locker    = sync.Locker
	Map       = sync.Map
	WaitGroup = sync.WaitGroup
	Cond      = sync.Cond
)

// Pool mirrors sync.Pool with ONE deterministic behaviour out of those the real pool may show: a
// LIFO free list that never drops an item. (The real pool's per-P caches and GC-driven eviction are
// nondeterminism the scheduler cannot own; a recorded schedule would no longer replay.)
type Pool struct {
	New   func() any
	mu    sync.Mutex
	items []any
}

func (p *Pool) Get() any {
	p.mu.Lock()
	if n := len(p.items); n > 0 {
		x := p.items[n-1]
		p.items = p.items[:n-1]
		p.mu.Unlock()
		return x
	}
	p.mu.Unlock()
	if p.New != nil {
		return p.New()
	}
	return nil
}

func (p *Pool) Put(x any) {
	if x == nil {
		return
	}
	p.mu.Lock()
	p.items = append(p.items, x)
	p.mu.Unlock()
}

func NewCond(l Locker) *Cond { return sync.NewCond(l) }

func OnceFunc(f func()) func() {
	var o Once
	return func() { o.Do(f) }
}

// ---------------------------------------------------------------- explorer

// Stats of one exploration.
type Stats struct {
	Executions int
	Points     int
	MaxPoints  int
	Capped     bool
	// Retries: executions repeated because the program did not reach the recorded prefix again
	// (control flow that depends on something the scheduler does not own, e.g. Go's map iteration
	// order inside the code under test); Unreplayable: prefixes given up after maxRetries attempts
	// (their subtrees are NOT explored: the exploration is then not exhaustive).
	Retries      int
	Unreplayable int
}

const maxRetries = 40

// RunRetry is Run, repeated while the recorded prefix does not fit (see Stats.Retries).
func RunRetry(mk func() []func(), prefix []int, onStep func(int, string)) (*Exec, int) {
	x := Run(mk(), prefix, onStep)
	n := 0
	for x.Diverged != "" && n < maxRetries {
		n++
		x = Run(mk(), prefix, onStep)
	}
	return x, n
}

// Explore enumerates all schedules of the program produced by mk with at most `bound`
// preemptions (bound < 0: unbounded) by stateless DFS. mk must build fresh shared state and
// return the thread bodies; after each complete execution check is called (still before the
// next mk). maxExec > 0 caps the number of executions (reported in Stats.Capped).
func Explore(mk func() []func(), bound int, maxExec int, onStep func(int, string), check func(x *Exec)) Stats {
	var st Stats
	var rec func(prefix []int)
	rec = func(prefix []int) {
		if maxExec > 0 && st.Executions >= maxExec {
			st.Capped = true
			return
		}
		x, retries := RunRetry(mk, prefix, onStep)
		st.Retries += retries
		if x.Diverged != "" {
			st.Unreplayable++
			return
		}
		st.Executions++
		st.Points += len(x.Points)
		if len(x.Points) > st.MaxPoints {
			st.MaxPoints = len(x.Points)
		}
		check(x)
		if x.Diverged != "" {
			return
		}
		for i := len(prefix); i < len(x.Points); i++ {
			p := x.Points[i]
			if len(p.Enabled) < 2 {
				continue
			}
			cost := x.PreemptionsBefore(i)
			if p.RunningEnabled && !p.Free {
				cost++
			}
			if bound >= 0 && cost > bound {
				continue
			}
			for alt := 1; alt < len(p.Enabled); alt++ {
				np := append(append([]int{}, x.Choices()[:i]...), alt)
				rec(np)
			}
		}
	}
	rec(nil)
	return st
}
