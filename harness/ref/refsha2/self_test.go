package refsha2

import "testing"

func TestSelf(t *testing.T) {
	if err := SelfTest(); err != nil {
		t.Fatal(err)
	}
}
