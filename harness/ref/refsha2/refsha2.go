// Package refsha2 is a naive FIPS 180-4 SHA-256 / SHA-384 / SHA-512 (independent of crypto/sha256, crypto/sha512).
package refsha2

import (
	"encoding/binary"
	"encoding/hex"
	"fmt"
	"math/big"
)

var k256 [64]uint32
var k512 [80]uint64
var h256 [8]uint32
var h512, h384 [8]uint64

func primes(n int) []int {
	var ps []int
	for c := 2; len(ps) < n; c++ {
		ok := true
		for _, p := range ps {
			if p*p > c {
				break
			}
			if c%p == 0 {
				ok = false
				break
			}
		}
		if ok {
			ps = append(ps, c)
		}
	}
	return ps
}

// fracRoot returns the first `bits` fractional bits of the k-th root of p (k = 2 or 3).
func fracRoot(p int, k int, bits uint) uint64 {
	// floor(p^(1/k) * 2^bits) via integer root of p * 2^(k*bits)
	n := new(big.Int).Lsh(big.NewInt(int64(p)), uint(k)*bits)
	lo, hi := big.NewInt(0), new(big.Int).Lsh(big.NewInt(1), bits+8)
	for new(big.Int).Sub(hi, lo).Cmp(big.NewInt(1)) > 0 {
		mid := new(big.Int).Rsh(new(big.Int).Add(lo, hi), 1)
		pw := new(big.Int).Exp(mid, big.NewInt(int64(k)), nil)
		if pw.Cmp(n) <= 0 {
			lo = mid
		} else {
			hi = mid
		}
	}
	mask := new(big.Int).Sub(new(big.Int).Lsh(big.NewInt(1), bits), big.NewInt(1))
	return new(big.Int).And(lo, mask).Uint64()
}

func init() {
	ps := primes(80)
	for i := 0; i < 64; i++ {
		k256[i] = uint32(fracRoot(ps[i], 3, 32))
	}
	for i := 0; i < 80; i++ {
		k512[i] = fracRoot(ps[i], 3, 64)
	}
	for i := 0; i < 8; i++ {
		h256[i] = uint32(fracRoot(ps[i], 2, 32))
		h512[i] = fracRoot(ps[i], 2, 64)
		h384[i] = fracRoot(ps[i+8], 2, 64)
	}
}

func rotr32(x uint32, n uint) uint32 { return x>>n | x<<(32-n) }
func rotr64(x uint64, n uint) uint64 { return x>>n | x<<(64-n) }

func pad(msg []byte, block int, lenBytes int) []byte {
	l := len(msg)
	out := append([]byte{}, msg...)
	out = append(out, 0x80)
	for (len(out)+lenBytes)%block != 0 {
		out = append(out, 0)
	}
	lb := make([]byte, lenBytes)
	binary.BigEndian.PutUint64(lb[lenBytes-8:], uint64(l)*8)
	return append(out, lb...)
}

// Sum256 returns SHA-256(msg).
func Sum256(msg []byte) []byte {
	h := h256
	p := pad(msg, 64, 8)
	for off := 0; off < len(p); off += 64 {
		var w [64]uint32
		for i := 0; i < 16; i++ {
			w[i] = binary.BigEndian.Uint32(p[off+4*i:])
		}
		for i := 16; i < 64; i++ {
			s0 := rotr32(w[i-15], 7) ^ rotr32(w[i-15], 18) ^ (w[i-15] >> 3)
			s1 := rotr32(w[i-2], 17) ^ rotr32(w[i-2], 19) ^ (w[i-2] >> 10)
			w[i] = w[i-16] + s0 + w[i-7] + s1
		}
		a, b, c, d, e, f, g, hh := h[0], h[1], h[2], h[3], h[4], h[5], h[6], h[7]
		for i := 0; i < 64; i++ {
			S1 := rotr32(e, 6) ^ rotr32(e, 11) ^ rotr32(e, 25)
			ch := (e & f) ^ (^e & g)
			t1 := hh + S1 + ch + k256[i] + w[i]
			S0 := rotr32(a, 2) ^ rotr32(a, 13) ^ rotr32(a, 22)
			mj := (a & b) ^ (a & c) ^ (b & c)
			t2 := S0 + mj
			hh, g, f, e, d, c, b, a = g, f, e, d+t1, c, b, a, t1+t2
		}
		h[0] += a
		h[1] += b
		h[2] += c
		h[3] += d
		h[4] += e
		h[5] += f
		h[6] += g
		h[7] += hh
	}
	out := make([]byte, 32)
	for i := 0; i < 8; i++ {
		binary.BigEndian.PutUint32(out[4*i:], h[i])
	}
	return out
}

func sum512(msg []byte, iv [8]uint64) []byte {
	h := iv
	p := pad(msg, 128, 16)
	for off := 0; off < len(p); off += 128 {
		var w [80]uint64
		for i := 0; i < 16; i++ {
			w[i] = binary.BigEndian.Uint64(p[off+8*i:])
		}
		for i := 16; i < 80; i++ {
			s0 := rotr64(w[i-15], 1) ^ rotr64(w[i-15], 8) ^ (w[i-15] >> 7)
			s1 := rotr64(w[i-2], 19) ^ rotr64(w[i-2], 61) ^ (w[i-2] >> 6)
			w[i] = w[i-16] + s0 + w[i-7] + s1
		}
		a, b, c, d, e, f, g, hh := h[0], h[1], h[2], h[3], h[4], h[5], h[6], h[7]
		for i := 0; i < 80; i++ {
			S1 := rotr64(e, 14) ^ rotr64(e, 18) ^ rotr64(e, 41)
			ch := (e & f) ^ (^e & g)
			t1 := hh + S1 + ch + k512[i] + w[i]
			S0 := rotr64(a, 28) ^ rotr64(a, 34) ^ rotr64(a, 39)
			mj := (a & b) ^ (a & c) ^ (b & c)
			t2 := S0 + mj
			hh, g, f, e, d, c, b, a = g, f, e, d+t1, c, b, a, t1+t2
		}
		h[0] += a
		h[1] += b
		h[2] += c
		h[3] += d
		h[4] += e
		h[5] += f
		h[6] += g
		h[7] += hh
	}
	out := make([]byte, 64)
	for i := 0; i < 8; i++ {
		binary.BigEndian.PutUint64(out[8*i:], h[i])
	}
	return out
}

// Sum384 returns SHA-384(msg).
func Sum384(msg []byte) []byte { return sum512(msg, h384)[:48] }

// Sum512 returns SHA-512(msg).
func Sum512(msg []byte) []byte { return sum512(msg, h512) }

// HMAC256 is RFC 2104 HMAC over Sum256.
func HMAC256(key, msg []byte) []byte {
	if len(key) > 64 {
		key = Sum256(key)
	}
	k := make([]byte, 64)
	copy(k, key)
	ip, op := make([]byte, 64), make([]byte, 64)
	for i := range k {
		ip[i] = k[i] ^ 0x36
		op[i] = k[i] ^ 0x5c
	}
	inner := Sum256(append(ip, msg...))
	return Sum256(append(op, inner...))
}

// HKDF256 is RFC 5869 extract-and-expand with SHA-256.
func HKDF256(ikm, salt, info []byte, l int) []byte {
	if len(salt) == 0 {
		salt = make([]byte, 32)
	}
	prk := HMAC256(salt, ikm)
	var okm, t []byte
	for i := byte(1); len(okm) < l; i++ {
		in := append(append(append([]byte{}, t...), info...), i)
		t = HMAC256(prk, in)
		okm = append(okm, t...)
	}
	return okm[:l]
}

// SelfTest checks FIPS 180-4 / RFC 4231 / RFC 5869 vectors.
func SelfTest() error {
	chk := func(name string, got []byte, want string) error {
		if hex.EncodeToString(got) != want {
			return fmt.Errorf("refsha2 self-test %s failed: %x", name, got)
		}
		return nil
	}
	abc := []byte("abc")
	long := []byte("abcdefghbcdefghicdefghijdefghijkefghijklfghijklmghijklmnhijklmnoijklmnopjklmnopqklmnopqrlmnopqrsmnopqrstnopqrstu")
	for _, e := range []error{
		chk("sha256(abc)", Sum256(abc), "ba7816bf8f01cfea414140de5dae2223b00361a396177a9cb410ff61f20015ad"),
		chk("sha256('')", Sum256(nil), "e3b0c44298fc1c149afbf4c8996fb92427ae41e4649b934ca495991b7852b855"),
		chk("sha256(long)", Sum256(long), "cf5b16a778af8380036ce59e7b0492370b249b11e8f07a51afac45037afee9d1"),
		chk("sha384(abc)", Sum384(abc), "cb00753f45a35e8bb5a03d699ac65007272c32ab0eded1631a8b605a43ff5bed8086072ba1e7cc2358baeca134c825a7"),
		chk("sha384(long)", Sum384(long), "09330c33f71147e83d192fc782cd1b4753111b173b3b05d22fa08086e3b0f712fcc7c71a557e2db966c3e9fa91746039"),
		chk("sha512(abc)", Sum512(abc), "ddaf35a193617abacc417349ae20413112e6fa4e89a97ea20a9eeee64b55d39a2192992a274fc1a836ba3c23a3feebbd454d4423643ce80e2a9ac94fa54ca49f"),
		chk("hmac rfc4231#2", HMAC256([]byte("Jefe"), []byte("what do ya want for nothing?")), "5bdcc146bf60754e6a042426089575c75a003f089d2739839dec58b964ec3843"),
	} {
		if e != nil {
			return e
		}
	}
	ikm, _ := hex.DecodeString("0b0b0b0b0b0b0b0b0b0b0b0b0b0b0b0b0b0b0b0b0b0b")
	salt, _ := hex.DecodeString("000102030405060708090a0b0c")
	info, _ := hex.DecodeString("f0f1f2f3f4f5f6f7f8f9")
	if e := chk("hkdf rfc5869#1", HKDF256(ikm, salt, info, 42), "3cb25f25faacd57a90434f64d0362f2a2d2d0a90cf1a5a4c5db02d56ecc4c5bf34007208d5b887185865"); e != nil {
		return e
	}
	if e := chk("hkdf rfc5869#3", HKDF256(ikm, nil, nil, 42), "8da4e775a563c18f715f802a063c5a31b8a11f5c5ee1879ec3454e5f3c738d2d9d201395faa4b61a96c8"); e != nil {
		return e
	}
	return nil
}
