// Package refkeccak is a deliberately naive reference for the Keccak family, written from
// FIPS 202 (Keccak-p[1600,24], sponge, SHA3-256/384, SHAKE128) and NIST SP 800-185
// (left_encode, right_encode, encode_string, bytepad, cSHAKE128, KMAC128), plus the original
// Keccak-256 padding (domain byte 0x01) used by Ethereum.
//
// It imports neither the library under test nor golang.org/x/crypto. Rotation offsets and
// round constants are computed from the definitions in FIPS 202 (3.2.2 and 3.2.5), not copied
// from tables. Messages are padded into one byte string and absorbed block by block.
package refkeccak

import (
	"bytes"
	"encoding/hex"
	"fmt"
)

// state: lane (x,y) = a[x+5*y], bit z of the lane = bit z of the uint64; byte k of the
// 200-byte state string is byte (k%8) (little endian) of lane k/8. (FIPS 202 3.1.2, B.1)
type state [25]uint64

func rotl(v uint64, n uint) uint64 {
	n &= 63
	return v<<n | v>>((64-n)&63)
}

// rc(t) of FIPS 202 algorithm 5: LFSR x^8+x^6+x^5+x^4+1.
func rc(t int) uint64 {
	t %= 255
	if t < 0 {
		t += 255
	}
	if t == 0 {
		return 1
	}
	// R is the 8-bit register, R[0] is kept in bit 0.
	r := [9]byte{1, 0, 0, 0, 0, 0, 0, 0, 0}
	for i := 1; i <= t; i++ {
		// R = 0 || R
		copy(r[1:], r[:8])
		r[0] = 0
		r[0] ^= r[8]
		r[4] ^= r[8]
		r[5] ^= r[8]
		r[6] ^= r[8]
		r[8] = 0 // Trunc8
	}
	return uint64(r[0])
}

var rhoOff [25]uint
var roundConst [24]uint64

func init() {
	// rho offsets (FIPS 202 algorithm 2)
	x, y := 1, 0
	for t := 0; t < 24; t++ {
		rhoOff[x+5*y] = uint(((t + 1) * (t + 2) / 2) % 64)
		x, y = y, (2*x+3*y)%5
	}
	// iota round constants (FIPS 202 algorithm 6), l = 6
	for ir := 0; ir < 24; ir++ {
		var v uint64
		for j := 0; j <= 6; j++ {
			v |= rc(j+7*ir) << uint((1<<uint(j))-1)
		}
		roundConst[ir] = v
	}
}

// index helpers so that the round function below reads like FIPS 202 3.2 without paying for
// a modulo per lane
var mod5 = [10]int{0, 1, 2, 3, 4, 0, 1, 2, 3, 4}
var piSrc [25]int // piSrc[x+5y] = index of A[(x+3y) mod 5, x]

func init() {
	for x := 0; x < 5; x++ {
		for y := 0; y < 5; y++ {
			piSrc[x+5*y] = (x+3*y)%5 + 5*x
		}
	}
}

func keccakF(a *state) {
	for ir := 0; ir < 24; ir++ {
		// theta
		var c, d [5]uint64
		for x := 0; x < 5; x++ {
			c[x] = a[x] ^ a[x+5] ^ a[x+10] ^ a[x+15] ^ a[x+20]
		}
		for x := 0; x < 5; x++ {
			d[x] = c[mod5[x+4]] ^ rotl(c[mod5[x+1]], 1)
		}
		for i := 0; i < 25; i++ {
			a[i] ^= d[mod5[i%5]]
		}
		// rho
		for i := 0; i < 25; i++ {
			a[i] = rotl(a[i], rhoOff[i])
		}
		// pi: A'[x,y] = A[(x+3y) mod 5, x]
		var b state
		for i := 0; i < 25; i++ {
			b[i] = a[piSrc[i]]
		}
		// chi: A'[x,y] = A[x,y] ^ (~A[x+1,y] & A[x+2,y])
		for y := 0; y < 25; y += 5 {
			for x := 0; x < 5; x++ {
				a[x+y] = b[x+y] ^ (^b[mod5[x+1]+y] & b[mod5[x+2]+y])
			}
		}
		// iota
		a[0] ^= roundConst[ir]
	}
}

// sponge absorbs msg||ds-byte||0..0||0x80 with the given rate (bytes) and squeezes outLen
// bytes. ds holds the domain-separation bits followed by the first padding bit, in the
// little-endian bit order of FIPS 202 B.1 (0x06 SHA-3, 0x1F SHAKE, 0x04 cSHAKE, 0x01 Keccak).
func sponge(rate int, ds byte, msg []byte, outLen int) []byte {
	p := make([]byte, 0, len(msg)+rate)
	p = append(p, msg...)
	p = append(p, ds)
	for len(p)%rate != 0 {
		p = append(p, 0)
	}
	p[len(p)-1] ^= 0x80
	var a state
	for off := 0; off < len(p); off += rate {
		for k := 0; k < rate; k++ {
			a[k/8] ^= uint64(p[off+k]) << uint(8*(k%8))
		}
		keccakF(&a)
	}
	out := make([]byte, 0, outLen)
	for {
		for k := 0; k < rate && len(out) < outLen; k++ {
			out = append(out, byte(a[k/8]>>uint(8*(k%8))))
		}
		if len(out) >= outLen {
			return out
		}
		keccakF(&a)
	}
}

// SHA3_256 is FIPS 202 SHA3-256 (capacity 512, rate 136).
func SHA3_256(msg []byte) []byte { return sponge(136, 0x06, msg, 32) }

// SHA3_384 is FIPS 202 SHA3-384 (capacity 768, rate 104).
func SHA3_384(msg []byte) []byte { return sponge(104, 0x06, msg, 48) }

// Keccak256 is the original Keccak submission padding (no SHA-3 suffix bits), rate 136.
func Keccak256(msg []byte) []byte { return sponge(136, 0x01, msg, 32) }

// SHAKE128 is FIPS 202 SHAKE128 (rate 168).
func SHAKE128(msg []byte, outLen int) []byte { return sponge(168, 0x1F, msg, outLen) }

// LeftEncode is left_encode of SP 800-185 2.3.1 for x < 2^64.
func LeftEncode(x uint64) []byte {
	n := 1
	for n < 8 && x>>(8*uint(n)) != 0 {
		n++
	}
	out := []byte{byte(n)}
	for i := n - 1; i >= 0; i-- {
		out = append(out, byte(x>>(8*uint(i))))
	}
	return out
}

// RightEncode is right_encode of SP 800-185 2.3.1 for x < 2^64.
func RightEncode(x uint64) []byte {
	n := 1
	for n < 8 && x>>(8*uint(n)) != 0 {
		n++
	}
	var out []byte
	for i := n - 1; i >= 0; i-- {
		out = append(out, byte(x>>(8*uint(i))))
	}
	return append(out, byte(n))
}

// EncodeString is encode_string of SP 800-185 2.3.2 (bit length then the string).
func EncodeString(s []byte) []byte {
	return append(LeftEncode(uint64(len(s))*8), s...)
}

// Bytepad is bytepad(X, w) of SP 800-185 2.3.3: left_encode(w) || X, then zero bytes
// while the length is not a multiple of w (nothing is added when already aligned).
func Bytepad(x []byte, w int) []byte {
	z := append(LeftEncode(uint64(w)), x...)
	for len(z)%w != 0 {
		z = append(z, 0)
	}
	return z
}

// CSHAKE128 is cSHAKE128(X, L=8*outLen, N, S) of SP 800-185 3.3.
func CSHAKE128(msg []byte, outLen int, N, S []byte) []byte {
	if len(N) == 0 && len(S) == 0 {
		return SHAKE128(msg, outLen)
	}
	in := Bytepad(append(EncodeString(N), EncodeString(S)...), 168)
	in = append(in, msg...)
	return sponge(168, 0x04, in, outLen)
}

// KMAC128 is KMAC128(K, X, L=8*outLen, S) of SP 800-185 4.3 (fixed length, not KMACXOF).
func KMAC128(key, msg []byte, outLen int, custom []byte) []byte {
	newX := Bytepad(EncodeString(key), 168)
	newX = append(newX, msg...)
	newX = append(newX, RightEncode(uint64(outLen)*8)...)
	return CSHAKE128(newX, outLen, []byte("KMAC"), custom)
}

func unhex(s string) []byte {
	b, err := hex.DecodeString(s)
	if err != nil {
		panic(err)
	}
	return b
}

func seq(from, n int) []byte {
	b := make([]byte, n)
	for i := range b {
		b[i] = byte(from + i)
	}
	return b
}

// VectorMsg is the message used by the committed hashlib vectors.
func vectorMsg(l int) []byte {
	b := make([]byte, l)
	for i := range b {
		b[i] = byte(i*7 + 3)
	}
	return b
}

// SelfTest checks the reference against published vectors (FIPS 202 / NIST example values,
// SP 800-185 samples) and the committed hashlib vector file.
func SelfTest() error {
	chk := func(name string, got []byte, wantHex string) error {
		if !bytes.Equal(got, unhex(wantHex)) {
			return fmt.Errorf("refkeccak self-test %s: got %x want %s", name, got, wantHex)
		}
		return nil
	}
	// a few structural constants of FIPS 202 (table 2 / round constants)
	if roundConst[0] != 1 || roundConst[1] != 0x8082 || roundConst[23] != 0x8000000080008008 {
		return fmt.Errorf("refkeccak self-test: round constants wrong: %x %x %x", roundConst[0], roundConst[1], roundConst[23])
	}
	if rhoOff[1] != 1 || rhoOff[2] != 62 || rhoOff[4+5*4] != 14 || rhoOff[3+5*2] != 25 {
		return fmt.Errorf("refkeccak self-test: rho offsets wrong")
	}
	type tv struct {
		name string
		got  []byte
		want string
	}
	key := seq(0x40, 32)
	data4 := []byte{0, 1, 2, 3}
	data200 := seq(0, 200)
	tvs := []tv{
		{"SHA3-256('')", SHA3_256(nil), "a7ffc6f8bf1ed76651c14756a061d662f580ff4de43b49fa82d80a4b80f8434a"},
		{"SHA3-256('abc')", SHA3_256([]byte("abc")), "3a985da74fe225b2045c172d6bd390bd855f086e3e9d525b46bfe24511431532"},
		{"SHA3-384('')", SHA3_384(nil), "0c63a75b845e4f7d01107d852e4c2485c51a50aaaa94fc61995e71bbee983a2ac3713831264adb47fb6bd1e058d5f004"},
		{"SHA3-384('abc')", SHA3_384([]byte("abc")), "ec01498288516fc926459f58e2c6ad8df9b473cb0fc08c2596da7cf0e49be4b298d88cea927ac7f539f1edf228376d25"},
		{"Keccak-256('')", Keccak256(nil), "c5d2460186f7233c927e7db2dcc703c0e500b653ca82273b7bfad8045d85a470"},
		{"Keccak-256('abc')", Keccak256([]byte("abc")), "4e03657aea45a94fc7d47ba826c8d667c0d1e6e33a64a036ec44f58fa12d6c45"},
		{"SHAKE128('',32)", SHAKE128(nil, 32), "7f9c2ba4e88f827d616045507605853ed73b8093f6efbc88eb1a6eacfa66ef26"},
		{"cSHAKE128 sample #1", CSHAKE128(data4, 32, nil, []byte("Email Signature")), "c1c36925b6409a04f1b504fcbca9d82b4017277cb5ed2b2065fc1d3814d5aaf5"},
		{"cSHAKE128 sample #2", CSHAKE128(data200, 32, nil, []byte("Email Signature")), "c5221d50e4f822d96a2e8881a961420f294b7b24fe3d2094baed2c6524cc166b"},
		{"KMAC128 sample #1", KMAC128(key, data4, 32, nil), "e5780b0d3ea6f7d3a429c5706aa43a00fadbd7d49628839e3187243f456ee14e"},
		{"KMAC128 sample #2", KMAC128(key, data4, 32, []byte("My Tagged Application")), "3b1fba963cd8b0b59e8c1a6d71888b7143651af8ba0a7070c0979e2811324aa5"},
		{"KMAC128 sample #3", KMAC128(key, data200, 32, []byte("My Tagged Application")), "1f5b4e6cca02209e0dcb5ca635b89a15e271ecc760071dfd805faa38f9729230"},
	}
	for _, v := range tvs {
		if err := chk(v.name, v.got, v.want); err != nil {
			return err
		}
	}
	// SP 800-185 2.3.1 examples: left_encode(0) = 01 00, right_encode(0) = 00 01
	if !bytes.Equal(LeftEncode(0), []byte{1, 0}) || !bytes.Equal(RightEncode(0), []byte{0, 1}) ||
		!bytes.Equal(LeftEncode(168), []byte{1, 168}) || !bytes.Equal(LeftEncode(256), []byte{2, 1, 0}) ||
		!bytes.Equal(RightEncode(256), []byte{1, 0, 2}) || !bytes.Equal(LeftEncode(1<<63), []byte{8, 0x80, 0, 0, 0, 0, 0, 0, 0}) {
		return fmt.Errorf("refkeccak self-test: left/right_encode")
	}
	// bytepad: aligned input gets nothing appended
	if n := len(Bytepad(make([]byte, 166), 168)); n != 168 {
		return fmt.Errorf("refkeccak self-test: bytepad of aligned input has length %d", n)
	}
	if n := len(Bytepad(make([]byte, 167), 168)); n != 336 {
		return fmt.Errorf("refkeccak self-test: bytepad of 169 bytes has length %d", n)
	}
	for _, v := range hashlibVectors {
		m := vectorMsg(v.msgLen)
		if err := chk(fmt.Sprintf("hashlib sha3_256 len %d", v.msgLen), SHA3_256(m), v.sha3_256); err != nil {
			return err
		}
		if err := chk(fmt.Sprintf("hashlib sha3_384 len %d", v.msgLen), SHA3_384(m), v.sha3_384); err != nil {
			return err
		}
		if err := chk(fmt.Sprintf("hashlib shake_128 len %d", v.msgLen), SHAKE128(m, len(v.shake128)/2), v.shake128); err != nil {
			return err
		}
	}
	return nil
}
