package refkeccak

import "testing"

func TestSelf(t *testing.T) {
	if err := SelfTest(); err != nil {
		t.Fatal(err)
	}
}

func BenchmarkPermutation(b *testing.B) {
	var a state
	for i := 0; i < b.N; i++ {
		keccakF(&a)
	}
}
