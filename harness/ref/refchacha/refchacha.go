// Package refchacha is a deliberately naive RFC 8439 ChaCha20 keystream generator
// (independent of golang.org/x/crypto/chacha20).
package refchacha

import (
	"bytes"
	"encoding/binary"
	"encoding/hex"
	"fmt"
)

func rotl(x uint32, n uint) uint32 { return x<<n | x>>(32-n) }

func qr(s *[16]uint32, a, b, c, d int) {
	s[a] += s[b]
	s[d] ^= s[a]
	s[d] = rotl(s[d], 16)
	s[c] += s[d]
	s[b] ^= s[c]
	s[b] = rotl(s[b], 12)
	s[a] += s[b]
	s[d] ^= s[a]
	s[d] = rotl(s[d], 8)
	s[c] += s[d]
	s[b] ^= s[c]
	s[b] = rotl(s[b], 7)
}

// Block returns the 64-byte ChaCha20 block for (key, counter, nonce) per RFC 8439 2.3.
func Block(key []byte, counter uint32, nonce []byte) [64]byte {
	var st [16]uint32
	st[0], st[1], st[2], st[3] = 0x61707865, 0x3320646e, 0x79622d32, 0x6b206574
	for i := 0; i < 8; i++ {
		st[4+i] = binary.LittleEndian.Uint32(key[4*i:])
	}
	st[12] = counter
	for i := 0; i < 3; i++ {
		st[13+i] = binary.LittleEndian.Uint32(nonce[4*i:])
	}
	w := st
	for i := 0; i < 10; i++ {
		qr(&w, 0, 4, 8, 12)
		qr(&w, 1, 5, 9, 13)
		qr(&w, 2, 6, 10, 14)
		qr(&w, 3, 7, 11, 15)
		qr(&w, 0, 5, 10, 15)
		qr(&w, 1, 6, 11, 12)
		qr(&w, 2, 7, 8, 13)
		qr(&w, 3, 4, 9, 14)
	}
	var out [64]byte
	for i := 0; i < 16; i++ {
		binary.LittleEndian.PutUint32(out[4*i:], w[i]+st[i])
	}
	return out
}

// Keystream returns bytes [off, off+n) of the keystream with block counter starting at 0.
func Keystream(key, nonce []byte, off, n int) []byte {
	out := make([]byte, 0, n)
	for len(out) < n {
		pos := off + len(out)
		b := Block(key, uint32(pos/64), nonce)
		out = append(out, b[pos%64:]...)
	}
	return out[:n]
}

// SelfTest checks the RFC 8439 section 2.3.2 block vector.
func SelfTest() error {
	key := make([]byte, 32)
	for i := range key {
		key[i] = byte(i)
	}
	nonce, _ := hex.DecodeString("000000090000004a00000000")
	want, _ := hex.DecodeString("10f1e7e4d13b5915500fdd1fa32071c4c7d1f4c733c068030422aa9ac3d46c4ed2826446079faa0914c2d705d98b02a2b5129cd1de164eb9cbd083e8a2503c4e")
	got := Block(key, 1, nonce)
	if !bytes.Equal(got[:], want) {
		return fmt.Errorf("refchacha self-test failed: %x", got)
	}
	return nil
}
