package refbls

import (
	"math/big"
	"testing"
	"time"
)

func TestSelfTest(t *testing.T) {
	t0 := time.Now()
	if err := SelfTest(); err != nil {
		t.Fatal(err)
	}
	t.Logf("SelfTest took %v", time.Since(t0))
}

func TestMulSpeed(t *testing.T) {
	k := new(big.Int).Sub(R, big.NewInt(12345))
	g1, g2 := G1Gen(), G2Gen()
	t0 := time.Now()
	for i := 0; i < 20; i++ {
		g1.Mul(k)
	}
	d1 := time.Since(t0) / 20
	t0 = time.Now()
	for i := 0; i < 20; i++ {
		g2.Mul(k)
	}
	d2 := time.Since(t0) / 20
	t.Logf("255-bit Mul: G1 %v, G2 %v", d1, d2)
	if d2 > 10*time.Millisecond {
		t.Errorf("G2 Mul too slow: %v", d2)
	}
}

func BenchmarkG2Mul(b *testing.B) {
	k := new(big.Int).Sub(R, big.NewInt(12345))
	g2 := G2Gen()
	for i := 0; i < b.N; i++ {
		g2.Mul(k)
	}
}
